import TongoModel.TlbSchema
import TongoProofs.Lemmas.Bits
import TongoProofs.Lemmas.TlbSpec
/-! The Go descriptor `goBody` that a TL-B declaration denotes MATCHES (C04's decidable matcher `agreeb`) the TL-B
prescription `specBody` of the same declaration — for every schema of the subset (`TSchema.ok`), by induction over the
declared types (each refers to earlier ones only), their constructors, fields and type expressions. The matcher is
sound (`Spec.SInv.all`, C04), which gives `tlb_schema_sound` in TongoProofs/C09.lean. -/
namespace Tongo.TlbSchema
open Tongo Tongo.Tlb Tongo.Tlb.Spec Tongo.Bits

/-- what the induction over the types knows about the types before `cur` -/
structure Prev (env : Env) (senv : SEnv) (names : List String) (B cur : Nat) : Prop where
  look : ∀ n, names.contains n = true → idxOf names n < cur →
    ∃ t s, env (idxOf names n) = some t ∧ senv n = some s ∧ ∀ k, (idxOf names n + 1) * B ≤ k → agreeb env senv k t s = true

theorem goTyI_not_magic (names : List String) (e : TExpr) : (goTyI names e).isMagic = false := by
  cases e <;> simp only [goTyI] <;> first | rfl | (split <;> rfl)

theorem agree_expr {env : Env} {senv : SEnv} {names : List String} {B cur : Nat} (hp : Prev env senv names B cur)
    (e : TExpr) (hok : exprOkI names cur e = true) :
    ∀ k, 2 * e.depth + cur * B ≤ k → agreeb env senv k (goTyI names e) (specI e) = true := by
  induction e with
  | uint n =>
    intro k hk
    obtain ⟨k, rfl⟩ : ∃ k', k = k' + 1 := ⟨k - 1, by simp [TExpr.depth] at hk; omega⟩
    simp only [exprOkI, Bool.or_eq_true, decide_eq_true_eq, beq_iff_eq] at hok
    by_cases h : n ≤ 64
    · simp [goTyI, specI, agreeb, h]
    · simp [goTyI, specI, agreeb, h, agreePrim]; omega
  | natN n =>
    intro k hk
    obtain ⟨k, rfl⟩ : ∃ k', k = k' + 1 := ⟨k - 1, by simp [TExpr.depth] at hk; omega⟩
    simp only [exprOkI, Bool.or_eq_true, decide_eq_true_eq, beq_iff_eq] at hok
    by_cases h : n ≤ 64
    · simp [goTyI, specI, agreeb, h]
    · simp [goTyI, specI, agreeb, h, agreePrim]; omega
  | int n =>
    intro k hk
    obtain ⟨k, rfl⟩ : ∃ k', k = k' + 1 := ⟨k - 1, by simp [TExpr.depth] at hk; omega⟩
    simp only [exprOkI, Bool.or_eq_true, Bool.and_eq_true, decide_eq_true_eq, beq_iff_eq] at hok
    by_cases h : n ≤ 64
    · simp [goTyI, specI, agreeb, h]; omega
    · simp [goTyI, specI, agreeb, h, agreePrim]; omega
  | bits n =>
    intro k hk
    obtain ⟨k, rfl⟩ : ∃ k', k = k' + 1 := ⟨k - 1, by simp [TExpr.depth] at hk; omega⟩
    simp only [exprOkI, beq_iff_eq] at hok
    simp [goTyI, specI, agreeb]; omega
  | bool =>
    intro k hk
    obtain ⟨k, rfl⟩ : ∃ k', k = k' + 1 := ⟨k - 1, by simp [TExpr.depth] at hk; omega⟩
    simp [goTyI, specI, agreeb]
  | coins =>
    intro k hk
    obtain ⟨k, rfl⟩ : ∃ k', k = k' + 1 := ⟨k - 1, by simp [TExpr.depth] at hk; omega⟩
    simp [goTyI, specI, agreeb, agreePrim]
  | varUint n =>
    intro k hk
    obtain ⟨k, rfl⟩ : ∃ k', k = k' + 1 := ⟨k - 1, by simp [TExpr.depth] at hk; omega⟩
    simp only [exprOkI, Bool.and_eq_true, decide_eq_true_eq] at hok
    simp [goTyI, specI, agreeb, agreePrim, hok.1, hok.2]
  | msgAddress =>
    intro k hk
    obtain ⟨k, rfl⟩ : ∃ k', k = k' + 1 := ⟨k - 1, by simp [TExpr.depth] at hk; omega⟩
    simp [goTyI, specI, agreeb, agreePrim]
  | cell =>
    intro k hk
    obtain ⟨k, rfl⟩ : ∃ k', k = k' + 1 := ⟨k - 1, by simp [TExpr.depth] at hk; omega⟩
    simp [goTyI, specI, agreeb, agreePrim]
  | named n =>
    intro k hk
    obtain ⟨k, rfl⟩ : ∃ k', k = k' + 1 := ⟨k - 1, by simp [TExpr.depth] at hk; omega⟩
    simp only [exprOkI, Bool.and_eq_true, decide_eq_true_eq] at hok
    obtain ⟨t, s, ht, hs, hag⟩ := hp.look n hok.1 hok.2
    simp only [goTyI, specI, agreeb, ht, hs]
    apply hag
    simp only [TExpr.depth] at hk
    have : (idxOf names n + 1) * B ≤ cur * B := Nat.mul_le_mul_right B hok.2
    omega
  | ref t ih =>
    intro k hk
    simp only [TExpr.depth] at hk
    obtain ⟨k, rfl⟩ : ∃ k', k = k' + 2 := ⟨k - 2, by omega⟩
    simp only [exprOkI] at hok
    simp only [goTyI, specI, agreeb, agreeRef]
    exact ih hok k (by omega)
  | maybe t _ => simp [exprOkI] at hok
  | either l r ihl ihr =>
    intro k hk
    simp only [TExpr.depth] at hk
    obtain ⟨k, rfl⟩ : ∃ k', k = k' + 2 := ⟨k - 2, by omega⟩
    simp only [exprOkI, Bool.and_eq_true] at hok
    have hl : l.depth ≤ Nat.max l.depth r.depth := Nat.le_max_left ..
    have hr : r.depth ≤ Nat.max l.depth r.depth := Nat.le_max_right ..
    by_cases h : r = .ref l
    · subst h
      simp only [goTyI, specI, if_true, agreeb, Bool.and_eq_true, agreeRef]
      exact ⟨ihl hok.1 (k + 1) (by omega), ihl hok.1 k (by omega)⟩
    · simp only [goTyI, specI, h, if_false, agreeb, Bool.and_eq_true]
      exact ⟨ihl hok.1 (k + 1) (by omega), ihr hok.2 (k + 1) (by omega)⟩
  | hashmapE n v ih =>
    intro k hk
    simp only [TExpr.depth] at hk
    obtain ⟨k, rfl⟩ : ∃ k', k = k' + 2 := ⟨k - 2, by omega⟩
    simp only [exprOkI, Bool.and_eq_true, Bool.or_eq_true, decide_eq_true_eq, beq_iff_eq] at hok
    have hv := ih hok.2 (k + 1) (by omega)
    have hkey : keyWidth (dictKeyTy n) = some n ∧ agreeb env senv (k + 1) (dictKeyTy n) (dictKeySpec n) = true := by
      unfold dictKeyTy dictKeySpec
      by_cases h64 : n ≤ 64
      · simp [h64, keyWidth, agreeb]
      · rcases hok.1 with h | h
        · exact absurd h h64
        · have : n / 8 * 8 = n := by omega
          simp [h64, keyWidth, agreeb, this]
    have hstep : agreeb env senv (k + 2) (.dictE (dictKeyTy n) (goTyI names v)) (.hashmapE n (dictKeySpec n) (specI v)) =
        (keyWidth (dictKeyTy n) == some n && agreeb env senv (k + 1) (dictKeyTy n) (dictKeySpec n) &&
          agreeb env senv (k + 1) (goTyI names v) (specI v)) := rfl
    simp only [goTyI, specI]
    rw [hstep, hkey.1, hkey.2, hv]
    simp

theorem agree_field {env : Env} {senv : SEnv} {names : List String} {B cur : Nat} (hp : Prev env senv names B cur)
    (e : TExpr) (hok : fieldOk names cur e = true) :
    ∀ k, 2 * e.depth + cur * B + 2 ≤ k →
      agreeField env senv k (goField names e).1 (goField names e).2 (specI e) = true := by
  intro k hk
  obtain ⟨k, rfl⟩ : ∃ k', k = k' + 1 := ⟨k - 1, by omega⟩
  have plain : ∀ e', exprOkI names cur e' = true → 2 * e'.depth + cur * B ≤ k →
      agreeField env senv (k + 1) .plain (goTyI names e') (specI e') = true := by
    intro e' h1 h2
    simp only [agreeField, goTyI_not_magic, Bool.false_eq_true, if_false]
    exact agree_expr hp e' h1 k h2
  cases e with
  | ref t =>
    simp only [fieldOk] at hok
    simp only [TExpr.depth] at hk
    obtain ⟨k, rfl⟩ : ∃ k', k = k' + 1 := ⟨k - 1, by omega⟩
    simp only [goField, specI, agreeField, goTyI_not_magic, Bool.false_eq_true, if_false, agreeRef]
    exact agree_expr hp t hok k (by omega)
  | maybe t =>
    cases t with
    | ref t' =>
      simp only [fieldOk] at hok
      simp only [TExpr.depth] at hk
      obtain ⟨k, rfl⟩ : ∃ k', k = k' + 1 := ⟨k - 1, by omega⟩
      simp only [goField, specI, agreeField, Ty.isMagic, Bool.false_eq_true, if_false, agreeRef]
      exact agree_expr hp t' hok k (by omega)
    | _ =>
      simp only [fieldOk] at hok
      simp only [TExpr.depth] at hk
      simp only [goField, specI, agreeField, Ty.isMagic, Bool.false_eq_true, if_false]
      exact agree_expr hp _ hok k (by simp only [TExpr.depth]; omega)
  | _ =>
    simp only [fieldOk] at hok
    exact plain _ hok (by omega)

theorem nameAgrees_self (n : String) : nameAgrees n n = true := by
  simp [nameAgrees]

theorem tagAgrees_goTag (bits : List Bool) (h : bits.length ≤ 32) : tagAgrees (goTag bits) bits = true := by
  have h1 : bits.length ≤ 64 := by omega
  simp [tagAgrees, goTag, Tag.ok, h1, bitsToNat_lt bits, natToBits_bitsToNat bits]

theorem agree_fields {env : Env} {senv : SEnv} {names : List String} {B cur : Nat} (hp : Prev env senv names B cur)
    (M : Nat) (fs : List TField) (hM : ∀ f ∈ fs, 2 * f.ty.depth ≤ M)
    (hok : ∀ f ∈ fs, fieldOk names cur f.ty = true) :
    ∀ k, fs.length + M + cur * B + 3 ≤ k → agreeFields env senv k (goFields names fs) (specFields fs) = true := by
  induction fs with
  | nil =>
    intro k hk
    obtain ⟨k, rfl⟩ : ∃ k', k = k' + 1 := ⟨k - 1, by omega⟩
    simp [goFields, specFields, agreeFields]
  | cons f fs ih =>
    intro k hk
    obtain ⟨k, rfl⟩ : ∃ k', k = k' + 1 := ⟨k - 1, by omega⟩
    simp only [List.length_cons] at hk
    have hf := hM f (List.mem_cons_self ..)
    simp only [goFields, specFields, agreeFields, nameAgrees_self, Bool.true_and, Bool.and_eq_true]
    refine ⟨agree_field hp f.ty (hok f (List.mem_cons_self ..)) k (by omega), ?_⟩
    exact ih (fun g hg => hM g (List.mem_cons_of_mem _ hg)) (fun g hg => hok g (List.mem_cons_of_mem _ hg)) k (by omega)

theorem agree_ctors {env : Env} {senv : SEnv} {names : List String} {B cur : Nat} (hp : Prev env senv names B cur)
    (M F : Nat) (ds : List TDecl) (hM : ∀ d ∈ ds, ∀ f ∈ d.fields, 2 * f.ty.depth ≤ M)
    (hF : ∀ d ∈ ds, d.fields.length ≤ F) (hok : ∀ d ∈ ds, declOk names cur d = true) :
    ∀ k, ds.length + F + M + cur * B + 5 ≤ k → agreeCtors env senv k (goCtors names ds) (specCtors ds) = true := by
  induction ds with
  | nil =>
    intro k hk
    obtain ⟨k, rfl⟩ : ∃ k', k = k' + 1 := ⟨k - 1, by omega⟩
    simp [goCtors, specCtors, agreeCtors]
  | cons d ds ih =>
    intro k hk
    obtain ⟨k, rfl⟩ : ∃ k', k = k' + 2 := ⟨k - 2, by omega⟩
    simp only [List.length_cons] at hk
    have hd := hok d (List.mem_cons_self ..)
    simp only [declOk, Bool.and_eq_true, decide_eq_true_eq, List.all_eq_true] at hd
    simp only [goCtors, specCtors, agreeCtors, tagAgrees_goTag d.tag hd.1, beq_self_eq_true, Bool.true_and,
      Bool.and_eq_true, agreeb]
    refine ⟨agree_fields hp M d.fields (hM d (List.mem_cons_self ..)) (fun f hf => hd.2 f hf) k ?_, ?_⟩
    · have := hF d (List.mem_cons_self ..); omega
    · exact ih (fun e he => hM e (List.mem_cons_of_mem _ he)) (fun e he => hF e (List.mem_cons_of_mem _ he))
        (fun e he => hok e (List.mem_cons_of_mem _ he)) (k + 1) (by omega)

theorem agree_body {env : Env} {senv : SEnv} {names : List String} {B cur : Nat} (hp : Prev env senv names B cur)
    (M F : Nat) (cs : List TDecl) (hM : ∀ d ∈ cs, ∀ f ∈ d.fields, 2 * f.ty.depth ≤ M)
    (hF : ∀ d ∈ cs, d.fields.length ≤ F) (hok : bodyOk names cur cs = true) :
    ∀ k, cs.length + F + M + cur * B + 8 ≤ k → agreeb env senv k (goBody names cs) (specBody cs) = true := by
  intro k hk
  simp only [bodyOk, Bool.and_eq_true, List.all_eq_true] at hok
  have sumCase : agreeb env senv k (.sum (goCtors names cs)) (.sum (specCtors cs)) = true := by
    obtain ⟨k, rfl⟩ : ∃ k', k = k' + 1 := ⟨k - 1, by omega⟩
    simp only [agreeb]
    exact agree_ctors hp M F cs hM hF hok.1 k (by omega)
  rcases cs with _ | ⟨d, _ | ⟨d2, rest⟩⟩
  · simpa [goBody, specBody] using sumCase
  · have hd := hok.1 d (List.mem_cons_self ..)
    simp only [declOk, Bool.and_eq_true, decide_eq_true_eq, List.all_eq_true] at hd
    have hfs := fun k hk' => agree_fields hp M d.fields (hM d (List.mem_cons_self ..)) (fun f hf => hd.2 f hf) k hk'
    have hlen := hF d (List.mem_cons_self ..)
    simp only [List.length_cons, List.length_nil] at hk
    by_cases ht : d.tag.isEmpty = true
    · obtain ⟨k, rfl⟩ : ∃ k', k = k' + 1 := ⟨k - 1, by omega⟩
      simp only [goBody, specBody, ht, if_true, agreeb]
      exact hfs k (by omega)
    · obtain ⟨k, rfl⟩ : ∃ k', k = k' + 3 := ⟨k - 3, by omega⟩
      simp only [goBody, specBody, ht, Bool.false_eq_true, if_false, agreeb, agreeFields, nameAgrees_self, Bool.true_and,
        agreeField, Ty.isMagic, if_true, magicAgree, tagAgrees_goTag d.tag hd.1]
      exact hfs (k + 1) (by omega)
  · simpa [goBody, specBody] using sumCase

/-! ### the whole schema -/

theorem foldl_max_ge (l : List Nat) (a : Nat) : a ≤ l.foldl Nat.max a := by
  induction l generalizing a with
  | nil => exact Nat.le_refl _
  | cons x l ih => exact Nat.le_trans (Nat.le_max_left a x) (ih (Nat.max a x))

theorem le_foldl_max (l : List Nat) (a x : Nat) (h : x ∈ l) : x ≤ l.foldl Nat.max a := by
  induction l generalizing a with
  | nil => cases h
  | cons y l ih =>
    rcases List.mem_cons.mp h with rfl | h
    · exact Nat.le_trans (Nat.le_max_right a x) (foldl_max_ge l _)
    · exact ih _ h

theorem fields_le_max (S : TSchema) (d : TDecl) (hd : d ∈ S.decls) : d.fields.length ≤ S.maxFields :=
  le_foldl_max _ 0 _ (List.mem_map.mpr ⟨d, hd, rfl⟩)

theorem depth_le (S : TSchema) (d : TDecl) (hd : d ∈ S.decls) (f : TField) (hf : f ∈ d.fields) :
    f.ty.depth ≤ S.depth := by
  have h1 : f.ty.depth ≤ (d.fields.map fun f => f.ty.depth).foldl Nat.max 0 :=
    le_foldl_max _ 0 _ (List.mem_map.mpr ⟨f, hf, rfl⟩)
  have h2 : (d.fields.map fun f => f.ty.depth).foldl Nat.max 0 ≤ S.depth :=
    le_foldl_max _ 0 _ (List.mem_map.mpr ⟨d, hd, rfl⟩)
  exact Nat.le_trans h1 h2

theorem ctorsOf_sub (S : TSchema) (t : String) (d : TDecl) (h : d ∈ S.ctorsOf t) : d ∈ S.decls :=
  (List.mem_filter.mp h).1

theorem idxOf_get (names : List String) (n : String) (h : idxOf names n < names.length) :
    names[idxOf names n] = n := by
  have := List.findIdx_getElem (p := (· == n)) (xs := names) (w := h)
  exact (beq_iff_eq.mp this)

/-- **every declared type of a schema of the subset: the Go descriptor matches the TL-B prescription** -/
theorem agree_types (S : TSchema) (hok : S.ok = true) :
    ∀ i (hi : i < S.typeNames.length), ∀ k, (i + 1) * S.bound ≤ k →
      agreeb S.goEnv S.specEnv k (goBody S.typeNames (S.ctorsOf S.typeNames[i]))
        (specBody (S.ctorsOf S.typeNames[i])) = true := by
  intro i
  induction i using Nat.strong_induction_on with
  | _ i ih =>
    intro hi k hk
    have hprev : Prev S.goEnv S.specEnv S.typeNames S.bound i := by
      refine ⟨fun n hc hidx => ?_⟩
      have hlt : idxOf S.typeNames n < S.typeNames.length := Nat.lt_trans hidx hi
      have hn := idxOf_get S.typeNames n hlt
      refine ⟨goBody S.typeNames (S.ctorsOf n), specBody (S.ctorsOf n), ?_, ?_, ?_⟩
      · simp [TSchema.goEnv, envOfList, TSchema.goBodies, hlt, hn]
      · have hm : n ∈ S.typeNames := by simpa using hc
        simp [TSchema.specEnv, hm]
      · intro k hk
        have := ih (idxOf S.typeNames n) hidx hlt k hk
        rwa [hn] at this
    have hbody : bodyOk S.typeNames i (S.ctorsOf S.typeNames[i]) = true := by
      have h := hok
      simp only [TSchema.ok, List.all_eq_true, List.mem_range] at h
      have := h i hi
      simpa [List.getElem?_eq_getElem hi] using this
    apply agree_body hprev (2 * S.depth) S.maxFields _ ?_ ?_ hbody k ?_
    · intro d hd f hf
      have := depth_le S d (ctorsOf_sub S _ d hd) f hf
      omega
    · intro d hd
      exact fields_le_max S d (ctorsOf_sub S _ d hd)
    · have hlen : (S.ctorsOf S.typeNames[i]).length ≤ S.decls.length := List.length_filter_le _ _
      rw [Nat.succ_mul] at hk
      simp only [TSchema.bound] at hk ⊢
      omega

end Tongo.TlbSchema
