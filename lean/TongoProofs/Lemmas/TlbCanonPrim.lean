import TongoModel.Tlb.CanonCell
import TongoProofs.Lemmas.TlbCanon
import TongoProofs.Lemmas.TlbPrims
/-! The converse direction for cells: `EDc` — whatever a decoder consumed of a slice that passes the canonicity check is
what the encoder writes for the value it returned (bits AND references). Leaf cases: the hand-written codecs the types
of the property hold (`Any`, `Grams`, `VarUInteger n`, `MsgAddress`, the status enumerations). -/
namespace Tongo.Tlb
open Tongo Tongo.Bits

/-- `can s = some rest`: `s` starts with a canonical serialisation and `rest` is what follows it. Then the decoder's
value is re-encoded to exactly that chunk; for a non-greedy decoder `rest` is also what the decoder leaves. -/
def EDc (dec : Slice → Outcome (Val × Slice)) (enc : Val → Builder → Outcome Builder)
    (can : Slice → Option Slice) (ng : Prop) : Prop :=
  ∀ s v s', dec s = .ok (v, s') → ∀ rest, can s = some rest →
    ∃ xs rs, s = rest.prepend xs rs ∧ (∀ b b', enc v b = .ok b' → b' = b.app xs rs) ∧ (ng → rest = s')

/-- a type-level canonical codec (`ED`, no references) is canonical on every slice it accepts -/
theorem EDc.of_ED {dec enc} (h : ED dec enc) (ng : Prop) : EDc dec enc (fun s => restOf (dec s)) ng := by
  intro s v s' hd rest hr
  simp only [hd, restOf, Option.some.injEq] at hr
  subst hr
  obtain ⟨xs, e, henc⟩ := h s v s' hd
  exact ⟨xs, [], e, henc, fun _ => rfl⟩

theorem restOf_some {α} {o : Outcome (α × Slice)} {r : Slice} (h : restOf o = some r) : ∃ a, o = .ok (a, r) := by
  unfold restOf at h
  split at h
  · cases h; exact ⟨_, rfl⟩
  · cases h

/-! ### Any -/
theorem edc_any : EDc (Prim.dec .any) (Prim.enc .any) (canonPrim .any) False := by
  intro s v s' hd rest hr
  simp only [Prim.dec, Outcome.ok.injEq, Prod.mk.injEq] at hd
  obtain ⟨rfl, rfl⟩ := hd
  simp only [canonPrim, Option.some.injEq] at hr
  subst hr
  refine ⟨s.bits, s.refs, by cases s; simp [Slice.prepend], ?_, fun h => h.elim⟩
  intro b b' he
  simp only [Prim.enc] at he
  obtain ⟨b1, hb1, he2⟩ := bind_ok_inv he
  rw [foldl_addRef_ok _ _ _ he2, Builder.writeBits_ok hb1, Builder.app_app]
  simp

/-! ### the status enumerations and MsgAddress: every accepted serialisation is the encoder's -/
theorem readUint_small {s s' : Slice} {n v : Nat} (h : s.readUint n = .ok (v, s')) :
    ∃ bs, s = s'.prepend bs [] ∧ bs.length = n ∧ v = bitsToNat bs ∧ n ≤ 64 := by
  obtain ⟨h64, bs, e, hl, hv⟩ := readUint_inv h
  exact ⟨bs, e, hl, hv, h64⟩

theorem writeUint_of_bits (b b' : Builder) (bs : List Bool) (n v : Nat) (hl : bs.length = n) (hn : n ≤ 64)
    (hv : v = bitsToNat bs) (h : b.writeUint v n = .ok b') : b' = b.app bs [] := by
  subst hl hv
  exact writeUint_bits b b' bs hn h

theorem two_bits (bs : List Bool) (h : bs.length = 2) :
    bitsToNat bs = 0 ∨ bitsToNat bs = 1 ∨ bitsToNat bs = 2 ∨ bitsToNat bs = 3 := by
  match bs, h with
  | [a, b], _ => cases a <;> cases b <;> simp [bitsToNat]

theorem ed_accountStatus : ED (Prim.dec .accountStatus) (Prim.enc .accountStatus) := by
  intro s v s' hd
  simp only [Prim.dec, Prim.decAccountStatus] at hd
  obtain ⟨r, hr, h2⟩ := bind_ok_inv hd
  obtain ⟨t, s1⟩ := r
  simp only [pure, Outcome.ok.injEq, Prod.mk.injEq] at h2
  obtain ⟨rfl, rfl⟩ := h2
  obtain ⟨bs, e, hl, hv, _⟩ := readUint_small hr
  refine ⟨bs, e, ?_⟩
  intro b b' he
  simp only [Prim.enc, Prim.encAccountStatus] at he
  rcases two_bits bs hl with h0 | h0 | h0 | h0 <;> rw [hv, h0] at he <;>
    simp (config := { decide := true }) only [↓reduceIte] at he <;>
    exact writeUint_of_bits b b' bs 2 _ hl (by omega) h0.symm he

theorem ed_accStatusChange : ED (Prim.dec .accStatusChange) (Prim.enc .accStatusChange) := by
  intro s v s' hd
  simp only [Prim.dec, Prim.decAccStatusChange] at hd
  obtain ⟨r, hr, h2⟩ := bind_ok_inv hd
  obtain ⟨f, s1⟩ := r
  cases f with
  | false =>
    simp only [Bool.false_eq_true, ↓reduceIte, pure, Outcome.ok.injEq, Prod.mk.injEq] at h2
    obtain ⟨rfl, rfl⟩ := h2
    refine ⟨[false], readBit_inv hr, ?_⟩
    intro b b' he
    simp only [Prim.enc, Prim.encAccStatusChange, ↓reduceIte, Builder.writeBit] at he
    exact Builder.writeBits_ok he
  | true =>
    simp only [↓reduceIte] at h2
    obtain ⟨r2, hr2, h3⟩ := bind_ok_inv h2
    obtain ⟨d, s2⟩ := r2
    simp only [pure, Outcome.ok.injEq, Prod.mk.injEq] at h3
    obtain ⟨rfl, rfl⟩ := h3
    refine ⟨[true, d], by rw [readBit_inv hr, readBit_inv hr2, prepend_prepend_nil]; rfl, ?_⟩
    intro b b' he
    simp only [Prim.enc, Prim.encAccStatusChange] at he
    cases d <;> simp (config := { decide := true }) only [↓reduceIte, Bool.false_eq_true] at he <;>
      (obtain ⟨b1, hb1, he2⟩ := bind_ok_inv he
       rw [Builder.writeBits_ok he2, Builder.writeBits_ok hb1, app_app_nil]; rfl)

theorem ed_computeSkipReason : ED (Prim.dec .computeSkipReason) (Prim.enc .computeSkipReason) := by
  intro s v s' hd
  simp only [Prim.dec, Prim.decComputeSkipReason] at hd
  obtain ⟨r, hr, h2⟩ := bind_ok_inv hd
  obtain ⟨t, s1⟩ := r
  obtain ⟨bs, e, hl, hv, _⟩ := readUint_small hr
  simp only at h2
  rcases two_bits bs hl with h0 | h0 | h0 | h0 <;> rw [hv, h0] at h2 <;>
    simp (config := { decide := true }) only [↓reduceIte, pure, Outcome.ok.injEq, Prod.mk.injEq] at h2
  · obtain ⟨rfl, rfl⟩ := h2
    refine ⟨bs, e, fun b b' he => ?_⟩
    simp (config := { decide := true }) only [Prim.enc, Prim.encComputeSkipReason, ↓reduceIte] at he
    exact writeUint_of_bits b b' bs 2 _ hl (by omega) h0.symm he
  · obtain ⟨rfl, rfl⟩ := h2
    refine ⟨bs, e, fun b b' he => ?_⟩
    simp (config := { decide := true }) only [Prim.enc, Prim.encComputeSkipReason, ↓reduceIte] at he
    exact writeUint_of_bits b b' bs 2 _ hl (by omega) h0.symm he
  · obtain ⟨rfl, rfl⟩ := h2
    refine ⟨bs, e, fun b b' he => ?_⟩
    simp (config := { decide := true }) only [Prim.enc, Prim.encComputeSkipReason, ↓reduceIte] at he
    exact writeUint_of_bits b b' bs 2 _ hl (by omega) h0.symm he
  · obtain ⟨r2, hr2, h3⟩ := bind_ok_inv h2
    obtain ⟨nb, s2⟩ := r2
    obtain ⟨cs, e2, hl2, hv2, _⟩ := readUint_small hr2
    simp only at h3
    split at h3
    · rename_i hnb
      simp only [pure, Outcome.ok.injEq, Prod.mk.injEq] at h3
      obtain ⟨rfl, rfl⟩ := h3
      refine ⟨bs ++ cs, by rw [e, e2, prepend_prepend_nil], fun b b' he => ?_⟩
      simp (config := { decide := true }) only [Prim.enc, Prim.encComputeSkipReason, ↓reduceIte] at he
      obtain ⟨b1, hb1, he2⟩ := bind_ok_inv he
      have e3 := writeUint_of_bits b b1 bs 2 _ hl (by omega) h0.symm hb1
      have e4 := writeUint_of_bits b1 b' cs 1 _ hl2 (by omega) (by rw [← hv2]; exact hnb.symm) he2
      rw [e4, e3, app_app_nil]
    · cases h3

/-! ### read-then-write inverses of the bit-level primitives -/

/-- `R s s' xs`: the reader went from `s` to `s'` over the bits `xs` -/
abbrev Over (s s' : Slice) (xs : List Bool) : Prop := s = s'.prepend xs []

theorem Over.trans {s s1 s2 : Slice} {xs ys : List Bool} (h1 : Over s s1 xs) (h2 : Over s1 s2 ys) :
    Over s s2 (xs ++ ys) := by
  unfold Over at *; rw [h1, h2, prepend_prepend_nil]

theorem rw_uint {s s' : Slice} {n v : Nat} (h : s.readUint n = .ok (v, s')) :
    ∃ bs, Over s s' bs ∧ bs.length = n ∧ v = bitsToNat bs ∧ ∀ (b b' : Builder), b.writeUint v n = .ok b' → b' = b.app bs [] := by
  obtain ⟨bs, e, hl, hv, h64⟩ := readUint_small h
  exact ⟨bs, e, hl, hv, fun b b' he => writeUint_of_bits b b' bs n v hl h64 hv he⟩

theorem rw_int {s s' : Slice} {n : Nat} {v : Int} (h : s.readInt n = .ok (v, s')) :
    ∃ bs, Over s s' bs ∧ bs.length = n ∧ ∀ (b b' : Builder), b.writeInt v n = .ok b' → b' = b.app bs [] := by
  unfold Slice.readInt at h
  split at h
  · cases h
  · rename_i h64
    split at h
    · cases h
    · rename_i h0
      obtain ⟨r2, hr2, h3⟩ := bind_ok_inv h
      obtain ⟨bs, s2⟩ := r2
      simp only [pure, Outcome.ok.injEq, Prod.mk.injEq] at h3
      obtain ⟨rfl, rfl⟩ := h3
      obtain ⟨e, hlen⟩ := readBits_inv hr2
      refine ⟨bs, e, hlen, ?_⟩
      intro b b' he
      have h1 : 1 ≤ bs.length := by omega
      obtain ⟨lo, hi⟩ := bitsToInt_range bs h1
      subst hlen
      rw [Builder.writeInt_repr _ _ _ h1 lo hi] at he
      rw [intBitsGo_eq bs.length (bitsToInt bs) h1 (by omega) lo hi, intToBits_bitsToInt bs h1] at he
      exact Builder.writeBits_ok he

theorem readBytes_len {s s' : Slice} {n : Nat} {v : List UInt8} (h : s.readBytes n = .ok (v, s')) :
    s.bits.length = n * 8 + s'.bits.length := by
  unfold Slice.readBytes at h
  obtain ⟨r2, hr2, h3⟩ := bind_ok_inv h
  obtain ⟨bs, s2⟩ := r2
  simp only [pure, Outcome.ok.injEq, Prod.mk.injEq] at h3
  obtain ⟨rfl, rfl⟩ := h3
  obtain ⟨e, hlen⟩ := readBits_inv hr2
  rw [e]; simp [Slice.prepend, hlen]

theorem rw_bytes {s s' : Slice} {n : Nat} {v : List UInt8} (h : s.readBytes n = .ok (v, s')) :
    ∃ bs, Over s s' bs ∧ ∀ (b b' : Builder), b.writeBytes v = .ok b' → b' = b.app bs [] := by
  unfold Slice.readBytes at h
  obtain ⟨r2, hr2, h3⟩ := bind_ok_inv h
  obtain ⟨bs, s2⟩ := r2
  simp only [pure, Outcome.ok.injEq, Prod.mk.injEq] at h3
  obtain ⟨rfl, rfl⟩ := h3
  obtain ⟨e, hlen⟩ := readBits_inv hr2
  refine ⟨bs, e, ?_⟩
  intro b b' he
  simp only [Builder.writeBytes, bytesToBits_bytesOfBits n bs hlen] at he
  exact Builder.writeBits_ok he

theorem readLimUint_eq (s : Slice) (n : Nat) : s.readLimUint n = s.readUint (Builder.limBits n) := rfl

/-! ### Anycast / MsgAddress -/
theorem ed_anycast : ED Prim.decAnycast Prim.encAnycast := by
  intro s v s' hd
  simp only [Prim.decAnycast, readLimUint_eq] at hd
  obtain ⟨r, hr, h2⟩ := bind_ok_inv hd
  obtain ⟨depth, s1⟩ := r
  simp only at h2
  split at h2
  · cases h2
  · obtain ⟨r2, hr2, h3⟩ := bind_ok_inv h2
    obtain ⟨pfx, s2⟩ := r2
    simp only [pure, Outcome.ok.injEq, Prod.mk.injEq] at h3
    obtain ⟨rfl, rfl⟩ := h3
    obtain ⟨bs, e1, hl1, hv1, hw1⟩ := rw_uint hr
    obtain ⟨cs, e2, hl2, hv2, hw2⟩ := rw_uint hr2
    have hlb : Builder.limBits 30 = 5 := by decide
    rw [hlb] at hl1 hw1
    have hd32 : depth < 32 := by rw [hv1]; have := bitsToNat_lt bs; rw [hl1] at this; exact this
    have hp : pfx % 2 ^ 32 = pfx := by
      apply Nat.mod_eq_of_lt
      rw [hv2]
      have := bitsToNat_lt cs
      rw [hl2] at this
      exact Nat.lt_of_lt_of_le this (Nat.pow_le_pow_right (by omega) (by omega))
    refine ⟨bs ++ cs, e1.trans e2, ?_⟩
    intro b b' he
    simp only [Prim.encAnycast, Val.list, Int.toNat_natCast, Builder.writeLimUint, hlb] at he
    obtain ⟨b1, hb1, he2⟩ := bind_ok_inv he
    have hlt : pfx < 2 ^ 32 := by rw [← hp]; exact Nat.mod_lt _ (by decide)
    have : ((pfx : Int) % 2 ^ 32).toNat = pfx := by omega
    rw [this] at he2
    rw [hw2 b1 b' he2, hw1 b b1 hb1, app_app_nil]

theorem ed_maybeAnycast : ED Prim.decMaybeAnycast Prim.encMaybeAnycast := by
  intro s v s' hd
  simp only [Prim.decMaybeAnycast] at hd
  obtain ⟨r, hr, h2⟩ := bind_ok_inv hd
  obtain ⟨ex, s1⟩ := r
  cases ex with
  | false =>
    simp only [Bool.false_eq_true, ↓reduceIte, pure, Outcome.ok.injEq, Prod.mk.injEq] at h2
    obtain ⟨rfl, rfl⟩ := h2
    refine ⟨[false], readBit_inv hr, fun b b' he => ?_⟩
    simp only [Prim.encMaybeAnycast, Builder.writeBit] at he
    exact Builder.writeBits_ok he
  | true =>
    simp only [↓reduceIte] at h2
    obtain ⟨r2, hr2, h3⟩ := bind_ok_inv h2
    obtain ⟨a, s2⟩ := r2
    simp only [pure, Outcome.ok.injEq, Prod.mk.injEq] at h3
    obtain ⟨rfl, rfl⟩ := h3
    obtain ⟨ys, e2, henc⟩ := ed_anycast s1 a s2 hr2
    refine ⟨true :: ys, by rw [readBit_inv hr, e2, prepend_prepend_nil]; rfl, fun b b' he => ?_⟩
    simp only [Prim.encMaybeAnycast, Val.some] at he
    obtain ⟨b1, hb1, he2⟩ := bind_ok_inv he
    rw [henc b1 b' he2, Builder.writeBits_ok hb1, app_app_nil]; rfl

theorem ed_msgAddress : ED (Prim.dec .msgAddress) (Prim.enc .msgAddress) := by
  intro s v s' hd
  simp only [Prim.dec, Prim.decMsgAddress] at hd
  obtain ⟨r, hr, h2⟩ := bind_ok_inv hd
  obtain ⟨t, s1⟩ := r
  obtain ⟨ts, e0, hl0, hv0, hw0⟩ := rw_uint hr
  simp only at h2
  rcases two_bits ts hl0 with h0 | h0 | h0 | h0 <;> rw [hv0, h0] at h2 hw0 <;>
    simp (config := { decide := true }) only [↓reduceIte] at h2
  · -- addr_none$00
    simp only [pure, Outcome.ok.injEq, Prod.mk.injEq] at h2
    obtain ⟨rfl, rfl⟩ := h2
    refine ⟨ts, e0, fun b b' he => ?_⟩
    simp only [Prim.enc, Prim.encMsgAddress, Val.ctor] at he
    exact hw0 b b' he
  · -- addr_extern$01 len:(## 9) external_address:(bits len)
    obtain ⟨r2, hr2, h3⟩ := bind_ok_inv h2
    obtain ⟨ln, s2⟩ := r2
    obtain ⟨r3, hr3, h4⟩ := bind_ok_inv h3
    obtain ⟨bs, s3⟩ := r3
    simp only [pure, Outcome.ok.injEq, Prod.mk.injEq] at h4
    obtain ⟨rfl, rfl⟩ := h4
    obtain ⟨ls, e1, hl1, hv1, hw1⟩ := rw_uint hr2
    obtain ⟨e2, hl2⟩ := readBits_inv hr3
    refine ⟨ts ++ (ls ++ bs), e0.trans (e1.trans e2), fun b b' he => ?_⟩
    simp only [Prim.enc, Prim.encMsgAddress, Val.ctor, Val.some] at he
    obtain ⟨b1, hb1, he2⟩ := bind_ok_inv he
    split at he2
    · cases he2
    · obtain ⟨b2, hb2, he3⟩ := bind_ok_inv he2
      rw [hl2] at hb2
      rw [Builder.writeBits_ok he3, hw1 b1 b2 hb2, hw0 b b1 hb1, app_app_nil, app_app_nil]
  · -- addr_std$10
    obtain ⟨r2, hr2, h3⟩ := bind_ok_inv h2
    obtain ⟨ac, s2⟩ := r2
    obtain ⟨r3, hr3, h4⟩ := bind_ok_inv h3
    obtain ⟨wc, s3⟩ := r3
    obtain ⟨r4, hr4, h5⟩ := bind_ok_inv h4
    obtain ⟨addr, s4⟩ := r4
    simp only [pure, Outcome.ok.injEq, Prod.mk.injEq] at h5
    obtain ⟨rfl, rfl⟩ := h5
    obtain ⟨as, e1, hw1⟩ := ed_maybeAnycast s1 ac s2 hr2
    obtain ⟨ws, e2, _, hw2⟩ := rw_int hr3
    obtain ⟨ds, e3, hw3⟩ := rw_bytes hr4
    refine ⟨ts ++ (as ++ (ws ++ ds)), e0.trans (Over.trans e1 (e2.trans e3)), fun b b' he => ?_⟩
    simp only [Prim.enc, Prim.encMsgAddress, Val.ctor, Val.list] at he
    obtain ⟨b1, hb1, he2⟩ := bind_ok_inv he
    obtain ⟨b2, hb2, he3⟩ := bind_ok_inv he2
    obtain ⟨b3, hb3, he4⟩ := bind_ok_inv he3
    rw [hw3 b3 b' he4, hw2 b2 b3 hb3, hw1 b1 b2 hb2, hw0 b b1 hb1, app_app_nil, app_app_nil, app_app_nil]
  · -- addr_var$11
    obtain ⟨r2, hr2, h3⟩ := bind_ok_inv h2
    obtain ⟨ac, s2⟩ := r2
    obtain ⟨r3, hr3, h4⟩ := bind_ok_inv h3
    obtain ⟨ln, s3⟩ := r3
    obtain ⟨r4, hr4, h5⟩ := bind_ok_inv h4
    obtain ⟨wc, s4⟩ := r4
    obtain ⟨r5, hr5, h6⟩ := bind_ok_inv h5
    obtain ⟨bs, s5⟩ := r5
    simp only [pure, Outcome.ok.injEq, Prod.mk.injEq] at h6
    obtain ⟨rfl, rfl⟩ := h6
    obtain ⟨as, e1, hw1⟩ := ed_maybeAnycast s1 ac s2 hr2
    obtain ⟨ls, e2, _, _, hw2⟩ := rw_uint hr3
    obtain ⟨ws, e3, _, hw3⟩ := rw_int hr4
    obtain ⟨e4, _⟩ := readBits_inv hr5
    refine ⟨ts ++ (as ++ (ls ++ (ws ++ bs))), e0.trans (Over.trans e1 (e2.trans (e3.trans e4))), fun b b' he => ?_⟩
    simp only [Prim.enc, Prim.encMsgAddress, Val.ctor, Val.list, Val.some, Int.toNat_natCast] at he
    obtain ⟨b1, hb1, he2⟩ := bind_ok_inv he
    obtain ⟨b2, hb2, he3⟩ := bind_ok_inv he2
    obtain ⟨b3, hb3, he4⟩ := bind_ok_inv he3
    obtain ⟨b4, hb4, he5⟩ := bind_ok_inv he4
    rw [Builder.writeBits_ok he5, hw3 b3 b4 hb4, hw2 b2 b3 hb3, hw1 b1 b2 hb2, hw0 b b1 hb1,
      app_app_nil, app_app_nil, app_app_nil, app_app_nil]

/-! ### VarUInteger / Grams: canonical iff the length prefix is minimal -/

/-- the minimal byte length of the value of `ln` bytes whose first byte is not zero (or of no bytes) is `ln` -/
theorem natBytesLen_of_minimal (bs : List Bool) (ln : Nat) (hlen : bs.length = ln * 8)
    (hmin : minimalLen ln bs = true) : natBytesLen (bitsToNat bs) = ln := by
  unfold minimalLen at hmin
  by_cases h0 : ln = 0
  · subst h0
    have : bs = [] := List.eq_nil_of_length_eq_zero (by omega)
    subst this
    decide
  · have hne : bitsToNat (bs.take 8) ≠ 0 := by
      simp only [Bool.or_eq_true, beq_iff_eq, bne_iff_ne, ne_eq] at hmin
      rcases hmin with h | h
      · exact absurd h h0
      · exact h
    have hle : natBytesLen (bitsToNat bs) ≤ ln :=
      natBytesLen_le_of_lt (by have := bitsToNat_lt bs; rwa [hlen] at this)
    have hsplit : bitsToNat bs = bitsToNat (bs.take 8) * 2 ^ (bs.drop 8).length + bitsToNat (bs.drop 8) := by
      rw [← bitsToNat_append, List.take_append_drop]
    have hdl : (bs.drop 8).length = (ln - 1) * 8 := by rw [List.length_drop]; omega
    have hge : 2 ^ ((ln - 1) * 8) ≤ bitsToNat bs := by
      rw [hsplit, hdl]
      have : 1 ≤ bitsToNat (bs.take 8) := by omega
      calc 2 ^ ((ln - 1) * 8) = 1 * 2 ^ ((ln - 1) * 8) := by omega
        _ ≤ bitsToNat (bs.take 8) * 2 ^ ((ln - 1) * 8) := Nat.mul_le_mul_right _ this
        _ ≤ _ := Nat.le_add_right _ _
    by_contra hneq
    have hlt : natBytesLen (bitsToNat bs) ≤ ln - 1 := by omega
    have h1 := lt_two_pow_bytes (bitsToNat bs)
    have h2 : 2 ^ (natBytesLen (bitsToNat bs) * 8) ≤ 2 ^ ((ln - 1) * 8) :=
      Nat.pow_le_pow_right (by omega) (by omega)
    omega

theorem edc_varUint (n : Nat) : EDc (Prim.dec (.varUint n)) (Prim.enc (.varUint n)) (canonPrim (.varUint n)) True := by
  intro s v s' hd rest hr
  simp only [canonPrim] at hr
  split at hr
  · rename_i hn
    simp only [Bool.and_eq_true, decide_eq_true_eq] at hn
    simp only [Prim.dec, Prim.decVarUint, readLimUint_eq] at hd hr
    obtain ⟨r, hr1, h2⟩ := bind_ok_inv hd
    obtain ⟨iv, s1⟩ := r
    simp only [pure, Outcome.ok.injEq, Prod.mk.injEq] at h2
    obtain ⟨rfl, rfl⟩ := h2
    obtain ⟨r2, hr2, h3⟩ := bind_ok_inv hr1
    obtain ⟨ln, s2⟩ := r2
    simp only [hr2] at hr
    split at hr
    · rename_i hmin
      simp only [Slice.readBigUint] at h3
      obtain ⟨r3, hr3, h4⟩ := bind_ok_inv h3
      obtain ⟨bs, s3⟩ := r3
      simp only [pure, Outcome.ok.injEq, Prod.mk.injEq] at h4
      obtain ⟨rfl, rfl⟩ := h4
      simp only [hr3, restOf, Option.some.injEq] at hr
      subst hr
      obtain ⟨ls, e1, hl1, hv1, hw1⟩ := rw_uint hr2
      obtain ⟨e2, hl2⟩ := readBits_inv hr3
      have hmin' : minimalLen ln bs = true := by
        unfold minimalLen at hmin ⊢
        by_cases h0 : ln = 0
        · simp [h0]
        · have h8 : 8 ≤ bs.length := by omega
          have hb : s2.bits = bs ++ s3.bits := by
            have := e2
            cases s2; cases s3
            simp only [Over, Slice.prepend, List.append_nil, Slice.mk.injEq] at this
            exact this.2.2.1
          rw [hb, List.take_append_of_le_length h8] at hmin
          exact hmin
      have hnb := natBytesLen_of_minimal bs ln hl2 hmin'
      refine ⟨ls ++ bs, [], e1.trans e2, ?_, fun _ => rfl⟩
      intro b b' he
      simp only [Prim.enc, Prim.encVarUint, Int.natAbs_natCast, hnb, Builder.writeLimUint] at he
      obtain ⟨b1, hb1, he2⟩ := bind_ok_inv he
      rw [← hl2, natToBits_bitsToNat] at he2
      rw [Builder.writeBits_ok he2, hw1 b b1 hb1, app_app_nil]
    · cases hr
  · cases hr

theorem readBytesBE_len : ∀ (k acc : Nat) (s : Slice) (r : Nat × Slice), Prim.readBytesBE k acc s = .ok r →
    k * 8 ≤ s.bits.length
  | 0, _, _, _, _ => by omega
  | k + 1, acc, s, r, h => by
    simp only [Prim.readBytesBE] at h
    obtain ⟨r1, hr1, h2⟩ := bind_ok_inv h
    obtain ⟨x, s1⟩ := r1
    obtain ⟨bs, e, hl, _, _⟩ := rw_uint hr1
    have := readBytesBE_len k _ s1 r h2
    have hb : s.bits = bs ++ s1.bits := by
      cases s; cases s1
      simp only [Over, Slice.prepend, List.append_nil, Slice.mk.injEq] at e
      exact e.2.2.1
    rw [hb, List.length_append, hl]; omega

/-- the byte loop of Grams read exactly `k ≤ 8` bytes: their big-endian value -/
theorem readBytesBE_inv (k : Nat) (hk : k ≤ 8) (s s' : Slice) (a : Nat) (h : Prim.readBytesBE k 0 s = .ok (a, s')) :
    ∃ bs, s.readBits (k * 8) = .ok (bs, s') ∧ a = bitsToNat bs := by
  have hlen := readBytesBE_len k 0 s _ h
  let bs := s.bits.take (k * 8)
  let s2 : Slice := { s with bits := s.bits.drop (k * 8) }
  have hbl : bs.length = k * 8 := by simp [bs]; omega
  have hs : s = s2.prepend (natToBits (k * 8) (bitsToNat bs) ++ []) [] := by
    rw [← hbl, natToBits_bitsToNat, List.append_nil]
    cases s; simp [s2, bs, Slice.prepend]
  have hv : bitsToNat bs < 2 ^ (k * 8) := by have := bitsToNat_lt bs; rwa [hbl] at this
  have h64 : 0 * 2 ^ (k * 8) + bitsToNat bs < 2 ^ 64 := by
    have : (2 : Nat) ^ (k * 8) ≤ 2 ^ 64 := Nat.pow_le_pow_right (by omega) (by omega)
    omega
  have hf := readBytesBE_prepend k 0 (bitsToNat bs) s2 [] [] hv h64
  rw [← hs] at hf
  rw [hf] at h
  simp only [Nat.zero_mul, Nat.zero_add, Slice.prepend_nil, Outcome.ok.injEq, Prod.mk.injEq] at h
  obtain ⟨rfl, rfl⟩ := h
  refine ⟨bs, ?_, rfl⟩
  unfold Slice.readBits
  rw [if_neg (by omega)]

theorem edc_grams : EDc (Prim.dec .grams) (Prim.enc .grams) (canonPrim .grams) True := by
  intro s v s' hd rest hr
  simp only [canonPrim, readLimUint_eq] at hr
  simp only [Prim.dec, Prim.decGrams, readLimUint_eq] at hd
  obtain ⟨r, hr1, h2⟩ := bind_ok_inv hd
  obtain ⟨iv, s1⟩ := r
  simp only [pure, Outcome.ok.injEq, Prod.mk.injEq] at h2
  obtain ⟨rfl, rfl⟩ := h2
  obtain ⟨r2, hr2, h3⟩ := bind_ok_inv hr1
  obtain ⟨ln, s2⟩ := r2
  simp only [hr2] at hr
  split at hr
  · rename_i hc
    simp only [Bool.and_eq_true, decide_eq_true_eq] at hc
    obtain ⟨h8, hmin⟩ := hc
    simp only at h3
    rw [if_neg (by omega)] at h3
    obtain ⟨r3, hr3, h4⟩ := bind_ok_inv h3
    obtain ⟨a, s3⟩ := r3
    simp only [pure, Outcome.ok.injEq, Prod.mk.injEq] at h4
    obtain ⟨rfl, rfl⟩ := h4
    obtain ⟨bs, hrb, ha⟩ := readBytesBE_inv ln h8 s2 s3 a hr3
    simp only [hrb, restOf, Option.some.injEq] at hr
    subst hr
    obtain ⟨ls, e1, hl1, hv1, hw1⟩ := rw_uint hr2
    obtain ⟨e2, hl2⟩ := readBits_inv hrb
    have hmin' : minimalLen ln bs = true := by
      unfold minimalLen at hmin ⊢
      by_cases h0 : ln = 0
      · simp [h0]
      · have h8' : 8 ≤ bs.length := by omega
        have hb : s2.bits = bs ++ s3.bits := by
          have := e2
          cases s2; cases s3
          simp only [Slice.prepend, List.append_nil, Slice.mk.injEq] at this
          exact this.2.2.1
        rw [hb, List.take_append_of_le_length h8'] at hmin
        exact hmin
    have hnb := natBytesLen_of_minimal bs ln hl2 hmin'
    have ha64 : a < 2 ^ 64 := by
      rw [ha]
      have := bitsToNat_lt bs
      rw [hl2] at this
      exact Nat.lt_of_lt_of_le this (Nat.pow_le_pow_right (by omega) (by omega))
    refine ⟨ls ++ bs, [], Over.trans e1 e2, ?_, fun _ => rfl⟩
    intro b b' he
    have hmod : ((a : Int) % 2 ^ 64) = (a : Int) := by omega
    simp only [Prim.enc, Prim.encGrams, hmod, Prim.encVarUint, Int.natAbs_natCast, Builder.writeLimUint] at he
    rw [ha, hnb] at he
    obtain ⟨b1, hb1, he2⟩ := bind_ok_inv he
    rw [← hl2, natToBits_bitsToNat] at he2
    have hlb : Builder.limBits (16 - 1) = Builder.limBits 15 := rfl
    rw [hlb] at hb1
    rw [Builder.writeBits_ok he2, hw1 b b1 hb1, app_app_nil]
  · cases hr

theorem EDc.mono {dec enc can} {ng ng' : Prop} (h : EDc dec enc can ng) (hi : ng' → ng) : EDc dec enc can ng' := by
  intro s v s' hd rest hr
  obtain ⟨xs, rs, e, henc, hng⟩ := h s v s' hd rest hr
  exact ⟨xs, rs, e, henc, fun x => hng (hi x)⟩

/-- all hand-written codecs the checker admits -/
theorem edc_prim (p : Prim) : EDc (Prim.dec p) (Prim.enc p) (canonPrim p) (p.greedy = false) := by
  cases p
  case any => exact edc_any.mono (fun h => by simp [Prim.greedy] at h)
  case grams => exact edc_grams.mono (fun _ => trivial)
  case varUint n => exact (edc_varUint n).mono (fun _ => trivial)
  case msgAddress => exact EDc.of_ED ed_msgAddress _
  case accountStatus => exact EDc.of_ED ed_accountStatus _
  case accStatusChange => exact EDc.of_ED ed_accStatusChange _
  case computeSkipReason => exact EDc.of_ED ed_computeSkipReason _
  all_goals (intro s v s' _ rest hr; simp [canonPrim] at hr)
end Tongo.Tlb
