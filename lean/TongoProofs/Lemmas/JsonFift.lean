import TongoModel.Json
import TongoProofs.Lemmas.Json
import TongoProofs.Lemmas.JsonValid
import TongoProofs.Lemmas.JsonMisc
/-! Fift hex (boc.BitString.ToFiftHex / BitStringFromFiftHex): round trip, alphabet, totality. -/
namespace Tongo.Json
open Tongo Tongo.Dec

/-- upper-case hex digits -/
def isUpperHex (c : Char) : Bool := (48 ≤ c.toNat && c.toNat ≤ 57) || (65 ≤ c.toNat && c.toNat ≤ 70)

theorem nibbleCharUpper_upperHex : ∀ n, n < 16 → isUpperHex (Hex.nibbleCharUpper n) = true := by decide

theorem nibblesOf_lt (b : List Bool) : ∀ n ∈ nibblesOf b, n < 16 := by
  induction b using nibblesOf.induct with
  | case1 a b c d r ih =>
    intro n hn
    rw [nibblesOf] at hn
    simp only [List.mem_cons] at hn
    rcases hn with rfl | hn
    · cases a <;> cases b <;> cases c <;> cases d <;> decide
    · exact ih n hn
  | case2 l h =>
    intro n hn
    rw [nibblesOf] at hn
    · cases hn
    · exact h

theorem nibble_bits (a b c d : Bool) :
    Bits.natToBits 4 (8 * a.toNat + 4 * b.toNat + 2 * c.toNat + d.toNat) = [a, b, c, d] := by
  cases a <;> cases b <;> cases c <;> cases d <;> decide

theorem nibblesToBits_cons (n : Nat) (ns : List Nat) : nibblesToBits (n :: ns) = Bits.natToBits 4 n ++ nibblesToBits ns := by
  simp [nibblesToBits]

/-- splitting into nibbles loses nothing when the length is a multiple of four -/
theorem nibblesToBits_nibblesOf (b : List Bool) (h : b.length % 4 = 0) : nibblesToBits (nibblesOf b) = b := by
  induction b using nibblesOf.induct with
  | case1 a b c d r ih =>
    rw [nibblesOf, nibblesToBits_cons, nibble_bits, ih (by simp at h; omega)]
    rfl
  | case2 l hl =>
    rw [nibblesOf]
    · -- fewer than four bits and a multiple of four: empty
      match l, hl, h with
      | [], _, _ => rfl
      | [_], _, h => simp at h
      | [_, _], _, h => simp at h
      | [_, _, _], _, h => simp at h
      | a :: b :: c :: d :: r, hl, _ => exact absurd rfl (hl a b c d r)
    · exact hl

theorem nibblesOf_length (b : List Bool) : (nibblesOf b).length = b.length / 4 := by
  induction b using nibblesOf.induct with
  | case1 a b c d r ih =>
    rw [nibblesOf]
    simp only [List.length_cons, ih]
    omega
  | case2 l hl =>
    rw [nibblesOf]
    · match l, hl with
      | [], _ => rfl
      | [_], _ => simp
      | [_, _], _ => simp
      | [_, _, _], _ => simp
      | a :: b :: c :: d :: r, hl => exact absurd rfl (hl a b c d r)
    · exact hl

theorem nibblesOf_append (a b : List Bool) (h : a.length % 4 = 0) : nibblesOf (a ++ b) = nibblesOf a ++ nibblesOf b := by
  induction a using nibblesOf.induct with
  | case1 x y z w r ih =>
    simp only [List.cons_append]
    rw [nibblesOf, nibblesOf, ih (by simp at h; omega)]
    rfl
  | case2 l hl =>
    match l, hl, h with
    | [], _, _ => simp [nibblesOf]
    | [_], _, h => simp at h
    | [_, _], _, h => simp at h
    | [_, _, _], _, h => simp at h
    | a :: b :: c :: d :: r, hl, _ => exact absurd rfl (hl a b c d r)

theorem nibblesOfHex_upper (ns : List Nat) (h : ∀ n ∈ ns, n < 16) :
    nibblesOfHex (ns.map Hex.nibbleCharUpper) = some ns := by
  induction ns with
  | nil => rfl
  | cons n t ih =>
    simp only [List.map_cons, nibblesOfHex, charNibble_nibbleCharUpper n (h n (by simp)),
      ih (fun x hx => h x (by simp [hx]))]

theorem upperHex_ascii (c : Char) (h : isUpperHex c = true) : isAscii c = true := by
  simp only [isUpperHex, Bool.or_eq_true, Bool.and_eq_true, decide_eq_true_eq] at h
  simp only [isAscii, decide_eq_true_eq]
  omega

theorem getLast?_mem {α} (l : List α) (x : α) (h : l.getLast? = some x) : x ∈ l := List.mem_of_getLast? h

theorem hasSuffixChar_false_of_all (c : Char) (s : Str) (h : ∀ x ∈ s, x ≠ c) : hasSuffixChar c s = false := by
  unfold hasSuffixChar
  cases hl : s.getLast? with
  | none => rfl
  | some x =>
    have := h x (getLast?_mem s x hl)
    simpa using this

theorem hasSuffixChar_concat (c : Char) (s : Str) : hasSuffixChar c (s ++ [c]) = true := by
  simp [hasSuffixChar]

theorem upperHex_ne (c x : Char) (hc : isUpperHex c = true) (hx : isUpperHex x = false) : c ≠ x := by
  intro h; rw [h] at hc; rw [hc] at hx; cases hx

theorem map_upper_chars (ns : List Nat) (h : ∀ n ∈ ns, n < 16) :
    ∀ c ∈ ns.map Hex.nibbleCharUpper, isUpperHex c = true := by
  intro c hc
  simp only [List.mem_map] at hc
  obtain ⟨n, hn, rfl⟩ := hc
  exact nibbleCharUpper_upperHex n (h n hn)

theorem runeBytes_upper (ns : List Nat) (h : ∀ n ∈ ns, n < 16) :
    runeBytes (ns.map Hex.nibbleCharUpper) = ns.map Hex.nibbleCharUpper :=
  runeBytes_ascii _ (fun c hc => upperHex_ascii c (map_upper_chars ns h c hc))

/-- fromFift on a text ending in `<u>_` -/
theorem fromFift_suffix (body : Str) (u : Char) :
    fromFift (body ++ [u, '_']) =
      match (Hex.charNibble? u).bind endingBits, nibblesOfHex body with
      | some e, some ns => .ok (nibblesToBits ns ++ e)
      | _, _ => .err "invalid hex" := by
  unfold fromFift
  have hs : hasSuffixChar '_' (body ++ [u, '_']) = true := by
    have : body ++ [u, '_'] = (body ++ [u]) ++ ['_'] := by simp
    rw [this]; exact hasSuffixChar_concat _ _
  have hlen : (body ++ [u, '_']).length = body.length + 2 := by simp
  have hge : ¬ (body ++ [u, '_']).length < 2 := by omega
  simp only [hs, if_true, hge, if_false, hlen, Nat.add_sub_cancel]
  have hidx : (body ++ [u, '_'])[body.length]? = some u := by
    rw [List.getElem?_append_right (Nat.le_refl _)]
    simp
  have htake : (body ++ [u, '_']).take body.length = body := by simp
  have hge' : ¬ body.length + 2 < 2 := by omega
  rw [hidx, htake]
  simp only [hge', if_false]
  rfl

/-- the padded last nibble of a bit string whose length is not a multiple of four -/
theorem tail_nibble (t : List Bool) (h1 : 1 ≤ t.length) (h3 : t.length ≤ 3) :
    ∃ n, n < 16 ∧ nibblesOf (t ++ true :: List.replicate (3 - t.length) false) = [n] ∧ endingBits n = some t := by
  match t, h1, h3 with
  | [a], _, _ => cases a <;> refine ⟨_, ?_, rfl, ?_⟩ <;> decide
  | [a, b], _, _ => cases a <;> cases b <;> refine ⟨_, ?_, rfl, ?_⟩ <;> decide
  | [a, b, c], _, _ => cases a <;> cases b <;> cases c <;> refine ⟨_, ?_, rfl, ?_⟩ <;> decide
  | [], h1, _ => simp at h1
  | _ :: _ :: _ :: _ :: _, _, h3 => simp at h3

/-- the shape of the Fift text: aligned bit strings are plain upper-case hex, others end in `<nibble>_` -/
theorem toFift_aligned (b : List Bool) (h : b.length % 4 = 0) : toFift b = (nibblesOf b).map Hex.nibbleCharUpper := by
  simp [toFift, h]

theorem toFift_unaligned (b : List Bool) (h : b.length % 4 ≠ 0) :
    ∃ n, n < 16 ∧ endingBits n = some (b.drop (b.length - b.length % 4)) ∧
      toFift b = (nibblesOf (b.take (b.length - b.length % 4))).map Hex.nibbleCharUpper ++ [Hex.nibbleCharUpper n, '_'] := by
  have hr : b.length % 4 < 4 := Nat.mod_lt _ (by omega)
  let pre := b.take (b.length - b.length % 4)
  let t := b.drop (b.length - b.length % 4)
  have hsplit : b = pre ++ t := (List.take_append_drop _ _).symm
  have hmod : b.length % 4 ≤ b.length := Nat.mod_le _ _
  have hprelen : pre.length = b.length - b.length % 4 := by simp [pre]
  have htlen : t.length = b.length % 4 := by simp [t]; omega
  have hpre4 : pre.length % 4 = 0 := by rw [hprelen]; omega
  obtain ⟨n, hn, hnib, hend⟩ := tail_nibble t (by omega) (by omega)
  refine ⟨n, hn, hend, ?_⟩
  unfold toFift
  simp only [h, if_false]
  have : b ++ true :: List.replicate (3 - b.length % 4) false =
      pre ++ (t ++ true :: List.replicate (3 - t.length) false) := by
    rw [htlen, ← List.append_assoc, ← hsplit]
  rw [this, nibblesOf_append _ _ hpre4, hnib]
  simp only [List.map_append, List.map_cons, List.map_nil, List.append_assoc, List.cons_append, List.nil_append]
  rfl

theorem fromFift_toFift (b : List Bool) : fromFift (toFift b) = .ok b := by
  by_cases h : b.length % 4 = 0
  · rw [toFift_aligned b h]
    unfold fromFift
    have hns := hasSuffixChar_false_of_all '_' _
      (fun x hx => upperHex_ne x '_' (map_upper_chars _ (nibblesOf_lt b) x hx) (by decide))
    simp only [hns, Bool.false_eq_true, if_false, nibblesOfHex_upper _ (nibblesOf_lt b), nibblesToBits_nibblesOf b h]
  · obtain ⟨n, hn, hend, htxt⟩ := toFift_unaligned b h
    have hmod : b.length % 4 ≤ b.length := Nat.mod_le _ _
    have hpre4 : (b.take (b.length - b.length % 4)).length % 4 = 0 := by simp; omega
    rw [htxt, fromFift_suffix, charNibble_nibbleCharUpper n hn, nibblesOfHex_upper _ (nibblesOf_lt _)]
    simp only [Option.bind_some, hend, nibblesToBits_nibblesOf _ hpre4, List.take_append_drop]

/-- alphabet of the Fift text: upper-case hex digits and `_` -/
theorem toFift_chars (b : List Bool) : ∀ c ∈ toFift b, isUpperHex c = true ∨ c = '_' := by
  by_cases h : b.length % 4 = 0
  · rw [toFift_aligned b h]
    exact fun c hc => Or.inl (map_upper_chars _ (nibblesOf_lt b) c hc)
  · obtain ⟨n, hn, _, htxt⟩ := toFift_unaligned b h
    rw [htxt]
    intro c hc
    simp only [List.mem_append, List.mem_cons, List.not_mem_nil, or_false] at hc
    rcases hc with hc | rfl | rfl
    · exact Or.inl (map_upper_chars _ (nibblesOf_lt _) c hc)
    · exact Or.inl (nibbleCharUpper_upperHex n hn)
    · exact Or.inr rfl

theorem toFift_no (b : List Bool) (x : Char) (hx : isUpperHex x = false) (hu : x ≠ '_') : ∀ c ∈ toFift b, c ≠ x := by
  intro c hc
  rcases toFift_chars b c hc with h | rfl
  · exact upperHex_ne c x h hx
  · exact fun e => hu e.symm

theorem toFift_safe (b : List Bool) : ∀ c ∈ toFift b, isSafe c = true := by
  intro c hc
  rcases toFift_chars b c hc with h | rfl
  · simp only [isUpperHex, Bool.or_eq_true, Bool.and_eq_true, decide_eq_true_eq] at h
    simp only [isSafe, Bool.and_eq_true, bne_iff_ne, ne_eq, decide_eq_true_eq]
    refine ⟨⟨?_, ?_⟩, ?_⟩
    · intro e; subst e; revert h; decide
    · intro e; subst e; revert h; decide
    · omega
  · decide

theorem toFift_ne_nil (b : List Bool) (h : b ≠ []) : toFift b ≠ [] := by
  by_cases h4 : b.length % 4 = 0
  · rw [toFift_aligned b h4]
    intro e
    have := congrArg List.length e
    simp only [List.length_map, nibblesOf_length, List.length_nil] at this
    have : b.length = 0 := by omega
    exact h (List.length_eq_zero_iff.mp this)
  · obtain ⟨n, _, _, htxt⟩ := toFift_unaligned b h4
    rw [htxt]; simp

/-- a Fift text of 64 characters without `_` at the end stands for exactly 256 bits -/
theorem toFift_lookalike (b : List Bool) (hl : (toFift b).length = 64) (hs : hasSuffixChar '_' (toFift b) = false) :
    b.length = 256 := by
  by_cases h4 : b.length % 4 = 0
  · rw [toFift_aligned b h4] at hl
    simp only [List.length_map, nibblesOf_length] at hl
    omega
  · obtain ⟨n, _, _, htxt⟩ := toFift_unaligned b h4
    rw [htxt] at hs
    have : hasSuffixChar '_' ((nibblesOf (b.take (b.length - b.length % 4))).map Hex.nibbleCharUpper ++
        [Hex.nibbleCharUpper n, '_']) = true := by
      simp [hasSuffixChar]
    rw [this] at hs; cases hs

theorem parseBitString_print (b : List Bool) : parseBitString (printBitString b) = .ok b := by
  unfold parseBitString printBitString
  rw [trimQuote_quote _ (toFift_no b '"' (by decide) (by decide)), fromFift_toFift]

theorem valid_printBitString (b : List Bool) : valid (printBitString b) = true := valid_quote _ (toFift_safe b)

theorem fromFift_total (s : Str) : (fromFift s).isPanic = false := by
  unfold fromFift
  split
  · split
    · rfl
    · rename_i hlen
      simp only []
      have : s.length - 2 < s.length := by omega
      rw [List.getElem?_eq_getElem this]
      simp only []
      split <;> rfl
  · split <;> rfl

theorem total_parseBitString (p : Str) : (parseBitString p).isPanic = false := fromFift_total _

end Tongo.Json
