import TongoProofs.Lemmas.BitStringBig
/-! Unary and bounded integers, the de Bruijn bit length. Helper lemmas only. -/
namespace Tongo.BitString
open Tongo.Bits

theorem natToBits_ones (n : Nat) : natToBits n (2 ^ n - 1) = List.replicate n true := by
  apply List.ext_getElem?
  intro i
  rw [natToBits_getElem?, List.getElem?_replicate, Nat.testBit_two_pow_sub_one]
  by_cases h : i < n
  · have : n - 1 - i < n := by omega
    simp [h, this]
  · simp [h]

theorem writeBitArray_single (b : Bool) : writeBitArray [b] = writeBit b := by
  simp only [writeBitArray]
  exact bind_pure_unit _

/-- `WriteUnary(n)`: `n` ones and a zero, on both code paths -/
theorem writeUnary_eq (n : Nat) : writeUnary n = writeBitArray (List.replicate n true ++ [false]) := by
  rw [writeBitArray_append, writeBitArray_single]
  unfold writeUnary
  by_cases h : n < 63
  · simp only [h, if_true, writeUint_eq, natToBits_ones]
  · simp only [h, if_false, writeOnes_eq]

/-- the loop of `ReadUnary` -/
theorem readUnaryLoop_spec (fuel : Nat) : ∀ (acc : Nat) (s : BitString), s.len ≤ 8 * s.buf.length →
    s.rCursor ≤ s.len → s.len - s.rCursor + 1 ≤ fuel →
    readUnaryLoop fuel acc s =
      (let rest := (abs s).drop s.rCursor
       let ones := rest.takeWhile (· == true)
       if ones.length < rest.length then (.ok (acc + ones.length), { s with rCursor := s.rCursor + ones.length + 1 })
       else (.err errNotEnough, { s with rCursor := s.len })) := by
  induction fuel with
  | zero => intro acc s _ _ hf; omega
  | succ fuel ih =>
    intro acc s h8 hc hf
    rw [readUnaryLoop, bind_run, readBit_run s h8]
    by_cases hn : s.rCursor < s.len
    · have hl : s.rCursor < (abs s).length := by rw [abs_length h8]; exact hn
      simp only [hn, dite_true]
      rw [List.drop_eq_getElem_cons hl]
      generalize hb : (abs s)[s.rCursor] = b
      cases b
      · simp
      · simp only [if_true, ite_run]
        rw [ih (acc + 1) { s with rCursor := s.rCursor + 1 } h8 (by simp; omega) (by simp; omega)]
        simp only [abs_cursor, List.takeWhile_cons, beq_self_eq_true, if_true, List.length_cons]
        by_cases h1 : (List.takeWhile (fun x => x == true) (List.drop (s.rCursor + 1) (abs s))).length
            < (List.drop (s.rCursor + 1) (abs s)).length
        · simp only [h1, Nat.add_lt_add_iff_right, if_true]
          congr 2
          · omega
          · omega
        · simp only [h1, Nat.add_lt_add_iff_right, if_false]
    · have e : s.rCursor = s.len := by omega
      have : (abs s).drop s.rCursor = [] := by
        apply List.drop_of_length_le; rw [abs_length h8]; omega
      simp only [hn, dite_false, this]
      cases s; simp_all

/-! ### de Bruijn bit length -/

/-- "the top `j` bits up to bit `k` are set, nothing above bit `k`" -/
def TopSet (k j x : Nat) : Prop := x < 2 ^ (k + 1) ∧ ∀ i, i ≤ k → k < i + j → x.testBit i = true

theorem topSet_step (k j x : Nat) (h : TopSet k j x) : TopSet k (2 * j) (x ||| (x >>> j)) := by
  obtain ⟨hlt, hb⟩ := h
  constructor
  · apply Nat.or_lt_two_pow hlt
    rw [Nat.shiftRight_eq_div_pow]
    exact Nat.lt_of_le_of_lt (Nat.div_le_self _ _) hlt
  · intro i hi hk
    rw [Nat.testBit_or, Nat.testBit_shiftRight]
    by_cases h1 : k < i + j
    · rw [hb i hi h1]; rfl
    · rw [hb (j + i) (by omega) (by omega)]; simp

theorem smear_eq (v k : Nat) (hk : k < 64) (hlo : 2 ^ k ≤ v) (hhi : v < 2 ^ (k + 1)) : smear v = 2 ^ (k + 1) - 1 := by
  have h0 : TopSet k 1 v := by
    refine ⟨hhi, ?_⟩
    intro i hi hki
    have : i = k := by omega
    subst this
    rw [Nat.testBit_eq_decide_div_mod_eq]
    have : v / 2 ^ i = 1 := by
      apply Nat.div_eq_of_lt_le
      · simpa using hlo
      · rw [Nat.pow_succ] at hhi; omega
    simp [this]
  have h1 := topSet_step k 1 _ h0
  have h2 := topSet_step k 2 _ h1
  have h4 := topSet_step k 4 _ h2
  have h8 := topSet_step k 8 _ h4
  have h16 := topSet_step k 16 _ h8
  have h32 := topSet_step k 32 _ h16
  obtain ⟨hlt, hb⟩ := h32
  apply Nat.eq_of_testBit_eq
  intro i
  rw [Nat.testBit_two_pow_sub_one]
  by_cases hi : i < k + 1
  · simp only [hi, decide_true]
    exact hb i (by omega) (by omega)
  · simp only [hi, decide_false]
    apply Nat.testBit_lt_two_pow
    exact Nat.lt_of_lt_of_le hlt (Nat.pow_le_pow_right (by decide) (by omega))

theorem deBruijn_table : ∀ k, k < 64 → tab64.getD ((2 ^ k * deBruijn % 2 ^ 64) >>> 58) 0 = k := by decide

/-- `minBitsRequired` (de Bruijn multiplication and table lookup) is the bit length, for every uint64 -/
theorem minBitsRequired_eq_bitLength (v : Nat) (hv : v < 2 ^ 64) : minBitsRequired v = Ideal.bitLength v := by
  unfold minBitsRequired Ideal.bitLength
  by_cases h0 : v = 0
  · simp [h0]
  · simp only [h0, if_false]
    have hk : v.log2 < 64 := (Nat.log2_lt h0).mpr hv
    have hlo : 2 ^ v.log2 ≤ v := Nat.log2_self_le h0
    have hhi : v < 2 ^ (v.log2 + 1) := Nat.lt_log2_self
    rw [smear_eq v v.log2 hk hlo hhi]
    have e : 2 ^ (v.log2 + 1) - 1 - (2 ^ (v.log2 + 1) - 1) >>> 1 = 2 ^ v.log2 := by
      rw [Nat.shiftRight_eq_div_pow, Nat.pow_succ]
      have := Nat.two_pow_pos v.log2
      omega
    rw [e, deBruijn_table _ hk]

theorem bitLength_le_64 (v : Nat) (hv : v < 2 ^ 64) : Ideal.bitLength v ≤ 64 := by
  unfold Ideal.bitLength
  split
  · omega
  · rename_i h0
    have := (Nat.log2_lt h0).mpr hv
    omega

end Tongo.BitString
