import TongoProofs.Lemmas.HashmapDecode
import TongoProofs.Lemmas.HashmapOrder
/-! Encode side: on a list sorted by key bits, `encodeMap` writes the cell tree of a valid `Hashmap n X` whose meaning
is exactly that list. -/
namespace Tongo.Hashmap
open Tongo Tongo.Bits

/-- the label form encodeLabel picks for a label under remaining key size `m`: the shortest of the three -/
def canonLbl (label : Key) (m : Nat) : Lbl :=
  if label.length > 1 ∧ minBitsRequired m < 2 * label.length - 1 ∧ allSame label = true then
    .same (label.headD false) label.length
  else if minBitsRequired m < label.length then .long label
  else .short label

theorem allSame_eq_replicate : ∀ (l : Key), allSame l = true → l = List.replicate l.length (l.headD false)
  | [], _ => rfl
  | b :: r, h => by
    simp only [allSame, List.all_eq_true, beq_iff_eq] at h
    simp only [List.length_cons, List.headD_cons, List.replicate_succ, List.cons.injEq, true_and]
    exact List.eq_replicate_iff.mpr ⟨rfl, h⟩

@[simp] theorem canonLbl_bits (label : Key) (m : Nat) : (canonLbl label m).bits = label := by
  unfold canonLbl
  split
  · rename_i h; exact (allSame_eq_replicate label h.2.2).symm
  · split <;> rfl

theorem encLabelBits_eq (label : Key) (m : Nat) : encLabelBits label (m : Int) = (canonLbl label m).enc m := by
  unfold encLabelBits canonLbl
  simp only [lenWidth_ofNat]
  split
  · simp [Lbl.enc]
  · split <;> simp [Lbl.enc]

theorem canonLbl_enc_length (label : Key) (m : Nat) :
    ((canonLbl label m).enc m).length ≤ label.length + 2 + minBitsRequired m := by
  unfold canonLbl
  split
  · simp [Lbl.enc]; omega
  · split
    · simp [Lbl.enc]; omega
    · simp [Lbl.enc, unary]; omega

theorem allSame_replicate (b : Bool) (j : Nat) : allSame (List.replicate j b) = true := by
  cases j with
  | zero => rfl
  | succ j => simp [List.replicate_succ, allSame]

/-- the form the encoder picks is never longer than any other serialisation of the same label -/
theorem encLabelBits_shortest (label : Key) (m : Nat) (l' : Lbl) (h : l'.bits = label) :
    (encLabelBits label (m : Int)).length ≤ (l'.enc m).length := by
  rw [encLabelBits_eq]
  unfold canonLbl
  cases l' with
  | short s =>
    simp only [Lbl.bits] at h; subst h
    split
    · simp [Lbl.enc, unary]; omega
    · split <;> simp [Lbl.enc, unary] <;> omega
  | long s =>
    simp only [Lbl.bits] at h; subst h
    split
    · simp [Lbl.enc]; omega
    · split <;> simp [Lbl.enc, unary] <;> omega
  | same b j =>
    simp only [Lbl.bits] at h; subst h
    have hs := allSame_replicate b j
    simp only [List.length_replicate, hs, and_true]
    split
    · simp [Lbl.enc]
    · split <;> simp [Lbl.enc, unary] <;> omega

/-! ### the label loop computes the longest common prefix -/

theorem labelLoop_eq_lcp : ∀ (rest : Key) (b : Bool) (last : Key) (room : Int),
    last.length = rest.length + 1 → (b :: rest) ≠ last → (rest.length : Int) ≤ room →
    labelLoop room b rest last = .ok (lcp (b :: rest) last)
  | [], b, last, room, hl, hne, _ => by
    match last, hl with
    | [c], _ =>
      have : b ≠ c := fun h => hne (by rw [h])
      simp [labelLoop, lcp, this]
  | b' :: rest', b, last, room, hl, hne, hroom => by
    match last, hl with
    | bR :: last', hl =>
      have hl' : last'.length = rest'.length + 1 := by simpa using hl
      by_cases hb : b = bR
      · subst hb
        have hne' : (b' :: rest') ≠ last' := fun h => hne (by rw [h])
        have hroom' : ¬ (room ≤ 0) := by simp at hroom; omega
        have ih := labelLoop_eq_lcp rest' b' last' (room - 1) hl' hne' (by simp at hroom ⊢; omega)
        match last', hl' with
        | c :: last'', _ =>
          simp only [labelLoop, bne_self_eq_false, Bool.false_eq_true, if_false, hroom', ih]
          simp [lcp]
      · match last', hl' with
        | c :: last'', _ =>
          have : (b != bR) = true := by simpa using hb
          simp [labelLoop, this, lcp, hb]

theorem commonLabel_eq_lcp (m : Nat) (first last : Key) (h1 : first.length = m) (h2 : last.length = m)
    (hne : first ≠ last) : commonLabel (m : Int) first last = .ok (lcp first last) := by
  match first, h1 with
  | [], h1 =>
    have hm0 : m = 0 := by simpa using h1.symm
    have : last = [] := by apply List.eq_nil_of_length_eq_zero; omega
    exact absurd this.symm hne
  | b :: rest, h1 =>
    simp only [commonLabel]
    apply labelLoop_eq_lcp
    · simp at h1; omega
    · exact hne
    · simp at h1; omega

/-! ### the partition loop on a sorted list -/

theorem splitKeys_sorted {V : Type} (p : Key) : ∀ (K : List (Key × V)), SortedKV K → (∀ kv ∈ K, kv.1 ≠ []) →
    ∃ L R, splitKeys p.length (K.map fun kv => (p ++ kv.1, kv.2)) = .ok (L, R) ∧
      K = L.map (fun kv => (false :: kv.1, kv.2)) ++ R.map (fun kv => (true :: kv.1, kv.2))
  | [], _, _ => ⟨[], [], by simp [splitKeys], by simp⟩
  | (k, v) :: K', hs, hne => by
    have hs' : SortedKV K' := (List.pairwise_cons.mp hs).2
    have hhead := (List.pairwise_cons.mp hs).1
    obtain ⟨L', R', hsp, hK'⟩ := splitKeys_sorted p K' hs' (fun kv h => hne kv (List.mem_cons_of_mem _ h))
    have hk : k ≠ [] := hne (k, v) (by simp)
    match k, hk with
    | b :: k', _ =>
      have h1 : ¬ ((p ++ b :: k').length < p.length) := by simp
      have h2 : (p ++ b :: k').drop p.length = b :: k' := by simp
      cases b with
      | false =>
        refine ⟨(k', v) :: L', R', ?_, ?_⟩
        · simp only [List.map_cons, splitKeys, h1, if_false, h2, hsp]; simp
        · simp [hK']
      | true =>
        have hL : L' = [] := by
          cases L' with
          | nil => rfl
          | cons x xs =>
            exfalso
            have hx : (false :: x.1, x.2) ∈ K' := by rw [hK']; simp
            have := hhead _ hx
            simp at this
        subst hL
        refine ⟨[], (k', v) :: R', ?_, ?_⟩
        · simp only [List.map_cons, splitKeys, h1, if_false, h2, hsp]; simp
        · simp [hK']

/-! ### encodeMap on a sorted list builds a valid tree -/

/-- hypothesis on the value codec for one value: `enc` produces `pay v`, the leaf cell has room for it together with
the longest label of an `n`-bit dictionary (2 + bitlength n + n bits: hml_long of a whole key). This is a SUFFICIENT
condition — attained by a single key with mixed bits, not necessary for leaves below forks, whose labels are shorter;
what happens outside it is covered by `encodeMap_ok_tree`: success is always faithful), and `dec` reads it back -/
def Fits {V : Type} (C : Codec V) (pay : V → List Bool × List Cell) (n : Nat) (v : V) : Prop :=
  C.enc v = .ok (pay v) ∧ (pay v).1.length + n + 2 + minBitsRequired n ≤ 1023 ∧ (pay v).2.length ≤ 4 ∧
    DecodesValue C pay v

theorem mkCell_ok (bits : List Bool) (refs : List Cell) (hb : bits.length ≤ 1023) (hr : refs.length ≤ 4) :
    mkCell bits refs = .ok (Cell.ordinary bits refs) := by
  unfold mkCell
  have h1 : ¬ (bits.length > 1023) := by omega
  have h2 : ¬ (refs.length > 4) := by omega
  simp [h1, h2]

theorem map_drop_prefix {V : Type} (p : Key) (kvs : List (Key × V)) (h : ∀ kv ∈ kvs, ∃ k', kv.1 = p ++ k') :
    kvs = (kvs.map fun kv => (kv.1.drop p.length, kv.2)).map fun kv => (p ++ kv.1, kv.2) := by
  rw [List.map_map]
  conv => lhs; rw [← List.map_id kvs]
  apply List.map_congr_left
  intro kv hkv
  obtain ⟨k', hk'⟩ := h kv hkv
  obtain ⟨k, v⟩ := kv
  simp only at hk'
  subst hk'
  simp

theorem encodeMap_sorted {V : Type} (C : Codec V) (pay : V → List Bool × List Cell) (n : Nat) :
    ∀ (fuel m : Nat) (kvs : List (Key × V)), m ≤ n → m < fuel → kvs ≠ [] → (∀ kv ∈ kvs, kv.1.length = m) →
      SortedKV kvs → (∀ kv ∈ kvs, Fits C pay n kv.2) →
      ∃ t : HTree V, t.Valid m ∧ t.meaning = kvs ∧ encodeMap C fuel kvs (m : Int) = .ok (t.toCell pay m)
  | 0, m, _, _, hf, _, _, _, _ => by omega
  | f + 1, m, [], _, _, hne, _, _, _ => by simp at hne
  | f + 1, m, [(k, v)], hmn, _, _, hlen, _, hfit => by
    have hk : k.length = m := hlen (k, v) (by simp)
    obtain ⟨he, hb, hr, _⟩ := hfit (k, v) (by simp)
    refine ⟨.leaf (canonLbl k m) v, by simp [HTree.Valid, hk], by simp [HTree.meaning], ?_⟩
    have hw := minBits_mono hmn
    have hl := canonLbl_enc_length k m
    simp only [encodeMap, he, encLabelBits_eq, HTree.toCell]
    apply mkCell_ok
    · simp at hb ⊢; omega
    · exact hr
  | f + 1, m, (k0, v0) :: kv1 :: more, hmn, hf, _, hlen, hs, hfit => by
    -- first and last key
    have hne1 : (kv1 :: more) ≠ [] := by simp
    let last := (kv1 :: more).getLast hne1
    have hlast_mem1 : last ∈ kv1 :: more := List.getLast_mem hne1
    have hlast_mem : last ∈ (k0, v0) :: kv1 :: more := List.mem_cons_of_mem _ hlast_mem1
    have hk0 : k0.length = m := hlen (k0, v0) (by simp)
    have hkl : last.1.length = m := hlen last hlast_mem
    have hhead := (List.pairwise_cons.mp hs).1
    have hlt : lexLt k0 last.1 = true := hhead last hlast_mem1
    obtain ⟨a', b', hk0p, hklp, hab⟩ := lcp_split_lt k0 last.1 (by omega) hlt
    have hne : k0 ≠ last.1 := by intro h; rw [h, lexLt_irrefl] at hlt; cases hlt
    generalize hp : lcp k0 last.1 = p at hk0p hklp
    have hpm : p.length + 1 + a'.length = m := by rw [hk0p] at hk0; simp at hk0; omega
    -- every key carries the prefix p
    have hgl : ((k0, v0) :: kv1 :: more).getLast (by simp) = last := by simp [last]
    have hpre : ∀ kv ∈ (k0, v0) :: kv1 :: more, ∃ k', kv.1 = p ++ k' := by
      intro kv hkv
      have hle1 : lexLe k0 kv.1 := by
        rcases List.mem_cons.mp hkv with h | h
        · right; rw [h]
        · left; exact hhead kv h
      have hle2 : lexLe kv.1 last.1 := by
        have := pairwise_le_getLast _ (by simp) hs kv hkv
        rw [hgl] at this
        rcases this with h | h
        · left; exact h
        · right; rw [h]
      rw [hk0p] at hle1
      rw [hklp] at hle2
      exact prefix_of_between p (false :: a') (true :: b') kv.1 (by rw [← hk0p, hk0, hlen kv hkv]) hle1 hle2
    -- the list with the common prefix removed
    let K := ((k0, v0) :: kv1 :: more).map fun kv => (kv.1.drop p.length, kv.2)
    have hK : (k0, v0) :: kv1 :: more = K.map fun kv => (p ++ kv.1, kv.2) := map_drop_prefix p _ hpre
    have hKlen : ∀ kv ∈ K, kv.1.length = m - p.length := by
      intro kv hkv
      obtain ⟨x, hx, rfl⟩ := List.mem_map.mp hkv
      simp [hlen x hx]
    have hKs : SortedKV K := by
      unfold SortedKV at hs ⊢
      rw [hK, List.pairwise_map] at hs
      simpa using hs
    obtain ⟨L, R, hsplit, hLR⟩ := splitKeys_sorted p K hKs (by
      intro kv hkv h
      have := hKlen kv hkv
      rw [h] at this; simp at this; omega)
    have hK0 : (false :: a', v0) ∈ K := by
      apply List.mem_map.mpr
      refine ⟨(k0, v0), by simp, ?_⟩
      simp [hk0p]
    have hKl : (true :: b', last.2) ∈ K := by
      apply List.mem_map.mpr
      refine ⟨last, hlast_mem, ?_⟩
      simp [hklp]
    have hLne : L ≠ [] := by
      intro h
      subst h
      rw [hLR] at hK0
      simp at hK0
    have hRne : R ≠ [] := by
      intro h
      subst h
      rw [hLR] at hKl
      simp at hKl
    have hLmem : ∀ kv ∈ L, (false :: kv.1, kv.2) ∈ K := by
      intro kv hkv; rw [hLR]; apply List.mem_append_left; exact List.mem_map.mpr ⟨kv, hkv, rfl⟩
    have hRmem : ∀ kv ∈ R, (true :: kv.1, kv.2) ∈ K := by
      intro kv hkv; rw [hLR]; apply List.mem_append_right; exact List.mem_map.mpr ⟨kv, hkv, rfl⟩
    have hKfit : ∀ kv ∈ K, Fits C pay n kv.2 := by
      intro kv hkv
      obtain ⟨x, hx, rfl⟩ := List.mem_map.mp hkv
      exact hfit x hx
    have hLs : SortedKV L := by
      unfold SortedKV at hKs ⊢
      rw [hLR, List.pairwise_append] at hKs
      have := hKs.1
      rw [List.pairwise_map] at this
      simpa using this
    have hRs : SortedKV R := by
      unfold SortedKV at hKs ⊢
      rw [hLR, List.pairwise_append] at hKs
      have := hKs.2.1
      rw [List.pairwise_map] at this
      simpa using this
    obtain ⟨tL, hvL, hmL, heL⟩ := encodeMap_sorted C pay n f (m - p.length - 1) L (by omega) (by omega) hLne
      (by intro kv hkv; have := hKlen _ (hLmem kv hkv); simp at this; omega) hLs
      (fun kv hkv => hKfit (false :: kv.1, kv.2) (hLmem kv hkv))
    obtain ⟨tR, hvR, hmR, heR⟩ := encodeMap_sorted C pay n f (m - p.length - 1) R (by omega) (by omega) hRne
      (by intro kv hkv; have := hKlen _ (hRmem kv hkv); simp at this; omega) hRs
      (fun kv hkv => hKfit (true :: kv.1, kv.2) (hRmem kv hkv))
    refine ⟨.fork (canonLbl p m) tL tR, ?_, ?_, ?_⟩
    · simp only [HTree.Valid, canonLbl_bits]
      exact ⟨by omega, hvL, hvR⟩
    · simp only [HTree.meaning, canonLbl_bits, hmL, hmR]
      rw [hK, hLR]
      simp [List.map_append, List.map_map, Function.comp_def]
    · have hcl : commonLabel (m : Int) k0 last.1 = .ok p := by
        rw [commonLabel_eq_lcp m k0 last.1 hk0 hkl hne, hp]
      have hsub : (m : Int) - (p.length : Int) - 1 = ((m - p.length - 1 : Nat) : Int) := by omega
      obtain ⟨hfe, hfb, hfr, _⟩ := hfit (k0, v0) (by simp)
      have hw := minBits_mono hmn
      have hl := canonLbl_enc_length p m
      simp only [encodeMap, encodeFork]
      rw [hcl]
      simp only []
      rw [hK, hsplit]
      simp only [hsub, heL, heR, encLabelBits_eq, HTree.toCell, canonLbl_bits]
      apply mkCell_ok
      · simp at hfb ⊢; omega
      · simp

/-! ### further facts used by the property theorems -/

theorem toCell_ty {V : Type} (pay : V → List Bool × List Cell) (t : HTree V) (m : Nat) : (t.toCell pay m).ty = 0 := by
  cases t <;> rfl

/-- the meaning of a valid tree is listed in strictly ascending order of key bits -/
theorem meaning_sorted {V : Type} (t : HTree V) : ∀ (m : Nat), t.Valid m → SortedKV t.meaning := by
  induction t with
  | leaf l v => intro m _; simp [HTree.meaning, SortedKV]
  | fork l lo hi ihlo ihhi =>
    intro m hv
    simp only [HTree.Valid] at hv
    obtain ⟨_, hvlo, hvhi⟩ := hv
    have h1 := ihlo _ hvlo
    have h2 := ihhi _ hvhi
    unfold SortedKV at *
    simp only [HTree.meaning]
    rw [List.pairwise_append]
    refine ⟨?_, ?_, ?_⟩
    · rw [List.pairwise_map]; simpa using h1
    · rw [List.pairwise_map]; simpa using h2
    · intro a ha b hb
      obtain ⟨x, _, rfl⟩ := List.mem_map.mp ha
      obtain ⟨y, _, rfl⟩ := List.mem_map.mp hb
      simp

theorem foldl_max_len {V : Type} (n : Nat) : ∀ (kvs : List (Key × V)) (init : Nat), kvs ≠ [] →
    (∀ kv ∈ kvs, kv.1.length = n) → kvs.foldl (fun m kv => max m kv.1.length) init = max init n
  | [], _, h, _ => by simp at h
  | [x], init, _, hw => by simp [hw x (by simp)]
  | x :: y :: rest, init, _, hw => by
    simp only [List.foldl_cons]
    have := foldl_max_len n (y :: rest) (max init x.1.length) (by simp)
      (fun kv h => hw kv (List.mem_cons_of_mem _ h))
    simp only [List.foldl_cons] at this
    rw [this, hw x (by simp)]
    omega

theorem maxKeyLen_eq {V : Type} (n : Nat) (kvs : List (Key × V)) (hne : kvs ≠ []) (hw : ∀ kv ∈ kvs, kv.1.length = n) :
    maxKeyLen kvs = n := by
  unfold maxKeyLen
  rw [foldl_max_len n kvs 0 hne hw]
  omega

end Tongo.Hashmap
