import TongoModel.Tlb.Chain
import TongoProofs.Lemmas.TlbPrims
/-! C03: the round trip of structures holding a reference chain (wallet.MessageV5 / W5ExtendedActions): the third mode
next to greedy / non-greedy — "follows the next reference whenever there is one". -/
namespace Tongo.Tlb
open Tongo Tongo.Bits

section
variable {env : Env}

/-- exact round trip under a condition `C` on what follows the chunk -/
def RTc (C : Slice → Prop) (dec : Slice → Outcome (Val × Slice)) (v : Val) (xs : List Bool) (rs : List Cell) : Prop :=
  ∀ s : Slice, s.isLibrary = false → C s → dec (s.prepend xs rs) = .ok (v, s)

/-- no reference follows -/
def NoRefs (s : Slice) : Prop := s.refs = []

theorem RT.toRTc {dec : Slice → Outcome (Val × Slice)} {ng : Prop} {v xs rs} (h : RT dec ng v xs rs) (hng : ng)
    (C : Slice → Prop) : RTc C dec v xs rs := by
  intro s hs _
  obtain ⟨s', hd, he⟩ := h s hs (Or.inl hng)
  rw [he hng] at hd
  exact hd

theorem ng_of_fuel {T : Ty} (h : greedyb env greedyFuel T = false) : NG env T := ⟨greedyFuel, h⟩

/-- **chain_rt**: a reference chain over a well-formed, non-greedy element type: what the encoder appends is read back
exactly, provided no reference follows -/
theorem chain_rt (hEnv : EnvWF env) (e : Ty) (hw : wfb env e = true) (hng : NG env e) :
    ∀ (fuel : Nat) (v : Val) (b b' : Builder), inDom env fuel (.chain e) v = true →
      encode env fuel (.chain e) v b = .ok b' →
      ∃ xs rs, b' = b.app xs rs ∧ RTc NoRefs (decode env fuel (.chain e)) v xs rs
  | 0, v, _, _, hd, _ => by simp [inDom] at hd
  | fuel + 1, v, b, b', hd, he => by
    cases v <;> try (simp [inDom] at hd; done)
    rename_i x rest
    simp only [inDom, Bool.and_eq_true, Bool.or_eq_true] at hd
    obtain ⟨hdx, hdr⟩ := hd
    simp only [encode] at he
    obtain ⟨b1, hb1, he⟩ := bind_ok_inv he
    obtain ⟨xs1, rs1, hbb1, hrt1⟩ := (Inv.all env hEnv primOK_of_proved fuel).enc e x b b1 hw hdx hb1
    have hx := hrt1.toRTc hng (fun _ => True)
    by_cases hr : rest = .nil
    · subst hr
      simp only at he
      cases he
      refine ⟨xs1, rs1, hbb1, ?_⟩
      intro s hs hno
      have h1 := hx s hs trivial
      have hnr : s.nextRef = .err "not enough refs" := by
        have : s.refs = [] := hno
        simp [Slice.nextRef, this]
      simp only [decode, Slice.prepend_isLibrary, hs, Bool.false_eq_true, ↓reduceIte, h1, bind, Outcome.bind, hnr, pure]
    · have hdr' : inDom env fuel (.chain e) rest = true := by
        rcases hdr with h1 | h1
        · cases rest <;> first | exact absurd rfl hr | simp [Val.isNil] at h1
        · exact h1
      have he' : (encode env fuel (.chain e) rest Builder.empty >>= fun child => b1.addRef child.toCell) = .ok b' := by
        cases rest <;> first | exact he | exact absurd rfl hr
      obtain ⟨child, hch, he2⟩ := bind_ok_inv he'
      have e2 := Builder.addRef_ok he2
      obtain ⟨xs2, rs2, hbb2, hrt2⟩ := chain_rt hEnv e hw hng fuel rest Builder.empty child hdr' hch
      refine ⟨xs1, rs1 ++ [child.toCell], by rw [e2, hbb1, Builder.app_app]; simp, ?_⟩
      intro s hs hno
      have hsplit : s.prepend xs1 (rs1 ++ [child.toCell]) = (s.prepend [] [child.toCell]).prepend xs1 rs1 := by
        rw [Slice.prepend_prepend]; simp
      have h1 := hx (s.prepend [] [child.toCell]) (by simpa using hs) trivial
      have hnr : (s.prepend [] [child.toCell]).nextRef = .ok (child.toCell, s) := by
        have := Slice.nextRef_prepend s [] child.toCell []
        simpa using this
      have hcell : Slice.ofCell child.toCell = ({} : Slice).prepend xs2 rs2 := by
        rw [hbb2]; exact ofCell_app_empty xs2 rs2
      have h2 := hrt2 {} rfl rfl
      simp only [decode, hsplit, Slice.prepend_isLibrary, hs, Bool.false_eq_true, ↓reduceIte, h1, bind, Outcome.bind,
        hnr, hcell, pure]
      rw [h2]

/-- **chain_roundtrip**: a reference chain as the whole content of a cell -/
theorem chain_roundtrip (hEnv : EnvWF env) (T : Ty) (hc : chainOkb env T = true) (fuel : Nat) (v : Val)
    (hd : inDom env fuel T v = true) (b' : Builder) (he : encode env fuel T v Builder.empty = .ok b') :
    ∃ rest, decode env fuel T (Slice.ofCell b'.toCell) = .ok (v, rest) := by
  cases T <;> try (simp [chainOkb] at hc; done)
  rename_i e
  simp only [chainOkb, Bool.and_eq_true, Bool.not_eq_true'] at hc
  obtain ⟨xs, rs, hb, hrt⟩ := chain_rt hEnv e hc.1 (ng_of_fuel hc.2) fuel v _ b' hd he
  refine ⟨{}, ?_⟩
  rw [hb, ofCell_app_empty]
  exact hrt {} rfl rfl

/-- a bits-only type never adds a reference -/
theorem bitsOnly_refs (T : Ty) (hb : bitsOnlyb T = true) (fuel : Nat) (v : Val) (b b' : Builder)
    (he : encode env fuel T v b = .ok b') : b'.refs = b.refs := by
  cases fuel with
  | zero => simp [encode] at he
  | succ fuel =>
    cases T <;> try (simp [bitsOnlyb] at hb; done)
    all_goals
      simp only [encode] at he
      split at he <;> try (cases he; done)
    · rw [Builder.writeBits_ok he]; simp [Builder.app]
    · unfold Builder.writeInt at he
      split at he
      · cases he
      · split at he
        · cases he
        · rw [Builder.writeBits_ok he]; simp [Builder.app]
    · rw [Builder.writeBits_ok he]; simp [Builder.app]
    · split at he
      · rw [Builder.writeBits_ok he]; simp [Builder.app]
      · cases he

theorem bitsOnlyFields_refs : ∀ (fs : Fields), bitsOnlyFields fs = true → ∀ (fuel : Nat) (v : Val) (b b' : Builder),
    encodeFields env fuel fs v b = .ok b' → b'.refs = b.refs
  | .nil, _, fuel, v, b, b', he => by
    cases fuel with
    | zero => simp [encodeFields] at he
    | succ fuel =>
      cases v <;> simp only [encodeFields] at he <;> first | (cases he; rfl) | cases he
  | .cons n ft t rest, hb, fuel, v, b, b', he => by
    cases fuel with
    | zero => simp [encodeFields] at he
    | succ fuel =>
      cases v <;> simp only [encodeFields] at he <;> first | cases he | skip
      rename_i x vs
      simp only [bitsOnlyFields, Bool.and_eq_true] at hb
      obtain ⟨b1, hb1, he2⟩ := bind_ok_inv he
      have h2 := bitsOnlyFields_refs rest hb.2 fuel vs b1 b' he2
      have hft : ft = .plain ∧ bitsOnlyb t = true := by
        cases ft <;> first | exact ⟨rfl, hb.1⟩ | exact absurd hb.1 (by simp)
      obtain ⟨rfl, hbt⟩ := hft
      have h1 : b1.refs = b.refs := by
        cases fuel with
        | zero => simp [encodeField] at hb1
        | succ fuel =>
          have hnm : t.isMagic = false := by cases t <;> first | rfl | simp [bitsOnlyb] at hbt
          rw [encodeField_notMagic .plain t x b hnm] at hb1
          exact bitsOnly_refs t hbt fuel x b b1 hb1
      rw [h2, h1]

theorem ngField_of (ft : FieldTag) (t : Ty) (h : ngFieldb env ft t = true) : NGfield env ft t := by
  cases ft <;> simp only [ngFieldb, Bool.not_eq_true'] at h <;> simp only [NGfield]
  · exact ng_of_fuel h
  · exact ng_of_fuel h

theorem prepend_bits_nil (s : Slice) (xs ys : List Bool) (rs : List Cell) :
    s.prepend (xs ++ ys) rs = (s.prepend ys []).prepend xs rs := by
  rw [Slice.prepend_prepend]; simp

/-- **chainFields_rt**: the fields of a struct with a reference chain followed by bits-only fields -/
theorem chainFields_rt (hEnv : EnvWF env) : ∀ (fuel : Nat) (fs : Fields) (v : Val) (b b' : Builder),
    chainFieldsb env fs = true → inDomFields env fuel fs v = true → encodeFields env fuel fs v b = .ok b' →
    ∃ xs rs, b' = b.app xs rs ∧ RTc NoRefs (decodeFields env fuel fs) v xs rs
  | 0, _, _, _, _, _, hd, _ => by simp [inDomFields] at hd
  | fuel + 1, .nil, v, b, b', _, hd, he => by
    cases v <;> simp only [inDomFields, Bool.false_eq_true] at hd
    simp only [encodeFields] at he
    cases he
    refine ⟨[], [], by simp, ?_⟩
    intro s _ _
    simp only [decodeFields, Slice.prepend_nil]
  | fuel + 1, .cons n ft t rest, v, b, b', hc, hd, he => by
    cases v <;> simp only [inDomFields, Bool.false_eq_true] at hd
    rename_i x vs
    simp only [Bool.and_eq_true] at hd
    obtain ⟨hd1, hd2⟩ := hd
    simp only [encodeFields] at he
    obtain ⟨b1, he1, he2⟩ := bind_ok_inv he
    have I := Inv.all env hEnv primOK_of_proved fuel
    unfold chainFieldsb at hc
    split at hc
    · -- the optional chain, bits-only fields after it
      rename_i m e
      simp only [Bool.and_eq_true, Bool.not_eq_true'] at hc
      obtain ⟨⟨⟨⟨hwe, hge⟩, hbo⟩, hwr⟩, hgr⟩ := hc
      obtain ⟨xs2, rs2, hb2, hrt2⟩ := I.fields rest vs b1 b' hwr hd2 he2
      have hrs2 : rs2 = [] := by
        have := bitsOnlyFields_refs (env := env) rest hbo fuel vs b1 b' he2
        rw [hb2] at this
        simpa [Builder.app] using this
      subst hrs2
      have hr2 := hrt2.toRTc ⟨greedyFuel, hgr⟩ NoRefs
      cases fuel with
      | zero => simp [inDomField] at hd1
      | succ g =>
        rw [encodeField_notMagic .maybe _ x b rfl] at he1
        by_cases hx : x = .none
        · subst hx
          simp only [Builder.writeBit] at he1
          have e1 := Builder.writeBits_ok he1
          refine ⟨[false] ++ xs2, [], by rw [hb2, e1, Builder.app_app]; simp, ?_⟩
          intro s hs hno
          have hbit := Slice.readBit_prepend s false xs2 []
          have h2 := hr2 s hs hno
          simp only [List.singleton_append, decodeFields, decodeField, Slice.prepend_isLibrary, hs, Bool.false_eq_true,
            ↓reduceIte, hbit, bind, Outcome.bind, Bool.not_false, pure, absentVal, h2]
        · have he1' : (b.writeBit true >>= fun b0 => encode env g (.ptr m (.chain e)) x b0) = .ok b1 := by
            cases x <;> first | exact he1 | exact absurd rfl hx
          obtain ⟨b0, hb0, he3⟩ := bind_ok_inv he1'
          simp only [Builder.writeBit] at hb0
          have e0 := Builder.writeBits_ok hb0
          have hdx : inDom env g (.ptr m (.chain e)) x = true := by
            cases x <;> first | exact hd1 | exact absurd rfl hx
          cases g with
          | zero => simp [inDom] at hdx
          | succ g' =>
            simp only [inDom] at hdx
            split at hdx
            · rename_i y
              simp only [Bool.and_eq_true] at hdx
              simp only [encode] at he3
              obtain ⟨xsC, rsC, hbC, hrtC⟩ := chain_rt hEnv e hwe (ng_of_fuel hge) g' y b0 b1 hdx.1 he3
              refine ⟨[true] ++ (xsC ++ xs2), rsC ++ [], by rw [hb2, hbC, e0, Builder.app_app, Builder.app_app]; simp, ?_⟩
              intro s hs hno
              have hbit := Slice.readBit_prepend s true (xsC ++ xs2) (rsC ++ [])
              have hsp : s.prepend (xsC ++ xs2) (rsC ++ []) = (s.prepend xs2 []).prepend xsC rsC := by
                rw [Slice.prepend_prepend]
              have hC := hrtC (s.prepend xs2 []) (by simpa using hs) (by simpa [NoRefs, Slice.prepend] using hno)
              have h2 := hr2 s hs hno
              have hl2 : ((s.prepend xs2 []).prepend xsC rsC).isLibrary = false := by simpa using hs
              simp only [List.singleton_append, decodeFields, decodeField, Slice.prepend_isLibrary, hs,
                Bool.false_eq_true, ↓reduceIte, hbit, bind, Outcome.bind, Bool.not_true, hsp, decode, hl2, hC, pure, h2,
                Val.some]
            · cases hdx
    · -- an ordinary non-greedy field
      simp only [Bool.and_eq_true] at hc
      obtain ⟨⟨hw1, hg1⟩, hcr⟩ := hc
      obtain ⟨xs1, rs1, hb1, hrt1⟩ := I.field n ft t .nil x b b1 hw1 hd1 he1
      have hr1 := hrt1.toRTc (ngField_of ft t hg1) (fun _ => True)
      obtain ⟨xs2, rs2, hb2, hr2⟩ := chainFields_rt hEnv fuel rest vs b1 b' hcr hd2 he2
      refine ⟨xs1 ++ xs2, rs1 ++ rs2, by rw [hb2, hb1, Builder.app_app], ?_⟩
      intro s hs hno
      have h1 := hr1 (s.prepend xs2 rs2) (by simpa using hs) trivial
      rw [Slice.prepend_prepend] at h1
      have h2 := hr2 s hs hno
      simp only [decodeFields, h1, h2, bind, Outcome.bind, pure]

theorem chainCtors_find : ∀ (cs : Ctors) {name : String} {tg : Option Tag} {t : Ty}, chainCtorsb env cs = true →
    cs.find name = some (tg, t) → ∃ m fs, t = .ptr m (.struct fs) ∧ chainFieldsb env fs = true
  | .nil, _, _, _, _, hf => by simp [Ctors.find] at hf
  | .cons n tg0 t0 rest, name, tg, t, hc, hf => by
    simp only [chainCtorsb, Bool.and_eq_true] at hc
    simp only [Ctors.find] at hf
    split at hf
    · cases hf
      have h1 := hc.1
      split at h1
      · rename_i m fs; exact ⟨m, fs, rfl, h1⟩
      · cases h1
    · exact chainCtors_find rest hc.2 hf

/-- **chainTop_roundtrip**: `tlb.Marshal` of an in-domain value of a sum type whose constructors are structs with a
reference chain (wallet.MessageV5) yields a cell from which `tlb.Unmarshal` returns the same value -/
theorem chainTop_roundtrip (hEnv : EnvWF env) (T : Ty) (hc : chainTopb env T = true) (fuel : Nat) (v : Val)
    (hd : inDom env fuel T v = true) (b' : Builder) (he : encode env fuel T v Builder.empty = .ok b') :
    ∃ rest, decode env fuel T (Slice.ofCell b'.toCell) = .ok (v, rest) := by
  cases T <;> try (simp [chainTopb] at hc; done)
  rename_i cs
  simp only [chainTopb, Bool.and_eq_true] at hc
  obtain ⟨⟨⟨hsome, hok⟩, hpf⟩, hcc⟩ := hc
  cases fuel with
  | zero => simp [inDom] at hd
  | succ f =>
  simp only [inDom] at hd
  simp only [encode] at he
  split at hd
  · rename_i name x
    simp only [Bool.and_eq_true, bne_iff_ne, ne_eq] at hd
    obtain ⟨hne, hd2⟩ := hd
    simp only [hne, ↓reduceIte] at he
    cases hfind : cs.find name with
    | none => simp [hfind] at hd2
    | some p =>
      obtain ⟨tg, t⟩ := p
      simp only [hfind] at hd2 he
      obtain ⟨g, rfl⟩ := find_tag_some cs hfind hsome
      obtain ⟨m, fs, rfl, hcf⟩ := chainCtors_find cs hcc hfind
      obtain ⟨b1, hb1, he2⟩ := bind_ok_inv he
      simp only [encodeTag, Builder.writeUint] at hb1
      have hb1' := Builder.writeBits_ok hb1
      have hgok : g.ok = true := (List.all_eq_true.mp hok) g (find_tag_mem cs hfind)
      have hg := hgok
      simp only [Tag.ok, Bool.and_eq_true, decide_eq_true_eq] at hg
      rw [natToBits_mod64 g.len g.val hg.1] at hb1'
      -- the payload: a pointer to the struct
      cases f with
      | zero => simp [inDom] at hd2
      | succ f1 =>
        simp only [inDom] at hd2
        split at hd2
        · rename_i y
          simp only [Bool.and_eq_true] at hd2
          simp only [encode] at he2
          cases f1 with
          | zero => simp [inDom] at hd2
          | succ f2 =>
            have hdy := hd2.1
            simp only [inDom] at hdy
            simp only [encode] at he2
            obtain ⟨xs, rs, hb, hrt⟩ := chainFields_rt hEnv f2 fs y b1 b' hcf hdy he2
            have hcell : Slice.ofCell b'.toCell = ({} : Slice).prepend (natToBits g.len g.val ++ xs) rs := by
              rw [hb, hb1', Builder.app_app]
              simp only [List.nil_append]
              exact ofCell_app_empty _ _
            refine ⟨{}, ?_⟩
            rw [hcell]
            have hs : ({} : Slice).isLibrary = false := rfl
            have hsel := selectCtor_find cs name g (.ptr m (.struct fs)) (xs ++ ({} : Slice).bits) hfind hsome hok hpf
            have hbits : (({} : Slice).prepend (natToBits g.len g.val ++ xs) rs).bits =
                natToBits g.len g.val ++ (xs ++ ({} : Slice).bits) := by simp [Slice.prepend]
            have hdrop : ({ (({} : Slice).prepend (natToBits g.len g.val ++ xs) rs) with
                bits := (natToBits g.len g.val ++ (xs ++ ({} : Slice).bits)).drop g.len } : Slice) =
                ({} : Slice).prepend xs rs := by
              rw [List.drop_left' (natToBits_length _ _)]
              simp [Slice.prepend]
            have hf := hrt {} rfl rfl
            have hl : (({} : Slice).prepend xs rs).isLibrary = false := rfl
            simp only [decode, Slice.prepend_isLibrary, hs, Bool.false_eq_true, ↓reduceIte, hbits, hsel, hdrop, hl, hf,
              bind, Outcome.bind, pure, Val.ctor, Val.some]
        · cases hd2
  · cases hd

end
end Tongo.Tlb
