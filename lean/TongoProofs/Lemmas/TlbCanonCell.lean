import TongoProofs.Lemmas.TlbCanonPrim
import TongoProofs.Lemmas.TlbCanonDict
/-! The converse induction over descriptors for CELLS (`canonAt`): whatever slice passes the canonicity check, the
value the decoder returns is re-encoded to exactly the chunk (bits and references) the check walked over. -/
namespace Tongo.Tlb
open Tongo Tongo.Bits

theorem nextRef_inv {s s' : Slice} {c : Cell} (h : s.nextRef = .ok (c, s')) : s = s'.prepend [] [c] := by
  unfold Slice.nextRef at h
  split at h
  · cases h
  · rename_i c0 rest hrefs
    simp only [Outcome.ok.injEq, Prod.mk.injEq] at h
    obtain ⟨rfl, rfl⟩ := h
    cases s
    simp only at hrefs
    simp [Slice.prepend, hrefs]

theorem ite_some {c : Prop} [Decidable c] {a rest : Slice} (h : (if c then some a else none) = some rest) :
    c ∧ a = rest := by
  split at h
  · exact ⟨by assumption, Option.some.inj h⟩
  · cases h

theorem ite_some' {c : Prop} [Decidable c] {o : Option Slice} {rest : Slice}
    (h : (if c then o else none) = some rest) : c ∧ o = some rest := by
  split at h
  · exact ⟨by assumption, h⟩
  · cases h

theorem sliceEmpty_iff {r : Slice} (h : sliceEmpty r = true) : r.bits = [] ∧ r.refs = [] := by
  simpa [sliceEmpty] using h

section
variable {env : Env} {f : Nat}

/-- the three mutually dependent statements at one fuel level -/
structure CInvC (env : Env) (f : Nat) : Prop where
  dec : ∀ T, EDc (decode env f T) (encode env f T) (canonAt env f T) (NG env T)
  field : ∀ ft T, EDc (decodeField env f ft T) (encodeField env f ft T) (canonFieldAt env f ft T) (NGfield env ft T)
  fields : ∀ fs, EDc (decodeFields env f fs) (encodeFields env f fs) (canonFieldsAt env f fs) (NGF env fs)

theorem CInvC.zero : CInvC env 0 :=
  ⟨fun _ s v s' h => by simp [decode] at h, fun _ _ s v s' h => by simp [decodeField] at h,
   fun _ s v s' h => by simp [decodeFields] at h⟩

/-- a child cell that is ordinary, canonical and entirely consumed is rebuilt by the encoder -/
theorem child_rebuilt {T : Ty} {ng : Prop} (hIH : EDc (decode env f T) (encode env f T) (canonAt env f T) ng)
    (c : Cell) (v : Val) (sx : Slice) (hd : decode env f T (Slice.ofCell c) = .ok (v, sx))
    (hc : (c.ty == 0 && c.mask == 0 && (match canonAt env f T (Slice.ofCell c) with
      | some r => sliceEmpty r
      | none => false)) = true) :
    ∀ child, encode env f T v Builder.empty = .ok child → child.toCell = c := by
  simp only [Bool.and_eq_true, beq_iff_eq] at hc
  obtain ⟨⟨hty, hmask⟩, hcan⟩ := hc
  cases hr : canonAt env f T (Slice.ofCell c) with
  | none => rw [hr] at hcan; cases hcan
  | some r =>
    rw [hr] at hcan
    obtain ⟨hb, hrf⟩ := sliceEmpty_iff hcan
    obtain ⟨xs, rs, e, henc, _⟩ := hIH _ v sx hd r hr
    intro child hch
    rw [henc _ _ hch]
    obtain ⟨ty, mask, bits, refs⟩ := c
    obtain ⟨rty, rmask, rbits, rrefs⟩ := r
    simp only [Cell.ty, Cell.mask] at hty hmask
    simp only at hb hrf
    subst hty hmask hb hrf
    simp only [Slice.ofCell, Slice.prepend, List.append_nil, Slice.mk.injEq] at e
    obtain ⟨_, _, rfl, rfl⟩ := e
    simp [Builder.empty, Builder.app, Builder.toCell]

/-- what `EDc` concludes for one slice -/
def Concl (env : Env) (f : Nat) (T : Ty) (s : Slice) (v : Val) (s' rest : Slice) : Prop :=
  ∃ xs rs, s = rest.prepend xs rs ∧ (∀ b b', encode env f T v b = .ok b' → b' = b.app xs rs) ∧ (NG env T → rest = s')

/-- the common entry of every case: not a library cell; a type of the class `canonb` is settled by `CInv` -/
theorem edc_split {T : Ty} {X : Option Slice} {s s' rest : Slice} {v : Val}
    (hd : decode env (f + 1) T s = .ok (v, s'))
    (hr : (if s.isLibrary then none else if canonb env canonFuel T then restOf (decode env (f + 1) T s) else X)
      = some rest) :
    Concl env (f + 1) T s v s' rest ∨ (s.isLibrary = false ∧ X = some rest) := by
  by_cases hl : s.isLibrary = true
  · rw [if_pos hl] at hr; cases hr
  · rw [if_neg hl] at hr
    by_cases hc : canonb env canonFuel T = true
    · rw [if_pos hc] at hr
      exact Or.inl (EDc.of_ED ((CInv.all env (f + 1)).dec canonFuel T hc) _ s v s' hd rest hr)
    · rw [if_neg hc] at hr
      exact Or.inr ⟨by simpa using hl, hr⟩

theorem edc_ptr (h : CInvC env f) (m : Bool) (t : Ty) :
    EDc (decode env (f + 1) (.ptr m t)) (encode env (f + 1) (.ptr m t)) (canonAt env (f + 1) (.ptr m t))
      (NG env (.ptr m t)) := by
  intro s v s' hd rest hr
  simp only [canonAt] at hr
  rcases edc_split hd hr with done | ⟨hl, hr⟩
  · exact done
  simp only [decode, hl, Bool.false_eq_true, ↓reduceIte] at hd
  obtain ⟨r, hr1, h2⟩ := bind_ok_inv hd
  obtain ⟨x, s1⟩ := r
  simp only [pure, Outcome.ok.injEq, Prod.mk.injEq] at h2
  obtain ⟨rfl, rfl⟩ := h2
  obtain ⟨xs, rs, e, henc, hng⟩ := h.dec t s x s1 hr1 rest hr
  refine ⟨xs, rs, e, ?_, fun hn => hng hn.ptr⟩
  intro b b' he
  simp only [encode, Val.some] at he
  exact henc b b' he

theorem edc_struct (h : CInvC env f) (fs : Fields) :
    EDc (decode env (f + 1) (.struct fs)) (encode env (f + 1) (.struct fs)) (canonAt env (f + 1) (.struct fs))
      (NG env (.struct fs)) := by
  intro s v s' hd rest hr
  simp only [canonAt] at hr
  rcases edc_split hd hr with done | ⟨hl, hr⟩
  · exact done
  simp only [decode, hl, Bool.false_eq_true, ↓reduceIte] at hd
  obtain ⟨xs, rs, e, henc, hng⟩ := h.fields fs s v s' hd rest hr
  exact ⟨xs, rs, e, fun b b' he => henc b b' (by simpa only [encode] using he), fun hn => hng hn.struct⟩

theorem edc_named (h : CInvC env f) (id : Nat) :
    EDc (decode env (f + 1) (.named id)) (encode env (f + 1) (.named id)) (canonAt env (f + 1) (.named id))
      (NG env (.named id)) := by
  intro s v s' hd rest hr
  simp only [canonAt] at hr
  rcases edc_split hd hr with done | ⟨hl, hr⟩
  · exact done
  simp only [decode, hl, Bool.false_eq_true, ↓reduceIte] at hd
  cases ht : env id with
  | none => simp [ht] at hr
  | some t =>
    simp only [ht] at hr hd
    obtain ⟨xs, rs, e, henc, hng⟩ := h.dec t s v s' hd rest hr
    exact ⟨xs, rs, e, fun b b' he => henc b b' (by simpa only [encode, ht] using he), fun hn => hng (hn.named ht)⟩

theorem edc_maybe (h : CInvC env f) (t : Ty) :
    EDc (decode env (f + 1) (.maybe t)) (encode env (f + 1) (.maybe t)) (canonAt env (f + 1) (.maybe t))
      (NG env (.maybe t)) := by
  intro s v s' hd rest hr
  simp only [canonAt] at hr
  rcases edc_split hd hr with done | ⟨hl, hr⟩
  · exact done
  simp only [decode, hl, Bool.false_eq_true, ↓reduceIte] at hd
  obtain ⟨r, hr1, h2⟩ := bind_ok_inv hd
  obtain ⟨ex, s1⟩ := r
  simp only [hr1] at hr
  cases ex with
  | true =>
    simp only [↓reduceIte] at h2 hr
    obtain ⟨r2, hr2, h3⟩ := bind_ok_inv h2
    obtain ⟨x, s2⟩ := r2
    simp only [pure, Outcome.ok.injEq, Prod.mk.injEq] at h3
    obtain ⟨rfl, rfl⟩ := h3
    obtain ⟨ys, rs, e, henc, hng⟩ := h.dec t s1 x s2 hr2 rest hr
    refine ⟨true :: ys, rs, ?_, ?_, fun hn => hng hn.maybe⟩
    · rw [readBit_inv hr1, e, Slice.prepend_prepend]; rfl
    · intro b b' he
      simp only [encode, Val.some] at he
      obtain ⟨b1, hb1, he2⟩ := bind_ok_inv he
      rw [henc b1 b' he2, Builder.writeBits_ok hb1, Builder.app_app]; rfl
  | false =>
    simp only [Bool.false_eq_true, ↓reduceIte, pure, Outcome.ok.injEq, Prod.mk.injEq, Option.some.injEq] at h2 hr
    obtain ⟨rfl, rfl⟩ := h2
    subst hr
    refine ⟨[false], [], readBit_inv hr1, ?_, fun _ => rfl⟩
    intro b b' he
    simp only [encode, Builder.writeBit] at he
    exact Builder.writeBits_ok he

theorem edc_sum (h : CInvC env f) (cs : Ctors) :
    EDc (decode env (f + 1) (.sum cs)) (encode env (f + 1) (.sum cs)) (canonAt env (f + 1) (.sum cs))
      (NG env (.sum cs)) := by
  intro s v s' hd rest hr
  simp only [canonAt] at hr
  rcases edc_split hd hr with done | ⟨hl, hr⟩
  · exact done
  simp only [decode, hl, Bool.false_eq_true, ↓reduceIte] at hd
  split at hr
  · rename_i hcs
    simp only [Bool.and_eq_true] at hcs
    obtain ⟨hnd, _⟩ := hcs
    cases hsel : selectCtor cs s.bits with
    | err e => simp [hsel] at hd
    | panic e => simp [hsel] at hd
    | ok r =>
      obtain ⟨name, t, len⟩ := r
      simp only [hsel] at hd hr
      obtain ⟨r2, hr2, h3⟩ := bind_ok_inv hd
      obtain ⟨x, s2⟩ := r2
      simp only [pure, Outcome.ok.injEq, Prod.mk.injEq] at h3
      obtain ⟨rfl, rfl⟩ := h3
      obtain ⟨tg, hf, hlen, h64, hle, hval⟩ := selectCtor_sound cs s.bits name t len hnd hsel
      obtain ⟨ys, rs, e, henc, hng⟩ := h.dec t _ x s2 hr2 rest hr
      refine ⟨s.bits.take len ++ ys, rs, ?_, ?_, fun hn => hng (NGC.find hn.sum hf)⟩
      · have := slice_split s len
        rw [e, Slice.prepend_prepend] at this
        simpa using this
      · intro b b' he
        simp only [encode, Val.ctor] at he
        split at he
        · cases he
        · simp only [hf] at he
          obtain ⟨b1, hb1, he2⟩ := bind_ok_inv he
          simp only [encodeTag] at hb1
          have hl2 : (s.bits.take len).length = len := by simp; omega
          rw [hval, hlen, ← hl2] at hb1
          have e1 := writeUint_bits b b1 (s.bits.take len) (by omega) (by rw [hl2] at hb1 ⊢; exact hb1)
          rw [henc b1 b' he2, e1, Builder.app_app]; simp
  · cases hr

theorem edc_eitherRef (h : CInvC env f) (t : Ty) :
    EDc (decode env (f + 1) (.eitherRef t)) (encode env (f + 1) (.eitherRef t)) (canonAt env (f + 1) (.eitherRef t))
      (NG env (.eitherRef t)) := by
  intro s v s' hd rest hr
  simp only [canonAt] at hr
  rcases edc_split hd hr with done | ⟨hl, hr⟩
  · exact done
  simp only [decode, hl, Bool.false_eq_true, ↓reduceIte] at hd
  obtain ⟨r0, hr0, h2⟩ := bind_ok_inv hd
  obtain ⟨right, s1⟩ := r0
  simp only [hr0] at hr
  cases right with
  | true =>
    simp only [↓reduceIte] at h2 hr
    obtain ⟨r2, hr2, h3⟩ := bind_ok_inv h2
    obtain ⟨c, s2⟩ := r2
    obtain ⟨r3, hr3, h4⟩ := bind_ok_inv h3
    obtain ⟨x, sx⟩ := r3
    simp only [pure, Outcome.ok.injEq, Prod.mk.injEq] at h4
    obtain ⟨rfl, rfl⟩ := h4
    simp only [hr2] at hr
    obtain ⟨hchild, hr⟩ := ite_some hr
    · subst hr
      have hreb := child_rebuilt (h.dec t) c x sx hr3 hchild
      refine ⟨[true], [c], ?_, ?_, fun _ => rfl⟩
      · rw [readBit_inv hr0, nextRef_inv hr2, Slice.prepend_prepend]; rfl
      · intro b b' he
        have hR : ("R" = "R") = True := by simp
        simp only [encode, Val.ctor, ↓reduceIte] at he
        obtain ⟨b1, hb1, he2⟩ := bind_ok_inv he
        have e1 := Builder.writeBits_ok hb1
        split at he2
        · obtain ⟨child, hch, he3⟩ := bind_ok_inv he2
          simp only [pure, Outcome.ok.injEq] at he3
          rw [← he3, hreb child hch, e1]
          simp [Builder.app]
        · cases he2
  | false =>
    simp only [Bool.false_eq_true, ↓reduceIte] at h2 hr
    obtain ⟨r2, hr2, h3⟩ := bind_ok_inv h2
    obtain ⟨x, s2⟩ := r2
    simp only [pure, Outcome.ok.injEq, Prod.mk.injEq] at h3
    obtain ⟨rfl, rfl⟩ := h3
    obtain ⟨ys, rs, e, henc, hng⟩ := h.dec t s1 x s2 hr2 rest hr
    refine ⟨false :: ys, rs, ?_, ?_, fun hn => hng hn.eitherRef⟩
    · rw [readBit_inv hr0, e, Slice.prepend_prepend]; rfl
    · intro b b' he
      have : ("L" = "R") = False := by decide
      simp only [encode, Val.ctor, this, ↓reduceIte] at he
      obtain ⟨b1, hb1, he2⟩ := bind_ok_inv he
      rw [henc b1 b' he2, Builder.writeBits_ok hb1, Builder.app_app]; rfl

theorem edc_prim' (p : Prim) :
    EDc (decode env (f + 1) (.prim p)) (encode env (f + 1) (.prim p)) (canonAt env (f + 1) (.prim p))
      (NG env (.prim p)) := by
  intro s v s' hd rest hr
  simp only [canonAt] at hr
  rcases edc_split hd hr with done | ⟨hl, hr⟩
  · exact done
  simp only [decode, hl, Bool.false_eq_true, ↓reduceIte] at hd
  obtain ⟨xs, rs, e, henc, hng⟩ := edc_prim p s v s' hd rest hr
  exact ⟨xs, rs, e, fun b b' he => henc b b' (by simpa only [encode] using he), fun hn => hng hn.prim⟩

/-- `^Cell`: any child that is not pruned comes back as it is -/
theorem cell_child (c : Cell) (v : Val) (sx : Slice) (hd : decode env f .cell (Slice.ofCell c) = .ok (v, sx)) :
    v = .cell c ∧ ∀ child, encode env f .cell v Builder.empty = .ok child → child.toCell = c := by
  cases f with
  | zero => simp [decode] at hd
  | succ f =>
    have hv : v = .cell c := by
      by_cases hl : (Slice.ofCell c).isLibrary = true
      · simp only [decode, hl, ↓reduceIte, libraryEntry, Slice.toCell_ofCell, Outcome.ok.injEq, Prod.mk.injEq] at hd
        exact hd.1.symm
      · simp only [decode, hl, Bool.false_eq_true, ↓reduceIte, Slice.toCell_ofCell, Outcome.ok.injEq,
          Prod.mk.injEq] at hd
        exact hd.1.symm
    refine ⟨hv, ?_⟩
    subst hv
    intro child hch
    simp only [encode, Outcome.ok.injEq] at hch
    rw [← hch, toCell_ofCell]

theorem edc_refT (h : CInvC env f) (t : Ty) :
    EDc (decode env (f + 1) (.refT t)) (encode env (f + 1) (.refT t)) (canonAt env (f + 1) (.refT t))
      (NG env (.refT t)) := by
  intro s v s' hd rest hr
  simp only [canonAt] at hr
  rcases edc_split hd hr with done | ⟨hl, hr⟩
  · exact done
  simp only [decode, hl, Bool.false_eq_true, ↓reduceIte] at hd
  obtain ⟨r2, hr2, h3⟩ := bind_ok_inv hd
  obtain ⟨c, s1⟩ := r2
  simp only [hr2] at hr
  simp only at h3
  -- in both cases the child is not pruned
  have key : (Slice.ofCell c).isPruned = false →
      (∀ x sx, decode env f t (Slice.ofCell c) = .ok (x, sx) →
        ∀ child, encode env f t x Builder.empty = .ok child → child.toCell = c) → rest = s1 →
      Concl env (f + 1) (.refT t) s v s' rest := by
    intro hnp hreb hrest
    rw [if_neg (by simp [hnp])] at h3
    obtain ⟨r3, hr3, h4⟩ := bind_ok_inv h3
    obtain ⟨x, sx⟩ := r3
    simp only [pure, Outcome.ok.injEq, Prod.mk.injEq] at h4
    obtain ⟨rfl, rfl⟩ := h4
    subst hrest
    refine ⟨[], [c], nextRef_inv hr2, ?_, fun _ => rfl⟩
    intro b b' he
    simp only [encode] at he
    obtain ⟨child, hch, he2⟩ := bind_ok_inv he
    rw [hreb x sx hr3 child hch] at he2
    exact Builder.addRef_ok he2
  split at hr
  · -- ^Cell
    obtain ⟨hnp, hr⟩ := ite_some hr
    refine key ?_ (fun x sx hdx => (cell_child c x sx hdx).2) hr.symm
    rw [ofCell_isPruned, cellTy_eq]
    simpa using hnp
  · obtain ⟨hchild, hr⟩ := ite_some hr
    refine key ?_ (fun x sx hdx => child_rebuilt (h.dec t) c x sx hdx hchild) hr.symm
    simp only [Bool.and_eq_true, beq_iff_eq] at hchild
    rw [ofCell_isPruned, cellTy_eq, hchild.1.1]
    rfl

/-! ### dictionaries -/

theorem canonKey_width {k : Ty} {n : Nat} (h : canonKey k = some n) :
    keyWidth k = some n ∧ canonb env canonFuel k = true := by
  cases k <;> simp only [canonKey] at h <;> try (cases h; done)
  · split at h
    · cases h; exact ⟨rfl, by simpa [canonb, canonFuel] using ‹_›⟩
    · cases h
  · split at h
    · rename_i hc
      cases h
      simp only [Bool.and_eq_true, decide_eq_true_eq] at hc
      exact ⟨rfl, by simp [canonb, canonFuel, hc.1, hc.2]⟩
    · cases h
  · cases h; exact ⟨rfl, by simp [canonb, canonFuel]⟩

theorem over_len {s s' : Slice} {xs : List Bool} (h : Over s s' xs) : s.bits.length = xs.length + s'.bits.length := by
  rw [h]; simp [Slice.prepend]

/-- a dictionary key type reads exactly its width -/
theorem key_exact {k : Ty} {n : Nat} (hk : canonKey k = some n) (s s' : Slice) (v : Val)
    (hl : s.isLibrary = false) (hd : decode env f k s = .ok (v, s')) : s.bits.length = n + s'.bits.length := by
  cases f with
  | zero => simp [decode] at hd
  | succ f =>
  cases k <;> simp only [canonKey] at hk <;> try (cases hk; done)
  · split at hk <;> cases hk
    simp only [decode, hl, Bool.false_eq_true, ↓reduceIte] at hd
    obtain ⟨r, hr, h2⟩ := bind_ok_inv hd
    obtain ⟨x, s1⟩ := r
    simp only [pure, Outcome.ok.injEq, Prod.mk.injEq] at h2
    obtain ⟨_, rfl⟩ := h2
    obtain ⟨bs, e, hlen, _⟩ := rw_uint hr
    rw [over_len e, hlen]
  · split at hk <;> cases hk
    simp only [decode, hl, Bool.false_eq_true, ↓reduceIte] at hd
    obtain ⟨r, hr, h2⟩ := bind_ok_inv hd
    obtain ⟨x, s1⟩ := r
    simp only [pure, Outcome.ok.injEq, Prod.mk.injEq] at h2
    obtain ⟨_, rfl⟩ := h2
    obtain ⟨bs, e, hlen, _⟩ := rw_int hr
    rw [over_len e, hlen]
  · cases hk
    simp only [decode, hl, Bool.false_eq_true, ↓reduceIte] at hd
    obtain ⟨r, hr, h2⟩ := bind_ok_inv hd
    obtain ⟨x, s1⟩ := r
    simp only [pure, Outcome.ok.injEq, Prod.mk.injEq] at h2
    obtain ⟨_, rfl⟩ := h2
    exact readBytes_len hr

/-- a decoded key is re-encoded to the bits it was decoded from -/
theorem key_back {k : Ty} {n : Nat} (hk : canonKey k = some n) (key : Hashmap.Key) (hlen : key.length = n)
    (kval : Val) (kb : List Bool)
    (hd : (decode env f k { bits := key }).bind (fun r => Outcome.ok r.1) = .ok kval)
    (he : (encode env f k kval Builder.empty).bind (fun b => Outcome.ok b.bits) = .ok kb) : kb = key := by
  obtain ⟨r, hr, h2⟩ := bind_ok_inv hd
  obtain ⟨x, s1⟩ := r
  simp only [Outcome.ok.injEq] at h2
  subst h2
  obtain ⟨b, hb, h3⟩ := bind_ok_inv he
  simp only [Outcome.ok.injEq] at h3
  subst h3
  obtain ⟨xs, e, henc⟩ := (CInv.all env f).dec canonFuel k (canonKey_width hk).2 _ x s1 hr
  have hl := key_exact hk _ s1 x rfl hr
  simp only at hl
  have hx := over_len e
  simp only at hx
  have h0 : s1.bits = [] := List.eq_nil_of_length_eq_zero (by omega)
  rw [henc _ _ hb]
  have : ({ bits := key } : Slice).bits = xs ++ s1.bits := by rw [e]; simp [Slice.prepend]
  simp only [h0, List.append_nil] at this
  simp [Builder.app, Builder.empty, this]

theorem keys_back {k : Ty} {n : Nat} (hk : canonKey k = some n) : ∀ (kvs : List (Hashmap.Key × Val)) (ks : List Val)
    (kbits : List Hashmap.Key), (∀ kv ∈ kvs, kv.1.length = n) →
    mapMOutcome (fun (kv : Hashmap.Key × Val) => (decode env f k { bits := kv.1 }).bind fun r => .ok r.1) kvs = .ok ks →
    mapMOutcome (fun kv => (encode env f k kv Builder.empty).bind fun kb => .ok kb.bits) ks = .ok kbits →
    kbits = kvs.map (·.1)
  | [], ks, kbits, _, h1, h2 => by
    simp only [mapMOutcome, Outcome.ok.injEq] at h1
    subst h1
    simp only [mapMOutcome, Outcome.ok.injEq] at h2
    subst h2; rfl
  | kv :: kvs, ks, kbits, hw, h1, h2 => by
    simp only [mapMOutcome] at h1
    obtain ⟨kval, hk1, h3⟩ := bind_ok_inv h1
    obtain ⟨ks', hks', h4⟩ := bind_ok_inv h3
    simp only [pure, Outcome.ok.injEq] at h4
    subst h4
    simp only [mapMOutcome] at h2
    obtain ⟨kb, hkb, h5⟩ := bind_ok_inv h2
    obtain ⟨kbs', hkbs', h6⟩ := bind_ok_inv h5
    simp only [pure, Outcome.ok.injEq] at h6
    subst h6
    rw [key_back hk kv.1 (hw kv (by simp)) kval kb hk1 hkb,
      keys_back hk kvs ks' kbs' (fun x hx => hw x (by simp [hx])) hks' hkbs']
    rfl

theorem zipKV_unzip : ∀ (kvs : List (Hashmap.Key × Val)), zipKV (kvs.map (·.1)) (kvs.map (·.2)) = some kvs
  | [] => rfl
  | x :: l => by simp [zipKV, zipKV_unzip l]

theorem edc_dictE (h : CInvC env f) (k t : Ty) :
    EDc (decode env (f + 1) (.dictE k t)) (encode env (f + 1) (.dictE k t)) (canonAt env (f + 1) (.dictE k t))
      (NG env (.dictE k t)) := by
  intro s v s' hd rest hr
  simp only [canonAt] at hr
  rcases edc_split hd hr with done | ⟨hl, hr⟩
  · exact done
  simp only [decode, hl, Bool.false_eq_true, ↓reduceIte, decodeDictE] at hd
  obtain ⟨r0, hr0, h2⟩ := bind_ok_inv hd
  obtain ⟨ne, s1⟩ := r0
  cases hck : canonKey k with
  | none => simp [hr0, hck] at hr
  | some n =>
  obtain ⟨hkw, _⟩ := canonKey_width (env := env) hck
  simp only [hr0, hck] at hr
  cases ne with
  | false =>
    simp only [Bool.not_false, ↓reduceIte, pure, Outcome.ok.injEq, Prod.mk.injEq, Bool.false_eq_true,
      Option.some.injEq] at h2 hr
    obtain ⟨rfl, rfl⟩ := h2
    subst hr
    refine ⟨[false], [], readBit_inv hr0, ?_, fun _ => rfl⟩
    intro b b' he
    simp only [encode, dictParts, hkw, List.isEmpty_nil, ↓reduceIte, Builder.writeBit] at he
    exact Builder.writeBits_ok he
  | true =>
    simp only [Bool.not_true, Bool.false_eq_true, ↓reduceIte] at h2 hr
    obtain ⟨r2, hr2, h3⟩ := bind_ok_inv h2
    obtain ⟨root, s2⟩ := r2
    simp only [hr2] at hr
    obtain ⟨hwalk, hr⟩ := ite_some hr
    subst hr
    simp only at h3
    -- the root is an ordinary cell
    obtain ⟨rty, rmask, rbits, rrefs⟩ := root
    have hroot : rty = 0 ∧ rmask = 0 := by
      simp only [dictCanonAt, Bool.and_eq_true, beq_iff_eq] at hwalk
      exact hwalk.1
    obtain ⟨rfl, rfl⟩ := hroot
    have hnp : (Slice.ofCell (Cell.mk 0 0 rbits rrefs)).isPruned = false := rfl
    rw [if_neg (by simp [hnp])] at h3
    simp only [hkw] at h3
    obtain ⟨kvs, hu, h4⟩ := bind_ok_inv h3
    obtain ⟨ks, hks, h5⟩ := bind_ok_inv h4
    simp only [pure, Outcome.ok.injEq, Prod.mk.injEq] at h5
    obtain ⟨rfl, rfl⟩ := h5
    have hnl : ¬ ((Cell.mk 0 0 rbits rrefs).ty = tyLibrary) := by
      show ¬ ((0 : Nat) = tyLibrary); decide
    simp only [Hashmap.unmarshal, hnl, if_false] at hu
    -- the value codec pair
    have hval : ∀ bits refs v, (valueCodecDec (fun vs => decode env f t vs)).dec bits refs = .ok v →
        (match canonAt env f t { bits := bits, refs := refs } with
          | some r => sliceEmpty r
          | none => false) = true →
        ∀ vb vr, (valueCodecEnc (fun x => encode env f t x Builder.empty)).enc v = .ok (vb, vr) →
          vb = bits ∧ vr = refs := by
      intro bits refs v hdv hcv vb vr hev
      simp only [valueCodecDec] at hdv
      obtain ⟨rr, hrr, h6⟩ := bind_ok_inv hdv
      obtain ⟨x, sx⟩ := rr
      simp only [Outcome.ok.injEq] at h6
      subst h6
      cases hcr : canonAt env f t { bits := bits, refs := refs } with
      | none => rw [hcr] at hcv; cases hcv
      | some r =>
        rw [hcr] at hcv
        obtain ⟨hb0, hr0'⟩ := sliceEmpty_iff hcv
        obtain ⟨xs, rs, e, henc, _⟩ := h.dec t _ x sx hrr r hcr
        simp only [valueCodecEnc] at hev
        obtain ⟨bb, hbb, h7⟩ := bind_ok_inv hev
        simp only [Outcome.ok.injEq, Prod.mk.injEq] at h7
        rw [henc _ _ hbb] at h7
        obtain ⟨r1, r2', r3, r4⟩ := r
        simp only at hb0 hr0'
        subst hb0 hr0'
        simp only [Slice.prepend, List.append_nil, Slice.mk.injEq] at e
        obtain ⟨_, _, rfl, rfl⟩ := e
        simp only [Builder.app, Builder.empty, List.nil_append] at h7
        exact ⟨h7.1.symm, h7.2.symm⟩
    obtain ⟨rel, hkv, hne, hw, hsorted, henc⟩ :=
      dict_canon_encode (valueCodecEnc (fun x => encode env f t x Builder.empty))
        (valueCodecDec (fun vs => decode env f t vs)) _ n hval (n + 1) n _ [] kvs (by simp) hu hwalk
    have hrel : kvs = rel := by rw [hkv]; simp
    subst hrel
    refine ⟨[true], [Cell.mk 0 0 rbits rrefs], ?_, ?_, fun _ => rfl⟩
    · rw [readBit_inv hr0, nextRef_inv hr2, Slice.prepend_prepend]; rfl
    · intro b b' he
      have hlen : ks.length = kvs.length := mapM_length _ _ _ hks
      have hksne : ks.isEmpty = false := by
        cases ks with
        | nil => cases kvs with
          | nil => exact absurd rfl hne
          | cons _ _ => simp at hlen
        | cons _ _ => rfl
      have hparts : dictParts (dictVal ks (kvs.map (·.2))) = some (ks, kvs.map (·.2)) :=
        dictParts_dictVal _ _ (by intro h0; rw [hksne] at h0; cases h0)
      simp only [encode, hparts, hkw, hksne, Bool.false_eq_true, ↓reduceIte] at he
      obtain ⟨b1, hb1, he2⟩ := bind_ok_inv he
      obtain ⟨kbits, hkb, he3⟩ := bind_ok_inv he2
      have hkbits := keys_back hck kvs ks kbits hw hks hkb
      subst hkbits
      rw [zipKV_unzip] at he3
      simp only at he3
      obtain ⟨root', hm, he4⟩ := bind_ok_inv he3
      have hroot' : root' = Cell.mk 0 0 rbits rrefs := by
        unfold Hashmap.marshal at hm
        have : kvs.isEmpty = false := by cases kvs with
          | nil => exact absurd rfl hne
          | cons _ _ => rfl
        rw [this] at hm
        simp only [Bool.false_eq_true, ↓reduceIte] at hm
        rw [Hashmap.maxKeyLen_eq n kvs hne hw, Hashmap.sortKV_of_sorted kvs hsorted] at hm
        exact henc (n + 1) root' (by omega) hm
      subst hroot'
      rw [Builder.addRef_ok he4, Builder.writeBits_ok hb1, Builder.app_app]
      rfl

/-! ### struct fields -/

theorem edc_field_plain (h : CInvC env f) (T : Ty) :
    EDc (decodeField env (f + 1) .plain T) (encodeField env (f + 1) .plain T) (canonFieldAt env (f + 1) .plain T)
      (NGfield env .plain T) := by
  intro s v s' hd rest hr
  simp only [canonFieldAt] at hr
  by_cases hl : s.isLibrary = true
  · rw [if_pos hl] at hr; cases hr
  rw [if_neg hl] at hr
  simp only [decodeField, hl, Bool.false_eq_true, ↓reduceIte] at hd
  split at hr
  · -- a Magic field
    rename_i tg
    obtain ⟨hc, hr⟩ := ite_some' hr
    have := EDc.of_ED (ed_magic tg hc) (NGfield env .plain (.magic (some tg))) s v s' hd rest hr
    obtain ⟨xs, rs, e, henc, hng⟩ := this
    exact ⟨xs, rs, e, fun b b' he => henc b b' (by simpa only [encodeField] using he), hng⟩
  · cases hr
  · rename_i hm1 hm2
    have hdd : decode env f T s = .ok (v, s') := by
      split at hd
      · rename_i tg
        cases tg with
        | none => exact absurd rfl (hm2)
        | some tg => exact absurd rfl (hm1 tg)
      · exact hd
    obtain ⟨xs, rs, e, henc, hng⟩ := h.dec T s v s' hdd rest hr
    refine ⟨xs, rs, e, ?_, hng⟩
    intro b b' he
    apply henc b b'
    unfold encodeField at he
    split at he
    · rename_i tg
      cases tg with
      | none => exact absurd rfl (hm2)
      | some tg => exact absurd rfl (hm1 tg)
    · exact he

theorem edc_field_ref (h : CInvC env f) (T : Ty) :
    EDc (decodeField env (f + 1) .ref T) (encodeField env (f + 1) .ref T) (canonFieldAt env (f + 1) .ref T)
      (NGfield env .ref T) := by
  intro s v s' hd rest hr
  simp only [canonFieldAt] at hr
  by_cases hl : s.isLibrary = true
  · rw [if_pos hl] at hr; cases hr
  rw [if_neg hl] at hr
  simp only [decodeField, hl, Bool.false_eq_true, ↓reduceIte] at hd
  obtain ⟨r2, hr2, h3⟩ := bind_ok_inv hd
  obtain ⟨c, s1⟩ := r2
  simp only [hr2] at hr
  simp only at h3
  -- the encoder side: a fresh child behind one more reference
  have encside : (∀ child, encode env f T v Builder.empty = .ok child → child.toCell = c) →
      (∀ tg, T ≠ .magic tg) →
      ∀ b b', encodeField env (f + 1) .ref T v b = .ok b' → b' = b.app [] [c] := by
    intro hreb hnm b b' he
    unfold encodeField at he
    split at he
    · rename_i tg; exact absurd rfl (hnm tg)
    · simp only at he
      split at he
      · obtain ⟨child, hch, he2⟩ := bind_ok_inv he
        simp only [pure, Outcome.ok.injEq] at he2
        rw [← he2, hreb child hch]
        simp [Builder.app]
      · cases he
  split at hr
  · cases hr
  · -- ^Cell
    obtain ⟨hnp, hr⟩ := ite_some hr
    subst hr
    have hnp' : (Slice.ofCell c).isPruned = false := by
      rw [ofCell_isPruned, cellTy_eq]; simpa using hnp
    have hv : v = .cell c ∧ s' = s1 := by
      by_cases hlib : (Slice.ofCell c).isLibrary = true
      · simp only [hlib, ↓reduceIte, pure, Outcome.ok.injEq, Prod.mk.injEq] at h3
        exact ⟨h3.1.symm, h3.2.symm⟩
      · simp only [hlib, Bool.false_eq_true, ↓reduceIte, hnp'] at h3
        obtain ⟨r3, hr3, h4⟩ := bind_ok_inv h3
        obtain ⟨x, sx⟩ := r3
        simp only [pure, Outcome.ok.injEq, Prod.mk.injEq] at h4
        obtain ⟨rfl, rfl⟩ := h4
        exact ⟨(cell_child c x sx hr3).1, rfl⟩
    obtain ⟨rfl, rfl⟩ := hv
    refine ⟨[], [c], nextRef_inv hr2, encside ?_ (by intro tg h0; cases h0), fun _ => rfl⟩
    intro child hch
    cases f with
    | zero => simp [encode] at hch
    | succ f =>
      simp only [encode, Outcome.ok.injEq] at hch
      rw [← hch, toCell_ofCell]
  · rename_i hnm hncell
    obtain ⟨hchild, hr⟩ := ite_some hr
    subst hr
    have hty : c.ty = 0 := by
      simp only [Bool.and_eq_true, beq_iff_eq] at hchild
      exact hchild.1.1
    have hnl' : (Slice.ofCell c).isLibrary = false := by rw [ofCell_isLibrary, cellTy_eq, hty]; rfl
    have hnp' : (Slice.ofCell c).isPruned = false := by rw [ofCell_isPruned, cellTy_eq, hty]; rfl
    simp only [hnl', hnp', Bool.false_eq_true, ↓reduceIte] at h3
    obtain ⟨r3, hr3, h4⟩ := bind_ok_inv h3
    obtain ⟨x, sx⟩ := r3
    simp only [pure, Outcome.ok.injEq, Prod.mk.injEq] at h4
    obtain ⟨rfl, rfl⟩ := h4
    exact ⟨[], [c], nextRef_inv hr2, encside (child_rebuilt (h.dec T) c x sx hr3 hchild)
      (fun tg h0 => hnm tg h0), fun _ => rfl⟩

theorem edc_fields (h : CInvC env f) (fs : Fields) :
    EDc (decodeFields env (f + 1) fs) (encodeFields env (f + 1) fs) (canonFieldsAt env (f + 1) fs) (NGF env fs) := by
  intro s v s' hd rest hr
  cases fs with
  | nil =>
    simp only [decodeFields, Outcome.ok.injEq, Prod.mk.injEq] at hd
    obtain ⟨rfl, rfl⟩ := hd
    simp only [canonFieldsAt, Option.some.injEq] at hr
    subst hr
    refine ⟨[], [], by simp, ?_, fun _ => rfl⟩
    intro b b' he
    simp only [encodeFields, Outcome.ok.injEq] at he
    subst he; simp [Builder.app]
  | cons n ft t rest' =>
    simp only [decodeFields] at hd
    obtain ⟨r1, hr1, h2⟩ := bind_ok_inv hd
    obtain ⟨x, s1⟩ := r1
    obtain ⟨r2, hr2, h3⟩ := bind_ok_inv h2
    obtain ⟨vs, s2⟩ := r2
    simp only [pure, Outcome.ok.injEq, Prod.mk.injEq] at h3
    obtain ⟨rfl, rfl⟩ := h3
    simp only [canonFieldsAt] at hr
    cases hcf : canonFieldAt env f ft t s with
    | none => rw [hcf] at hr; cases hr
    | some r =>
      rw [hcf] at hr
      simp only at hr
      obtain ⟨xs, rs, e1, henc1, hng1⟩ := h.field ft t s x s1 hr1 r hcf
      by_cases hnil : rest'.isNil = true
      · rw [if_pos hnil] at hr
        simp only [Option.some.injEq] at hr
        subst hr
        have : rest' = .nil := by cases rest' <;> simp [Fields.isNil] at hnil ⊢
        subst this
        cases f with
        | zero => simp [decodeFields] at hr2
        | succ f =>
          simp only [decodeFields, Outcome.ok.injEq, Prod.mk.injEq] at hr2
          obtain ⟨rfl, rfl⟩ := hr2
          refine ⟨xs, rs, e1, ?_, fun hn => hng1 hn.cons.1⟩
          intro b b' he
          simp only [encodeFields] at he
          obtain ⟨b1, hb1, he2⟩ := bind_ok_inv he
          simp only [encodeFields, Outcome.ok.injEq] at he2
          subst he2
          exact henc1 b b1 hb1
      · rw [if_neg hnil] at hr
        obtain ⟨hngb, hr⟩ := ite_some' hr
        have hngf : NGfield env ft t := by
          unfold ngFieldb at hngb
          cases ft <;> simp only [NGfield] <;> first | trivial | exact ⟨greedyFuel, by simpa using hngb⟩
        have hrs1 := hng1 hngf
        subst hrs1
        obtain ⟨ys, rs2, e2, henc2, hng2⟩ := h.fields rest' r vs s2 hr2 rest hr
        refine ⟨xs ++ ys, rs ++ rs2, by rw [e1, e2, Slice.prepend_prepend], ?_, fun hn => hng2 hn.cons.2⟩
        intro b b' he
        simp only [encodeFields] at he
        obtain ⟨b1, hb1, he2⟩ := bind_ok_inv he
        rw [henc2 b1 b' he2, henc1 b b1 hb1, Builder.app_app]

theorem CInvC.succ (h : CInvC env f) : CInvC env (f + 1) := by
  refine ⟨?_, ?_, edc_fields h⟩
  · intro T
    cases T with
    | ptr m t => exact edc_ptr h m t
    | struct fs => exact edc_struct h fs
    | sum cs => exact edc_sum h cs
    | named id => exact edc_named h id
    | maybe t => exact edc_maybe h t
    | eitherRef t => exact edc_eitherRef h t
    | refT t => exact edc_refT h t
    | prim p => exact edc_prim' p
    | dictE k t => exact edc_dictE h k t
    | _ =>
      intro s v s' hd rest hr
      simp only [canonAt] at hr
      rcases edc_split hd hr with done | ⟨_, hr⟩
      · exact done
      · cases hr
  · intro ft T
    cases ft with
    | plain => exact edc_field_plain h T
    | ref => exact edc_field_ref h T
    | _ =>
      intro s v s' hd rest hr
      simp only [canonFieldAt] at hr
      split at hr <;> cases hr

theorem CInvC.all (env : Env) : ∀ f, CInvC env f
  | 0 => CInvC.zero
  | f + 1 => (CInvC.all env f).succ
end
end Tongo.Tlb
