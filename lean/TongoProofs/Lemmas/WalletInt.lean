import TongoModel.WalletInt
import TongoProofs.Lemmas.WalletMsg
/-! Lemmas about outgoing internal messages (`TongoModel/WalletInt.lean`): `Grams`, the builder's layout, reading it back. -/
namespace Tongo.Wallet
open Tongo Tongo.Bits

theorem byteLen_zero : byteLen 0 = 0 := by rw [byteLen]; simp

theorem byteLen_pos (n : Nat) (h : n ≠ 0) : byteLen n = byteLen (n / 256) + 1 := by
  rw [byteLen]; simp [h]

/-- the bytes hold the number -/
theorem byteLen_spec (n : Nat) : n < 256 ^ byteLen n := by
  induction n using Nat.strongRecOn with
  | _ n ih =>
    by_cases h : n = 0
    · subst h; rw [byteLen_zero]; decide
    · rw [byteLen_pos n h, Nat.pow_succ]
      have := ih (n / 256) (Nat.div_lt_self (Nat.pos_of_ne_zero h) (by decide))
      omega

/-- a number below `256^k` takes at most `k` bytes -/
theorem byteLen_le (k : Nat) : ∀ n, n < 256 ^ k → byteLen n ≤ k := by
  induction k with
  | zero => intro n h; have : n = 0 := by simpa using h
            subst this; rw [byteLen_zero]
  | succ k ih =>
    intro n h
    by_cases h0 : n = 0
    · subst h0; rw [byteLen_zero]; omega
    · rw [byteLen_pos n h0]
      have : n / 256 < 256 ^ k := by
        rw [Nat.pow_succ] at h
        exact Nat.div_lt_of_lt_mul (by omega)
      have := ih _ this
      omega

theorem byteLen_u64 (n : Nat) (h : n < 2 ^ 64) : byteLen n ≤ 8 := byteLen_le 8 n (by simpa using h)

@[simp] theorem gramsBits_length (n : Nat) : (gramsBits n).length = 4 + 8 * byteLen n := by simp [gramsBits]

theorem gramsBits_zero : gramsBits 0 = [false, false, false, false] := by
  simp [gramsBits, byteLen_zero, natToBits]

theorem readGrams_gramsBits (n : Nat) (h : byteLen n ≤ 15) (rest : List Bool) (refs : List Cell) :
    readGrams { bits := gramsBits n ++ rest, refs := refs } = .ok (n, { bits := rest, refs := refs }) := by
  unfold readGrams gramsBits
  rw [List.append_assoc, CellR.readUint_append 4 _ _ _ (by omega)]
  simp only [Outcome.bind]
  rw [Nat.mul_comm (byteLen n) 8, CellR.readUint_append _ n _ _ (by
    have := byteLen_spec n
    rw [Nat.pow_mul]; simpa using this)]

theorem writeGrams_ok (b : CellB) (n : Nat) (h : byteLen n ≤ 15) (hb : b.bits.length + (4 + 8 * byteLen n) ≤ 1023) :
    writeGrams b n = .ok { bits := b.bits ++ gramsBits n, refs := b.refs } := by
  unfold writeGrams
  rw [if_neg (by omega), CellB.write_ok _ _ (by simpa using hb)]

theorem init_toList_length (m : OutMsg) : m.init.toList.length ≤ 1 := by
  cases m.init <;> simp

/-- the builder returns the written-out layout -/
theorem internalMsg_ok (m : OutMsg) (hh : m.dest.hash.length = 32) (ha : m.amount < 2 ^ 64) (hx : m.extra = []) :
    internalMsg m = .ok (internalLayout m) := by
  have ht : m.dest.hash.take 32 ++ List.replicate (32 - m.dest.hash.length) 0 = m.dest.hash := by
    rw [hh, List.take_of_length_le (by omega)]; simp
  have h8 := byteLen_u64 m.amount ha
  have hw : (intToBits 8 (toI8 m.dest.workchain)).length = 8 := by simp [intToBits]
  unfold internalMsg internalLayout
  rw [ht, hx]
  simp only [bind, Outcome.bind, pure, writeExtra, List.isEmpty_nil, ↓reduceIte]
  rw [CellB.write_ok _ _ (by simp [CellB.empty])]
  simp only []
  rw [CellB.write_ok _ _ (by simp [CellB.empty])]
  simp only []
  rw [CellB.write_ok _ _ (by simp [CellB.empty, hw])]
  simp only []
  have hbytes : ∀ (b : CellB), b.bits.length + 256 ≤ 1023 →
      b.writeBytes m.dest.hash = .ok { bits := b.bits ++ bytesToBits m.dest.hash, refs := b.refs } := by
    intro b hb
    unfold CellB.writeBytes
    rw [CellB.write_ok _ _ (by simpa [hh] using hb)]
  rw [hbytes _ (by simp [CellB.empty, hw])]
  simp only []
  rw [writeGrams_ok _ _ (by omega) (by simp [CellB.empty, hw, hh]; omega)]
  simp only []
  rw [CellB.write_ok _ _ (by simp [CellB.empty, hw, hh]; omega)]
  simp only []
  rw [writeGrams_ok _ 0 (by rw [byteLen_zero]; omega) (by simp [CellB.empty, hw, hh, byteLen_zero]; omega)]
  simp only []
  rw [writeGrams_ok _ 0 (by rw [byteLen_zero]; omega) (by simp [CellB.empty, hw, hh, byteLen_zero]; omega)]
  simp only []
  rw [CellB.writeUint_ok _ _ _ (by simp [CellB.empty, hw, hh, byteLen_zero]; omega)]
  simp only []
  rw [CellB.writeUint_ok _ _ _ (by simp [CellB.empty, hw, hh, byteLen_zero]; omega)]
  simp only []
  cases hi : m.init with
  | none =>
    simp only [writeInit]
    rw [CellB.write_ok _ _ (by simp [CellB.empty, hw, hh, byteLen_zero]; omega)]
    cases hb : m.body with
    | none =>
      simp only [writeBodyRef]
      rw [CellB.write_ok _ _ (by simp [CellB.empty, hw, hh, byteLen_zero]; omega)]
      simp [CellB.toCell, CellB.empty, Cell.ordinary]
    | some x =>
      simp only [writeBodyRef]
      rw [CellB.write_ok _ _ (by simp [CellB.empty, hw, hh, byteLen_zero]; omega)]
      simp only [Outcome.bind]
      rw [CellB.addRef_ok _ _ (by simp [CellB.empty])]
      simp [CellB.toCell, CellB.empty, Cell.ordinary]
  | some si =>
    simp only [writeInit]
    rw [CellB.write_ok _ _ (by simp [CellB.empty, hw, hh, byteLen_zero]; omega)]
    simp only [Outcome.bind]
    rw [CellB.addRef_ok _ _ (by simp [CellB.empty])]
    cases hb : m.body with
    | none =>
      simp only [writeBodyRef]
      rw [CellB.write_ok _ _ (by simp [CellB.empty, hw, hh, byteLen_zero]; omega)]
      simp [CellB.toCell, CellB.empty, Cell.ordinary]
    | some x =>
      simp only [writeBodyRef]
      rw [CellB.write_ok _ _ (by simp [CellB.empty, hw, hh, byteLen_zero]; omega)]
      simp only [Outcome.bind]
      rw [CellB.addRef_ok _ _ (by simp [CellB.empty])]
      simp [CellB.toCell, CellB.empty, Cell.ordinary]

theorem readStateInit_stateInitCell (code data : Cell) :
    readStateInit (CellR.ofCell (stateInitCell code data)) = .ok ((some code, some data), { bits := [], refs := [] }) := by
  simp [readStateInit, stateInitCell, Cell.ordinary, CellR.ofCell, Cell.bits, Cell.refs, CellR.readBit, CellR.skipIf,
    readRefIf, CellR.nextRef, failIf, bind, Outcome.bind, pure]

theorem init_some (m : OutMsg) (si : Cell) (h : m.init = some si) :
    ∃ c d, m.code = some c ∧ m.data = some d ∧ si = stateInitCell c d := by
  unfold OutMsg.init at h
  cases hc : m.code with
  | none => simp [hc] at h
  | some c =>
    cases hd : m.data with
    | none => simp [hc, hd] at h
    | some d =>
      simp only [hc, hd, Option.some.injEq] at h
      exact ⟨c, d, rfl, rfl, h.symm⟩

/-- what the reader finds in the init field of a built message -/
def OutMsg.initRead (m : OutMsg) : InitRead :=
  match m.init with
  | some si => { cell := some si, code := m.code, data := m.data }
  | none => {}

/-- reading the built internal message gives back bounce flag, destination, amount, the state init (by reference, with
the requested code and data, both present) and the body (as an ordinary copy) -/
theorem decodeInternal_layout (m : OutMsg) (hh : m.dest.hash.length = 32) (ha : m.amount < 2 ^ 64)
    (hdep : (internalLayout m).depthO ≤ maxDepth) :
    decodeInternal (internalLayout m) =
      .ok { bounce := m.bounce, dest := some (bitsToInt (intToBits 8 (toI8 m.dest.workchain)), bytesToBits m.dest.hash),
            amount := m.amount, hasInit := m.init.isSome, init := m.initRead,
            body := match m.body with | some x => .ordinary x.bits x.refs | none => .ordinary [] [], extra := [] } := by
  unfold decodeInternal
  rw [if_neg (by simp [internalLayout, Cell.ordinary, Cell.ty, tyLibrary]), if_neg (by omega)]
  have hw : (intToBits 8 (toI8 m.dest.workchain)).length = 8 := by simp [intToBits]
  have hA : (bytesToBits m.dest.hash).length = 256 := by simp [hh]
  have h8 := byteLen_u64 m.amount ha
  have h0 : byteLen 0 ≤ 15 := by rw [byteLen_zero]; omega
  simp only [internalLayout, Cell.ordinary, Cell.bits, Cell.refs, List.cons_append, List.nil_append, List.append_assoc]
  unfold decodeIntInfo
  simp only [readMsgAddress, readUint2_cons, bind, Outcome.bind, pure, Bool.toNat_false, Bool.toNat_true,
    Nat.mul_zero, Nat.add_zero, Nat.mul_one, Nat.zero_add, ↓reduceIte, skipMaybeAnycast, CellR.readBit_cons,
    Bool.not_false, Bool.not_true]
  rw [if_neg (by decide), if_neg (by decide), CellR.readBits_append _ _ _ 8 hw]
  simp only []
  rw [CellR.readBits_append _ _ _ 256 hA]
  simp only []
  rw [readGrams_gramsBits _ (by omega)]
  simp only [List.cons_append, List.nil_append, readExtra, CellR.readBit_cons, Outcome.bind, Bool.false_eq_true, ↓reduceIte]
  rw [readGrams_gramsBits _ h0]
  simp only []
  rw [readGrams_gramsBits _ h0]
  simp only []
  rw [CellR.readBits_append _ _ _ 64 (by simp)]
  simp only []
  rw [CellR.readBits_append _ _ _ 32 (by simp)]
  simp only []
  cases hi : m.init with
  | none =>
    cases hb : m.body with
    | none =>
      simp [OutMsg.initRead, hi, readInitIf, readBody, CellR.readBit, CellR.remaining, Cell.ordinary, Outcome.bind, pure]
    | some x =>
      simp [OutMsg.initRead, hi, readInitIf, readBody, CellR.readBit, CellR.nextRef, Cell.ordinary, Cell.ty, tyLibrary,
        Cell.bits, Cell.refs, Outcome.bind]
  | some si =>
    obtain ⟨c, d, hc, hd, rfl⟩ := init_some m si hi
    have hty : ¬ (stateInitCell c d).ty = tyLibrary := by simp [stateInitCell, Cell.ordinary, Cell.ty, tyLibrary]
    cases hb : m.body with
    | none =>
      simp [OutMsg.initRead, hi, hc, hd, readInitIf, readInitRef, readBody, CellR.readBit, CellR.nextRef, CellR.remaining,
        hty, readStateInit_stateInitCell, Outcome.bind, pure]
      simp [Cell.ordinary]
    | some x =>
      simp [OutMsg.initRead, hi, hc, hd, readInitIf, readInitRef, readBody, CellR.readBit, CellR.nextRef, hty,
        readStateInit_stateInitCell, Outcome.bind]
      simp [Cell.ordinary, Cell.ty, tyLibrary, Cell.bits, Cell.refs]

end Tongo.Wallet
