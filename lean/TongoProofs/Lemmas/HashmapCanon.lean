import TongoProofs.Lemmas.HashmapSigned
/-! Re-encoding: a valid dictionary tree whose labels are all in the form the encoder picks (TON's canonical choice,
tie-breaks included) is reproduced cell for cell by `encodeMap` applied to its meaning. -/
namespace Tongo.Hashmap
open Tongo Tongo.Bits

variable {V : Type}

/-- every label of the tree is the one `encodeLabel` would write for its bits under the remaining key size -/
def HTree.Canonical : Nat → HTree V → Prop
  | m, .leaf l _ => l = canonLbl l.bits m
  | m, .fork l lo hi => l = canonLbl l.bits m ∧ HTree.Canonical (m - l.bits.length - 1) lo ∧
      HTree.Canonical (m - l.bits.length - 1) hi

theorem lcp_fork (L a b : Key) : lcp (L ++ false :: a) (L ++ true :: b) = L := by
  induction L with
  | nil => simp [lcp]
  | cons x L ih => simp [lcp, ih]

theorem map_cons_inj (L : Key) (b : Bool) : ∀ (A A' : List (Key × V)),
    A.map (fun kv => (L ++ b :: kv.1, kv.2)) = A'.map (fun kv => (L ++ b :: kv.1, kv.2)) → A = A'
  | [], [], _ => rfl
  | [], _ :: _, h => by simp at h
  | _ :: _, [], h => by simp at h
  | x :: A, y :: A', h => by
    simp only [List.map_cons, List.cons.injEq, Prod.mk.injEq, List.append_cancel_left_eq, true_and] at h
    obtain ⟨⟨h1, h2⟩, h3⟩ := h
    rw [map_cons_inj L b A A' h3]
    congr 1
    exact Prod.ext h1 h2

/-- the two halves of a fork listing are determined by the listing -/
theorem fork_split_unique (L : Key) : ∀ (A A' B B' : List (Key × V)),
    A.map (fun kv => (L ++ false :: kv.1, kv.2)) ++ B.map (fun kv => (L ++ true :: kv.1, kv.2)) =
    A'.map (fun kv => (L ++ false :: kv.1, kv.2)) ++ B'.map (fun kv => (L ++ true :: kv.1, kv.2)) →
    A = A' ∧ B = B'
  | [], [], B, B', h => by
    simp only [List.map_nil, List.nil_append] at h
    exact ⟨rfl, map_cons_inj L true B B' h⟩
  | [], y :: A', B, B', h => by
    exfalso
    cases B with
    | nil => simp at h
    | cons z B => simp at h
  | x :: A, [], B, B', h => by
    exfalso
    cases B' with
    | nil => simp at h
    | cons z B' => simp at h
  | x :: A, y :: A', B, B', h => by
    simp only [List.map_cons, List.cons_append, List.cons.injEq, Prod.mk.injEq, List.append_cancel_left_eq,
      true_and] at h
    obtain ⟨⟨h1, h2⟩, h3⟩ := h
    obtain ⟨e1, e2⟩ := fork_split_unique L A A' B B' h3
    exact ⟨by rw [e1]; congr 1; exact Prod.ext h1 h2, e2⟩

theorem encodeMap_canonical (C : Codec V) (pay : V → List Bool × List Cell) (n : Nat) (t : HTree V) :
    ∀ (fuel m : Nat), m ≤ n → m < fuel → t.Valid m → t.Canonical m → (∀ kv ∈ t.meaning, Fits C pay n kv.2) →
      encodeMap C fuel t.meaning (m : Int) = .ok (t.toCell pay m) := by
  induction t with
  | leaf l v =>
    intro fuel m hmn hf hv hc hfit
    obtain ⟨f, rfl⟩ : ∃ f, fuel = f + 1 := ⟨fuel - 1, by omega⟩
    simp only [HTree.Valid] at hv
    simp only [HTree.Canonical] at hc
    obtain ⟨he, hb, hr, _⟩ := hfit (l.bits, v) (by simp [HTree.meaning])
    have hw := minBits_mono hmn
    have hl : (l.enc m).length ≤ l.bits.length + 2 + minBitsRequired m := by
      have := canonLbl_enc_length l.bits m
      rw [← hc] at this
      exact this
    simp only [HTree.meaning, encodeMap, he, encLabelBits_eq, HTree.toCell]
    rw [← hc]
    apply mkCell_ok
    · dsimp only at hb; simp only [List.length_append]; omega
    · exact hr
  | fork l lo hi ihlo ihhi =>
    intro fuel m hmn hf hv hc hfit
    obtain ⟨f, rfl⟩ : ∃ f, fuel = f + 1 := ⟨fuel - 1, by omega⟩
    simp only [HTree.Valid] at hv
    obtain ⟨hlm, hvlo, hvhi⟩ := hv
    simp only [HTree.Canonical] at hc
    obtain ⟨hcl, hclo, hchi⟩ := hc
    have hsorted := meaning_sorted (.fork l lo hi) m ⟨hlm, hvlo, hvhi⟩
    have hwid := meaning_key_length (.fork l lo hi) m ⟨hlm, hvlo, hvhi⟩
    -- first and last entry of the listing
    obtain ⟨x, A, hA⟩ : ∃ x A, lo.meaning = x :: A := by
      cases h : lo.meaning with
      | nil => exact absurd h (meaning_ne_nil lo)
      | cons x A => exact ⟨x, A, rfl⟩
    have hhi_ne := meaning_ne_nil hi
    let K := lo.meaning.map (fun kv => (false :: kv.1, kv.2)) ++ hi.meaning.map (fun kv => (true :: kv.1, kv.2))
    have hM : (HTree.fork l lo hi).meaning = K.map fun kv => (l.bits ++ kv.1, kv.2) := by
      simp [HTree.meaning, K, List.map_append, List.map_map, Function.comp_def]
    have hlen2 : 2 ≤ (HTree.fork l lo hi).meaning.length := by
      have : 1 ≤ hi.meaning.length := List.length_pos_iff.mpr hhi_ne
      simp [HTree.meaning, hA]; omega
    have hne : (HTree.fork l lo hi).meaning ≠ [] := by
      intro h; rw [h] at hlen2; simp at hlen2
    rw [encodeMap_succ_of_two C f m _ hne hlen2]
    have hhead : ((HTree.fork l lo hi).meaning.head hne).1 = l.bits ++ false :: x.1 := by
      simp [HTree.meaning, hA]
    obtain ⟨y, hy⟩ : ∃ y, ((HTree.fork l lo hi).meaning.getLast hne) = (l.bits ++ true :: y.1, y.2) ∧ y ∈ hi.meaning := by
      refine ⟨hi.meaning.getLast hhi_ne, ?_, List.getLast_mem hhi_ne⟩
      simp only [HTree.meaning]
      rw [List.getLast_append_right (by simpa using hhi_ne)]
      rw [List.getLast_map]
    rw [hhead, hy.1]
    have hkl : (l.bits ++ false :: x.1).length = m := by
      rw [← hhead]; exact hwid _ (List.head_mem hne)
    have hkl2 : (l.bits ++ true :: y.1).length = m := by
      have := hwid _ (List.getLast_mem hne); rw [hy.1] at this; exact this
    have hcl' : commonLabel (m : Int) (l.bits ++ false :: x.1) (l.bits ++ true :: y.1) = .ok l.bits := by
      rw [commonLabel_eq_lcp m _ _ hkl hkl2 (by intro h; simp at h), lcp_fork]
    -- the partition gives back the two halves
    have hKs : SortedKV K := by
      unfold SortedKV at hsorted ⊢
      rw [hM, List.pairwise_map] at hsorted
      simpa using hsorted
    obtain ⟨L0, R0, hsplit, hLR⟩ := splitKeys_sorted l.bits K hKs (by
      intro kv hkv h
      simp only [K, List.mem_append, List.mem_map] at hkv
      rcases hkv with ⟨z, _, rfl⟩ | ⟨z, _, rfl⟩ <;> simp at h)
    have huniq := fork_split_unique [] lo.meaning L0 hi.meaning R0 (by simpa [K] using hLR)
    obtain ⟨e1, e2⟩ := huniq
    subst e1; subst e2
    have hsub : (m : Int) - (l.bits.length : Int) - 1 = ((m - l.bits.length - 1 : Nat) : Int) := by omega
    have hflo : ∀ kv ∈ lo.meaning, Fits C pay n kv.2 := fun kv hkv =>
      hfit (l.bits ++ false :: kv.1, kv.2) (by
        simp only [HTree.meaning, List.mem_append, List.mem_map]; exact Or.inl ⟨kv, hkv, rfl⟩)
    have hfhi : ∀ kv ∈ hi.meaning, Fits C pay n kv.2 := fun kv hkv =>
      hfit (l.bits ++ true :: kv.1, kv.2) (by
        simp only [HTree.meaning, List.mem_append, List.mem_map]; exact Or.inr ⟨kv, hkv, rfl⟩)
    have helo := ihlo f (m - l.bits.length - 1) (by omega) (by omega) hvlo hclo hflo
    have hehi := ihhi f (m - l.bits.length - 1) (by omega) (by omega) hvhi hchi hfhi
    obtain ⟨_, hfb, _, _⟩ := hfit _ (List.head_mem hne)
    have hw := minBits_mono hmn
    have hl : (l.enc m).length ≤ l.bits.length + 2 + minBitsRequired m := by
      have := canonLbl_enc_length l.bits m
      rw [← hcl] at this
      exact this
    simp only [encodeFork, hcl']
    rw [hM, hsplit]
    simp only [hsub, helo, hehi, encLabelBits_eq, HTree.toCell]
    rw [← hcl]
    apply mkCell_ok
    · omega
    · simp

end Tongo.Hashmap
