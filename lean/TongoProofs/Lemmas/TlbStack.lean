import TongoProofs.Lemmas.TlbPrims
/-! VM stacks: `tlb.VmStack` is written top-first (putStackListItems) and read bottom-first (getStackListItems). -/
namespace Tongo.Tlb
open Tongo Tongo.Bits

/-- domain of a VM stack value: every element in the domain of the element type (fuel as used by `encodeStack`) -/
def inDomStack (env : Env) : Nat → Ty → Val → Bool
  | 0, _, _ => false
  | _ + 1, _, .nil => true
  | k + 1, e, .cons x rest => inDom env k e x && inDomStack env k e rest
  | _ + 1, _, _ => false

theorem toList_length (v : Val) : (Val.toList v).length = Prim.valLen v := by
  fun_induction Val.toList v with
  | case1 h t ih => simp [Prim.valLen, ih]
  | case2 v hv => cases v <;> simp_all [Prim.valLen]

section
variable {env : Env}

theorem stack_rt (hEnv : EnvWF env) (e : Ty) (hw : wfb env e = true) :
    ∀ (k : Nat) (v : Val) (b b' : Builder), inDomStack env k e v = true → encodeStack env k e v b = .ok b' →
      ∃ xs rs, b' = b.app xs rs ∧ ∀ s : Slice, s.isLibrary = false → s.isPruned = false → s.bits = [] → s.refs = [] →
        ∃ s', decodeStack env k e (Prim.valLen v) (s.prepend xs rs) = .ok ((Val.toList v).reverse, s')
  | 0, _, _, _, hd, _ => by simp [inDomStack] at hd
  | k + 1, .nil, b, b', _, he => by
    simp only [encodeStack] at he; cases he
    exact ⟨[], [], by simp, fun s _ _ _ _ => ⟨s, by simp [decodeStack, Prim.valLen, Val.toList]⟩⟩
  | k + 1, .cons x rest, b, b', hd, he => by
    simp only [inDomStack, Bool.and_eq_true] at hd
    simp only [encodeStack] at he
    obtain ⟨child, hc, he2⟩ := bind_ok_inv he
    obtain ⟨b1, hb1, he3⟩ := bind_ok_inv he2
    have e1 := Builder.addRef_ok hb1
    obtain ⟨xs', rs', hch, hrec⟩ := stack_rt hEnv e hw k rest Builder.empty child hd.2 hc
    obtain ⟨xs, rs, hb, hrt⟩ := (Inv.all env hEnv primOK_of_proved k).enc e x b1 b' hw hd.1 he3
    refine ⟨xs, child.toCell :: rs, by rw [hb, e1, Builder.app_app]; simp, ?_⟩
    intro s hs hp h1 h2
    obtain ⟨s1, hdec1⟩ := hrec {} rfl rfl rfl rfl
    obtain ⟨s2, hdec2, _⟩ := hrt s hs (Or.inr ⟨h1, h2, hp⟩)
    refine ⟨s2, ?_⟩
    have hcell : Slice.ofCell child.toCell = ({} : Slice).prepend xs' rs' := by
      rw [hch]; exact ofCell_app_empty xs' rs'
    have hlen : Prim.valLen (.cons x rest) - 1 = Prim.valLen rest := by simp [Prim.valLen]
    have hne : ¬ Prim.valLen (.cons x rest) = 0 := by simp [Prim.valLen]
    rw [decodeStack]
    simp only [hne, ↓reduceIte, Slice.nextRef_prepend, bind, Outcome.bind, hlen, hcell, hdec1, hdec2, pure,
      Val.toList, List.reverse_cons]
  | k + 1, .int _, _, _, hd, _ => by simp [inDomStack] at hd
  | k + 1, .bool _, _, _, hd, _ => by simp [inDomStack] at hd
  | k + 1, .bytes _, _, _, hd, _ => by simp [inDomStack] at hd
  | k + 1, .bits _, _, _, hd, _ => by simp [inDomStack] at hd
  | k + 1, .cell _, _, _, hd, _ => by simp [inDomStack] at hd
  | k + 1, .sym _, _, _, hd, _ => by simp [inDomStack] at hd
  | k + 1, .none, _, _, hd, _ => by simp [inDomStack] at hd
  | k + 1, .magic, _, _, hd, _ => by simp [inDomStack] at hd

theorem list_toList : ∀ (l : List Val), Val.list l = l.foldr Val.cons .nil
  | [] => rfl
  | a :: t => by simp [Val.list, list_toList t]

theorem val_list_toList (v : Val) (k : Nat) (e : Ty) (h : inDomStack env k e v = true) : Val.list (Val.toList v) = v := by
  induction k generalizing v with
  | zero => simp [inDomStack] at h
  | succ k ih =>
    cases v <;> simp only [inDomStack, Bool.false_eq_true] at h
    · rfl
    · rename_i x rest
      simp only [Bool.and_eq_true] at h
      simp [Val.toList, Val.list, ih rest h.2]


/-- **vmstack_convention**: a VM stack written with `tlb.Marshal` (arguments listed top-first) reads back, with
`tlb.Unmarshal`, as the REVERSED list (results bottom-first) — the documented convention of the API. -/
theorem vmstack_roundtrip (hEnv : EnvWF env) (e : Ty) (hw : wfb env e = true) (fuel : Nat) (v : Val)
    (hd : inDomStack env fuel e v = true) (hlen : Prim.valLen v < 2 ^ 24) (b' : Builder)
    (he : encode env (fuel + 1) (.vmStack e) v Builder.empty = .ok b') :
    ∃ rest, decode env (fuel + 1) (.vmStack e) (Slice.ofCell b'.toCell) =
      .ok (Val.list (Val.toList v).reverse, rest) := by
  simp only [encode, Builder.writeUint] at he
  obtain ⟨b1, hb1, he2⟩ := bind_ok_inv he
  have e1 := Builder.writeBits_ok hb1
  rw [natToBits_mod64 24 _ (by omega)] at e1
  obtain ⟨xs, rs, hb, hrec⟩ := stack_rt hEnv e hw fuel v b1 b' hd he2
  have hcell : Slice.ofCell b'.toCell = ({} : Slice).prepend (natToBits 24 (Prim.valLen v) ++ xs) rs := by
    rw [hb, e1, Builder.app_app]
    simp [Builder.empty, Builder.app, Builder.toCell, Slice.ofCell, Slice.prepend]
  obtain ⟨s', hdec⟩ := hrec {} rfl rfl rfl rfl
  have hr := Slice.readUint_prepend ({} : Slice) 24 (Prim.valLen v) xs rs (by omega)
  rw [Nat.mod_eq_of_lt hlen] at hr
  rw [hcell]
  have hlib : (({} : Slice).prepend (natToBits 24 (Prim.valLen v) ++ xs) rs).isLibrary = false := rfl
  by_cases h0 : Prim.valLen v = 0
  · -- the empty stack
    have hv : Val.toList v = [] := by
      have := toList_length v; rw [h0] at this
      exact List.eq_nil_of_length_eq_zero this
    refine ⟨({} : Slice).prepend xs rs, ?_⟩
    simp only [decode, hlib, Bool.false_eq_true, ↓reduceIte, hr, bind, Outcome.bind]
    rw [if_pos h0, hv]
    rfl
  · refine ⟨s', ?_⟩
    simp only [decode, hlib, Bool.false_eq_true, ↓reduceIte, hr, bind, Outcome.bind]
    rw [if_neg h0]
    simp only [hdec, pure]

end
end Tongo.Tlb
