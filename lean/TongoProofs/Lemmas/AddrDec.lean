import TongoModel.Address
/-! Decimal / hexadecimal printing and parsing, and the raw form `wc:hex` of an account id. Core Lean only. -/
namespace Tongo.Address
open Tongo

/-- a property of all `BitVec w` from the property on `BitVec.ofNat w n`, `n < 2^w` (then `decide`) -/
theorem bv_forall_lt {w : Nat} (P : BitVec w → Prop) (h : ∀ n, n < 2 ^ w → P (BitVec.ofNat w n)) : ∀ v, P v := by
  intro v
  have := h v.toNat v.isLt
  simpa using this

/-! ### decimal -/

def isDigit (c : Byte) : Prop := 48 ≤ c.toNat ∧ c.toNat ≤ 57
instance (c : Byte) : Decidable (isDigit c) := by unfold isDigit; infer_instance

theorem natToDec_eq (n : Nat) :
    natToDec n = if n < 10 then [BitVec.ofNat 8 (48 + n)] else natToDec (n / 10) ++ [BitVec.ofNat 8 (48 + n % 10)] := by
  rw [natToDec]; split <;> rfl

theorem digit_toNat (d : Nat) (h : d < 10) : (BitVec.ofNat 8 (48 + d)).toNat = 48 + d := by
  simp [BitVec.toNat_ofNat]; omega

theorem isDigit_ofNat (d : Nat) (h : d < 10) : isDigit (BitVec.ofNat 8 (48 + d)) := by
  unfold isDigit; rw [digit_toNat d h]; omega

theorem decDigit_ofNat (d : Nat) (h : d < 10) : decDigit (BitVec.ofNat 8 (48 + d)) = some d := by
  unfold decDigit; rw [digit_toNat d h]; simp; omega

theorem natToDec_digits (n : Nat) : ∀ c ∈ natToDec n, isDigit c := by
  induction n using Nat.strongRecOn with
  | _ n ih =>
    rw [natToDec_eq]
    split
    · intro c hc; simp at hc; subst hc; exact isDigit_ofNat n (by omega)
    · intro c hc
      rw [List.mem_append] at hc
      cases hc with
      | inl hc => exact ih (n / 10) (by omega) c hc
      | inr hc => simp at hc; subst hc; exact isDigit_ofNat _ (by omega)

theorem natToDec_ne_nil (n : Nat) : natToDec n ≠ [] := by
  rw [natToDec_eq]; split <;> simp

theorem parseDecFrom_snoc (s : Str) (c : Byte) (acc v : Nat) (h : parseDecFrom acc s = some v) :
    parseDecFrom acc (s ++ [c]) = (decDigit c).map (fun d => v * 10 + d) := by
  induction s generalizing acc with
  | nil =>
    simp only [parseDecFrom] at h
    cases h
    simp only [List.nil_append, parseDecFrom]
    cases decDigit c <;> rfl
  | cons x t ih =>
    simp only [List.cons_append, parseDecFrom] at h ⊢
    cases hx : decDigit x with
    | none => rw [hx] at h; cases h
    | some d => rw [hx] at h; exact ih _ h

theorem parseDecFrom_natToDec (n : Nat) : parseDecFrom 0 (natToDec n) = some n := by
  induction n using Nat.strongRecOn with
  | _ n ih =>
    rw [natToDec_eq]
    split
    · rename_i h
      simp only [parseDecFrom, decDigit_ofNat n h]; simp
    · rename_i h
      rw [parseDecFrom_snoc _ _ _ _ (ih (n / 10) (by omega)), decDigit_ofNat _ (by omega)]
      simp; omega

theorem parseDec_natToDec (n : Nat) : parseDec (natToDec n) = some n := by
  unfold parseDec
  rw [parseDecFrom_natToDec]
  simp [natToDec_ne_nil]

/-! ### int32 -/

theorem parseInt32_int32ToDec (w : BitVec 32) : parseInt32 (int32ToDec w) = some w := by
  unfold int32ToDec
  have hlo := BitVec.le_toInt w
  have hhi := BitVec.toInt_lt (x := w)
  simp only [Nat.add_one_sub_one] at hlo hhi
  split
  · rename_i hneg
    simp only [parseInt32, or_true, if_true, parseDec_natToDec]
    have hle : w.toInt.natAbs ≤ 2147483648 := by omega
    simp only [hle, if_true]
    congr 1
    have : (-(w.toInt.natAbs : Int)) = w.toInt := by omega
    rw [this, BitVec.ofInt_toInt]
  · rename_i hneg
    cases hs : natToDec w.toInt.natAbs with
    | nil => exact absurd hs (natToDec_ne_nil _)
    | cons c t =>
      have hc : isDigit c := natToDec_digits w.toInt.natAbs c (by rw [hs]; simp)
      have h43 : c ≠ 43#8 := by intro e; subst e; revert hc; decide
      have h45 : c ≠ 45#8 := by intro e; subst e; revert hc; decide
      simp only [parseInt32, h43, h45, or_self, if_false]
      rw [← hs, parseDec_natToDec]
      have hle : w.toInt.natAbs ≤ 2147483647 := by omega
      simp only [hle, if_true]
      congr 1
      have : BitVec.ofInt 32 (w.toInt.natAbs : Int) = w := by
        rw [Int.natAbs_of_nonneg (by omega), BitVec.ofInt_toInt]
      rwa [BitVec.ofInt_natCast] at this

/-! ### hexadecimal -/

theorem hexVal_hexDigit (v : BitVec 4) : hexVal (hexDigit v) = some v := by
  revert v; apply bv_forall_lt; decide

theorem nibbles_join (b : Byte) : b.extractLsb' 4 4 ++ b.extractLsb' 0 4 = b := by
  apply BitVec.eq_of_getLsbD_eq
  intro i hi
  simp only [BitVec.getLsbD_append, BitVec.getLsbD_extractLsb']
  repeat' split
  all_goals (rw [decide_eq_true (by omega), Bool.true_and]; congr 1; omega)

theorem hexDecode_hexEncode (bs : List Byte) : hexDecode (hexEncode bs) = some bs := by
  induction bs with
  | nil => rfl
  | cons b t ih => simp [hexEncode, hexDecode, hexVal_hexDigit, ih, nibbles_join]

theorem hexEncode_length (bs : List Byte) : (hexEncode bs).length = 2 * bs.length := by
  induction bs with
  | nil => rfl
  | cons b t ih => simp [hexEncode, ih]; omega

theorem hexEncode_append (xs ys : List Byte) : hexEncode (xs ++ ys) = hexEncode xs ++ hexEncode ys := by
  induction xs with
  | nil => rfl
  | cons b t ih => simp [hexEncode, ih]

theorem hexEncode_replicate_zero (k : Nat) : hexEncode (List.replicate k 0#8) = List.replicate (2 * k) 48#8 := by
  induction k with
  | zero => rfl
  | succ k ih =>
    rw [List.replicate_succ, hexEncode, ih]
    have : 2 * (k + 1) = (2 * k + 1) + 1 := by omega
    rw [this, List.replicate_succ, List.replicate_succ]
    rfl

def isHexLower (c : Byte) : Prop := (48 ≤ c.toNat ∧ c.toNat ≤ 57) ∨ (97 ≤ c.toNat ∧ c.toNat ≤ 102)
instance (c : Byte) : Decidable (isHexLower c) := by unfold isHexLower; infer_instance

theorem hexDigit_isHexLower (v : BitVec 4) : isHexLower (hexDigit v) := by
  revert v; apply bv_forall_lt; decide

theorem hexEncode_chars (bs : List Byte) : ∀ c ∈ hexEncode bs, isHexLower c := by
  induction bs with
  | nil => intro c hc; cases hc
  | cons b t ih =>
    intro c hc
    simp only [hexEncode, List.mem_cons] at hc
    rcases hc with hc | hc | hc
    · subst hc; exact hexDigit_isHexLower _
    · subst hc; exact hexDigit_isHexLower _
    · exact ih c hc

/-! ### raw form -/

theorem splitColon_append (pre post : Str) (h : ∀ c ∈ pre, c ≠ 58#8) :
    splitColon (pre ++ 58#8 :: post) = some (pre, post) := by
  induction pre with
  | nil => simp [splitColon]
  | cons c t ih =>
    have hc : c ≠ 58#8 := h c (by simp)
    simp only [List.cons_append, splitColon, hc, if_false]
    rw [ih (fun x hx => h x (by simp [hx]))]; rfl

theorem isDigit_ne_colon (c : Byte) (h : isDigit c) : c ≠ 58#8 := by
  intro e; subst e; revert h; decide

theorem int32ToDec_no_colon (w : BitVec 32) : ∀ c ∈ int32ToDec w, c ≠ 58#8 := by
  intro c hc
  unfold int32ToDec at hc
  split at hc
  · simp only [List.mem_cons] at hc
    rcases hc with hc | hc
    · subst hc; decide
    · exact isDigit_ne_colon c (natToDec_digits _ c hc)
  · exact isDigit_ne_colon c (natToDec_digits _ c hc)

/-- a short hex part is left-padded with zero bytes -/
theorem raw_short_hex (w : BitVec 32) (bs : List Byte) (h : bs.length ≤ 32) :
    fromRaw (int32ToDec w ++ 58#8 :: hexEncode bs) = .ok ⟨w, List.replicate (32 - bs.length) 0#8 ++ bs⟩ := by
  unfold fromRaw
  rw [splitColon_append _ _ (int32ToDec_no_colon w)]
  simp only [parseInt32_int32ToDec]
  have hpad : (if (hexEncode bs).length < 64 then List.replicate (64 - (hexEncode bs).length) 48#8 ++ hexEncode bs
      else hexEncode bs) = hexEncode (List.replicate (32 - bs.length) 0#8 ++ bs) := by
    rw [hexEncode_append, hexEncode_replicate_zero, hexEncode_length]
    split
    · congr 2; omega
    · have : 32 - bs.length = 0 := by omega
      rw [this]; rfl
  rw [hpad, hexDecode_hexEncode]
  have hl : (List.replicate (32 - bs.length) 0#8 ++ bs).length = 32 := by
    rw [List.length_append, List.length_replicate]; omega
  simp [hl]

theorem raw_roundtrip (a : AccountID) (h : a.WF) : fromRaw (toRaw a) = .ok a := by
  have h' : a.addr.length = 32 := h
  have := raw_short_hex a.wc a.addr (by omega)
  rw [h'] at this
  simpa [toRaw] using this

end Tongo.Address
