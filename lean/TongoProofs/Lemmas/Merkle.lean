import TongoModel.Merkle
import TongoProofs.Lemmas.CellHashTree
import TongoProofs.Lemmas.Bits
/-! Helper lemmas for C18: byte/bit round trip, pruned branches answer with what they store, level-0 hash and depth
are invariant under pruning, `pruneCells` = `specPrune`. -/
open Tongo

namespace Tongo.MerkleLemmas

theorem byteToBits_length (b : UInt8) : (Bits.byteToBits b).length = 8 := by
  simp [Bits.byteToBits]

theorem bytesToBits_length (bs : List UInt8) : (Bits.bytesToBits bs).length = 8 * bs.length := by
  induction bs with
  | nil => rfl
  | cons b t ih =>
    simp only [Bits.bytesToBits, List.flatMap_cons, List.length_append, byteToBits_length, List.length_cons] at *
    omega

theorem bitsToBytes_byte (b : UInt8) (rest : List Bool) :
    Bits.bitsToBytes (Bits.byteToBits b ++ rest) = b :: Bits.bitsToBytes rest := by
  have h8 : (Bits.byteToBits b).length = 8 := byteToBits_length b
  match hb : Bits.byteToBits b with
  | [] => rw [hb] at h8; cases h8
  | x :: xs =>
    rw [hb] at h8
    simp only [List.cons_append]
    rw [Bits.bitsToBytes]
    have hx : xs.length = 7 := by simpa using h8
    have htake : List.take 8 (x :: (xs ++ rest)) = x :: xs := by
      simp [List.take_append_of_le_length, hx]
    have hdrop : List.drop 7 (xs ++ rest) = rest := by
      rw [List.drop_append_of_le_length (by omega), List.drop_of_length_le (by omega)]; rfl
    simp only [htake, hdrop, List.length_cons, hx]
    congr 1
    simp only [Nat.sub_self, List.replicate_zero, List.append_nil, ← hb, Bits.byteToBits]
    rw [Bits.bitsToNat_natToBits]
    have := b.toNat_lt
    simp [Nat.mod_eq_of_lt this]

theorem bitsToBytes_bytesToBits (bs : List UInt8) : Bits.bitsToBytes (Bits.bytesToBits bs) = bs := by
  induction bs with
  | nil => simp [Bits.bytesToBits, Bits.bitsToBytes]
  | cons b t ih =>
    simp only [Bits.bytesToBits, List.flatMap_cons] at *
    rw [bitsToBytes_byte, ih]


open Tongo.Merkle

/-- `H` returns 32-byte digests (SHA-256 does) -/
def H32 (H : List UInt8 → List UInt8) : Prop := ∀ x, (H x).length = 32

theorem be16_length (d : Nat) : (be16 d).length = 2 := rfl

theorem be16_value (d : Nat) (hd : d < 65536) :
    ((be16 d).getD 0 0).toNat * 256 + ((be16 d).getD 1 0).toNat = d := by
  simp only [be16, List.getD_cons_zero, List.getD_cons_succ, UInt8.toNat_ofNat']
  omega

theorem level_one : Spec.level 1 = 1 := by decide
theorem popcount_one : Spec.popcount 1 = 1 := by decide

/-- a pruned branch made by the prover answers level 0 with what it stores -/
theorem spec_prunedCell (H : List UInt8 → List UInt8) (h : List UInt8) (d : Nat) (hh : h.length = 32) (hd : d < 65536) :
    Spec.hashAt H (prunedCell h d) 0 = h ∧ Spec.depthAt (prunedCell h d) 0 = d := by
  simp only [prunedCell, Spec.hashAt, Spec.depthAt, Spec.hashLevel, Spec.depthLevel, level_one, popcount_one,
    Nat.lt_irrefl, true_and, if_true, Nat.zero_lt_one, and_self, Spec.storedHash, Spec.storedDepth,
    CellHashLemmas.packBytes_eq _ _ rfl,
    bitsToBytes_bytesToBits]
  constructor
  · simp [hh]
  · have e1 : ([1, 1] ++ h ++ be16 d).getD (2 + 32 * 1 + 2 * 0) 0 = (be16 d).getD 0 0 := by
      simp only [List.getD_eq_getElem?_getD]
      rw [List.getElem?_append_right (by simp [hh])]
      simp [hh]
    have e2 : ([1, 1] ++ h ++ be16 d).getD (2 + 32 * 1 + 2 * 0 + 1) 0 = (be16 d).getD 1 0 := by
      simp only [List.getD_eq_getElem?_getD]
      rw [List.getElem?_append_right (by simp [hh])]
      simp [hh]
    rw [e1, e2]
    exact be16_value d hd


theorem hashAtL_length (H) (cs : List Cell) : (Spec.hashAtL H cs).length = cs.length := by
  induction cs with
  | nil => rfl
  | cons c t ih => simp [Spec.hashAtL, ih]

theorem depthAtL_length (cs : List Cell) : (Spec.depthAtL cs).length = cs.length := by
  induction cs with
  | nil => rfl
  | cons c t ih => simp [Spec.depthAtL, ih]

theorem plain_node {ty mask bits refs} (h : plain (.mk ty mask bits refs) = true) :
    (ty = tyOrdinary ∨ ty = tyLibrary) ∧ mask = 0 ∧ Spec.wfNode ty mask bits refs = true ∧ plainL refs = true := by
  simpa [plain, and_assoc] using h

theorem plain_ty {ty : Nat} (h : ty = tyOrdinary ∨ ty = tyLibrary) :
    ty ≠ tyPruned ∧ ty ≠ tyMerkleProof ∧ ty ≠ tyMerkleUpdate ∧ Spec.childLevel ty 0 = 0 := by
  rcases h with rfl | rfl <;> decide

/-- level-0 hash and depth of a cell that is not a pruned branch depend on the mask not at all and on the children
only through their level-0 hashes and depths -/
theorem hashLevel_zero (H) {ty : Nat} (hty : ty = tyOrdinary ∨ ty = tyLibrary) (mask : Nat) (bits : List Bool)
    (kh : List (Nat → List UInt8)) (kd : List (Nat → Nat)) :
    Spec.hashLevel H ty mask bits kh kd 0 =
      H ([d1 kh.length (ty != 0) 0, d2 bits.length] ++ Bits.toppedUp bits ++
        ((kd.map (· 0)).flatMap be16 ++ (kh.map (· 0)).flatten)) ∧
    Spec.depthLevel ty mask bits kd 0 = Spec.nodeDepth (kd.map (· 0)) := by
  obtain ⟨h1, _, _, h4⟩ := plain_ty hty
  simp [Spec.hashLevel, Spec.depthLevel, h1, CellHashLemmas.descr_eq, CellHashLemmas.paddedData_eq, Spec.maskBelow,
    CellHashLemmas.childrenPart_eq, h4, Nat.mod_one]

mutual
theorem specPrune_hash0 (H : List UInt8 → List UInt8) (hH : H32 H) (P : List Nat → Bool) :
    ∀ (c : Cell) (path : List Nat), plain c = true → Spec.tooDeep c = false →
      Spec.hashAt H (specPrune H P path c) 0 = Spec.hashAt H c 0 ∧
      Spec.depthAt (specPrune H P path c) 0 = Spec.depthAt c 0
  | .mk ty mask bits refs, path, hp, hd => by
    obtain ⟨hty, hm, hwf, hpl⟩ := plain_node hp
    simp only [Spec.tooDeep, Bool.or_eq_false_iff] at hd
    obtain ⟨hdl, hdn⟩ := hd
    obtain ⟨z1, z2⟩ := hashLevel_zero H hty mask bits (Spec.hashAtL H refs) (Spec.depthAtL refs)
    by_cases hP : P path = true
    · simp only [specPrune, hP, if_true]
      apply spec_prunedCell
      · simp only [Spec.hashAt, z1]; exact hH _
      · have : ¬ (Spec.maxDepth < Spec.depthLevel ty mask bits (Spec.depthAtL refs) 0) := by
          simp only [Spec.deepNode, Bool.and_eq_false_iff, List.any_eq_false] at hdn
          rcases hdn with h | h
          · exact absurd h (by simp [(plain_ty hty).1])
          · simpa using h 0 (by simp)
        simp only [Spec.depthAt, Spec.maxDepth] at *
        omega
    · obtain ⟨l1, l2, l3⟩ := specPruneList_hash0 H hH P refs path 0 hpl hdl
      simp only [specPrune, hP, Bool.false_eq_true, if_false, Spec.hashAt, Spec.depthAt]
      obtain ⟨y1, y2⟩ := hashLevel_zero H hty
        ((specPruneList H P path 0 refs).foldl (fun m k => m ||| k.mask) mask) bits
        (Spec.hashAtL H (specPruneList H P path 0 refs)) (Spec.depthAtL (specPruneList H P path 0 refs))
      rw [y1, y2, z1, z2, l1, l2, hashAtL_length, hashAtL_length, l3]
      exact ⟨rfl, rfl⟩
theorem specPruneList_hash0 (H : List UInt8 → List UInt8) (hH : H32 H) (P : List Nat → Bool) :
    ∀ (cs : List Cell) (path : List Nat) (i : Nat), plainL cs = true → Spec.tooDeepL cs = false →
      (Spec.hashAtL H (specPruneList H P path i cs)).map (· 0) = (Spec.hashAtL H cs).map (· 0) ∧
      (Spec.depthAtL (specPruneList H P path i cs)).map (· 0) = (Spec.depthAtL cs).map (· 0) ∧
      (specPruneList H P path i cs).length = cs.length
  | [], _, _, _, _ => ⟨rfl, rfl, rfl⟩
  | c :: cs, path, i, hp, hd => by
    simp only [plainL, Bool.and_eq_true] at hp
    simp only [Spec.tooDeepL, Bool.or_eq_false_iff] at hd
    obtain ⟨a1, a2⟩ := specPrune_hash0 H hH P c (path ++ [i]) hp.1 hd.1
    obtain ⟨b1, b2, b3⟩ := specPruneList_hash0 H hH P cs path (i + 1) hp.2 hd.2
    simp only [specPruneList, Spec.hashAtL, Spec.depthAtL, List.map_cons, List.length_cons, a1, a2, b1, b2, b3,
      and_self]
end


mutual
theorem plain_wfExotic : ∀ c : Cell, plain c = true → Spec.wfExotic c = true
  | .mk ty mask bits refs, h => by
    obtain ⟨_, _, hwf, hpl⟩ := plain_node h
    simp only [Spec.wfExotic, Bool.and_eq_true]
    exact ⟨hwf, plainL_wfExoticL refs hpl⟩
theorem plainL_wfExoticL : ∀ cs : List Cell, plainL cs = true → Spec.wfExoticL cs = true
  | [], _ => rfl
  | c :: cs, h => by
    simp only [plainL, Bool.and_eq_true] at h
    simp only [Spec.wfExoticL, Bool.and_eq_true]
    exact ⟨plain_wfExotic c h.1, plainL_wfExoticL cs h.2⟩
end

open Tongo.CellHashLemmas in
mutual
/-- `pruneCells` (implementation model, using the hashes computed by `newImmutableCell`) produces exactly the
specified pruned tree, and never fails, on plain trees that are not too deep -/
theorem pruneCells_eq (H : List UInt8 → List UInt8) (P : List Nat → Bool) :
    ∀ (c : Cell) (path : List Nat), plain c = true → Spec.tooDeep c = false →
      pruneCells H P path c = .ok (specPrune H P path c)
  | .mk ty mask bits refs, path, hp, hd => by
    obtain ⟨hty, hm, hwf, hpl⟩ := plain_node hp
    obtain ⟨t1, t2, t3, _⟩ := plain_ty hty
    by_cases hP : P path = true
    · obtain ⟨info, e, _, _, _, hmatch⟩ :=
        (good_cell H _ (wfExotic_wfSizes _ (plain_wfExotic _ hp))).1 hd
      obtain ⟨m1, m2⟩ := hmatch 0 (by omega)
      simp only [pruneCells, t2, t3, or_self, if_false, hP, if_true, e, Outcome.bind_ok, m1, m2, specPrune]
      rfl
    · have hdl : Spec.tooDeepL refs = false := by
        simp only [Spec.tooDeep, Bool.or_eq_false_iff] at hd; exact hd.1
      simp only [pruneCells, t2, t3, or_self, if_false, hP, Bool.false_eq_true, specPrune,
        pruneList_eq H P refs path 0 hpl hdl, Outcome.bind_ok]
      rfl
theorem pruneList_eq (H : List UInt8 → List UInt8) (P : List Nat → Bool) :
    ∀ (cs : List Cell) (path : List Nat) (i : Nat), plainL cs = true → Spec.tooDeepL cs = false →
      pruneList H P path i cs = .ok (specPruneList H P path i cs)
  | [], _, _, _, _ => rfl
  | c :: cs, path, i, hp, hd => by
    simp only [plainL, Bool.and_eq_true] at hp
    simp only [Spec.tooDeepL, Bool.or_eq_false_iff] at hd
    simp only [pruneList, pruneCells_eq H P c (path ++ [i]) hp.1 hd.1, pruneList_eq H P cs path (i + 1) hp.2 hd.2,
      Outcome.bind_ok, specPruneList]
    rfl
end

theorem prunedCell_wf (h : List UInt8) (d : Nat) (hh : h.length = 32) :
    Spec.wfExotic (prunedCell h d) = true ∧ (prunedCell h d).mask = 1 := by
  constructor
  · simp only [prunedCell, Spec.wfExotic, Spec.wfExoticL, Bool.and_true, Spec.wfNode, popcount_one,
      bytesToBits_length, List.length_append, hh, be16_length, List.length_cons, List.length_nil]
    decide
  · rfl

theorem orMasks_le_one (cs : List Cell) (m : Nat) (hm : m ≤ 1) (h : ∀ c ∈ cs, c.mask ≤ 1) :
    cs.foldl (fun m k => m ||| k.mask) m ≤ 1 := by
  induction cs generalizing m with
  | nil => exact hm
  | cons c t ih =>
    simp only [List.foldl_cons]
    apply ih
    · have h1 : c.mask ≤ 1 := h c (by simp)
      have : m ||| c.mask < 2 ^ 1 := Nat.or_lt_two_pow (by omega) (by omega)
      omega
    · intro c' hc'; exact h c' (by simp [hc'])

mutual
theorem specPrune_wf (H : List UInt8 → List UInt8) (hH : H32 H) (P : List Nat → Bool) :
    ∀ (c : Cell) (path : List Nat), plain c = true →
      Spec.wfExotic (specPrune H P path c) = true ∧ (specPrune H P path c).mask ≤ 1
  | .mk ty mask bits refs, path, hp => by
    obtain ⟨hty, hm, hwf, hpl⟩ := plain_node hp
    by_cases hP : P path = true
    · simp only [specPrune, hP, if_true]
      have hh : (Spec.hashAt H (.mk ty mask bits refs) 0).length = 32 := by
        simp only [Spec.hashAt, (hashLevel_zero H hty mask bits _ _).1]; exact hH _
      obtain ⟨w1, w2⟩ := prunedCell_wf _ (Spec.depthAt (.mk ty mask bits refs) 0) hh
      exact ⟨w1, Nat.le_of_eq w2⟩
    · obtain ⟨l1, l2, l3⟩ := specPruneList_wf H hH P refs path 0 hpl
      subst hm
      have hle := orMasks_le_one (specPruneList H P path 0 refs) 0 (by omega) l2
      simp only [specPrune, hP, Bool.false_eq_true, if_false, Spec.wfExotic, Bool.and_eq_true]
      refine ⟨⟨?_, l1⟩, hle⟩
      simp only [Spec.wfNode, Bool.and_eq_true, decide_eq_true_eq] at hwf ⊢
      obtain ⟨⟨⟨_, hb⟩, hk⟩, hc⟩ := hwf
      refine ⟨⟨⟨by omega, hb⟩, by rw [l3]; exact hk⟩, ?_⟩
      rcases hty with rfl | rfl
      · simp [Spec.orMasks]
      · simp only [show tyLibrary ≠ tyOrdinary from by decide, show tyLibrary ≠ tyPruned from by decide, if_false,
          if_true, Bool.and_eq_true, beq_iff_eq, List.isEmpty_iff] at hc ⊢
        obtain ⟨⟨hr, _⟩, hbl⟩ := hc
        subst hr
        simp [specPruneList, hbl]
theorem specPruneList_wf (H : List UInt8 → List UInt8) (hH : H32 H) (P : List Nat → Bool) :
    ∀ (cs : List Cell) (path : List Nat) (i : Nat), plainL cs = true →
      Spec.wfExoticL (specPruneList H P path i cs) = true ∧ (∀ c ∈ specPruneList H P path i cs, c.mask ≤ 1) ∧
      (specPruneList H P path i cs).length = cs.length
  | [], _, _, _ => ⟨rfl, by simp [specPruneList], rfl⟩
  | c :: cs, path, i, hp => by
    simp only [plainL, Bool.and_eq_true] at hp
    obtain ⟨a1, a2⟩ := specPrune_wf H hH P c (path ++ [i]) hp.1
    obtain ⟨b1, b2, b3⟩ := specPruneList_wf H hH P cs path (i + 1) hp.2
    refine ⟨by simp [specPruneList, Spec.wfExoticL, a1, b1], ?_, by simp [specPruneList, b3]⟩
    intro c' hc'
    simp only [specPruneList, List.mem_cons] at hc'
    rcases hc' with rfl | hc'
    · exact a2
    · exact b2 c' hc'
end


open Tongo.CellHashLemmas in
/-- what `createProof` returns, when it returns: the Merkle-proof cell over the specified pruned tree, carrying the
level-0 hash and depth (by the definition) of the original root; it is well-formed and the hashing model accepts it -/
theorem createProof_ok (H : List UInt8 → List UInt8) (hH : H32 H) (P : List Nat → Bool) (root : Cell)
    (hp : plain root = true) {proof : Cell} (h : createProof H P root = .ok proof) :
    Spec.tooDeep root = false ∧
    proof = proofCell (Spec.hashAt H root 0) (Spec.depthAt root 0) (specPrune H P [] root) ∧
    Spec.wfExotic proof = true ∧ Spec.tooDeep proof = false := by
  have hws := wfExotic_wfSizes _ (plain_wfExotic _ hp)
  have g := good_cell H root hws
  cases hd : Spec.tooDeep root with
  | true =>
    simp only [createProof, g.2 hd] at h
    cases h
  | false =>
    obtain ⟨info, e, _, _, _, hmatch⟩ := g.1 hd
    obtain ⟨m1, m2⟩ := hmatch 0 (by omega)
    simp only [createProof, e, Outcome.bind_ok, pruneCells_eq H P root [] hp hd, m1, m2] at h
    obtain ⟨w1, w2⟩ := specPrune_wf H hH P root [] hp
    have hh : (Spec.hashAt H root 0).length = 32 := by
      cases root with
      | mk ty mask bits refs =>
        obtain ⟨hty, _⟩ := plain_node hp
        simp only [Spec.hashAt, (hashLevel_zero H hty mask bits _ _).1]; exact hH _
    have hwf : Spec.wfExotic (proofCell (Spec.hashAt H root 0) (Spec.depthAt root 0) (specPrune H P [] root)) = true := by
      have hm : (0 ||| (specPrune H P [] root).mask) >>> 1 = 0 := by
        have : (specPrune H P [] root).mask = 0 ∨ (specPrune H P [] root).mask = 1 := by omega
        rcases this with h0 | h1
        · rw [h0]; rfl
        · rw [h1]; rfl
      simp only [proofCell, Spec.wfExotic, Spec.wfExoticL, w1, Bool.and_true, Spec.wfNode, bytesToBits_length,
        List.length_append, hh, be16_length, List.length_cons, List.length_nil, Spec.orMasks, List.foldl_cons,
        List.foldl_nil, hm, show tyMerkleProof ≠ tyOrdinary from by decide, show tyMerkleProof ≠ tyPruned from by decide,
        show tyMerkleProof ≠ tyLibrary from by decide, if_false, if_true]
      rfl
    cases hr : Cell.reprHash H (proofCell (Spec.hashAt H root 0) (Spec.depthAt root 0) (specPrune H P [] root)) with
    | ok x =>
      rw [hr] at h
      simp only [Outcome.bind_ok, pure] at h
      cases h
      refine ⟨rfl, rfl, hwf, ?_⟩
      -- hashing succeeded, so the proof is not too deep
      have g' := good_cell H _ (wfExotic_wfSizes _ hwf)
      cases hd' : Spec.tooDeep (proofCell (Spec.hashAt H root 0) (Spec.depthAt root 0) (specPrune H P [] root)) with
      | false => rfl
      | true =>
        simp only [Cell.reprHash, g'.2 hd'] at hr
        cases hr
    | err x => rw [hr] at h; cases h
    | panic x => rw [hr] at h; cases h

end Tongo.MerkleLemmas
