import TongoModel.TlbAlloc
import TongoProofs.Lemmas.TlbRead
import Mathlib.Tactic.Ring
/-! Allocation bounds of the repaired stack-list and BinTree decoders, and the quadratic cost of the code as found. -/
namespace Tongo.Tlb
open Tongo

theorem chainLen_eq (ty m : Nat) (bits : List Bool) (refs : List Cell) (depth : Nat) :
    chainLen (.mk ty m bits refs) depth =
      chainLenNode depth (match refs with | c :: _ => some (chainLen c) | [] => none) := by
  match refs with
  | [] => rfl
  | _ :: _ => rfl

theorem stackWalk_eq (ty m : Nat) (bits : List Bool) (refs : List Cell) (depth : Nat) :
    stackWalk (.mk ty m bits refs) depth =
      stackWalkNode (.mk ty m bits refs) depth (match refs with | c :: _ => some (stackWalk c) | [] => none) := by
  match refs with
  | [] => rfl
  | _ :: _ => rfl

theorem chainLen_le (c : Cell) : ∀ depth, chainLen c depth ≤ cellCount c := by
  refine cell_ind (P := fun c => ∀ depth, chainLen c depth ≤ cellCount c) ?_ c
  intro ty m bits refs ih depth
  rw [chainLen_eq]
  unfold cellCount chainLenNode
  split
  · omega
  · match refs, ih with
    | [], _ => simp
    | a :: t, ih =>
      have := ih a (by simp) (depth - 1)
      simp only [cellCount.cellCountList]
      omega

theorem stackWalk_len (c : Cell) : ∀ depth cells, stackWalk c depth = some cells → cells.length ≤ cellCount c := by
  refine cell_ind (P := fun c => ∀ depth cells, stackWalk c depth = some cells → cells.length ≤ cellCount c) ?_ c
  intro ty m bits refs ih depth cells h
  rw [stackWalk_eq] at h
  unfold stackWalkNode at h
  unfold cellCount
  split at h
  · simp only [Option.some.injEq] at h; subst h; simp
  · match refs, ih, h with
    | [], _, h => simp at h
    | a :: t, ih, h =>
      simp only [Option.map_eq_some_iff] at h
      obtain ⟨rest, hr, rfl⟩ := h
      have := ih a (by simp) (depth - 1) rest hr
      simp only [cellCount.cellCountList, List.length_cons]
      omega

/-- repaired stack list: at most two elements per cell of the list, whatever depth the cell announces -/
theorem stackFixed_alloc (tos : Cell → Bool) (c : Cell) (depth : Nat) :
    (stackFixed tos c depth).2 ≤ 2 * cellCount c := by
  unfold stackFixed
  split
  · have := chainLen_le c depth; simp only; omega
  · rename_i cells h
    have := stackWalk_len c depth cells h
    split
    · simp
    · split <;> (simp only; omega)

/-- the seeded shape (C08-3): one cell that announces depth `D` makes the decoder request `D` elements -/
theorem stackPrealloc_witness (D : Nat) (hD : 0 < D) :
    (stackPrealloc (fun _ => true) (.mk 0 0 [] []) D).2 = D ∧ cellCount (.mk 0 0 [] []) = 1 := by
  constructor
  · show (stackPreallocNode true D none).2 = D
    unfold stackPreallocNode
    rw [if_neg (by omega)]
  · simp [cellCount, cellCount.cellCountList]

/-- the code as found on a well-formed stack of depth `d`: `d(d+1)/2` element copies -/
theorem stackCopy_chain (d : Nat) :
    ∃ a, stackCopy (fun _ => true) (stackChain d) d = (.ok d, a) ∧ 2 * a = d * (d + 1) := by
  induction d with
  | zero => exact ⟨0, rfl, rfl⟩
  | succ d ih =>
    obtain ⟨a, h1, h2⟩ := ih
    refine ⟨a + d + 1, ?_, ?_⟩
    · show stackCopyNode true (d + 1) (some (stackCopy (fun _ => true) (stackChain d))) = _
      unfold stackCopyNode
      rw [if_neg (by omega)]
      simp only [Nat.add_sub_cancel, h1, if_true]
    · have : 2 * (a + d + 1) = 2 * a + 2 * d + 2 := by ring
      rw [this, h2]; ring

theorem binFixed_eq (ty m : Nat) (bits : List Bool) (refs : List Cell) :
    binFixed (.mk ty m bits refs) = binFixedNode bits
      (match refs with | l :: _ => some (binFixed l) | [] => none)
      (match refs with | _ :: r :: _ => some (binFixed r) | _ => none) := by
  match refs with
  | [] => rfl
  | [_] => rfl
  | _ :: _ :: _ => rfl

theorem binFixedNode_le (bits : List Bool) (recL recR : Option (Cost Nat)) (bL bR : Nat)
    (hL : ∀ w, recL = some w → w.2 ≤ bL) (hR : ∀ w, recR = some w → w.2 ≤ bR) :
    (binFixedNode bits recL recR).2 ≤ 1 + bL + bR := by
  unfold binFixedNode
  split
  · simp
  · simp only; omega
  · split
    · simp
    · rename_i e a1; have := hL _ rfl; simp only at this ⊢; omega
    · rename_i p a1; have := hL _ rfl; simp only at this ⊢; omega
    · rename_i k1 a1
      have h1 := hL _ rfl
      simp only at h1
      split
      · simp only; omega
      · rename_i e a2; have := hR _ rfl; simp only at this ⊢; omega
      · rename_i p a2; have := hR _ rfl; simp only at this ⊢; omega
      · rename_i k2 a2; have := hR _ rfl; simp only at this ⊢; omega

/-- repaired BinTree: at most one append per cell -/
theorem binFixed_alloc (c : Cell) : (binFixed c).2 ≤ cellCount c := by
  refine cell_ind (P := fun c => (binFixed c).2 ≤ cellCount c) ?_ c
  intro ty m bits refs ih
  rw [binFixed_eq]
  unfold cellCount
  match refs, ih with
  | [], _ =>
    have := binFixedNode_le bits none none 0 0 (by simp) (by simp)
    simp only [cellCount.cellCountList] at this ⊢; omega
  | [a], ih =>
    have := binFixedNode_le bits (some (binFixed a)) none (cellCount a) 0
      (by intro w hw; simp only [Option.some.injEq] at hw; subst hw; exact ih a (by simp)) (by simp)
    simp only [cellCount.cellCountList] at this ⊢; omega
  | a :: b :: t, ih =>
    have := binFixedNode_le bits (some (binFixed a)) (some (binFixed b)) (cellCount a) (cellCount b)
      (by intro w hw; simp only [Option.some.injEq] at hw; subst hw; exact ih a (by simp))
      (by intro w hw; simp only [Option.some.injEq] at hw; subst hw; exact ih b (by simp))
    have h2 := @cellCount_two a b t
    simp only at this ⊢; omega

/-- the code as found on a comb of depth `d` (2d+1 cells): `(d² + 5d + 2)/2` pointer copies -/
theorem binCopy_comb (d : Nat) :
    ∃ a, binCopy (comb d) = (.ok (d + 1), a) ∧ 2 * a = d * d + 5 * d + 2 := by
  induction d with
  | zero => exact ⟨1, rfl, rfl⟩
  | succ d ih =>
    obtain ⟨a, h1, h2⟩ := ih
    refine ⟨1 + 1 + a + (d + 1), ?_, ?_⟩
    · show binCopyNode [true] (some (binCopy (.mk 0 0 [false] []))) (some (binCopy (comb d))) = _
      rw [h1]
      show binCopyNode [true] (some (binCopyNode [false] none none)) (some (Outcome.ok (d + 1), a)) = _
      simp only [binCopyNode]
      congr 2
      omega
    · have : 2 * (1 + 1 + a + (d + 1)) = 2 * a + 2 * d + 6 := by ring
      rw [this, h2]; ring

end Tongo.Tlb
