import TongoModel.Tl.BindingsMatch
import TongoProofs.Lemmas.TlRoundtrip
/-! `steps_eq_schema`: bindings accepted by the matcher compute the schema semantics. Core Lean only. -/
namespace Tongo.Tl.Bind
open Tongo Tongo.Tl

/-! ### lists of struct fields -/

theorem fieldIdx_at (pre post : StructDecl) (d : String × GoTy) (h : ∀ p ∈ pre, (p.1 == d.1) = false) :
    fieldIdx (pre ++ d :: post) d.1 = pre.length := by
  induction pre with
  | nil => simp [fieldIdx, List.findIdx_cons]
  | cons a pre ih =>
    have ha := h a (List.mem_cons_self ..)
    have ih' := ih (fun p hp => h p (List.mem_cons_of_mem _ hp))
    simp only [fieldIdx] at ih' ⊢
    simp [List.findIdx_cons, ha, ih']

theorem getField_at (pre post : StructDecl) (d : String × GoTy) (vpre vpost : List Val) (v : Val)
    (h : ∀ p ∈ pre, (p.1 == d.1) = false) (hl : vpre.length = pre.length) :
    getField (pre ++ d :: post) (vpre ++ v :: vpost) d.1 = some (d.2, v) := by
  simp [getField, fieldIdx_at pre post d h, ← hl]

theorem mem_dedupNames (l : List String) (x : String) (h : x ∈ l) : x ∈ dedupNames l := by
  induction l with
  | nil => cases h
  | cons a l ih =>
    simp only [dedupNames, List.mem_cons, List.mem_filter]
    rcases List.mem_cons.mp h with rfl | h
    · exact Or.inl rfl
    · by_cases hx : x = a
      · exact Or.inl hx
      · exact Or.inr ⟨ih h, by simpa using hx⟩

theorem result_mem_typeNames (S : Schema) (d : Decl) (h : d ∈ S.types) : d.result ∈ typeNames S :=
  mem_dedupNames _ _ (List.mem_map.mpr ⟨d, h, rfl⟩)

theorem nodupB_cons_notin (x : String) (xs : List String) (h : nodupB (x :: xs) = true) :
    (∀ y ∈ xs, (x == y) = false) ∧ nodupB xs = true := by
  simp only [nodupB, Bool.and_eq_true, Bool.not_eq_true'] at h
  refine ⟨fun y hy => ?_, h.2⟩
  by_cases hxy : x = y
  · subst hxy
    have : xs.contains x = true := by simpa using hy
    rw [this] at h; simp at h
  · simpa using hxy

theorem nodupB_mid (a b : List String) (x : String) (h : nodupB (a ++ x :: b) = true) :
    ∀ y ∈ a, (y == x) = false := by
  induction a with
  | nil => intro y hy; cases hy
  | cons c a ih =>
    obtain ⟨h1, h2⟩ := nodupB_cons_notin c (a ++ x :: b) h
    intro y hy
    rcases List.mem_cons.mp hy with rfl | hy
    · exact h1 x (by simp)
    · exact ih h2 y hy

/-- the flags seen so far (schema side) are readable from the struct (Go side) -/
def EnvInv (env : Env) (D : StructDecl) (V : List Val) : Prop :=
  ∀ n m, envGet? env n = some m → getField D V (camelGo n) = some (.u32, .num m)

theorem envGet_push (env : Env) (f : Field) (v : Val) (n : String) :
    envGet? (pushEnv env f v) n =
      (match f.ty, f.cond, v with
       | .nat, none, .num k => if f.name == n then some k else envGet? env n
       | _, _, _ => envGet? env n) := by
  unfold pushEnv
  split <;> simp_all [envGet?, List.find?_cons]
  split <;> simp_all

theorem guard_of_present {env : Env} {D : StructDecl} {V : List Val} (hinv : EnvInv env D V) (f : Field) (b : Bool)
    (hp : present? env f.cond = some b) : guardHolds D V (guardOf f) = some b := by
  unfold guardOf
  cases hc : f.cond with
  | none => simp [hc, present?] at hp; simp [guardHolds, ← hp]
  | some p =>
    obtain ⟨flag, bit⟩ := p
    simp only [hc, present?, Option.map_eq_some_iff] at hp
    obtain ⟨m, hm, rfl⟩ := hp
    simp [guardHolds, hinv flag m hm]

theorem rep_ne_absent (S : Schema) (t : Ty) (v : Val) (b : Bytes) (h : encode S t v = some b) : rep S t v ≠ .absent := by
  cases t <;> cases v <;> simp [encode] at h <;> simp [rep]
  all_goals (try split) <;> simp_all
  all_goals (try split) <;> simp_all

/-! ### what the matcher gives for a referenced type -/

/-- the whole of generated.go matches the whole schema (the types part of `agreeAll`) -/
def TypesAgree (S : Schema) (B : Bindings) : Prop := ∀ t, t ∈ typeNames S → agreeType S B t = true

theorem ctorsOf_single {S : Schema} {d : Decl} (hd : d ∈ S.types) (h1 : (S.ctorsOf d.result).length = 1) :
    S.ctorsOf d.result = [d] := by
  have hm : d ∈ S.ctorsOf d.result := by simp [Schema.ctorsOf, hd]
  match hl : S.ctorsOf d.result, h1, hm with
  | [x], _, hm => simp at hm; rw [hm]

/-- F1: a single-constructor type has the struct `<Ctor>C` with agreeing methods -/
theorem bare_binding {S : Schema} {B : Bindings} (hA : TypesAgree S B) {d : Decl} (hd : d ∈ S.types)
    (h1 : (S.ctorsOf d.result).length = 1) :
    ∃ m, B.find (camelGo d.ctor ++ "C") = some (.simple m) ∧ agreeMethod S B d m = true := by
  have h := hA d.result (result_mem_typeNames S d hd)
  have hc := ctorsOf_single hd h1
  simp only [agreeType, agreeTypeG, bareNameOf, hc, Bool.and_eq_true] at h
  cases hf : B.find (camelGo d.ctor ++ "C") with
  | none => simp [hf] at h
  | some b =>
    cases b with
    | simple m => simp only [hf] at h; exact ⟨m, rfl, h.1⟩
    | sum s => simp [hf] at h
    | tagged a b => simp [hf] at h

/-- F2: the hand-written boxed wrapper of a single-constructor type carries that constructor's id and struct -/
theorem tagged_binding {S : Schema} {B : Bindings} (hA : TypesAgree S B) {d : Decl} (hd : d ∈ S.types)
    (h1 : (S.ctorsOf d.result).length = 1) (tag : Nat) (inner : String)
    (hf : B.find (camelGo d.result) = some (.tagged tag inner)) : tag = d.id ∧ inner = camelGo d.ctor ++ "C" := by
  have h := hA d.result (result_mem_typeNames S d hd)
  have hc := ctorsOf_single hd h1
  simp only [agreeType, agreeTypeG, bareNameOf, hc, hf, Bool.and_eq_true, beq_iff_eq] at h
  exact h.2

/-- F3: a type with several constructors has the sum struct `<Type>` -/
theorem sum_binding {S : Schema} {B : Bindings} (hA : TypesAgree S B) (t : String) (ht : t ∈ typeNames S)
    (hn : (S.ctorsOf t).length ≠ 1) :
    ∃ s, B.find (camelGo t) = some (.sum s) ∧ agreeCases S B (S.ctorsOf t) s.variants s.marshal s.unmarshal = true ∧
      nodupB ((S.ctorsOf t).map fun d => camelGo d.ctor) = true := by
  have h := hA t ht
  simp only [agreeType, agreeTypeG] at h
  split at h
  · rename_i d hc; simp [hc] at hn
  · simp only [Bool.and_eq_true] at h
    cases hf : B.find (camelGo t) with
    | none => simp [hf] at h
    | some b =>
      cases b with
      | sum s => simp only [hf, Bool.and_eq_true] at h; exact ⟨s, rfl, h.2.1, h.2.2⟩
      | simple m => simp [hf] at h
      | tagged a b => simp [hf] at h

/-- the `case` selected by the SumType string of constructor `d`, and its variant struct -/
theorem find_case (S : Schema) (B : Bindings) : ∀ (ds : List Decl) (vs : List (String × StructDecl)) (ms : List MCase)
    (us : List UCase), agreeCases S B ds vs ms us = true → nodupB (ds.map fun d => camelGo d.ctor) = true →
    ∀ d ∈ ds, ∃ k decl u, ms.find? (fun k => k.sumType == camelGo d.ctor) = some k ∧ k.tag = d.id ∧
      k.variant = camelGo d.ctor ∧
      vs.find? (fun p => p.1 == k.variant) = some (k.variant, decl) ∧ declNamesOk decl = true ∧
      agreeFields d.fields decl k.steps u = true ∧ d.fields.all (fun f => tyRefsOk S B f.ty) = true := by
  intro ds
  induction ds with
  | nil => intro _ _ _ _ _ d hd; cases hd
  | cons a ds ih =>
    intro vs ms us hag hnd d hd
    match vs, ms, us, hag with
    | v :: vs, m :: ms, u :: us, hag =>
      simp only [agreeCases, Bool.and_eq_true, beq_iff_eq] at hag
      obtain ⟨⟨⟨⟨⟨⟨⟨⟨⟨⟨hv, hvn⟩, hms⟩, hmv⟩, hmt⟩, _⟩, _⟩, _⟩, haf⟩, hrefs⟩, hrest⟩ := hag
      simp only [List.map_cons] at hnd
      obtain ⟨hne, hnd'⟩ := nodupB_cons_notin _ _ hnd
      rcases List.mem_cons.mp hd with rfl | hd'
      · refine ⟨m, v.2, u.steps, by simp [hms], hmt, hmv, ?_, hvn, haf, hrefs⟩
        simp [hmv, hv]
        rw [← hv]
      · obtain ⟨k, decl, u', hk, hkt, hkv, hvf, hvn', haf', hr'⟩ := ih vs ms us hrest hnd' d hd'
        have hne1 : (camelGo a.ctor == camelGo d.ctor) = false := hne _ (List.mem_map.mpr ⟨d, hd', rfl⟩)
        refine ⟨k, decl, u', ?_, hkt, hkv, ?_, hvn', haf', hr'⟩
        · simp [List.find?_cons, hms, hne1, hk]
        · simp [List.find?_cons, hv, hkv, hne1]
          simpa [hkv] using hvf

/-! ### unfolding equations -/

theorem marshalGo_named_tuple (B : Bindings) (f : Nat) (n : String) (vals : List Val) :
    marshalGo B (f + 1) (.named n) (.tuple vals) =
      (match B.find n with
       | some (.simple m) => runMarshal B f m.fields m.marshal vals
       | some (.tagged tag inner) => (marshalGo B f (.named inner) (.tuple vals)).map (le 4 tag ++ ·)
       | _ => none) := by
  rw [marshalGo.eq_def]
  cases hB : B.find n with
  | none => simp [hB]
  | some b => cases b <;> simp [hB]
theorem marshalGo_named_sum (B : Bindings) (f : Nat) (n c : String) (vals : List Val) :
    marshalGo B (f + 1) (.named n) (.sum c vals) =
      (match B.find n with
       | some (.sum s) =>
         (match s.marshal.find? (fun k => k.sumType == c) with
          | some k =>
            (match s.variants.find? (fun p => p.1 == k.variant) with
             | some p => (runMarshal B f p.2 k.steps vals).map (le 4 k.tag ++ ·)
             | none => none)
          | none => none)
       | _ => none) := by
  rw [marshalGo.eq_def]
  cases hB : B.find n with
  | none => simp [hB]
  | some b => cases b <;> simp [hB] <;> rfl

theorem marshalGo_ptr (B : Bindings) (f : Nat) (t : GoTy) (x : Val) (hx : x ≠ .absent) :
    marshalGo B (f + 1) (.ptr t) x = marshalGo B f t x := by
  rw [marshalGo.eq_def]
  cases x <;> simp_all

/-! ### MarshalTL computes the schema encoding -/

section Marshal
variable (S : Schema) (B : Bindings)

def M1 (ty : Ty) (v : Val) : Prop := ∀ bs fuel, ty ≠ .tru → tyRefsOk S B ty = true → encode S ty v = some bs → 3 * v.depth ≤ fuel →
  marshalGo B fuel (goTyOf ty) (rep S ty v) = some bs

def M2 (ty : Ty) (items : List Val) : Prop := ∀ bs fuel, ty ≠ .tru → tyRefsOk S B ty = true → encodeItems S ty items = some bs →
  3 * depthList items ≤ fuel → marshalItems B fuel (goTyOf ty) (repItems S ty items) = some bs

def M3 (fields : List Field) (env : Env) (vs : List Val) : Prop :=
  ∀ (pre post : StructDecl) (vpre : List Val) (ms us : List Step) bs fuel,
    vpre.length = pre.length → nodupB ((pre ++ post).map (·.1)) = true →
    agreeFields fields post ms us = true → fields.all (fun f => tyRefsOk S B f.ty) = true →
    EnvInv env (pre ++ post) (vpre ++ repFields S fields vs) →
    encodeFields S fields env vs = some bs → 3 * depthList vs + 1 ≤ fuel →
    runMarshal B fuel (pre ++ post) ms (vpre ++ repFields S fields vs) = some bs

theorem succ_of_pos {n : Nat} (h : 1 ≤ n) : ∃ k, n = k + 1 := ⟨n - 1, by omega⟩

end Marshal

theorem repItems_length (S : Schema) (t : Ty) (items : List Val) : (repItems S t items).length = items.length := by
  induction items with
  | nil => rfl
  | cons v vs ih => simp [repItems, ih]

theorem plainStep_inv {f : Field} {decl : StructDecl} {ms us : List Step} (h : plainStep f decl ms us = true) :
    ∃ d decl' m ms' u us', decl = d :: decl' ∧ ms = m :: ms' ∧ us = u :: us' ∧
      agreeOne (camelGo f.name) (guardOf f) (fieldGoTy f) d m u = true := by
  cases decl <;> cases ms <;> cases us <;> simp [plainStep] at h
  exact ⟨_, _, _, _, _, _, rfl, rfl, rfl, h⟩

theorem fieldGoTy_cases (f : Field) : fieldGoTy f = goTyOf f.ty ∨ fieldGoTy f = .ptr (goTyOf f.ty) := by
  unfold fieldGoTy
  cases f.cond <;> cases f.ty <;> simp [goTyOf]

theorem pushEnv_nat (env : Env) (f : Field) (k : Nat) (h1 : f.ty = .nat) (h2 : f.cond = none) :
    pushEnv env f (.num k) = (f.name, k) :: env := by simp [pushEnv, h1, h2]

theorem pushEnv_other (env : Env) (f : Field) (v : Val) (h : ¬ (f.ty = .nat ∧ f.cond = none)) : pushEnv env f v = env := by
  unfold pushEnv
  split
  · exact absurd ⟨by assumption, by assumption⟩ h
  · rfl

theorem fieldGoTy_nat (f : Field) (h1 : f.ty = .nat) (h2 : f.cond = none) : fieldGoTy f = .u32 := by
  simp [fieldGoTy, h1, h2, goTyOf]

theorem rep_nat (S : Schema) (v : Val) : rep S .nat v = v := by cases v <;> simp [rep]

theorem marshal_all (S : Schema) (B : Bindings) (hA : TypesAgree S B) :
    (∀ ty v, M1 S B ty v) ∧ (∀ ty items, M2 S B ty items) ∧ (∀ fields env vs, M3 S B fields env vs) := by
  apply encode.mutual_induct S
  -- 1,2 nat
  · intro n hn bs fuel _ _ he hd
    obtain ⟨f, rfl⟩ := succ_of_pos (by have := Val.depth_pos (.num n); omega : 1 ≤ fuel)
    simp only [encode, hn, if_true, Option.some.injEq] at he
    subst he
    simp [goTyOf, rep, marshalGo, hn]
  · intro n hn bs fuel _ _ he _
    simp [encode, hn] at he
  · intro n hn bs fuel _ _ he hd
    obtain ⟨f, rfl⟩ := succ_of_pos (by simp [Val.depth] at hd; omega : 1 ≤ fuel)
    simp only [encode, hn, if_true, Option.some.injEq] at he
    subst he
    simp [goTyOf, rep, marshalGo, hn]
  · intro n hn bs fuel _ _ he _
    simp [encode, hn] at he
  · intro n hn bs fuel _ _ he hd
    obtain ⟨f, rfl⟩ := succ_of_pos (by simp [Val.depth] at hd; omega : 1 ≤ fuel)
    simp only [encode, hn, if_true, Option.some.injEq] at he
    subst he
    simp [goTyOf, rep, marshalGo, hn]
  · intro n hn bs fuel _ _ he _
    simp [encode, hn] at he
  · intro vb hn bs fuel _ _ he hd
    obtain ⟨f, rfl⟩ := succ_of_pos (by simp [Val.depth] at hd; omega : 1 ≤ fuel)
    simp only [encode, hn, if_true, Option.some.injEq] at he
    subst he
    simp [goTyOf, rep, marshalGo, hn]
  · intro vb hn bs fuel _ _ he _
    simp [encode, hn] at he
  · intro vb hn bs fuel _ _ he hd
    obtain ⟨f, rfl⟩ := succ_of_pos (by simp [Val.depth] at hd; omega : 1 ≤ fuel)
    simp only [encode, hn, if_true, Option.some.injEq] at he
    subst he
    simp [goTyOf, rep, marshalGo, hn]
  · intro vb hn bs fuel _ _ he _
    simp [encode, hn] at he
  · intro vb hn bs fuel _ _ he hd
    obtain ⟨f, rfl⟩ := succ_of_pos (by simp [Val.depth] at hd; omega : 1 ≤ fuel)
    simp only [encode, hn, if_true, Option.some.injEq] at he
    subst he
    simp [goTyOf, rep, marshalGo, hn]
  · intro vb hn bs fuel _ _ he _
    simp [encode, hn] at he
  -- 13 bool
  · intro b bs fuel _ _ he hd
    obtain ⟨f, rfl⟩ := succ_of_pos (by simp [Val.depth] at hd; omega : 1 ≤ fuel)
    simp only [encode, Option.some.injEq] at he
    subst he
    simp [goTyOf, rep, marshalGo]
  -- 14 true (never a Go field; the statement is about the unused Go type)
  · intro bs fuel hnt _ he hd
    exact absurd rfl hnt
  -- 15,16 bare
  · intro c fs d hc ih bs fuel hnt href he hd
    obtain ⟨f, rfl⟩ := succ_of_pos (by simp [Val.depth] at hd; omega : 1 ≤ fuel)
    have hdm : d ∈ S.types := List.mem_of_find?_eq_some hc
    have hdc : d.ctor = c := by have := List.find?_some hc; simpa using this
    simp only [tyRefsOk, hc, beq_iff_eq] at href
    obtain ⟨m, hf, hag⟩ := bare_binding hA hdm href
    simp only [agreeMethod, Bool.and_eq_true] at hag
    simp only [encode, hc] at he
    simp only [Val.depth] at hd
    rw [hdc] at hf
    have := ih [] m.fields [] m.marshal m.unmarshal bs f rfl (by simpa [declNamesOk] using hag.1.1) hag.1.2 hag.2
      (by intro n k hk; simp [envGet?] at hk) he (by omega)
    simp only [List.nil_append] at this
    simp only [goTyOf, rep, hc, marshalGo_named_tuple, hf, this]
  · intro c fs hc bs fuel _ _ he _
    simp [encode, hc] at he
  -- 17,18 boxed
  · intro t c fs d hc ih bs fuel hnt href he hd
    obtain ⟨f, rfl⟩ := succ_of_pos (by simp [Val.depth] at hd; omega : 1 ≤ fuel)
    have hdm : d ∈ S.types := List.mem_of_find?_eq_some hc
    have hdp := List.find?_some hc
    simp only [Bool.and_eq_true, beq_iff_eq] at hdp
    obtain ⟨hdr, hdc⟩ := hdp
    simp only [encode, hc] at he
    obtain ⟨b, hb, rfl⟩ := map_append_eq_some he
    simp only [Val.depth] at hd
    by_cases h1 : (S.ctorsOf t).length = 1
    · -- single constructor: the hand-written tagged wrapper around the plain struct
      have h1' : (S.ctorsOf d.result).length = 1 := by rw [hdr]; exact h1
      have hcs := ctorsOf_single hdm h1'
      rw [hdr] at hcs
      simp only [tyRefsOk, hcs] at href
      cases hft : B.find (camelGo t) with
      | none => simp [hft] at href
      | some bd =>
        cases bd with
        | simple m => simp [hft] at href
        | sum s => simp [hft] at href
        | tagged tag inner =>
          obtain ⟨htag, hinner⟩ := tagged_binding hA hdm h1' tag inner (by rw [hdr]; exact hft)
          obtain ⟨m, hf, hag⟩ := bare_binding hA hdm h1'
          simp only [agreeMethod, Bool.and_eq_true] at hag
          obtain ⟨f, rfl⟩ := succ_of_pos (by omega : 1 ≤ f)
          have := ih [] m.fields [] m.marshal m.unmarshal b f rfl (by simpa [declNamesOk] using hag.1.1) hag.1.2 hag.2
            (by intro n k hk; simp [envGet?] at hk) hb (by omega)
          simp only [List.nil_append] at this
          simp only [goTyOf, rep, hc, h1, beq_self_eq_true, if_true, marshalGo_named_tuple, hft, hinner, hf, this, htag,
            Option.map_some]
    · have ht : t ∈ typeNames S := by rw [← hdr]; exact result_mem_typeNames S d hdm
      obtain ⟨s, hfs, hcases, hnd⟩ := sum_binding hA t ht h1
      have hmem : d ∈ S.ctorsOf t := by simp [Schema.ctorsOf, hdm, hdr]
      obtain ⟨k, decl, u, hk, hkt, hkv, hvf, hvn, haf, hrefs⟩ := find_case S B _ _ _ _ hcases hnd d hmem
      have := ih [] decl [] k.steps u b f rfl (by simpa [declNamesOk] using hvn) haf hrefs
        (by intro n k hk; simp [envGet?] at hk) hb (by omega)
      simp only [List.nil_append] at this
      have h1b : ((S.ctorsOf t).length == 1) = false := by simpa using h1
      simp only [goTyOf, rep, hc, h1b, Bool.false_eq_true, if_false, marshalGo_named_sum, hfs, hk, hvf, this, hkt,
        Option.map_some]
  · intro t c fs hc bs fuel _ _ he _
    simp [encode, hc] at he
  -- 19,20 vector
  · intro t items hl ih bs fuel hnt href he hd
    obtain ⟨f, rfl⟩ := succ_of_pos (by simp [Val.depth] at hd; omega : 1 ≤ fuel)
    simp only [encode, hl, if_true] at he
    obtain ⟨b, hb, rfl⟩ := map_append_eq_some he
    simp only [Val.depth] at hd
    have hlen := repItems_length S t items
    simp only [tyRefsOk, Bool.and_eq_true, bne_iff_ne, ne_eq] at href
    simp only [goTyOf, rep, marshalGo, hlen, hl, if_true, ih b f href.1 href.2 hb (by omega)]
    rfl
  · intro t items hl bs fuel _ _ he _
    simp [encode, hl] at he
  -- 21 mismatch
  · intro v t h1 h2 h3 h4 h5 h6 h7 h8 h9 h10 h11 bs fuel _ _ he hd
    exfalso
    cases t <;> cases v <;> first
      | (simp [encode] at he; done)
      | exact h1 _ rfl rfl | exact h2 _ rfl rfl | exact h3 _ rfl rfl | exact h4 _ rfl rfl | exact h5 _ rfl rfl
      | exact h6 _ rfl rfl | exact h7 _ rfl rfl | exact h8 rfl rfl | exact h9 _ _ rfl rfl | exact h10 _ _ _ rfl rfl
      | exact h11 _ _ rfl rfl
  -- 22 items nil
  · intro t bs fuel _ _ he _
    simp only [encodeItems, Option.some.injEq] at he
    subst he
    simp [repItems, marshalItems]
  -- 23 items cons none
  · intro t v vs hn ih bs fuel _ _ he _
    simp [encodeItems, hn] at he
  -- 24 items cons some
  · intro t v vs b hb ih1 ih2 bs fuel hnt href he hd
    simp only [encodeItems, hb] at he
    obtain ⟨b2, hb2, rfl⟩ := map_append_eq_some he
    simp only [depthList] at hd
    simp only [repItems, marshalItems, ih1 b fuel hnt href hb (by omega), ih2 b2 fuel hnt href hb2 (by omega)]
    rfl
  -- 25 fields nil
  · intro env pre post vpre ms us bs fuel _ _ hag _ _ he _
    simp only [encodeFields, Option.some.injEq] at he
    subst he
    simp only [agreeFields, Bool.and_eq_true, List.isEmpty_iff] at hag
    obtain ⟨⟨rfl, rfl⟩, rfl⟩ := hag
    simp [runMarshal]
  -- 26 present none
  · intro f fs env v vs hp pre post vpre ms us bs fuel _ _ _ _ _ he _
    simp [encodeFields, hp] at he
  -- 27 flag clear, value absent
  · intro f fs env vs hp ih pre post vpre ms us bs fuel hl hnd hag hrefs hinv he hfuel
    simp only [encodeFields, hp] at he
    simp only [depthList] at hfuel
    simp only [List.all_cons, Bool.and_eq_true] at hrefs
    by_cases ht : f.ty = .tru
    · simp only [agreeFields, ht, if_true, Bool.and_eq_true] at hag
      simp only [repFields, ht, if_true] at hinv ⊢
      exact ih pre post vpre ms us.tail bs fuel hl hnd hag.2 hrefs.2 hinv he (by omega)
    · simp only [agreeFields, ht, if_false, Bool.and_eq_true] at hag
      obtain ⟨d, post', m, ms', u, us', rfl, rfl, rfl, hone⟩ := plainStep_inv hag.1
      simp only [agreeOne, Bool.and_eq_true, beq_iff_eq] at hone
      obtain ⟨⟨⟨⟨⟨hd1, hd2⟩, hm1⟩, hm2⟩, _⟩, _⟩ := hone
      simp only [repFields, ht, if_false] at hinv ⊢
      have hg := guard_of_present hinv f false hp
      have hD : pre ++ d :: post' = (pre ++ [d]) ++ post' := by simp
      have hV : vpre ++ rep S f.ty Val.absent :: repFields S fs vs = (vpre ++ [rep S f.ty Val.absent]) ++ repFields S fs vs := by simp
      simp only [runMarshal, hm2, hg]
      rw [hD, hV]
      apply ih (pre ++ [d]) post' (vpre ++ [rep S f.ty Val.absent]) ms' us' bs fuel (by simp [hl])
        (by rw [← hD]; exact hnd) hag.2 hrefs.2 (by rw [← hD, ← hV]; exact hinv) he (by omega)
  -- 28 flag clear but a value is given
  · intro f fs env v vs hp hv pre post vpre ms us bs fuel _ _ _ _ _ he _
    exfalso
    cases v <;> first | (simp [encodeFields, hp] at he; done) | exact hv rfl
  -- 29 present, value does not encode
  · intro f fs env v vs hp hn ih pre post vpre ms us bs fuel _ _ _ _ _ he _
    simp [encodeFields, hp, hn] at he
  -- 30 present, value encodes
  · intro f fs env v vs hp b hb ih1 ih2 pre post vpre ms us bs fuel hl hnd hag hrefs hinv he hfuel
    simp only [encodeFields, hp, hb] at he
    obtain ⟨b2, hb2, rfl⟩ := map_append_eq_some he
    simp only [depthList] at hfuel
    simp only [List.all_cons, Bool.and_eq_true] at hrefs
    by_cases ht : f.ty = .tru
    · simp only [agreeFields, ht, if_true, Bool.and_eq_true] at hag
      have hb' : b = [] := by
        rw [ht] at hb
        cases v <;> simp [encode] at hb
        exact hb
      have hpush : pushEnv env f v = env := by simp [pushEnv, ht]
      simp only [repFields, ht, if_true] at hinv ⊢
      rw [hpush] at ih2 hb2
      rw [hb', List.nil_append]
      exact ih2 pre post vpre ms us.tail b2 fuel hl hnd hag.2 hrefs.2 hinv hb2 (by omega)
    · simp only [agreeFields, ht, if_false, Bool.and_eq_true] at hag
      obtain ⟨d, post', m, ms', u, us', rfl, rfl, rfl, hone⟩ := plainStep_inv hag.1
      simp only [agreeOne, Bool.and_eq_true, beq_iff_eq] at hone
      obtain ⟨⟨⟨⟨⟨hd1, hd2⟩, hm1⟩, hm2⟩, _⟩, _⟩ := hone
      simp only [repFields, ht, if_false] at hinv ⊢
      have hg := guard_of_present hinv f true hp
      have hD : pre ++ d :: post' = (pre ++ [d]) ++ post' := by simp
      have hV : vpre ++ rep S f.ty v :: repFields S fs vs = (vpre ++ [rep S f.ty v]) ++ repFields S fs vs := by simp
      have hnotin : ∀ p ∈ pre, (p.1 == d.1) = false := by
        have := nodupB_mid (pre.map (·.1)) (post'.map (·.1)) d.1 (by simpa using hnd)
        intro p hp'
        exact this p.1 (List.mem_map.mpr ⟨p, hp', rfl⟩)
      have hget : getField (pre ++ d :: post') (vpre ++ rep S f.ty v :: repFields S fs vs) (camelGo f.name) =
          some (fieldGoTy f, rep S f.ty v) := by
        rw [← hd1, ← hd2]
        exact getField_at pre post' d vpre _ _ hnotin hl
      -- the write of this field
      have hfield : marshalGo B fuel (fieldGoTy f) (rep S f.ty v) = some b := by
        rcases fieldGoTy_cases f with h | h
        · rw [h]; exact ih1 b fuel ht hrefs.1 hb (by omega)
        · rw [h]
          obtain ⟨F, rfl⟩ := succ_of_pos (by omega : 1 ≤ fuel)
          rw [marshalGo_ptr B F _ _ (rep_ne_absent S f.ty v b hb)]
          exact ih1 b F ht hrefs.1 hb (by omega)
      -- the flags after this field
      have hinv' : EnvInv (pushEnv env f v) ((pre ++ [d]) ++ post') ((vpre ++ [rep S f.ty v]) ++ repFields S fs vs) := by
        rw [← hD, ← hV]
        intro n k hk
        by_cases hnat : f.ty = .nat ∧ f.cond = none
        · obtain ⟨k0, rfl⟩ : ∃ k0, v = .num k0 := by
            rw [hnat.1] at hb
            cases v <;> simp [encode] at hb
            exact ⟨_, rfl⟩
          rw [pushEnv_nat env f k0 hnat.1 hnat.2] at hk
          simp only [envGet?, List.find?_cons] at hk
          by_cases hname : (f.name == n) = true
          · simp only [hname, Option.map_some, Option.some.injEq] at hk
            have hname' : f.name = n := by simpa using hname
            rw [← hname', hget, fieldGoTy_nat f hnat.1 hnat.2, hnat.1, rep_nat, ← hk]
          · have hname' : (f.name == n) = false := by simpa using hname
            simp only [hname'] at hk
            exact hinv n k hk
        · rw [pushEnv_other env f v hnat] at hk
          exact hinv n k hk
      simp only [runMarshal, hm2, hg, hm1, hget, hfield]
      rw [hD, hV]
      rw [ih2 (pre ++ [d]) post' (vpre ++ [rep S f.ty v]) ms' us' b2 fuel (by simp [hl])
        (by rw [← hD]; exact hnd) hag.2 hrefs.2 hinv' hb2 (by omega)]
      rfl
  -- 31 arity mismatch
  · intro vs fields env h1 h2 pre post vpre ms us bs fuel _ _ _ _ _ he _
    exfalso
    cases fields <;> cases vs <;> first
      | (simp [encodeFields] at he; done)
      | exact h1 rfl rfl | exact h2 _ _ _ _ rfl rfl

/-- from the Bool the regenerated obligations establish -/
theorem typesAgree_of_agreeAll {S : Schema} {B : Bindings} (h : agreeAll S B = true) : TypesAgree S B := by
  intro t ht
  simp only [agreeAll, Bool.and_eq_true, List.all_eq_true] at h
  exact h.1.1 t ht

/-! ### UnmarshalTL: the matched step sequences read back exactly what `Tl.encode` wrote -/

def idsDistinct : List Decl → Bool
  | [] => true
  | d :: ds => ds.all (fun e => !(d.id == e.id)) && idsDistinct ds

theorem idsDistinct_ctorsOf (l : List Decl) (t : String) (h : noClashB l = true) :
    idsDistinct (l.filter (fun d => d.result == t)) = true := by
  induction l with
  | nil => rfl
  | cons a l ih =>
    simp only [noClashB, Bool.and_eq_true, List.all_eq_true] at h
    by_cases ha : (a.result == t) = true
    · simp only [List.filter_cons, ha, if_true, idsDistinct, Bool.and_eq_true, List.all_eq_true, ih h.2, and_true]
      intro e he
      have hem := List.mem_filter.mp he
      have := h.1 e hem.1
      have hr : a.result = e.result := by
        have h1 : a.result = t := by simpa using ha
        have h2 : e.result = t := by simpa using hem.2
        rw [h1, h2]
      simpa [idClash, hr] using this
    · have ha' : (a.result == t) = false := by simpa using ha
      simp only [List.filter_cons, ha', Bool.false_eq_true, if_false]
      exact ih h.2

/-- the `case` of the tag switch in UnmarshalTL selected by the id of constructor `d` -/
theorem find_ucase (S : Schema) (B : Bindings) : ∀ (ds : List Decl) (vs : List (String × StructDecl)) (ms : List MCase)
    (us : List UCase), agreeCases S B ds vs ms us = true → nodupB (ds.map fun d => camelGo d.ctor) = true →
    idsDistinct ds = true →
    ∀ d ∈ ds, ∃ k decl m, us.find? (fun k => k.tag == d.id) = some k ∧ k.sumType = camelGo d.ctor ∧
      k.variant = camelGo d.ctor ∧
      vs.find? (fun p => p.1 == k.variant) = some (k.variant, decl) ∧ declNamesOk decl = true ∧
      agreeFields d.fields decl m k.steps = true ∧ d.fields.all (fun f => tyRefsOk S B f.ty) = true := by
  intro ds
  induction ds with
  | nil => intro _ _ _ _ _ _ d hd; cases hd
  | cons a ds ih =>
    intro vs ms us hag hnd hid d hd
    match vs, ms, us, hag with
    | v :: vs, m :: ms, u :: us, hag =>
      simp only [agreeCases, Bool.and_eq_true, beq_iff_eq] at hag
      obtain ⟨⟨⟨⟨⟨⟨⟨⟨⟨⟨hv, hvn⟩, _⟩, _⟩, _⟩, hus⟩, huv⟩, hut⟩, haf⟩, hrefs⟩, hrest⟩ := hag
      simp only [List.map_cons] at hnd
      obtain ⟨hne, hnd'⟩ := nodupB_cons_notin _ _ hnd
      simp only [idsDistinct, Bool.and_eq_true, List.all_eq_true] at hid
      rcases List.mem_cons.mp hd with rfl | hd'
      · refine ⟨u, v.2, m.steps, by simp [hut], hus, huv, ?_, hvn, haf, hrefs⟩
        simp [huv, hv]
        rw [← hv]
      · obtain ⟨k, decl, m', hk, hks, hkv, hvf, hvn', haf', hr'⟩ := ih vs ms us hrest hnd' hid.2 d hd'
        have hne1 : (camelGo a.ctor == camelGo d.ctor) = false := hne _ (List.mem_map.mpr ⟨d, hd', rfl⟩)
        have hidne : (a.id == d.id) = false := by simpa using hid.1 d hd'
        refine ⟨k, decl, m', ?_, hks, hkv, ?_, hvn', haf', hr'⟩
        · simp [List.find?_cons, hut, hidne, hk]
        · simp [List.find?_cons, hv, hkv, hne1]
          simpa [hkv] using hvf

def zeros (post : StructDecl) : List Val := post.map fun _ => Val.absent

theorem set_at (vpre zs : List Val) (z v : Val) : (vpre ++ z :: zs).set vpre.length v = vpre ++ v :: zs := by
  induction vpre with
  | nil => rfl
  | cons a l ih => simp [ih]

theorem getD_at (pre post : StructDecl) (d : String × GoTy) : (pre ++ d :: post)[pre.length]? = some d := by
  simp

/-- assigning the field that is being read does not disturb the flags read so far -/
theorem envInv_set {env : Env} {D : StructDecl} {cur : List Val} {k : Nat} (v : Val) (hinv : EnvInv env D cur)
    (hk : cur[k]? = some .absent) : EnvInv env D (cur.set k v) := by
  intro n m hn
  have h := hinv n m hn
  unfold getField at h ⊢
  by_cases hi : fieldIdx D (camelGo n) = k
  · rw [hi, hk] at h
    cases hD : D[k]? <;> simp [hD] at h
  · rw [List.getElem?_set_ne (Ne.symm hi)]
    exact h

theorem truStep_inv {f : Field} {us : List Step} (h : truStep f us = true) :
    ∃ u us', us = u :: us' ∧ u.field = none ∧ u.guard = guardOf f := by
  cases us with
  | nil => simp [truStep] at h
  | cons u us' =>
    simp only [truStep, List.head?_cons, Bool.and_eq_true, Option.isNone_iff_eq_none, beq_iff_eq] at h
    exact ⟨u, us', rfl, h.2.1, h.2.2⟩

theorem rep_absent (S : Schema) (t : Ty) : rep S t .absent = .absent := by cases t <;> simp [rep]

theorem unmarshalGo_ptr (B : Bindings) (f : Nat) (t : GoTy) (bs : Bytes) :
    unmarshalGo B (f + 1) (.ptr t) bs = unmarshalGo B f t bs := by
  simp only [unmarshalGo]

section Unmarshal
variable (S : Schema) (B : Bindings)

def U1 (ty : Ty) (v : Val) : Prop := ∀ bs rest fuel, ty ≠ .tru → tyRefsOk S B ty = true → encode S ty v = some bs →
  3 * v.depth ≤ fuel → unmarshalGo B fuel (goTyOf ty) (bs ++ rest) = .ok (rep S ty v, rest)

def U2 (ty : Ty) (items : List Val) : Prop := ∀ bs rest fuel, ty ≠ .tru → tyRefsOk S B ty = true →
  encodeItems S ty items = some bs → 3 * depthList items ≤ fuel →
  unmarshalItems B fuel (goTyOf ty) items.length (bs ++ rest) = .ok (repItems S ty items, rest)

def U3 (fields : List Field) (env : Env) (vs : List Val) : Prop :=
  ∀ (pre post : StructDecl) (vpre : List Val) (ms us : List Step) bs rest fuel,
    vpre.length = pre.length → nodupB ((pre ++ post).map (·.1)) = true →
    agreeFields fields post ms us = true → fields.all (fun f => tyRefsOk S B f.ty) = true →
    EnvInv env (pre ++ post) (vpre ++ zeros post) →
    encodeFields S fields env vs = some bs → 3 * depthList vs + 1 ≤ fuel →
    runUnmarshal B fuel (pre ++ post) us (vpre ++ zeros post) (bs ++ rest) = .ok (vpre ++ repFields S fields vs, rest)
end Unmarshal

theorem unmarshal_all (S : Schema) (B : Bindings) (hwf : WFSchema S) (hA : TypesAgree S B) :
    (∀ ty v, U1 S B ty v) ∧ (∀ ty items, U2 S B ty items) ∧ (∀ fields env vs, U3 S B fields env vs) := by
  apply encode.mutual_induct S
  -- 1,2 nat
  · intro n hn bs rest fuel _ _ he hd
    obtain ⟨f, rfl⟩ := succ_of_pos (by simp [Val.depth] at hd; omega : 1 ≤ fuel)
    simp only [encode, hn, if_true, Option.some.injEq] at he
    subst he
    simp only [goTyOf, rep, unmarshalGo, readLE4 n rest hn]
  · intro n hn bs rest fuel _ _ he _
    simp [encode, hn] at he
  · intro n hn bs rest fuel _ _ he hd
    obtain ⟨f, rfl⟩ := succ_of_pos (by simp [Val.depth] at hd; omega : 1 ≤ fuel)
    simp only [encode, hn, if_true, Option.some.injEq] at he
    subst he
    simp only [goTyOf, rep, unmarshalGo, readLE4 n rest hn]
  · intro n hn bs rest fuel _ _ he _
    simp [encode, hn] at he
  · intro n hn bs rest fuel _ _ he hd
    obtain ⟨f, rfl⟩ := succ_of_pos (by simp [Val.depth] at hd; omega : 1 ≤ fuel)
    simp only [encode, hn, if_true, Option.some.injEq] at he
    subst he
    simp only [goTyOf, rep, unmarshalGo, readLE8 n rest hn]
  · intro n hn bs rest fuel _ _ he _
    simp [encode, hn] at he
  · intro vb hn bs rest fuel _ _ he hd
    obtain ⟨f, rfl⟩ := succ_of_pos (by simp [Val.depth] at hd; omega : 1 ≤ fuel)
    simp only [encode, hn, if_true, Option.some.injEq] at he
    subst he
    simp only [goTyOf, rep, unmarshalGo, readN_append' 32 vb rest hn]
  · intro vb hn bs rest fuel _ _ he _
    simp [encode, hn] at he
  · intro vb hn bs rest fuel _ _ he hd
    obtain ⟨f, rfl⟩ := succ_of_pos (by simp [Val.depth] at hd; omega : 1 ≤ fuel)
    simp only [encode, hn, if_true, Option.some.injEq] at he
    subst he
    simp only [goTyOf, rep, unmarshalGo, readBytes_encBytes vb rest hn]
  · intro vb hn bs rest fuel _ _ he _
    simp [encode, hn] at he
  · intro vb hn bs rest fuel _ _ he hd
    obtain ⟨f, rfl⟩ := succ_of_pos (by simp [Val.depth] at hd; omega : 1 ≤ fuel)
    simp only [encode, hn, if_true, Option.some.injEq] at he
    subst he
    simp only [goTyOf, rep, unmarshalGo, readBytes_encBytes vb rest hn]
  · intro vb hn bs rest fuel _ _ he _
    simp [encode, hn] at he
  -- 13 bool
  · intro b bs rest fuel _ _ he hd
    obtain ⟨f, rfl⟩ := succ_of_pos (by simp [Val.depth] at hd; omega : 1 ≤ fuel)
    simp only [encode, Option.some.injEq] at he
    subst he
    cases b
    · simp only [goTyOf, rep, unmarshalGo, Bool.false_eq_true, if_false, readLE4 boolFalseId rest (by decide)]
      simp [boolFalseId, boolTrueId]
    · simp only [goTyOf, rep, unmarshalGo, if_true, readLE4 boolTrueId rest (by decide)]
  -- 14 true
  · intro bs rest fuel hnt _ he hd
    exact absurd rfl hnt
  -- 15,16 bare
  · intro c fs d hc ih bs rest fuel hnt href he hd
    obtain ⟨f, rfl⟩ := succ_of_pos (by simp [Val.depth] at hd; omega : 1 ≤ fuel)
    have hdm : d ∈ S.types := List.mem_of_find?_eq_some hc
    have hdc : d.ctor = c := by have := List.find?_some hc; simpa using this
    simp only [tyRefsOk, hc, beq_iff_eq] at href
    obtain ⟨m, hf, hag⟩ := bare_binding hA hdm href
    simp only [agreeMethod, Bool.and_eq_true] at hag
    simp only [encode, hc] at he
    simp only [Val.depth] at hd
    rw [hdc] at hf
    have := ih [] m.fields [] m.marshal m.unmarshal bs rest f rfl (by simpa [declNamesOk] using hag.1.1) hag.1.2 hag.2
      (by intro n k hk; simp [envGet?] at hk) he (by omega)
    simp only [List.nil_append, zeros] at this
    simp only [goTyOf, rep, hc, unmarshalGo, hf, zeroStruct, this]
  · intro c fs hc bs rest fuel _ _ he _
    simp [encode, hc] at he
  -- 17,18 boxed
  · intro t c fs d hc ih bs rest fuel hnt href he hd
    obtain ⟨f, rfl⟩ := succ_of_pos (by simp [Val.depth] at hd; omega : 1 ≤ fuel)
    have hdm : d ∈ S.types := List.mem_of_find?_eq_some hc
    have hdp := List.find?_some hc
    simp only [Bool.and_eq_true, beq_iff_eq] at hdp
    obtain ⟨hdr, hdc⟩ := hdp
    have hid := id_lt_of_ctorOf S hwf t c d hc
    simp only [encode, hc] at he
    obtain ⟨b, hb, rfl⟩ := map_append_eq_some he
    simp only [Val.depth] at hd
    by_cases h1 : (S.ctorsOf t).length = 1
    · have h1' : (S.ctorsOf d.result).length = 1 := by rw [hdr]; exact h1
      have hcs := ctorsOf_single hdm h1'
      rw [hdr] at hcs
      simp only [tyRefsOk, hcs] at href
      cases hft : B.find (camelGo t) with
      | none => simp [hft] at href
      | some bd =>
        cases bd with
        | simple m => simp [hft] at href
        | sum s => simp [hft] at href
        | tagged tag inner =>
          obtain ⟨htag, hinner⟩ := tagged_binding hA hdm h1' tag inner (by rw [hdr]; exact hft)
          obtain ⟨m, hf, hag⟩ := bare_binding hA hdm h1'
          simp only [agreeMethod, Bool.and_eq_true] at hag
          obtain ⟨f, rfl⟩ := succ_of_pos (by omega : 1 ≤ f)
          have := ih [] m.fields [] m.marshal m.unmarshal b rest f rfl (by simpa [declNamesOk] using hag.1.1) hag.1.2 hag.2
            (by intro n k hk; simp [envGet?] at hk) hb (by omega)
          simp only [List.nil_append, zeros] at this
          simp only [goTyOf, rep, hc, h1, beq_self_eq_true, if_true, unmarshalGo, hft, List.append_assoc,
            readLE4 d.id _ hid, htag, hinner, hf, zeroStruct, this]
    · have ht : t ∈ typeNames S := by rw [← hdr]; exact result_mem_typeNames S d hdm
      obtain ⟨s, hfs, hcases, hnd⟩ := sum_binding hA t ht h1
      have hmem : d ∈ S.ctorsOf t := by simp [Schema.ctorsOf, hdm, hdr]
      have hidd : idsDistinct (S.ctorsOf t) = true := by
        unfold WFSchema wfSchemaB at hwf
        simp only [Bool.and_eq_true] at hwf
        exact idsDistinct_ctorsOf S.types t hwf.1.1.1.1
      obtain ⟨k, decl, m', hk, hks, hkv, hvf, hvn, haf, hrefs⟩ := find_ucase S B _ _ _ _ hcases hnd hidd d hmem
      have := ih [] decl [] m' k.steps b rest f rfl (by simpa [declNamesOk] using hvn) haf hrefs
        (by intro n k hk; simp [envGet?] at hk) hb (by omega)
      simp only [List.nil_append, zeros] at this
      have h1b : ((S.ctorsOf t).length == 1) = false := by simpa using h1
      simp only [goTyOf, rep, hc, h1b, Bool.false_eq_true, if_false, unmarshalGo, hfs, List.append_assoc,
        readLE4 d.id _ hid, hk, hvf, zeroStruct, this, hks]
  · intro t c fs hc bs rest fuel _ _ he _
    simp [encode, hc] at he
  -- 19,20 vector
  · intro t items hl ih bs rest fuel hnt href he hd
    obtain ⟨f, rfl⟩ := succ_of_pos (by simp [Val.depth] at hd; omega : 1 ≤ fuel)
    simp only [encode, hl, if_true] at he
    obtain ⟨b, hb, rfl⟩ := map_append_eq_some he
    simp only [Val.depth] at hd
    simp only [tyRefsOk, Bool.and_eq_true, bne_iff_ne, ne_eq] at href
    simp only [goTyOf, rep, unmarshalGo, List.append_assoc, readLE4 items.length _ hl,
      ih b rest f href.1 href.2 hb (by omega)]
  · intro t items hl bs rest fuel _ _ he _
    simp [encode, hl] at he
  -- 21 mismatch
  · intro v t h1 h2 h3 h4 h5 h6 h7 h8 h9 h10 h11 bs rest fuel _ _ he hd
    exfalso
    cases t <;> cases v <;> first
      | (simp [encode] at he; done)
      | exact h1 _ rfl rfl | exact h2 _ rfl rfl | exact h3 _ rfl rfl | exact h4 _ rfl rfl | exact h5 _ rfl rfl
      | exact h6 _ rfl rfl | exact h7 _ rfl rfl | exact h8 rfl rfl | exact h9 _ _ rfl rfl | exact h10 _ _ _ rfl rfl
      | exact h11 _ _ rfl rfl
  -- 22 items nil
  · intro t bs rest fuel _ _ he _
    simp only [encodeItems, Option.some.injEq] at he
    subst he
    simp only [List.length_nil, repItems, unmarshalItems, List.nil_append]
  -- 23
  · intro t v vs hn ih bs rest fuel _ _ he _
    simp [encodeItems, hn] at he
  -- 24
  · intro t v vs b hb ih1 ih2 bs rest fuel hnt href he hd
    simp only [encodeItems, hb] at he
    obtain ⟨b2, hb2, rfl⟩ := map_append_eq_some he
    simp only [depthList] at hd
    simp only [List.length_cons, repItems, unmarshalItems, List.append_assoc,
      ih1 b (b2 ++ rest) fuel hnt href hb (by omega), ih2 b2 rest fuel hnt href hb2 (by omega)]
  -- 25 fields nil
  · intro env pre post vpre ms us bs rest fuel _ _ hag _ _ he _
    simp only [encodeFields, Option.some.injEq] at he
    subst he
    simp only [agreeFields, Bool.and_eq_true, List.isEmpty_iff] at hag
    obtain ⟨⟨rfl, rfl⟩, rfl⟩ := hag
    simp [runUnmarshal, zeros, repFields]
  -- 26 present none
  · intro f fs env v vs hp pre post vpre ms us bs rest fuel _ _ _ _ _ he _
    simp [encodeFields, hp] at he
  -- 27 flag clear, value absent
  · intro f fs env vs hp ih pre post vpre ms us bs rest fuel hl hnd hag hrefs hinv he hfuel
    simp only [encodeFields, hp] at he
    simp only [depthList] at hfuel
    simp only [List.all_cons, Bool.and_eq_true] at hrefs
    by_cases ht : f.ty = .tru
    · simp only [agreeFields, ht, if_true, Bool.and_eq_true] at hag
      obtain ⟨u, us', rfl, hu1, hu2⟩ := truStep_inv hag.1
      have hg := guard_of_present hinv f false hp
      simp only [repFields, ht, if_true, runUnmarshal, hu2, hg]
      exact ih pre post vpre ms us' bs rest fuel hl hnd hag.2 hrefs.2 hinv he (by omega)
    · simp only [agreeFields, ht, if_false, Bool.and_eq_true] at hag
      obtain ⟨d, post', m, ms', u, us', rfl, rfl, rfl, hone⟩ := plainStep_inv hag.1
      simp only [agreeOne, Bool.and_eq_true, beq_iff_eq] at hone
      obtain ⟨⟨⟨⟨⟨hd1, hd2⟩, _⟩, _⟩, hu1⟩, hu2⟩ := hone
      have hg := guard_of_present hinv f false hp
      have hD : pre ++ d :: post' = (pre ++ [d]) ++ post' := by simp
      have hZ : vpre ++ zeros (d :: post') = (vpre ++ [Val.absent]) ++ zeros post' := by simp [zeros]
      simp only [repFields, ht, if_false, rep_absent, runUnmarshal, hu2, hg]
      have hV : vpre ++ Val.absent :: repFields S fs vs = (vpre ++ [Val.absent]) ++ repFields S fs vs := by simp
      rw [hD, hZ, hV]
      exact ih (pre ++ [d]) post' (vpre ++ [Val.absent]) ms' us' bs rest fuel (by simp [hl])
        (by rw [← hD]; exact hnd) hag.2 hrefs.2 (by rw [← hD, ← hZ]; exact hinv) he (by omega)
  -- 28
  · intro f fs env v vs hp hv pre post vpre ms us bs rest fuel _ _ _ _ _ he _
    exfalso
    cases v <;> first | (simp [encodeFields, hp] at he; done) | exact hv rfl
  -- 29
  · intro f fs env v vs hp hn ih pre post vpre ms us bs rest fuel _ _ _ _ _ he _
    simp [encodeFields, hp, hn] at he
  -- 30 present, value encodes
  · intro f fs env v vs hp b hb ih1 ih2 pre post vpre ms us bs rest fuel hl hnd hag hrefs hinv he hfuel
    simp only [encodeFields, hp, hb] at he
    obtain ⟨b2, hb2, rfl⟩ := map_append_eq_some he
    simp only [depthList] at hfuel
    simp only [List.all_cons, Bool.and_eq_true] at hrefs
    have hg := guard_of_present hinv f true hp
    by_cases ht : f.ty = .tru
    · simp only [agreeFields, ht, if_true, Bool.and_eq_true] at hag
      obtain ⟨u, us', rfl, hu1, hu2⟩ := truStep_inv hag.1
      have hb' : b = [] := by
        rw [ht] at hb
        cases v <;> simp [encode] at hb
        exact hb
      have hpush : pushEnv env f v = env := by simp [pushEnv, ht]
      rw [hpush] at ih2 hb2
      simp only [repFields, ht, if_true, runUnmarshal, hu2, hg, hu1, hb', List.nil_append]
      exact ih2 pre post vpre ms us' b2 rest fuel hl hnd hag.2 hrefs.2 hinv hb2 (by omega)
    · simp only [agreeFields, ht, if_false, Bool.and_eq_true] at hag
      obtain ⟨d, post', m, ms', u, us', rfl, rfl, rfl, hone⟩ := plainStep_inv hag.1
      simp only [agreeOne, Bool.and_eq_true, beq_iff_eq] at hone
      obtain ⟨⟨⟨⟨⟨hd1, hd2⟩, _⟩, _⟩, hu1⟩, hu2⟩ := hone
      have hnotin : ∀ p ∈ pre, (p.1 == d.1) = false := by
        have := nodupB_mid (pre.map (·.1)) (post'.map (·.1)) d.1 (by simpa using hnd)
        intro p hp'
        exact this p.1 (List.mem_map.mpr ⟨p, hp', rfl⟩)
      have hidx : fieldIdx (pre ++ d :: post') (camelGo f.name) = pre.length := by
        rw [← hd1]; exact fieldIdx_at pre post' d hnotin
      have hread : unmarshalGo B fuel (fieldGoTy f) (b ++ (b2 ++ rest)) = .ok (rep S f.ty v, b2 ++ rest) := by
        rcases fieldGoTy_cases f with h | h
        · rw [h]; exact ih1 b (b2 ++ rest) fuel ht hrefs.1 hb (by omega)
        · rw [h]
          obtain ⟨F, rfl⟩ := succ_of_pos (by omega : 1 ≤ fuel)
          rw [unmarshalGo_ptr]
          exact ih1 b (b2 ++ rest) F ht hrefs.1 hb (by omega)
      have hcur : vpre ++ zeros (d :: post') = vpre ++ Val.absent :: zeros post' := by simp [zeros]
      have hset : setField (pre ++ d :: post') (vpre ++ zeros (d :: post')) (camelGo f.name) (rep S f.ty v) =
          (vpre ++ [rep S f.ty v]) ++ zeros post' := by
        rw [setField, hidx, hcur, ← hl, set_at]; simp
      have hD : pre ++ d :: post' = (pre ++ [d]) ++ post' := by simp
      have hV : vpre ++ rep S f.ty v :: repFields S fs vs = (vpre ++ [rep S f.ty v]) ++ repFields S fs vs := by simp
      -- the flags after this field, in the struct after the assignment
      have hinv' : EnvInv (pushEnv env f v) ((pre ++ [d]) ++ post') ((vpre ++ [rep S f.ty v]) ++ zeros post') := by
        have hk : (vpre ++ zeros (d :: post'))[pre.length]? = some Val.absent := by
          rw [hcur, ← hl]; simp
        have hbase := envInv_set (k := pre.length) (rep S f.ty v) hinv hk
        rw [hcur, ← hl, set_at] at hbase
        rw [← hD]
        have hcur2 : (vpre ++ [rep S f.ty v]) ++ zeros post' = vpre ++ rep S f.ty v :: zeros post' := by simp
        rw [hcur2]
        intro n k hk'
        by_cases hnat : f.ty = .nat ∧ f.cond = none
        · obtain ⟨k0, rfl⟩ : ∃ k0, v = .num k0 := by
            rw [hnat.1] at hb
            cases v <;> simp [encode] at hb
            exact ⟨_, rfl⟩
          rw [pushEnv_nat env f k0 hnat.1 hnat.2] at hk'
          simp only [envGet?, List.find?_cons] at hk'
          by_cases hname : (f.name == n) = true
          · simp only [hname, Option.map_some, Option.some.injEq] at hk'
            have hname' : f.name = n := by simpa using hname
            rw [← hname', ← hd1]
            rw [getField_at pre post' d vpre _ _ hnotin hl, hd2, fieldGoTy_nat f hnat.1 hnat.2, hnat.1, rep_nat, ← hk']
          · have hname' : (f.name == n) = false := by simpa using hname
            simp only [hname'] at hk'
            exact hbase n k hk'
        · rw [pushEnv_other env f v hnat] at hk'
          exact hbase n k hk'
      simp only [repFields, ht, if_false, runUnmarshal, hu2, hg, hu1, hidx, getD_at, hd2]
      rw [List.append_assoc b b2 rest, hread]
      simp only []
      rw [hset, hD, hV]
      exact ih2 (pre ++ [d]) post' (vpre ++ [rep S f.ty v]) ms' us' b2 rest fuel (by simp [hl])
        (by rw [← hD]; exact hnd) hag.2 hrefs.2 hinv' hb2 (by omega)
  -- 31 arity mismatch
  · intro vs fields env h1 h2 pre post vpre ms us bs rest fuel _ _ _ _ _ he _
    exfalso
    cases fields <;> cases vs <;> first
      | (simp [encodeFields] at he; done)
      | exact h1 rfl rfl | exact h2 _ _ _ _ rfl rfl
/-! ### whole methods, request wrappers, answers, decoder table -/

theorem envInv_nil (D : StructDecl) (V : List Val) : EnvInv [] D V := by
  intro n m h
  simp [envGet?] at h

/-- the body of a generated MarshalTL that matches the declaration writes exactly `encodeFields` -/
theorem method_marshal {S : Schema} {B : Bindings} (hA : TypesAgree S B) {d : Decl} {m : Method}
    (hm : agreeMethod S B d m = true) (vs : List Val) (bs : Bytes) (fuel : Nat)
    (henc : encodeFields S d.fields [] vs = some bs) (hfuel : 3 * depthList vs + 1 ≤ fuel) :
    runMarshal B fuel m.fields m.marshal (repFields S d.fields vs) = some bs := by
  simp only [agreeMethod, declNamesOk, Bool.and_eq_true] at hm
  have h := (marshal_all S B hA).2.2 d.fields [] vs [] m.fields [] m.marshal m.unmarshal bs fuel rfl
    (by simpa using hm.1.1) hm.1.2 hm.2 (envInv_nil _ _) henc hfuel
  simpa using h

/-- the body of a generated UnmarshalTL that matches the declaration reads back what `encodeFields` wrote -/
theorem method_unmarshal {S : Schema} {B : Bindings} (hwf : WFSchema S) (hA : TypesAgree S B) {d : Decl} {m : Method}
    (hm : agreeMethod S B d m = true) (vs : List Val) (bs rest : Bytes) (fuel : Nat)
    (henc : encodeFields S d.fields [] vs = some bs) (hfuel : 3 * depthList vs + 1 ≤ fuel) :
    runUnmarshal B fuel m.fields m.unmarshal (zeroStruct m.fields) (bs ++ rest) = .ok (repFields S d.fields vs, rest) := by
  simp only [agreeMethod, declNamesOk, Bool.and_eq_true] at hm
  have h := (unmarshal_all S B hwf hA).2.2 d.fields [] vs [] m.fields [] m.marshal m.unmarshal bs rest fuel rfl
    (by simpa using hm.1.1) hm.1.2 hm.2 (envInv_nil _ _) henc hfuel
  simpa [zeros, zeroStruct] using h

theorem unmarshalGo_named_simple (B : Bindings) (f : Nat) (n : String) (m : Method) (bs : Bytes)
    (hf : B.find n = some (.simple m)) :
    unmarshalGo B (f + 1) (.named n) bs =
      match runUnmarshal B f m.fields m.unmarshal (zeroStruct m.fields) bs with
      | .ok (vals, r) => .ok (.tuple vals, r)
      | .err e => .err e
      | .panic p => .panic p := by
  simp only [unmarshalGo, hf]
  generalize runUnmarshal B f m.fields m.unmarshal (zeroStruct m.fields) bs = o
  rcases o with ⟨v, r⟩ | e | p <;> rfl


theorem funcId_lt (S : Schema) (hwf : WFSchema S) (f : String) (d : Decl) (hf : S.func? f = some d) : d.id < 2 ^ 32 := by
  have hm := List.mem_of_find?_eq_some hf
  unfold WFSchema wfSchemaB at hwf
  simp only [Bool.and_eq_true, List.all_eq_true] at hwf
  have := hwf.1.2 d hm
  simp only [declOkB, Bool.and_eq_true, decide_eq_true_eq] at this
  exact this.1

theorem func_binding {S : Schema} {B : Bindings} (h : agreeAll S B = true) {f : String} {d : Decl}
    (hf : S.func? f = some d) : agreeFunc S B (errorIdOf S) d = true := by
  simp only [agreeAll, Bool.and_eq_true, List.all_eq_true] at h
  have hm := List.mem_of_find?_eq_some hf
  have hc : d.ctor = f := by simpa using List.find?_some hf
  have := h.1.2 d hm
  simpa only [agreeFuncN, hc, hf] using this

/-- the pieces of `agreeFunc` -/
theorem func_pieces {S : Schema} {B : Bindings} {errId : Nat} {d : Decl} (h : agreeFunc S B errId d = true) :
    (∃ mm, B.find (camelGo d.ctor ++ "Request") = some (.simple mm) ∧ agreeMethod S B d mm = true) ∧
    (∃ m, B.methods.find? (fun m => m.name == camelGo d.ctor) = some m ∧ m.requestId = d.id ∧ m.errorTag = errId ∧
      m.request = (if d.fields.isEmpty then none else some (camelGo d.ctor ++ "Request")) ∧
      (∀ c, S.ctorsOf d.result = [c] → m.result = camelGo c.ctor ++ "C" ∧ m.resultTag = some c.id) ∧
      ((∀ c, S.ctorsOf d.result ≠ [c]) → m.result = camelGo d.result ∧ m.resultTag = none)) ∧
    (∃ e, B.decoders.find? (fun e => e.key == d.id) = some e ∧ e.tag = d.id ∧ e.tlName = d.ctor ∧
      e.goType = camelGo d.ctor ++ "Request") := by
  simp only [agreeFunc, agreeFuncG, Bool.and_eq_true] at h
  obtain ⟨⟨h1, h2⟩, h3⟩ := h
  refine ⟨?_, ?_, ?_⟩
  · cases hb : B.find (camelGo d.ctor ++ "Request") with
    | none => simp [hb] at h1
    | some b =>
      cases b with
      | simple mm => simp only [hb] at h1; exact ⟨mm, rfl, h1⟩
      | sum s => simp [hb] at h1
      | tagged a b => simp [hb] at h1
  · cases hm : B.methods.find? (fun m => m.name == camelGo d.ctor) with
    | none => simp [hm] at h2
    | some m =>
      simp only [hm, Bool.and_eq_true, beq_iff_eq] at h2
      refine ⟨m, rfl, h2.1.1.1, h2.1.1.2, h2.1.2, ?_, ?_⟩
      · intro c hcs
        have h4 := h2.2
        rw [hcs] at h4
        simpa using h4
      · intro hno
        have h4 := h2.2
        split at h4
        · rename_i c hcs; exact absurd hcs (hno c)
        · simpa using h4
  · cases he : B.decoders.find? (fun e => e.key == d.id) with
    | none => simp [he] at h3
    | some e =>
      simp only [he, Bool.and_eq_true, beq_iff_eq] at h3
      exact ⟨e, rfl, h3.1.1, h3.1.2, h3.2⟩

/-- **requests**: the payload built by the generated client method of function `f` is `encodeRequest S f ps` -/
theorem client_request_eq {S : Schema} {B : Bindings} (hA : agreeAll S B = true) (f : String) (d : Decl)
    (hf : S.func? f = some d) (ps : List Val) (bs : Bytes) (fuel : Nat)
    (henc : encodeRequest S f ps = some bs) (hfuel : 3 * depthList ps + 2 ≤ fuel) :
    ∃ m, B.methods.find? (fun m => m.name == camelGo f) = some m ∧
      clientRequest B fuel m (.tuple (repFields S d.fields ps)) = some bs := by
  have hc : d.ctor = f := by simpa using List.find?_some hf
  obtain ⟨⟨mm, hmm, hag⟩, ⟨m, hm, hid, _, hreq, _, _⟩, _⟩ := func_pieces (func_binding hA hf)
  rw [hc] at hm
  refine ⟨m, hm, ?_⟩
  simp only [encodeRequest, hf] at henc
  obtain ⟨b, hb, rfl⟩ := map_append_eq_some henc
  by_cases hemp : d.fields = []
  · simp only [hemp, List.isEmpty_nil, if_true] at hreq
    rw [hemp] at hb
    have : b = [] := by cases ps <;> simp [encodeFields] at hb; exact hb
    simp [clientRequest, hreq, hid, this]
  · have hne : d.fields.isEmpty = false := by cases hd : d.fields <;> simp_all
    simp only [hne] at hreq
    obtain ⟨F, rfl⟩ := succ_of_pos (by omega : 1 ≤ fuel)
    simp only [clientRequest, hreq, Bool.false_eq_true, if_false, marshalGo_named_tuple, hmm, hid,
      method_marshal (typesAgree_of_agreeAll hA) hag ps b F hb (by omega), Option.map_some]

/-- **request decoder table**: the table entry selected by the leading id of `encodeRequest S f ps` carries that id and
the name `f`, and its struct's UnmarshalTL returns the parameters -/
theorem decoder_table_eq {S : Schema} {B : Bindings} (hwf : WFSchema S) (hA : agreeAll S B = true) (f : String) (d : Decl)
    (hf : S.func? f = some d) (ps : List Val) (bs rest : Bytes) (fuel : Nat)
    (henc : encodeRequest S f ps = some bs) (hfuel : 3 * depthList ps + 2 ≤ fuel) :
    decoderTable B fuel (bs ++ rest) = .ok (d.id, some (f, .tuple (repFields S d.fields ps))) := by
  have hc : d.ctor = f := by simpa using List.find?_some hf
  obtain ⟨⟨mm, hmm, hag⟩, _, ⟨e, he, h1, h2, h3⟩⟩ := func_pieces (func_binding hA hf)
  subst hc
  simp only [encodeRequest, hf] at henc
  obtain ⟨b, hb, rfl⟩ := map_append_eq_some henc
  obtain ⟨F, rfl⟩ := succ_of_pos (by omega : 1 ≤ fuel)
  simp only [decoderTable, List.append_assoc, readLE4 d.id _ (funcId_lt S hwf _ d hf), he, h3,
    unmarshalGo_named_simple B F _ mm _ hmm,
    method_unmarshal hwf (typesAgree_of_agreeAll hA) hag ps b rest F hb (by omega), h1, h2, ne_eq, not_true_eq_false, if_false]

theorem errorIdOf_eq {S : Schema} {e : Decl} (he : S.ctor? errorCtor = some e) : errorIdOf S = e.id := by
  simp only [errorCtor] at he
  simp [errorIdOf, he]

theorem errorStruct_name : camelGo errorCtor ++ "C" = errorStruct := by decide

theorem mem_ctorsOf_of_ctorOf {S : Schema} {t c : String} {cd : Decl} (h : S.ctorOf? t c = some cd) :
    cd ∈ S.types ∧ cd.result = t ∧ cd ∈ S.ctorsOf t := by
  have h1 := List.mem_of_find?_eq_some h
  have h2 := List.find?_some h
  simp only [Bool.and_eq_true, beq_iff_eq] at h2
  exact ⟨h1, h2.1, by simp [Schema.ctorsOf, h1, h2.1]⟩

/-- **answers**: what the generated client method of `f` makes of (1) the encoding of a value of the result type,
(2) the encoding of a `liteServer.error` -/
theorem client_answer_eq {S : Schema} {B : Bindings} (hwf : WFSchema S) (hA : agreeAll S B = true) (f : String) (d e : Decl)
    (hf : S.func? f = some d) (he : S.ctor? errorCtor = some e) (herr : tyRefsOk S B (.bare errorCtor) = true)
    (fuel : Nat) (rest : Bytes) :
    ∃ m, B.methods.find? (fun m => m.name == camelGo f) = some m ∧
      (∀ c fs bs, encode S (.boxed d.result) (.sum c fs) = some bs → 3 * depthList fs + 5 ≤ fuel →
        (∀ cd, S.ctorOf? d.result c = some cd → cd.id ≠ e.id) →
        clientAnswer B fuel m (bs ++ rest) = .ok (.result (rep S (.boxed d.result) (.sum c fs)))) ∧
      (∀ evs eb, encodeFields S e.fields [] evs = some eb → 3 * depthList evs + 5 ≤ fuel →
        clientAnswer B fuel m (le 4 e.id ++ eb ++ rest) = .ok (.serverError (.tuple (repFields S e.fields evs)))) := by
  have hc : d.ctor = f := by simpa using List.find?_some hf
  have hTA := typesAgree_of_agreeAll hA
  obtain ⟨_, ⟨m, hm, _, herrTag, _, hres1, hresN⟩, _⟩ := func_pieces (func_binding hA hf)
  rw [hc] at hm
  rw [errorIdOf_eq he] at herrTag
  refine ⟨m, hm, ?_, ?_⟩
  · intro c fs bs henc hfuel hne
    have hU := (unmarshal_all S B hwf hTA).1 (.boxed d.result) (.sum c fs) bs rest fuel (by simp)
    simp only [encode] at henc
    cases hcd : S.ctorOf? d.result c with
    | none => simp [hcd] at henc
    | some cd =>
      simp only [hcd] at henc
      obtain ⟨b, hb, rfl⟩ := map_append_eq_some henc
      obtain ⟨hmem, hres', hmemc⟩ := mem_ctorsOf_of_ctorOf hcd
      have hid := id_lt_of_mem S hwf cd hmem
      have hne' : ¬ cd.id = m.errorTag := by rw [herrTag]; exact hne cd hcd
      by_cases hone : ∃ c0, S.ctorsOf d.result = [c0]
      · obtain ⟨c0, hcs⟩ := hone
        have hres := hres1 c0 hcs
        rw [hcs] at hmemc
        have : cd = c0 := by simpa using hmemc
        subst this
        have h1 : (S.ctorsOf cd.result).length = 1 := by rw [hres', hcs]; rfl
        obtain ⟨mm, hmm, hag⟩ := bare_binding hTA hmem h1
        obtain ⟨F, rfl⟩ := succ_of_pos (by omega : 1 ≤ fuel)
        have hlen : ((S.ctorsOf d.result).length == 1) = true := by rw [hcs]; rfl
        simp only [clientAnswer, List.append_assoc, readLE4 cd.id _ hid, hne', if_false, hres.2, hres.1, if_true,
          unmarshalGo_named_simple B F _ mm _ hmm,
          method_unmarshal hwf hTA hag fs b rest F hb (by omega), rep, hcd, hlen]
      · have hnot : ∀ c0, S.ctorsOf d.result ≠ [c0] := fun c0 h => hone ⟨c0, h⟩
        have hres := hresN hnot
        have hrefs : tyRefsOk S B (.boxed d.result) = true := by
          simp only [tyRefsOk]
          split
          · rename_i h0; rw [h0] at hmemc; simp at hmemc
          · rename_i x h0; exact absurd h0 (hnot x)
          · rfl
        have hU' := hU hrefs (by simp only [encode, hcd, hb, Option.map_some])
          (by simp only [Val.depth]; have := Val.depth_pos (.tuple fs); omega)
        simp only [goTyOf] at hU'
        simp only [clientAnswer, List.append_assoc, readLE4 cd.id _ hid, hne', if_false, hres.2, hres.1]
        simp only [List.append_assoc] at hU'
        simp only [hU']
  · intro evs eb henc hfuel
    have hmem := List.mem_of_find?_eq_some he
    have hec : e.ctor = errorCtor := by simpa using List.find?_some he
    have h1 : (S.ctorsOf e.result).length = 1 := by
      simp only [tyRefsOk, he, beq_iff_eq] at herr; exact herr
    obtain ⟨mm, hmm, hag⟩ := bare_binding hTA hmem h1
    rw [hec, errorStruct_name] at hmm
    obtain ⟨F, rfl⟩ := succ_of_pos (by omega : 1 ≤ fuel)
    simp only [clientAnswer, List.append_assoc, readLE4 e.id _ (id_lt_of_mem S hwf e hmem), herrTag, if_true,
      unmarshalGo_named_simple B F _ mm _ hmm, method_unmarshal hwf hTA hag evs eb rest F henc (by omega)]

end Tongo.Tl.Bind
