import TongoModel.Tl.BindingsMatch
import TongoProofs.Lemmas.TlRoundtrip
/-! `steps_eq_schema`: bindings accepted by the matcher compute the schema semantics. Core Lean only. -/
namespace Tongo.Tl.Bind
open Tongo Tongo.Tl

/-! ### lists of struct fields -/

theorem fieldIdx_at (pre post : StructDecl) (d : String × GoTy) (h : ∀ p ∈ pre, (p.1 == d.1) = false) :
    fieldIdx (pre ++ d :: post) d.1 = pre.length := by
  induction pre with
  | nil => simp [fieldIdx, List.findIdx_cons]
  | cons a pre ih =>
    have ha := h a (List.mem_cons_self ..)
    have ih' := ih (fun p hp => h p (List.mem_cons_of_mem _ hp))
    simp only [fieldIdx] at ih' ⊢
    simp [List.findIdx_cons, ha, ih']

theorem getField_at (pre post : StructDecl) (d : String × GoTy) (vpre vpost : List Val) (v : Val)
    (h : ∀ p ∈ pre, (p.1 == d.1) = false) (hl : vpre.length = pre.length) :
    getField (pre ++ d :: post) (vpre ++ v :: vpost) d.1 = some (d.2, v) := by
  simp [getField, fieldIdx_at pre post d h, ← hl]

theorem mem_dedupNames (l : List String) (x : String) (h : x ∈ l) : x ∈ dedupNames l := by
  induction l with
  | nil => cases h
  | cons a l ih =>
    simp only [dedupNames, List.mem_cons, List.mem_filter]
    rcases List.mem_cons.mp h with rfl | h
    · exact Or.inl rfl
    · by_cases hx : x = a
      · exact Or.inl hx
      · exact Or.inr ⟨ih h, by simpa using hx⟩

theorem result_mem_typeNames (S : Schema) (d : Decl) (h : d ∈ S.types) : d.result ∈ typeNames S :=
  mem_dedupNames _ _ (List.mem_map.mpr ⟨d, h, rfl⟩)

theorem nodupB_cons_notin (x : String) (xs : List String) (h : nodupB (x :: xs) = true) :
    (∀ y ∈ xs, (x == y) = false) ∧ nodupB xs = true := by
  simp only [nodupB, Bool.and_eq_true, Bool.not_eq_true'] at h
  refine ⟨fun y hy => ?_, h.2⟩
  by_cases hxy : x = y
  · subst hxy
    have : xs.contains x = true := by simpa using hy
    rw [this] at h; simp at h
  · simpa using hxy

theorem nodupB_mid (a b : List String) (x : String) (h : nodupB (a ++ x :: b) = true) :
    ∀ y ∈ a, (y == x) = false := by
  induction a with
  | nil => intro y hy; cases hy
  | cons c a ih =>
    obtain ⟨h1, h2⟩ := nodupB_cons_notin c (a ++ x :: b) h
    intro y hy
    rcases List.mem_cons.mp hy with rfl | hy
    · exact h1 x (by simp)
    · exact ih h2 y hy

/-- the flags seen so far (schema side) are readable from the struct (Go side) -/
def EnvInv (env : Env) (D : StructDecl) (V : List Val) : Prop :=
  ∀ n m, envGet? env n = some m → getField D V (camelGo n) = some (.u32, .num m)

theorem envGet_push (env : Env) (f : Field) (v : Val) (n : String) :
    envGet? (pushEnv env f v) n =
      (match f.ty, f.cond, v with
       | .nat, none, .num k => if f.name == n then some k else envGet? env n
       | _, _, _ => envGet? env n) := by
  unfold pushEnv
  split <;> simp_all [envGet?, List.find?_cons]
  split <;> simp_all

theorem guard_of_present {env : Env} {D : StructDecl} {V : List Val} (hinv : EnvInv env D V) (f : Field) (b : Bool)
    (hp : present? env f.cond = some b) : guardHolds D V (guardOf f) = some b := by
  unfold guardOf
  cases hc : f.cond with
  | none => simp [hc, present?] at hp; simp [guardHolds, ← hp]
  | some p =>
    obtain ⟨flag, bit⟩ := p
    simp only [hc, present?, Option.map_eq_some_iff] at hp
    obtain ⟨m, hm, rfl⟩ := hp
    simp [guardHolds, hinv flag m hm]

theorem rep_ne_absent (S : Schema) (t : Ty) (v : Val) (b : Bytes) (h : encode S t v = some b) : rep S t v ≠ .absent := by
  cases t <;> cases v <;> simp [encode] at h <;> simp [rep]
  all_goals (try split) <;> simp_all
  all_goals (try split) <;> simp_all

/-! ### what the matcher gives for a referenced type -/

/-- the whole of generated.go matches the whole schema (the types part of `agreeAll`) -/
def TypesAgree (S : Schema) (B : Bindings) : Prop := ∀ t, t ∈ typeNames S → agreeType S B t = true

theorem ctorsOf_single {S : Schema} {d : Decl} (hd : d ∈ S.types) (h1 : (S.ctorsOf d.result).length = 1) :
    S.ctorsOf d.result = [d] := by
  have hm : d ∈ S.ctorsOf d.result := by simp [Schema.ctorsOf, hd]
  match hl : S.ctorsOf d.result, h1, hm with
  | [x], _, hm => simp at hm; rw [hm]

/-- F1: a single-constructor type has the struct `<Ctor>C` with agreeing methods -/
theorem bare_binding {S : Schema} {B : Bindings} (hA : TypesAgree S B) {d : Decl} (hd : d ∈ S.types)
    (h1 : (S.ctorsOf d.result).length = 1) :
    ∃ m, B.find (camelGo d.ctor ++ "C") = some (.simple m) ∧ agreeMethod S B d m = true := by
  have h := hA d.result (result_mem_typeNames S d hd)
  have hc := ctorsOf_single hd h1
  simp only [agreeType, agreeTypeG, bareNameOf, hc, Bool.and_eq_true] at h
  cases hf : B.find (camelGo d.ctor ++ "C") with
  | none => simp [hf] at h
  | some b =>
    cases b with
    | simple m => simp only [hf] at h; exact ⟨m, rfl, h.1⟩
    | sum s => simp [hf] at h
    | tagged a b => simp [hf] at h

/-- F2: the hand-written boxed wrapper of a single-constructor type carries that constructor's id and struct -/
theorem tagged_binding {S : Schema} {B : Bindings} (hA : TypesAgree S B) {d : Decl} (hd : d ∈ S.types)
    (h1 : (S.ctorsOf d.result).length = 1) (tag : Nat) (inner : String)
    (hf : B.find (camelGo d.result) = some (.tagged tag inner)) : tag = d.id ∧ inner = camelGo d.ctor ++ "C" := by
  have h := hA d.result (result_mem_typeNames S d hd)
  have hc := ctorsOf_single hd h1
  simp only [agreeType, agreeTypeG, bareNameOf, hc, hf, Bool.and_eq_true, beq_iff_eq] at h
  exact h.2

/-- F3: a type with several constructors has the sum struct `<Type>` -/
theorem sum_binding {S : Schema} {B : Bindings} (hA : TypesAgree S B) (t : String) (ht : t ∈ typeNames S)
    (hn : (S.ctorsOf t).length ≠ 1) :
    ∃ s, B.find (camelGo t) = some (.sum s) ∧ agreeCases S B (S.ctorsOf t) s.variants s.marshal s.unmarshal = true ∧
      nodupB ((S.ctorsOf t).map fun d => camelGo d.ctor) = true := by
  have h := hA t ht
  simp only [agreeType, agreeTypeG] at h
  split at h
  · rename_i d hc; simp [hc] at hn
  · simp only [Bool.and_eq_true] at h
    cases hf : B.find (camelGo t) with
    | none => simp [hf] at h
    | some b =>
      cases b with
      | sum s => simp only [hf, Bool.and_eq_true] at h; exact ⟨s, rfl, h.2.1, h.2.2⟩
      | simple m => simp [hf] at h
      | tagged a b => simp [hf] at h

/-- the `case` selected by the SumType string of constructor `d`, and its variant struct -/
theorem find_case (S : Schema) (B : Bindings) : ∀ (ds : List Decl) (vs : List (String × StructDecl)) (ms : List MCase)
    (us : List UCase), agreeCases S B ds vs ms us = true → nodupB (ds.map fun d => camelGo d.ctor) = true →
    ∀ d ∈ ds, ∃ k decl u, ms.find? (fun k => k.sumType == camelGo d.ctor) = some k ∧ k.tag = d.id ∧
      k.variant = camelGo d.ctor ∧
      vs.find? (fun p => p.1 == k.variant) = some (k.variant, decl) ∧ declNamesOk decl = true ∧
      agreeFields d.fields decl k.steps u = true ∧ d.fields.all (fun f => tyRefsOk S B f.ty) = true := by
  intro ds
  induction ds with
  | nil => intro _ _ _ _ _ d hd; cases hd
  | cons a ds ih =>
    intro vs ms us hag hnd d hd
    match vs, ms, us, hag with
    | v :: vs, m :: ms, u :: us, hag =>
      simp only [agreeCases, Bool.and_eq_true, beq_iff_eq] at hag
      obtain ⟨⟨⟨⟨⟨⟨⟨⟨⟨⟨hv, hvn⟩, hms⟩, hmv⟩, hmt⟩, _⟩, _⟩, _⟩, haf⟩, hrefs⟩, hrest⟩ := hag
      simp only [List.map_cons] at hnd
      obtain ⟨hne, hnd'⟩ := nodupB_cons_notin _ _ hnd
      rcases List.mem_cons.mp hd with rfl | hd'
      · refine ⟨m, v.2, u.steps, by simp [hms], hmt, hmv, ?_, hvn, haf, hrefs⟩
        simp [hmv, hv]
        rw [← hv]
      · obtain ⟨k, decl, u', hk, hkt, hkv, hvf, hvn', haf', hr'⟩ := ih vs ms us hrest hnd' d hd'
        have hne1 : (camelGo a.ctor == camelGo d.ctor) = false := hne _ (List.mem_map.mpr ⟨d, hd', rfl⟩)
        refine ⟨k, decl, u', ?_, hkt, hkv, ?_, hvn', haf', hr'⟩
        · simp [List.find?_cons, hms, hne1, hk]
        · simp [List.find?_cons, hv, hkv, hne1]
          simpa [hkv] using hvf

/-! ### unfolding equations -/

theorem marshalGo_named_tuple (B : Bindings) (f : Nat) (n : String) (vals : List Val) :
    marshalGo B (f + 1) (.named n) (.tuple vals) =
      (match B.find n with
       | some (.simple m) => runMarshal B f m.fields m.marshal vals
       | some (.tagged tag inner) => (marshalGo B f (.named inner) (.tuple vals)).map (le 4 tag ++ ·)
       | _ => none) := by
  rw [marshalGo.eq_def]
  cases hB : B.find n with
  | none => simp [hB]
  | some b => cases b <;> simp [hB]
theorem marshalGo_named_sum (B : Bindings) (f : Nat) (n c : String) (vals : List Val) :
    marshalGo B (f + 1) (.named n) (.sum c vals) =
      (match B.find n with
       | some (.sum s) =>
         (match s.marshal.find? (fun k => k.sumType == c) with
          | some k =>
            (match s.variants.find? (fun p => p.1 == k.variant) with
             | some p => (runMarshal B f p.2 k.steps vals).map (le 4 k.tag ++ ·)
             | none => none)
          | none => none)
       | _ => none) := by
  rw [marshalGo.eq_def]
  cases hB : B.find n with
  | none => simp [hB]
  | some b => cases b <;> simp [hB] <;> rfl

theorem marshalGo_ptr (B : Bindings) (f : Nat) (t : GoTy) (x : Val) (hx : x ≠ .absent) :
    marshalGo B (f + 1) (.ptr t) x = marshalGo B f t x := by
  rw [marshalGo.eq_def]
  cases x <;> simp_all

/-! ### MarshalTL computes the schema encoding -/

section Marshal
variable (S : Schema) (B : Bindings)

def M1 (ty : Ty) (v : Val) : Prop := ∀ bs fuel, ty ≠ .tru → tyRefsOk S B ty = true → encode S ty v = some bs → 3 * v.depth ≤ fuel →
  marshalGo B fuel (goTyOf ty) (rep S ty v) = some bs

def M2 (ty : Ty) (items : List Val) : Prop := ∀ bs fuel, ty ≠ .tru → tyRefsOk S B ty = true → encodeItems S ty items = some bs →
  3 * depthList items ≤ fuel → marshalItems B fuel (goTyOf ty) (repItems S ty items) = some bs

def M3 (fields : List Field) (env : Env) (vs : List Val) : Prop :=
  ∀ (pre post : StructDecl) (vpre : List Val) (ms us : List Step) bs fuel,
    vpre.length = pre.length → nodupB ((pre ++ post).map (·.1)) = true →
    agreeFields fields post ms us = true → fields.all (fun f => tyRefsOk S B f.ty) = true →
    EnvInv env (pre ++ post) (vpre ++ repFields S fields vs) →
    encodeFields S fields env vs = some bs → 3 * depthList vs + 1 ≤ fuel →
    runMarshal B fuel (pre ++ post) ms (vpre ++ repFields S fields vs) = some bs

theorem succ_of_pos {n : Nat} (h : 1 ≤ n) : ∃ k, n = k + 1 := ⟨n - 1, by omega⟩

end Marshal

theorem repItems_length (S : Schema) (t : Ty) (items : List Val) : (repItems S t items).length = items.length := by
  induction items with
  | nil => rfl
  | cons v vs ih => simp [repItems, ih]

theorem plainStep_inv {f : Field} {decl : StructDecl} {ms us : List Step} (h : plainStep f decl ms us = true) :
    ∃ d decl' m ms' u us', decl = d :: decl' ∧ ms = m :: ms' ∧ us = u :: us' ∧
      agreeOne (camelGo f.name) (guardOf f) (fieldGoTy f) d m u = true := by
  cases decl <;> cases ms <;> cases us <;> simp [plainStep] at h
  exact ⟨_, _, _, _, _, _, rfl, rfl, rfl, h⟩

theorem fieldGoTy_cases (f : Field) : fieldGoTy f = goTyOf f.ty ∨ fieldGoTy f = .ptr (goTyOf f.ty) := by
  unfold fieldGoTy
  cases f.cond <;> cases f.ty <;> simp [goTyOf]

theorem pushEnv_nat (env : Env) (f : Field) (k : Nat) (h1 : f.ty = .nat) (h2 : f.cond = none) :
    pushEnv env f (.num k) = (f.name, k) :: env := by simp [pushEnv, h1, h2]

theorem pushEnv_other (env : Env) (f : Field) (v : Val) (h : ¬ (f.ty = .nat ∧ f.cond = none)) : pushEnv env f v = env := by
  unfold pushEnv
  split
  · exact absurd ⟨by assumption, by assumption⟩ h
  · rfl

theorem fieldGoTy_nat (f : Field) (h1 : f.ty = .nat) (h2 : f.cond = none) : fieldGoTy f = .u32 := by
  simp [fieldGoTy, h1, h2, goTyOf]

theorem rep_nat (S : Schema) (v : Val) : rep S .nat v = v := by cases v <;> simp [rep]

theorem marshal_all (S : Schema) (B : Bindings) (hA : TypesAgree S B) :
    (∀ ty v, M1 S B ty v) ∧ (∀ ty items, M2 S B ty items) ∧ (∀ fields env vs, M3 S B fields env vs) := by
  apply encode.mutual_induct S
  -- 1,2 nat
  · intro n hn bs fuel _ _ he hd
    obtain ⟨f, rfl⟩ := succ_of_pos (by have := Val.depth_pos (.num n); omega : 1 ≤ fuel)
    simp only [encode, hn, if_true, Option.some.injEq] at he
    subst he
    simp [goTyOf, rep, marshalGo, hn]
  · intro n hn bs fuel _ _ he _
    simp [encode, hn] at he
  · intro n hn bs fuel _ _ he hd
    obtain ⟨f, rfl⟩ := succ_of_pos (by simp [Val.depth] at hd; omega : 1 ≤ fuel)
    simp only [encode, hn, if_true, Option.some.injEq] at he
    subst he
    simp [goTyOf, rep, marshalGo, hn]
  · intro n hn bs fuel _ _ he _
    simp [encode, hn] at he
  · intro n hn bs fuel _ _ he hd
    obtain ⟨f, rfl⟩ := succ_of_pos (by simp [Val.depth] at hd; omega : 1 ≤ fuel)
    simp only [encode, hn, if_true, Option.some.injEq] at he
    subst he
    simp [goTyOf, rep, marshalGo, hn]
  · intro n hn bs fuel _ _ he _
    simp [encode, hn] at he
  · intro vb hn bs fuel _ _ he hd
    obtain ⟨f, rfl⟩ := succ_of_pos (by simp [Val.depth] at hd; omega : 1 ≤ fuel)
    simp only [encode, hn, if_true, Option.some.injEq] at he
    subst he
    simp [goTyOf, rep, marshalGo, hn]
  · intro vb hn bs fuel _ _ he _
    simp [encode, hn] at he
  · intro vb hn bs fuel _ _ he hd
    obtain ⟨f, rfl⟩ := succ_of_pos (by simp [Val.depth] at hd; omega : 1 ≤ fuel)
    simp only [encode, hn, if_true, Option.some.injEq] at he
    subst he
    simp [goTyOf, rep, marshalGo, hn]
  · intro vb hn bs fuel _ _ he _
    simp [encode, hn] at he
  · intro vb hn bs fuel _ _ he hd
    obtain ⟨f, rfl⟩ := succ_of_pos (by simp [Val.depth] at hd; omega : 1 ≤ fuel)
    simp only [encode, hn, if_true, Option.some.injEq] at he
    subst he
    simp [goTyOf, rep, marshalGo, hn]
  · intro vb hn bs fuel _ _ he _
    simp [encode, hn] at he
  -- 13 bool
  · intro b bs fuel _ _ he hd
    obtain ⟨f, rfl⟩ := succ_of_pos (by simp [Val.depth] at hd; omega : 1 ≤ fuel)
    simp only [encode, Option.some.injEq] at he
    subst he
    simp [goTyOf, rep, marshalGo]
  -- 14 true (never a Go field; the statement is about the unused Go type)
  · intro bs fuel hnt _ he hd
    exact absurd rfl hnt
  -- 15,16 bare
  · intro c fs d hc ih bs fuel hnt href he hd
    obtain ⟨f, rfl⟩ := succ_of_pos (by simp [Val.depth] at hd; omega : 1 ≤ fuel)
    have hdm : d ∈ S.types := List.mem_of_find?_eq_some hc
    have hdc : d.ctor = c := by have := List.find?_some hc; simpa using this
    simp only [tyRefsOk, hc, beq_iff_eq] at href
    obtain ⟨m, hf, hag⟩ := bare_binding hA hdm href
    simp only [agreeMethod, Bool.and_eq_true] at hag
    simp only [encode, hc] at he
    simp only [Val.depth] at hd
    rw [hdc] at hf
    have := ih [] m.fields [] m.marshal m.unmarshal bs f rfl (by simpa [declNamesOk] using hag.1.1) hag.1.2 hag.2
      (by intro n k hk; simp [envGet?] at hk) he (by omega)
    simp only [List.nil_append] at this
    simp only [goTyOf, rep, hc, marshalGo_named_tuple, hf, this]
  · intro c fs hc bs fuel _ _ he _
    simp [encode, hc] at he
  -- 17,18 boxed
  · intro t c fs d hc ih bs fuel hnt href he hd
    obtain ⟨f, rfl⟩ := succ_of_pos (by simp [Val.depth] at hd; omega : 1 ≤ fuel)
    have hdm : d ∈ S.types := List.mem_of_find?_eq_some hc
    have hdp := List.find?_some hc
    simp only [Bool.and_eq_true, beq_iff_eq] at hdp
    obtain ⟨hdr, hdc⟩ := hdp
    simp only [encode, hc] at he
    obtain ⟨b, hb, rfl⟩ := map_append_eq_some he
    simp only [Val.depth] at hd
    by_cases h1 : (S.ctorsOf t).length = 1
    · -- single constructor: the hand-written tagged wrapper around the plain struct
      have h1' : (S.ctorsOf d.result).length = 1 := by rw [hdr]; exact h1
      have hcs := ctorsOf_single hdm h1'
      rw [hdr] at hcs
      simp only [tyRefsOk, hcs] at href
      cases hft : B.find (camelGo t) with
      | none => simp [hft] at href
      | some bd =>
        cases bd with
        | simple m => simp [hft] at href
        | sum s => simp [hft] at href
        | tagged tag inner =>
          obtain ⟨htag, hinner⟩ := tagged_binding hA hdm h1' tag inner (by rw [hdr]; exact hft)
          obtain ⟨m, hf, hag⟩ := bare_binding hA hdm h1'
          simp only [agreeMethod, Bool.and_eq_true] at hag
          obtain ⟨f, rfl⟩ := succ_of_pos (by omega : 1 ≤ f)
          have := ih [] m.fields [] m.marshal m.unmarshal b f rfl (by simpa [declNamesOk] using hag.1.1) hag.1.2 hag.2
            (by intro n k hk; simp [envGet?] at hk) hb (by omega)
          simp only [List.nil_append] at this
          simp only [goTyOf, rep, hc, h1, beq_self_eq_true, if_true, marshalGo_named_tuple, hft, hinner, hf, this, htag,
            Option.map_some]
    · have ht : t ∈ typeNames S := by rw [← hdr]; exact result_mem_typeNames S d hdm
      obtain ⟨s, hfs, hcases, hnd⟩ := sum_binding hA t ht h1
      have hmem : d ∈ S.ctorsOf t := by simp [Schema.ctorsOf, hdm, hdr]
      obtain ⟨k, decl, u, hk, hkt, hkv, hvf, hvn, haf, hrefs⟩ := find_case S B _ _ _ _ hcases hnd d hmem
      have := ih [] decl [] k.steps u b f rfl (by simpa [declNamesOk] using hvn) haf hrefs
        (by intro n k hk; simp [envGet?] at hk) hb (by omega)
      simp only [List.nil_append] at this
      have h1b : ((S.ctorsOf t).length == 1) = false := by simpa using h1
      simp only [goTyOf, rep, hc, h1b, Bool.false_eq_true, if_false, marshalGo_named_sum, hfs, hk, hvf, this, hkt,
        Option.map_some]
  · intro t c fs hc bs fuel _ _ he _
    simp [encode, hc] at he
  -- 19,20 vector
  · intro t items hl ih bs fuel hnt href he hd
    obtain ⟨f, rfl⟩ := succ_of_pos (by simp [Val.depth] at hd; omega : 1 ≤ fuel)
    simp only [encode, hl, if_true] at he
    obtain ⟨b, hb, rfl⟩ := map_append_eq_some he
    simp only [Val.depth] at hd
    have hlen := repItems_length S t items
    simp only [tyRefsOk, Bool.and_eq_true, bne_iff_ne, ne_eq] at href
    simp only [goTyOf, rep, marshalGo, hlen, hl, if_true, ih b f href.1 href.2 hb (by omega)]
    rfl
  · intro t items hl bs fuel _ _ he _
    simp [encode, hl] at he
  -- 21 mismatch
  · intro v t h1 h2 h3 h4 h5 h6 h7 h8 h9 h10 h11 bs fuel _ _ he hd
    exfalso
    cases t <;> cases v <;> first
      | (simp [encode] at he; done)
      | exact h1 _ rfl rfl | exact h2 _ rfl rfl | exact h3 _ rfl rfl | exact h4 _ rfl rfl | exact h5 _ rfl rfl
      | exact h6 _ rfl rfl | exact h7 _ rfl rfl | exact h8 rfl rfl | exact h9 _ _ rfl rfl | exact h10 _ _ _ rfl rfl
      | exact h11 _ _ rfl rfl
  -- 22 items nil
  · intro t bs fuel _ _ he _
    simp only [encodeItems, Option.some.injEq] at he
    subst he
    simp [repItems, marshalItems]
  -- 23 items cons none
  · intro t v vs hn ih bs fuel _ _ he _
    simp [encodeItems, hn] at he
  -- 24 items cons some
  · intro t v vs b hb ih1 ih2 bs fuel hnt href he hd
    simp only [encodeItems, hb] at he
    obtain ⟨b2, hb2, rfl⟩ := map_append_eq_some he
    simp only [depthList] at hd
    simp only [repItems, marshalItems, ih1 b fuel hnt href hb (by omega), ih2 b2 fuel hnt href hb2 (by omega)]
    rfl
  -- 25 fields nil
  · intro env pre post vpre ms us bs fuel _ _ hag _ _ he _
    simp only [encodeFields, Option.some.injEq] at he
    subst he
    simp only [agreeFields, Bool.and_eq_true, List.isEmpty_iff] at hag
    obtain ⟨⟨rfl, rfl⟩, rfl⟩ := hag
    simp [runMarshal]
  -- 26 present none
  · intro f fs env v vs hp pre post vpre ms us bs fuel _ _ _ _ _ he _
    simp [encodeFields, hp] at he
  -- 27 flag clear, value absent
  · intro f fs env vs hp ih pre post vpre ms us bs fuel hl hnd hag hrefs hinv he hfuel
    simp only [encodeFields, hp] at he
    simp only [depthList] at hfuel
    simp only [List.all_cons, Bool.and_eq_true] at hrefs
    by_cases ht : f.ty = .tru
    · simp only [agreeFields, ht, if_true, Bool.and_eq_true] at hag
      simp only [repFields, ht, if_true] at hinv ⊢
      exact ih pre post vpre ms us.tail bs fuel hl hnd hag.2 hrefs.2 hinv he (by omega)
    · simp only [agreeFields, ht, if_false, Bool.and_eq_true] at hag
      obtain ⟨d, post', m, ms', u, us', rfl, rfl, rfl, hone⟩ := plainStep_inv hag.1
      simp only [agreeOne, Bool.and_eq_true, beq_iff_eq] at hone
      obtain ⟨⟨⟨⟨⟨hd1, hd2⟩, hm1⟩, hm2⟩, _⟩, _⟩ := hone
      simp only [repFields, ht, if_false] at hinv ⊢
      have hg := guard_of_present hinv f false hp
      have hD : pre ++ d :: post' = (pre ++ [d]) ++ post' := by simp
      have hV : vpre ++ rep S f.ty Val.absent :: repFields S fs vs = (vpre ++ [rep S f.ty Val.absent]) ++ repFields S fs vs := by simp
      simp only [runMarshal, hm2, hg]
      rw [hD, hV]
      apply ih (pre ++ [d]) post' (vpre ++ [rep S f.ty Val.absent]) ms' us' bs fuel (by simp [hl])
        (by rw [← hD]; exact hnd) hag.2 hrefs.2 (by rw [← hD, ← hV]; exact hinv) he (by omega)
  -- 28 flag clear but a value is given
  · intro f fs env v vs hp hv pre post vpre ms us bs fuel _ _ _ _ _ he _
    exfalso
    cases v <;> first | (simp [encodeFields, hp] at he; done) | exact hv rfl
  -- 29 present, value does not encode
  · intro f fs env v vs hp hn ih pre post vpre ms us bs fuel _ _ _ _ _ he _
    simp [encodeFields, hp, hn] at he
  -- 30 present, value encodes
  · intro f fs env v vs hp b hb ih1 ih2 pre post vpre ms us bs fuel hl hnd hag hrefs hinv he hfuel
    simp only [encodeFields, hp, hb] at he
    obtain ⟨b2, hb2, rfl⟩ := map_append_eq_some he
    simp only [depthList] at hfuel
    simp only [List.all_cons, Bool.and_eq_true] at hrefs
    by_cases ht : f.ty = .tru
    · simp only [agreeFields, ht, if_true, Bool.and_eq_true] at hag
      have hb' : b = [] := by
        rw [ht] at hb
        cases v <;> simp [encode] at hb
        exact hb
      have hpush : pushEnv env f v = env := by simp [pushEnv, ht]
      simp only [repFields, ht, if_true] at hinv ⊢
      rw [hpush] at ih2 hb2
      rw [hb', List.nil_append]
      exact ih2 pre post vpre ms us.tail b2 fuel hl hnd hag.2 hrefs.2 hinv hb2 (by omega)
    · simp only [agreeFields, ht, if_false, Bool.and_eq_true] at hag
      obtain ⟨d, post', m, ms', u, us', rfl, rfl, rfl, hone⟩ := plainStep_inv hag.1
      simp only [agreeOne, Bool.and_eq_true, beq_iff_eq] at hone
      obtain ⟨⟨⟨⟨⟨hd1, hd2⟩, hm1⟩, hm2⟩, _⟩, _⟩ := hone
      simp only [repFields, ht, if_false] at hinv ⊢
      have hg := guard_of_present hinv f true hp
      have hD : pre ++ d :: post' = (pre ++ [d]) ++ post' := by simp
      have hV : vpre ++ rep S f.ty v :: repFields S fs vs = (vpre ++ [rep S f.ty v]) ++ repFields S fs vs := by simp
      have hnotin : ∀ p ∈ pre, (p.1 == d.1) = false := by
        have := nodupB_mid (pre.map (·.1)) (post'.map (·.1)) d.1 (by simpa using hnd)
        intro p hp'
        exact this p.1 (List.mem_map.mpr ⟨p, hp', rfl⟩)
      have hget : getField (pre ++ d :: post') (vpre ++ rep S f.ty v :: repFields S fs vs) (camelGo f.name) =
          some (fieldGoTy f, rep S f.ty v) := by
        rw [← hd1, ← hd2]
        exact getField_at pre post' d vpre _ _ hnotin hl
      -- the write of this field
      have hfield : marshalGo B fuel (fieldGoTy f) (rep S f.ty v) = some b := by
        rcases fieldGoTy_cases f with h | h
        · rw [h]; exact ih1 b fuel ht hrefs.1 hb (by omega)
        · rw [h]
          obtain ⟨F, rfl⟩ := succ_of_pos (by omega : 1 ≤ fuel)
          rw [marshalGo_ptr B F _ _ (rep_ne_absent S f.ty v b hb)]
          exact ih1 b F ht hrefs.1 hb (by omega)
      -- the flags after this field
      have hinv' : EnvInv (pushEnv env f v) ((pre ++ [d]) ++ post') ((vpre ++ [rep S f.ty v]) ++ repFields S fs vs) := by
        rw [← hD, ← hV]
        intro n k hk
        by_cases hnat : f.ty = .nat ∧ f.cond = none
        · obtain ⟨k0, rfl⟩ : ∃ k0, v = .num k0 := by
            rw [hnat.1] at hb
            cases v <;> simp [encode] at hb
            exact ⟨_, rfl⟩
          rw [pushEnv_nat env f k0 hnat.1 hnat.2] at hk
          simp only [envGet?, List.find?_cons] at hk
          by_cases hname : (f.name == n) = true
          · simp only [hname, Option.map_some, Option.some.injEq] at hk
            have hname' : f.name = n := by simpa using hname
            rw [← hname', hget, fieldGoTy_nat f hnat.1 hnat.2, hnat.1, rep_nat, ← hk]
          · have hname' : (f.name == n) = false := by simpa using hname
            simp only [hname'] at hk
            exact hinv n k hk
        · rw [pushEnv_other env f v hnat] at hk
          exact hinv n k hk
      simp only [runMarshal, hm2, hg, hm1, hget, hfield]
      rw [hD, hV]
      rw [ih2 (pre ++ [d]) post' (vpre ++ [rep S f.ty v]) ms' us' b2 fuel (by simp [hl])
        (by rw [← hD]; exact hnd) hag.2 hrefs.2 hinv' hb2 (by omega)]
      rfl
  -- 31 arity mismatch
  · intro vs fields env h1 h2 pre post vpre ms us bs fuel _ _ _ _ _ he _
    exfalso
    cases fields <;> cases vs <;> first
      | (simp [encodeFields] at he; done)
      | exact h1 rfl rfl | exact h2 _ _ _ _ rfl rfl

/-- from the Bool the regenerated obligations establish -/
theorem typesAgree_of_agreeAll {S : Schema} {B : Bindings} (h : agreeAll S B = true) : TypesAgree S B := by
  intro t ht
  simp only [agreeAll, Bool.and_eq_true, List.all_eq_true] at h
  exact h.1.1 t ht

end Tongo.Tl.Bind
