import TongoModel.Json
import TongoProofs.Lemmas.JsonFift
import TongoProofs.Lemmas.BitStringFiftParse
/-! Bridge between the two models of Fift hex: `Tongo.Json.toFift / fromFift` (bit lists, used by the JSON forms of
BitString and MsgAddress, C20) and the specification functions `fiftSpec` / `fiftParse` against which C06 proves the
byte-level `boc.BitString.ToFiftHex` / `BitStringFromFiftHex` (`toFiftHex_spec`, `fifthex_parse_spec`). They are the
same functions. -/
namespace Tongo.Json
open Tongo Tongo.Bits

theorem nibble_val (a b c d : Bool) : bitsToNat [a, b, c, d] = 8 * a.toNat + 4 * b.toNat + 2 * c.toNat + d.toNat := by
  cases a <;> cases b <;> cases c <;> cases d <;> rfl

theorem nibbles_bridge (l : List Bool) : (nibblesOf l).map Hex.nibbleCharUpper = BitString.nibbles l := by
  induction l using nibblesOf.induct with
  | case1 a b c d r ih => rw [nibblesOf, BitString.nibbles, List.map_cons, ih, nibble_val]
  | case2 l hl =>
    rw [nibblesOf]
    · match l, hl with
      | [], _ => rfl
      | [_], _ => rfl
      | [_, _], _ => rfl
      | [_, _, _], _ => rfl
      | a :: b :: c :: d :: r, hl => exact absurd rfl (hl a b c d r)
    · exact hl

/-- the printer of C20 is the specification text of C06 -/
theorem toFift_eq_fiftSpec (l : List Bool) : toFift l = BitString.fiftSpec l := by
  unfold toFift BitString.fiftSpec
  split
  · exact nibbles_bridge l
  · rw [nibbles_bridge]

theorem suffix_bridge (c : Char) : BitString.suffixToBits c = (Hex.charNibble? c).bind endingBits := by
  by_cases h : c.toNat < 128
  · have key : ∀ k : Fin 128,
        BitString.suffixToBits (Char.ofNat k.val) = (Hex.charNibble? (Char.ofNat k.val)).bind endingBits := by decide
    have := key ⟨c.toNat, h⟩
    simpa [Char.ofNat_toNat] using this
  · have h1 : Hex.charNibble? c = none := by
      unfold Hex.charNibble?
      simp only []
      have : ¬ (48 ≤ c.toNat ∧ c.toNat ≤ 57) := by omega
      have h2 : ¬ (97 ≤ c.toNat ∧ c.toNat ≤ 102) := by omega
      have h3 : ¬ (65 ≤ c.toNat ∧ c.toNat ≤ 70) := by omega
      simp [this, h2, h3]
    rw [h1]
    unfold BitString.suffixToBits
    split <;> first | rfl | (exfalso; revert h; decide)

theorem digits_bridge (d : List Char) :
    BitString.hexDigitsBits d = (nibblesOfHex d).map nibblesToBits := by
  induction d with
  | nil => rfl
  | cons c t ih =>
    simp only [BitString.hexDigitsBits, nibblesOfHex, ih]
    cases Hex.charNibble? c with
    | none => rfl
    | some v =>
      cases nibblesOfHex t with
      | none => rfl
      | some ns => simp [nibblesToBits]

theorem getElem_pred2 (s : List Char) (h : 2 ≤ s.length) : s.dropLast.getLast? = s[s.length - 2]? := by
  rw [List.getLast?_eq_getElem?, List.length_dropLast, List.getElem?_dropLast]
  have : s.length - 1 - 1 = s.length - 2 := by omega
  rw [this]
  have : s.length - 2 < s.length - 1 := by omega
  simp [this]

/-- the parser of C20 accepts exactly the language of C06's `fiftParse`, with the same meaning -/
theorem fromFift_eq_fiftParse (s : List Char) :
    fromFift s = (match BitString.fiftParse s with | some l => .ok l | none => .err "invalid hex") := by
  unfold fromFift BitString.fiftParse hasSuffixChar
  by_cases hs : s.getLast? = some '_'
  · simp only [hs, beq_self_eq_true, if_true]
    by_cases hl : s.length < 2
    · simp [hl]
    · simp only [hl, if_false]
      have h2 : 2 ≤ s.length := by omega
      rw [getElem_pred2 s h2]
      have hbody : s.take (s.length - 2) = s.dropLast.dropLast := by
        rw [List.dropLast_eq_take, List.dropLast_eq_take, List.take_take, List.length_take]
        congr 1
        omega
      have hidx : s.length - 2 < s.length := by omega
      rw [List.getElem?_eq_getElem hidx]
      simp only [hbody, suffix_bridge, digits_bridge]
      cases (Hex.charNibble? s[s.length - 2]).bind endingBits with
      | none => cases nibblesOfHex s.dropLast.dropLast <;> rfl
      | some e => cases nibblesOfHex s.dropLast.dropLast <;> rfl
  · have : (s.getLast? == some '_') = false := by simpa using hs
    simp only [this, Bool.false_eq_true, if_false, hs, digits_bridge]
    cases nibblesOfHex s <;> rfl

end Tongo.Json
