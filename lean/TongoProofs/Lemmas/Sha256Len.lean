import TongoModel.Prim.Sha256
/-! The Lean SHA-256 of TongoModel/Prim returns 32 bytes for every input (discharges the `H32`/`hlen` hypothesis of the
C01/C02/C18 theorems for the hash function the driver uses). -/
open Tongo
namespace Tongo.Sha256Lemmas

theorem compress_size (h : Array UInt32) (b : Array UInt8) : (Sha256.compress h b).size = 8 := by
  unfold Sha256.compress
  simp [Id.run]
  rfl

theorem foldl_compress_size (f : Nat → Array UInt8) : ∀ (l : List Nat) (h : Array UInt32), h.size = 8 →
    (l.foldl (fun r i => Sha256.compress r (f i)) h).size = 8 := by
  intro l
  induction l with
  | nil => intro h hh; exact hh
  | cons x t ih => intro h _; exact ih _ (compress_size _ _)

theorem sha256_length (msg : List UInt8) : (Sha256.hash msg).length = 32 := by
  unfold Sha256.hash
  simp [Id.run]
  have hs := foldl_compress_size (fun a => (List.take 64 (List.drop (64 * a) (Sha256.pad msg))).toArray)
    (List.range' 0 ((Sha256.pad msg).length / 64)) Sha256.H0 (by decide)
  show (List.flatMap _ _).length = 32
  generalize List.foldl _ Sha256.H0 _ = arr at hs
  have : ∀ (l : List UInt32), (List.flatMap (fun x : UInt32 => [(x >>> 24).toUInt8, (x >>> 16).toUInt8, (x >>> 8).toUInt8, x.toUInt8]) l).length = 4 * l.length := by
    intro l
    induction l with
    | nil => rfl
    | cons x t ih => simp [List.flatMap_cons, ih]; omega
  rw [this, Array.length_toList, hs]

end Tongo.Sha256Lemmas
