import TongoModel.ClientSM
/-! Inductive invariants of the lite-client transition system (helper lemmas for C12). -/
namespace Tongo.ClientSM

@[simp] theorem set_same {α} (f : Nat → α) (i : Nat) (v : α) : set f i v i = v := by simp [set]
theorem set_other {α} (f : Nat → α) (i j : Nat) (v : α) (h : j ≠ i) : set f i v j = f j := by simp [set, h]
theorem set_apply {α} (f : Nat → α) (i j : Nat) (v : α) : set f i v j = if j = i then v else f j := rfl

section
variable (idOf : Nat → Id) (nConn : Nat)

/-- the state invariant behind `reader_never_blocks`, `no_leak_model` and `status_machine` -/
structure Inv (s : State) : Prop where
  /-- an entry of `queries` sits under the id of the call it points to; that call is active and unconsumed -/
  a : ∀ id k, s.queries id = some k → idOf k = id ∧ s.consumed k = false ∧ (s.pc k).active = true
  /-- before its registration is consumed, nothing was sent or is about to be sent on a call's channel -/
  b : ∀ k, s.consumed k = false → s.chan k = none ∧ ∀ c v, (s.conn c).pending ≠ some (k, v)
  /-- a pending channel send targets an empty channel, and is the only one for that channel -/
  c : ∀ c k v, (s.conn c).pending = some (k, v) → s.chan k = none ∧ ∀ c' v', (s.conn c').pending = some (k, v') → c' = c
  e : ∀ k, s.pc k = .start → s.consumed k = false
  f : s.readerBlocked = false
  g : ∀ c, (s.conn c).loops ≤ 1 ∧ ((s.conn c).status = .connecting ↔ (s.conn c).loops = 1)
  /-- `Connection.mu` is held inside a write by call k exactly while k is in `Send` on that connection … -/
  w : ∀ c k, (s.conn c).writer = some (.call k) ↔ s.pc k = .sending c
  /-- … and only on a connection that is `Connected` (the status cannot change while the mutex is held) -/
  w2 : ∀ c, (s.conn c).writer ≠ none → (s.conn c).status = .connected

theorem inv_init : Inv idOf init := by
  constructor <;> simp [init]

theorem reconnectBody_pending (cn : Conn) : (reconnectBody cn).pending = cn.pending := by
  unfold reconnectBody; split <;> rfl

theorem reconnectBody_g (cn : Conn) (h : cn.loops ≤ 1 ∧ (cn.status = .connecting ↔ cn.loops = 1)) :
    (reconnectBody cn).loops ≤ 1 ∧ ((reconnectBody cn).status = .connecting ↔ (reconnectBody cn).loops = 1) := by
  unfold reconnectBody
  split
  · exact h
  · next hs =>
    have : cn.loops = 0 := by
      rcases h with ⟨h1, h2⟩
      have : cn.loops ≠ 1 := fun h' => hs (h2.mpr h')
      omega
    simp [this]

/-- every clause of `Inv` is preserved by every action (15 actions × 6 clauses, closed by `grind`) -/
theorem inv_step {s s' : State} {a : Action} (hi : Inv idOf s) (h : step idOf nConn s a = some s') :
    Inv idOf s' := by
  obtain ⟨ha, hb, hc, he, hf, hg, hw, hw2⟩ := hi
  have hw' : ∀ c k k', s.pc k = .sending c → s.pc k' = .sending c → k = k' := by
    intro c k k' h1 h2
    have e1 := (hw c k).mpr h1
    have e2 := (hw c k').mpr h2
    rw [e1] at e2
    cases e2; rfl
  have hw'' : ∀ c k, s.pc k = .sending c → (s.conn c).writer = some (.call k) := fun c k h => (hw c k).mpr h
  cases a <;> simp only [step] at h <;> (repeat' split at h) <;> (try cases h) <;>
    (constructor <;> (try simp only [set_apply] at *) <;>
      first
      | assumption
      | grind [Pc.active, reconnectBody])

theorem inv_run {s s' : State} {as : List Action} (hi : Inv idOf s) (h : run idOf nConn s as = some s') :
    Inv idOf s' := by
  induction as generalizing s with
  | nil => simp only [run] at h; cases h; exact hi
  | cons a as ih =>
    simp only [run] at h
    split at h
    · next s1 h1 => exact ih (inv_step idOf nConn hi h1) h
    · cases h

theorem inv_reachable {s : State} (h : Reachable idOf nConn s) : Inv idOf s := by
  obtain ⟨as, h⟩ := h
  exact inv_run idOf nConn (inv_init idOf) h

/-! ### trace invariant (demultiplexing) -/

/-- in the action list `as`, an answer carrying the id of call k and the body `good b` was delivered after
`register k` -/
def Delivered (as : List Action) (k : Nat) (b : Payload) : Prop :=
  ∃ pre c post, as = pre ++ Action.deliver c (.answer (idOf k) (.good b)) :: post ∧ Action.register k ∈ pre

theorem Delivered.mono {as : List Action} {k : Nat} {b : Payload} (h : Delivered idOf as k b) (a : Action) :
    Delivered idOf (as ++ [a]) k b := by
  obtain ⟨pre, c, post, h1, h2⟩ := h
  exact ⟨pre, c, post ++ [a], by simp [h1], h2⟩

theorem Delivered.now {as : List Action} {k : Nat} {b : Payload} (c : Nat) (h : Action.register k ∈ as) :
    Delivered idOf (as ++ [Action.deliver c (.answer (idOf k) (.good b))]) k b :=
  ⟨as, c, [], rfl, h⟩

structure TInv (as : List Action) (s : State) : Prop where
  t1 : ∀ id k, s.queries id = some k → Action.register k ∈ as
  t2 : ∀ c k b, (s.conn c).pending = some (k, b) → Delivered idOf as k b
  t3 : ∀ k b, s.chan k = some b → Delivered idOf as k b
  t4 : ∀ k b, (s.pc k = .returning (.ok b) ∨ s.pc k = .returned (.ok b)) → Delivered idOf as k b

theorem tinv_init : TInv idOf [] init := by
  constructor <;> simp [init]

theorem tinv_step {as : List Action} {s s' : State} {a : Action} (hi : Inv idOf s) (ht : TInv idOf as s)
    (h : step idOf nConn s a = some s') : TInv idOf (as ++ [a]) s' := by
  obtain ⟨ha, hb, hc, he, hf, hg, hw, hw2⟩ := hi
  obtain ⟨t1, t2, t3, t4⟩ := ht
  have mono : ∀ k b, Delivered idOf as k b → Delivered idOf (as ++ [a]) k b := fun k b h => h.mono idOf a
  have mem : ∀ x, x ∈ as → x ∈ as ++ [a] := fun x hx => List.mem_append_left _ hx
  have memlast : a ∈ as ++ [a] := by simp
  have now : ∀ c k b, a = Action.deliver c (.answer (idOf k) (.good b)) → Action.register k ∈ as →
      Delivered idOf (as ++ [a]) k b := by
    intro c k b e hr; subst e; exact Delivered.now idOf c hr
  generalize as ++ [a] = as' at *
  cases a <;> simp only [step] at h <;> (repeat' split at h) <;> (try cases h) <;>
    (constructor <;> (try simp only [set_apply] at *) <;>
      first
      | assumption
      | grind [reconnectBody])

theorem tinv_run {pre as : List Action} {s s' : State} (hi : Inv idOf s) (ht : TInv idOf pre s)
    (h : run idOf nConn s as = some s') : TInv idOf (pre ++ as) s' := by
  induction as generalizing s pre with
  | nil => simp only [run] at h; cases h; simpa using ht
  | cons a as ih =>
    simp only [run] at h
    split at h
    · next s1 h1 =>
      have := ih (inv_step idOf nConn hi h1) (tinv_step idOf nConn hi ht h1) h
      simpa using this
    · cases h


/-! ### first answer wins -/

/-- the id of the answer an action delivers, if it delivers one -/
def delivId : Action → Option Id
  | .deliver _ (.answer id _) => some id
  | _ => none

/-- `register k` occurs in `as` and no answer carrying k's id is delivered after it -/
def Fresh (as : List Action) (k : Nat) : Prop :=
  ∃ pre mid, as = pre ++ Action.register k :: mid ∧ ∀ a ∈ mid, delivId a ≠ some (idOf k)

/-- in `as`: `register k`, then NO delivered answer with k's id, then the delivery of `(idOf k, good b)` -/
def FirstDelivered (as : List Action) (k : Nat) (b : Payload) : Prop :=
  ∃ pre mid c post, as = pre ++ Action.register k :: mid ++ Action.deliver c (.answer (idOf k) (.good b)) :: post ∧
    ∀ a ∈ mid, delivId a ≠ some (idOf k)

theorem Fresh.new (as : List Action) (k : Nat) : Fresh idOf (as ++ [Action.register k]) k :=
  ⟨as, [], rfl, by simp⟩

theorem Fresh.mono {as : List Action} {k : Nat} (h : Fresh idOf as k) (a : Action) (ha : delivId a ≠ some (idOf k)) :
    Fresh idOf (as ++ [a]) k := by
  obtain ⟨pre, mid, e, hm⟩ := h
  refine ⟨pre, mid ++ [a], by simp [e], ?_⟩
  intro x hx
  rcases List.mem_append.mp hx with hx | hx
  · exact hm x hx
  · simp at hx; subst hx; exact ha

theorem FirstDelivered.now {as : List Action} {k : Nat} (h : Fresh idOf as k) (c : Nat) (b : Payload) :
    FirstDelivered idOf (as ++ [Action.deliver c (.answer (idOf k) (.good b))]) k b := by
  obtain ⟨pre, mid, e, hm⟩ := h
  exact ⟨pre, mid, c, [], by simp [e], hm⟩

theorem FirstDelivered.mono {as : List Action} {k : Nat} {b : Payload} (h : FirstDelivered idOf as k b) (a : Action) :
    FirstDelivered idOf (as ++ [a]) k b := by
  obtain ⟨pre, mid, c, post, e, hm⟩ := h
  exact ⟨pre, mid, c, post ++ [a], by simp [e], hm⟩

structure FInv (as : List Action) (s : State) : Prop where
  f1 : ∀ id k, s.queries id = some k → Fresh idOf as k
  f2 : ∀ c k b, (s.conn c).pending = some (k, b) → FirstDelivered idOf as k b
  f3 : ∀ k b, s.chan k = some b → FirstDelivered idOf as k b
  f4 : ∀ k b, (s.pc k = .returning (.ok b) ∨ s.pc k = .returned (.ok b)) → FirstDelivered idOf as k b

theorem finv_init : FInv idOf [] init := by
  constructor <;> simp [init]

theorem finv_step {as : List Action} {s s' : State} {a : Action} (hi : Inv idOf s) (ht : FInv idOf as s)
    (h : step idOf nConn s a = some s') : FInv idOf (as ++ [a]) s' := by
  obtain ⟨ha, hb, hc, he, hf, hg, hw, hw2⟩ := hi
  obtain ⟨f1, f2, f3, f4⟩ := ht
  have fmono : ∀ k, Fresh idOf as k → delivId a ≠ some (idOf k) → Fresh idOf (as ++ [a]) k :=
    fun k h h' => h.mono idOf a h'
  have fnew : ∀ k, a = Action.register k → Fresh idOf (as ++ [a]) k := by
    intro k e; subst e; exact Fresh.new idOf as k
  have dmono : ∀ k b, FirstDelivered idOf as k b → FirstDelivered idOf (as ++ [a]) k b := fun k b h => h.mono idOf a
  have dnow : ∀ c id k b, a = Action.deliver c (.answer id (.good b)) → idOf k = id → Fresh idOf as k →
      FirstDelivered idOf (as ++ [a]) k b := by
    intro c id k b e hid hr; subst e; subst hid; exact FirstDelivered.now idOf hr c b
  generalize as ++ [a] = as' at *
  cases a <;> simp only [step] at h <;> (repeat' split at h) <;> (try cases h) <;>
    (constructor <;> (try simp only [set_apply, delivId] at *) <;>
      first
      | assumption
      | grind [reconnectBody])

theorem finv_run {pre as : List Action} {s s' : State} (hi : Inv idOf s) (ht : FInv idOf pre s)
    (h : run idOf nConn s as = some s') : FInv idOf (pre ++ as) s' := by
  induction as generalizing s pre with
  | nil => simp only [run] at h; cases h; simpa using ht
  | cons a as ih =>
    simp only [run] at h
    split at h
    · next s1 h1 =>
      have := ih (inv_step idOf nConn hi h1) (finv_step idOf nConn hi ht h1) h
      simpa using this
    · cases h


/-! ### progress -/

/-- number of own steps a call still has to take at most -/
def Pc.rank : Pc → Nat
  | .start => 6
  | .registered => 5
  | .picked _ => 4
  | .sending _ => 3
  | .waiting => 2
  | .returning _ => 1
  | .returned _ => 0

/-- connected, writable, and being read -/
def Healthy (cn : Conn) : Prop := cn.status = .connected ∧ cn.sockOk = true ∧ cn.reader = true

/-- the steps that bring a connection back: its socket reports the failure; whoever is inside a write on it gets the
error and releases the mutex; a Send of the ping goroutine fails (unless a failed write already spawned a reconnect); the
spawned reconnect() runs; the new handshake succeeds -/
def recovery (cn : Conn) (c : Nat) : List Action :=
  if cn.status = .connecting then [.reconnectOk c]
  else
    (if cn.sockOk then [.sockDead c] else []) ++
    (match cn.writer with
      | some (.call k) => [.writeFail k]
      | some .ping => [.pingDone c]
      | none => []) ++
    (if cn.spawned > 0 ∨ cn.writer ≠ none then [] else [.pingFail c]) ++
    [.reconnectStart c, .reconnectOk c]

/-! ### program-counter facts along a trace -/

def PcInv (as : List Action) (s : State) : Prop :=
  (∀ k, s.pc k ≠ .start → Action.register k ∈ as) ∧
  (∀ c k, (c, k) ∈ s.wire → s.pc k = .waiting ∨ (∃ r, s.pc k = .returning r) ∨ ∃ r, s.pc k = .returned r)

theorem pcinv_init : PcInv [] init := by
  constructor <;> simp [init]

theorem pcinv_step {as : List Action} {s s' : State} {a : Action} (hp : PcInv as s)
    (h : step idOf nConn s a = some s') : PcInv (as ++ [a]) s' := by
  obtain ⟨p1, p2⟩ := hp
  have mem : ∀ x, x ∈ as → x ∈ as ++ [a] := fun x hx => List.mem_append_left _ hx
  have memlast : a ∈ as ++ [a] := by simp
  generalize as ++ [a] = as' at *
  cases a <;> simp only [step] at h <;> (repeat' split at h) <;> (try cases h) <;>
    (constructor <;> (try simp only [set_apply, List.mem_append, List.mem_singleton] at *) <;>
      first
      | assumption
      | grind)

theorem pcinv_run {pre as : List Action} {s s' : State} (hp : PcInv pre s)
    (h : run idOf nConn s as = some s') : PcInv (pre ++ as) s' := by
  induction as generalizing s pre with
  | nil => simp only [run] at h; cases h; simpa using hp
  | cons a as ih =>
    simp only [run] at h
    split at h
    · next s1 h1 =>
      have := ih (pcinv_step idOf nConn hp h1) h
      simpa using this
    · cases h

/-! ### registration is present while a call is in flight and unanswered (needs distinct ids) -/

/-- calls draw pairwise different ids -/
def IdsDistinct : Prop := ∀ k k', idOf k = idOf k' → k = k'

def InFlight (s : State) (k : Nat) : Prop :=
  s.pc k = .registered ∨ (∃ c, s.pc k = .picked c) ∨ (∃ c, s.pc k = .sending c) ∨ s.pc k = .waiting

def RInv (s : State) : Prop := ∀ k, InFlight s k → s.consumed k = false → s.queries (idOf k) = some k

theorem rinv_init : RInv idOf init := by
  intro k h; simp [InFlight, init] at h

theorem rinv_step (hd : IdsDistinct idOf) {s s' : State} {a : Action} (hi : Inv idOf s) (hr : RInv idOf s)
    (h : step idOf nConn s a = some s') : RInv idOf s' := by
  obtain ⟨ha, hb, hc, he, hf, hg, hw, hw2⟩ := hi
  unfold RInv InFlight at *
  unfold IdsDistinct at hd
  cases a <;> simp only [step] at h <;> (repeat' split at h) <;> (try cases h) <;>
    ((try simp only [set_apply] at *) <;>
      first
      | assumption
      | grind [reconnectBody])

theorem rinv_run (hd : IdsDistinct idOf) {s s' : State} {as : List Action} (hi : Inv idOf s) (hr : RInv idOf s)
    (h : run idOf nConn s as = some s') : RInv idOf s' := by
  induction as generalizing s with
  | nil => simp only [run] at h; cases h; exact hr
  | cons a as ih =>
    simp only [run] at h
    split at h
    · next s1 h1 => exact ih (inv_step idOf nConn hi h1) (rinv_step idOf nConn hd hi hr h1) h
    · cases h

end
end Tongo.ClientSM
