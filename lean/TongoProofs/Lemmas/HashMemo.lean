import TongoModel.HashMemo
import TongoProofs.Lemmas.CellHash
/-! Helper lemmas for C02 `cache_sound`: the memoised `newImmutableCell` agrees with the plain recursion on the tree. -/
open Tongo
namespace Tongo.Memo

/-- the tree a pointer denotes does not depend on the fuel -/
theorem tree_unique (heap : Heap) : ∀ (f1 f2 p : Nat) (c1 c2 : Cell),
    tree heap f1 p = some c1 → tree heap f2 p = some c2 → c1 = c2 := by
  intro f1
  induction f1 with
  | zero => intro f2 p c1 c2 h; simp [tree] at h
  | succ f1 ih =>
    intro f2 p c1 c2 h1 h2
    cases f2 with
    | zero => simp [tree] at h2
    | succ f2 =>
      simp only [tree] at h1 h2
      cases hp : heap p with
      | none => rw [hp] at h1; cases h1
      | some row =>
        rw [hp] at h1 h2
        simp only [Option.map_eq_some_iff] at h1 h2
        obtain ⟨cs1, e1, rfl⟩ := h1
        obtain ⟨cs2, e2, rfl⟩ := h2
        have : ∀ (rs : List Nat) (a b : List Cell), treeList (tree heap f1) rs = some a →
            treeList (tree heap f2) rs = some b → a = b := by
          intro rs
          induction rs with
          | nil => intro a b ha hb; simp [treeList] at ha hb; rw [ha, hb]
          | cons r rs ihr =>
            intro a b ha hb
            simp only [treeList] at ha hb
            cases t1 : tree heap f1 r with
            | none => rw [t1] at ha; cases ha
            | some x1 =>
              cases t2 : tree heap f2 r with
              | none => rw [t2] at hb; simp at hb
              | some x2 =>
                cases l1 : treeList (tree heap f1) rs with
                | none => rw [t1, l1] at ha; cases ha
                | some y1 =>
                  cases l2 : treeList (tree heap f2) rs with
                  | none => rw [t2, l2] at hb; cases hb
                  | some y2 =>
                    rw [t1, l1] at ha; rw [t2, l2] at hb
                    cases ha; cases hb
                    rw [ih f2 r x1 x2 t1 t2, ihr y1 y2 l1 l2]
        rw [this row.refs cs1 cs2 e1 e2]

/-- the memoised result agrees with the plain result `s`, and the table stays valid -/
def Agrees {α : Type} (r : Outcome (α × Cache)) (s : Outcome α) (Inv : Cache → Prop) : Prop :=
  match r with
  | .ok (i, cache') => s = .ok i ∧ Inv cache'
  | .err e => s = .err e
  | .panic x => s = .panic x

theorem memo_agrees (H : List UInt8 → List UInt8) (heap : Heap) : ∀ (fuel p : Nat) (cache : Cache) (c : Cell),
    CacheInv H heap cache → tree heap fuel p = some c →
    Agrees (hashMemo H heap fuel p cache) (Cell.info H c) (CacheInv H heap) := by
  intro fuel
  induction fuel with
  | zero => intro p cache c _ h; simp [tree] at h
  | succ fuel ih =>
    intro p cache c hinv ht
    simp only [hashMemo]
    cases hl : cache.lookup p with
    | some i =>
      exact ⟨hinv p i hl _ c ht, hinv⟩
    | none =>
      have ht0 := ht
      simp only [tree] at ht
      cases hp : heap p with
      | none => rw [hp] at ht; cases ht
      | some row =>
        rw [hp] at ht
        simp only [Option.map_eq_some_iff] at ht
        obtain ⟨cs, hcs, rfl⟩ := ht
        -- children
        have hlist : ∀ (rs : List Nat) (cache : Cache) (cs : List Cell), CacheInv H heap cache →
            treeList (tree heap fuel) rs = some cs →
            Agrees (memoList (hashMemo H heap fuel) rs cache) (Cell.infoList H cs) (CacheInv H heap) := by
          intro rs
          induction rs with
          | nil =>
            intro cache cs hinv h
            simp only [treeList, Option.some.injEq] at h
            subst h
            exact ⟨rfl, hinv⟩
          | cons r rs ihr =>
            intro cache cs hinv h
            simp only [treeList] at h
            cases t1 : tree heap fuel r with
            | none => rw [t1] at h; cases h
            | some x =>
              cases l1 : treeList (tree heap fuel) rs with
              | none => rw [t1, l1] at h; cases h
              | some xs =>
                rw [t1, l1] at h
                cases h
                have a1 := ih r cache x hinv t1
                simp only [memoList, Cell.infoList]
                cases hm : hashMemo H heap fuel r cache with
                | err e => rw [hm] at a1; simp only [Agrees] at a1; rw [a1]; exact rfl
                | panic e => rw [hm] at a1; simp only [Agrees] at a1; rw [a1]; exact rfl
                | ok res =>
                  obtain ⟨i, cache1⟩ := res
                  rw [hm] at a1
                  obtain ⟨e1, inv1⟩ := a1
                  rw [e1]
                  simp only [Outcome.bind_ok]
                  have a2 := ihr cache1 xs inv1 l1
                  cases hm2 : memoList (hashMemo H heap fuel) rs cache1 with
                  | err e => rw [hm2] at a2; simp only [Agrees] at a2; rw [a2]; exact rfl
                  | panic e => rw [hm2] at a2; simp only [Agrees] at a2; rw [a2]; exact rfl
                  | ok res2 =>
                    obtain ⟨is, cache2⟩ := res2
                    rw [hm2] at a2
                    obtain ⟨e2, inv2⟩ := a2
                    rw [e2]
                    exact ⟨rfl, inv2⟩
        have a := hlist row.refs cache cs hinv hcs
        simp only [Cell.info]
        cases hm : memoList (hashMemo H heap fuel) row.refs cache with
        | err e => rw [hm] at a; simp only [Agrees] at a; rw [a]; exact rfl
        | panic e => rw [hm] at a; simp only [Agrees] at a; rw [a]; exact rfl
        | ok res =>
          obtain ⟨is, cache1⟩ := res
          rw [hm] at a
          obtain ⟨e1, inv1⟩ := a
          rw [e1]
          simp only [Outcome.bind_ok]
          cases hc : computeInfo H row.ty row.mask row.bits (parsedBuf row.bits) is with
          | err e => exact rfl
          | panic e => exact rfl
          | ok i =>
            refine ⟨rfl, ?_⟩
            intro p' i' hl' fuel' c' ht'
            simp only [List.lookup_cons] at hl'
            cases hpp : p' == p with
            | true =>
              rw [hpp] at hl'
              simp only [Option.some.injEq] at hl'
              subst hl'
              have hp' : p' = p := by simpa using hpp
              subst hp'
              have := tree_unique heap _ _ p' _ _ ht0 ht'
              subst this
              simp only [Cell.info, e1, Outcome.bind_ok, hc]
            | false =>
              rw [hpp] at hl'
              exact inv1 p' i' hl' fuel' c' ht'

end Tongo.Memo

namespace Tongo.Memo
open Tongo

theorem hasherHash_agrees (H : List UInt8 → List UInt8) (heap : Heap) (fuel p : Nat) (cache : Cache) (c : Cell)
    (hinv : CacheInv H heap cache) (ht : tree heap fuel p = some c) :
    Agrees (hasherHash H heap fuel p cache) (Cell.reprHash H c) (CacheInv H heap) := by
  have a := memo_agrees H heap fuel p cache c hinv ht
  simp only [hasherHash, Cell.reprHash]
  cases hm : hashMemo H heap fuel p cache with
  | err e => rw [hm] at a; simp only [Agrees] at a; rw [a]; exact rfl
  | panic e => rw [hm] at a; simp only [Agrees] at a; rw [a]; exact rfl
  | ok r =>
    obtain ⟨i, cache'⟩ := r
    rw [hm] at a
    obtain ⟨e, inv'⟩ := a
    rw [e]
    simp only [Outcome.bind_ok]
    cases hh : i.hashAt 3 with
    | ok b => exact ⟨rfl, inv'⟩
    | err e => exact rfl
    | panic e => exact rfl

/-- agreement of a stateful call with the uncached function: same value and the invariant kept, or the same error,
or the same panic -/
def AgreesSt {α : Type} (r : Outcome (α × HasherState)) (s : Outcome α) (Inv : HasherState → Prop) : Prop :=
  match r with
  | .ok (x, st') => s = .ok x ∧ Inv st'
  | .err e => s = .err e
  | .panic x => s = .panic x

theorem hasherHashSt_agrees (H : List UInt8 → List UInt8) (heap : Heap) (fuel p : Nat) (st : HasherState) (c : Cell)
    (hinv : StateInv H heap st) (ht : tree heap fuel p = some c) :
    AgreesSt (hasherHashSt H heap fuel p st) (Cell.reprHash H c) (StateInv H heap) := by
  have a := hasherHash_agrees H heap fuel p st.cache c hinv.1 ht
  simp only [hasherHashSt]
  cases hm : hasherHash H heap fuel p st.cache with
  | err e => rw [hm] at a; simp only [Agrees] at a; rw [a]; exact rfl
  | panic e => rw [hm] at a; simp only [Agrees] at a; rw [a]; exact rfl
  | ok r =>
    obtain ⟨b, cache'⟩ := r
    rw [hm] at a
    exact ⟨a.1, a.2, hinv.2⟩

theorem hasherHashString_agrees (H : List UInt8 → List UInt8) (heap : Heap) (fuel p : Nat) (st : HasherState)
    (c : Cell) (hinv : StateInv H heap st) (ht : tree heap fuel p = some c) :
    AgreesSt (hasherHashString H heap fuel p st) (Cell.hashString H c) (StateInv H heap) := by
  simp only [hasherHashString]
  cases hl : st.hex.lookup p with
  | some s => exact ⟨hinv.2 p s hl fuel c ht, hinv⟩
  | none =>
    have a := hasherHash_agrees H heap fuel p st.cache c hinv.1 ht
    simp only [Cell.hashString]
    cases hm : hasherHash H heap fuel p st.cache with
    | err e => rw [hm] at a; simp only [Agrees] at a; rw [a]; exact rfl
    | panic e => rw [hm] at a; simp only [Agrees] at a; rw [a]; exact rfl
    | ok r =>
      obtain ⟨b, cache'⟩ := r
      rw [hm] at a
      obtain ⟨e, inv'⟩ := a
      rw [e]
      refine ⟨rfl, inv', ?_⟩
      intro p' s' hl' fuel' c' ht'
      simp only [List.lookup_cons] at hl'
      cases hpp : p' == p with
      | true =>
        rw [hpp] at hl'
        simp only [Option.some.injEq] at hl'
        subst hl'
        have hp' : p' = p := by simpa using hpp
        subst hp'
        have := tree_unique heap _ _ p' _ _ ht ht'
        subst this
        simp only [Cell.hashString, e, Outcome.bind_ok, pure]
      | false =>
        rw [hpp] at hl'
        exact hinv.2 p' s' hl' fuel' c' ht'

/-- every call of a sequence on one Hasher is answered like the uncached function -/
theorem runCalls_sound (H : List UInt8 → List UInt8) (heap : Heap) (fuel : Nat) :
    ∀ (calls : List Call) (st : HasherState), StateInv H heap st →
      (∀ c ∈ calls, (plainAnswer H heap fuel c).isSome = true) →
      (runCalls H heap fuel calls st).map some = calls.map (plainAnswer H heap fuel) := by
  intro calls
  induction calls with
  | nil => intros; rfl
  | cons call rest ih =>
    intro st hinv hdef
    have hrest : ∀ c ∈ rest, (plainAnswer H heap fuel c).isSome = true := fun c hc => hdef c (by simp [hc])
    have hcall := hdef call (by simp)
    cases call with
    | hash p =>
      simp only [plainAnswer, Option.isSome_map] at hcall
      obtain ⟨c, hc⟩ := Option.isSome_iff_exists.mp hcall
      have a := hasherHashSt_agrees H heap fuel p st c hinv hc
      simp only [runCalls, List.map_cons, plainAnswer, hc, Option.map_some]
      cases hm : hasherHashSt H heap fuel p st with
      | ok r =>
        obtain ⟨b, st'⟩ := r
        rw [hm] at a
        simp only [List.map_cons, a.1, ih st' a.2 hrest]
      | err e => rw [hm] at a; simp only [AgreesSt] at a; simp only [List.map_cons, a, ih st hinv hrest]
      | panic e => rw [hm] at a; simp only [AgreesSt] at a; simp only [List.map_cons, a, ih st hinv hrest]
    | hashString p =>
      simp only [plainAnswer, Option.isSome_map] at hcall
      obtain ⟨c, hc⟩ := Option.isSome_iff_exists.mp hcall
      have a := hasherHashString_agrees H heap fuel p st c hinv hc
      simp only [runCalls, List.map_cons, plainAnswer, hc, Option.map_some]
      cases hm : hasherHashString H heap fuel p st with
      | ok r =>
        obtain ⟨b, st'⟩ := r
        rw [hm] at a
        simp only [List.map_cons, a.1, ih st' a.2 hrest]
      | err e => rw [hm] at a; simp only [AgreesSt] at a; simp only [List.map_cons, a, ih st hinv hrest]
      | panic e => rw [hm] at a; simp only [AgreesSt] at a; simp only [List.map_cons, a, ih st hinv hrest]

end Tongo.Memo
