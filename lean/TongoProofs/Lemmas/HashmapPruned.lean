import TongoProofs.Lemmas.HashmapEncode
import TongoProofs.Lemmas.HashmapPut
/-! Dictionaries inside Merkle proofs: `mapInner` skips pruned-branch cells, so decoding a valid tree with pruned
subtrees yields exactly the pairs of the un-pruned part, in order, and lookups agree with the full dictionary for every
key whose path is not pruned. -/
namespace Tongo.Hashmap
open Tongo Tongo.Bits

variable {V : Type}

theorem mapInner_ptoCell (C : Codec V) (pay : V → List Bool × List Cell) (n : Nat) (hn : n < 2 ^ 64) (t : PTree V) :
    (∀ kv ∈ t.meaning, DecodesValue C pay kv.2) →
    ∀ (m : Nat) (pfx : Key) (fuel : Nat), t.Valid m → pfx.length + m = n → m < fuel →
      mapInner C n fuel (m : Int) (t.toCell pay m) pfx = .ok (t.meaning.map fun kv => (pfx ++ kv.1, kv.2)) := by
  induction t with
  | leaf l v =>
    intro hdec m pfx fuel hv hlen hf
    have hdv : C.dec (pay v).1 (pay v).2 = .ok v := hdec (l.bits, v) (by simp [PTree.meaning])
    obtain ⟨f, rfl⟩ : ∃ f, fuel = f + 1 := ⟨fuel - 1, by omega⟩
    simp only [PTree.Valid] at hv
    have hm : m < 2 ^ 64 := by omega
    simp only [PTree.toCell, Cell.ordinary, mapInner]
    rw [loadLabel_enc l m n pfx _ hm (by omega) (by omega)]
    have h1 : ¬ ((pfx ++ l.bits).length < n) := by simp; omega
    have ht1 : ¬ ((0 : Nat) = tyPruned) := by decide
    have ht2 : ¬ ((0 : Nat) = tyLibrary) := by decide
    simp only [ht1, ht2, h1, if_false, hdv, PTree.meaning, List.map_cons, List.map_nil]
  | fork l lo hi ihlo ihhi =>
    intro hdec m pfx fuel hv hlen hf
    have hdlo : ∀ kv ∈ lo.meaning, DecodesValue C pay kv.2 := fun kv hkv =>
      hdec (l.bits ++ false :: kv.1, kv.2) (by
        simp only [PTree.meaning, List.mem_append, List.mem_map]; exact Or.inl ⟨kv, hkv, rfl⟩)
    have hdhi : ∀ kv ∈ hi.meaning, DecodesValue C pay kv.2 := fun kv hkv =>
      hdec (l.bits ++ true :: kv.1, kv.2) (by
        simp only [PTree.meaning, List.mem_append, List.mem_map]; exact Or.inr ⟨kv, hkv, rfl⟩)
    obtain ⟨f, rfl⟩ : ∃ f, fuel = f + 1 := ⟨fuel - 1, by omega⟩
    simp only [PTree.Valid] at hv
    obtain ⟨hl, hvlo, hvhi⟩ := hv
    have hm : m < 2 ^ 64 := by omega
    simp only [PTree.toCell, Cell.ordinary, mapInner]
    have henc : l.enc m = l.enc m ++ [] := by simp
    rw [henc, loadLabel_enc l m n pfx [] hm (by omega) (by omega)]
    have h1 : (pfx ++ l.bits).length < n := by simp; omega
    have ht1 : ¬ ((0 : Nat) = tyPruned) := by decide
    have hleft : (m : Int) - (1 + (l.bits.length : Int)) = ((m - l.bits.length - 1 : Nat) : Int) := by omega
    simp only [ht1, h1, if_true, if_false, hleft]
    rw [ihlo hdlo (m - l.bits.length - 1) (pfx ++ l.bits ++ [false]) f hvlo (by simp; omega) (by omega)]
    rw [ihhi hdhi (m - l.bits.length - 1) (pfx ++ l.bits ++ [true]) f hvhi (by simp; omega) (by omega)]
    simp [PTree.meaning, List.map_append, List.map_map, Function.comp_def, List.append_assoc]
  | pruned mask bits refs =>
    intro _ m pfx fuel _ _ hf
    obtain ⟨f, rfl⟩ : ∃ f, fuel = f + 1 := ⟨fuel - 1, by omega⟩
    simp [PTree.toCell, mapInner, PTree.meaning]

/-- the pairs of the pruned tree are a sublist (same order) of the pairs of the full tree -/
theorem prunes_sublist (p : PTree V) (t : HTree V) (h : PTree.Prunes p t) : p.meaning.Sublist t.meaning := by
  induction h with
  | leaf l v => exact List.Sublist.refl _
  | fork l _ _ ihlo ihhi =>
    simp only [PTree.meaning, HTree.meaning]
    exact List.Sublist.append (ihlo.map _) (ihhi.map _)
  | pruned mask bits refs t => simp [PTree.meaning]

theorem prunes_valid (p : PTree V) (t : HTree V) (h : PTree.Prunes p t) : ∀ m, t.Valid m → p.Valid m := by
  induction h with
  | leaf l v => intro m hv; exact hv
  | fork l _ _ ihlo ihhi =>
    intro m hv
    simp only [HTree.Valid] at hv
    exact ⟨hv.1, ihlo _ hv.2.1, ihhi _ hv.2.2⟩
  | pruned mask bits refs t => intro m _; trivial

/-! ### lookups -/

theorem get_append (A B : List (Key × V)) (k : Key) :
    get (A ++ B) k = match get A k with | some v => some v | none => get B k := by
  induction A with
  | nil => simp [get]
  | cons x A ih =>
    obtain ⟨k', v'⟩ := x
    simp only [List.cons_append, get]
    split
    · rfl
    · exact ih

theorem get_map_prefix (q : Key) (A : List (Key × V)) (r : Key) :
    get (A.map fun kv => (q ++ kv.1, kv.2)) (q ++ r) = get A r := by
  induction A with
  | nil => simp [get]
  | cons x A ih =>
    obtain ⟨k', v'⟩ := x
    simp only [List.map_cons, get, ih]
    by_cases h : k' = r
    · subst h; simp
    · have h1 : (k' == r) = false := by simpa using h
      have h2 : (q ++ k' == q ++ r) = false := by simpa using h
      simp [h1, h2]

theorem get_map_none (f : Key × V → Key × V) (A : List (Key × V)) (k : Key) (h : ∀ kv ∈ A, (f kv).1 ≠ k) :
    get (A.map f) k = none := by
  rw [get_eq_none_iff]
  intro hk
  obtain ⟨x, hx, hxe⟩ := List.mem_map.mp hk
  obtain ⟨y, hy, rfl⟩ := List.mem_map.mp hx
  exact h y hy hxe

theorem get_fork_false (L : Key) (A B : List (Key × V)) (r : Key) :
    get (A.map (fun kv => (L ++ false :: kv.1, kv.2)) ++ B.map (fun kv => (L ++ true :: kv.1, kv.2)))
      (L ++ false :: r) = get A r := by
  rw [get_append]
  have h1 := get_map_prefix (L ++ [false]) A r
  simp only [List.append_assoc, List.singleton_append] at h1
  have h2 : get (B.map fun kv => (L ++ true :: kv.1, kv.2)) (L ++ false :: r) = none :=
    get_map_none _ B _ (by intro kv _ h; simp at h)
  rw [h1, h2]
  cases get A r <;> rfl

theorem get_fork_true (L : Key) (A B : List (Key × V)) (r : Key) :
    get (A.map (fun kv => (L ++ false :: kv.1, kv.2)) ++ B.map (fun kv => (L ++ true :: kv.1, kv.2)))
      (L ++ true :: r) = get B r := by
  rw [get_append]
  have h1 : get (A.map fun kv => (L ++ false :: kv.1, kv.2)) (L ++ true :: r) = none :=
    get_map_none _ A _ (by intro kv _ h; simp at h)
  have h2 := get_map_prefix (L ++ [true]) B r
  simp only [List.append_assoc, List.singleton_append] at h2
  rw [h1, h2]

theorem get_fork_none (L : Key) (A B : List (Key × V)) (k : Key) (h : ∀ b r, k ≠ L ++ b :: r) :
    get (A.map (fun kv => (L ++ false :: kv.1, kv.2)) ++ B.map (fun kv => (L ++ true :: kv.1, kv.2))) k = none := by
  rw [get_append]
  have h1 : get (A.map fun kv => (L ++ false :: kv.1, kv.2)) k = none :=
    get_map_none _ A _ (by intro kv _ e; exact h false kv.1 e.symm)
  have h2 : get (B.map fun kv => (L ++ true :: kv.1, kv.2)) k = none :=
    get_map_none _ B _ (by intro kv _ e; exact h true kv.1 e.symm)
  rw [h1, h2]

/-- lookup in the listing of a fork: follow the label and the branch bit -/
theorem get_fork (L : Key) (A B : List (Key × V)) (k : Key) :
    get (A.map (fun kv => (L ++ false :: kv.1, kv.2)) ++ B.map (fun kv => (L ++ true :: kv.1, kv.2))) k =
      if k.take L.length == L then
        match k.drop L.length with
        | false :: r => get A r
        | true :: r => get B r
        | [] => none
      else none := by
  by_cases hp : k.take L.length = L
  · have hk : k = L ++ k.drop L.length := by
      conv => lhs; rw [← List.take_append_drop L.length k]
      rw [hp]
    generalize k.drop L.length = d at hk
    subst hk
    have e1 : (L ++ d).take L.length = L := by simp
    have e2 : (L ++ d).drop L.length = d := by simp
    simp only [e1, e2, beq_self_eq_true, if_true]
    match d with
    | [] => exact get_fork_none L A B _ (by intro b r h; simp at h)
    | false :: r => exact get_fork_false L A B r
    | true :: r => exact get_fork_true L A B r
  · have hb : (k.take L.length == L) = false := by simpa using hp
    simp only [hb, Bool.false_eq_true, if_false]
    exact get_fork_none L A B k (by intro b r h; apply hp; rw [h]; simp)

/-- lookups on the decoded proof agree with the full dictionary for every key whose path is not pruned -/
theorem get_prunes (p : PTree V) (t : HTree V) (h : PTree.Prunes p t) :
    ∀ k, p.covers k = true → get p.meaning k = get t.meaning k := by
  induction h with
  | leaf l v => intro k _; rfl
  | pruned mask bits refs t => intro k hc; simp [PTree.covers] at hc
  | fork l _ _ ihlo ihhi =>
    intro k hc
    simp only [PTree.meaning, HTree.meaning, get_fork]
    simp only [PTree.covers] at hc
    split
    · rename_i hp
      simp only [hp, if_true] at hc
      split
      · rename_i r hd; simp only [hd] at hc; exact ihlo r hc
      · rename_i r hd; simp only [hd] at hc; exact ihhi r hc
      · rfl
    · rfl

end Tongo.Hashmap
