import TongoProofs.Lemmas.PoolSMNotify
/-! Deadlock freedom of the repaired wait-list protocol (helper lemmas for C13). -/
namespace Tongo.PoolSM

/-- some thread can take a step of its own (not a ticker tick, not a timer / cancellation) -/
def CanStep (v : Variant) (s : State) : Prop := ∃ a, a.isEnv = false ∧ (step v s a).isSome = true

theorem wSub_enabled {v s} (cf : ∀ c, connFree s c = true) {k : Nat} {x : Waiter}
    (hx : s.waiters[k]? = some x) (hpc : x.pc = .subRead) : CanStep v s := by
  refine ⟨.wSub k, rfl, ?_⟩
  simp only [step, hx, hpc, if_true]
  cases hb : s.best with
  | none => simp
  | some c =>
    simp only [cf c, if_true]
    split <;> simp

/-- whoever holds the pool lock as a waiter can move -/
theorem holder_enabled {v s} (hA : InvA s) (cf : ∀ c, connFree s c = true) {k : Nat} (h : s.rw = .wrW k) :
    CanStep v s := by
  obtain ⟨x, hx⟩ := hA.l2 k h
  exact wSub_enabled cf hx ((hA.l1 k x hx).mpr h)

theorem quiescent_of {s : State} (hrun : s.run = .idle) (hupd : s.upd = [])
    (hw : ∀ (i : Nat) (w : Waiter), s.waiters[i]? = some w →
      (w.pc = .sel ∧ w.buf = [] ∧ w.timer ≠ .due) ∨ ∃ r, w.pc = .done r)
    (hsr : ∀ (j : Nat) (x : Setter), s.setters[j]? = some x → x.pc = .done) : quiescent s = true := by
  simp only [quiescent, hrun, hupd, beq_self_eq_true, List.isEmpty_nil, Bool.and_true, Bool.true_and,
    Bool.and_eq_true, List.all_eq_true]
  constructor
  · intro w hmem
    obtain ⟨i, hi⟩ := List.mem_iff_getElem?.mp hmem
    rcases hw i w hi with ⟨h1, h2, h3⟩ | ⟨r, h1⟩
    · simp [h1, h2, h3]
    · simp [h1]
  · intro x hmem
    obtain ⟨j, hj⟩ := List.mem_iff_getElem?.mp hmem
    simp [hsr j x hj]

/-- **Deadlock freedom of the repaired protocol**: in every reachable state either some thread can take a step of its
own, or every thread is finished or parked in its select on an empty channel. -/
theorem no_deadlock_of_inv {v s} (hn : v.nbNotify = true) (hA : InvA s) (cf : ∀ c, connFree s c = true) :
    quiescent s = true ∨ CanStep v s := by
  cases hrun : s.run with
  | ubWant =>
    right
    cases hrw : s.rw with
    | free => exact ⟨.ubLock, rfl, by simp [step, hrun, hrw]⟩
    | wrW k => exact holder_enabled hA cf hrw
    | rd => have := hA.l4.mp hrw; simp [hrun, RunPc.lockR] at this
    | wrRun => have := hA.l3.mp hrw; simp [hrun, RunPc.lockW] at this
  | ubRead i seqs rts =>
    right
    refine ⟨.ubRead, rfl, ?_⟩
    simp only [step, hrun, cf i, if_true]
    split <;> simp
  | ubSel i seqs rts acc =>
    right
    by_cases hi : i < s.heads.length
    · refine ⟨.ubSel, rfl, ?_⟩
      simp only [step, hrun, hi, cf i, if_true]
      split <;> simp
    · refine ⟨.ubSet, rfl, ?_⟩
      simp only [step, hrun, Nat.le_of_not_lt hi, if_true]
      split
      · simp
      · split <;> simp
  | nWant c h =>
    right
    cases hrw : s.rw with
    | free => exact ⟨.nRLock, rfl, by simp [step, hrun, hrw]⟩
    | wrW k => exact holder_enabled hA cf hrw
    | rd => have := hA.l4.mp hrw; simp [hrun, RunPc.lockR] at this
    | wrRun => have := hA.l3.mp hrw; simp [hrun, RunPc.lockW] at this
  | nCheck c h =>
    right
    refine ⟨.nCheck, rfl, ?_⟩
    simp only [step, hrun]
    split <;> simp
  | nLoop sw h todo =>
    right
    cases todo with
    | nil => exact ⟨.nDone, rfl, by simp [step, hrun]⟩
    | cons w t =>
      obtain ⟨x, hx, _⟩ := hA.vLoop sw h (w :: t) hrun w (by simp)
      refine ⟨.nDrain w, rfl, ?_⟩
      simp only [step, hrun, hn, hx, List.mem_cons, true_or, and_self, if_true]
      cases x.buf <;> simp
  | nPut sw h h' w todo =>
    right
    obtain ⟨⟨x, hx, _⟩, _⟩ := hA.vPut sw h h' w todo hrun
    refine ⟨.nPut, rfl, ?_⟩
    simp only [step, hrun, hx]
    split <;> simp
  | idle =>
    have hnotRd : s.rw ≠ .rd := fun h => by have := hA.l4.mp h; simp [hrun, RunPc.lockR] at this
    have hnotWr : s.rw ≠ .wrRun := fun h => by have := hA.l3.mp h; simp [hrun, RunPc.lockW] at this
    -- the pool lock is free or held by a waiter that can move
    have lockOr : s.rw = .free ∨ CanStep v s := by
      cases hrw : s.rw with
      | free => exact Or.inl rfl
      | wrW k => exact Or.inr (holder_enabled hA cf hrw)
      | rd => exact absurd hrw hnotRd
      | wrRun => exact absurd hrw hnotWr
    cases hupd : s.upd with
    | cons e rest =>
      right
      obtain ⟨c, h⟩ := e
      exact ⟨.recv, rfl, by simp [step, hrun, hupd]⟩
    | nil =>
      by_cases hS : ∀ (j : Nat) (x : Setter), s.setters[j]? = some x → x.pc = .done
      · by_cases hW : ∀ (i : Nat) (w : Waiter), s.waiters[i]? = some w →
            (w.pc = .sel ∧ w.buf = [] ∧ w.timer ≠ .due) ∨ ∃ r, w.pc = .done r
        · exact Or.inl (quiescent_of hrun hupd hW hS)
        · right
          have ⟨i, w, hw, hbad⟩ : ∃ (i : Nat) (w : Waiter), s.waiters[i]? = some w ∧
              ¬((w.pc = .sel ∧ w.buf = [] ∧ w.timer ≠ .due) ∨ ∃ r, w.pc = .done r) := by
            apply Classical.byContradiction
            intro hno
            apply hW
            intro i w hw
            apply Classical.byContradiction
            intro hb
            exact hno ⟨i, w, hw, hb⟩
          cases hpc : w.pc with
          | start =>
            rcases lockOr with hfree | hc
            · exact ⟨.wLock i, rfl, by simp [step, hw, hpc, hfree]⟩
            · exact hc
          | subRead => exact wSub_enabled cf hw hpc
          | sel =>
            cases hbuf : w.buf with
            | nil =>
              by_cases hdue : w.timer = .due
              · exact ⟨.wFire i, rfl, by simp [step, hw, hpc, hdue]⟩
              · exact absurd (Or.inl ⟨hpc, hbuf, hdue⟩) hbad
            | cons u rest => exact ⟨.wRecv i, rfl, by simp [step, hw, hpc, hbuf]⟩
          | leave r =>
            rcases lockOr with hfree | hc
            · exact ⟨.wUnsub i, rfl, by simp [step, hw, hpc, hfree]⟩
            · exact hc
          | done r => exact absurd (Or.inr ⟨r, hpc⟩) hbad
      · right
        have ⟨j, x, hx, hbad⟩ : ∃ (j : Nat) (x : Setter), s.setters[j]? = some x ∧ x.pc ≠ .done := by
          apply Classical.byContradiction
          intro hno
          apply hS
          intro j x hx
          apply Classical.byContradiction
          intro hb
          exact hno ⟨j, x, hx, hb⟩
        cases hpc : x.pc with
        | start =>
          refine ⟨.sLock j, rfl, ?_⟩
          simp only [step, hx, hpc, cf x.conn, and_self, if_true]
          split
          · split <;> simp
          · simp
        | sendLocked => exact ⟨.sSend j, rfl, by simp [step, hx, hpc, hupd, updCap]⟩
        | sendUnlocked => exact ⟨.sSend j, rfl, by simp [step, hx, hpc, hupd, updCap]⟩
        | done => exact absurd hpc hbad

theorem no_deadlock_reachable {v s} (hn : v.nbNotify = true) (hp : v.pubUnlocked = true) (hr : Reachable v s) :
    quiescent s = true ∨ CanStep v s :=
  no_deadlock_of_inv hn (reachable_invA hr) (reachable_connFree hp hr)

/-! ### completeness of the candidate-action enumeration (so that `deadlocked` means what it says) -/

/-- the environment changing a member's liveness / round-trip time (these never unblock a thread) -/
def _root_.Tongo.PoolSM.Action.isAttr : Action → Bool
  | .setAlive _ _ => true
  | .setRtt _ _ => true
  | _ => false

theorem step_some_mem {v s a s'} (hs : step v s a = some s') (ha : a.isAttr = false) : a ∈ allActions s := by
  have hw : ∀ i (x : Waiter), s.waiters[i]? = some x → i < s.waiters.length := fun i x h =>
    (List.getElem?_eq_some_iff.mp h).1
  have hse : ∀ j (x : Setter), s.setters[j]? = some x → j < s.setters.length := fun j x h =>
    (List.getElem?_eq_some_iff.mp h).1
  cases a <;> (try (simp [Action.isAttr] at ha; done)) <;> step_cases hs <;>
    simp only [allActions, List.mem_append, List.mem_cons, List.mem_map, List.mem_range, List.mem_flatMap,
      reduceCtorEq, Option.some.injEq, Action.nSend.injEq, Action.nDrain.injEq,
      Action.wLock.injEq, Action.wSub.injEq, Action.wRecv.injEq, Action.wFire.injEq, Action.wUnsub.injEq,
      Action.wDeadline.injEq, Action.wCancel.injEq,
      Action.sLock.injEq, Action.sSend.injEq, List.not_mem_nil, or_false, false_or, or_true, true_or,
      exists_eq_right, exists_eq_right'] <;>
    grind

/-- a state in which `deadlocked` holds is not quiescent and no thread, ticker or timer can act (the only enabled
actions, if any, are changes of a member's liveness / round-trip time, which unblock nothing) -/
theorem deadlocked_spec {v s} (h : deadlocked v s = true) :
    (∀ a, a.isAttr = false → step v s a = none) ∧ quiescent s = false := by
  simp only [deadlocked, Bool.and_eq_true, List.isEmpty_iff, Bool.not_eq_true'] at h
  refine ⟨fun a ha => ?_, h.2⟩
  cases hs : step v s a with
  | none => rfl
  | some s' =>
    have hm := step_some_mem hs ha
    have : a ∈ enabledActions v s := by
      simp only [enabledActions, List.mem_filter]
      exact ⟨hm, by simp [hs]⟩
    rw [h.1] at this
    cases this

theorem reachable_of_runTrace {v : Variant} (as : List Action) : ∀ {s0 s : State}, Reachable v s0 →
    runTrace v s0 as = some s → Reachable v s := by
  induction as with
  | nil => intro s0 s hr h; simp only [runTrace, Option.some.injEq] at h; subst h; exact hr
  | cons a as ih =>
    intro s0 s hr h
    simp only [runTrace] at h
    cases hs : step v s0 a with
    | none => rw [hs] at h; cases h
    | some s1 => rw [hs] at h; exact ih (Reachable.step hr hs) h

end Tongo.PoolSM
