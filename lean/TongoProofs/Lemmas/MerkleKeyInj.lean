import TongoProofs.Lemmas.CellHashInj
import TongoProofs.Lemmas.BocCellTable
import TongoProofs.Lemmas.MerkleCompose
/-! C18 `proof_boc` without premises about the writer: the proof cell's table presentation (agent boc's `cellTable`) is
a valid layout and Go's de-duplication key (the representation hash) identifies its rows exactly up to structural
equality — from `reprHash_inj_wfExotic` and collision-freedom on the proof's representations. -/
open Tongo Tongo.Merkle
namespace Tongo.MerkleLemmas
open Tongo.CellHashLemmas Tongo.Boc Tongo.Boc.Order

/-! ### sub-cells inherit everything -/

theorem self_mem_subcells (c : Cell) : c ∈ Spec.subcells c := by cases c; simp [Spec.subcells]

mutual
theorem sub_wf : ∀ (c : Cell), Spec.wfExotic c = true → ∀ s ∈ Spec.subcells c, Spec.wfExotic s = true
  | .mk ty mask bits kids, h, s, hs => by
    simp only [Spec.subcells, List.mem_cons] at hs
    rcases hs with rfl | hs
    · exact h
    · exact subL_wf kids (wfExotic_node h).2 s hs
theorem subL_wf : ∀ (cs : List Cell), Spec.wfExoticL cs = true → ∀ s ∈ Spec.subcellsL cs, Spec.wfExotic s = true
  | [], _, s, hs => by simp [Spec.subcellsL] at hs
  | c :: cs, h, s, hs => by
    simp only [Spec.wfExoticL, Bool.and_eq_true] at h
    simp only [Spec.subcellsL, List.mem_append] at hs
    rcases hs with hs | hs
    · exact sub_wf c h.1 s hs
    · exact subL_wf cs h.2 s hs
end

mutual
theorem sub_notDeep : ∀ (c : Cell), Spec.tooDeep c = false → ∀ s ∈ Spec.subcells c, Spec.tooDeep s = false
  | .mk ty mask bits kids, h, s, hs => by
    simp only [Spec.subcells, List.mem_cons] at hs
    rcases hs with rfl | hs
    · exact h
    · simp only [Spec.tooDeep, Bool.or_eq_false_iff] at h
      exact subL_notDeep kids h.1 s hs
theorem subL_notDeep : ∀ (cs : List Cell), Spec.tooDeepL cs = false → ∀ s ∈ Spec.subcellsL cs, Spec.tooDeep s = false
  | [], _, s, hs => by simp [Spec.subcellsL] at hs
  | c :: cs, h, s, hs => by
    simp only [Spec.tooDeepL, Bool.or_eq_false_iff] at h
    simp only [Spec.subcellsL, List.mem_append] at hs
    rcases hs with hs | hs
    · exact sub_notDeep c h.1 s hs
    · exact subL_notDeep cs h.2 s hs
end

mutual
theorem sub_reprs (H : List UInt8 → List UInt8) : ∀ (c : Cell), ∀ s ∈ Spec.subcells c,
    ∀ x ∈ Spec.allReprs H s, x ∈ Spec.allReprs H c
  | .mk ty mask bits kids, s, hs, x, hx => by
    simp only [Spec.subcells, List.mem_cons] at hs
    rcases hs with rfl | hs
    · exact hx
    · simp only [Spec.allReprs, List.mem_append]
      exact Or.inr (subL_reprs H kids s hs x hx)
theorem subL_reprs (H : List UInt8 → List UInt8) : ∀ (cs : List Cell), ∀ s ∈ Spec.subcellsL cs,
    ∀ x ∈ Spec.allReprs H s, x ∈ Spec.allReprsL H cs
  | [], s, hs, _, _ => by simp [Spec.subcellsL] at hs
  | c :: cs, s, hs, x, hx => by
    simp only [Spec.subcellsL, List.mem_append] at hs
    simp only [Spec.allReprsL, List.mem_append]
    rcases hs with hs | hs
    · exact Or.inl (sub_reprs H c s hs x hx)
    · exact Or.inr (subL_reprs H cs s hs x hx)
end

/-! ### every row of `cellTable c` unfolds to a sub-cell of `c` -/

mutual
theorem rows_sub : ∀ (c : Cell) (F : Table) (off : Nat), Loc F off (rowsOf c off) → ∀ k, k < nodes c →
    ∃ s ∈ Spec.subcells c, Loc F (off + k) (rowsOf s (off + k)) ∧ nodes s ≤ nodes c
  | .mk ty mask bits kids, F, off, hloc, k, hk => by
    cases k with
    | zero => exact ⟨_, self_mem_subcells _, by simpa using hloc, Nat.le_refl _⟩
    | succ j =>
      have hl : Loc F (off + 1) (rowsOfL kids (off + 1)) := by
        intro k row hk
        have := hloc (k + 1) row (by simp [rowsOf]; exact hk)
        rwa [Nat.add_assoc, Nat.add_comm 1 k] at *
      obtain ⟨s, hs, h1, h2⟩ := rowsL_sub kids F (off + 1) hl j (by simp [nodes] at hk; omega)
      refine ⟨s, by simp only [Spec.subcells, List.mem_cons]; exact Or.inr hs, ?_, by simp [nodes]; omega⟩
      have e : off + (j + 1) = off + 1 + j := by omega
      rw [e]; exact h1
theorem rowsL_sub : ∀ (cs : List Cell) (F : Table) (off : Nat), Loc F off (rowsOfL cs off) → ∀ k, k < nodesL cs →
    ∃ s ∈ Spec.subcellsL cs, Loc F (off + k) (rowsOf s (off + k)) ∧ nodes s ≤ nodesL cs
  | [], _, _, _, k, hk => by simp [nodesL] at hk
  | c :: cs, F, off, hloc, k, hk => by
    simp only [rowsOfL] at hloc
    simp only [nodesL] at hk
    by_cases hkc : k < nodes c
    · obtain ⟨s, hs, h1, h2⟩ := rows_sub c F off hloc.left k hkc
      exact ⟨s, by simp only [Spec.subcellsL, List.mem_append]; exact Or.inl hs, h1, by simp [nodesL]; omega⟩
    · have hr := hloc.right
      rw [rowsOf_length] at hr
      obtain ⟨s, hs, h1, h2⟩ := rowsL_sub cs F (off + nodes c) hr (k - nodes c) (by omega)
      refine ⟨s, by simp only [Spec.subcellsL, List.mem_append]; exact Or.inr hs, ?_, by simp [nodesL]; omega⟩
      have e : off + nodes c + (k - nodes c) = off + k := by omega
      rw [e] at h1; exact h1
end

theorem cellTable_size (c : Cell) : (cellTable c).size = nodes c := by simp [cellTable, rowsOf_length]

theorem cellTable_row_sub (c : Cell) (i : Nat) (hi : i < (cellTable c).size) :
    ∃ s ∈ Spec.subcells c, Table.unfold (cellTable c) ((cellTable c).size + 1) i = some s := by
  rw [cellTable_size] at hi
  obtain ⟨s, hs, h1, h2⟩ := rows_sub c (cellTable c) 0 (loc_cellTable c) i hi
  refine ⟨s, hs, ?_⟩
  have := unfold_rowsOf s (cellTable c) (0 + i) ((cellTable c).size + 1) h1 (by rw [cellTable_size]; omega)
  simpa using this


theorem reprHash_ok (H : List UInt8 → List UInt8) (s : Cell) (hwf : Spec.wfExotic s = true)
    (hd : Spec.tooDeep s = false) : Cell.reprHash H s = .ok (Spec.reprHash H s) := by
  obtain ⟨info, e, _, _, _, hm⟩ := (good_cell H s (wfExotic_wfSizes s hwf)).1 hd
  simp only [Cell.reprHash, e, Outcome.bind_ok]
  exact (hm 3 (by omega)).1

theorem collisionFree_mono {H : List UInt8 → List UInt8} {S S' : List (List UInt8)} (cf : CollisionFree H S)
    (h : ∀ x ∈ S', x ∈ S) : CollisionFree H S' :=
  fun x hx y hy e => cf x (h x hx) y (h y hy) e

/-- **Go's de-duplication key identifies the rows of the table of a well-formed tree** exactly up to structural
equality, given 32-byte digests and no collision among the representations hashed for the tree (any cell types, any
masks ≤ 7: Merkle proofs with their mask-1 cells and pruned branches included) -/
theorem keyInjOn_cellTable (H : List UInt8 → List UInt8) (hlen : ∀ x, (H x).length = 32) (c : Cell)
    (hwf : Spec.wfExotic c = true) (hd : Spec.tooDeep c = false) (cf : CollisionFree H (Spec.allReprs H c)) :
    KeyInjOn (cellTable c) (goKey H (cellTable c)) := by
  have key : ∀ i, i < (cellTable c).size → ∃ s ∈ Spec.subcells c,
      Table.unfold (cellTable c) ((cellTable c).size + 1) i = some s ∧
      goKey H (cellTable c) i = some (Spec.reprHash H s) := by
    intro i hi
    obtain ⟨s, hs, hu⟩ := cellTable_row_sub c i hi
    refine ⟨s, hs, hu, ?_⟩
    simp only [goKey, hu, reprHash_ok H s (sub_wf c hwf s hs) (sub_notDeep c hd s hs)]
  refine ⟨fun i hi => ?_, fun i j hi hj => ?_⟩
  · obtain ⟨s, _, _, hk⟩ := key i hi
    rw [hk]; rfl
  · obtain ⟨si, hsi, hui, hki⟩ := key i hi
    obtain ⟨sj, hsj, huj, hkj⟩ := key j hj
    rw [hki, hkj, hui, huj]
    constructor
    · intro h
      injection h with h
      have := reprHash_inj_wfExotic H hlen si sj (sub_wf c hwf si hsi) (sub_wf c hwf sj hsj)
        (collisionFree_mono cf (fun x hx => by
          rcases List.mem_append.mp hx with hx | hx
          · exact sub_reprs H c si hsi x hx
          · exact sub_reprs H c sj hsj x hx)) h
      rw [this]
    · intro h
      injection h with h
      rw [h]


/-! ### the structural depth of a well-formed tree is bounded by its depth at level 3 -/

theorem depthLevel_ge_level (ty mask : Nat) (bits : List Bool) (kd : List (Nat → Nat)) (hm : mask < 8) :
    ∀ l, Spec.level mask ≤ l → l ≤ 4 →
      Spec.depthLevel ty mask bits kd l = Spec.depthLevel ty mask bits kd (Spec.level mask) := by
  intro l
  induction l with
  | zero => intro h _; have : Spec.level mask = 0 := by omega
            rw [this]
  | succ j ih =>
    intro h h4
    by_cases he : Spec.level mask = j + 1
    · rw [he]
    · have hns := (inj_facts mask hm j (by omega)).2.2.2.1 (by omega)
      have hnp : ¬ (ty = tyPruned ∧ j + 1 < Spec.level mask) := by rintro ⟨_, h2⟩; omega
      rw [Spec.depthLevel]
      simp only [hnp, if_false, hns, Bool.not_false, if_true]
      exact ih (by omega) (by omega)

theorem depthAt_ge_level (c : Cell) (hm : c.mask < 8) (l : Nat) (hl : Spec.level c.mask ≤ l) (h4 : l ≤ 4) :
    Spec.depthAt c l = Spec.depthAt c 3 := by
  cases c with
  | mk ty mask bits kids =>
    simp only [Spec.depthAt]
    have hm' : mask < 8 := hm
    rw [depthLevel_ge_level ty mask bits _ hm' l hl h4,
      depthLevel_ge_level ty mask bits _ hm' 3 (inj_facts mask hm' 0 (by omega)).2.1 (by omega)]

theorem foldl_max_eq (l : List Nat) (a : Nat) : l.foldl max a = max a (l.foldl max 0) := by
  induction l generalizing a with
  | nil => simp
  | cons x t ih => simp only [List.foldl_cons]; rw [ih (max a x), ih (max 0 x)]; omega

mutual
theorem cellDepth_le (c : Cell) : Spec.wfExotic c = true → cellDepth c ≤ Spec.depthAt c 3 :=
  match c with
  | .mk ty mask bits kids => by
    intro h
    obtain ⟨w1, w2⟩ := wfExotic_node h
    have hm : mask < 8 := by
      simp only [Spec.wfNode, Bool.and_eq_true, decide_eq_true_eq] at w1; omega
    simp only [cellDepth]
    cases hk : kids with
    | nil => simp [cellDepthList]
    | cons k0 ks =>
      rw [← hk]
      have hp : ty ≠ tyPruned := by
        intro hp; subst hp
        simp only [Spec.wfNode, show tyPruned ≠ tyOrdinary from by decide, if_false, if_true, Bool.and_eq_true,
          List.isEmpty_iff] at w1
        rw [w1.2.1.1] at hk; cases hk
      have lv := kid_level_le w1 (fun c hc => wf_mask_lt (wfExoticL_mem kids w2 c hc))
      simp only [Spec.depthAt]
      rw [depthLevel_ge_level ty mask bits _ hm 3 (inj_facts mask hm 0 (by omega)).2.1 (by omega),
        depthLevel_sig hp (inj_facts mask hm 0 (by omega)).1]
      exact cellDepthL_le kids w2 _ (fun c hc => (lv c hc).1)
        (by have := lv k0 (by rw [hk]; simp); exact this.2)
theorem cellDepthL_le (cs : List Cell) : Spec.wfExoticL cs = true → ∀ l, (∀ c ∈ cs, Spec.level c.mask ≤ l) → l ≤ 4 →
    cellDepthList cs ≤ Spec.nodeDepth ((Spec.depthAtL cs).map (· l)) :=
  match cs with
  | [] => by intro _ l _ _; simp [cellDepthList]
  | c :: cs => by
    intro h l hl h4
    simp only [Spec.wfExoticL, Bool.and_eq_true] at h
    have i1 := cellDepth_le c h.1
    have i2 := cellDepthL_le cs h.2 l (fun x hx => hl x (by simp [hx])) h4
    rw [← depthAt_ge_level c (wf_mask_lt h.1) l (hl c (by simp)) h4] at i1
    simp only [cellDepthList, Spec.depthAtL, List.map_cons, Spec.nodeDepth, List.isEmpty_cons, Bool.false_eq_true,
      if_false, List.foldl_cons]
    rw [foldl_max_eq]
    simp only [Spec.nodeDepth] at i2
    split at i2
    · omega
    · omega
end

/-- a well-formed tree that hashing accepts is at most 1024 levels deep -/
theorem cellDepth_le_max (c : Cell) (hwf : Spec.wfExotic c = true) (hd : Spec.tooDeep c = false) :
    cellDepth c ≤ maxDepth := by
  cases c with
  | mk ty mask bits kids =>
    have h := cellDepth_le _ hwf
    by_cases hp : ty = tyPruned
    · subst hp
      obtain ⟨w1, _⟩ := wfExotic_node hwf
      simp only [Spec.wfNode, show tyPruned ≠ tyOrdinary from by decide, if_false, if_true, Bool.and_eq_true,
        List.isEmpty_iff] at w1
      rw [w1.2.1.1]; simp [cellDepth, cellDepthList]
    · simp only [Spec.tooDeep, Bool.or_eq_false_iff, Spec.deepNode, Bool.and_eq_false_iff, List.any_eq_false] at hd
      rcases hd.2 with h1 | h1
      · exact absurd h1 (by simp [hp])
      · have := h1 3 (by simp)
        have this : ¬ (1024 < Spec.depthLevel ty mask bits (Spec.depthAtL kids) 3) := by
          intro hlt
          exact this (by simp only [Spec.maxDepth]; exact decide_eq_true hlt)
        simp only [Spec.depthAt] at h
        unfold maxDepth
        omega


/-! ### the proof cell is within the limits of the format (`CellOK`) -/

theorem toppedUp_bytesToBits (bs : List UInt8) : Bits.toppedUp (Bits.bytesToBits bs) = bs := by
  unfold Bits.toppedUp Bits.addTag
  rw [if_pos (by rw [bytesToBits_length]; omega), bitsToBytes_bytesToBits]

theorem cellOK_pruned (h : List UInt8) (d : Nat) (hh : h.length = 32) : CellOK (prunedCell h d) := by
  simp only [prunedCell, CellOK, CellOKL, and_true, bytesToBits_length, List.length_append, hh, be16_length,
    List.length_cons, List.length_nil, toppedUp_bytesToBits]
  refine ⟨by omega, by omega, by decide, by omega, ?_, ?_⟩
  · intro _
    simp only [show LevelMask.hashIndex 1 = 1 from by decide, hashSize, depthSize]
    omega
  · intro _; rfl

mutual
theorem cellOK_specPrune (H : List UInt8 → List UInt8) (hH : H32 H) (P : List Nat → Bool) :
    ∀ (c : Cell) (path : List Nat), plain c = true → CellOK c → CellOK (specPrune H P path c)
  | .mk ty mask bits refs, path, hp, hok => by
    obtain ⟨hty, hm, hwf, hpl⟩ := plain_node hp
    by_cases hP : P path = true
    · simp only [specPrune, hP, if_true]
      apply cellOK_pruned
      simp only [Spec.hashAt, (hashLevel_zero H hty mask bits _ _).1]; exact hH _
    · obtain ⟨_, l2, l3⟩ := specPruneList_wf H hH P refs path 0 hpl
      subst hm
      have hle := orMasks_le_one (specPruneList H P path 0 refs) 0 (by omega) l2
      simp only [CellOK] at hok
      obtain ⟨o1, _, o3, o4, _, o6, o7⟩ := hok
      simp only [specPrune, hP, Bool.false_eq_true, if_false, CellOK]
      refine ⟨o1, by omega, o3, by rw [l3]; exact o4, ?_, o6, cellOKL_specPrune H hH P refs path 0 hpl o7⟩
      intro hpr
      exact absurd hpr (plain_ty hty).1
theorem cellOKL_specPrune (H : List UInt8 → List UInt8) (hH : H32 H) (P : List Nat → Bool) :
    ∀ (cs : List Cell) (path : List Nat) (i : Nat), plainL cs = true → CellOKL cs →
      CellOKL (specPruneList H P path i cs)
  | [], _, _, _, _ => by simp [specPruneList, CellOKL]
  | c :: cs, path, i, hp, hok => by
    simp only [plainL, Bool.and_eq_true] at hp
    simp only [CellOKL] at hok
    simp only [specPruneList, CellOKL]
    exact ⟨cellOK_specPrune H hH P c (path ++ [i]) hp.1 hok.1, cellOKL_specPrune H hH P cs path (i + 1) hp.2 hok.2⟩
end

/-- **What `C18.proof_boc` needs of the proof, with no premise about the writer left**: if `createProof` returns
`proof` for a supported tree within the limits of the format, then agent boc's table presentation `cellTable proof` is
a valid layout whose row 0 unfolds to `proof`, and Go's de-duplication key satisfies `KeyInjOn` on it as soon as `H` is
collision-free on the representations hashed for the proof. -/
theorem proof_presentation (H : List UInt8 → List UInt8) (hH : H32 H) (P : List Nat → Bool) (root proof : Cell)
    (hp : plain root = true) (hok : CellOK root) (h : createProof H P root = .ok proof)
    (cf : CollisionFree H (Spec.allReprs H proof)) :
    ValidLayout (cellTable proof) [0] ∧
    Table.unfold (cellTable proof) ((cellTable proof).size + 1) 0 = some proof ∧
    KeyInjOn (cellTable proof) (goKey H (cellTable proof)) := by
  obtain ⟨_, h2, h3, h4⟩ := createProof_ok H hH P root hp h
  have hh : (Spec.hashAt H root 0).length = 32 := by
    cases root with
    | mk ty mask bits refs =>
      obtain ⟨hty, _⟩ := plain_node hp
      simp only [Spec.hashAt, (hashLevel_zero H hty mask bits _ _).1]; exact hH _
  have hcok : CellOK proof := by
    rw [h2]
    have hc := cellOK_specPrune H hH P root [] hp hok
    have hm := (specPrune_wf H hH P root [] hp).2
    simp only [proofCell, CellOK, CellOKL, and_true, bytesToBits_length, List.length_append, hh, be16_length,
      List.length_cons, List.length_nil, toppedUp_bytesToBits]
    exact ⟨by omega, by omega, by decide, by omega, fun hq => absurd hq (by decide), fun _ => rfl, hc⟩
  exact ⟨cellTable_valid proof hcok (cellDepth_le_max proof h3 h4), cellTable_unfold proof,
    keyInjOn_cellTable H hH proof h3 h4 cf⟩

/-- Boolean form of `CollisionFree` on a list -/
def cfCheck (H : List UInt8 → List UInt8) (S : List (List UInt8)) : Bool :=
  S.all fun x => S.all fun y => H x != H y || x == y

theorem cfCheck_sound (H : List UInt8 → List UInt8) (S : List (List UInt8)) (h : cfCheck H S = true) :
    CollisionFree H S := by
  intro x hx y hy e
  simp only [cfCheck, List.all_eq_true, Bool.or_eq_true, bne_iff_ne, ne_eq, beq_iff_eq] at h
  rcases h x hx y hy with h1 | h1
  · exact absurd e h1
  · exact h1


end Tongo.MerkleLemmas
