import TongoProofs.Lemmas.PoolSMDeadlock
/-! Liveness of the repaired wait protocol under explicit fairness (helper lemmas for C13.wait_success_spec). -/
namespace Tongo.PoolSM

attribute [local grind =] List.mem_filter List.mem_append List.mem_map List.mem_cons
attribute [local grind →] List.mem_of_mem_erase

/-- an infinite execution: every step is an enabled action of the transition system, from a reachable state -/
structure Exec (v : Variant) where
  st : Nat → State
  act : Nat → Action
  ok : ∀ n, step v (st n) (act n) = some (st (n + 1))
  init : Reachable v (st 0)

theorem Exec.reachable {v} (e : Exec v) : ∀ n, Reachable v (e.st n)
  | 0 => e.init
  | n + 1 => Reachable.step (e.reachable n) (e.ok n)

/-- the actions of the `Run` goroutine itself (the ticker is the environment's) -/
def RunAct : Action → Bool
  | .ubLock | .ubRead | .ubSel | .ubSet | .recv | .nRLock | .nCheck | .nSend _ | .nDrain _ | .nPut | .nDone => true
  | _ => false

/-- waiter `i` receiving from its channel -/
def RecvAct (i : Nat) : Action → Bool
  | .wRecv j => j == i
  | _ => false

/-- weak fairness: a class of actions that stays enabled forever is eventually taken -/
def WeakFair {v} (e : Exec v) (A : Action → Bool) : Prop :=
  ∀ n, (∀ m, n ≤ m → ∃ a, A a = true ∧ (step v (e.st m) a).isSome = true) → ∃ m, n ≤ m ∧ A (e.act m) = true

/-- strong fairness: a class of actions that is enabled again and again is eventually taken -/
def StrongFair {v} (e : Exec v) (A : Action → Bool) : Prop :=
  ∀ n, (∀ k, n ≤ k → ∃ m, k ≤ m ∧ ∃ a, A a = true ∧ (step v (e.st m) a).isSome = true) →
    ∃ m, n ≤ m ∧ A (e.act m) = true

/-! ### stages of a notification on its way to waiter `i` (Bool-valued, so that case analysis is mechanical) -/

/-- `Run` is iterating over the wait list with a head `≥ t` and has not served waiter `i` yet -/
def preGe (r : RunPc) (i t : Nat) : Bool :=
  match r with
  | .nLoop _ h todo => decide (i ∈ todo) && decide (t ≤ h)
  | .nPut _ h _ _ todo => decide (i ∈ todo) && decide (t ≤ h)
  | _ => false

/-- the head at the front of the waiter's channel reaches its target (the channel holds at most one head) -/
def bufGe (w : Waiter) : Bool :=
  match w.buf with
  | h :: _ => decide (w.target ≤ h)
  | [] => false

/-- waiter `i` is in its select and a head `≥ target` is on its way to it (`Run` iterating, or between its two
selects for this channel) or in its channel — or it has already received one (`ok` decided) -/
def Good (s : State) (i : Nat) : Prop :=
  ∀ w, s.waiters[i]? = some w →
    (w.pc = .sel ∧ (preGe s.run i w.target || carriedGe s.run i w.target || bufGe w) = true) ∨
    w.pc = .leave .ok ∨ w.pc = .done .ok

/-- the same once the head is in the channel or about to be put there: nothing below the target gets in anymore -/
def RGood (s : State) (i : Nat) : Prop :=
  ∀ w, s.waiters[i]? = some w →
    (w.pc = .sel ∧ (carriedGe s.run i w.target || bufGe w) = true) ∨ w.pc = .leave .ok ∨ w.pc = .done .ok

/-- the waiter's result is `ok` -/
def Decided (s : State) (i : Nat) : Prop :=
  ∀ w, s.waiters[i]? = some w → w.pc = .leave .ok ∨ w.pc = .done .ok

theorem mem_erase_of_ne' {a b : Nat} {l : List Nat} (h : a ∈ l) (hne : a ≠ b) : a ∈ l.erase b :=
  (List.mem_erase_of_ne hne).mpr h

theorem good_step_run {v s a s'} (hn : v.nbNotify = true) (hA : InvA s) (hE : InvE s) (i : Nat)
    (h : Good s i) (hs : step v s a = some s') (hra : RunAct a = true) : Good s' i := by
  obtain ⟨l1, l2, l3, l4, vWl, vLoop, vPut, fresh, cap1⟩ := hA
  obtain ⟨putEmpty, kept⟩ := hE
  unfold Good at *
  cases a <;> (try (simp [RunAct] at hra; done)) <;> step_cases hs <;>
    grind [State.setW, State.setS, RunPc.lockW, RunPc.lockR, preGe, carriedGe, bufGe, mem_erase_of_ne']

theorem good_step_other {v s a s'} (hA : InvA s) (i : Nat)
    (h : Good s i) (hs : step v s a = some s') (hra : RunAct a = false) (ha : a ≠ .wFire i ∧ a ≠ .wCancel i) :
    Good s' i := by
  obtain ⟨l1, l2, l3, l4, vWl, vLoop, vPut, fresh, cap1⟩ := hA
  unfold Good at *
  cases a <;> (try (simp [RunAct] at hra; done)) <;> step_cases hs <;>
    grind [State.setW, State.setS, RunPc.lockW, RunPc.lockR, preGe, carriedGe, bufGe]

theorem good_step {v s a s'} (hn : v.nbNotify = true) (hA : InvA s) (hE : InvE s) (i : Nat)
    (h : Good s i) (hs : step v s a = some s') (ha : a ≠ .wFire i ∧ a ≠ .wCancel i) : Good s' i := by
  cases hra : RunAct a with
  | true => exact good_step_run hn hA hE i h hs hra
  | false => exact good_step_other hA i h hs hra ha

theorem rgood_step {v s a s'} (hn : v.nbNotify = true) (hA : InvA s) (hE : InvE s) (i : Nat)
    (h : RGood s i) (hs : step v s a = some s') (ha : a ≠ .wFire i ∧ a ≠ .wCancel i) : RGood s' i := by
  obtain ⟨l1, l2, l3, l4, vWl, vLoop, vPut, fresh, cap1⟩ := hA
  obtain ⟨putEmpty, kept⟩ := hE
  unfold RGood at *
  cases a <;> step_cases hs <;>
    grind [State.setW, State.setS, RunPc.lockW, RunPc.lockR, carriedGe, bufGe]

theorem carriedGe_spec {r : RunPc} {i m : Nat} (h : carriedGe r i m = true) :
    ∃ sw h0 h' todo, r = .nPut sw h0 h' i todo ∧ m ≤ h' := by
  unfold carriedGe at h
  split at h
  · rename_i sw h0 h' w todo
    simp only [Bool.and_eq_true, beq_iff_eq, decide_eq_true_eq] at h
    exact ⟨sw, h0, h', todo, by rw [h.1], h.2⟩
  · cases h

/-- in the R phase a receive of the waiter decides `ok` -/
theorem rgood_recv {v s s'} (hE : InvE s) (i : Nat)
    (h : RGood s i) (hs : step v s (.wRecv i) = some s') : Decided s' i := by
  simp only [step] at hs
  split at hs
  · rename_i x hx
    split at hs
    · rename_i hsel
      split at hs
      · rename_i u rest hbuf
        cases hs
        have hlt : i < s.waiters.length := (List.getElem?_eq_some_iff.mp hx).1
        rcases h x hx with ⟨_, hst⟩ | hl | hd
        · have hge : x.target ≤ u := by
            simp only [Bool.or_eq_true] at hst
            rcases hst with hc | hb
            · obtain ⟨sw, h0, h', todo, hr, _⟩ := carriedGe_spec hc
              have := hE.putEmpty sw h0 h' i todo hr x hx
              rw [hbuf] at this; cases this
            · simpa [bufGe, hbuf] using hb
          intro w hw
          simp only [State.setW, List.getElem?_set_self hlt, Option.some.injEq] at hw
          subst hw
          simp [hge]
        · rw [hsel] at hl; cases hl
        · rw [hsel] at hd; cases hd
      · cases hs
    · cases hs
  · cases hs

/-! ### the temporal argument -/

/-- `Run` is inside an iteration over the wait list -/
def inNotify : RunPc → Bool
  | .nLoop _ _ _ => true
  | .nPut _ _ _ _ _ => true
  | _ => false

/-- remaining work of the iteration -/
def mu : RunPc → Nat
  | .nLoop _ _ todo => 2 * todo.length
  | .nPut _ _ _ _ todo => 2 * todo.length + 1
  | _ => 0

/-- nobody but `Run` moves `Run`'s program counter while it is inside an iteration -/
theorem run_frame {v s a s'} (hs : step v s a = some s') (ha : RunAct a = false) (hr : inNotify s.run = true) :
    s'.run = s.run := by
  cases a <;> (try (simp [RunAct] at ha; done)) <;> step_cases hs <;> grind [State.setW, State.setS, inNotify]

/-- inside an iteration `Run` can always take its next step (repaired code: nothing blocks) -/
theorem run_enabled {v s} (hn : v.nbNotify = true) (hA : InvA s) (hr : inNotify s.run = true) :
    ∃ a, RunAct a = true ∧ (step v s a).isSome = true := by
  cases hrun : s.run with
  | nLoop sw h todo =>
    cases todo with
    | nil => exact ⟨.nDone, rfl, by simp [step, hrun]⟩
    | cons w t =>
      obtain ⟨x, hx, _⟩ := hA.vLoop sw h (w :: t) hrun w (by simp)
      refine ⟨.nDrain w, rfl, ?_⟩
      simp only [step, hrun, hn, hx, List.mem_cons, true_or, and_self, if_true]
      cases x.buf <;> simp
  | nPut sw h h' w todo =>
    obtain ⟨⟨x, hx, _⟩, _⟩ := hA.vPut sw h h' w todo hrun
    refine ⟨.nPut, rfl, ?_⟩
    simp only [step, hrun, hx]
    split <;> simp
  | _ => simp [hrun, inNotify] at hr

/-- every step of `Run` inside an iteration makes the remaining work smaller, or ends the iteration -/
theorem run_act_decreases {v s a s'} (hs : step v s a = some s') (ha : RunAct a = true)
    (hr : inNotify s.run = true) : inNotify s'.run = false ∨ mu s'.run < mu s.run := by
  cases a <;> (try (simp [RunAct] at ha; done)) <;> step_cases hs <;>
    grind [State.setW, State.setS, inNotify, mu, List.length_erase_of_mem]

theorem good_not_pre {s : State} {i : Nat} (h : Good s i) (hr : inNotify s.run = false) : RGood s i := by
  intro w hw
  rcases h w hw with ⟨hp, hst⟩ | h2
  · refine Or.inl ⟨hp, ?_⟩
    have : preGe s.run i w.target = false := by
      unfold preGe; split <;> simp_all [inNotify]
    simpa [this] using hst
  · exact Or.inr h2

theorem step_waiters_length {v s a s'} (hs : step v s a = some s') : s'.waiters.length = s.waiters.length := by
  cases a <;> step_cases hs <;> first | rfl | simp [State.setW, State.setS]

theorem exec_waiter_some {v} (e : Exec v) (i : Nat) (n : Nat) (h : ∃ w, (e.st n).waiters[i]? = some w) :
    ∀ m, n ≤ m → ∃ w, (e.st m).waiters[i]? = some w := by
  have hlen : ∀ m, (e.st (m + 1)).waiters.length = (e.st m).waiters.length := fun m =>
    step_waiters_length (e.ok m)
  have hl : ∀ m, n ≤ m → (e.st m).waiters.length = (e.st n).waiters.length := by
    intro m hm
    obtain ⟨d, rfl⟩ := Nat.exists_eq_add_of_le hm
    induction d with
    | zero => rfl
    | succ d ih => rw [← Nat.add_assoc, hlen, ih (Nat.le_add_right _ _)]
  intro m hm
  obtain ⟨w, hw⟩ := h
  have hlt := (List.getElem?_eq_some_iff.mp hw).1
  exact ⟨_, List.getElem?_eq_getElem (by rw [hl m hm]; exact hlt)⟩

theorem exists_least {P : Nat → Prop} (h : ∃ m, P m) : ∃ m, P m ∧ ∀ k, k < m → ¬ P k := by
  obtain ⟨m, hm⟩ := h
  induction m using Nat.strongRecOn with
  | _ m ih =>
    by_cases hex : ∃ k, k < m ∧ P k
    · obtain ⟨k, hk, hpk⟩ := hex
      exact ih k hk hpk
    · exact ⟨m, hm, fun k hk hpk => hex ⟨k, hk, hpk⟩⟩

/-- if `Run` is inside an iteration at `n`, weak fairness makes it act; the first such moment, with `Run`'s program
counter unchanged until then -/
theorem run_acts {v} (hn : v.nbNotify = true) (e : Exec v) (hf : WeakFair e RunAct) (n : Nat)
    (hr : inNotify (e.st n).run = true) :
    ∃ m, n ≤ m ∧ RunAct (e.act m) = true ∧ (e.st m).run = (e.st n).run ∧ ∀ k, n ≤ k → k < m → RunAct (e.act k) = false := by
  have hex : ∃ m, n ≤ m ∧ RunAct (e.act m) = true := by
    apply Classical.byContradiction
    intro hno
    have hnever : ∀ m, n ≤ m → RunAct (e.act m) = false := by
      intro m hm
      cases h : RunAct (e.act m) with
      | false => rfl
      | true => exact absurd ⟨m, hm, h⟩ hno
    have hsame : ∀ m, n ≤ m → (e.st m).run = (e.st n).run := by
      intro m hm
      obtain ⟨d, rfl⟩ := Nat.exists_eq_add_of_le hm
      induction d with
      | zero => rfl
      | succ d ih =>
        have ih' := ih (Nat.le_add_right _ _)
        rw [← Nat.add_assoc, run_frame (e.ok (n + d)) (hnever _ (Nat.le_add_right _ _)) (by rw [ih']; exact hr), ih']
    obtain ⟨m, hm, ht⟩ := hf n (fun m hm =>
      run_enabled hn (reachable_invA (e.reachable m)) (by rw [hsame m hm]; exact hr))
    exact hno ⟨m, hm, ht⟩
  -- the least such moment
  obtain ⟨m0, hm0, hleast⟩ := exists_least hex
  have hmin : ∀ k, n ≤ k → k < m0 → RunAct (e.act k) = false := by
    intro k hk hlt
    cases h : RunAct (e.act k) with
    | false => rfl
    | true => exact absurd ⟨hk, h⟩ (hleast k hlt)
  have hsame : ∀ d, n + d ≤ m0 → (e.st (n + d)).run = (e.st n).run := by
    intro d
    induction d with
    | zero => intro _; rfl
    | succ d ih =>
      intro hle
      have ih' := ih (by omega)
      rw [← Nat.add_assoc, run_frame (e.ok (n + d)) (hmin _ (Nat.le_add_right _ _) (by omega)) (by rw [ih']; exact hr), ih']
  obtain ⟨d, hd⟩ := Nat.exists_eq_add_of_le hm0.1
  exact ⟨m0, hm0.1, hm0.2, by rw [hd]; exact hsame d (by omega), hmin⟩

section Liveness
variable {v : Variant} (hn : v.nbNotify = true) (e : Exec v) (i n0 : Nat)
  (hnofire : ∀ m, n0 ≤ m → e.act m ≠ .wFire i ∧ e.act m ≠ .wCancel i)
include hn hnofire

theorem good_forever {n : Nat} (hn0 : n0 ≤ n) (h : Good (e.st n) i) : ∀ m, n ≤ m → Good (e.st m) i := by
  intro m hm
  obtain ⟨d, rfl⟩ := Nat.exists_eq_add_of_le hm
  induction d with
  | zero => exact h
  | succ d ih =>
    have hr := e.reachable (n + d)
    exact good_step hn (reachable_invA hr) (reachable_invE hr) i (ih (Nat.le_add_right _ _)) (e.ok (n + d))
      (hnofire _ (by omega))

theorem rgood_forever {n : Nat} (hn0 : n0 ≤ n) (h : RGood (e.st n) i) : ∀ m, n ≤ m → RGood (e.st m) i := by
  intro m hm
  obtain ⟨d, rfl⟩ := Nat.exists_eq_add_of_le hm
  induction d with
  | zero => exact h
  | succ d ih =>
    have hr := e.reachable (n + d)
    exact rgood_step hn (reachable_invA hr) (reachable_invE hr) i (ih (Nat.le_add_right _ _)) (e.ok (n + d))
      (hnofire _ (by omega))

/-- `Run` weakly fair: a notification on its way reaches the waiter's channel (or the slot just before it) -/
theorem reach_rphase (hf : WeakFair e RunAct) :
    ∀ k n, n0 ≤ n → Good (e.st n) i → mu (e.st n).run ≤ k → ∃ m, n ≤ m ∧ RGood (e.st m) i := by
  intro k
  induction k with
  | zero =>
    intro n hn0 hg hmu
    by_cases hr : inNotify (e.st n).run = true
    · obtain ⟨m, hnm, hact, hsame, _⟩ := run_acts hn e hf n hr
      have hgm := good_forever hn e i n0 hnofire hn0 hg (m + 1) (by omega)
      rcases run_act_decreases (e.ok m) hact (by rw [hsame]; exact hr) with h1 | h2
      · exact ⟨m + 1, by omega, good_not_pre hgm h1⟩
      · rw [hsame] at h2; omega
    · exact ⟨n, Nat.le_refl _, good_not_pre hg (by simpa using hr)⟩
  | succ k ih =>
    intro n hn0 hg hmu
    by_cases hr : inNotify (e.st n).run = true
    · obtain ⟨m, hnm, hact, hsame, _⟩ := run_acts hn e hf n hr
      have hgm := good_forever hn e i n0 hnofire hn0 hg (m + 1) (by omega)
      rcases run_act_decreases (e.ok m) hact (by rw [hsame]; exact hr) with h1 | h2
      · exact ⟨m + 1, by omega, good_not_pre hgm h1⟩
      · rw [hsame] at h2
        obtain ⟨m', hm', hr'⟩ := ih (m + 1) (by omega) hgm (by omega)
        exact ⟨m', by omega, hr'⟩
    · exact ⟨n, Nat.le_refl _, good_not_pre hg (by simpa using hr)⟩

/-- in the R phase the result gets decided or the receive of the waiter becomes enabled (again) -/
theorem recv_enabled_again (hf : WeakFair e RunAct) {n : Nat} (hn0 : n0 ≤ n) (h : RGood (e.st n) i)
    (hw : ∃ w, (e.st n).waiters[i]? = some w) :
    (∃ m, n ≤ m ∧ Decided (e.st m) i) ∨ ∃ m, n ≤ m ∧ (step v (e.st m) (.wRecv i)).isSome = true := by
  obtain ⟨w, hw⟩ := hw
  have ready : ∀ (s : State) (x : Waiter), s.waiters[i]? = some x → x.pc = .sel → bufGe x = true →
      (step v s (.wRecv i)).isSome = true := by
    intro s x hx hp hb
    simp only [step, hx, hp, if_true]
    unfold bufGe at hb
    split at hb
    · rename_i u rest hbuf; simp [hbuf]
    · cases hb
  rcases h w hw with ⟨hsel, hst⟩ | hdec
  · simp only [Bool.or_eq_true] at hst
    rcases hst with hc | hb
    · -- Run is between its two selects for this channel: its next step puts the head
      obtain ⟨sw, h0, h', todo, hrun, hle⟩ := carriedGe_spec hc
      have hr : inNotify (e.st n).run = true := by rw [hrun]; rfl
      obtain ⟨m, hnm, hact, hsame, _⟩ := run_acts hn e hf n hr
      have hrg := rgood_forever hn e i n0 hnofire hn0 h
      obtain ⟨x, hx⟩ := exec_waiter_some e i n ⟨w, hw⟩ (m + 1) (by omega)
      rcases hrg (m + 1) (by omega) x hx with ⟨hsel', hst'⟩ | hdec'
      · have hrm : (e.st m).run = .nPut sw h0 h' i todo := by rw [hsame, hrun]
        have hnc : carriedGe (e.st (m + 1)).run i x.target = false := by
          have hs := e.ok m
          generalize e.act m = a at hs hact
          generalize e.st (m + 1) = s' at hs
          cases a <;> (try (simp [RunAct] at hact; done)) <;> simp only [step, hrm] at hs <;>
            (repeat' split at hs) <;> (try cases hs) <;> simp [carriedGe]
        simp only [hnc, Bool.false_or] at hst'
        exact Or.inr ⟨m + 1, by omega, ready _ x hx hsel' hst'⟩
      · exact Or.inl ⟨m + 1, by omega, fun w' hw' => by rw [hx] at hw'; cases hw'; exact hdec'⟩
    · exact Or.inr ⟨n, Nat.le_refl _, ready _ w hw hsel hb⟩
  · exact Or.inl ⟨n, Nat.le_refl _, fun w' hw' => by rw [hw] at hw'; cases hw'; exact hdec⟩

/-- **liveness**: `Run` weakly fair, the waiter's receive strongly fair, no timer/ctx for this waiter: once a head
`≥ target` is on its way to the waiter (or in its channel), the waiter's result becomes `ok`. -/
theorem decided_eventually (hfR : WeakFair e RunAct) (hfW : StrongFair e (RecvAct i))
    (hw : ∃ w, (e.st n0).waiters[i]? = some w) (hg : Good (e.st n0) i) :
    ∃ m, n0 ≤ m ∧ Decided (e.st m) i := by
  obtain ⟨n1, hn1, hrg⟩ := reach_rphase hn e i n0 hnofire hfR _ n0 (Nat.le_refl _) hg (Nat.le_refl _)
  apply Classical.byContradiction
  intro hnot
  have hnd : ∀ m, n0 ≤ m → ¬ Decided (e.st m) i := fun m hm hd => hnot ⟨m, hm, hd⟩
  have hrgf := rgood_forever hn e i n0 hnofire hn1 hrg
  -- the receive is enabled again and again
  have hio : ∀ k, n1 ≤ k → ∃ m, k ≤ m ∧ ∃ a, RecvAct i a = true ∧ (step v (e.st m) a).isSome = true := by
    intro k hk
    rcases recv_enabled_again hn e i n0 hnofire hfR (by omega : n0 ≤ k) (hrgf k hk)
      (exec_waiter_some e i n0 hw k (by omega)) with ⟨m, hm, hd⟩ | ⟨m, hm, hen⟩
    · exact absurd hd (hnd m (by omega))
    · exact ⟨m, hm, .wRecv i, by simp [RecvAct], hen⟩
  obtain ⟨m, hm, hact⟩ := hfW n1 hio
  have heq : e.act m = .wRecv i := by
    revert hact
    cases e.act m <;> simp [RecvAct]
  have hr := e.reachable m
  have hs := e.ok m
  rw [heq] at hs
  exact hnd (m + 1) (by omega) (rgood_recv (reachable_invE hr) i (hrgf m hm) hs)

end Liveness

/-! ### after the decision: the deferred unsubscribe gets the pool lock -/

/-- waiter `k` finishing its subscribe (it holds the write lock) -/
def SubAct (k : Nat) : Action → Bool
  | .wSub j => j == k
  | _ => false

/-- waiter `i` unsubscribing -/
def UnsubAct (i : Nat) : Action → Bool
  | .wUnsub j => j == i
  | _ => false

/-- `Run` holds the pool lock -/
def holds (r : RunPc) : Bool := r.lockW || r.lockR

/-- remaining work of `Run`'s critical section (`n` members, `wl` registered waiters) -/
def csMeasure (n wl : Nat) : RunPc → Nat
  | .ubRead i _ _ => (n + 1 - i) + (n + 2) + 2 * wl + 2
  | .ubSel i _ _ _ => (n + 1 - i) + 2 * wl + 2
  | .nCheck _ _ => 2 * wl + 2
  | r => mu r

theorem holds_frame {v s a s'} (hA : InvA s) (hs : step v s a = some s') (ha : RunAct a = false)
    (hr : holds s.run = true) : s'.run = s.run ∧ s'.waitList = s.waitList ∧
      s'.heads.length = s.heads.length := by
  obtain ⟨l1, l2, l3, l4, vWl, vLoop, vPut, fresh, cap1⟩ := hA
  cases a <;> (try (simp [RunAct] at ha; done)) <;> step_cases hs <;>
    grind [State.setW, State.setS, holds, RunPc.lockW, RunPc.lockR]

theorem holds_enabled {v s} (hn : v.nbNotify = true) (hA : InvA s) (cf : ∀ c, connFree s c = true)
    (hr : holds s.run = true) : ∃ a, RunAct a = true ∧ (step v s a).isSome = true := by
  cases hrun : s.run with
  | ubRead i seqs rts =>
    refine ⟨.ubRead, rfl, ?_⟩
    simp only [step, hrun, cf i, if_true]
    split <;> simp
  | ubSel i seqs rts acc =>
    by_cases hi : i < s.heads.length
    · refine ⟨.ubSel, rfl, ?_⟩
      simp only [step, hrun, hi, cf i, if_true]
      split <;> simp
    · refine ⟨.ubSet, rfl, ?_⟩
      simp only [step, hrun, Nat.le_of_not_lt hi, if_true]
      split
      · simp
      · split <;> simp
  | nCheck c h =>
    refine ⟨.nCheck, rfl, ?_⟩
    simp only [step, hrun]
    split <;> simp
  | nLoop sw h todo => exact run_enabled hn hA (by rw [hrun]; rfl)
  | nPut sw h h' w todo => exact run_enabled hn hA (by rw [hrun]; rfl)
  | _ => simp [hrun, holds, RunPc.lockW, RunPc.lockR] at hr

/-- every step of `Run` inside a critical section shortens it or ends it with the lock released -/
theorem holds_decreases {v s a s'} (hA : InvA s) (hs : step v s a = some s') (ha : RunAct a = true)
    (hr : holds s.run = true) :
    s'.rw = .free ∨ (holds s'.run = true ∧
      csMeasure s'.heads.length s'.waitList.length s'.run < csMeasure s.heads.length s.waitList.length s.run) := by
  obtain ⟨l1, l2, l3, l4, vWl, vLoop, vPut, fresh, cap1⟩ := hA
  cases a <;> (try (simp [RunAct] at ha; done)) <;> step_cases hs <;>
    grind [State.setW, State.setS, holds, RunPc.lockW, RunPc.lockR, csMeasure, mu, List.length_erase_of_mem,
      List.length_map]

section Returns
variable {v : Variant} (hn : v.nbNotify = true) (hp : v.pubUnlocked = true) (e : Exec v)
include hn hp

/-- the first action of `Run` after `n` while it holds the lock; until then its critical section does not change -/
theorem holds_acts (hf : WeakFair e RunAct) (n : Nat) (hr : holds (e.st n).run = true) :
    ∃ m, n ≤ m ∧ RunAct (e.act m) = true ∧ (e.st m).run = (e.st n).run ∧
      (e.st m).waitList = (e.st n).waitList ∧ (e.st m).heads.length = (e.st n).heads.length := by
  have frame : ∀ d, (∀ k, n ≤ k → k < n + d → RunAct (e.act k) = false) →
      (e.st (n + d)).run = (e.st n).run ∧ (e.st (n + d)).waitList = (e.st n).waitList ∧
      (e.st (n + d)).heads.length = (e.st n).heads.length := by
    intro d
    induction d with
    | zero => intro _; exact ⟨rfl, rfl, rfl⟩
    | succ d ih =>
      intro hno
      obtain ⟨h1, h2, h3⟩ := ih (fun k hk hlt => hno k hk (by omega))
      obtain ⟨g1, g2, g3⟩ := holds_frame (reachable_invA (e.reachable (n + d))) (e.ok (n + d))
        (hno (n + d) (Nat.le_add_right _ _) (by omega)) (by rw [h1]; exact hr)
      exact ⟨by rw [← Nat.add_assoc, g1, h1], by rw [← Nat.add_assoc, g2, h2], by rw [← Nat.add_assoc, g3, h3]⟩
  have hex : ∃ m, n ≤ m ∧ RunAct (e.act m) = true := by
    apply Classical.byContradiction
    intro hno
    have hnever : ∀ m, n ≤ m → RunAct (e.act m) = false := by
      intro m hm
      cases h : RunAct (e.act m) with
      | false => rfl
      | true => exact absurd ⟨m, hm, h⟩ hno
    obtain ⟨m, hm, ht⟩ := hf n (fun m hm => by
      obtain ⟨d, rfl⟩ := Nat.exists_eq_add_of_le hm
      have hr' := e.reachable (n + d)
      exact holds_enabled hn (reachable_invA hr') (reachable_connFree hp hr')
        (by rw [(frame d (fun k hk _ => hnever k hk)).1]; exact hr))
    exact hno ⟨m, hm, ht⟩
  obtain ⟨m0, hm0, hleast⟩ := exists_least hex
  obtain ⟨d, hd⟩ := Nat.exists_eq_add_of_le hm0.1
  have hfr := frame d (fun k hk hlt => by
    cases h : RunAct (e.act k) with
    | false => rfl
    | true => exact absurd ⟨hk, h⟩ (hleast k (by omega)))
  rw [← hd] at hfr
  exact ⟨m0, hm0.1, hm0.2, hfr.1, hfr.2.1, hfr.2.2⟩

/-- `Run` weakly fair: a critical section of `Run` ends, the pool lock becomes free -/
theorem run_releases (hf : WeakFair e RunAct) :
    ∀ k n, holds (e.st n).run = true →
      csMeasure (e.st n).heads.length (e.st n).waitList.length (e.st n).run ≤ k →
      ∃ m, n ≤ m ∧ (e.st m).rw = .free := by
  intro k
  induction k with
  | zero =>
    intro n hr hmu
    obtain ⟨m, hnm, hact, h1, h2, h3⟩ := holds_acts hn hp e hf n hr
    rcases holds_decreases (reachable_invA (e.reachable m)) (e.ok m) hact (by rw [h1]; exact hr) with hfree | ⟨_, hlt⟩
    · exact ⟨m + 1, by omega, hfree⟩
    · rw [h1, h2, h3] at hlt; omega
  | succ k ih =>
    intro n hr hmu
    obtain ⟨m, hnm, hact, h1, h2, h3⟩ := holds_acts hn hp e hf n hr
    rcases holds_decreases (reachable_invA (e.reachable m)) (e.ok m) hact (by rw [h1]; exact hr) with hfree | ⟨hh, hlt⟩
    · exact ⟨m + 1, by omega, hfree⟩
    · rw [h1, h2, h3] at hlt
      obtain ⟨m', hm', hf'⟩ := ih (m + 1) hh (by omega)
      exact ⟨m', by omega, hf'⟩

/-- whoever holds the pool lock lets go of it: `Run` (weakly fair) finishes its critical section, a subscribing
waiter (weakly fair) finishes its subscribe -/
theorem lock_free_again (hfR : WeakFair e RunAct) (hfS : ∀ k, WeakFair e (SubAct k)) (n : Nat) :
    ∃ m, n ≤ m ∧ (e.st m).rw = .free := by
  have hA := reachable_invA (e.reachable n)
  cases hrw : (e.st n).rw with
  | free => exact ⟨n, Nat.le_refl _, hrw⟩
  | rd =>
    exact run_releases hn hp e hfR _ n (by simp [holds, hA.l4.mp hrw]) (Nat.le_refl _)
  | wrRun =>
    exact run_releases hn hp e hfR _ n (by simp [holds, hA.l3.mp hrw]) (Nat.le_refl _)
  | wrW j =>
    -- waiter j is at the end of subscribe; nobody else can touch the lock until it finishes
    have hex : ∃ m, n ≤ m ∧ SubAct j (e.act m) = true := by
      apply Classical.byContradiction
      intro hno
      have hnever : ∀ m, n ≤ m → SubAct j (e.act m) = false := by
        intro m hm
        cases h : SubAct j (e.act m) with
        | false => rfl
        | true => exact absurd ⟨m, hm, h⟩ hno
      have stay : ∀ d, (e.st (n + d)).rw = .wrW j := by
        intro d
        induction d with
        | zero => exact hrw
        | succ d ih =>
          have hs := e.ok (n + d)
          have hne := hnever (n + d) (Nat.le_add_right _ _)
          have hA' := reachable_invA (e.reachable (n + d))
          obtain ⟨l1, l2, l3, l4, _⟩ := hA'
          rw [← Nat.add_assoc]
          generalize e.act (n + d) = a at hs hne
          generalize e.st (n + d + 1) = s' at hs
          generalize e.st (n + d) = s at *
          cases a <;> step_cases hs <;>
            grind [State.setW, State.setS, SubAct, RunPc.lockW, RunPc.lockR]
      obtain ⟨m, hm, ht⟩ := hfS j n (fun m hm => by
        obtain ⟨d, rfl⟩ := Nat.exists_eq_add_of_le hm
        have hr' := e.reachable (n + d)
        have hA' := reachable_invA hr'
        obtain ⟨x, hx⟩ := hA'.l2 j (stay d)
        obtain ⟨a, _, hen⟩ := wSub_enabled (v := v) (reachable_connFree hp hr') hx ((hA'.l1 j x hx).mpr (stay d))
        refine ⟨.wSub j, by simp [SubAct], ?_⟩
        -- wSub_enabled produced exactly this action
        have : (step v (e.st (n + d)) (.wSub j)).isSome = true := by
          simp only [step, hx, (hA'.l1 j x hx).mpr (stay d), if_true]
          cases hb : (e.st (n + d)).best with
          | none => simp
          | some c =>
            simp only [reachable_connFree hp hr' c, if_true]
            split <;> simp
        exact this)
      exact hno ⟨m, hm, ht⟩
    obtain ⟨m, hm, hact⟩ := hex
    have heq : e.act m = .wSub j := by
      revert hact
      cases e.act m <;> simp [SubAct]
    have hs := e.ok m
    rw [heq] at hs
    refine ⟨m + 1, by omega, ?_⟩
    generalize e.st (m + 1) = s' at hs
    step_cases hs <;> rfl

end Returns

/-- a waiter whose result is decided keeps it -/
def Leaving (s : State) (i : Nat) (r : WRes) : Prop :=
  ∀ w, s.waiters[i]? = some w → w.pc = .leave r ∨ w.pc = .done r

theorem leaving_step {v s a s'} (i : Nat) (r : WRes) (h : Leaving s i r) (hs : step v s a = some s') :
    Leaving s' i r := by
  unfold Leaving at *
  cases a <;> step_cases hs <;> grind [State.setW, State.setS]

theorem unsub_done {v s s'} (i : Nat) (r : WRes) (h : Leaving s i r) (hs : step v s (.wUnsub i) = some s') :
    ∀ w, s'.waiters[i]? = some w → w.pc = .done r := by
  unfold Leaving at h
  step_cases hs <;> grind [State.setW, State.setS]

section Returns2
variable {v : Variant} (hn : v.nbNotify = true) (hp : v.pubUnlocked = true) (e : Exec v)
include hn hp

/-- **the decided waiter returns**: `Run` and every subscribing waiter weakly fair (they release the pool lock), the
waiter's own lock acquisition strongly fair (the lock is free again and again; Go's mutex does not starve a waiting
locker): the deferred unsubscribe completes. -/
theorem returns_eventually (hfR : WeakFair e RunAct) (hfS : ∀ k, WeakFair e (SubAct k)) (i n0 : Nat) (r : WRes)
    (hfU : StrongFair e (UnsubAct i)) (hw : ∃ w, (e.st n0).waiters[i]? = some w ∧ w.pc = .leave r) :
    ∃ m, n0 ≤ m ∧ ∃ w, (e.st m).waiters[i]? = some w ∧ w.pc = .done r := by
  obtain ⟨w0, hw0, hpc0⟩ := hw
  have hl : ∀ m, n0 ≤ m → Leaving (e.st m) i r := by
    intro m hm
    obtain ⟨d, rfl⟩ := Nat.exists_eq_add_of_le hm
    induction d with
    | zero => intro w hw; rw [Nat.add_zero, hw0] at hw; cases hw; exact Or.inl hpc0
    | succ d ih => exact leaving_step i r (ih (Nat.le_add_right _ _)) (e.ok (n0 + d))
  apply Classical.byContradiction
  intro hnot
  have hleave : ∀ m, n0 ≤ m → ∃ w, (e.st m).waiters[i]? = some w ∧ w.pc = .leave r := by
    intro m hm
    obtain ⟨w, hw⟩ := exec_waiter_some e i n0 ⟨w0, hw0⟩ m hm
    rcases hl m hm w hw with h | h
    · exact ⟨w, hw, h⟩
    · exact absurd ⟨m, hm, w, hw, h⟩ hnot
  have hio : ∀ k, n0 ≤ k → ∃ m, k ≤ m ∧ ∃ a, UnsubAct i a = true ∧ (step v (e.st m) a).isSome = true := by
    intro k hk
    obtain ⟨m, hm, hfree⟩ := lock_free_again hn hp e hfR hfS k
    obtain ⟨w, hw, hpc⟩ := hleave m (by omega)
    exact ⟨m, hm, .wUnsub i, by simp [UnsubAct], by simp [step, hw, hpc, hfree]⟩
  obtain ⟨m, hm, hact⟩ := hfU n0 hio
  have heq : e.act m = .wUnsub i := by
    revert hact
    cases e.act m <;> simp [UnsubAct]
  have hs := e.ok m
  rw [heq] at hs
  obtain ⟨w, hw⟩ := exec_waiter_some e i n0 ⟨w0, hw0⟩ (m + 1) (by omega)
  exact hnot ⟨m + 1, by omega, w, hw, unsub_done i r (hl m hm) hs w hw⟩

end Returns2

end Tongo.PoolSM
