import TongoProofs.Lemmas.AddrDec
/-! `Base64.decode url (Base64.encode url bs) = some bs` for all byte strings, both alphabets; character facts. Core Lean only. -/
namespace Tongo.Base64
open Tongo.Address (bv_forall_lt)

/-- bit extensionality for identities between `++` / `extractLsb'` / `0` terms -/
macro "bv_bits" : tactic => `(tactic| (
  apply BitVec.eq_of_getLsbD_eq
  intro i hi
  simp only [BitVec.getLsbD_append, BitVec.getLsbD_extractLsb', BitVec.getLsbD_zero]
  repeat' split
  all_goals (first | omega | (simp (disch := omega) only [decide_eq_true, decide_eq_false, Bool.true_and,
    Bool.false_and, Bool.and_false, Bool.and_true] <;> (congr 1; omega)))))

theorem list_ind3 {α : Type} {P : List α → Prop} (h0 : P []) (h1 : ∀ x, P [x]) (h2 : ∀ x y, P [x, y])
    (h3 : ∀ x y z rest, P rest → P (x :: y :: z :: rest)) : ∀ l, P l
  | [] => h0
  | [x] => h1 x
  | [x, y] => h2 x y
  | x :: y :: z :: rest => h3 x y z rest (list_ind3 h0 h1 h2 h3 rest)

/-! ### characters -/

theorem decChar_encChar (url : Bool) (v : BitVec 6) : decChar url (encChar url v) = some v := by
  revert v; apply bv_forall_lt; cases url <;> decide

theorem decChar_pad (url : Bool) : decChar url pad = none := by cases url <;> decide

/-- the characters `encode url` can produce -/
def IsChar (url : Bool) (c : Byte) : Prop := (∃ v, c = encChar url v) ∨ c = pad

theorem encChar_not_newline (url : Bool) (v : BitVec 6) : isNewline (encChar url v) = false := by
  revert v; apply bv_forall_lt; cases url <;> decide

theorem encChar_ne_colon (url : Bool) (v : BitVec 6) : encChar url v ≠ 58#8 := by
  revert v; apply bv_forall_lt; cases url <;> decide

theorem IsChar.not_newline {url c} (h : IsChar url c) : isNewline c = false := by
  rcases h with ⟨v, rfl⟩ | rfl
  · exact encChar_not_newline url v
  · decide

theorem IsChar.ne_colon {url c} (h : IsChar url c) : c ≠ 58#8 := by
  rcases h with ⟨v, rfl⟩ | rfl
  · exact encChar_ne_colon url v
  · decide

theorem encode_chars (url : Bool) : ∀ bs, ∀ c ∈ encode url bs, IsChar url c := by
  apply list_ind3
  · intro c hc; cases hc
  · intro x c hc
    simp only [encode, split3, List.mem_cons, List.not_mem_nil, or_false] at hc
    rcases hc with rfl | rfl | rfl | rfl
    · exact .inl ⟨_, rfl⟩
    · exact .inl ⟨_, rfl⟩
    · exact .inr rfl
    · exact .inr rfl
  · intro x y c hc
    simp only [encode, split3, List.mem_cons, List.not_mem_nil, or_false] at hc
    rcases hc with rfl | rfl | rfl | rfl
    · exact .inl ⟨_, rfl⟩
    · exact .inl ⟨_, rfl⟩
    · exact .inl ⟨_, rfl⟩
    · exact .inr rfl
  · intro x y z rest ih c hc
    simp only [encode, split3, List.mem_cons] at hc
    rcases hc with rfl | rfl | rfl | rfl | hc
    · exact .inl ⟨_, rfl⟩
    · exact .inl ⟨_, rfl⟩
    · exact .inl ⟨_, rfl⟩
    · exact .inl ⟨_, rfl⟩
    · exact ih c hc

/-! ### digit groups -/

theorem join4_split3 (x y z : Byte) :
    join4 ((x ++ y ++ z).extractLsb' 18 6) ((x ++ y ++ z).extractLsb' 12 6) ((x ++ y ++ z).extractLsb' 6 6)
      ((x ++ y ++ z).extractLsb' 0 6) = (x, y, z) := by
  simp only [join4, Prod.mk.injEq]
  refine ⟨?_, ?_, ?_⟩ <;> bv_bits

theorem join4_split3_1 (x : Byte) :
    (join4 ((x ++ (0 : Byte) ++ (0 : Byte)).extractLsb' 18 6) ((x ++ (0 : Byte) ++ (0 : Byte)).extractLsb' 12 6) 0 0).1 = x := by
  simp only [join4]
  bv_bits

theorem join4_split3_2a (x y : Byte) :
    (join4 ((x ++ y ++ (0 : Byte)).extractLsb' 18 6) ((x ++ y ++ (0 : Byte)).extractLsb' 12 6)
      ((x ++ y ++ (0 : Byte)).extractLsb' 6 6) 0).1 = x := by
  simp only [join4]
  bv_bits

theorem join4_split3_2b (x y : Byte) :
    (join4 ((x ++ y ++ (0 : Byte)).extractLsb' 18 6) ((x ++ y ++ (0 : Byte)).extractLsb' 12 6)
      ((x ++ y ++ (0 : Byte)).extractLsb' 6 6) 0).2.1 = y := by
  simp only [join4]
  bv_bits

/-! ### round trip -/

theorem decodeCore_encode (url : Bool) : ∀ bs, decodeCore url (encode url bs) = some bs := by
  apply list_ind3
  · rfl
  · intro x
    simp only [encode, split3, decodeCore, decChar_encChar, decChar_pad, and_self, if_true]
    rw [join4_split3_1]
  · intro x y
    simp only [encode, split3, decodeCore, decChar_encChar, decChar_pad, and_self, if_true]
    rw [join4_split3_2a, join4_split3_2b]
  · intro x y z rest ih
    simp only [encode, split3, decodeCore, decChar_encChar, ih, join4_split3]

theorem decode_encode (url : Bool) (bs : List Byte) : decode url (encode url bs) = some bs := by
  unfold decode
  have : (encode url bs).filter (fun c => !isNewline c) = encode url bs := by
    rw [List.filter_eq_self]
    intro c hc
    rw [(encode_chars url bs c hc).not_newline]; rfl
  rw [this, decodeCore_encode]

end Tongo.Base64
