import TongoProofs.Lemmas.MerkleCompose
import TongoProofs.Lemmas.HashmapDecode
/-! Helper lemmas for C18 `value_revealed_dict`: the loop of `ProveKeyInHashmap` on the cell tree of a valid TON
dictionary (agent dict's `HTree`), and agent dict's decoder `mapInner` on the pruned tree. -/
open Tongo Tongo.Merkle Tongo.Hashmap
namespace Tongo.MerkleLemmas

theorem readUnary_eq : ∀ l : List Bool, Merkle.readUnary l = Hashmap.readUnary l
  | [] => rfl
  | false :: r => rfl
  | true :: r => by
    simp only [Merkle.readUnary, Hashmap.readUnary, readUnary_eq r]
    cases Hashmap.readUnary r with
    | none => rfl
    | some p => rfl

/-- my label reader on a serialised label -/
theorem loadLabel_enc' (l : Lbl) (m : Nat) (rest : List Bool) (hm : m < 2 ^ 64) (hl : l.bits.length ≤ m) :
    Merkle.loadLabel m (l.enc m ++ rest) = some (l.bits, rest) := by
  cases l with
  | short s =>
    simp only [Lbl.enc, Lbl.bits, List.cons_append, List.append_assoc, Merkle.loadLabel, readUnary_eq,
      readUnary_unary]
    simp
  | long s =>
    simp only [Lbl.enc, Lbl.bits, List.cons_append, List.append_assoc, Merkle.loadLabel, Merkle.bitLen] at *
    have hw : (Bits.natToBits (minBitsRequired m) s.length).length = minBitsRequired m := Bits.natToBits_length _ _
    have h1 : ¬ ((Bits.natToBits (minBitsRequired m) s.length ++ (s ++ rest)).length < minBitsRequired m) := by
      simp [hw]
    have ht : (Bits.natToBits (minBitsRequired m) s.length ++ (s ++ rest)).take (minBitsRequired m)
        = Bits.natToBits (minBitsRequired m) s.length := by
      rw [List.take_append_of_le_length (by omega), List.take_of_length_le (by omega)]
    have hd : (Bits.natToBits (minBitsRequired m) s.length ++ (s ++ rest)).drop (minBitsRequired m) = s ++ rest := by
      rw [List.drop_append_of_le_length (by omega), List.drop_of_length_le (by omega)]; simp
    simp only [h1, if_false, ht, hd, Bits.bitsToNat_natToBits, Nat.mod_eq_of_lt (lt_two_pow_minBits hl hm)]
    simp
  | same b n =>
    simp only [Lbl.enc, Lbl.bits, List.length_replicate, List.cons_append, Merkle.loadLabel, Merkle.bitLen] at *
    have hw : (Bits.natToBits (minBitsRequired m) n).length = minBitsRequired m := Bits.natToBits_length _ _
    have h1 : ¬ ((Bits.natToBits (minBitsRequired m) n ++ rest).length < minBitsRequired m) := by simp [hw]
    have ht : (Bits.natToBits (minBitsRequired m) n ++ rest).take (minBitsRequired m)
        = Bits.natToBits (minBitsRequired m) n := by
      rw [List.take_append_of_le_length (by omega), List.take_of_length_le (by omega)]
    have hd : (Bits.natToBits (minBitsRequired m) n ++ rest).drop (minBitsRequired m) = rest := by
      rw [List.drop_append_of_le_length (by omega), List.drop_of_length_le (by omega)]; simp
    simp only [h1, if_false, ht, hd, Bits.bitsToNat_natToBits, Nat.mod_eq_of_lt (lt_two_pow_minBits hl hm)]


theorem plainL_masks_zero : ∀ cs : List Cell, plainL cs = true → cs.foldl (fun m k => m ||| k.mask) 0 = 0
  | [], _ => rfl
  | .mk ty mask bits refs :: cs, h => by
    simp only [plainL, Bool.and_eq_true] at h
    obtain ⟨_, hm, _, _⟩ := plain_node h.1
    subst hm
    simp only [List.foldl_cons, Cell.mask, Nat.or_self]
    exact plainL_masks_zero cs h.2

mutual
/-- pruning nothing at or below a position leaves a supported tree unchanged -/
theorem specPrune_id (H : List UInt8 → List UInt8) (P : List Nat → Bool) :
    ∀ (c : Cell) (path : List Nat), plain c = true → (∀ q, path <+: q → P q = false) → specPrune H P path c = c
  | .mk ty mask bits refs, path, hp, hP => by
    obtain ⟨_, hm, _, hpl⟩ := plain_node hp
    have h0 : P path = false := hP path (List.prefix_refl _)
    have hl := specPruneList_id H P refs path 0 hpl hP
    subst hm
    simp only [specPrune, h0, Bool.false_eq_true, if_false, hl, plainL_masks_zero refs hpl]
theorem specPruneList_id (H : List UInt8 → List UInt8) (P : List Nat → Bool) :
    ∀ (cs : List Cell) (path : List Nat) (i : Nat), plainL cs = true → (∀ q, path <+: q → P q = false) →
      specPruneList H P path i cs = cs
  | [], _, _, _, _ => rfl
  | c :: cs, path, i, hp, hP => by
    simp only [plainL, Bool.and_eq_true] at hp
    simp only [specPruneList]
    rw [specPrune_id H P c (path ++ [i]) hp.1 (fun q hq => hP q ((List.prefix_append path [i]).trans hq)),
      specPruneList_id H P cs path (i + 1) hp.2 hP]
end

theorem mapInner_pruned {V : Type} (C : Codec V) (n f : Nat) (left : Int) (h : List UInt8) (d : Nat) (pfx : Key) :
    mapInner C n (f + 1) left (prunedCell h d) pfx = .ok [] := by
  simp [mapInner, prunedCell]


/-- the loop of `ProveKeyInHashmap` on the cell tree of a valid TON dictionary `t`: if the reconstructed key is the
key, then the key is an entry of the dictionary's meaning, the leaf's data is that value's payload, the collected
positions extend the cursor position, and agent dict's decoder (`mapInner`, skipping pruned branches) on the tree pruned
at exactly those positions returns that single entry. -/
theorem walk_htree {V : Type} (H : List UInt8 → List UInt8) (C : Codec V) (pay : V → List Bool × List Cell)
    (n ks : Nat) (hn : n < 2 ^ 64) : ∀ (t : HTree V) (m fuel : Nat) (path : List Nat) (key pfx : List Bool)
    (pruned : List (List Nat)) (w : Walk),
    t.Valid m → m = key.length → m < fuel → pfx.length + m ≤ ks → m ≤ n →
    plain (t.toCell pay m) = true → (∀ kv ∈ t.meaning, DecodesValue C pay kv.2) →
    walk ks fuel m (t.toCell pay m) path key pfx pruned = .ok w → w.pfx = pfx ++ key →
    ∃ val ext, (key, val) ∈ t.meaning ∧ w.rest = (pay val).1 ∧ w.pruned = pruned ++ ext ∧
      (∀ q ∈ ext, path <+: q ∧ path.length < q.length) ∧
      ∀ (P : List Nat → Bool), (∀ q, P q = true ↔ q ∈ w.pruned) → (∀ q ∈ pruned, ¬ path <+: q) →
        ∀ (pfx0 : Key) (fuel' : Nat), pfx0.length + m = n → m < fuel' →
          mapInner C n fuel' (m : Int) (specPrune H P path (t.toCell pay m)) pfx0 = .ok [(pfx0 ++ key, val)] := by
  intro t
  induction t with
  | leaf l v =>
    intro m fuel path key pfx pruned w hv hm hf hks hmn hpl hdec hw hpfx
    obtain ⟨f, rfl⟩ : ∃ f, fuel = f + 1 := ⟨fuel - 1, by omega⟩
    simp only [HTree.Valid] at hv
    have hm64 : m < 2 ^ 64 := by omega
    simp only [HTree.toCell, Cell.ordinary] at hw hpl ⊢
    rw [walk] at hw
    simp only [Cell.bits, loadLabel_enc' l m _ hm64 (by omega)] at hw
    have c1 : ¬ (pfx.length + l.bits.length > ks) := by omega
    have c2 : m ≤ l.bits.length := by omega
    simp only [c1, if_false, c2, if_true] at hw
    injection hw with hw
    subst hw
    simp only [List.append_cancel_left_eq] at hpfx
    subst hpfx
    refine ⟨v, [], by simp [HTree.meaning], rfl, by simp, by simp, ?_⟩
    intro P hP hdiv pfx0 fuel' hp0 hf'
    obtain ⟨f', rfl⟩ : ∃ f', fuel' = f' + 1 := ⟨fuel' - 1, by omega⟩
    have hnot : ∀ q, path <+: q → P q = false := by
      intro q hq
      cases hpq : P q with
      | false => rfl
      | true => exact absurd hq (hdiv q ((hP q).mp hpq))
    obtain ⟨_, _, _, hplr⟩ := plain_node hpl
    have hid := specPrune_id H P _ path hpl hnot
    rw [hid]
    have hdv : C.dec (pay v).1 (pay v).2 = .ok v := hdec (l.bits, v) (by simp [HTree.meaning])
    simp only [mapInner]
    rw [loadLabel_enc l m n pfx0 _ hm64 (by omega) (by omega)]
    have h1 : ¬ ((pfx0 ++ l.bits).length < n) := by simp; omega
    have ht1 : ¬ ((0 : Nat) = tyPruned) := by decide
    have ht2 : ¬ ((0 : Nat) = tyLibrary) := by decide
    simp only [ht1, if_false, h1, ht2, hdv]
  | fork l lo hi ihlo ihhi =>
    intro m fuel path key pfx pruned w hv hm hf hks hmn hpl hdec hw hpfx
    obtain ⟨f, rfl⟩ : ∃ f, fuel = f + 1 := ⟨fuel - 1, by omega⟩
    simp only [HTree.Valid] at hv
    obtain ⟨hlt, hvlo, hvhi⟩ := hv
    have hm64 : m < 2 ^ 64 := by omega
    simp only [HTree.toCell, Cell.ordinary] at hw hpl ⊢
    obtain ⟨_, _, _, hplr⟩ := plain_node hpl
    simp only [plainL, Bool.and_eq_true, and_true] at hplr
    obtain ⟨hpllo, hplhi⟩ := hplr
    have henc : l.enc m = l.enc m ++ [] := by simp
    rw [walk] at hw
    simp only [Cell.bits] at hw
    rw [henc, loadLabel_enc' l m [] hm64 (by omega)] at hw
    have c1 : ¬ (pfx.length + l.bits.length > ks) := by omega
    have c2 : ¬ (m ≤ l.bits.length) := by omega
    have c3 : ¬ (key.length < l.bits.length) := by omega
    simp only [c1, if_false, c2, c3] at hw
    -- the next key bit
    cases hdrop : key.drop l.bits.length with
    | nil =>
      have := congrArg List.length hdrop
      simp at this; omega
    | cons b key' =>
      rw [hdrop] at hw
      simp only [] at hw
      have hlen : key.length - l.bits.length = key'.length + 1 := by
        have := congrArg List.length hdrop
        simpa using this
      have c4 : ¬ ((pfx ++ l.bits).length + 1 > ks) := by simp only [List.length_append]; omega
      simp only [c4, if_false, Cell.refs, List.getElem?_cons_zero, List.getElem?_cons_succ] at hw
      have hm' : m - l.bits.length - 1 = key'.length := by omega
      have hkey : key = key.take l.bits.length ++ b :: key' := by
        rw [← hdrop]; exact (List.take_append_drop _ _).symm
      -- both branches: descend into `sub` (child index `bi`), prune sibling index `si`
      have fin : ∀ (sub : HTree V) (bi si : Nat), bi ≠ si → sub.Valid (m - l.bits.length - 1) →
          plain (sub.toCell pay (m - l.bits.length - 1)) = true →
          (∀ kv ∈ sub.meaning, DecodesValue C pay kv.2) →
          (∀ kv ∈ sub.meaning, (l.bits ++ b :: kv.1, kv.2) ∈ (HTree.fork l lo hi).meaning) →
          (∀ (m fuel : Nat) (path : List Nat) (key pfx : List Bool) (pruned : List (List Nat)) (w : Walk),
            sub.Valid m → m = key.length → m < fuel → pfx.length + m ≤ ks → m ≤ n →
            plain (sub.toCell pay m) = true → (∀ kv ∈ sub.meaning, DecodesValue C pay kv.2) →
            walk ks fuel m (sub.toCell pay m) path key pfx pruned = .ok w → w.pfx = pfx ++ key →
            ∃ val ext, (key, val) ∈ sub.meaning ∧ w.rest = (pay val).1 ∧ w.pruned = pruned ++ ext ∧
              (∀ q ∈ ext, path <+: q ∧ path.length < q.length) ∧
              ∀ (P : List Nat → Bool), (∀ q, P q = true ↔ q ∈ w.pruned) → (∀ q ∈ pruned, ¬ path <+: q) →
                ∀ (pfx0 : Key) (fuel' : Nat), pfx0.length + m = n → m < fuel' →
                  mapInner C n fuel' (m : Int) (specPrune H P path (sub.toCell pay m)) pfx0 = .ok [(pfx0 ++ key, val)]) →
          walk ks f (m - l.bits.length - 1) (sub.toCell pay (m - l.bits.length - 1)) (path ++ [bi]) key'
            (pfx ++ l.bits ++ [b]) (pruned ++ [path ++ [si]]) = .ok w →
          ∃ val ext, (key, val) ∈ (HTree.fork l lo hi).meaning ∧ w.rest = (pay val).1 ∧ w.pruned = pruned ++ ext ∧
            (∀ q ∈ ext, path <+: q ∧ path.length < q.length) ∧
            ∀ (P : List Nat → Bool), (∀ q, P q = true ↔ q ∈ w.pruned) → (∀ q ∈ pruned, ¬ path <+: q) →
              ∀ (pfx0 : Key) (fuel' : Nat), pfx0.length + m = n → m < fuel' →
                (P (path ++ [si]) = true ∧ P path = false ∧ P (path ++ [bi]) = false ∧
                 mapInner C n (fuel' - 1) ((m - l.bits.length - 1 : Nat) : Int)
                   (specPrune H P (path ++ [bi]) (sub.toCell pay (m - l.bits.length - 1))) (pfx0 ++ l.bits ++ [b])
                   = .ok [(pfx0 ++ key, val)]) := by
        intro sub bi si hbs hvs hps hds hmean ih hwalk
        -- the recursive call extends the prefix
        obtain ⟨sfx', e1, _, _, _⟩ := walk_spec H ks f _ _ (path ++ [bi]) key' _ _ w hwalk hm'
          (by simp only [List.length_append, List.length_cons, List.length_nil]; omega)
        have hs' : sfx' = key' := by
          have : pfx ++ key = pfx ++ l.bits ++ [b] ++ sfx' := by rw [← hpfx, e1]
          rw [List.append_assoc, List.append_assoc, List.append_cancel_left_eq] at this
          rw [hkey] at this
          have htl : (key.take l.bits.length).length = l.bits.length := by rw [List.length_take]; omega
          have := (List.append_inj this htl).2
          simpa using this.symm
        obtain ⟨val, ext, g1, g2, g3, g4, g5⟩ := ih _ f (path ++ [bi]) key' _ _ w hvs hm' (by omega)
          (by simp only [List.length_append, List.length_cons, List.length_nil]; omega) (by omega) hps hds hwalk
          (by rw [e1, hs'])
        have hlbl : l.bits = key.take l.bits.length := by
          have : pfx ++ key = pfx ++ l.bits ++ [b] ++ sfx' := by rw [← hpfx, e1]
          rw [List.append_assoc, List.append_assoc, List.append_cancel_left_eq] at this
          rw [hkey] at this
          have htl : (key.take l.bits.length).length = l.bits.length := by rw [List.length_take]; omega
          exact ((List.append_inj this htl).1).symm
        have hkeyl : key = l.bits ++ b :: key' := by rw [hlbl]; exact hkey
        refine ⟨val, [path ++ [si]] ++ ext, ?_, g2, by rw [g3]; simp, ?_, ?_⟩
        · rw [hkeyl]; exact hmean (key', val) g1
        · intro q hq
          rcases List.mem_append.mp hq with h1 | h1
          · simp only [List.mem_singleton] at h1; subst h1
            exact ⟨List.prefix_append _ _, by simp⟩
          · obtain ⟨a1, a2⟩ := g4 q h1
            refine ⟨(List.prefix_append path [bi]).trans a1, ?_⟩
            simp only [List.length_append, List.length_cons, List.length_nil] at a2; omega
        · intro P hP hdiv pfx0 fuel' hp0 hf'
          have hsib : P (path ++ [si]) = true := (hP _).mpr (by rw [g3]; simp)
          have hnotin : ∀ q, q ∈ w.pruned → q ∈ pruned ∨ ((path ++ [bi]) <+: q ∧ (path ++ [bi]).length < q.length) ∨ q = path ++ [si] := by
            intro q hq
            rw [g3] at hq
            rcases List.mem_append.mp hq with h1 | h1
            · rcases List.mem_append.mp h1 with h1 | h1
              · exact Or.inl h1
              · simp only [List.mem_singleton] at h1; exact Or.inr (Or.inr h1)
            · exact Or.inr (Or.inl (g4 q h1))
          have hpath : P path = false := by
            cases hpp : P path with
            | false => rfl
            | true =>
              rcases hnotin path ((hP _).mp hpp) with h1 | ⟨_, h2⟩ | h3
              · exact absurd (List.prefix_refl path) (hdiv path h1)
              · simp only [List.length_append, List.length_cons, List.length_nil] at h2; omega
              · have := congrArg List.length h3; simp at this
          have hbi : P (path ++ [bi]) = false := by
            cases hpp : P (path ++ [bi]) with
            | false => rfl
            | true =>
              rcases hnotin _ ((hP _).mp hpp) with h1 | ⟨_, h2⟩ | h3
              · exact absurd (List.prefix_append path [bi]) (hdiv _ h1)
              · omega
              · have := List.append_cancel_left h3; simp at this; exact absurd this hbs
          have hdiv' : ∀ q ∈ pruned ++ [path ++ [si]], ¬ (path ++ [bi]) <+: q := by
            intro q hq hpre
            rcases List.mem_append.mp hq with h1 | h1
            · exact hdiv q h1 ((List.prefix_append path [bi]).trans hpre)
            · simp only [List.mem_singleton] at h1
              subst h1
              have := List.IsPrefix.eq_of_length hpre (by simp)
              have := List.append_cancel_left this
              simp at this
              exact hbs this
          obtain ⟨f', rfl⟩ : ∃ f', fuel' = f' + 1 := ⟨fuel' - 1, by omega⟩
          have := g5 P hP hdiv' (pfx0 ++ l.bits ++ [b]) f'
            (by simp only [List.length_append, List.length_cons, List.length_nil]; omega) (by omega)
          refine ⟨hsib, hpath, hbi, ?_⟩
          rw [Nat.add_sub_cancel, this, hkeyl]
          simp
      -- the decoder on the pruned fork, given the facts from `fin`
      have dec : ∀ (val : V) (P : List Nat → Bool) (pfx0 : Key) (fuel' : Nat), pfx0.length + m = n → m < fuel' →
          P path = false →
          (b = true → P (path ++ [0]) = true ∧ P (path ++ [1]) = false ∧
            mapInner C n (fuel' - 1) ((m - l.bits.length - 1 : Nat) : Int)
              (specPrune H P (path ++ [1]) (hi.toCell pay (m - l.bits.length - 1))) (pfx0 ++ l.bits ++ [true])
              = .ok [(pfx0 ++ key, val)]) →
          (b = false → P (path ++ [1]) = true ∧ P (path ++ [0]) = false ∧
            mapInner C n (fuel' - 1) ((m - l.bits.length - 1 : Nat) : Int)
              (specPrune H P (path ++ [0]) (lo.toCell pay (m - l.bits.length - 1))) (pfx0 ++ l.bits ++ [false])
              = .ok [(pfx0 ++ key, val)]) →
          mapInner C n fuel' (m : Int)
            (specPrune H P path (Cell.mk 0 0 (l.enc m)
              [lo.toCell pay (m - l.bits.length - 1), hi.toCell pay (m - l.bits.length - 1)])) pfx0
            = .ok [(pfx0 ++ key, val)] := by
        intro val P pfx0 fuel' hp0 hf' hpath ht hfa
        obtain ⟨f', rfl⟩ : ∃ f', fuel' = f' + 1 := ⟨fuel' - 1, by omega⟩
        obtain ⟨f'', rfl⟩ : ∃ f'', f' = f'' + 1 := ⟨f' - 1, by omega⟩
        simp only [Nat.add_sub_cancel] at ht hfa
        have hcast : (m : Int) - (1 + (l.bits.length : Int)) = ((m - l.bits.length - 1 : Nat) : Int) := by omega
        simp only [specPrune, hpath, Bool.false_eq_true, if_false, specPruneList, Nat.zero_add, mapInner]
        rw [henc, loadLabel_enc l m n pfx0 [] hm64 (by omega) (by omega)]
        have h1 : (pfx0 ++ l.bits).length < n := by simp only [List.length_append]; omega
        have ht1 : ¬ ((0 : Nat) = tyPruned) := by decide
        simp only [ht1, if_false, h1, if_true, hcast]
        cases b with
        | true =>
          obtain ⟨p0, p1, hmi⟩ := ht rfl
          have e0 : specPrune H P (path ++ [0]) (lo.toCell pay (m - l.bits.length - 1)) =
              prunedCell (Spec.hashAt H (lo.toCell pay (m - l.bits.length - 1)) 0)
                (Spec.depthAt (lo.toCell pay (m - l.bits.length - 1)) 0) := by
            cases hc : lo.toCell pay (m - l.bits.length - 1) with
            | mk a b c d => simp [specPrune, p0]
          rw [e0, mapInner_pruned, hmi]
          simp
        | false =>
          obtain ⟨p1, p0, hmi⟩ := hfa rfl
          have e1 : specPrune H P (path ++ [1]) (hi.toCell pay (m - l.bits.length - 1)) =
              prunedCell (Spec.hashAt H (hi.toCell pay (m - l.bits.length - 1)) 0)
                (Spec.depthAt (hi.toCell pay (m - l.bits.length - 1)) 0) := by
            cases hc : hi.toCell pay (m - l.bits.length - 1) with
            | mk a b c d => simp [specPrune, p1]
          rw [hmi, e1, mapInner_pruned]
          simp
      cases b with
      | true =>
        simp only [if_true] at hw
        obtain ⟨val, ext, r1, r2, r3, r4, r5⟩ := fin hi 1 0 (by decide) hvhi hplhi
          (fun kv hkv => hdec (l.bits ++ true :: kv.1, kv.2) (by simp only [HTree.meaning, List.mem_append, List.mem_map]; right; exact ⟨kv, hkv, rfl⟩))
          (fun kv hkv => by simp only [HTree.meaning, List.mem_append, List.mem_map]; right; exact ⟨kv, hkv, rfl⟩)
          ihhi hw
        refine ⟨val, ext, r1, r2, r3, r4, ?_⟩
        intro P hP hdiv pfx0 fuel' hp0 hf'
        obtain ⟨q1, q2, q3, q4⟩ := r5 P hP hdiv pfx0 fuel' hp0 hf'
        exact dec val P pfx0 fuel' hp0 hf' q2 (fun _ => ⟨q1, q3, q4⟩) (fun h => by cases h)
      | false =>
        simp only [Bool.false_eq_true, if_false] at hw
        obtain ⟨val, ext, r1, r2, r3, r4, r5⟩ := fin lo 0 1 (by decide) hvlo hpllo
          (fun kv hkv => hdec (l.bits ++ false :: kv.1, kv.2) (by simp only [HTree.meaning, List.mem_append, List.mem_map]; left; exact ⟨kv, hkv, rfl⟩))
          (fun kv hkv => by simp only [HTree.meaning, List.mem_append, List.mem_map]; left; exact ⟨kv, hkv, rfl⟩)
          ihlo hw
        refine ⟨val, ext, r1, r2, r3, r4, ?_⟩
        intro P hP hdiv pfx0 fuel' hp0 hf'
        obtain ⟨q1, q2, q3, q4⟩ := r5 P hP hdiv pfx0 fuel' hp0 hf'
        exact dec val P pfx0 fuel' hp0 hf' q2 (fun h => by cases h) (fun _ => ⟨q1, q3, q4⟩)

end Tongo.MerkleLemmas
