import TongoProofs.Lemmas.CellHash
/-! Helper lemma: the only error the hashing model returns is the depth error (`ErrDepthIsTooBig`). -/
open Tongo
namespace Tongo.CellHashLemmas

def depthErr : String := "depth is too big"

theorem hashAt_not_err (i : HashInfo) (l : Nat) (e : String) : i.hashAt l ≠ .err e := by
  unfold HashInfo.hashAt
  simp only []
  repeat' split
  all_goals simp

theorem depthAt_not_err (i : HashInfo) (l : Nat) (e : String) : i.depthAt l ≠ .err e := by
  unfold HashInfo.depthAt
  simp only []
  repeat' split
  all_goals simp

theorem mapM_err {α β : Type} (f : α → Outcome β) : ∀ (l : List α) (e : String), l.mapM f = .err e → ∃ x ∈ l, f x = .err e := by
  intro l
  induction l with
  | nil => intro e h; simp [List.mapM_nil, pure] at h
  | cons a t ih =>
    intro e h
    rw [List.mapM_cons] at h
    cases ha : f a with
    | err e' =>
      rw [ha] at h
      simp only [Outcome.bind_err] at h
      injection h with h; subst h
      exact ⟨a, by simp, ha⟩
    | panic p => rw [ha] at h; simp only [Outcome.bind_panic] at h; cases h
    | ok b =>
      rw [ha] at h
      simp only [Outcome.bind_ok] at h
      cases ht : t.mapM f with
      | err e' =>
        rw [ht] at h
        simp only [Outcome.bind_err] at h
        injection h with h; subst h
        obtain ⟨x, hx, hfx⟩ := ih e' ht
        exact ⟨x, by simp [hx], hfx⟩
      | panic p => rw [ht] at h; simp only [Outcome.bind_panic] at h; cases h
      | ok bs => rw [ht] at h; simp only [Outcome.bind_ok, pure] at h; cases h

theorem tail_err (H : List UInt8 → List UInt8) (ty : Nat) (cs : List HashInfo) (i seen : Nat)
    (hashes : List (List UInt8)) (depths : List Nat) (head : List UInt8) (e : String)
    (hk : (do
      let childDepths ← cs.mapM (fun c : HashInfo => c.depthAt (if ty = tyMerkleProof ∨ ty = tyMerkleUpdate then i + 1 else i))
      if cs.length > 0 ∧ List.foldl max 0 childDepths ≥ maxDepth then Outcome.err "depth is too big"
      else do
        let childHashes ← cs.mapM (fun c : HashInfo => c.hashAt (if ty = tyMerkleProof ∨ ty = tyMerkleUpdate then i + 1 else i))
        pure (seen + 1, hashes ++ [H (head ++ List.flatMap (fun d => be16 d) childDepths ++ childHashes.flatten)],
          depths ++ [if cs.length > 0 then List.foldl max 0 childDepths + 1 else List.foldl max 0 childDepths])) =
      (Outcome.err e : Outcome (Nat × List (List UInt8) × List Nat))) : e = depthErr := by
  cases hdm : cs.mapM (fun c : HashInfo => c.depthAt (if ty = tyMerkleProof ∨ ty = tyMerkleUpdate then i + 1 else i)) with
  | err e'' =>
    obtain ⟨x, _, hx⟩ := mapM_err _ _ _ hdm
    exact absurd hx (depthAt_not_err _ _ _)
  | panic p => rw [hdm] at hk; cases hk
  | ok ds =>
    rw [hdm] at hk
    simp only [Outcome.bind_ok] at hk
    split at hk
    · injection hk with hk; exact hk.symm
    · cases hhm : cs.mapM (fun c : HashInfo => c.hashAt (if ty = tyMerkleProof ∨ ty = tyMerkleUpdate then i + 1 else i)) with
      | err e'' =>
        obtain ⟨x, _, hx⟩ := mapM_err _ _ _ hhm
        exact absurd hx (hashAt_not_err _ _ _)
      | panic p => rw [hhm] at hk; cases hk
      | ok hs => rw [hhm] at hk; simp only [Outcome.bind_ok, pure] at hk; cases hk

theorem levelStep_err (H : List UInt8 → List UInt8) (ty mask : Nat) (bits : List Bool) (cs : List HashInfo)
    (offset : Nat) (acc : Nat × List (List UInt8) × List Nat) (i : Nat) (e : String)
    (h : levelStep H ty mask bits cs offset acc i = .err e) : e = depthErr := by
  obtain ⟨seen, hashes, depths⟩ := acc
  simp only [levelStep] at h
  split at h
  · cases h
  · split at h
    · cases h
    · split at h
      · simp only [pure_bind] at h
        exact tail_err H ty cs i seen hashes depths _ e h
      · split at h
        · simp only [pure_bind] at h
          exact tail_err H ty cs i seen hashes depths _ e h
        · cases h

theorem foldlM_err {σ α : Type} (f : σ → α → Outcome σ) (P : String → Prop)
    (hf : ∀ s a e, f s a = .err e → P e) : ∀ (l : List α) (s : σ) (e : String), l.foldlM f s = .err e → P e := by
  intro l
  induction l with
  | nil => intro s e h; simp [List.foldlM_nil, pure] at h
  | cons a t ih =>
    intro s e h
    rw [List.foldlM_cons] at h
    cases hfa : f s a with
    | err e' => rw [hfa] at h; simp only [Outcome.bind_err] at h; injection h with h; subst h; exact hf s a e' hfa
    | panic p => rw [hfa] at h; cases h
    | ok s' => rw [hfa] at h; exact ih s' e h

theorem computeInfo_err (H : List UInt8 → List UInt8) (ty mask : Nat) (bits : List Bool) (buf : List UInt8)
    (cs : List HashInfo) (e : String) (h : computeInfo H ty mask bits buf cs = .err e) : e = depthErr := by
  simp only [computeInfo] at h
  cases hf : (List.range (LevelMask.level mask + 1)).foldlM
      (levelStep H ty mask bits cs (if ty = tyPruned then LevelMask.hashIndex mask else 0)) (0, [], []) with
  | err e' =>
    rw [hf] at h
    simp only [Outcome.bind_err] at h
    injection h with h; subst h
    exact foldlM_err _ (· = depthErr) (fun s a e he => levelStep_err H ty mask bits cs _ s a e he) _ _ _ hf
  | panic p => rw [hf] at h; cases h
  | ok s => rw [hf] at h; obtain ⟨a, b, c⟩ := s; simp only [Outcome.bind_ok, pure] at h; cases h

mutual
theorem info_err (H : List UInt8 → List UInt8) : ∀ (c : Cell) (e : String), Cell.info H c = .err e → e = depthErr
  | .mk ty mask bits refs, e, h => by
    simp only [Cell.info] at h
    cases hl : Cell.infoList H refs with
    | err e' =>
      rw [hl] at h; simp only [Outcome.bind_err] at h; injection h with h; subst h
      exact infoList_err H refs e' hl
    | panic p => rw [hl] at h; cases h
    | ok cs => rw [hl] at h; exact computeInfo_err H _ _ _ _ _ _ h
theorem infoList_err (H : List UInt8 → List UInt8) : ∀ (cs : List Cell) (e : String),
    Cell.infoList H cs = .err e → e = depthErr
  | [], e, h => by simp [Cell.infoList] at h
  | c :: cs, e, h => by
    simp only [Cell.infoList] at h
    cases h1 : Cell.info H c with
    | err e' => rw [h1] at h; simp only [Outcome.bind_err] at h; injection h with h; subst h; exact info_err H c e' h1
    | panic p => rw [h1] at h; cases h
    | ok i =>
      rw [h1] at h
      simp only [Outcome.bind_ok] at h
      cases h2 : Cell.infoList H cs with
      | err e' => rw [h2] at h; simp only [Outcome.bind_err] at h; injection h with h; subst h; exact infoList_err H cs e' h2
      | panic p => rw [h2] at h; cases h
      | ok is => rw [h2] at h; simp only [Outcome.bind_ok, pure] at h; cases h
end

end Tongo.CellHashLemmas
