import TongoModel.Tl.Compact
import TongoProofs.Lemmas.Crc32
/-! Rendering / hashing the compact (character-code) form of a declaration is rendering / hashing the `Decl` it
denotes. Used to turn the regenerated, kernel-evaluated obligations about `DeclC` values into statements about the
schema `Gen.liteApi`. -/
namespace Tongo.Tl

theorem toNat_ofNat_small : ∀ n, n < 128 → (Char.ofNat n).toNat = n := by decide

theorem codes_roundtrip (l : Codes) (h : codesOk l = true) : (l.map Char.ofNat).map Char.toNat = l := by
  induction l with
  | nil => rfl
  | cons a l ih =>
    simp only [codesOk, List.all_cons, Bool.and_eq_true, decide_eq_true_eq] at h
    simp only [List.map_cons, toNat_ofNat_small a h.1]
    rw [ih (by simpa [codesOk] using h.2)]

theorem strOf_codes (l : Codes) (h : codesOk l = true) : (strOf l).toList.map Char.toNat = l := by
  simp only [strOf, String.toList_ofList, codes_roundtrip l h]

theorem hexDigit_toNat : ∀ n, n < 16 → (hexDigit n).toNat = hexDigitC n := by decide

theorem hex8_codes (n : Nat) : (hex8 n).map Char.toNat = hex8C n := by
  simp only [hex8, hex8C, List.map_cons, List.map_nil]
  repeat rw [hexDigit_toNat _ (Nat.mod_lt _ (by decide))]

theorem dec2_codes : ∀ n, n < 100 → (dec2 n).map Char.toNat = dec2C n := by decide

theorem renderTy_codes (parens : Bool) (t : TyC) (h : t.ok = true) :
    (renderTy parens t.toTy).map Char.toNat = renderTyC parens t := by
  induction t with
  | vector t ih =>
    simp only [TyC.ok] at h
    cases parens <;> simp [TyC.toTy, renderTy, renderTyC, ih h] <;> decide
  | bare c => simpa [TyC.toTy, renderTy, renderTyC] using strOf_codes c h
  | boxed c => simpa [TyC.toTy, renderTy, renderTyC] using strOf_codes c h
  | _ => simp [TyC.toTy, renderTy, renderTyC] <;> decide

theorem renderField_codes (parens : Bool) (f : FieldC) (h : f.ok = true) :
    (renderField parens f.toField).map Char.toNat = renderFieldC parens f := by
  obtain ⟨name, cond, ty⟩ := f
  simp only [FieldC.ok, Bool.and_eq_true] at h
  cases cond with
  | none =>
    simp [renderField, renderFieldC, FieldC.toField, strOf_codes name h.1.1, renderTy_codes parens ty h.1.2]
  | some p =>
    obtain ⟨flag, bit⟩ := p
    simp only [Bool.and_eq_true, decide_eq_true_eq] at h
    simp [renderField, renderFieldC, FieldC.toField, strOf_codes name h.1.1, renderTy_codes parens ty h.1.2,
      strOf_codes flag h.2.1, dec2_codes bit h.2.2]

theorem renderFields_codes (parens : Bool) (fs : List FieldC) (h : fs.all FieldC.ok = true) :
    (renderFields parens (fs.map FieldC.toField)).map Char.toNat = renderFieldsC parens fs := by
  induction fs with
  | nil => rfl
  | cons f fs ih =>
    simp only [List.all_cons, Bool.and_eq_true] at h
    have ih' := ih h.2
    simp only [renderFields, renderFieldsC] at ih' ⊢
    simp [renderField_codes parens f h.1, ih']

/-- the compact rendering is the rendering of the denoted declaration -/
theorem renderDecl_codes (d : DeclC) (h : d.ok = true) : (renderDecl d.toDecl).map Char.toNat = renderDeclC d := by
  simp only [DeclC.ok, Bool.and_eq_true] at h
  have hf := renderFields_codes true d.fields h.2
  simp [renderDecl, renderDeclC, DeclC.toDecl, strOf_codes d.ctor h.1.1, strOf_codes d.result h.1.2, hex8_codes, hf]

theorem crcText_codes (d : DeclC) (h : d.ok = true) : (crcText d.toDecl).map Char.toNat = crcTextC d := by
  simp only [DeclC.ok, Bool.and_eq_true] at h
  have hf := renderFields_codes false d.fields h.2
  simp [crcText, crcTextC, DeclC.toDecl, strOf_codes d.ctor h.1.1, strOf_codes d.result h.1.2, hf]

/-- **the kernel-cheap id computation is the CRC-32 of the declaration text** -/
theorem crcOf_toDecl (d : DeclC) (h : d.ok = true) : crcOf d.toDecl = crcOfC d := by
  unfold crcOf crcOfC
  rw [crcText_codes d h, Tongo.Crc.crc32T_eq_crc32N]

end Tongo.Tl
