import TongoProofs.C02
import TongoProofs.C16
/-! Property C02, composition with C16 (kept in its own module: C16 itself imports C02). -/
namespace Tongo.C02
open Tongo Tongo.CellHashLemmas

/-- **The hash field of a decoded message / transaction is the hash of the definition** (composition with C16, agent
msg: `C16.msg_hash_is_cell_hash`, `C16.tx_hash_is_cell_hash` say the field is `Cell.reprHash` of the source cell; C02
says that is the representation hash of the TON definition). -/
theorem msg_tx_hash_is_spec (H : List UInt8 → List UInt8) (c : Cell) (hwf : Spec.WFExotic c)
    (hd : Spec.tooDeep c = false) :
    (∀ m, Message.unmarshalMessage H c = .ok m → m.hash = Spec.reprHash H c) ∧
    (∀ t, Message.captureTx H c = .ok t → t.hash = Spec.reprHash H c ∧ t.source = c) := by
  have e := reprHash_eq_spec H c hwf hd
  constructor
  · intro m hm
    have := C16.msg_hash_tree_level H c m hm
    rw [e] at this
    injection this with this; exact this.symm
  · intro t ht
    obtain ⟨h1, h2⟩ := C16.tx_capture_tree_level H c t ht
    rw [e] at h1
    injection h1 with h1; exact ⟨h1.symm, h2⟩


end Tongo.C02
