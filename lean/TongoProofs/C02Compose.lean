import TongoProofs.C02
import TongoProofs.C16
/-! Property C02, composition with C16 (kept in its own module: C16 itself imports C02). -/
namespace Tongo.C02
open Tongo Tongo.CellHashLemmas

/-- **The hash field of a decoded message / transaction is the hash of the definition**, tree-level form (composition
with C16's tree-level lemmas `msg_hash_tree_level`, `tx_capture_tree_level`: the field is `Cell.reprHash` of the source
cell; C02 says that is the representation hash of the TON definition). The form over mutable cells with cursors and a
hasher is `msg_heap_hash_is_spec` below. -/
theorem msg_tx_hash_is_spec (H : List UInt8 → List UInt8) (c : Cell) (hwf : Spec.WFExotic c)
    (hd : Spec.tooDeep c = false) :
    (∀ m, Message.unmarshalMessage H c = .ok m → m.hash = Spec.reprHash H c) ∧
    (∀ t, Message.captureTx H c = .ok t → t.hash = Spec.reprHash H c ∧ t.source = c) := by
  have e := reprHash_eq_spec H c hwf hd
  constructor
  · intro m hm
    have := C16.msg_hash_tree_level H c m hm
    rw [e] at this
    injection this with this; exact this.symm
  · intro t ht
    obtain ⟨h1, h2⟩ := C16.tx_capture_tree_level H c t ht
    rw [e] at h1
    injection h1 with h1; exact ⟨h1.symm, h2⟩

/-- **…on mutable cells, from any cursor state, with any valid hasher table** (composition with C16's heap theorem
`C16.msg_hash_is_cell_hash`): `Message.UnmarshalTLB` on a well-formed cell within the depth limit reports as hash the
representation hash of the DEFINITION (`Spec.reprHash`) of the tree the pointer denotes, whatever has been read from
the cell or its descendants before and whether or not the decoder carries a caching hasher. -/
theorem msg_heap_hash_is_spec (H : List UInt8 → List UInt8) (fuel : Nat) (d : Message.Dec) (p : Nat) (c : Cell)
    (mc : Message.MsgCell) (hv : d.Valid H) (ht : Memo.tree d.heap.rows fuel p = some c) (hp : d.heap p = some mc)
    (hwf : Spec.WFExotic c) (hd : Spec.tooDeep c = false) :
    Message.outFst (Message.unmarshalMessageH H fuel d p) =
      (Message.decodeMsg (Message.rowStore d.heap.rows) ⟨mc.row.bits, mc.row.refs⟩).bind fun m =>
        .ok ⟨Spec.reprHash H c, m⟩ := by
  rw [C16.msg_hash_is_cell_hash H fuel d p c mc hv ht hp, reprHash_eq_spec H c hwf hd]
  rfl

end Tongo.C02
