import TongoProofs.Lemmas.ClientSM
import TongoProofs.Lemmas.ClientLive
/-! Property C12 — concurrent lite-client requests each receive their own answer.

Property theorems only (invariants and their preservation proofs: `TongoProofs/Lemmas/ClientSM.lean`). They are about
the transition system `TongoModel/ClientSM.lean` and hold for EVERY reachable state / every enabled action list:
any number of callers (calls are indexed by `Nat`), any number of connections, any environment behaviour (answers in
any order, duplicates, unknown ids, malformed bodies, other packets, drops, timeouts at any moment).
`idOf k` is the query id call `k` draws; `IdsDistinct` (ids pairwise different — 256 random bits in the code) is an
explicit hypothesis where it is needed. Data races, wall-clock bounds and goroutine counts are NOT statements about
this system; see props/C12.py. -/
namespace Tongo.C12
open Tongo.ClientSM

variable (idOf : Nat → Id) (nConn : Nat)

/-! ## demultiplexing -/

/-- If call `k` returns `ok b` (result decided or already returned), then an answer packet carrying `k`'s OWN id and
the body `b` was delivered AFTER `register k`. -/
theorem demux (as : List Action) (s : State) (h : run idOf nConn init as = some s) (k : Nat) (b : Payload)
    (hk : s.pc k = .returning (.ok b) ∨ s.pc k = .returned (.ok b)) :
    ∃ pre c post, as = pre ++ Action.deliver c (.answer (idOf k) (.good b)) :: post ∧ Action.register k ∈ pre := by
  have := tinv_run idOf nConn (pre := []) (inv_init idOf) (tinv_init idOf) h
  exact this.t4 k b hk

/-- every answer the environment delivers carries the payload `ans id` determined by its id (a server that answers
each query id with the answer for that id — in any order, any number of times, mixed with anything else) -/
def Honest (ans : Id → Payload) (as : List Action) : Prop :=
  ∀ c id b, Action.deliver c (.answer id (.good b)) ∈ as → b = ans id

/-- With such a server, a call that returns `ok b` returns the answer for its own id … -/
theorem demux_own_answer (ans : Id → Payload) (as : List Action) (s : State) (h : run idOf nConn init as = some s)
    (hh : Honest ans as) (k : Nat) (b : Payload) (hk : s.pc k = .returned (.ok b)) : b = ans (idOf k) := by
  obtain ⟨pre, c, post, e, _⟩ := demux idOf nConn as s h k b (Or.inr hk)
  exact hh c (idOf k) b (by rw [e]; simp)

/-- … and never the answer of another call, provided ids are distinct (and different ids have different answers). -/
theorem demux_not_other (hd : IdsDistinct idOf) (ans : Id → Payload) (hans : ∀ i j, ans i = ans j → i = j)
    (as : List Action) (s : State) (h : run idOf nConn init as = some s) (hh : Honest ans as)
    (k k' : Nat) (hne : k' ≠ k) (b : Payload) (hk : s.pc k = .returned (.ok b)) : b ≠ ans (idOf k') := by
  intro e
  have := demux_own_answer idOf nConn ans as s h hh k b hk
  exact hne (hd _ _ (hans _ _ (by rw [← e, this])))

/-- First answer wins: if call `k` returns `ok b`, the action list reads `… register k … deliver (idOf k, good b) …`
with NO delivered answer carrying `k`'s id in between — `b` is the FIRST answer delivered for its id after its
registration. No hypothesis on the ids. -/
theorem demux_first_answer (as : List Action) (s : State) (h : run idOf nConn init as = some s) (k : Nat) (b : Payload)
    (hk : s.pc k = .returning (.ok b) ∨ s.pc k = .returned (.ok b)) :
    ∃ pre mid c post,
      as = pre ++ Action.register k :: mid ++ Action.deliver c (.answer (idOf k) (.good b)) :: post ∧
      ∀ a ∈ mid, delivId a ≠ some (idOf k) := by
  have := finv_run idOf nConn (pre := []) (inv_init idOf) (finv_init idOf) h
  exact this.f4 k b hk

/-- … and later duplicates are dropped: once the registration is gone (consumed by the first answer, or removed by the
deferred unregister), delivering any answer with that id changes nothing. -/
theorem duplicate_dropped (s : State) (c : Nat) (id : Id) (body : Body) (hq : s.queries id = none) :
    step idOf nConn s (.deliver c (.answer id body)) = some s ∨ step idOf nConn s (.deliver c (.answer id body)) = none := by
  simp only [step, hq]
  split <;> simp

/-- The property for all callers at once: in every execution, with any number of callers and connections, EVERY call
that returned `ok b` got the first answer delivered for its own id after its registration; with a server whose answers
are a function of the id that is the answer to its own query; and with distinct ids it is nobody else's. -/
theorem demux_all_callers (as : List Action) (s : State) (h : run idOf nConn init as = some s) :
    ∀ k b, s.pc k = .returned (.ok b) →
      (∃ pre mid c post,
        as = pre ++ Action.register k :: mid ++ Action.deliver c (.answer (idOf k) (.good b)) :: post ∧
        ∀ a ∈ mid, delivId a ≠ some (idOf k)) ∧
      (∀ ans, Honest ans as → b = ans (idOf k)) ∧
      (∀ ans, Honest ans as → IdsDistinct idOf → (∀ i j, ans i = ans j → i = j) → ∀ k', k' ≠ k → b ≠ ans (idOf k')) := by
  intro k b hk
  refine ⟨demux_first_answer idOf nConn as s h k b (Or.inr hk), ?_, ?_⟩
  · intro ans hh
    exact demux_own_answer idOf nConn ans as s h hh k b hk
  · intro ans hh hd hans k' hne
    exact demux_not_other idOf nConn hd ans hans as s h hh k k' hne b hk

/-! ## the reader never blocks -/

/-- In every reachable state no reader has ever executed a channel send on a full channel; more precisely the
invariant: an id in `queries` ⇒ its channel is empty; a pending channel send ⇒ its channel is empty and it is the
only pending send for that channel. Hence duplicates and unknown ids are dropped without blocking. -/
theorem reader_never_blocks (s : State) (h : Reachable idOf nConn s) :
    s.readerBlocked = false ∧
    (∀ id k, s.queries id = some k → s.chan k = none) ∧
    (∀ c k v, (s.conn c).pending = some (k, v) → s.chan k = none) ∧
    (∀ c s', step idOf nConn s (.chanSend c) = some s' → s'.readerBlocked = false) := by
  have hi := inv_reachable idOf nConn h
  refine ⟨hi.f, ?_, ?_, ?_⟩
  · intro id k hq
    exact (hi.b k (hi.a id k hq).2.1).1
  · intro c k v hp
    exact (hi.c c k v hp).1
  · intro c s' hs
    exact (inv_step idOf nConn hi hs).f

/-! ## registration precedes sending, and stays until an answer consumes it -/

/-- (1) a query is on the wire only for calls that registered before; (2) under distinct ids, as long as a call is
in flight (registered, connection picked, or waiting) and no answer for its id has been consumed, its registration IS
in `queries` — so no answer can arrive and find nothing. -/
theorem register_before_send (as : List Action) (s : State) (h : run idOf nConn init as = some s) :
    (∀ k, s.pc k ≠ .start → Action.register k ∈ as) ∧
    (∀ c k, (c, k) ∈ s.wire → s.pc k ≠ .start ∧ s.pc k ≠ .registered) ∧
    (IdsDistinct idOf → ∀ k, InFlight s k → s.consumed k = false → s.queries (idOf k) = some k) := by
  refine ⟨?_, ?_, ?_⟩
  · exact (pcinv_run idOf nConn (pre := []) (pcinv_init) h).1
  · intro c k hw
    have := (pcinv_run idOf nConn (pre := []) (pcinv_init) h).2 c k hw
    grind
  · intro hd
    exact rinv_run idOf nConn hd (inv_init idOf) (rinv_init idOf) h

/-! ## timeouts -/

/-- A waiting call can always take the timeout arm; whatever else happens it stays waiting or its result becomes
`timeout` or `ok b` with `b` the value in its channel; and the deferred unregister removes its id from `queries`. -/
theorem timeout_returns (s : State) (k : Nat) (hw : s.pc k = .waiting) :
    (∃ s', step idOf nConn s (.timeout k) = some s' ∧ s'.pc k = .returning .timeout) ∧
    (∀ a s', step idOf nConn s a = some s' →
      s'.pc k = .waiting ∨ s'.pc k = .returning .timeout ∨ ∃ b, s.chan k = some b ∧ s'.pc k = .returning (.ok b)) ∧
    (∀ s1 r, s1.pc k = .returning r →
      ∃ s2, step idOf nConn s1 (.unregister k) = some s2 ∧ s2.pc k = .returned r ∧ s2.queries (idOf k) = none) := by
  refine ⟨?_, ?_, ?_⟩
  · simp [step, hw]
  · intro a s' h
    cases a <;> simp only [step] at h <;> (repeat' split at h) <;> (try cases h) <;>
      (try simp only [set_apply] at *) <;> grind
  · intro s1 r h1
    simp [step, h1]

/-- The deadline of a call is the EARLIER of the client timeout and the caller's own deadline (or cancellation): it is
never later than `start + timeout`, never later than the caller's deadline, it is one of the two, and without a caller
deadline it is `start + timeout`. Together with `timeout_returns` (the timeout arm is enabled in every waiting state)
an unanswered call returns `timeout` exactly then. -/
theorem timeout_is_min (start timeout : Nat) (caller : Option Nat) :
    effectiveDeadline start timeout caller ≤ start + timeout ∧
    (∀ d, caller = some d → effectiveDeadline start timeout caller ≤ d) ∧
    (effectiveDeadline start timeout caller = start + timeout ∨ caller = some (effectiveDeadline start timeout caller)) ∧
    (caller = none → effectiveDeadline start timeout caller = start + timeout) := by
  cases caller with
  | none => simp [effectiveDeadline]
  | some d =>
    simp only [effectiveDeadline]
    refine ⟨Nat.min_le_left _ _, ?_, ?_, by simp⟩
    · intro d' h; cases h; exact Nat.min_le_right _ _
    · rcases Nat.le_total (start + timeout) d with h | h
      · exact Or.inl (Nat.min_eq_left h)
      · exact Or.inr (by rw [Nat.min_eq_right h])

/-! ## no leak -/

/-- `queries` never holds more entries than there are calls that have not returned yet: any list of distinct
registered ids is matched by an equally long list of distinct calls, each of them still active. -/
theorem no_leak_model (s : State) (h : Reachable idOf nConn s) (ids : List Id) (hnd : ids.Nodup)
    (hin : ∀ id ∈ ids, (s.queries id).isSome) :
    ∃ ks : List Nat, ks.Nodup ∧ ks.length = ids.length ∧ ∀ k ∈ ks, (s.pc k).active = true := by
  have hi := inv_reachable idOf nConn h
  suffices ∃ ks : List Nat, ks.Nodup ∧ ks.length = ids.length ∧
      ∀ k ∈ ks, (s.pc k).active = true ∧ ∃ id ∈ ids, s.queries id = some k by
    obtain ⟨ks, h1, h2, h3⟩ := this
    exact ⟨ks, h1, h2, fun k hk => (h3 k hk).1⟩
  induction ids with
  | nil => exact ⟨[], by simp⟩
  | cons id rest ih =>
    obtain ⟨ks, h1, h2, h3⟩ := ih (List.nodup_cons.mp hnd).2 (fun i hi' => hin i (by simp [hi']))
    have hsome := hin id (by simp)
    obtain ⟨k, hk⟩ := Option.isSome_iff_exists.mp hsome
    refine ⟨k :: ks, ?_, by simp [h2], ?_⟩
    · refine List.nodup_cons.mpr ⟨?_, h1⟩
      intro hmem
      obtain ⟨_, id', hid', hq'⟩ := h3 k hmem
      have e1 := (hi.a id k hk).1
      have e2 := (hi.a id' k hq').1
      exact (List.nodup_cons.mp hnd).1 (by rw [← e1, e2]; exact hid')
    · intro k' hk'
      rcases List.mem_cons.mp hk' with rfl | hm
      · exact ⟨(hi.a id _ hk).2.2, id, by simp, hk⟩
      · obtain ⟨ha, id', hid', hq'⟩ := h3 k' hm
        exact ⟨ha, id', by simp [hid'], hq'⟩

/-! ## connection status machine -/

/-- `Send` on a connection that is not `Connected` (mutex free) fails, writes nothing and does not keep the mutex. -/
theorem status_machine_send_fails (s : State) (k c : Nat) (hp : s.pc k = .picked c)
    (hs : (s.conn c).status = .connecting) (hm : (s.conn c).writer = none) :
    ∃ s', step idOf nConn s (.sendBegin k) = some s' ∧ s'.pc k = .returning .sendErr ∧ s'.wire = s.wire ∧
      s'.conn = s.conn := by
  simp [step, hp, hs, hm]

/-- At most one reconnect loop per connection, and it runs exactly while the status is `Connecting` (the guard
`status == Connecting` at the top of `reconnect`). -/
theorem status_machine (s : State) (h : Reachable idOf nConn s) (c : Nat) :
    (s.conn c).loops ≤ 1 ∧ ((s.conn c).status = .connecting ↔ (s.conn c).loops = 1) :=
  (inv_reachable idOf nConn h).g c

/-- After a drop: a `Send` on a `Connected` connection whose socket is dead takes the mutex, its write fails, it
spawns a reconnect and releases the mutex; the reconnect's first step starts THE loop (status `Connecting`, one loop);
any further spawned reconnect is a no-op; the loop can complete, after which the connection is `Connected` with a live
socket and a reader. -/
theorem status_machine_drop_reconnects (s : State) (h : Reachable idOf nConn s) (k c : Nat)
    (hp : s.pc k = .picked c) (hs : (s.conn c).status = .connected) (hd : (s.conn c).sockOk = false)
    (hm : (s.conn c).writer = none) :
    ∃ s0 s1 s2 s3, step idOf nConn s (.sendBegin k) = some s0 ∧ s0.pc k = .sending c ∧
      step idOf nConn s0 (.writeFail k) = some s1 ∧ s1.pc k = .returning .sendErr ∧ (s1.conn c).writer = none ∧
      step idOf nConn s1 (.reconnectStart c) = some s2 ∧
      (s2.conn c).status = .connecting ∧ (s2.conn c).loops = 1 ∧
      (∀ s', step idOf nConn s2 (.reconnectStart c) = some s' → (s'.conn c).loops = 1) ∧
      step idOf nConn s2 (.reconnectOk c) = some s3 ∧
      (s3.conn c).status = .connected ∧ (s3.conn c).sockOk = true ∧ (s3.conn c).reader = true ∧
      (s3.conn c).loops = 0 := by
  have hg := (inv_reachable idOf nConn h).g c
  have hl : (s.conn c).loops = 0 := by
    have : (s.conn c).loops ≠ 1 := fun h' => by
      have := hg.2.mpr h'
      rw [hs] at this; cases this
    omega
  simp [step, hp, hs, hd, hm, reconnectBody, hl, set_apply]

/-- Connection choice is round-robin: `pickConn` hands out the counter's value and advances it modulo the number of
connections; no other action touches the counter. -/
theorem round_robin (s s' : State) (a : Action) (h : step idOf nConn s a = some s') :
    (∀ k, a = .pickConn k → s'.pc k = .picked s.nextConn ∧ s'.nextConn = (s.nextConn + 1) % nConn) ∧
    ((∀ k, a ≠ .pickConn k) → s'.nextConn = s.nextConn) := by
  cases a <;> simp only [step] at h <;> (repeat' split at h) <;> (try cases h) <;> simp [set_apply]

/-! ## progress: who can be stuck, and on what

`Connection.Send` holds `Connection.mu` during the socket write, and the write has no deadline. The transition system
models the mutex (`writer`) and a peer that does not read (`canWrite = false`). Consequences, all for REACHABLE states:
a call is never stuck on the client's own account — the only obstacles are (a) the mutex held by another goroutine that
is inside a write, and (b) a write blocked by the peer; the holder of the mutex never waits for another mutex, so there
is no cycle of waiting inside the client. With a peer that does not drain, however, a call DOES outlive its deadline
(`stalled_peer_outlives_deadline`, reproduced on the real client: known finding). -/

/-- the environment assumption "the peers read": no write can block -/
def PeersDrain (s : State) : Prop := ∀ c, (s.conn c).canWrite = true

/-- No deadlock inside the client. (Clauses 1, 2 and 5 are facts about `step` that hold in EVERY state — the caller
actions are guarded by the caller's own pc, the mutex and the socket only; the content that needs reachability is in
clauses 3 and 4, which rest on the invariants `Inv.w`, `Inv.w2`, `Inv.c`.) In every reachable state:
(1) every call that has not returned either has an enabled action of its OWN goroutine that brings it strictly closer
to returning, or it waits for `Connection.mu` of its connection, which is held by a goroutine inside a write, or it is
itself inside a write that the peer blocks (live socket, peer not reading);
(2) no action of anybody ever moves a call backwards (`Pc.rank` never increases);
(3) whoever holds a connection's mutex is inside a write on a `Connected` connection — it never waits for a mutex — and
if the socket is dead or the peer reads, the action that ends the write is enabled;
(4) a reader holding a value for a channel can always complete the send without blocking;
(5) an idle reader accepts ANY packet. -/
theorem no_deadlock_client (s : State) (h : Reachable idOf nConn s) (hn : 0 < nConn) :
    (∀ k, (∃ r, s.pc k = .returned r) ∨
      (∃ a ∈ [Action.register k, .pickConn k, .sendBegin k, .writeDone k, .writeFail k, .timeout k, .unregister k],
        ∃ s', step idOf nConn s a = some s' ∧ (s'.pc k).rank < (s.pc k).rank) ∨
      (∃ c, s.pc k = .picked c ∧ (s.conn c).writer ≠ none) ∨
      (∃ c, s.pc k = .sending c ∧ (s.conn c).sockOk = true ∧ (s.conn c).canWrite = false)) ∧
    (∀ a s' k, step idOf nConn s a = some s' → (s'.pc k).rank ≤ (s.pc k).rank) ∧
    (∀ c, (s.conn c).writer ≠ none →
      (s.conn c).status = .connected ∧
      (∀ k, (s.conn c).writer = some (.call k) → s.pc k = .sending c) ∧
      ((s.conn c).sockOk = false ∨ (s.conn c).canWrite = true →
        (∀ k, (s.conn c).writer = some (.call k) →
          (∃ s', step idOf nConn s (.writeDone k) = some s') ∨ (∃ s', step idOf nConn s (.writeFail k) = some s')) ∧
        ((s.conn c).writer = some .ping → ∃ s', step idOf nConn s (.pingDone c) = some s'))) ∧
    (∀ c k v, (s.conn c).pending = some (k, v) →
      ∃ s', step idOf nConn s (.chanSend c) = some s' ∧ s'.readerBlocked = false ∧ (s'.conn c).pending = none) ∧
    (∀ c p, (s.conn c).reader = true → (s.conn c).pending = none → ∃ s', step idOf nConn s (.deliver c p) = some s') := by
  have hi := inv_reachable idOf nConn h
  refine ⟨?_, ?_, ?_, ?_, ?_⟩
  · intro k
    cases hp : s.pc k with
    | start => exact Or.inr (Or.inl ⟨.register k, by simp, by simp [step, hp, Pc.rank]⟩)
    | registered => exact Or.inr (Or.inl ⟨.pickConn k, by simp, by simp [step, hp, hn, Pc.rank]⟩)
    | picked c =>
      by_cases hwr : (s.conn c).writer = none
      · refine Or.inr (Or.inl ⟨.sendBegin k, by simp, ?_⟩)
        simp only [step, hp, hwr]
        by_cases hst : (s.conn c).status = .connected
        · simp [hst, Pc.rank]
        · simp [hst, Pc.rank]
      · exact Or.inr (Or.inr (Or.inl ⟨c, rfl, hwr⟩))
    | sending c =>
      by_cases hok : (s.conn c).sockOk = true
      · by_cases hcw : (s.conn c).canWrite = true
        · exact Or.inr (Or.inl ⟨.writeDone k, by simp, by simp [step, hp, hok, hcw, Pc.rank]⟩)
        · exact Or.inr (Or.inr (Or.inr ⟨c, rfl, hok, by simpa using hcw⟩))
      · exact Or.inr (Or.inl ⟨.writeFail k, by simp, by simp [step, hp, hok, Pc.rank]⟩)
    | waiting => exact Or.inr (Or.inl ⟨.timeout k, by simp, by simp [step, hp, Pc.rank]⟩)
    | returning r => exact Or.inr (Or.inl ⟨.unregister k, by simp, by simp [step, hp, Pc.rank]⟩)
    | returned r => exact Or.inl ⟨r, rfl⟩
  · intro a s' k hs
    cases a <;> simp only [step] at hs <;> (repeat' split at hs) <;> (try cases hs) <;>
      (try simp only [set_apply]) <;> (try split) <;> simp_all [Pc.rank]
  · intro c hwr
    refine ⟨hi.w2 c hwr, fun k hk => (hi.w c k).mp hk, ?_⟩
    intro hfree
    refine ⟨?_, ?_⟩
    · intro k hk
      have hp := (hi.w c k).mp hk
      by_cases hok : (s.conn c).sockOk = true
      · have hcw : (s.conn c).canWrite = true := by
          rcases hfree with h1 | h1
          · rw [hok] at h1; cases h1
          · exact h1
        exact Or.inl (by simp [step, hp, hok, hcw])
      · exact Or.inr (by simp [step, hp, hok])
    · intro hk
      by_cases hok : (s.conn c).sockOk = true
      · have hcw : (s.conn c).canWrite = true := by
          rcases hfree with h1 | h1
          · rw [hok] at h1; cases h1
          · exact h1
        simp [step, hk, hok, hcw]
      · simp [step, hk, hok]
  · intro c k v hp
    have hc := (hi.c c k v hp).1
    simp [step, hp, hc, hi.f]
  · intro c p hr hp
    simp only [step, hr, hp]
    cases p with
    | other => simp
    | answer id body =>
      cases hq : s.queries id with
      | none => simp [hq]
      | some k => cases body <;> simp [hq]

/-- THE DEFECT, in the model: a peer that stops reading. After `peerStall`, a call that has entered `Send` holds the
mutex inside a blocked write: none of its own actions is enabled — in particular not `timeout` (it is not in its
`select`) — and a second call on the same connection cannot even begin its `Send`. Both outlive any deadline until the
peer reads again (`peerDrain`) or the socket dies. Reachable, so no theorem "every call returns by its deadline" can hold
without the assumption `PeersDrain`. The same history on the real client: `go.client.stalled` (known finding). -/
theorem stalled_peer_outlives_deadline :
    ∃ s, run (fun k => 100 + k) 1 init
        [.register 0, .pickConn 0, .register 1, .pickConn 1, .peerStall 0, .sendBegin 0] = some s ∧
      s.pc 0 = .sending 0 ∧ s.pc 1 = .picked 0 ∧
      (∀ a ∈ [Action.register 0, .pickConn 0, .sendBegin 0, .writeDone 0, .writeFail 0, .recv 0, .timeout 0, .unregister 0],
        (step (fun k => 100 + k) 1 s a).isNone = true) ∧
      (∀ a ∈ [Action.register 1, .pickConn 1, .sendBegin 1, .writeDone 1, .writeFail 1, .recv 1, .timeout 1, .unregister 1],
        (step (fun k => 100 + k) 1 s a).isNone = true) ∧
      (step (fun k => 100 + k) 1 s (.pingBegin 0)).isNone = true ∧
      (∃ s', step (fun k => 100 + k) 1 s (.peerDrain 0) = some s' ∧
        (step (fun k => 100 + k) 1 s' (.writeDone 0)).isSome = true) := by
  refine ⟨_, rfl, by decide, by decide, by decide, by decide, by decide, _, rfl, by decide⟩

/-- With peers that read, a call inside `Send` can always finish it: under `PeersDrain` obstacle (b) of
`no_deadlock_client` disappears, and obstacle (a) is a goroutine that can finish. -/
theorem sends_complete_when_peers_drain (s : State) (h : Reachable idOf nConn s) (hd : PeersDrain s) (k c : Nat)
    (hp : s.pc k = .sending c) :
    (∃ s', step idOf nConn s (.writeDone k) = some s' ∧ s'.pc k = .waiting ∧ (s'.conn c).writer = none) ∨
    (∃ s', step idOf nConn s (.writeFail k) = some s' ∧ s'.pc k = .returning .sendErr ∧ (s'.conn c).writer = none) := by
  by_cases hok : (s.conn c).sockOk = true
  · exact Or.inl (by simp [step, hp, hok, hd c, set_apply])
  · exact Or.inr (by simp [step, hp, hok, set_apply])

/-! ## reconnection -/

/-- RECOVERABILITY (an existence statement, not liveness): from EVERY reachable state in which connection `c` is not
healthy — in particular after `connDrop c` — at most five steps of the connection's own goroutines and its socket
(`recovery`: the socket dies, a blocked writer gets the error and releases the mutex, a ping's Send fails, the spawned
reconnect() runs, the handshake succeeds) lead to a state in which `c` is `Connected`, writable and has a running
reader; nothing else changes. That these steps ARE eventually taken is the liveness theorem `reconnect_live`. -/
theorem reconnect_recoverable (s : State) (h : Reachable idOf nConn s) (c : Nat) (hu : ¬ Healthy (s.conn c)) :
    ∃ s', run idOf nConn s (recovery (s.conn c) c) = some s' ∧ (recovery (s.conn c) c).length ≤ 5 ∧
      Healthy (s'.conn c) ∧ (s'.conn c).writer = none ∧
      (∀ c', c' ≠ c → s'.conn c' = s.conn c') ∧ s'.queries = s.queries ∧ s'.chan = s.chan := by
  have hi := inv_reachable idOf nConn h
  have hg := hi.g c
  have hw := hi.w c
  have hw2 := hi.w2 c
  generalize hcn : s.conn c = cn at hg hu hw hw2
  obtain ⟨st, ok, cw, wr, rd, loops, sp, pend⟩ := cn
  simp only at hg hw hw2
  cases st with
  | connecting =>
    have hl : loops = 1 := hg.2.mp rfl
    subst hl
    have hwr : wr = none := by
      cases wr with
      | none => rfl
      | some w => exact absurd (hw2 (by simp)) (by simp)
    subst hwr
    simp only [recovery, run, step, hcn, if_true]
    simp only [Nat.zero_lt_one, true_and, if_true, Option.some.injEq, exists_eq_left']
    refine ⟨by simp, by simp [Healthy], by simp, ?_⟩
    simp only [and_true]
    intro c' hne; simp [set_apply, hne]
  | connected =>
    have hl : loops = 0 := by
      have : loops ≠ 1 := fun h' => by have := hg.2.mpr h'; cases this
      omega
    subst hl
    cases wr with
    | none =>
      cases ok <;> by_cases hsp : sp > 0
      all_goals
        simp [recovery, run, step, hcn, hsp, set_apply, reconnectBody, Healthy]
      all_goals
        intro c' hne; simp [hne]
    | some w =>
      cases w with
      | ping =>
        cases ok
        all_goals
          simp [recovery, run, step, hcn, set_apply, reconnectBody, Healthy]
        all_goals
          intro c' hne; simp [hne]
      | call k =>
        have hp : s.pc k = .sending c := (hw k).mp rfl
        cases ok
        all_goals
          simp [recovery, run, step, hcn, hp, set_apply, reconnectBody, Healthy]
        all_goals
          intro c' hne; simp [hne]

/-- LIVENESS of reconnection, with the fairness assumptions as hypotheses about the execution (predicates defined in
`Lemmas/ClientLive.lean`), not prose. For every infinite execution `e` of the transition system from a reachable state:
IF (F1) a `Connected` socket whose peer has closed does not stay writable for ever (`SockDies`), (F2) a write on a dead
socket eventually returns its error (`WeakFair` for every `writeFail k` and for `pingDone c`), (F3) the ping goroutine's
`Send` on a dead socket and a spawned `reconnect()` get the mutex whenever it is free infinitely often (`StrongFair` for
`pingFail c` and `reconnectStart c` — sync.Mutex is starvation-free), and (F4) the server eventually completes a new
handshake (`WeakFair` for `reconnectOk c`), THEN connection `c` is Connected, writable and read again INFINITELY OFTEN:
after every drop — mid-request, idle, or during a reconnect — it comes back. No bound on the number of drops or on what
other goroutines do in between is assumed. (The proof uses the persistence of each recovery step's enabledness:
`step_status_connecting`, `step_sockDead_persists`, `step_writer_call_persists`, `step_spawned_mono`, ….) -/
theorem reconnect_live (e : Exec idOf nConn) (c : Nat)
    (hF1 : SockDies e c) (hF4 : WeakFair e (.reconnectOk c))
    (hF2 : ∀ k, WeakFair e (.writeFail k)) (hF2' : WeakFair e (.pingDone c))
    (hF3 : StrongFair e (.reconnectStart c)) (hF3' : StrongFair e (.pingFail c)) :
    ∀ i, ∃ j, i ≤ j ∧ Healthy ((e.st j).conn c) :=
  reconnect_live_core e c hF1 hF4 hF2 hF2' hF3 hF3'

/-- … and later calls can succeed: in a reachable state where the connection the round-robin counter points at is
healthy, its mutex free and its reader idle, and the peer reads, a fresh call runs register, pickConn, Send, and — once
the server's answer for its id is delivered — returns that answer. -/
theorem call_can_succeed (s : State) (h : Reachable idOf nConn s) (hn : 0 < nConn) (k : Nat) (b : Payload)
    (hk : s.pc k = .start) (hc : Healthy (s.conn s.nextConn)) (hp : (s.conn s.nextConn).pending = none)
    (hm : (s.conn s.nextConn).writer = none) (hd : (s.conn s.nextConn).canWrite = true) :
    ∃ s', run idOf nConn s [.register k, .pickConn k, .sendBegin k, .writeDone k,
        .deliver s.nextConn (.answer (idOf k) (.good b)), .chanSend s.nextConn, .recv k, .unregister k] = some s' ∧
      s'.pc k = .returned (.ok b) := by
  have hi := inv_reachable idOf nConn h
  have hch : s.chan k = none := (hi.b k (hi.e k hk)).1
  obtain ⟨h1, h2, h3⟩ := hc
  simp [run, step, hk, hn, h1, h2, h3, hp, hm, hd, hch]

/-! ## the statements are not vacuous — tests on literals -/

/-- two calls on one connection, answers delivered in the opposite order, a duplicate and an unknown id in between:
each call returns its own payload -/
example :
    (run (fun k => 100 + k) 1 init
      [.register 0, .pickConn 0, .sendBegin 0, .writeDone 0, .register 1, .pickConn 1, .sendBegin 1, .writeDone 1,
       .deliver 0 (.answer 101 (.good 11)), .chanSend 0, .deliver 0 (.answer 101 (.good 99)),
       .deliver 0 (.answer 555 (.good 5)), .deliver 0 .other,
       .deliver 0 (.answer 100 (.good 10)), .chanSend 0,
       .recv 0, .unregister 0, .recv 1, .unregister 1]).map (fun s => (s.pc 0, s.pc 1, s.readerBlocked))
      = some (.returned (.ok 10), .returned (.ok 11), false) := by decide

/-- a malformed answer consumes the registration: the call can only time out, a later valid answer is dropped -/
example :
    (run (fun k => 100 + k) 1 init
      [.register 0, .pickConn 0, .sendBegin 0, .writeDone 0, .deliver 0 (.answer 100 .malformed),
       .deliver 0 (.answer 100 (.good 10)), .timeout 0, .unregister 0]).map (fun s => s.pc 0)
      = some (.returned .timeout) := by decide

/-- the fairness hypotheses of `reconnect_live` are satisfiable by an execution with REAL drops: in `cycExec` the server
closes connection 0 over and over (connDrop → sockDead → pingFail → reconnectStart → reconnectOk, for ever); it meets all
six hypotheses — both strong-fairness premises are true, the actions are enabled and taken infinitely often —, the
connection is unhealthy infinitely often, and `reconnect_live` gives: healthy infinitely often. -/
example : ∀ i, ∃ j, i ≤ j ∧ Healthy (((cycExec (fun k => 100 + k)).st j).conn 0) := by
  obtain ⟨h1, h2, h3, h4, h5, h6, _⟩ := cycExec_fair (fun k => 100 + k)
  exact reconnect_live (fun k => 100 + k) 1 (cycExec (fun k => 100 + k)) 0 h1 h2 h3 h4 h5 h6

example : (∀ i, ∃ j, i ≤ j ∧ (cycExec (fun k => 100 + k)).lab j = .connDrop 0) ∧
    (∀ i, ∃ j, i ≤ j ∧ ¬ Healthy (((cycExec (fun k => 100 + k)).st j).conn 0)) :=
  ⟨(cycExec_fair _).2.2.2.2.2.2.1, (cycExec_fair _).2.2.2.2.2.2.2.1⟩

/-- one full cycle on a finite run: the server drops the connection, the socket dies, a ping fails, the spawned
reconnect runs and succeeds, and a call issued afterwards is answered -/
example :
    (run (fun k => 100 + k) 1 init
      [.connDrop 0, .sockDead 0, .pingFail 0, .reconnectStart 0, .reconnectOk 0,
       .register 0, .pickConn 0, .sendBegin 0, .writeDone 0, .deliver 0 (.answer 100 (.good 10)), .chanSend 0,
       .recv 0, .unregister 0]).map (fun s => (s.pc 0, (s.conn 0).status, (s.conn 0).reader))
      = some (.returned (.ok 10), .connected, true) := by decide

example : IdsDistinct (fun k => 100 + k) := by intro a b h; simpa using h

end Tongo.C12
