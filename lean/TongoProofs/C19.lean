import TongoProofs.Lemmas.TonConnect
import TongoGen.TonConnectMsg
import TongoProofs.Lemmas.GenTiesWallet
import TongoProofs.Lemmas.SigIdeal
import TongoProofs.Lemmas.HashTree
/-! Property C19 — TON Connect proofs are accepted only for the key controlling the address.

Model: `TongoModel/TonConnect.lean`. `H` (SHA-256), `mac` (HMAC-SHA-256 under the server secret), `sign`/`verify`
(Ed25519) are parameters; signature correctness is an explicit premise of `accept_honest`; the NEGATIVE clauses (signed by
another key; address / domain / timestamp / payload differ from what was signed; state init of another key) are proved
under the ideal signature scheme `Sig.Ideal` (correct, unforgeable, binding — `Lemmas/SigIdeal.lean`) and `CollisionFree H`
on the byte strings involved: local hypotheses, never axioms; the accept-all verifier does not satisfy them. The model
hashes cells with `Cell.hashO`, Go's `Cell.Hash` on trees of level-0 non-pruned cells (C15 `hash_model_is_cell_hash`).
Property theorems only. -/
namespace Tongo.C19
open Tongo Tongo.TonConnect Tongo.Wallet Tongo.Bits

variable (H : List UInt8 → List UInt8) (verify : List UInt8 → List UInt8 → List UInt8 → Bool)

/-! ### rejections (decision logic, in the order of the Go checks) -/

/-- A payload the payload check does not accept: rejected before anything else is looked at. -/
theorem reject_payload_refused (env : Env) (p : ProofIn) (h : env.payloadOk = false) :
    checkProof H verify env p = .err "failed to verify payload" := by
  unfold checkProof checkProofWith
  simp [h]

/-- `CheckPayload`: a 32-byte payload whose last 16 bytes are not the first 16 bytes of the MAC of its first 16 bytes
is refused — whatever its time field says (producing one without the secret is a MAC forgery). -/
theorem reject_payload_forged (mac : List UInt8 → List UInt8) (nowNs life : Int) (p bs : List UInt8)
    (hd : hexDecode p = some bs) (hm : bs.drop 16 ≠ (mac (bs.take 16)).take 16) :
    ∃ e, checkPayload mac nowNs life p = .err e := by
  unfold checkPayload
  rw [hd]
  by_cases hl : bs.length ≠ 32
  · simp [hl]
  · simp [hl, hm]

/-- `CheckPayload`: a payload with a correct MAC is refused exactly when its stored time is older than the lifetime
(`olderThan`, Go's `time.Since(time.Unix(t,0)) > life·Second`), accepted otherwise. -/
theorem reject_payload_expired (mac : List UInt8 → List UInt8) (nowNs life : Int) (p bs : List UInt8)
    (hd : hexDecode p = some bs) (hl : bs.length = 32) (hm : bs.drop 16 = (mac (bs.take 16)).take 16) :
    (olderThan nowNs (i64OfNat (beNat ((bs.drop 8).take 8))) life = true → checkPayload mac nowNs life p = .err "payload expired")
    ∧ (olderThan nowNs (i64OfNat (beNat ((bs.drop 8).take 8))) life = false → checkPayload mac nowNs life p = .ok true) := by
  unfold checkPayload
  rw [hd]
  constructor
  · intro h; simp [hl, hm, h]
  · intro h; simp [hl, hm, h]

/-- the verdict `CheckProof` receives from its `checkPayload` callback when that callback is the server's own
`CheckPayload` (the usual wiring: `srv.CheckProof(ctx, proof, srv.CheckPayload, …)`): true only for `(true, nil)` -/
def payloadVerdict (mac : List UInt8 → List UInt8) (nowNs life : Int) (payload : List UInt8) : Bool :=
  match checkPayload mac nowNs life payload with
  | .ok true => true
  | _ => false

/-- Composition of the two previous facts with `CheckProof`: wired to the server's own `CheckPayload`, a proof whose
payload was not MACed under the server's secret, or whose MACed time is older than the payload lifetime, is rejected
with "failed to verify payload". (That nobody without the secret can produce a payload with a correct 16-byte truncated
HMAC is the unforgeability of the MAC — an assumption, listed in props.) -/
theorem reject_proof_with_bad_payload (mac : List UInt8 → List UInt8) (lifePayload : Int) (env : Env) (p : ProofIn)
    (henv : env.payloadOk = payloadVerdict mac env.nowNs lifePayload p.payload) (bs : List UInt8)
    (hd : hexDecode p.payload = some bs)
    (hbad : bs.drop 16 ≠ (mac (bs.take 16)).take 16 ∨
      (bs.length = 32 ∧ olderThan env.nowNs (i64OfNat (beNat ((bs.drop 8).take 8))) lifePayload = true)) :
    checkProof H verify env p = .err "failed to verify payload" := by
  apply reject_payload_refused
  rw [henv]
  unfold payloadVerdict
  rcases hbad with hm | ⟨hl, ho⟩
  · obtain ⟨e, he⟩ := reject_payload_forged mac env.nowNs lifePayload p.payload bs hd hm
    rw [he]
  · by_cases hm : bs.drop 16 = (mac (bs.take 16)).take 16
    · rw [(reject_payload_expired mac env.nowNs lifePayload p.payload bs hd hl hm).1 ho]
    · obtain ⟨e, he⟩ := reject_payload_forged mac env.nowNs lifePayload p.payload bs hd hm
      rw [he]

/-- The lifetime boundary is strict: for timestamps and lifetimes in the range where Go's time arithmetic does not
wrap, "older than the lifetime" is `now − t·10⁹ > life·10⁹` in nanoseconds — one nanosecond past the lifetime is too
old, exactly the lifetime is not. -/
theorem lifetime_boundary (nowNs t life : Int) (ht : -9223372036854775808 ≤ t ∧ t < 9223372036854775808 - 62135596800)
    (hl : -9223372036854775808 ≤ life * 1000000000 ∧ life * 1000000000 < 9223372036854775808) :
    (olderThan nowNs t life = true ↔ nowNs - t * 1000000000 > life * 1000000000)
    ∧ olderThan (t * 1000000000 + life * 1000000000) t life = false
    ∧ olderThan (t * 1000000000 + life * 1000000000 + 1) t life = true := by
  rw [olderThan_inrange _ t life ht hl, olderThan_inrange _ t life ht hl, olderThan_inrange _ t life ht hl]
  refine ⟨by simp, by simp, by simp; omega⟩

/-- What `GeneratePayload` issues under the secret is accepted by `CheckPayload` under the same secret as long as the
stored time — the whole second of `issue time + life ns` — is not older than the lifetime. -/
theorem payload_issued_is_accepted (mac : List UInt8 → List UInt8) (hmac : ∀ x, (mac x).length = 32)
    (nonce : List UInt8) (hn : nonce.length = 8) (issuedNs life nowNs : Int) (hi : 0 ≤ issuedNs + life)
    (h63 : (issuedNs + life) / 1000000000 < 9223372036854775808)
    (hfresh : olderThan nowNs ((issuedNs + life) / 1000000000) life = false) :
    checkPayload mac nowNs life (hexEncode (generatePayload mac nonce issuedNs life)) = .ok true := by
  have hq : 0 ≤ (issuedNs + life) / 1000000000 := Int.ediv_nonneg hi (by decide)
  have hu : u64OfInt ((issuedNs + life) / 1000000000) = ((issuedNs + life) / 1000000000).toNat := by
    unfold u64OfInt; omega
  set body := nonce.take 8 ++ List.replicate (8 - nonce.length) 0 ++ beBytes 8 (u64OfInt ((issuedNs + life) / 1000000000)) with hbody
  have hbl : body.length = 16 := by simp [hbody, hn]
  have hgen : generatePayload mac nonce issuedNs life = body ++ (mac body).take 16 := rfl
  have htk : (body ++ (mac body).take 16).take 16 = body := by
    rw [List.take_append_of_le_length (by omega), List.take_of_length_le (by omega)]
  have hdr : (body ++ (mac body).take 16).drop 16 = (mac body).take 16 := by
    rw [List.drop_append_of_le_length (by omega), List.drop_of_length_le (by omega), List.nil_append]
  have hexp : ((body ++ (mac body).take 16).drop 8).take 8 = beBytes 8 (u64OfInt ((issuedNs + life) / 1000000000)) := by
    have h8 : (nonce.take 8 ++ List.replicate (8 - nonce.length) 0).length = 8 := by simp [hn]
    rw [hbody, List.append_assoc, List.drop_append_of_le_length (by omega), List.drop_of_length_le (by omega),
      List.nil_append, List.take_append_of_le_length (by simp), List.take_of_length_le (by simp)]
  have hlen : (body ++ (mac body).take 16).length = 32 := by simp [hbl, hmac]
  have hstored : i64OfNat (beNat (beBytes 8 (u64OfInt ((issuedNs + life) / 1000000000)))) = (issuedNs + life) / 1000000000 := by
    rw [beNat_beBytes, hu]
    unfold i64OfNat
    have : ((issuedNs + life) / 1000000000).toNat < 9223372036854775808 := by omega
    have e1 : ((issuedNs + life) / 1000000000).toNat % 256 ^ 8 = ((issuedNs + life) / 1000000000).toNat := by
      apply Nat.mod_eq_of_lt; norm_num; omega
    rw [e1]
    have e2 : ((issuedNs + life) / 1000000000).toNat % 18446744073709551616 = ((issuedNs + life) / 1000000000).toNat := by
      apply Nat.mod_eq_of_lt; omega
    rw [e2]
    simp only [this, ↓reduceIte]
    omega
  unfold checkPayload
  rw [hgen, hexDecode_hexEncode]
  simp only [hlen, ne_eq, not_true_eq_false, ↓reduceIte, htk, hdr, hexp, hstored, hfresh]
  simp

/-- A proof older than the lifetime (`olderThan`; strict, see `lifetime_boundary`) is rejected. -/
theorem reject_proof_expired (env : Env) (p : ProofIn) (m : Parsed) (hp : env.payloadOk = true)
    (hc : convertTonProofMessage p = .ok m) (ht : olderThan env.nowNs m.ts env.lifeProof = true) :
    checkProof H verify env p = .err "proof has been expired" := by
  unfold checkProof checkProofWith
  simp [hp, hc, ht]

/-- A domain the domain check refuses, or on which it fails, is rejected. -/
theorem reject_domain (env : Env) (p : ProofIn) (h : env.domainOk ≠ some true) :
    ∃ e, checkProof H verify env p = .err e := by
  unfold checkProof checkProofWith
  by_cases hp : env.payloadOk = true
  · simp only [hp, Bool.not_true, Bool.false_eq_true, ↓reduceIte]
    cases hc : convertTonProofMessage p with
    | err e => exact ⟨e, rfl⟩
    | panic x => exact absurd hc (convertTonProofMessage_np p x)
    | ok m =>
      simp only []
      split
      · exact ⟨_, rfl⟩
      · cases hd : env.domainOk with
        | none => exact ⟨_, rfl⟩
        | some b =>
          cases b with
          | true => exact absurd hd h
          | false => exact ⟨_, rfl⟩
  · simp [hp]

/-- `StaticDomain` accepts exactly the configured byte string: a port suffix, a sub-domain, another letter case, a
trailing dot, a Unicode look-alike or another normalisation form are all different domains, and a proof presenting
one of them is rejected. -/
theorem reject_domain_static (env : Env) (p : ProofIn) (configured : List UInt8)
    (hd : env.domainOk = some (staticDomain configured p.domain)) :
    (staticDomain configured p.domain = true ↔ configured = p.domain)
    ∧ (configured ≠ p.domain → ∃ e, checkProof H verify env p = .err e) := by
  have hiff : staticDomain configured p.domain = true ↔ configured = p.domain := by simp [staticDomain]
  refine ⟨hiff, ?_⟩
  intro hne
  apply reject_domain H verify env p
  rw [hd]
  intro h
  simp only [Option.some.injEq] at h
  exact hne (hiff.mp h)

/-- Undecodable fields (address not `wc:hex`, workchain not a 32-bit decimal, bad hex, bad base64 signature) are
rejected. -/
theorem reject_bad_encoding (env : Env) (p : ProofIn) (e : String) (hc : convertTonProofMessage p = .err e) :
    ∃ e', checkProof H verify env p = .err e' := by
  unfold checkProof checkProofWith
  by_cases hp : env.payloadOk = true
  · simp [hp, hc]
  · simp [hp]

/-- Shape of `CheckProof`: either it fails in one of the early checks, or it has passed them (payload, decoding,
lifetime, domain, account id) and its result is that of obtaining the key and verifying the signature. -/
theorem checkProofWith_shape (parse : BocResult → Outcome (List UInt8)) (env : Env) (p : ProofIn) :
    (∃ e, checkProofWith parse H verify env p = .err e) ∨
    (∃ m wc acc, env.payloadOk = true ∧ convertTonProofMessage p = .ok m ∧
      olderThan env.nowNs m.ts env.lifeProof = false ∧ env.domainOk = some true ∧
      parseAccountID p.address = .ok (wc, acc) ∧
      checkProofWith parse H verify env p =
        (match obtainKey parse H env acc p with
         | .err e => .err e
         | .panic x => .panic x
         | .ok pk =>
           match signatureVerify verify pk (createMessage H m) (p.signature.getD []) with
           | .ok true => .ok pk
           | .ok false => .err "failed to proof"
           | .err e => .err e
           | .panic x => .panic x)) := by
  unfold checkProofWith
  by_cases hp : env.payloadOk = true
  · simp only [hp, Bool.not_true, Bool.false_eq_true, ↓reduceIte]
    cases hc : convertTonProofMessage p with
    | err e => exact Or.inl ⟨e, rfl⟩
    | panic x => exact absurd hc (convertTonProofMessage_np p x)
    | ok m =>
      simp only []
      by_cases ho : olderThan env.nowNs m.ts env.lifeProof = true
      · simp only [ho, ↓reduceIte]; exact Or.inl ⟨_, rfl⟩
      · simp only [ho, Bool.false_eq_true, ↓reduceIte]
        cases hd : env.domainOk with
        | none => exact Or.inl ⟨_, rfl⟩
        | some b =>
          cases b with
          | false => exact Or.inl ⟨_, rfl⟩
          | true =>
            simp only []
            cases ha : parseAccountID p.address with
            | err e => exact Or.inl ⟨e, rfl⟩
            | panic x => exact absurd ha (parseAccountID_np _ x)
            | ok wa =>
              obtain ⟨wc, acc⟩ := wa
              refine Or.inr ⟨m, wc, acc, ?_, ?_, ?_, ?_, ?_, ?_⟩
              · first | rfl | trivial | exact hp
              · first | rfl | trivial
              · simpa using ho
              · first | rfl | trivial
              · first | rfl | trivial
              · first | rfl | trivial
  · simp only [Bool.not_eq_true] at hp
    simp only [hp, Bool.not_false, ↓reduceIte]
    exact Or.inl ⟨_, rfl⟩

/-- The get-method gives no key and the supplied state-init does not hash to the account address (or cannot be
hashed, is not a bag of cells, has several roots): rejected. -/
theorem reject_stateinit_hash (env : Env) (p : ProofIn) (hg : ∀ k, getWalletPubKey env.getter ≠ .ok k)
    (hs : ∀ wc acc, parseAccountID p.address = .ok (wc, acc) → compareStateInitWithAddress H acc p.stateInit ≠ .ok true) :
    ∃ e, checkProof H verify env p = .err e := by
  unfold checkProof
  rcases checkProofWith_shape H verify (parseStateInit H env.known) env p with h | ⟨m, wc, acc, _, _, _, _, ha, heq⟩
  · exact h
  · rw [heq]
    have hk : ∃ e, obtainKey (parseStateInit H env.known) H env acc p = .err e := by
      unfold obtainKey
      cases hgk : getWalletPubKey env.getter with
      | ok k => exact absurd hgk (hg k)
      | panic x => exact absurd hgk (getWalletPubKey_np _ x)
      | err e =>
        simp only []
        unfold keyFromStateInit
        split
        · exact ⟨_, rfl⟩
        · cases hc : compareStateInitWithAddress H acc p.stateInit with
          | err e => exact ⟨_, rfl⟩
          | panic x => exact absurd hc (compare_np H acc _ x)
          | ok b =>
            cases b with
            | false => exact ⟨_, rfl⟩
            | true => exact absurd hc (hs wc acc ha)
    obtain ⟨e, he⟩ := hk
    rw [he]
    exact ⟨e, rfl⟩

/-- The get-method gives no key and the state-init is not that of a wallet whose key can be read — no single root,
code or data missing, a code hash outside the known wallets, a known code without a data layout (the lockup wallet),
data too short: rejected. `parseStateInit` failing covers all of these (each is an `err` branch of its definition). -/
theorem reject_unknown_wallet (env : Env) (p : ProofIn) (hg : ∀ k, getWalletPubKey env.getter ≠ .ok k)
    (hs : ∀ k, parseStateInit H env.known p.stateInit ≠ .ok k) :
    ∃ e, checkProof H verify env p = .err e := by
  unfold checkProof
  rcases checkProofWith_shape H verify (parseStateInit H env.known) env p with h | ⟨m, wc, acc, _, _, _, _, ha, heq⟩
  · exact h
  · rw [heq]
    have hk : ∃ e, obtainKey (parseStateInit H env.known) H env acc p = .err e := by
      unfold obtainKey
      cases hgk : getWalletPubKey env.getter with
      | ok k => exact absurd hgk (hg k)
      | panic x => exact absurd hgk (getWalletPubKey_np _ x)
      | err e =>
        simp only []
        unfold keyFromStateInit
        split
        · exact ⟨_, rfl⟩
        · cases hc : compareStateInitWithAddress H acc p.stateInit with
          | err e => exact ⟨_, rfl⟩
          | panic x => exact absurd hc (compare_np H acc _ x)
          | ok b =>
            cases b with
            | false => exact ⟨_, rfl⟩
            | true =>
              simp only []
              cases hps : parseStateInit H env.known p.stateInit with
              | ok k => exact absurd hps (hs k)
              | err e => exact ⟨_, rfl⟩
              | panic x => exact absurd hps (parseStateInit_np H _ _ x)
    obtain ⟨e, he⟩ := hk
    rw [he]
    exact ⟨e, rfl⟩

/-- concrete instances of the previous premise: a state-init with an unknown code hash, and one lacking code or data -/
theorem parseStateInit_rejects (known : List (List UInt8 × Nat)) (c code data : Cell) :
    (decodeStateInit c = .ok (some code, some data) → known.find? (fun p => p.1 == code.hashO H) = none →
        ∀ k, parseStateInit H known (.roots [c]) ≠ .ok k)
    ∧ (decodeStateInit c = .ok (none, some data) → ∀ k, parseStateInit H known (.roots [c]) ≠ .ok k)
    ∧ (decodeStateInit c = .ok (some code, none) → ∀ k, parseStateInit H known (.roots [c]) ≠ .ok k)
    ∧ (∀ c2 rest k, parseStateInit H known (.roots (c :: c2 :: rest)) ≠ .ok k)
    ∧ (∀ k, parseStateInit H known (.roots []) ≠ .ok k) ∧ (∀ k, parseStateInit H known .bocErr ≠ .ok k) := by
  refine ⟨?_, ?_, ?_, ?_, ?_, ?_⟩
  · intro hd hf k hk
    unfold parseStateInit at hk
    simp only [hd, bind, Outcome.bind] at hk
    unfold Cell.hashO? at hk
    by_cases hdep : code.depthO ≤ maxDepth
    · simp [hdep, hf] at hk
    · simp [hdep] at hk
  · intro hd k hk
    unfold parseStateInit at hk
    simp [hd, bind, Outcome.bind] at hk
  · intro hd k hk
    unfold parseStateInit at hk
    simp [hd, bind, Outcome.bind] at hk
  · intro c2 rest k hk; unfold parseStateInit at hk; cases hk
  · intro k hk; unfold parseStateInit at hk; cases hk
  · intro k hk; unfold parseStateInit at hk; cases hk

/-! ### never a crash -/

/-- `CheckProof`'s OWN logic (with the repaired `ParseStateInit`) never panics, whatever the proof, the executor's answer
and the callbacks' verdicts. Scope: the callees are represented by their RESULTS — `BocResult` (`boc.DeserializeBocBase64`:
error or roots; that the BOC reader itself does not panic is C07/C08, not composed here), `Getter` (`abi.GetPublicKey`
through the executor: failure or an integer), the two callbacks' verdicts — so a panic INSIDE a callee is outside this
statement. Within `CheckProof` the only panic source is `ed25519.Verify` on a key that is not 32 bytes long, and the key
handed to it always has 32 bytes (before the repair it could be nil: `check_total_false_before_fix`). A state init with
a non-empty library dictionary is outside the modelled fragment (answered `err "unmodelled…"`, never generated). -/
theorem check_total (env : Env) (p : ProofIn) : ∀ x, checkProof H verify env p ≠ .panic x := by
  intro x
  unfold checkProof
  rcases checkProofWith_shape H verify (parseStateInit H env.known) env p with ⟨e, he⟩ | ⟨m, wc, acc, _, _, _, _, _, heq⟩
  · rw [he]; intro h; cases h
  · rw [heq]
    cases hk : obtainKey (parseStateInit H env.known) H env acc p with
    | err e => intro h; cases h
    | panic y =>
      exfalso
      unfold obtainKey at hk
      cases hgk : getWalletPubKey env.getter with
      | ok k => simp [hgk] at hk
      | panic z => exact getWalletPubKey_np _ z hgk
      | err e =>
        simp only [hgk] at hk
        unfold keyFromStateInit at hk
        split at hk
        · cases hk
        · cases hc : compareStateInitWithAddress H acc p.stateInit with
          | err e => simp [hc] at hk
          | panic z => exact compare_np H acc _ z hc
          | ok b =>
            cases b with
            | false => simp [hc] at hk
            | true =>
              simp only [hc] at hk
              cases hps : parseStateInit H env.known p.stateInit with
              | ok k => simp [hps] at hk
              | err e => simp [hps] at hk
              | panic z => exact parseStateInit_np H _ _ z hps
    | ok pk =>
      have hlen : pk.length = 32 := by
        unfold obtainKey at hk
        cases hgk : getWalletPubKey env.getter with
        | ok k => simp only [hgk, Outcome.ok.injEq] at hk; rw [← hk]; exact getWalletPubKey_len hgk
        | panic z => simp [hgk] at hk
        | err e =>
          simp only [hgk] at hk
          unfold keyFromStateInit at hk
          split at hk
          · cases hk
          · cases hc : compareStateInitWithAddress H acc p.stateInit with
            | err e => simp [hc] at hk
            | panic z => simp [hc] at hk
            | ok b =>
              cases b with
              | false => simp [hc] at hk
              | true =>
                simp only [hc] at hk
                cases hps : parseStateInit H env.known p.stateInit with
                | ok k => simp only [hps, Outcome.ok.injEq] at hk; rw [← hk]; exact parseStateInit_len hps
                | err e => simp [hps] at hk
                | panic z => simp [hps] at hk
      simp only [signatureVerify, hlen, ne_eq, not_true_eq_false, ↓reduceIte]
      cases verify pk (createMessage H m) (p.signature.getD []) <;> (intro h; cases h)

/-- `ParseStateInit` (repaired) never panics and only ever returns 32-byte keys. -/
theorem parse_state_init_total (known : List (List UInt8 × Nat)) (b : BocResult) :
    (∀ x, parseStateInit H known b ≠ .panic x) ∧ (∀ k, parseStateInit H known b = .ok k → k.length = 32) :=
  ⟨parseStateInit_np H known b, fun _ h => parseStateInit_len h⟩

/-- Before the repair `check_total` was false: with a get-method that fails and a state-init `00000` (neither code nor
data) presented for the address that is its hash, `ParseStateInit` returned `(nil, nil)` and `ed25519.Verify` was
called with an empty key. Witness with the constant "hash" `x ↦ 0³²` (replayed on the Go code with SHA-256 by
`corpus/C19/defects.ops`). -/
theorem check_total_false_before_fix :
    ∃ (H : List UInt8 → List UInt8) (verify : List UInt8 → List UInt8 → List UInt8 → Bool) (env : Env) (p : ProofIn) (x : String),
      checkProofV0 H verify env p = .panic x := by
  refine ⟨fun _ => List.replicate 32 0, fun _ _ _ => true,
    { nowNs := 0, lifeProof := 300, payloadOk := true, domainOk := some true, getter := .fail, known := [] },
    { address := [48, 58], ts := 0, domain := [], signature := some [], payload := [], stateInitEmpty := false,
      stateInit := .roots [.ordinary [false, false, false, false, false] []] },
    "ed25519: bad public key length", ?_⟩
  decide

/-! ### the key from the get-method integer -/

theorem beNat_replicate_zero (z : Nat) (l : List UInt8) : beNat (List.replicate z 0 ++ l) = beNat l := by
  induction z with
  | zero => rfl
  | succ z ih => rw [List.replicate_succ, List.cons_append, beNat_zero_cons, ih]

theorem leading_zeros_split : ∀ (pk : List UInt8), beNat pk ≠ 0 → ∃ z b t, pk = List.replicate z 0 ++ b :: t ∧ b ≠ 0
  | [], h => absurd rfl h
  | x :: xs, h => by
    by_cases hx : x = 0
    · subst hx
      rw [beNat_zero_cons] at h
      obtain ⟨z, b, t, he, hb⟩ := leading_zeros_split xs h
      exact ⟨z + 1, b, t, by rw [he, List.replicate_succ, List.cons_append], hb⟩
    · exact ⟨0, x, xs, rfl, hx⟩

/-- The get-method returns the public key as a 256-bit integer; `getWalletPubKey` turns it back into 32 bytes by
LEFT-padding the significant bytes (`big.Int.Bytes()` drops leading zero bytes). For every 32-byte key with at least
24 significant bytes — in particular the 1-in-256 keys that start with a zero byte — the key comes back unchanged. -/
theorem pubkey_from_int_roundtrip (pk : List UInt8) (hl : pk.length = 32) (hsig : 256 ^ 23 ≤ beNat pk) :
    getWalletPubKey (.int (beNat pk : Nat)) = .ok pk := by
  have hne : beNat pk ≠ 0 := by
    have : 0 < 256 ^ 23 := by norm_num
    omega
  obtain ⟨z, b, t, he, hb⟩ := leading_zeros_split pk hne
  have hval : beNat pk = beNat (b :: t) := by rw [he, beNat_replicate_zero]
  have hnb : natBytes (beNat pk) = b :: t := by rw [hval]; exact natBytes_beNat_cons b t hb
  have hlen : z + (t.length + 1) = 32 := by
    have := congrArg List.length he
    simpa [hl] using this.symm
  have h24 : 24 ≤ t.length + 1 := by
    have hlt := beNat_lt (b :: t)
    rw [← hval, List.length_cons] at hlt
    have : (256 : Nat) ^ 23 < 256 ^ (t.length + 1) := Nat.lt_of_le_of_lt hsig hlt
    have := (Nat.pow_lt_pow_iff_right (by norm_num : 1 < 256)).mp this
    omega
  unfold getWalletPubKey
  simp only [Int.natAbs_natCast, hnb, List.length_cons]
  rw [if_neg (by omega)]
  have : 32 - (t.length + 1) = z := by omega
  rw [this, ← he]

/-! ### what is signed -/

/-- The byte string that is hashed and signed determines the workchain, the 32-byte address, the domain, the timestamp
and the payload: the layout `"ton-proof-item-v2/" ‖ be32 wc ‖ addr ‖ le32 |domain| ‖ domain ‖ le64 ts ‖ payload` is
injective. -/
theorem message_binds (m m' : Parsed) (ha : m.address.length = 32) (ha' : m'.address.length = 32)
    (hd : m.domain.length < 4294967296) (hd' : m'.domain.length < 4294967296)
    (hw : -2147483648 ≤ m.workchain ∧ m.workchain < 2147483648) (hw' : -2147483648 ≤ m'.workchain ∧ m'.workchain < 2147483648)
    (ht : -9223372036854775808 ≤ m.ts ∧ m.ts < 9223372036854775808)
    (ht' : -9223372036854775808 ≤ m'.ts ∧ m'.ts < 9223372036854775808)
    (h : messageBytes m = messageBytes m') : m = m' := by
  have p4 : (256 : Nat) ^ 4 = 4294967296 := by norm_num
  have p8 : (256 : Nat) ^ 8 = 18446744073709551616 := by norm_num
  unfold messageBytes at h
  simp only [List.append_assoc] at h
  have h0 := List.append_cancel_left h
  have h1 := List.append_inj h0 (by simp)
  have h2 := List.append_inj h1.2 (by rw [ha, ha'])
  have h3 := List.append_inj h2.2 (by simp)
  have hdl : m.domain.length = m'.domain.length := by
    have := leBytes_inj (n := 4) (by rw [p4]; exact Nat.mod_lt _ (by decide)) (by rw [p4]; exact Nat.mod_lt _ (by decide)) h3.1
    rwa [Nat.mod_eq_of_lt hd, Nat.mod_eq_of_lt hd'] at this
  have h4 := List.append_inj h3.2 hdl
  have h5 := List.append_inj h4.2 (by simp)
  have hwc : m.workchain = m'.workchain := by
    have := beBytes_inj (n := 4) (by rw [p4]; unfold u32OfInt; omega) (by rw [p4]; unfold u32OfInt; omega) h1.1
    unfold u32OfInt at this; omega
  have hts : m.ts = m'.ts := by
    have := leBytes_inj (n := 8) (by rw [p8]; unfold u64OfInt; omega) (by rw [p8]; unfold u64OfInt; omega) h5.1
    unfold u64OfInt at this; omega
  cases m; cases m'
  simp only [Parsed.mk.injEq]
  exact ⟨hwc, h2.1, h4.1, hts, h5.2⟩

/-- Hence, without a collision of `H` on the two inner byte strings and on the two outer ones, a proof presented with
another address, domain, timestamp or payload than the signed one is checked against a DIFFERENT digest; that the
signature then fails is the unforgeability of the signature scheme (the named idealisation, exercised with real
Ed25519 by the correspondence check). -/
theorem message_binds_digest (hlen : ∀ x, (H x).length = 32) (m m' : Parsed) (ha : m.address.length = 32) (ha' : m'.address.length = 32)
    (hd : m.domain.length < 4294967296) (hd' : m'.domain.length < 4294967296)
    (hw : -2147483648 ≤ m.workchain ∧ m.workchain < 2147483648) (hw' : -2147483648 ≤ m'.workchain ∧ m'.workchain < 2147483648)
    (ht : -9223372036854775808 ≤ m.ts ∧ m.ts < 9223372036854775808)
    (ht' : -9223372036854775808 ≤ m'.ts ∧ m'.ts < 9223372036854775808)
    (cfOuter : CollisionFree H [[0xff, 0xff] ++ tonConnectPrefix ++ H (messageBytes m), [0xff, 0xff] ++ tonConnectPrefix ++ H (messageBytes m')])
    (cfInner : CollisionFree H [messageBytes m, messageBytes m'])
    (h : createMessage H m = createMessage H m') : m = m' := by
  unfold createMessage at h
  have h1 := cfOuter.pair h
  have h2 := List.append_cancel_left h1
  exact message_binds m m' ha ha' hd hd' hw hw' ht ht' (cfInner.pair h2)

/-- the decoded message carries the proof's domain, timestamp and payload unchanged -/
theorem convert_fields (p : ProofIn) (m : Parsed) (hc : convertTonProofMessage p = .ok m) :
    m.domain = p.domain ∧ m.ts = p.ts ∧ m.payload = p.payload := by
  unfold convertTonProofMessage at hc
  split at hc
  · split at hc
    · cases hc
    · split at hc
      · cases hc
      · split at hc
        · cases hc
        · simp only [Outcome.ok.injEq] at hc; subst hc; exact ⟨rfl, rfl, rfl⟩
  · cases hc

/-! ### only the key controlling the address — under the ideal signature scheme and a collision-free hash

The negative clauses of the property. `Sig.Ideal sign verify pub` (`TongoProofs/Lemmas/SigIdeal.lean`: `SigCorrect` and
`SigSound` — a genuine signature verifies, among HONESTLY GENERATED keys and 32-byte digests, only for its signer's key
and its own digest) and `CollisionFree H` on the byte strings involved are LOCAL hypotheses, idealisations (DESIGN §5.3).
Every rejection theorem requires the key CONTROLLING THE ACCOUNT — what the get-method returned or what was read from
the state init — to be honestly generated (`Sig.Honest pub k`): under other 32-byte strings the real scheme accepts
forgeries (small-order key `01 00 … 00`: oracle `go.ed.smallorder`; the all-zero key `ParseStateInit` used to return for
the lockup code: oracle `go.tc.lockup`, `zero_key_returned_before_fix`), which is why the source of that key matters and
why `ParseStateInit` must only return the key the owner stored. The accept-all verifier does not satisfy the hypotheses
(`Sig.accept_all_violates`), a toy scheme does (`Sig.toy_ideal`; instantiated at the end of this file). -/

/-- the fields of a signed message within the ranges of their Go types (`int32`, a 32-byte address, a domain shorter
than 2³² bytes, `int64`) -/
def ParsedWF (m : Parsed) : Prop :=
  m.address.length = 32 ∧ m.domain.length < 4294967296 ∧ (-2147483648 ≤ m.workchain ∧ m.workchain < 2147483648) ∧
    (-9223372036854775808 ≤ m.ts ∧ m.ts < 9223372036854775808)

/-- Why the SOURCE of the key matters — the class of defect the idealisation would hide if it were stated for arbitrary
keys: before the repair `ParseStateInit` returned the ALL-ZERO key, with no error, for a state init carrying the lockup
wallet code (a known code hash without a data layout). That key is not honestly generated; Go's Ed25519 accepts a
signature anybody can compute under it (oracle `go.tc.lockup`; the same for the small-order key `01 00 … 00`, oracles
`go.ed.smallorder`, `go.tc.smallkey`), so `CheckProof` accepted a proof nobody's key controlled. The repaired
`ParseStateInit` refuses. -/
theorem zero_key_returned_before_fix (known : List (List UInt8 × Nat)) (code data : Cell) (hc : code.ty ≠ tyPruned)
    (hd : data.ty ≠ tyPruned) (hdep : code.depthO ≤ maxDepth)
    (hk : ∃ kh, known.find? (fun p => p.1 == code.hashO H) = some (kh, 7)) :
    parseStateInitV0 H known (.roots [stateInitCell code data]) = .ok (List.replicate 32 0)
    ∧ ∃ e, parseStateInit H known (.roots [stateInitCell code data]) = .err e := by
  obtain ⟨kh, hk⟩ := hk
  constructor
  · unfold parseStateInitV0
    simp only []
    rw [decodeStateInit_stateInitCell code data hc hd]
    simp [bind, Outcome.bind, Cell.hashO?, hdep, hk]
  · unfold parseStateInit
    simp only []
    rw [decodeStateInit_stateInitCell code data hc hd]
    simp only [bind, Outcome.bind, Cell.hashO?, hdep, ↓reduceIte, hk]
    unfold keyFromData
    by_cases hl : data.ty = tyLibrary
    · exact ⟨"library cell decoding is not configured properly", by simp [hl]⟩
    · exact ⟨"unsupported wallet version", by simp [hl]⟩

/-- An accepted proof passed every check: the payload and domain callbacks said yes, the proof is within its lifetime,
the presented fields decode to `m`, the account id parses, the key `pk` is the one obtained for that account (get-method,
or the state init that hashes to the address), and the scheme's verifier accepted `(pk, createMessage m, signature)`. -/
theorem accepted_was_verified (env : Env) (p : ProofIn) (pk : List UInt8) (h : checkProof H verify env p = .ok pk) :
    ∃ m wc acc sig, env.payloadOk = true ∧ env.domainOk = some true ∧ convertTonProofMessage p = .ok m ∧
      olderThan env.nowNs m.ts env.lifeProof = false ∧ parseAccountID p.address = .ok (wc, acc) ∧ p.signature = some sig ∧
      obtainKey (parseStateInit H env.known) H env acc p = .ok pk ∧ verify pk (createMessage H m) sig = true := by
  unfold checkProof at h
  rcases checkProofWith_shape H verify (parseStateInit H env.known) env p with ⟨e, he⟩ | ⟨m, wc, acc, hp, hc, ho, hd, ha, heq⟩
  · rw [he] at h; cases h
  · rw [heq] at h
    have hsig : ∃ sig, p.signature = some sig := by
      unfold convertTonProofMessage at hc
      cases hs : p.signature with
      | some sig => exact ⟨sig, rfl⟩
      | none =>
        exfalso
        split at hc
        · split at hc
          · cases hc
          · split at hc
            · cases hc
            · simp [hs] at hc
        · cases hc
    obtain ⟨sig, hsig⟩ := hsig
    cases hk : obtainKey (parseStateInit H env.known) H env acc p with
    | err e => simp [hk] at h
    | panic x => simp [hk] at h
    | ok k =>
      simp only [hk, hsig, Option.getD_some] at h
      unfold signatureVerify at h
      by_cases hl : k.length ≠ 32
      · simp [hl] at h
      · simp only [hl, ↓reduceIte] at h
        cases hv : verify k (createMessage H m) sig with
        | false => simp [hv] at h
        | true =>
          simp only [hv, Outcome.ok.injEq] at h
          subst h
          exact ⟨m, wc, acc, sig, hp, hd, hc, ho, ha, hsig, hk, hv⟩

/-- Hence (`SigUnforgeable`, the strongest idealisation, under an HONESTLY GENERATED key) whatever `CheckProof` accepts
with the key `pub sk0` was signed by a secret key of that key, over exactly the digest of the PRESENTED fields. (False of
the real scheme when the returned key is not honestly generated.) -/
theorem accepted_was_signed (sign : List UInt8 → List UInt8 → List UInt8) (pub : List UInt8 → List UInt8)
    (hu : Sig.SigUnforgeable sign verify pub) (env : Env) (p : ProofIn) (sk0 : List UInt8)
    (h : checkProof H verify env p = .ok (pub sk0)) :
    ∃ m sk, convertTonProofMessage p = .ok m ∧ pub sk = pub sk0 ∧ p.signature = some (sign sk (createMessage H m)) := by
  obtain ⟨m, _, _, sig, _, _, hc, _, _, hsig, _, hv⟩ := accepted_was_verified H verify env p _ h
  obtain ⟨sk, hpk, hs⟩ := hu sk0 _ sig hv
  exact ⟨m, sk, hc, hpk, by rw [hsig, hs]⟩

/-- The core of all the rejections: a proof whose signature was made with `sk0` over the fields `m0` is accepted only
with `pub sk0` as the key controlling the account AND only if the presented fields ARE `m0` — workchain, address,
domain, timestamp and payload — PROVIDED the key controlling the account is honestly generated. (Ideal signatures; `H` collision-free on the inner and outer byte strings of the two
messages; presented address of 32 bytes — `convertTonProofMessage` does not check that, see `assumptions`.) -/
theorem accepted_fields_are_signed (hlen : ∀ x, (H x).length = 32) (sign : List UInt8 → List UInt8 → List UInt8)
    (pub : List UInt8 → List UInt8) (I : Sig.Ideal sign verify pub) (env : Env) (p : ProofIn) (pk : List UInt8)
    (hhon : Sig.Honest pub pk)
    (sk0 : List UInt8) (m0 : Parsed) (hsig : p.signature = some (sign sk0 (createMessage H m0))) (hw0 : ParsedWF m0)
    (m : Parsed) (hc : convertTonProofMessage p = .ok m) (hw : ParsedWF m)
    (cfOuter : CollisionFree H [[0xff, 0xff] ++ tonConnectPrefix ++ H (messageBytes m), [0xff, 0xff] ++ tonConnectPrefix ++ H (messageBytes m0)])
    (cfInner : CollisionFree H [messageBytes m, messageBytes m0])
    (h : checkProof H verify env p = .ok pk) : pk = pub sk0 ∧ m = m0 := by
  obtain ⟨m', _, _, sig, _, _, hc', _, _, hsig', _, hv⟩ := accepted_was_verified H verify env p pk h
  rw [hc] at hc'
  simp only [Outcome.ok.injEq] at hc'
  subst hc'
  rw [hsig] at hsig'
  simp only [Option.some.injEq] at hsig'
  subst hsig'
  have hd : ∀ x : Parsed, (createMessage H x).length = 32 := fun x => hlen _
  obtain ⟨hpk, hdig⟩ := I.verify_sound sk0 pk _ _ hhon (hd m0) (hd m) hv
  exact ⟨hpk, message_binds_digest H hlen m m0 hw.1 hw0.1 hw.2.1 hw0.2.1 hw.2.2.1 hw0.2.2.1 hw.2.2.2 hw0.2.2.2 cfOuter cfInner hdig⟩

/-- the answer of `CheckProof` is never a panic, so "not accepted" is "rejected with an error" -/
theorem not_accepted_is_error (env : Env) (p : ProofIn) (h : ∀ pk, checkProof H verify env p ≠ .ok pk) :
    ∃ e, checkProof H verify env p = .err e := by
  cases hr : checkProof H verify env p with
  | ok pk => exact absurd hr (h pk)
  | err e => exact ⟨e, rfl⟩
  | panic x => exact absurd hr (check_total H verify env p x)

/-- **Signed by another key.** The key controlling the account (what the get-method returns, or the key in the state
init that hashes to the address) is an honestly generated key `k`; the proof's signature was made with a secret key
`sk0` whose public key is not `k`: `CheckProof` rejects — whatever was signed, whatever the other fields. -/
theorem reject_foreign_signer (hlen : ∀ x, (H x).length = 32) (sign : List UInt8 → List UInt8 → List UInt8)
    (pub : List UInt8 → List UInt8) (I : Sig.Ideal sign verify pub) (env : Env) (p : ProofIn)
    (sk0 : List UInt8) (d0 : List UInt8) (hd0 : d0.length = 32) (hsig : p.signature = some (sign sk0 d0))
    (hkey : ∀ wc acc k, parseAccountID p.address = .ok (wc, acc) →
      obtainKey (parseStateInit H env.known) H env acc p = .ok k → Sig.Honest pub k ∧ k ≠ pub sk0) :
    ∃ e, checkProof H verify env p = .err e := by
  apply not_accepted_is_error
  intro pk h
  obtain ⟨m, wc, acc, sig, _, _, _, _, ha, hsig', hk, hv⟩ := accepted_was_verified H verify env p pk h
  rw [hsig] at hsig'
  simp only [Option.some.injEq] at hsig'
  subst hsig'
  exact (hkey wc acc pk ha hk).2 (I.verify_sound sk0 pk _ _ (hkey wc acc pk ha hk).1 hd0 (hlen _) hv).1

/-- **Substituted field**, general form: the signature was made over `m0`; the proof presents fields that decode to
something else: rejected — provided the key controlling the account (whatever the get-method or the state init yields) is
honestly generated. -/
theorem reject_substituted_field (hlen : ∀ x, (H x).length = 32) (sign : List UInt8 → List UInt8 → List UInt8)
    (pub : List UInt8 → List UInt8) (I : Sig.Ideal sign verify pub) (env : Env) (p : ProofIn)
    (hkh : ∀ wc acc k, parseAccountID p.address = .ok (wc, acc) →
      obtainKey (parseStateInit H env.known) H env acc p = .ok k → Sig.Honest pub k)
    (sk0 : List UInt8) (m0 : Parsed) (hsig : p.signature = some (sign sk0 (createMessage H m0))) (hw0 : ParsedWF m0)
    (m : Parsed) (hc : convertTonProofMessage p = .ok m) (hw : ParsedWF m)
    (cfOuter : CollisionFree H [[0xff, 0xff] ++ tonConnectPrefix ++ H (messageBytes m), [0xff, 0xff] ++ tonConnectPrefix ++ H (messageBytes m0)])
    (cfInner : CollisionFree H [messageBytes m, messageBytes m0])
    (hne : m ≠ m0) : ∃ e, checkProof H verify env p = .err e := by
  apply not_accepted_is_error
  intro pk h
  obtain ⟨_, wc, acc, _, _, _, _, _, ha, _, hk, _⟩ := accepted_was_verified H verify env p pk h
  exact hne (accepted_fields_are_signed H verify hlen sign pub I env p pk (hkh wc acc pk ha hk) sk0 m0 hsig hw0 m hc hw cfOuter cfInner h).2

/-- **Address differs from what was signed** (workchain or account hash): rejected. -/
theorem reject_substituted_address (hlen : ∀ x, (H x).length = 32) (sign : List UInt8 → List UInt8 → List UInt8)
    (pub : List UInt8 → List UInt8) (I : Sig.Ideal sign verify pub) (env : Env) (p : ProofIn)
    (hkh : ∀ wc acc k, parseAccountID p.address = .ok (wc, acc) →
      obtainKey (parseStateInit H env.known) H env acc p = .ok k → Sig.Honest pub k)
    (sk0 : List UInt8) (m0 : Parsed) (hsig : p.signature = some (sign sk0 (createMessage H m0))) (hw0 : ParsedWF m0)
    (m : Parsed) (hc : convertTonProofMessage p = .ok m) (hw : ParsedWF m)
    (cfOuter : CollisionFree H [[0xff, 0xff] ++ tonConnectPrefix ++ H (messageBytes m), [0xff, 0xff] ++ tonConnectPrefix ++ H (messageBytes m0)])
    (cfInner : CollisionFree H [messageBytes m, messageBytes m0])
    (hne : m.address ≠ m0.address ∨ m.workchain ≠ m0.workchain) : ∃ e, checkProof H verify env p = .err e :=
  reject_substituted_field H verify hlen sign pub I env p hkh sk0 m0 hsig hw0 m hc hw cfOuter cfInner
    (fun h => by rcases hne with h1 | h1 <;> exact h1 (by rw [h]))

/-- **Domain differs from what was signed**: rejected (independently of what the domain callback says). -/
theorem reject_substituted_domain (hlen : ∀ x, (H x).length = 32) (sign : List UInt8 → List UInt8 → List UInt8)
    (pub : List UInt8 → List UInt8) (I : Sig.Ideal sign verify pub) (env : Env) (p : ProofIn)
    (hkh : ∀ wc acc k, parseAccountID p.address = .ok (wc, acc) →
      obtainKey (parseStateInit H env.known) H env acc p = .ok k → Sig.Honest pub k)
    (sk0 : List UInt8) (m0 : Parsed) (hsig : p.signature = some (sign sk0 (createMessage H m0))) (hw0 : ParsedWF m0)
    (m : Parsed) (hc : convertTonProofMessage p = .ok m) (hw : ParsedWF m)
    (cfOuter : CollisionFree H [[0xff, 0xff] ++ tonConnectPrefix ++ H (messageBytes m), [0xff, 0xff] ++ tonConnectPrefix ++ H (messageBytes m0)])
    (cfInner : CollisionFree H [messageBytes m, messageBytes m0])
    (hne : p.domain ≠ m0.domain) : ∃ e, checkProof H verify env p = .err e :=
  reject_substituted_field H verify hlen sign pub I env p hkh sk0 m0 hsig hw0 m hc hw cfOuter cfInner
    (fun h => hne (by rw [← h, convert_fields p m hc |>.1]))

/-- **Timestamp differs from what was signed**: rejected (a replayed signature cannot be given a fresh timestamp). -/
theorem reject_substituted_timestamp (hlen : ∀ x, (H x).length = 32) (sign : List UInt8 → List UInt8 → List UInt8)
    (pub : List UInt8 → List UInt8) (I : Sig.Ideal sign verify pub) (env : Env) (p : ProofIn)
    (hkh : ∀ wc acc k, parseAccountID p.address = .ok (wc, acc) →
      obtainKey (parseStateInit H env.known) H env acc p = .ok k → Sig.Honest pub k)
    (sk0 : List UInt8) (m0 : Parsed) (hsig : p.signature = some (sign sk0 (createMessage H m0))) (hw0 : ParsedWF m0)
    (m : Parsed) (hc : convertTonProofMessage p = .ok m) (hw : ParsedWF m)
    (cfOuter : CollisionFree H [[0xff, 0xff] ++ tonConnectPrefix ++ H (messageBytes m), [0xff, 0xff] ++ tonConnectPrefix ++ H (messageBytes m0)])
    (cfInner : CollisionFree H [messageBytes m, messageBytes m0])
    (hne : p.ts ≠ m0.ts) : ∃ e, checkProof H verify env p = .err e :=
  reject_substituted_field H verify hlen sign pub I env p hkh sk0 m0 hsig hw0 m hc hw cfOuter cfInner
    (fun h => hne (by rw [← h, convert_fields p m hc |>.2.1]))

/-- **Payload differs from what was signed**: rejected (a signature over one server nonce is useless with another). -/
theorem reject_substituted_payload (hlen : ∀ x, (H x).length = 32) (sign : List UInt8 → List UInt8 → List UInt8)
    (pub : List UInt8 → List UInt8) (I : Sig.Ideal sign verify pub) (env : Env) (p : ProofIn)
    (hkh : ∀ wc acc k, parseAccountID p.address = .ok (wc, acc) →
      obtainKey (parseStateInit H env.known) H env acc p = .ok k → Sig.Honest pub k)
    (sk0 : List UInt8) (m0 : Parsed) (hsig : p.signature = some (sign sk0 (createMessage H m0))) (hw0 : ParsedWF m0)
    (m : Parsed) (hc : convertTonProofMessage p = .ok m) (hw : ParsedWF m)
    (cfOuter : CollisionFree H [[0xff, 0xff] ++ tonConnectPrefix ++ H (messageBytes m), [0xff, 0xff] ++ tonConnectPrefix ++ H (messageBytes m0)])
    (cfInner : CollisionFree H [messageBytes m, messageBytes m0])
    (hne : p.payload ≠ m0.payload) : ∃ e, checkProof H verify env p = .err e :=
  reject_substituted_field H verify hlen sign pub I env p hkh sk0 m0 hsig hw0 m hc hw cfOuter cfInner
    (fun h => hne (by rw [← h, convert_fields p m hc |>.2.2]))

/-- The state init that hashes to an address holds the OWNER's key: if the account address is the hash of the wallet
state init of key `pkV` (any known version but highload, any options), then whatever state init `c` (a tree of ordinary
cells) an attacker supplies, the state-init path of `CheckProof` either fails or yields `pkV` — `c` must hash to the
address, hence (collision-freedom on the representations of the cells of the two trees) has the same data cell and a
code with the same hash. -/
theorem stateinit_for_address_has_owner_key (hlen : ∀ x, (H x).length = 32) (known : List (List UInt8 × Nat)) (v : Version)
    (hv : v ≠ .highloadV2R2) (code : Cell) (pkV : List UInt8) (hpk : pkV.length = 32) (o : Opts)
    (hs : List UInt8) (hh : (walletStateInit code v pkV o).hashO? H = .ok hs)
    (hknown : ∃ kh, known.find? (fun p => p.1 == code.hashO H) = some (kh, v.goIndex))
    (p : ProofIn) (c : Cell) (hsi : p.stateInit = .roots [c]) (hw : c.wfOrd = true)
    (cf : CollisionFree H (Cell.reprs H c ++ Cell.reprs H (walletStateInit code v pkV o)))
    (k : List UInt8) (hk : keyFromStateInit (parseStateInit H known) H hs p = .ok k) : k = pkV := by
  obtain ⟨kh, hkn⟩ := hknown
  have hws : (walletStateInit code v pkV o).hashO H = hs := by
    unfold Cell.hashO? at hh
    split at hh
    · simp only [Outcome.ok.injEq] at hh; exact hh
    · cases hh
  unfold keyFromStateInit at hk
  by_cases hemp : p.stateInitEmpty = true
  · simp [hemp] at hk
  simp only [hemp, Bool.false_eq_true, ↓reduceIte, hsi] at hk
  -- the supplied state init hashes to the address
  have hch : c.depthO ≤ maxDepth ∧ c.hashO H = hs := by
    unfold compareStateInitWithAddress at hk
    simp only [bind, Outcome.bind, pure] at hk
    unfold Cell.hashO? at hk
    by_cases hd : c.depthO ≤ maxDepth
    · simp only [hd, ↓reduceIte] at hk
      by_cases he : (c.hashO H == hs) = true
      · exact ⟨hd, by simpa using he⟩
      · simp [he] at hk
    · simp [hd] at hk
  obtain ⟨ty, mask, bits, refs⟩ := c
  simp only [Cell.wfOrd, Bool.and_eq_true, beq_iff_eq, decide_eq_true_eq] at hw
  obtain ⟨⟨⟨⟨hty, hmask⟩, hb⟩, hr⟩, hl⟩ := hw
  subst hty hmask
  have hrep : (Cell.ordinary bits refs).reprO H = (Cell.ordinary [false, false, true, true, false] [code, dataCell v pkV o]).reprO H := by
    apply cf _ (List.mem_append_left _ (Cell.reprO_mem_reprs H _)) _ (List.mem_append_right _ (Cell.reprO_mem_reprs H _))
    have := hch.2
    rw [← hws, Cell.hashO_eq_H_reprO, Cell.hashO_eq_H_reprO] at this
    exact this
  obtain ⟨hbits, hn, hhs, _⟩ := Cell.reprO_ordinary_inj H hlen bits _ refs _ hb (by decide) hr (by simp) hrep
  match refs, hn, hhs, hl, hch, cf, hk with
  | [c1, d1], _, hhs, hl, hch, cf, hk =>
    simp only [List.map_cons, List.map_nil, List.cons.injEq, and_true] at hhs
    simp only [Cell.wfOrdList, Bool.and_eq_true, and_true] at hl
    obtain ⟨dty, dmask, dbits, drefs⟩ := d1
    have hl2 := hl.2
    simp only [Cell.wfOrd, Bool.and_eq_true, beq_iff_eq, decide_eq_true_eq] at hl2
    obtain ⟨⟨⟨⟨hdty, hdmask⟩, hdb⟩, hdr⟩, _⟩ := hl2
    subst hdty hdmask
    have hdrep : (Cell.ordinary dbits drefs).reprO H = (Cell.ordinary (dataBits v pkV o) []).reprO H := by
      apply cf _ (List.mem_append_left _ ?_) _ (List.mem_append_right _ ?_)
      · have := hhs.2
        rw [Cell.hashO_eq_H_reprO, Cell.hashO_eq_H_reprO] at this
        exact this
      · exact Cell.reprO_ref_mem H 0 0 _ _ _ (by simp [Cell.ordinary])
      · exact Cell.reprO_ref_mem H 0 0 _ _ (dataCell v pkV o) (by simp [dataCell, Cell.ordinary])
    have hdl : (dataBits v pkV o).length ≤ 1023 := by
      unfold dataBits; rw [dataBitsSeq_length]; split <;> omega
    obtain ⟨hdbits, hdn, _, _⟩ := Cell.reprO_ordinary_inj H hlen dbits _ drefs _ hdb hdl hdr (by decide) hdrep
    have hdrefs : drefs = [] := List.eq_nil_of_length_eq_zero (by simpa using hdn)
    subst hdbits hdrefs hbits
    -- now the supplied cell is StateInit{c1, data of the owner}
    have hc1 : c1.ty ≠ tyPruned := by
      have := hl.1
      cases c1
      simp only [Cell.wfOrd, Bool.and_eq_true, beq_iff_eq] at this
      simp [Cell.ty, this.1.1.1.1, tyPruned]
    have hc1d : c1.depthO ≤ maxDepth := by
      have := hch.1
      have e : Cell.mk 0 0 [false, false, true, true, false] [c1, Cell.mk 0 0 (dataBits v pkV o) []] = stateInitCell c1 (dataCell v pkV o) := rfl
      rw [e, depthO_stateInit] at this
      omega
    have hparse : parseStateInit H known (.roots [Cell.mk 0 0 [false, false, true, true, false] [c1, Cell.mk 0 0 (dataBits v pkV o) []]]) = .ok pkV := by
      have e : Cell.mk 0 0 [false, false, true, true, false] [c1, Cell.mk 0 0 (dataBits v pkV o) []] = stateInitCell c1 (dataCell v pkV o) := rfl
      rw [e]
      unfold parseStateInit
      simp only []
      rw [decodeStateInit_stateInitCell c1 (dataCell v pkV o) hc1 (by simp [dataCell, Cell.ordinary, Cell.ty, tyPruned])]
      simp only [bind, Outcome.bind, Cell.hashO?, hc1d, ↓reduceIte, hhs.1, hkn]
      exact keyFromData_dataCell v hv pkV hpk o
    rw [hparse] at hk
    cases hcmp : compareStateInitWithAddress H hs (.roots [Cell.mk 0 0 [false, false, true, true, false] [c1, Cell.mk 0 0 (dataBits v pkV o) []]]) with
    | err e => simp [hcmp] at hk
    | panic x => simp [hcmp] at hk
    | ok b =>
      cases b with
      | false => simp [hcmp] at hk
      | true => simp only [hcmp, Outcome.ok.injEq] at hk; exact hk.symm

/-- **State init of another key.** The account is the wallet of the honestly generated key `pkV` (its address is the hash
of that wallet's state init); the get-method gives no key; the attacker supplies ANY state init (a tree of ordinary cells) and a signature made
with a key `skA` whose public key is not `pkV`: `CheckProof` rejects. A state init holding the attacker's key does not
hash to the victim's address; one that does hash to it holds the victim's key, under which the attacker's signature
does not verify. -/
theorem reject_stateinit_of_other_key (hlen : ∀ x, (H x).length = 32) (sign : List UInt8 → List UInt8 → List UInt8)
    (pub : List UInt8 → List UInt8) (I : Sig.Ideal sign verify pub) (env : Env) (p : ProofIn)
    (v : Version) (hv : v ≠ .highloadV2R2) (code : Cell) (pkV : List UInt8) (hpk : pkV.length = 32) (hhon : Sig.Honest pub pkV)
    (o : Opts) (a : Address) (haddr : address H code v pkV o = .ok a)
    (hknown : ∃ kh, env.known.find? (fun p => p.1 == code.hashO H) = some (kh, v.goIndex))
    (hget : ∀ k, getWalletPubKey env.getter ≠ .ok k)
    (hacc : ∀ wc acc, parseAccountID p.address = .ok (wc, acc) → acc = a.hash)
    (c : Cell) (hsi : p.stateInit = .roots [c]) (hw : c.wfOrd = true)
    (cf : CollisionFree H (Cell.reprs H c ++ Cell.reprs H (walletStateInit code v pkV o)))
    (skA d0 : List UInt8) (hd0 : d0.length = 32) (hsig : p.signature = some (sign skA d0)) (hne : pub skA ≠ pkV) :
    ∃ e, checkProof H verify env p = .err e := by
  have hh : (walletStateInit code v pkV o).hashO? H = .ok a.hash := by
    unfold address at haddr
    cases hx : (walletStateInit code v pkV o).hashO? H with
    | ok h => simp only [hx, bind, Outcome.bind, pure, Outcome.ok.injEq] at haddr; rw [← haddr]
    | err e => simp [hx, bind, Outcome.bind] at haddr
    | panic e => simp [hx, bind, Outcome.bind] at haddr
  apply reject_foreign_signer H verify hlen sign pub I env p skA d0 hd0 hsig
  intro wc acc k hpa hk
  have hacc' := hacc wc acc hpa
  subst hacc'
  unfold obtainKey at hk
  cases hg : getWalletPubKey env.getter with
  | ok k' => exact absurd hg (hget k')
  | panic x => exact absurd hg (getWalletPubKey_np _ x)
  | err e =>
    simp only [hg] at hk
    have := stateinit_for_address_has_owner_key H hlen env.known v hv code pkV hpk o a.hash hh hknown p c hsi hw cf k hk
    rw [this]; exact ⟨hhon, fun h => hne h.symm⟩

/-! ### the honest proof is accepted -/

/-- Signature correctness ⇒ for every wallet version with a known code hash (all but the highload wallet), every key
pair with a 32-byte public key, every domain the domain check accepts, every payload the payload check accepts and
every timestamp within the lifetime, the proof made by `CreateSignedProof` for the wallet's own address and state-init
is accepted and yields the wallet's public key — both when the get-method returns that key and when it returns
nothing usable and the key is taken from the state-init. -/
theorem accept_honest (hlen : ∀ x, (H x).length = 32) (sign : List UInt8 → List UInt8 → List UInt8) (pub : List UInt8 → List UInt8)
    (sigCorrect : ∀ sk m, verify (pub sk) m (sign sk m) = true)
    (sk : List UInt8) (hpub : (pub sk).length = 32)
    (v : Version) (hv : v ≠ .highloadV2R2) (code : Cell) (hcode : code.ty ≠ tyPruned) (o : Opts) (a : Address)
    (haddr : address H code v (pub sk) o = .ok a)
    (env : Env) (hp : env.payloadOk = true) (hdom : env.domainOk = some true)
    (ts : Int) (hfresh : olderThan env.nowNs ts env.lifeProof = false)
    (hknown : ∃ kh, env.known.find? (fun p => p.1 == code.hashO H) = some (kh, v.goIndex))
    (hget : getWalletPubKey env.getter = .ok (pub sk) ∨ ∀ k, getWalletPubKey env.getter ≠ .ok k)
    (payload domain : List UInt8) :
    checkProof H verify env
        (createSignedProof H sign sk payload a.workchain a.hash (walletStateInit code v (pub sk) o) ts domain)
      = .ok (pub sk) := by
  -- the address: its hash is the state-init hash, its workchain an int32
  have haddr' : (walletStateInit code v (pub sk) o).hashO? H = .ok a.hash ∧ a.workchain = toI32 o.wc := by
    unfold address at haddr
    cases hh : (walletStateInit code v (pub sk) o).hashO? H with
    | ok h => simp only [hh, bind, Outcome.bind, pure, Outcome.ok.injEq] at haddr; rw [← haddr]; exact ⟨rfl, rfl⟩
    | err e => simp [hh, bind, Outcome.bind] at haddr
    | panic e => simp [hh, bind, Outcome.bind] at haddr
  have hwc : -2147483648 ≤ a.workchain ∧ a.workchain < 2147483648 := by rw [haddr'.2]; exact toI32_range _
  have hhl : a.hash.length = 32 := by
    have := haddr'.1
    unfold Cell.hashO? at this
    split at this
    · simp only [Outcome.ok.injEq] at this; rw [← this, Cell.hashO_eq_H_reprO]; exact hlen _
    · cases this
  set p := createSignedProof H sign sk payload a.workchain a.hash (walletStateInit code v (pub sk) o) ts domain with hpdef
  have hconv := convert_created H sign sk payload a.workchain hwc a.hash (walletStateInit code v (pub sk) o) ts domain
  have hacc : parseAccountID p.address = .ok (a.workchain, a.hash) := parseAccountID_rawAddress _ hwc _ hhl
  have hkey : obtainKey (parseStateInit H env.known) H env a.hash p = .ok (pub sk) := by
    unfold obtainKey
    rcases hget with hg | hg
    · rw [hg]
    · cases hgk : getWalletPubKey env.getter with
      | ok k => exact absurd hgk (hg k)
      | panic x => exact absurd hgk (getWalletPubKey_np _ x)
      | err e =>
        simp only []
        exact keyFromStateInit_own H env.known v hv code hcode (pub sk) hpub o a.hash haddr'.1 hknown p rfl rfl
  rw [← hpdef] at hconv
  unfold checkProof checkProofWith
  rw [hconv]
  simp only [hp, Bool.not_true, Bool.false_eq_true, ↓reduceIte, hfresh, hdom, hacc, hkey]
  have hsig : p.signature.getD [] = sign sk (createMessage H { workchain := a.workchain, address := a.hash, domain := domain, ts := ts, payload := payload }) := rfl
  rw [hsig]
  simp [signatureVerify, hpub, sigCorrect]

/-! ### the hypotheses are satisfiable -/

/-- non-vacuity of the time premises: a proof 299 s old under the default lifetime of 300 s is within the lifetime, one
301 s old is not -/
example : olderThan (1000 * 1000000000 + 5) 701 300 = false ∧ olderThan (1000 * 1000000000 + 5) 699 300 = true := by decide

/-- non-vacuity of `message_binds`: the premises hold for an ordinary message -/
example : ({ workchain := 0, address := List.replicate 32 7, domain := [100], ts := 1700000000, payload := [1, 2] } : Parsed).address.length = 32 := by
  decide

/-- non-vacuity of the signature premises (`accept_honest`: correctness; the negative clauses: `Sig.Ideal`): the toy
scheme of `Lemmas/SigIdeal.lean` — public key = secret key cut / padded to 32 bytes, signature = public key ‖ message cut /
padded to 32 bytes, verifier recomputes it — is correct, sound and unforgeable under honestly generated keys, with 64-byte
signatures and 32-byte keys; and it accepts EVERYTHING under the key `01 00 … 00`, which is not honestly generated: the
hypotheses are compatible with the behaviour of the real scheme under small-order keys -/
example : Sig.Ideal Sig.toySign Sig.toyVerify Sig.toyPub ∧ Sig.SigUnforgeable Sig.toySign Sig.toyVerify Sig.toyPub ∧
    (∀ sk m, (Sig.toySign sk m).length = 64) ∧ (∀ sk, (Sig.toyPub sk).length = 32) ∧
    (∀ m s, Sig.toyVerify Sig.lowKey m s = true) ∧ ¬ Sig.Honest Sig.toyPub Sig.lowKey :=
  ⟨Sig.toy_ideal.1, Sig.toy_ideal.2.1, Sig.toy_ideal.2.2.1, Sig.toy_ideal.2.2.2, Sig.toy_dishonest_key_accepts_all.1,
    Sig.toy_dishonest_key_accepts_all.2.1⟩

/-- the accept-all verifier satisfies the correctness premise of `accept_honest` but is EXCLUDED by the hypotheses of the
negative clauses -/
example (sign : List UInt8 → List UInt8 → List UInt8) (pub : List UInt8 → List UInt8) :
    (∀ sk m, (fun _ _ _ => true : List UInt8 → List UInt8 → List UInt8 → Bool) (pub sk) m (sign sk m) = true) ∧
      ¬ Sig.Ideal sign (fun _ _ _ => true) pub :=
  ⟨fun _ _ => rfl, fun I => Sig.accept_all_violates sign pub I.sound⟩

/-- non-vacuity of the collision-freedom and range premises of the substituted-field clauses: two messages that differ
in the workchain only, within the Go ranges, and a 32-byte "hash" (`pad32`) that is collision-free on their inner and
outer byte strings -/
example :
    let m0 : Parsed := { workchain := 0, address := List.replicate 32 7, domain := [100], ts := 1700000000, payload := [1, 2] }
    let m : Parsed := { m0 with workchain := -1 }
    ParsedWF m0 ∧ ParsedWF m ∧ m ≠ m0 ∧ (∀ x, (Sig.pad32 x).length = 32) ∧
    CollisionFree Sig.pad32 [messageBytes m, messageBytes m0] ∧
    CollisionFree Sig.pad32 [[0xff, 0xff] ++ tonConnectPrefix ++ Sig.pad32 (messageBytes m), [0xff, 0xff] ++ tonConnectPrefix ++ Sig.pad32 (messageBytes m0)] := by
  intro m0 m
  have cf2 : ∀ a b : List UInt8, Sig.pad32 a ≠ Sig.pad32 b → CollisionFree Sig.pad32 [a, b] := by
    intro a b hne x hx y hy h
    simp only [List.mem_cons, List.not_mem_nil, or_false] at hx hy
    rcases hx with rfl | rfl <;> rcases hy with rfl | rfl
    · rfl
    · exact absurd h hne
    · exact absurd h.symm hne
    · rfl
  refine ⟨by unfold ParsedWF; decide, by unfold ParsedWF; decide, by decide, Sig.pad32_length, cf2 _ _ (by decide), cf2 _ _ (by decide)⟩

/-- a second toy 32-byte "hash" — the last 32 bytes, reversed, zero-padded — for the instances where the two messages agree
on their first 32 bytes (`pad32` is NOT collision-free there) -/
def nvTail (x : List UInt8) : List UInt8 := (x.reverse ++ List.replicate 32 0).take 32

/-- non-vacuity of the premises of `reject_substituted_domain` / `_timestamp` / `_payload`: for messages that differ only
in the domain, only in the timestamp, or only in the payload, `nvTail` has 32-byte outputs and is collision-free on the
inner and on the outer byte strings -/
example :
    let m0 : Parsed := { workchain := 0, address := List.replicate 32 7, domain := [100], ts := 1700000000, payload := [1, 2] }
    ∀ m ∈ [{ m0 with domain := [101] }, { m0 with ts := 1700000001 }, { m0 with payload := [1, 3] }],
      ParsedWF m ∧ m ≠ m0 ∧
      CollisionFree nvTail [messageBytes m, messageBytes m0] ∧
      CollisionFree nvTail [[0xff, 0xff] ++ tonConnectPrefix ++ nvTail (messageBytes m), [0xff, 0xff] ++ tonConnectPrefix ++ nvTail (messageBytes m0)] := by
  intro m0 m hm
  have cf2 : ∀ a b : List UInt8, nvTail a ≠ nvTail b → CollisionFree nvTail [a, b] := by
    intro a b hne x hx y hy h
    simp only [List.mem_cons, List.not_mem_nil, or_false] at hx hy
    rcases hx with rfl | rfl <;> rcases hy with rfl | rfl
    · rfl
    · exact absurd h hne
    · exact absurd h.symm hne
    · rfl
  simp only [List.mem_cons, List.not_mem_nil, or_false] at hm
  rcases hm with rfl | rfl | rfl <;>
    exact ⟨by unfold ParsedWF; decide, by decide, cf2 _ _ (by decide), cf2 _ _ (by decide)⟩

/-- non-vacuity of the get-method premise: an integer with 32 significant bytes is returned as a 32-byte key -/
example : ∃ k, getWalletPubKey (.int (256 ^ 31)) = .ok k ∧ k.length = 32 := by
  refine ⟨_, rfl, ?_⟩
  decide

/-! ### the integer fields of the signed message: regenerated Go code against the model -/

/-- tie (X4, regenerated from tonconnect/server.go): the three integer fields of `createMessage`
(`binary.BigEndian.PutUint32(wc, uint32(message.workChain))`, `binary.LittleEndian.PutUint32(dl, uint32(len(domain)))`,
`binary.LittleEndian.PutUint64(ts, uint64(message.ts))`, translated to byte shifts on `BitVec` on every run:
`Gen.TonConnectMsg.createMessageInts`, components `(wc, dl, ts)`) are the `beBytes 4 (u32OfInt wc)`,
`leBytes 4 (len % 2^32)`, `leBytes 8 (u64OfInt ts)` of the model: `messageBytes m` is the Go concatenation
`prefix ++ wc ++ address ++ dl ++ domain ++ ts ++ payload` for every `int32` workchain, `int64` timestamp and domain
of Go-`int` length. -/
theorem gen_createMessageInts (m : Parsed)
    (hw : -(2 : Int) ^ 31 ≤ m.workchain ∧ m.workchain < 2 ^ 31) (ht : -(2 : Int) ^ 63 ≤ m.ts ∧ m.ts < 2 ^ 63)
    (hl : m.domain.length < 2 ^ 63) :
    messageBytes m =
      tonProofPrefix
        ++ (Gen.TonConnectMsg.createMessageInts (BitVec.ofInt 32 m.workchain) (BitVec.ofNat 64 m.domain.length)
              (BitVec.ofInt 64 m.ts)).1.map UInt8.ofBitVec
        ++ m.address
        ++ (Gen.TonConnectMsg.createMessageInts (BitVec.ofInt 32 m.workchain) (BitVec.ofNat 64 m.domain.length)
              (BitVec.ofInt 64 m.ts)).2.1.map UInt8.ofBitVec
        ++ m.domain
        ++ (Gen.TonConnectMsg.createMessageInts (BitVec.ofInt 32 m.workchain) (BitVec.ofNat 64 m.domain.length)
              (BitVec.ofInt 64 m.ts)).2.2.map UInt8.ofBitVec
        ++ m.payload :=
  GenTies.gen_createMessageInts m hw ht hl

end Tongo.C19
