import TongoProofs.Lemmas.TlbSchema
import TongoProofs.Lemmas.TlbPrims
/-! Property C09, TL-B half — what a TL-B declaration denotes.

`TlbSchema.parse` reads the TL-B text subset of `tlb/parser` / `abi/schemas`; `goBody` is the reflection descriptor of
the Go struct that `tlb/parser.GenerateGolangTypes` must emit for a declared type (compared EXACTLY with the descriptor
extracted by reflection from the compiled generator output: op `tlbs.desc`), `specBody` is the TL-B prescription in
C04's schema language (`Spec.SType`, semantics `specChunk`). NOTE: `goBody` and `specBody` are two translations of the
same parsed declaration written by the same author for this verification; `tlb_schema_sound` says that these twin
translations are CONSISTENT through the model of the reflection codec (`Tlb.encode` / `Tlb.decode`, properties
C03/C04) — it guards against a descriptor convention (tag class, pointer, Magic field, EitherRef, key type) that the codec
would serialise differently from what the declaration says, not against a misreading of TL-B common to both
translations. The generator itself is not modelled and no theorem mentions its output: it is tied to `goBody` by
translation validation over sampled schemas (harness c09tlb.go). -/
namespace Tongo.C09Tlb
open Tongo Tongo.Tlb Tongo.Tlb.Spec Tongo.TlbSchema

theorem idxOf_lt_of_contains (names : List String) (t : String) (h : names.contains t = true) :
    idxOf names t < names.length := by
  apply List.findIdx_lt_length_of_exists
  exact ⟨t, by simpa using h, by simp⟩

/-- **tlb_schema_sound** (consistency of the two readings `goBody` / `specBody` of a declaration, see the header): for EVERY schema of the subset (`TSchema.ok`: supported widths, tags of at most 32 bits,
references to earlier declared types) and every declared type `t`: whatever the reflection codec, run on the
descriptor the declaration denotes, appends to a cell for an in-domain value is exactly the chunk of bits and
references the TL-B declaration prescribes (`specChunk` on `specEnv`). Induction over the declared types, their
constructors, fields and type expressions (`agree_types`), then soundness of the matcher (C04, `SInv.all`). -/
theorem tlb_schema_sound (S : TSchema) (hok : S.ok = true) (t : String) (ht : S.typeNames.contains t = true)
    (fuel : Nat) (v : Val) (hd : inDom S.goEnv fuel (.named (idxOf S.typeNames t)) v = true) (b b' : Builder)
    (he : encode S.goEnv fuel (.named (idxOf S.typeNames t)) v b = .ok b') :
    ∃ g c, specChunk S.specEnv g (.named t) v = some c ∧ b' = b.app c.1 c.2 := by
  have hlt := idxOf_lt_of_contains _ t ht
  have hn := idxOf_get S.typeNames t hlt
  have hag := agree_types S hok (idxOf S.typeNames t) hlt _ (Nat.le_refl _)
  rw [hn] at hag
  have hm : t ∈ S.typeNames := by simpa using ht
  have hnamed : agreeb S.goEnv S.specEnv ((idxOf S.typeNames t + 1) * S.bound + 1)
      (.named (idxOf S.typeNames t)) (.named t) = true := by
    have he1 : S.goEnv (idxOf S.typeNames t) = some (goBody S.typeNames (S.ctorsOf t)) := by
      simp [TSchema.goEnv, envOfList, TSchema.goBodies, hlt, hn]
    have he2 : S.specEnv t = some (specBody (S.ctorsOf t)) := by simp [TSchema.specEnv, hm]
    simp only [agreeb, he1, he2]
    exact hag
  exact (SInv.all S.goEnv S.specEnv fuel).enc _ _ _ v b b' hnamed hd he

/-- the same for a whole cell: `tlb.Marshal` of a value of a generated type into a new cell yields the cell the
declaration prescribes -/
theorem tlb_schema_sound_cell (S : TSchema) (hok : S.ok = true) (t : String) (ht : S.typeNames.contains t = true)
    (fuel : Nat) (v : Val) (hd : inDom S.goEnv fuel (.named (idxOf S.typeNames t)) v = true) (b' : Builder)
    (he : encode S.goEnv fuel (.named (idxOf S.typeNames t)) v Builder.empty = .ok b') :
    ∃ g c, specChunk S.specEnv g (.named t) v = some c ∧ b'.toCell = Cell.mk 0 0 c.1 c.2 := by
  obtain ⟨g, c, hc, hb⟩ := tlb_schema_sound S hok t ht fuel v hd _ b' he
  exact ⟨g, c, hc, by rw [hb]; simp [Builder.empty, Builder.app, Builder.toCell]⟩

/-- the descriptor/prescription match itself, for every declared type of every schema of the subset -/
theorem tlb_schema_matches (S : TSchema) (hok : S.ok = true) (i : Nat) (hi : i < S.typeNames.length) :
    agreeb S.goEnv S.specEnv ((i + 1) * S.bound) (goBody S.typeNames (S.ctorsOf S.typeNames[i]))
      (specBody (S.ctorsOf S.typeNames[i])) = true :=
  agree_types S hok i hi _ (Nat.le_refl _)

theorem goBody_struct_or_sum (names : List String) (cs : List TDecl) :
    (∃ fs, goBody names cs = .struct fs) ∨ (∃ c, goBody names cs = .sum c) := by
  rcases cs with _ | ⟨d, _ | ⟨d2, rest⟩⟩
  · exact Or.inr ⟨_, rfl⟩
  · by_cases h : d.tag.isEmpty = true
    · exact Or.inl ⟨goFields names d.fields, by simp [goBody, h]⟩
    · exact Or.inl ⟨.cons "Magic" .plain (.magic (some (goTag d.tag))) (goFields names d.fields), by simp [goBody, h]⟩
  · exact Or.inr ⟨_, rfl⟩

/-- the sub-class of the subset on which cells decode back: the descriptors additionally pass C03's decidable
well-formedness check `envOk` — constructor tags of a type pairwise prefix-free, a type that consumes the rest of the cell
(`Cell`, and declared types ending in one) only in tail position, key widths known, …. `ok` alone does NOT imply it
(examples below: overlapping tags `$0`/`$01`; `Cell` before another field); a characterisation of `envOk` in terms of the
TL-B text is not proved — it is evaluated, per schema (run time: op `tlbs.ok`). -/
def okRT (S : TSchema) : Bool := S.ok && envOk S.goEnv S.goBodies

/-- **tlb_schema_roundtrip** (from C03's `decode_encode` machinery): for every schema of the round-trip class `okRT`
and every declared type, a cell produced by the codec from an in-domain value decodes to that value. -/
theorem tlb_schema_roundtrip (S : TSchema) (hrt : okRT S = true) (t : String)
    (ht : S.typeNames.contains t = true) (fuel : Nat) (v : Val)
    (hd : inDom S.goEnv fuel (.named (idxOf S.typeNames t)) v = true) (b' : Builder)
    (he : encode S.goEnv fuel (.named (idxOf S.typeNames t)) v Builder.empty = .ok b') :
    ∃ rest, decode S.goEnv fuel (.named (idxOf S.typeNames t)) (Slice.ofCell b'.toCell) = .ok (v, rest) := by
  have hwf : envOk S.goEnv S.goBodies = true := by
    simp only [okRT, Bool.and_eq_true] at hrt; exact hrt.2
  have hEnv : EnvWF S.goEnv := by
    intro id T hid
    simp only [envOk, List.all_eq_true] at hwf
    exact hwf T (List.mem_of_getElem? hid)
  have hlt := idxOf_lt_of_contains _ t ht
  have hw : wfTop S.goEnv (.named (idxOf S.typeNames t)) = true := by
    have hb : S.goEnv (idxOf S.typeNames t) = some (goBody S.typeNames (S.ctorsOf S.typeNames[idxOf S.typeNames t])) := by
      simp [TSchema.goEnv, envOfList, TSchema.goBodies, hlt]
    rcases goBody_struct_or_sum S.typeNames (S.ctorsOf S.typeNames[idxOf S.typeNames t]) with ⟨fs, h⟩ | ⟨c, h⟩ <;>
      simp [wfTop, wfRefOf, wfb, hb, h]
  exact (ref_content (Inv.all S.goEnv hEnv primOK_of_proved fuel) _ v b' hw hd he).2.1

/-- non-vacuity (a test on a literal schema): `item$_ amount:Coins owner:^Cell = Item; msg_a#0f8a7ea5 query_id:uint64
x:(Maybe ^Item) y:(Either Item ^Item) = Msg; msg_b#595f07bc n:(## 5) = Msg;` is in the subset and its descriptors are
well formed -/
def exTlb : TSchema := { decls := [
  { ctor := "item", tag := [], type := "Item",
    fields := [{ name := "amount", ty := .coins }, { name := "owner", ty := .ref .cell }] },
  { ctor := "msg_a", tag := Bits.natToBits 32 0x0f8a7ea5, type := "Msg",
    fields := [{ name := "query_id", ty := .uint 64 }, { name := "x", ty := .maybe (.ref (.named "Item")) },
               { name := "y", ty := .either (.named "Item") (.ref (.named "Item")) }] },
  { ctor := "msg_b", tag := Bits.natToBits 32 0x595f07bc, type := "Msg", fields := [{ name := "n", ty := .natN 5 }] }] }

example : exTlb.ok = true ∧ okRT exTlb = true ∧ exTlb.typeNames = ["Item", "Msg"] := by
  decide +kernel

/-- `ok` does not imply `okRT` (1): `a$0 = T; b$01 x:uint8 = T;` — the tags overlap, the decoder cannot tell `a` followed
by a 1-bit from `b` -/
def exOverlap : TSchema := { decls := [
  { ctor := "a", tag := [false], type := "T", fields := [] },
  { ctor := "b", tag := [false, true], type := "T", fields := [{ name := "x", ty := .uint 8 }] }] }

/-- `ok` does not imply `okRT` (2): `c$_ rest:Cell n:uint8 = U;` — `Cell` swallows the rest of the cell before `n` -/
def exCellFirst : TSchema := { decls := [
  { ctor := "c", tag := [], type := "U", fields := [{ name := "rest", ty := .cell }, { name := "n", ty := .uint 8 }] }] }

example : exOverlap.ok = true ∧ okRT exOverlap = false ∧ exCellFirst.ok = true ∧ okRT exCellFirst = false := by
  decide +kernel

end Tongo.C09Tlb
