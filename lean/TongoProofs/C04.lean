import TongoProofs.Lemmas.TlbSpec
import TongoProofs.C03
import TongoProofs.Lemmas.TlbBitsRefine
import TongoProofs.Lemmas.HashmapSound
import TongoProofs.Lemmas.TlbDns
import TongoGen.TlbTypes
/-! # C04 — TL-B encodings are bit-exact with the TON schemas

SPEC: `TongoModel/Tlb/BlockTlb.lean` — a literal transcription of the relevant `block.tlb` declarations and what a
value serialises to according to them (`specChunk`). IMPL: the model of the reflection encoder (`Enc.encode`) over
the descriptors REGENERATED from the Go source (`TongoGen.TlbTypes.desc_<S>`).

`impl_eq_spec` is proved once for every descriptor/schema pair accepted by the decidable matcher `implementsSpec`
(same field order, widths, constructor tags, references); `impl_eq_spec_<S>` is the kernel-decided match for each
listed structure — a swapped field, a wrong width or a wrong tag in the Go struct makes it fail to elaborate. The tie
of the model to the Go code is the correspondence check; in addition the harness compares the Go output directly
with `specChunk` (ops `tlb.spec`, `tlb.extmsg`), which is what catches a mistake made symmetrically in the Go
encoder and decoder. -/
namespace Tongo.Tlb.C04
open Tongo Tongo.Tlb Tongo.Tlb.Spec Tongo.Bits

/-! ## Primitive layer: all widths, all values

The statements are about the IDEAL-level writers of `TongoModel/Tlb/Basic.lean` (a cell under construction is a list
of bits) against an independent arithmetic reading of the bits (`bitsToNat (…) = v % 2^n`, two's complement
`bitsToInt (…) = v`, minimality of the VarUInteger length). That the ideal writer is what Go's byte-level code does
(the shift loop of `WriteUint`, the sign handling of `WriteInt`, the byte buffer) is C06's refinement composed with
`C03.builder_refines_bitstring`: `*_on_bitstring` below state the two primitive facts on the byte-level model. -/

/-- **writeUint_on_bitstring**: on the byte-level model of `boc.BitString` (Go's loop `for i := bitLen-1; i >= 0; i--
{ WriteBit(val>>i & 1) }`), starting from any buffer that holds the bits of `b` with the cell capacity, `WriteUint`
succeeds exactly when the ideal writer does, and then the buffer holds `b.bits ++ natToBits n v`, whose value is
`v % 2^n` -/
theorem writeUint_on_bitstring (v n : Nat) (hv : v < 2 ^ 64) (bs : BitString) (b b' : Builder)
    (hinv : BitString.Inv bs) (habs : bs.abs = b.bits) (hcap : bs.cap = cellBits)
    (h : b.writeUint v n = .ok b') :
    ((Op.writeUint v n).run bs).1 = .ok .unit ∧ ((Op.writeUint v n).run bs).2.abs = b.bits ++ natToBits n v ∧
      bitsToNat (natToBits n v) = v % 2 ^ n := by
  have := builder_on_bitstring (writeUint_refines v n hv) (by simpa [Op.WF] using hv) bs b hinv habs hcap
  simp only [h] at this
  have hb := Builder.writeBits_ok (show b.writeBits (natToBits n v) = .ok b' by
    unfold Builder.writeUint at h; rwa [Nat.mod_eq_of_lt hv] at h)
  refine ⟨this.1, ?_, bitsToNat_natToBits n v⟩
  rw [this.2.1, hb]
  simp [Builder.app]

/-- **writeInt_on_bitstring**: the same for `WriteInt` (sign bit + magnitude in the code), every width 1..64 and
every representable int64: the buffer receives the two's complement bits `intToBits n v`, whose value is `v` -/
theorem writeInt_on_bitstring (v : Int) (n : Nat) (h1 : 1 ≤ n) (hn : n ≤ 64)
    (lo : -(2 ^ (n - 1) : Int) ≤ v) (hi : v < (2 ^ (n - 1) : Int)) (bs : BitString) (b b' : Builder)
    (hinv : BitString.Inv bs) (habs : bs.abs = b.bits) (hcap : bs.cap = cellBits)
    (h : b.writeInt v n = .ok b') :
    ((Op.writeInt v n).run bs).1 = .ok .unit ∧ ((Op.writeInt v n).run bs).2.abs = b.bits ++ intToBits n v ∧
      bitsToInt (intToBits n v) = v := by
  have h63 : (2 : Int) ^ (n - 1) ≤ 2 ^ 63 := by
    have : (2 : Nat) ^ (n - 1) ≤ 2 ^ 63 := Nat.pow_le_pow_right (by omega) (by omega)
    exact_mod_cast this
  have hwf : (Op.writeInt v n).WF := ⟨by omega, by omega, hn⟩
  have := builder_on_bitstring (writeInt_refines v n hn) hwf bs b hinv habs hcap
  simp only [h] at this
  have hb := Spec.writeInt_spec b b' v n h1 hn lo hi h
  refine ⟨this.1, ?_, bitsToInt_intToBits n v h1 lo hi⟩
  rw [this.2.1, hb]
  simp [Builder.app]

/-- **writeUint_spec**: `n` bits, most significant first, of the value mod 2^n — every width 0..64 -/
theorem writeUint_spec (b b' : Builder) (v n : Nat) (hn : n ≤ 64) (h : b.writeUint v n = .ok b') :
    b' = b.app (natToBits n v) [] ∧ bitsToNat (natToBits n v) = v % 2 ^ n :=
  ⟨Spec.writeUint_spec b b' v n hn h, bitsToNat_natToBits n v⟩

/-- **writeInt_spec**: two's complement on `n` bits for every width 1..64 and every −2^(n−1) ≤ v < 2^(n−1) -/
theorem writeInt_spec (b b' : Builder) (v : Int) (n : Nat) (h1 : 1 ≤ n) (hn : n ≤ 64)
    (lo : -(2 ^ (n - 1) : Int) ≤ v) (hi : v < (2 ^ (n - 1) : Int)) (h : b.writeInt v n = .ok b') :
    b' = b.app (intToBits n v) [] ∧ bitsToInt (intToBits n v) = v :=
  ⟨Spec.writeInt_spec b b' v n h1 hn lo hi h, bitsToInt_intToBits n v h1 lo hi⟩

/-- **writeBigUint_spec**: every width (128, 256, 257, …), every value below 2^n -/
theorem writeBigUint_spec (b b' : Builder) (v : Int) (n : Nat) (h0 : 0 ≤ v) (h1 : v < 2 ^ n)
    (h : b.writeBigUint v n = .ok b') : b' = b.app (natToBits n v.toNat) [] :=
  Spec.writeBigUint_spec b b' v n h0 h1 h

/-- **writeBigInt_spec**: two's complement for every width w = m+1 ≥ 1 (1..257 and beyond) -/
theorem writeBigInt_spec (b b' : Builder) (v : Int) (m : Nat) (hd : -(2 ^ m : Int) ≤ v ∧ v < 2 ^ m)
    (h : b.writeBigInt v (m + 1) = .ok b') : b' = b.app (intToBits (m + 1) v) [] :=
  Spec.writeBigInt_spec b b' v m hd h

/-- **varuint_minimal**: `VarUInteger n` = the minimal byte length `len` (on the bits of `#< n`), then `len` bytes;
and for in-range values `len < n` -/
theorem varuint_minimal (n : Nat) (hn : 1 ≤ n ∧ n ≤ 32) (x : Nat) (b b' : Builder)
    (h : Prim.encVarUint n x b = .ok b') :
    b' = b.app (natToBits (bitWidth (n - 1)) (minBytes x) ++ natToBits (minBytes x * 8) x) [] ∧
      x < 2 ^ (minBytes x * 8) ∧ (∀ k, x < 2 ^ (k * 8) → minBytes x ≤ k) := by
  have := Spec.varuint_minimal n x b b' (Nat.lt_of_lt_of_le (by omega : n - 1 < 32) (by decide)) (by omega) h
  refine ⟨by simpa using this, lt_two_pow_bytes x, fun k hk => natBytesLen_le_of_lt hk⟩

/-- **limUint_width**: `#<= n` occupies `bitWidth n = ⌊log2 n⌋ + 1` bits (0 bits for n = 0), for all n < 2^64 -/
theorem limUint_width (b b' : Builder) (v n : Nat) (hn : n < 2 ^ 64) (h : b.writeLimUint v n = .ok b') :
    b' = b.app (natToBits (bitWidth n) v) [] ∧ (n ≠ 0 → bitWidth n = Nat.log2 n + 1) :=
  ⟨Spec.limUint_width b b' v n hn h, fun h0 => by simp [bitWidth, h0]⟩

/-- **unary_spec**: `n` ones and a zero -/
theorem unary_spec (b b' : Builder) (n : Nat) (h : b.writeUnary n = .ok b') :
    b' = b.app (List.replicate n true ++ [false]) [] := Spec.unary_spec b b' n h

/-- **sumtag_spec**: a constructor tag is emitted as exactly its bits; and the bits `ParseTag` yields for the tags of
the message structures are the ones written after `$` in block.tlb (decided on the schema text), including the
15-bit form `#0201_` that Go spells `$000000100000000` -/
theorem sumtag_spec (b b' : Builder) (tg : Tag) (hok : tg.ok = true) (h : encodeTag (some tg) b = .ok b') :
    b' = b.app (natToBits tg.len tg.val) [] := Spec.sumtag_spec b b' tg hok h

theorem sumtag_literals :
    tagBits "$10" = natToBits 2 2 ∧ tagBits "$11" = natToBits 2 3 ∧ tagBits "$0" = natToBits 1 0 ∧
    tagBits "$000000100000000" = natToBits 15 256 ∧ tagBits "#0ec3c86d" = natToBits 32 0x0ec3c86d := by
  decide

/-! ## Structure layer -/

/-- **impl_eq_spec** (generic): if the regenerated descriptor matches the transcribed schema, then for every
in-domain value whatever the encoder appends to a cell under construction is exactly the chunk the schema
prescribes. -/
theorem impl_eq_spec (env : Env) (T : Ty) (S : SType) (hm : implementsSpec env T S = true)
    (fuel : Nat) (v : Val) (hd : inDom env fuel T v = true) (b b' : Builder)
    (he : encode env fuel T v b = .ok b') :
    ∃ g c, specChunk senv g S v = some c ∧ b' = b.app c.1 c.2 :=
  (SInv.all env senv fuel).enc agreeFuel T S v b b' hm hd he

/-- the same for a whole cell: `tlb.Marshal` into a new cell yields the cell the schema prescribes -/
theorem impl_cell_eq_spec (env : Env) (T : Ty) (S : SType) (hm : implementsSpec env T S = true)
    (fuel : Nat) (v : Val) (hd : inDom env fuel T v = true) (b' : Builder)
    (he : encode env fuel T v Builder.empty = .ok b') :
    ∃ g c, specChunk senv g S v = some c ∧ b'.toCell = Cell.mk 0 0 c.1 c.2 := by
  obtain ⟨g, c, hc, hb⟩ := impl_eq_spec env T S hm fuel v hd _ b' he
  exact ⟨g, c, hc, by rw [hb]; simp [Builder.empty, Builder.app, Builder.toCell]⟩

open TongoGen.TlbTypes in
/-- **impl_eq_spec_<S>**: the REGENERATED descriptors of the listed Go types match the transcribed declarations -/
theorem impl_eq_spec_TickTock : implementsSpec env desc_tlb_TickTock Spec.TickTock = true := by decide +kernel
open TongoGen.TlbTypes in
theorem impl_eq_spec_ExtraCurrencyCollection :
    implementsSpec env desc_tlb_ExtraCurrencyCollection Spec.ExtraCurrencyCollection = true := by decide +kernel
open TongoGen.TlbTypes in
theorem impl_eq_spec_CurrencyCollection :
    implementsSpec env desc_tlb_CurrencyCollection Spec.CurrencyCollection = true := by decide +kernel
open TongoGen.TlbTypes in
theorem impl_eq_spec_Grams : implementsSpec env desc_tlb_Grams Spec.Grams = true := by decide +kernel
open TongoGen.TlbTypes in
theorem impl_eq_spec_MsgAddress : implementsSpec env desc_tlb_MsgAddress Spec.MsgAddress = true := by decide +kernel
open TongoGen.TlbTypes in
theorem impl_eq_spec_CommonMsgInfo : implementsSpec env desc_tlb_CommonMsgInfo Spec.CommonMsgInfo = true := by
  decide +kernel
open TongoGen.TlbTypes in
theorem impl_eq_spec_StateInit : implementsSpec env desc_tlb_StateInit Spec.StateInit = true := by decide +kernel
open TongoGen.TlbTypes in
theorem impl_eq_spec_Message : implementsSpec env desc_tlb_Message Spec.Message = true := by decide +kernel
open TongoGen.TlbTypes in
theorem impl_eq_spec_WalletV3Body : implementsSpec env desc_wallet_MessageV3 Spec.WalletV3Body = true := by
  decide +kernel
open TongoGen.TlbTypes in
theorem impl_eq_spec_WalletV4Body : implementsSpec env desc_wallet_MessageV4 Spec.WalletV4Body = true := by
  decide +kernel
open TongoGen.TlbTypes in
theorem impl_eq_spec_SignedMsgBody : implementsSpec env desc_wallet_SignedMsgBody Spec.SignedMsgBody = true := by
  decide +kernel


/-! accounts and transactions -/
open TongoGen.TlbTypes in
theorem impl_eq_spec_StorageUsed : implementsSpec env desc_tlb_StorageUsed Spec.StorageUsed = true := by
  decide +kernel
open TongoGen.TlbTypes in
theorem impl_eq_spec_StorageExtraInfo : implementsSpec env desc_tlb_StorageExtraInfo Spec.StorageExtraInfo = true := by
  decide +kernel
open TongoGen.TlbTypes in
theorem impl_eq_spec_StorageInfo : implementsSpec env desc_tlb_StorageInfo Spec.StorageInfo = true := by
  decide +kernel
open TongoGen.TlbTypes in
theorem impl_eq_spec_AccountState : implementsSpec env desc_tlb_AccountState Spec.AccountState = true := by
  decide +kernel
open TongoGen.TlbTypes in
theorem impl_eq_spec_AccountStorage : implementsSpec env desc_tlb_AccountStorage Spec.AccountStorage = true := by
  decide +kernel
open TongoGen.TlbTypes in
theorem impl_eq_spec_ExistedAccount : implementsSpec env desc_tlb_ExistedAccount Spec.ExistedAccount = true := by
  decide +kernel
open TongoGen.TlbTypes in
theorem impl_eq_spec_Account : implementsSpec env desc_tlb_Account Spec.Account = true := by
  decide +kernel
open TongoGen.TlbTypes in
theorem impl_eq_spec_ShardAccount : implementsSpec env desc_tlb_ShardAccount Spec.ShardAccount = true := by
  decide +kernel
open TongoGen.TlbTypes in
theorem impl_eq_spec_AccountStatus : implementsSpec env desc_tlb_AccountStatus Spec.AccountStatus = true := by
  decide +kernel
open TongoGen.TlbTypes in
theorem impl_eq_spec_AccStatusChange : implementsSpec env desc_tlb_AccStatusChange Spec.AccStatusChange = true := by
  decide +kernel
open TongoGen.TlbTypes in
theorem impl_eq_spec_ComputeSkipReason : implementsSpec env desc_tlb_ComputeSkipReason Spec.ComputeSkipReason = true := by
  decide +kernel
open TongoGen.TlbTypes in
theorem impl_eq_spec_TrStoragePhase : implementsSpec env desc_tlb_TrStoragePhase Spec.TrStoragePhase = true := by
  decide +kernel
open TongoGen.TlbTypes in
theorem impl_eq_spec_TrCreditPhase : implementsSpec env desc_tlb_TrCreditPhase Spec.TrCreditPhase = true := by
  decide +kernel
open TongoGen.TlbTypes in
theorem impl_eq_spec_TrComputePhase : implementsSpec env desc_tlb_TrComputePhase Spec.TrComputePhase = true := by
  decide +kernel
open TongoGen.TlbTypes in
theorem impl_eq_spec_TrActionPhase : implementsSpec env desc_tlb_TrActionPhase Spec.TrActionPhase = true := by
  decide +kernel
open TongoGen.TlbTypes in
theorem impl_eq_spec_TrBouncePhase : implementsSpec env desc_tlb_TrBouncePhase Spec.TrBouncePhase = true := by
  decide +kernel
open TongoGen.TlbTypes in
theorem impl_eq_spec_SplitMergeInfo : implementsSpec env desc_tlb_SplitMergeInfo Spec.SplitMergeInfo = true := by
  decide +kernel
open TongoGen.TlbTypes in
theorem impl_eq_spec_TransactionDescr : implementsSpec env desc_tlb_TransactionDescr Spec.TransactionDescr = true := by
  decide +kernel
open TongoGen.TlbTypes in
theorem impl_eq_spec_HashUpdate : implementsSpec env desc_tlb_HashUpdate Spec.HashUpdate = true := by
  decide +kernel
open TongoGen.TlbTypes in
theorem impl_eq_spec_Transaction : implementsSpec env desc_tlb_Transaction Spec.Transaction = true := by
  decide +kernel


/-! wallet v5 (r1): the list of out-actions, the extended actions and the signed / extension bodies. The extended
actions (`chain`) have a model, this schema tie and — since round 3 — their own round-trip theorem in C03
(`CodecOK_w5ExtendedActions`, `roundtrip_wallet_MessageV5`: the third mode "follows the next reference whenever there is
one"). -/
open TongoGen.TlbTypes in
theorem impl_eq_spec_OutList : implementsSpec env desc_wallet_W5Actions Spec.OutList = true := by decide +kernel
open TongoGen.TlbTypes in
theorem impl_eq_spec_W5ExtendedAction :
    implementsSpec env desc_wallet_W5ExtendedAction Spec.W5ExtendedAction = true := by decide +kernel
open TongoGen.TlbTypes in
theorem impl_eq_spec_WalletV5R1Body : implementsSpec env desc_wallet_MessageV5 Spec.WalletV5R1Body = true := by
  decide +kernel


/-! a `maybe` pointer field whose element is written by reflection (config parameter 5), and MsgMetadata -/
open TongoGen.TlbTypes in
theorem impl_eq_spec_BurningConfig : implementsSpec env desc_tlb_BurningConfig Spec.BurningConfig = true := by
  decide +kernel
open TongoGen.TlbTypes in
theorem impl_eq_spec_MsgMetadata : implementsSpec env desc_tlb_MsgMetadata Spec.MsgMetadata = true := by
  decide +kernel

/-! wallet v5 beta (transcribed from the repository's own writer and reader of the body) -/
open TongoGen.TlbTypes in
theorem impl_eq_spec_WalletV5ID : implementsSpec env desc_wallet_WalletV5ID Spec.WalletV5ID = true := by decide +kernel
open TongoGen.TlbTypes in
theorem impl_eq_spec_WalletV5BetaBody :
    implementsSpec env desc_wallet_MessageV5Beta Spec.WalletV5BetaBody = true := by decide +kernel

/-! highload wallet v2: the body after the signature -/
open TongoGen.TlbTypes in
theorem impl_eq_spec_HighloadV2Body :
    implementsSpec env desc_wallet_HighloadV2Message Spec.HighloadV2Body = true := by decide +kernel

/-- **impl_eq_spec_hashmapE**: a Go `HashmapE[K, V]` against `HashmapE n X` of the schema. The matcher asks for the
key width `n`, a key descriptor that implements the schema's key type and a value descriptor that implements `X`;
then every in-domain dictionary (empty or not) is written as `hme_empty$0` / `hme_root$1 root:^(Hashmap n X)` where the
tree is `Tongo.Hashmap.marshal` over the keys and values AS THE SCHEMA SERIALISES THEM. That `marshal` writes a valid
`hm_edge` / `hmn_leaf` / `hmn_fork` tree with the shortest labels and the given meaning is C05
(`encode_sorted_tree`, `labels_shortest`); what C04 adds is that keys and values inside it are schema-exact
(`Lemmas/TlbSpec.agree_dictE`, by monotonicity of `marshal` in the value codec: `Hashmap.marshal_mono_on`). -/
theorem impl_eq_spec_hashmapE (env : Env) (k t : Ty) (n : Nat) (sk st : SType)
    (hm : implementsSpec env (.dictE k t) (.hashmapE n sk st) = true)
    (fuel : Nat) (v : Val) (hd : inDom env fuel (.dictE k t) v = true) (b b' : Builder)
    (he : encode env fuel (.dictE k t) v b = .ok b') :
    ∃ g c, specChunk senv g (.hashmapE n sk st) v = some c ∧ b' = b.app c.1 c.2 :=
  impl_eq_spec env _ _ hm fuel v hd b b' he

set_option maxRecDepth 20000 in
/-- the extra-currency dictionary `{7 ↦ 1000}` according to the schema: `hme_root$1`, one reference to the root leaf
with label `hml_long$10` of 32 bits and the value `VarUInteger 32` (TEST on a literal) -/
example :
    (match specChunk senv 8 Spec.ExtraCurrencyCollection
        (Val.list [Val.list [Val.list [.int 7], Val.list [.int 1000]]]) with
      | some ([true], [Cell.mk 0 0 bits []]) =>
        decide (bits = [true, false] ++ natToBits 6 32 ++ natToBits 32 7 ++ natToBits 5 2 ++ natToBits 16 1000)
      | _ => false) = true := by
  decide

/-- **impl_eq_spec_MsgAddress_codec**: the hand-written `MsgAddress.MarshalTLB` writes what the four constructors
of MsgAddressInt / MsgAddressExt prescribe (anycast depth 1..30, extern length 0..511) -/
theorem impl_eq_spec_MsgAddress_codec (v : Val) (b b' : Builder) (hd : Prim.msgAddress.inDom v = true)
    (he : Prim.encMsgAddress v b = .ok b') : ∃ xs, specMsgAddress v = some (xs, []) ∧ b' = b.app xs [] :=
  spec_msgAddress v b b' hd he

/-- the value `ton.CreateExternalMessage(address, body, init, fee)` builds: ext_in_msg_info, source addr_none,
destination addr_std without anycast, init (if any) and body both in references -/
def extMessageVal (wc : Int) (addr : List UInt8) (body : Cell) (init : Option Val) (fee : Int) : Val :=
  Val.list [
    Val.ctor "ExtInMsgInfo" (Val.some (Val.list [
      Val.ctor "AddrNone" .nil, Val.ctor "AddrStd" (Val.list [.none, .int wc, .bytes addr]), .int fee])),
    (match init with
      | none => Val.none
      | some si => Val.some (Val.ctor "R" si)),
    Val.ctor "R" (.cell body)]

/-- **ext_message_layout**: the cell built by `ton.CreateExternalMessage` + `tlb.Marshal` is the one block.tlb
prescribes for `message$_ info:ext_in_msg_info$10 … init:(Maybe (Either StateInit ^StateInit)) body:(Either X ^X)`
with both Eithers taken on the right -/
theorem ext_message_layout (wc : Int) (addr : List UInt8) (body : Cell) (init : Option Val) (fee : Int)
    (fuel : Nat)
    (hd : inDom TongoGen.TlbTypes.env fuel TongoGen.TlbTypes.desc_tlb_Message
      (extMessageVal wc addr body init fee) = true) (b' : Builder)
    (he : encode TongoGen.TlbTypes.env fuel TongoGen.TlbTypes.desc_tlb_Message
      (extMessageVal wc addr body init fee) Builder.empty = .ok b') :
    ∃ g c, specChunk senv g Spec.Message (extMessageVal wc addr body init fee) = some c ∧
      b'.toCell = Cell.mk 0 0 c.1 c.2 :=
  impl_cell_eq_spec _ _ _ impl_eq_spec_Message fuel _ hd b' he

/-! ## DNS text (TEP-81 / block.tlb `Text`): the decoder against the schema

The library has no encoder for `tlb.DNSText`; the schema side `Dns.specDnsText` is the transcription of

    text$_ chunks:(## 8) rest:(TextChunks chunks) = Text;
    text_chunk$_ {n:#} len:(## 8) data:(bits (len * 8)) next:(TextChunkRef n) = TextChunks (n + 1);
    chunk_ref$_ {n:#} ref:^(TextChunks (n + 1)) = TextChunkRef (n + 1);

(the first chunk in the cell of the text, every further chunk in a cell behind the first reference of the previous
one). The tie to the Go code: `tlb.dnstext` / `tlb.dns` (Go decoder = model decoder on schema-built and damaged cells),
`tlb.dnsspec` (the harness's own schema-based cell builder = `specDnsText`). A change of the width of `chunks` or `len`
in `readChunks` is a mismatch on the first line with a non-trivial chunk. -/

/-- **dnsText_decodes_spec**: the model of `DNSText.UnmarshalTLB` returns the concatenation of the chunks of every cell
the schema prescribes (up to 255 chunks of up to 255 bytes; a real cell holds at most 125 / 126 bytes per chunk),
whatever follows the text in the cell -/
theorem dnsText_decodes_spec (chunks : List (List UInt8)) (hq : chunks.length < 256)
    (hl : ∀ c ∈ chunks, c.length < 256) (s : Slice) (ys : List Bool) (rs : List Cell) :
    Dns.decDnsText (s.prepend ((Dns.specDnsText chunks).1 ++ ys) ((Dns.specDnsText chunks).2 ++ rs))
      = .ok (chunks.flatten, s.prepend ys rs) :=
  Dns.dnsText_decodes_spec chunks hq hl s ys rs

/-- the schema on literals (TEST): "ab" + "c" in two chunks, and the `dns_text#1eda` record around it -/
example :
    Dns.specDnsText [[97, 98], [99]] =
      (natToBits 8 2 ++ (natToBits 8 2 ++ natToBits 8 97 ++ natToBits 8 98), [Cell.mk 0 0 (natToBits 8 1 ++ natToBits 8 99) []]) ∧
    (match Dns.decDnsRecord (Slice.ofCell (Cell.mk 0 0 (natToBits 16 0x1eda ++ (Dns.specDnsText [[97, 98], [99]]).1)
        (Dns.specDnsText [[97, 98], [99]]).2)) with
      | .ok (.cons (.sym n) (.cons (.bytes t) .nil)) => n == "DNSText" && t == [97, 98, 99]
      | _ => false) = true := by
  exact ⟨by rfl, by decide⟩

/-! ## The dictionary part of the schema side

`specDict` (the chunk `block.tlb` prescribes for a `HashmapE n X`) calls C05's `Hashmap.marshal` — the same function
the implementation model uses — on the values as the SCHEMA serialises them. That this function is the schema and not
merely "what the code does" is C05's content; `specDict_is_hashmap_tree` restates the schema side declaratively: the
root it produces is the cell tree (`HTree.toCell`: hm_edge with its label, hmn_leaf value / hmn_fork left:^ right:^) of
a VALID `Hashmap n X` (`HTree.Valid`: every label within the remaining key length, a leaf exactly where the key is
exhausted) whose MEANING is the given entries in ascending key order — with no reference to the encoder's algorithm. -/

/-- **specDict_is_hashmap_tree** -/
theorem specDict_is_hashmap_tree (n : Nat) (kf vf : Val → Option Chunk) (v : Val) (c : Chunk)
    (h : specDict n kf vf v = some c) (ks vs : List Val) (hp : dictParts v = some (ks, vs))
    (hv : ∀ x ∈ vs, (vf x).isSome = true) (hlen : ks.length = vs.length) :
    (ks = [] ∧ c = ([false], [])) ∨
    ∃ (kbits : List Hashmap.Key) (kvs : List (Hashmap.Key × Val)) (t : Hashmap.HTree Val),
      mapMOpt (fun kv => keyBits n (kf kv)) ks = some kbits ∧ zipKV kbits vs = some kvs ∧
      t.Valid n ∧ t.meaning = Hashmap.sortKV kvs ∧ Hashmap.SortedKV t.meaning ∧
      c = ([true], [t.toCell (fun x => (vf x).getD ([], [])) n]) := by
  unfold specDict at h
  rw [hp] at h
  simp only at h
  by_cases hemp : ks.isEmpty = true
  · rw [if_pos hemp] at h
    exact Or.inl ⟨by simpa using hemp, (Option.some.inj h).symm⟩
  · rw [if_neg hemp] at h
    right
    cases hk : mapMOpt (fun kv => keyBits n (kf kv)) ks with
    | none => rw [hk] at h; cases h
    | some kbits =>
    rw [hk] at h
    simp only at h
    cases hz : zipKV kbits vs with
    | none => rw [hz] at h; cases h
    | some kvs =>
    rw [hz] at h
    simp only at h
    cases hm : Hashmap.marshal (specCodec vf) n kvs with
    | err e => rw [hm] at h; cases h
    | panic e => rw [hm] at h; cases h
    | ok root =>
    rw [hm] at h
    simp only [Option.some.injEq] at h
    -- widths of the keys: `keyBits` checks them
    have hkw : ∀ kb ∈ kbits, kb.length = n := by
      clear hm hz h hp hv hlen hemp
      induction ks generalizing kbits with
      | nil => simp only [mapMOpt, Option.some.injEq] at hk; subst hk; simp
      | cons a as ih =>
        simp only [mapMOpt] at hk
        cases h1 : keyBits n (kf a) with
        | none => simp [h1] at hk
        | some b =>
          cases h2 : mapMOpt (fun kv => keyBits n (kf kv)) as with
          | none => simp [h1, h2] at hk
          | some bs =>
            simp only [h1, h2, Option.some.injEq] at hk
            subst hk
            intro kb hkb
            rcases List.mem_cons.mp hkb with rfl | hkb
            · unfold keyBits at h1
              split at h1
              · split at h1
                · rename_i hc; cases h1; exact hc.1
                · cases h1
              · cases h1
            · exact ih bs h2 kb hkb
    have hkl : kbits.length = vs.length := by
      have : kbits.length = ks.length := by
        clear hm hz h hp hv hlen hemp hkw
        induction ks generalizing kbits with
        | nil => simp only [mapMOpt, Option.some.injEq] at hk; subst hk; rfl
        | cons a as ih =>
          simp only [mapMOpt] at hk
          cases h1 : keyBits n (kf a) with
          | none => simp [h1] at hk
          | some b =>
            cases h2 : mapMOpt (fun kv => keyBits n (kf kv)) as with
            | none => simp [h1, h2] at hk
            | some bs =>
              simp only [h1, h2, Option.some.injEq] at hk
              subst hk
              simp [ih bs h2]
      omega
    obtain ⟨hz1, hz2⟩ := zipKV_spec kbits vs kvs hkl hz
    have hw : ∀ kv ∈ kvs, kv.1.length = n := fun kv hkv => hkw kv.1 (by rw [← hz1]; exact List.mem_map_of_mem hkv)
    have hne : kvs ≠ [] := by
      intro h0; subst h0
      simp only [List.map_nil] at hz1
      have : ks.length = 0 := by rw [hlen, ← hkl, ← hz1]; rfl
      exact hemp (by simpa using List.eq_nil_of_length_eq_zero this)
    have hemp2 : kvs.isEmpty = false := by cases kvs <;> simp_all
    simp only [Hashmap.marshal, hemp2, Bool.false_eq_true, if_false, Hashmap.maxKeyLen_eq n _ hne hw] at hm
    have hp2 := Hashmap.sortKV_perm kvs
    have hws : ∀ kv ∈ Hashmap.sortKV kvs, kv.1.length = n := fun kv hkv => hw kv (hp2.mem_iff.mp hkv)
    have hs := Hashmap.encodeMap_ok_strict (specCodec vf) (n + 1) n _ root hws (Hashmap.sortKV_weak n _ hw) hm
    obtain ⟨t, htv, htm, htc⟩ := Hashmap.encodeMap_ok_tree (specCodec vf) (fun x => (vf x).getD ([], [])) (n + 1) n _
      root hws hs (by
        intro kv hkv
        have hmem : kv.2 ∈ vs := by rw [← hz2]; exact List.mem_map_of_mem (hp2.mem_iff.mp hkv)
        have := hv kv.2 hmem
        simp only [specCodec]
        cases hvf : vf kv.2 with
        | none => rw [hvf] at this; cases this
        | some c' => simp) hm
    refine ⟨kbits, kvs, t, rfl, hz, htv, htm, by rw [htm]; exact hs, ?_⟩
    rw [← h, htc]

/-- **reencode_own_output_message** (formerly `reencode_real`; from C03 `reencode_own_output`): a cell produced BY THE
ENCODER decodes and re-encodes to the same cell. It says nothing about cells that come from the chain: that is
`reencode_chain_cell`. -/
theorem reencode_own_output_message (H : List UInt8 → List UInt8) (fuel : Nat) (v : Val)
    (hd : inDom TongoGen.TlbTypes.env fuel TongoGen.TlbTypes.desc_tlb_Message v = true) (b1 : Builder)
    (he : encode TongoGen.TlbTypes.env fuel TongoGen.TlbTypes.desc_tlb_Message v Builder.empty = .ok b1)
    (v2 : Val) (rest : Slice)
    (hdec : decode TongoGen.TlbTypes.env fuel TongoGen.TlbTypes.desc_tlb_Message (Slice.ofCell b1.toCell)
      = .ok (v2, rest)) (b2 : Builder)
    (he2 : encode TongoGen.TlbTypes.env fuel TongoGen.TlbTypes.desc_tlb_Message v2 Builder.empty = .ok b2) :
    Cell.reprHash H b2.toCell = Cell.reprHash H b1.toCell :=
  (C03.reencode_own_output H _ C03.generated_env_wf _ TongoGen.TlbTypes.wf_tlb_Message fuel v hd b1 he v2 rest
    hdec b2 he2).2

/-- **reencode_chain_cell** — the clause "structures decoded from real chain data and encoded again reproduce the
original cell hash wherever the encoding is unique", with the uniqueness condition made explicit and decidable: ANY
cell (from the chain, from another implementation) that satisfies `canonicalCell` — ordinary cells, minimal
`VarUInteger` / `Grams` length prefixes, dictionary labels in TON's shortest form, children entirely consumed — and
that the regenerated descriptor decodes is rebuilt by the encoder bit for bit and reference for reference. For every
regenerated descriptor (Message, StateInit, Transaction, Account, CurrencyCollection: `C03.reencode_tlb_*`). Where the
encoding is NOT unique the hash changes: `C03.CanonTest.noncanonical_cell_witnesses`. On every run the predicate is
evaluated on the real transactions and messages of the test blocks (op `tlb.canon`: a canonical cell must be reproduced
by the Go code; `tlb.canoninfo`: how many are canonical). -/
theorem reencode_chain_cell (H : List UInt8 → List UInt8) (T : Ty) (fuel : Nat) (c : Cell)
    (hc : canonicalCell TongoGen.TlbTypes.env fuel T c = true) (v : Val) (rest : Slice) (b' : Builder)
    (hd : decode TongoGen.TlbTypes.env fuel T (Slice.ofCell c) = .ok (v, rest))
    (he : encode TongoGen.TlbTypes.env fuel T v Builder.empty = .ok b') :
    b'.toCell = c ∧ Cell.reprHash H b'.toCell = Cell.reprHash H c :=
  C03.reencode_canonical_cell H _ T fuel c hc v rest b' hd he

/-! ## Non-vacuity (TEST on literals): the spec produces the well-known encodings -/
set_option maxRecDepth 20000 in
example : ((specChunk senv 8 Spec.Grams (.int 1000)).map (·.1)) = some ([false, false, true, false] ++ natToBits 16 1000) := by
  decide
set_option maxRecDepth 20000 in
example : ((specChunk senv 8 Spec.MsgAddress (Val.ctor "AddrNone" .nil)).map (·.1)) = some [false, false] := by decide

end Tongo.Tlb.C04
