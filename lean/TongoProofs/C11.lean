import TongoProofs.Lemmas.Adnl
import TongoModel.AdnlConstsSpec
/-! Property C11 — ADNL transport frames and handshake interoperate and detect corruption.

Property theorems only (helper lemmas: `TongoProofs/Lemmas/Adnl.lean`). The model (`TongoModel/Adnl.lean`) is
parametric in the hash `H`, in each direction's keystream `ks` and in `ctr : key → iv → keystream`; the theorems hold
for EVERY choice of them. What they need is stated as explicit local hypotheses:
* `HLen H`               : digests have 32 bytes (true of SHA-256),
* `CollisionFree H S`    : `H` is injective on the finite set `S` (idealisation, only in `payload_or_nonce_altered`),
* `sharedOf ephPub = shared` : the X25519 agreement between client and server (only in `handshake_accept`);
* `DHCommutes cv` : the same agreement stated for the curve operations when `keys.go` is modelled
  (`handshake_accept_keys`): the only cryptographic premise there. -/
namespace Tongo.C11
open Tongo Tongo.Adnl

/-- digests have 32 bytes -/
def HLen (H : Bytes → Bytes) : Prop := ∀ x, (H x).length = 32

/-- `H` is injective on the finite set `S` -/
def CollisionFree (H : Bytes → Bytes) (S : List Bytes) : Prop := ∀ a ∈ S, ∀ b ∈ S, H a = H b → a = b

/-- the bytes one packet occupies on the wire when sent at keystream offset `off` -/
abbrev wire (H : Bytes → Bytes) (ks : Nat → UInt8) (off : Nat) (p : Packet) : Bytes := xorStream ks off (marshal H p)

/-! ## frames round-trip -/

/-- `ParsePacket` inverts `marshal` + encryption for every packet within the length bound, at every keystream offset,
whatever bytes follow the frame; the remainder is returned untouched. -/
theorem frame_roundtrip (H : Bytes → Bytes) (hH : HLen H) (ks : Nat → UInt8) (off : Nat) (p : Packet) (hp : p.WF)
    (rest : Bytes) :
    parsePacket H ks off (wire H ks off p ++ rest) = .ok (some (p, rest)) :=
  parse_frame_append H hH ks off p hp rest

/-- Stream continuity: for EVERY list of packets sent one after the other through one cipher (keystream offset carried
across packets, starting anywhere), the receive loop with one decryptor started at the same offset delivers exactly
that list and then waits for more. -/
theorem stream_continuity (H : Bytes → Bytes) (hH : HLen H) (ks : Nat → UInt8) (off : Nat) (ps : List Packet)
    (hps : ∀ p ∈ ps, p.WF) :
    recvAll H ks off (sendAll H ks off ps) = (ps, .waiting) := by
  have := recvAll_sendAll_append H hH ks ps hps off []
  simpa [recvAll_wait H (parsePacket_nil H ks _)] using this

/-- Independence of TCP segmentation: the receiver's result is a function of the bytes received so far only. After ANY
prefix (`k` bytes) of the sender's stream it has delivered exactly the first `j` packets — `j` being the number of
frames completely contained in the prefix — and is waiting, never dead. (The Go reader blocks in `io.ReadFull`; how the
bytes were cut into segments cannot be observed.) -/
theorem segmentation_independent (H : Bytes → Bytes) (hH : HLen H) (ks : Nat → UInt8) (off : Nat) (ps : List Packet)
    (hps : ∀ p ∈ ps, p.WF) (k : Nat) :
    ∃ j, j ≤ ps.length ∧ ((ps.take j).map frameLen).sum ≤ k ∧
      (j < ps.length → k < ((ps.take (j + 1)).map frameLen).sum) ∧
      recvAll H ks off ((sendAll H ks off ps).take k) = (ps.take j, .waiting) :=
  recvAll_prefix H hH ks ps hps off k

/-- Both directions at once: each direction has its own keystream and its own offset, so whatever is sent one way
(any list, any offsets reached so far) is received that way, independently of the other direction. -/
theorem bidirectional (H : Bytes → Bytes) (hH : HLen H) (ksUp ksDown : Nat → UInt8) (offUp offDown : Nat)
    (up down : List Packet) (hup : ∀ p ∈ up, p.WF) (hdown : ∀ p ∈ down, p.WF) :
    recvAll H ksUp offUp (sendAll H ksUp offUp up) = (up, .waiting) ∧
    recvAll H ksDown offDown (sendAll H ksDown offDown down) = (down, .waiting) :=
  ⟨stream_continuity H hH ksUp offUp up hup, stream_continuity H hH ksDown offDown down hdown⟩

/-! ## handshake against the specification server -/

/-- The spec server accepts the client's handshake packet and recovers exactly the client's session parameters,
GIVEN that its X25519 computation agrees with the client's (`hDH`); the packet has 256 bytes; the client's sending
keystream is the server's receiving keystream and vice versa; and the server's confirmation (an empty packet under its
sending keystream) completes the client's handshake. -/
theorem handshake_accept (H : Bytes → Bytes) (hH : HLen H) (ctr : Bytes → Bytes → Nat → UInt8)
    (serverPub ephPub shared params : Bytes) (sharedOf : Bytes → Bytes)
    (heph : ephPub.length = 32) (hpar : params.length = 160) (hsh : shared.length = 32)
    (hDH : sharedOf ephPub = shared) :
    ∃ pkt, handshakePacket H ctr serverPub ephPub shared params = .ok pkt ∧ pkt.length = 256 ∧
      serverAccept H ctr serverPub sharedOf pkt = .ok params ∧
      clientTx ctr params = serverRx ctr params ∧ clientRx ctr params = serverTx ctr params ∧
      ∀ nonce, nonce.length = 32 →
        clientFinish H ctr params (serverReply H ctr params nonce) = .ok (some (⟨nonce, []⟩, [])) := by
  refine ⟨_, handshakePacket_ok H ctr hH serverPub ephPub shared params hsh, ?_,
    serverAccept_handshake H ctr hH serverPub ephPub shared params sharedOf heph hpar hDH, rfl, rfl, ?_⟩
  · have h1 : (keyId H serverPub).length = 32 := hH _
    have h2 : (H params).length = 32 := hH _
    simp [h1, h2, heph, hpar]
  · intro nonce hn
    have := parse_frame_append H hH (clientRx ctr params) 0 ⟨nonce, []⟩ ⟨hn, by show ([] : Bytes).length + 64 ≤ maxLen; decide⟩ []
    simpa [clientFinish, serverReply, send, serverTx, clientRx, rxKey, rxNonce] using this

/-! ## the handshake with the key agreement of `keys.go` modelled

`handshake_accept` takes the shared secret as a free variable. Here the client's side is `newKeys`/`sharedKey` (which
public key is SENT, how its private key becomes an X25519 scalar — SHA-512, clamping —, the Edwards→Montgomery conversion
of the server's key and its failure), the server's side is its own scalar times the Montgomery form of the key it
RECEIVED, and the only hypothesis is the commutation of the curve's scalar multiplication. -/

/-- X25519 agreement, the ONLY cryptographic fact assumed: for two seeds, each side's scalar times the Montgomery form
of the other side's Ed25519 public key is the same value (both equal a·b·basepoint) -/
def DHCommutes (cv : Curve) : Prop :=
  ∀ a b ua ub, cv.toMont (cv.edPub a) = some ua → cv.toMont (cv.edPub b) = some ub →
    cv.x25519 (scalarOf cv a) ub = cv.x25519 (scalarOf cv b) ua

theorem handshake_accept_keys (H : Bytes → Bytes) (hH : HLen H) (ctr : Bytes → Bytes → Nat → UInt8) (cv : Curve)
    (hDH : DHCommutes cv) (hpub : ∀ seed, (cv.edPub seed).length = 32) (hx : ∀ a u, (cv.x25519 a u).length = 32)
    (clientSeed serverSeed params uc us : Bytes) (hpar : params.length = 160)
    (hvc : cv.toMont (cv.edPub clientSeed) = some uc) (hvs : cv.toMont (cv.edPub serverSeed) = some us)
    (hnz : (cv.x25519 (scalarOf cv clientSeed) us).all (· == 0) = false) :
    ∃ pkt, clientHandshake H ctr cv clientSeed (cv.edPub serverSeed) params = .ok pkt ∧ pkt.length = 256 ∧
      pkt.take 32 = keyId H (cv.edPub serverSeed) ∧
      (pkt.drop 32).take 32 = cv.edPub clientSeed ∧
      serverAccept H ctr (cv.edPub serverSeed) (serverShared cv serverSeed) pkt = .ok params := by
  have hsh : serverShared cv serverSeed (cv.edPub clientSeed) = cv.x25519 (scalarOf cv clientSeed) us := by
    simp only [serverShared, hvc]
    exact (hDH clientSeed serverSeed uc us hvc hvs).symm
  obtain ⟨pkt, h1, h2, h3, _⟩ := handshake_accept H hH ctr (cv.edPub serverSeed) (cv.edPub clientSeed)
    (cv.x25519 (scalarOf cv clientSeed) us) params (serverShared cv serverSeed) (hpub _) hpar (hx _ _) hsh
  refine ⟨pkt, ?_, h2, ?_, ?_, h3⟩
  · simp only [clientHandshake, newKeys, sharedKey, hvs, hnz]
    exact h1
  · have hk : (keyId H (cv.edPub serverSeed)).length = 32 := hH _
    have := handshakePacket_ok H ctr hH (cv.edPub serverSeed) (cv.edPub clientSeed)
      (cv.x25519 (scalarOf cv clientSeed) us) params (hx _ _)
    rw [this] at h1
    cases h1
    rw [List.append_assoc, List.append_assoc, List.take_append_of_le_length (by omega),
      List.take_of_length_le (by omega)]
  · have hk : (keyId H (cv.edPub serverSeed)).length = 32 := hH _
    have := handshakePacket_ok H ctr hH (cv.edPub serverSeed) (cv.edPub clientSeed)
      (cv.x25519 (scalarOf cv clientSeed) us) params (hx _ _)
    rw [this] at h1
    cases h1
    rw [List.append_assoc, List.append_assoc, List.drop_append_of_le_length (by omega),
      List.drop_of_length_le (by omega), List.nil_append, List.take_append_of_le_length (by rw [hpub]; omega),
      List.take_of_length_le (by rw [hpub]; omega)]

/-- an invalid server key makes `newKeys` (hence the connection attempt) fail instead of sending anything -/
theorem handshake_invalid_server_key (H : Bytes → Bytes) (ctr : Bytes → Bytes → Nat → UInt8) (cv : Curve)
    (seed serverPub params : Bytes) (h : cv.toMont serverPub = none) :
    clientHandshake H ctr cv seed serverPub params = .err "invalid public key" := by
  simp [clientHandshake, newKeys, sharedKey, h]

/-- a server key of small order (X25519 result all zero) also makes the connection attempt fail -/
theorem handshake_low_order_server_key (H : Bytes → Bytes) (ctr : Bytes → Bytes → Nat → UInt8) (cv : Curve)
    (seed serverPub params u : Bytes) (h : cv.toMont serverPub = some u)
    (hz : (cv.x25519 (scalarOf cv seed) u).all (· == 0) = true) :
    clientHandshake H ctr cv seed serverPub params = .err "low order point" := by
  simp [clientHandshake, newKeys, sharedKey, h, hz]

/-- clamping as in RFC 7748: three low bits of byte 0 cleared, bit 7 of byte 31 cleared, bit 6 set, length kept -/
theorem clamp_spec (b : Bytes) (h : b.length = 32) :
    (clamp b).length = 32 ∧ (clamp b)[0]'(by simp [clamp, h]) &&& 7 = 0 ∧
    (clamp b)[31]'(by simp [clamp, h]) &&& 192 = 64 := by
  refine ⟨by simp [clamp, h], ?_, ?_⟩
  · simp only [clamp, List.getElem_mapIdx, if_true]
    generalize b[0] = x
    have h0 : ∀ n, n < 256 → (UInt8.ofNat n &&& 248) &&& 7 = 0 := by decide +kernel
    have := h0 x.toNat x.toNat_lt
    simpa using this
  · simp only [clamp, List.getElem_mapIdx]
    generalize b[31] = x
    simp only [show (31 : Nat) ≠ 0 by decide, if_false, if_true]
    have h0 : ∀ n, n < 256 → ((UInt8.ofNat n &&& 127) ||| 64) &&& 192 = 64 := by decide +kernel
    have := h0 x.toNat x.toNat_lt
    simpa using this

/-- End to end: after the handshake of `handshake_accept`, everything the client sends (from offset 0 of its sending
keystream) is received by the spec server, and everything the server sends after its confirmation packet is received
by the client, whose decryptor stands at offset 68 after the handshake. -/
theorem session_after_handshake (H : Bytes → Bytes) (hH : HLen H) (ctr : Bytes → Bytes → Nat → UInt8)
    (params nonce : Bytes) (hn : nonce.length = 32) (up down : List Packet)
    (hup : ∀ p ∈ up, p.WF) (hdown : ∀ p ∈ down, p.WF) :
    recvAll H (serverRx ctr params) 0 (sendAll H (clientTx ctr params) 0 up) = (up, .waiting) ∧
    recvAll H (clientRx ctr params) 0 (sendAll H (serverTx ctr params) 0 (⟨nonce, []⟩ :: down))
      = (⟨nonce, []⟩ :: down, .waiting) ∧
    frameLen ⟨nonce, []⟩ = 68 := by
  refine ⟨stream_continuity H hH _ 0 up hup, ?_, rfl⟩
  exact stream_continuity H hH (clientRx ctr params) 0 (⟨nonce, []⟩ :: down) (by
    intro p hp
    rcases List.mem_cons.mp hp with rfl | h
    · exact ⟨hn, by show ([] : Bytes).length + 64 ≤ maxLen; decide⟩
    · exact hdown p h)

/-! ## corruption -/

/-- A declared length below 64 or above 8 MiB is an error, whatever follows. -/
theorem length_bounds (H : Bytes → Bytes) (ks : Nat → UInt8) (off : Nat) (s : Bytes) (h4 : 4 ≤ s.length)
    (hL : readLe32 (xorStream ks off (s.take 4)) < 64 ∨ readLe32 (xorStream ks off (s.take 4)) > maxLen) :
    parsePacket H ks off s = .err "invalid length of data" :=
  parse_bad_length H ks off s h4 hL

/-- Altering only checksum bytes ON THE WIRE (any number of bits, in the last 32 bytes of the frame, the rest of the
frame intact) is a checksum error — no hypothesis on `H` beyond the digest length. -/
theorem checksum_only_altered (H : Bytes → Bytes) (hH : HLen H) (ks : Nat → UInt8) (off : Nat) (p : Packet) (hp : p.WF)
    (s' rest : Bytes) (hlen : s'.length = frameLen p)
    (hsame : s'.take (36 + p.payload.length) = (wire H ks off p).take (36 + p.payload.length))
    (hne : s' ≠ wire H ks off p) :
    parsePacket H ks off (s' ++ rest) = .err "checksum error" := by
  have hml := marshal_length H hH p hp.1
  -- the plaintext under s'
  have hm : xorStream ks off s' =
      le32 (p.payload.length + 64) ++ (p.nonce ++ (p.payload ++ (xorStream ks off s').drop (36 + p.payload.length))) := by
    have h1 : (xorStream ks off s').take (36 + p.payload.length) = le32 (p.payload.length + 64) ++ (p.nonce ++ p.payload) := by
      rw [xorStream_take, hsame, ← xorStream_take, xorStream_xorStream, marshal_eq]
      rw [← List.append_assoc, ← List.append_assoc, List.take_append_of_le_length (by simp [hp.1]; omega),
        List.take_of_length_le (by simp [hp.1]; omega)]
      simp
    conv => lhs; rw [← List.take_append_drop (36 + p.payload.length) (xorStream ks off s'), h1]
    simp
  have hs' : s' = xorStream ks off (le32 (p.payload.length + 64) ++
      (p.nonce ++ (p.payload ++ (xorStream ks off s').drop (36 + p.payload.length)))) := by
    rw [← hm, xorStream_xorStream]
  rw [hs']
  apply parse_checksum_altered H ks off p hp
  · simp [hlen, frameLen]; omega
  · intro heq
    apply hne
    rw [hs', heq, wire, marshal_eq]
    rfl

/-- Altering nonce and/or payload bytes ON THE WIRE (length field and checksum bytes intact) is a checksum error,
under collision-freedom of `H` on the two messages involved (original and altered nonce ‖ payload). -/
theorem payload_or_nonce_altered (H : Bytes → Bytes) (hH : HLen H) (ks : Nat → UInt8) (off : Nat) (p : Packet)
    (hp : p.WF) (s' rest : Bytes) (hlen : s'.length = frameLen p)
    (hhead : s'.take 4 = (wire H ks off p).take 4)
    (htail : s'.drop (36 + p.payload.length) = (wire H ks off p).drop (36 + p.payload.length))
    (hne : s' ≠ wire H ks off p)
    (hcf : CollisionFree H [p.nonce ++ p.payload,
      ((xorStream ks off s').drop 4).take (32 + p.payload.length)]) :
    parsePacket H ks off (s' ++ rest) = .err "checksum error" := by
  have hml := marshal_length H hH p hp.1
  have hfl : frameLen p = 68 + p.payload.length := rfl
  generalize hm : xorStream ks off s' = m at hcf
  have hmlen : m.length = 68 + p.payload.length := by rw [← hm]; simp [hlen, hfl]
  have hs' : s' = xorStream ks off m := by rw [← hm, xorStream_xorStream]
  have h1 : m.take 4 = le32 (p.payload.length + 64) := by
    rw [← hm, xorStream_take, hhead, ← xorStream_take, xorStream_xorStream, marshal_eq,
      List.take_append_of_le_length (by simp), List.take_of_length_le (by simp)]
  have h3 : m.drop (36 + p.payload.length) = p.hash H := by
    rw [← hm, xorStream_drop _ _ _ _ (by omega), htail, ← xorStream_drop _ _ _ _ (by simp [hml, hfl]),
      xorStream_xorStream, marshal_eq]
    rw [← List.append_assoc, ← List.append_assoc, List.drop_append_of_le_length (by simp [hp.1]; omega),
      List.drop_of_length_le (by simp [hp.1]; omega)]
    rfl
  -- split m = header ++ nonce' ++ payload' ++ checksum
  have hsplit : m = le32 (p.payload.length + 64) ++ (((m.drop 4).take 32) ++
      ((((m.drop 4).drop 32).take p.payload.length) ++ p.hash H)) := by
    conv => lhs; rw [← List.take_append_drop 4 m, h1]
    congr 1
    conv => lhs; rw [← List.take_append_drop 32 (m.drop 4)]
    congr 1
    conv => lhs; rw [← List.take_append_drop p.payload.length ((m.drop 4).drop 32)]
    congr 1
    rw [List.drop_drop, List.drop_drop, ← h3]
    congr 1
    omega
  have hn' : ((m.drop 4).take 32).length = 32 := by simp [List.length_take, hmlen]; omega
  have hpl' : ((((m.drop 4).drop 32).take p.payload.length)).length = p.payload.length := by
    simp [List.length_take, hmlen]; omega
  rw [hs', hsplit]
  have key := parse_body_altered H ks off p hp ((m.drop 4).take 32) (((m.drop 4).drop 32).take p.payload.length) rest
    (hH _) hn' hpl'
  rw [hpl'] at key
  apply key
  · rintro ⟨e1, e2⟩
    apply hne
    rw [hs', hsplit, e1, e2, wire, marshal_eq]
    rfl
  · intro heq
    have hmem : (m.drop 4).take (32 + p.payload.length) =
        (m.drop 4).take 32 ++ ((m.drop 4).drop 32).take p.payload.length := by
      rw [List.take_add]
    have := hcf (p.nonce ++ p.payload) (by simp) ((m.drop 4).take (32 + p.payload.length)) (by simp)
      (by rw [hmem]; exact heq)
    rw [hmem] at this
    exact this

/-- PARSER = FRAME GRAMMAR, no assumption on `H`. `WellFormedFrame H frame p` (Lemmas/Adnl.lean) describes a frame as
the protocol does — le32 length ‖ 32-byte nonce ‖ payload ‖ H(nonce ‖ payload), the length counting nonce + payload +
hash and at most 8 MiB — without reference to the parser. For an ARBITRARY byte stream (any corruption of any region of
any frame, anything following): `ParsePacket` delivers `(q, r)` IF AND ONLY IF the stream is the encryption, at the
current keystream offset, of a well-formed frame for `q`, followed by `r`. So a corrupted stream is delivered only if
the corruption itself produced the encryption of another well-formed frame (a hash coincidence on the altered bytes),
and then exactly that frame's packet is delivered. -/
theorem delivered_iff_wellformed_frame_prefix (H : Bytes → Bytes) (ks : Nat → UInt8) (off : Nat) (s : Bytes)
    (q : Packet) (r : Bytes) :
    parsePacket H ks off s = .ok (some (q, r)) ↔
      ∃ frame, WellFormedFrame H frame q ∧ s = xorStream ks off frame ++ r :=
  parse_delivers_iff_frame H ks off s q r

/-- what is sent IS a well-formed frame (the grammar is not empty and `marshal` produces its members) -/
theorem marshal_is_wellformed (H : Bytes → Bytes) (p : Packet) (hp : p.WF) (hH : HLen H) :
    WellFormedFrame H (marshal H p) p := by
  refine ⟨H (p.nonce ++ p.payload), ?_, hp.1, hH _, hp.2, rfl⟩
  rw [marshal_eq]

/-- Nonce/payload bytes replaced (length field and checksum bytes as sent, anything following): the altered frame is
delivered IF AND ONLY IF `H` collides on the original and the altered nonce ‖ payload — and then the ALTERED packet is
what is delivered. `payload_or_nonce_altered` is the corollary under `CollisionFree` on exactly these two strings. -/
theorem altered_body_delivered_iff_collision (H : Bytes → Bytes) (hH : HLen H) (ks : Nat → UInt8) (off : Nat)
    (p : Packet) (hp : p.WF) (n' pl' rest : Bytes) (hn : n'.length = 32) (hpl : pl'.length = p.payload.length)
    (q : Packet) (r : Bytes) :
    parsePacket H ks off (xorStream ks off (le32 (pl'.length + 64) ++ (n' ++ (pl' ++ p.hash H))) ++ rest)
        = .ok (some (q, r)) ↔
      (H (p.nonce ++ p.payload) = H (n' ++ pl') ∧ q = ⟨n', pl'⟩ ∧ r = rest) :=
  parse_body_altered_iff H ks off p hp n' pl' rest (hH _) hn hpl q r

/-- Truncation: a stream cut anywhere inside a frame yields no packet for that frame and no error (the reader is
blocked in `io.ReadFull`; at end of stream Go reports EOF / unexpected EOF). -/
theorem truncation (H : Bytes → Bytes) (hH : HLen H) (ks : Nat → UInt8) (off : Nat) (p : Packet) (hp : p.WF) (k : Nat)
    (hk : k < frameLen p) :
    parsePacket H ks off ((wire H ks off p).take k) = .ok none :=
  parse_truncated H hH ks off p hp k hk

/-- Every byte string of the right length is the encryption of SOME plaintext, and a wire position differs from the
original exactly when the plaintext position does: theorems quantifying over altered plaintexts therefore cover every
alteration on the wire, bit flips included. -/
theorem wire_alteration_is_plaintext_alteration (ks : Nat → UInt8) (off : Nat) (m s' : Bytes)
    (hlen : s'.length = m.length) :
    s' = xorStream ks off (xorStream ks off s') ∧
    ∀ i (hi : i < m.length),
      (s'[i]'(by omega) = (xorStream ks off m)[i]'(by simpa using hi) ↔
        (xorStream ks off s')[i]'(by simp; omega) = m[i]) := by
  refine ⟨by simp, ?_⟩
  intro i hi
  have := xorStream_getElem_eq_iff ks off (xorStream ks off s') m i (by simp; omega) hi
  simpa using this

/-- The full-strength statement: NO alteration of a frame on the wire is ever delivered as a packet. For a real hash
this is a probabilistic fact (an altered length field re-frames the stream and the check then compares unrelated
bytes), and it is false for a badly chosen `H`; it is therefore not a theorem. The proved cases are
`length_bounds`, `checksum_only_altered`, `payload_or_nonce_altered`, `truncation`,
`corruption_never_delivered_partial_last_frame`, and the exact characterisations `delivered_iff_wellformed_frame_prefix`
(parser = frame grammar), `altered_body_delivered_iff_collision`. -/
def corruption_never_delivered (H : Bytes → Bytes) : Prop :=
  ∀ (ks : Nat → UInt8) (off : Nat) (p : Packet), p.WF → ∀ (s' rest : Bytes), s'.length = frameLen p →
    s' ≠ wire H ks off p → ∀ q r, parsePacket H ks off (s' ++ rest) ≠ .ok (some (q, r))

/-- Proved part of `corruption_never_delivered` for an altered LENGTH field of the LAST frame of a stream (nonce,
payload, checksum intact, NOTHING AFTER THE FRAME): the new length is out of bounds ⇒ error; it is larger than the
original ⇒ the reader waits for bytes that are not there and delivers nothing. When more frames follow, a larger
length makes the reader consume bytes of the next frame, and delivery then depends on a hash coincidence exactly as for a
smaller length: that general case is `delivered_iff_wellformed_frame_prefix` (an iff, no hash assumption). -/
theorem corruption_never_delivered_partial_last_frame (H : Bytes → Bytes) (hH : HLen H) (ks : Nat → UInt8) (off : Nat) (p : Packet)
    (hp : p.WF) (L : Nat) (hL32 : L < 4294967296) (hgt : L < 64 ∨ L > p.payload.length + 64) :
    ∀ q r, parsePacket H ks off (xorStream ks off (le32 L ++ (p.nonce ++ (p.payload ++ p.hash H))))
      ≠ .ok (some (q, r)) := by
  intro q r
  by_cases hb : L < 64 ∨ L > maxLen
  · rw [parse_bad_length H ks off _ (by simp) (by
      have : (xorStream ks off (le32 L ++ (p.nonce ++ (p.payload ++ p.hash H)))).take 4 = xorStream ks off (le32 L) := by
        rw [xorStream_take, List.take_append_of_le_length (by simp), List.take_of_length_le (by simp)]
      rw [this, xorStream_xorStream, readLe32_le32 hL32]; exact hb)]
    intro h; cases h
  · rw [parse_length_too_long H ks off L _ (by omega) (by omega) (by
      have : (p.hash H).length = 32 := hH _
      simp [hp.1, this]; omega)]
    intro h; cases h

/-! ## what the connection's reader keeps for itself -/

/-- `Connection.reader` forwards every received packet to `Responses()` EXCEPT the two transport-level messages of
ADNL-over-TCP: a `tcp.pong` — first four bytes 03 fb 69 dc AND exactly 12 bytes long — and a
`tcp.authentificationNonce` message (first four bytes b6 4a 5d e3). In particular a payload that merely starts with the
pong magic but has any other length, and payloads starting with the ping / query / answer magics or with the key-id
prefix, are delivered. -/
theorem only_pong_consumed (p : Bytes) :
    connReader p = .forward ↔
      ¬ ((p.length = 12 ∧ p.take 4 = [0x03, 0xfb, 0x69, 0xdc]) ∨ (4 ≤ p.length ∧ p.take 4 = [0xb6, 0x4a, 0x5d, 0xe3])) := by
  have e1 : le32 magicTcpPong = [0x03, 0xfb, 0x69, 0xdc] := by decide
  have e2 : le32 magicTcpAuthNonce = [0xb6, 0x4a, 0x5d, 0xe3] := by decide
  unfold connReader magicType
  by_cases hl : p.length < 4
  · have hne : ∀ l : Bytes, l.length = 4 → p.take 4 ≠ l := by
      intro l hl4 h
      have := congrArg List.length h
      simp [List.length_take] at this
      omega
    simp only [hl, if_true]
    have h1 : (0 : Nat) ≠ magicTcpPong := by decide
    have h2 : (0 : Nat) ≠ magicTcpAuthNonce := by decide
    simp [h1, h2, hne]
  · simp only [hl, if_false]
    obtain ⟨a, b, c, d, h4⟩ : ∃ a b c d, p.take 4 = [a, b, c, d] := by
      have hlen : (p.take 4).length = 4 := by simp [List.length_take]; omega
      match hq : p.take 4, hlen with
      | [a, b, c, d], _ => exact ⟨a, b, c, d, rfl⟩
    rw [h4]
    simp only [readLe32_four_eq_iff a b c d magicTcpPong (by decide),
      readLe32_four_eq_iff a b c d magicTcpAuthNonce (by decide), e1, e2]
    have hge : 4 ≤ p.length := by omega
    by_cases hp : [a, b, c, d] = [0x03, 0xfb, 0x69, 0xdc] ∧ p.length = 12
    · simp [hp.1, hp.2]
    · by_cases hn : [a, b, c, d] = [0xb6, 0x4a, 0x5d, 0xe3]
      · simp [hn, hge]
      · rw [if_neg hp, if_neg hn]
        simp only [true_iff, not_or, not_and]
        exact ⟨fun h12 h => hp ⟨h, h12⟩, fun _ => hn⟩

/-- … hence `Responses()` yields, in order, exactly the received packets that are not such transport messages. -/
theorem responses_are_the_rest (ps : List Packet) :
    forwarded ps = ps.filter fun q =>
      !decide ((q.payload.length = 12 ∧ q.payload.take 4 = [0x03, 0xfb, 0x69, 0xdc]) ∨
        (4 ≤ q.payload.length ∧ q.payload.take 4 = [0xb6, 0x4a, 0x5d, 0xe3])) := by
  unfold forwarded
  apply List.filter_congr
  intro q _
  have := only_pong_consumed q.payload
  by_cases h : connReader q.payload = .forward
  · simp [h, this.mp h]
  · have h' := (not_congr this).mp h
    simp only [Decidable.not_not] at h'
    simp [h, h']

/-! ## the model uses the specification's constants

`TongoModel/AdnlConstsSpec.lean` states the constants of ADNL-over-TCP independently of tongo (with the TL magics
recomputed as CRC-32 by the kernel); the translator `AdnlConsts` regenerates the literals found in the Go source into
`TongoGen/AdnlConsts.lean` with `decide`d obligations "code constant = spec constant" on every run. This theorem closes
the triangle: the hand model slices and bounds with exactly the spec's constants. -/

/-- bytes [r.1, r.2) of `p` -/
def slice (r : Nat × Nat) (p : Bytes) : Bytes := (p.drop r.1).take (r.2 - r.1)

set_option linter.unusedSimpArgs false in
theorem model_uses_spec_constants :
    (∀ p, rxKey p = slice AdnlConstsSpec.rxKey p) ∧ (∀ p, txKey p = slice AdnlConstsSpec.txKey p) ∧
    (∀ p, rxNonce p = slice AdnlConstsSpec.rxNonce p) ∧ (∀ p, txNonce p = slice AdnlConstsSpec.txNonce p) ∧
    (∀ p, padding p = slice AdnlConstsSpec.padding p) ∧
    (∀ sh h, hsKey sh h = slice AdnlConstsSpec.hsKeyFromShared sh ++ slice AdnlConstsSpec.hsKeyFromHash h) ∧
    (∀ sh h, hsIv sh h = slice AdnlConstsSpec.hsIvFromHash h ++ slice AdnlConstsSpec.hsIvFromShared sh) ∧
    (∀ ctr p, clientTx ctr p = ctr (slice AdnlConstsSpec.txKey p) (slice AdnlConstsSpec.txNonce p)) ∧
    (∀ ctr p, clientRx ctr p = ctr (slice AdnlConstsSpec.rxKey p) (slice AdnlConstsSpec.rxNonce p)) ∧
    (∀ ctr p, serverTx ctr p = clientRx ctr p) ∧ (∀ ctr p, serverRx ctr p = clientTx ctr p) ∧
    addrMagic = AdnlConstsSpec.keyIdPrefix.map UInt8.ofNat ∧
    maxLen = AdnlConstsSpec.maxLen ∧ AdnlConstsSpec.minLen = 64 ∧
    magicTcpPong = AdnlConstsSpec.magicPong ∧ magicTcpAuthNonce = AdnlConstsSpec.magicAuthNonce ∧
    (∀ p : Packet, frameLen p = 4 + AdnlConstsSpec.nonceSize + p.payload.length + AdnlConstsSpec.checksumSize) := by
  refine ⟨?_, ?_, ?_, ?_, ?_, ?_, ?_, ?_, ?_, ?_, ?_, ?_, ?_, ?_, ?_, ?_, ?_⟩ <;>
    first
    | rfl
    | (intros; rfl)
    | (intros; simp [slice, rxKey, txKey, rxNonce, txNonce, padding, hsKey, hsIv, clientTx, clientRx,
        AdnlConstsSpec.rxKey, AdnlConstsSpec.txKey, AdnlConstsSpec.rxNonce, AdnlConstsSpec.txNonce,
        AdnlConstsSpec.padding, AdnlConstsSpec.hsKeyFromShared, AdnlConstsSpec.hsKeyFromHash,
        AdnlConstsSpec.hsIvFromHash, AdnlConstsSpec.hsIvFromShared, frameLen, AdnlConstsSpec.nonceSize,
        AdnlConstsSpec.checksumSize]; try omega)

/-! ## the hypotheses are satisfiable (non-vacuity) — tests on literals, not proofs of anything general -/

/-- a toy "hash": the first 32 bytes, zero padded -/
def toyH (x : Bytes) : Bytes := (x ++ List.replicate 32 0).take 32

theorem toyH_len : HLen toyH := by intro x; simp [toyH]

/-- a toy "hash" that looks at the END of its input (so it separates messages with equal nonce and different payload) -/
def toyHrev (x : Bytes) : Bytes := (x.reverse ++ List.replicate 32 0).take 32

/-- `frame_roundtrip` instantiated: a concrete packet under a concrete keystream at offset 5, with trailing bytes -/
example :
    parsePacket toyH (fun i => UInt8.ofNat (7 * i + 1)) 5
      (wire toyH (fun i => UInt8.ofNat (7 * i + 1)) 5 ⟨List.replicate 32 7, [1, 2, 3]⟩ ++ [9, 9])
      = .ok (some (⟨List.replicate 32 7, [1, 2, 3]⟩, [9, 9])) :=
  frame_roundtrip toyH toyH_len _ 5 _ (by decide) [9, 9]

/-- `altered_body_delivered_iff_collision` instantiated with a hash that is collision-free on the two strings: the
altered frame is NOT delivered -/
example : ∀ q r,
    parsePacket toyHrev (fun i => UInt8.ofNat (7 * i + 1)) 0
      (xorStream (fun i => UInt8.ofNat (7 * i + 1)) 0
        (le32 (3 + 64) ++ (List.replicate 32 7 ++ ([1, 2, 4] ++ Packet.hash toyHrev ⟨List.replicate 32 7, [1, 2, 3]⟩))) ++ [])
      ≠ .ok (some (q, r)) := by
  intro q r h
  have := (altered_body_delivered_iff_collision toyHrev (by intro x; simp [toyHrev]) _ 0
    ⟨List.replicate 32 7, [1, 2, 3]⟩ (by decide) (List.replicate 32 7) [1, 2, 4] [] (by decide) (by decide) q r).mp h
  exact absurd this.1 (by decide)

/-- `handshake_accept_keys` instantiated with a (degenerate but lawful) toy curve: the hypotheses are satisfiable -/
example : ∃ pkt,
    clientHandshake toyH (fun _ _ i => UInt8.ofNat i) ⟨fun s => s ++ List.replicate 64 0,
        fun s => (s ++ List.replicate 32 0).take 32, fun p => some p, fun _ _ => List.replicate 32 5⟩
      [1] ((([2] : Bytes) ++ List.replicate 32 0).take 32) (List.replicate 160 3) = .ok pkt ∧ pkt.length = 256 := by
  obtain ⟨pkt, h1, h2, _⟩ := handshake_accept_keys toyH toyH_len (fun _ _ i => UInt8.ofNat i)
    ⟨fun s => s ++ List.replicate 64 0, fun s => (s ++ List.replicate 32 0).take 32, fun p => some p,
      fun _ _ => List.replicate 32 5⟩
    (by intro a b ua ub _ _; rfl) (by intro s; simp) (by intro a u; simp) [1] [2] (List.replicate 160 3)
    _ _ (by simp) rfl rfl (by decide)
  exact ⟨pkt, h1, h2⟩

example : HLen toyH := by intro x; simp [toyH]

example : CollisionFree toyH [[1, 2, 3], [1, 2, 4]] := by
  intro a ha b hb h
  simp only [List.mem_cons, List.not_mem_nil, or_false] at ha hb
  rcases ha with rfl | rfl <;> rcases hb with rfl | rfl <;> first | rfl | (exact absurd h (by decide))

example : (⟨List.replicate 32 7, [1, 2, 3]⟩ : Packet).WF := by decide

end Tongo.C11
