import TongoModel.Adnl
/-! Property C11 — placeholder, theorems follow. -/
namespace Tongo.C11
open Tongo.Adnl

/-- placeholder -/
theorem le32_length (n : Nat) : (le32 n).length = 4 := rfl

end Tongo.C11
