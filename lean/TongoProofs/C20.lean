import TongoModel.Json
import TongoGen.IntJson
import TongoProofs.Lemmas.Dec
import TongoProofs.Lemmas.Json
import TongoProofs.Lemmas.JsonValid
import TongoProofs.Lemmas.JsonMisc
import TongoProofs.Lemmas.JsonFift
import TongoProofs.Lemmas.JsonAddr
import TongoProofs.Lemmas.JsonEnvelope
import TongoProofs.C01
import TongoProofs.C07
import TongoProofs.C17
import TongoProofs.Lemmas.JsonFiftBridge
import TongoProofs.Lemmas.SourceBocPinned
/-! Property C20 — JSON forms of chain values parse back to the same value.
Property theorems only. The printers/parsers are the functions of `TongoModel/Json.lean` (tied to the Go methods by
the correspondence check and, for the ~170 generated types, by the regenerated table `TongoGen.IntJson`). -/
namespace Tongo.C20
open Tongo Tongo.Dec Tongo.Json

/-! ## numbers -/

/-- strconv.ParseUint reads back what `%d` printed, for EVERY bit size 1..64, with the exact range check: the value
when it fits in `bits` bits, a range error for every larger literal. -/
theorem decimal_roundtrip_unsigned (bits : Nat) (h1 : 1 ≤ bits) (h64 : bits ≤ 64) (v : Nat) :
    parseUint (printNat v) 10 bits = if v < 2 ^ bits then .ok v else .range :=
  parseUint_printNatB 10 bits (by omega) (by omega) h1 h64 v

/-- strconv.ParseInt reads back what `%d` printed, for every bit size 1..64: every value of the two's-complement
range `-2^(bits-1) ≤ v < 2^(bits-1)` (negatives included) -/
theorem decimal_roundtrip_signed (bits : Nat) (h1 : 1 ≤ bits) (h64 : bits ≤ 64) (v : Int)
    (hlo : -(2 ^ (bits - 1) : Int) ≤ v) (hhi : v < (2 ^ (bits - 1) : Int)) :
    parseInt (printInt v) 10 bits = .ok v :=
  parseInt_printInt_in_range bits h1 h64 v hlo hhi

/-- …and every literal outside that range is an error, for bit sizes 2..64 -/
theorem decimal_signed_out_of_range (bits : Nat) (h2 : 2 ≤ bits) (h64 : bits ≤ 64) (v : Int)
    (h : ¬ (-(2 ^ (bits - 1) : Int) ≤ v ∧ v < (2 ^ (bits - 1) : Int))) :
    parseInt (printInt v) 10 bits = .err "range" :=
  parseInt_printInt_out_of_range bits h2 h64 v h

/-- the full-strength statement "out-of-range literals are errors for EVERY bit size" is false for bit size 1
(tlb.Int1): strconv.ParseInt(s, 10, 1) maps every literal below −1 to −1 without an error — a quirk of Go's
standard library that the model reproduces (the values −1 and 0 of Int1 still round-trip) -/
def DecimalSignedOutOfRangeAllWidths : Prop :=
  ∀ bits, 1 ≤ bits → bits ≤ 64 → ∀ v : Int, ¬ (-(2 ^ (bits - 1) : Int) ≤ v ∧ v < (2 ^ (bits - 1) : Int)) →
    parseInt (printInt v) 10 bits = .err "range"

theorem decimal_signed_bits1_quirk : ¬ DecimalSignedOutOfRangeAllWidths := by
  intro h
  have h1 := h 1 (by omega) (by omega) (-5) (by decide)
  rw [parseInt_bits1_quirk (-5) (by decide)] at h1
  cases h1

/-- generated `UintN` (N = 1..64, quoted from 57 bits on): every value of the N-bit domain parses back -/
theorem json_roundtrip_uintN (bits : Nat) (h1 : 1 ≤ bits) (h64 : bits ≤ 64) (v : Nat) (hv : v < 2 ^ bits) :
    parseUintN bits (printUintN bits v) = .ok v := by
  have key : parseUintN bits (printNat v) = .ok v ∧ parseUintN bits (quote (printNat v)) = .ok v := by
    unfold parseUintN
    rw [trimQuote_quote _ (printNat_no v '"' (by decide)),
      show trimQuote (printNat v) = printNat v from trimSet_id _ _ (by
        intro c hc
        have h := printNat_no v '"' (by decide) c hc
        have h1 : (c == '"') = false := by simpa using h
        simp [List.contains, List.elem, h1]),
      decimal_roundtrip_unsigned bits h1 h64 v]
    simp [hv, NumRes.toOutcome]
  unfold printUintN
  split
  · exact key.2
  · exact key.1

/-- a literal outside the N-bit range is rejected (so a wrong bit size in a generated method is observable) -/
theorem json_uintN_out_of_range (bits : Nat) (h1 : 1 ≤ bits) (h64 : bits ≤ 64) (v : Nat) (hv : 2 ^ bits ≤ v) :
    parseUintN bits (printUintN bits v) = .err "range" := by
  have key : parseUintN bits (printNat v) = .err "range" ∧ parseUintN bits (quote (printNat v)) = .err "range" := by
    unfold parseUintN
    rw [trimQuote_quote _ (printNat_no v '"' (by decide)),
      show trimQuote (printNat v) = printNat v from trimSet_id _ _ (by
        intro c hc
        have h := printNat_no v '"' (by decide) c hc
        have h1 : (c == '"') = false := by simpa using h
        simp [List.contains, List.elem, h1]),
      decimal_roundtrip_unsigned bits h1 h64 v]
    have : ¬ v < 2 ^ bits := by omega
    simp [this, NumRes.toOutcome]
  unfold printUintN
  split
  · exact key.2
  · exact key.1

/-- generated `IntN` (N = 1..64): every value of the N-bit two's-complement domain (negatives included) parses back -/
theorem json_roundtrip_intN (bits : Nat) (h1 : 1 ≤ bits) (h64 : bits ≤ 64) (v : Int)
    (hlo : -(2 ^ (bits - 1) : Int) ≤ v) (hhi : v < (2 ^ (bits - 1) : Int)) :
    parseIntN bits (printIntN bits v) = .ok v := by
  have hq : ∀ c ∈ printInt v, c ≠ '"' := printInt_no v '"' (by decide) (by decide)
  have key : parseIntN bits (printInt v) = parseInt (printInt v) 10 bits ∧
      parseIntN bits (quote (printInt v)) = parseInt (printInt v) 10 bits := by
    unfold parseIntN
    rw [trimQuote_quote _ hq,
      show trimQuote (printInt v) = printInt v from trimSet_id _ _ (by
        intro c hc
        have h1 : (c == '"') = false := by simpa using hq c hc
        simp [List.contains, List.elem, h1])]
    exact ⟨rfl, rfl⟩
  unfold printIntN
  split
  · rw [key.2]; exact decimal_roundtrip_signed bits h1 h64 v hlo hhi
  · rw [key.1]; exact decimal_roundtrip_signed bits h1 h64 v hlo hhi

/-- big.Int based types (Uint128 … Int257, VarUInteger n): every integer, of any size and sign, parses back -/
theorem json_roundtrip_big (v : Int) : parseBigJson (printBig v) = .ok v := by
  unfold parseBigJson printBig
  rw [trimQuote_quote _ (printInt_no v '"' (by decide) (by decide))]
  exact parseBig_printInt v

/-! ## the generated types, through the table regenerated from tlb/integers.go -/

/-- For EVERY type listed by the translator (all generated integer types with JSON methods): its JSON bit size,
parse function and quoting — as read from the Go source — are those of the model printer/parser for the width in
its name, hence its whole N-bit domain round-trips. (`table_wf` is re-decided on every run.) -/
theorem generated_uint_types_roundtrip :
    ∀ e ∈ TongoGen.IntJson.table, e.family = .uint →
      e.parseCode = 1 ∧ e.base = 10 ∧ e.trimOK = true ∧ e.fmtCode = (if quotedWidth e.nameWidth then 1 else 0) ∧
      ∀ v, v < 2 ^ e.nameWidth → parseUintN e.bitSize (printUintN e.nameWidth v) = .ok v := by
  intro e he hf
  have hwf := List.all_eq_true.mp TongoGen.IntJson.table_wf e he
  simp only [GenType.wf, hf, Bool.and_eq_true, beq_iff_eq, decide_eq_true_eq] at hwf
  obtain ⟨ht, ⟨⟨⟨⟨⟨⟨h1, h2⟩, h3⟩, h4⟩, h5⟩, h6⟩, h7⟩⟩ := hwf
  refine ⟨h2, h3, ht, h1, ?_⟩
  intro v hv
  rw [h4]
  exact json_roundtrip_uintN e.nameWidth h5 (by omega) v hv

theorem generated_int_types_roundtrip :
    ∀ e ∈ TongoGen.IntJson.table, e.family = .int →
      e.parseCode = 2 ∧ e.base = 10 ∧ e.trimOK = true ∧ e.fmtCode = (if quotedWidth e.nameWidth then 1 else 0) ∧
      ∀ v : Int, -(2 ^ (e.nameWidth - 1) : Int) ≤ v → v < (2 ^ (e.nameWidth - 1) : Int) →
        parseIntN e.bitSize (printIntN e.nameWidth v) = .ok v := by
  intro e he hf
  have hwf := List.all_eq_true.mp TongoGen.IntJson.table_wf e he
  simp only [GenType.wf, hf, Bool.and_eq_true, beq_iff_eq, decide_eq_true_eq] at hwf
  obtain ⟨ht, ⟨⟨⟨⟨⟨⟨h1, h2⟩, h3⟩, h4⟩, h5⟩, h6⟩, h7⟩⟩ := hwf
  refine ⟨h2, h3, ht, h1, ?_⟩
  intro v hlo hhi
  rw [h4]
  exact json_roundtrip_intN e.nameWidth h5 (by omega) v hlo hhi

/-- the big.Int based generated types (Uint128 … Int257, VarUInteger 1..32): `"%s"` of i.String() printed, parsed by
big.Int.SetString(Trim, 10) — the model's printBig / parseBigJson, which round-trip for every integer -/
theorem generated_big_types_roundtrip :
    ∀ e ∈ TongoGen.IntJson.table, e.family = .big →
      e.fmtCode = 2 ∧ e.parseCode = 3 ∧ e.base = 10 ∧ e.trimOK = true ∧ ∀ v : Int, parseBigJson (printBig v) = .ok v := by
  intro e he hf
  have hwf := List.all_eq_true.mp TongoGen.IntJson.table_wf e he
  simp only [GenType.wf, hf, Bool.and_eq_true, beq_iff_eq] at hwf
  obtain ⟨ht, ⟨⟨h1, h2⟩, h3⟩⟩ := hwf
  exact ⟨h1, h2, h3, ht, json_roundtrip_big⟩

/-- the table covers every width 1..64 in both signednesses (no generated type escapes the obligation) -/
theorem generated_widths_complete :
    ∀ w, 1 ≤ w → w ≤ 64 →
      (TongoGen.IntJson.table.any fun e => e.family == .uint && e.nameWidth == w) = true ∧
      (TongoGen.IntJson.table.any fun e => e.family == .int && e.nameWidth == w) = true := by
  intro w h1 h64
  have : ∀ w : Fin 65, 1 ≤ w.val →
      (TongoGen.IntJson.table.any fun e => e.family == .uint && e.nameWidth == w.val) = true ∧
      (TongoGen.IntJson.table.any fun e => e.family == .int && e.nameWidth == w.val) = true := by decide
  exact this ⟨w, by omega⟩ h1

/-! ## byte arrays -/

/-- `BitsN` ([n]byte, `"%x"` / hex.DecodeString + length check): every n-byte value parses back -/
theorem json_roundtrip_bitsN (n : Nat) (bs : List UInt8) (h : bs.length = n) :
    parseBitsN n (printBitsN bs) = .ok bs := by
  unfold parseBitsN printBitsN
  rw [trimQuote_quote _ (fun c hc => lowerHex_ne c '"' (hexLower_chars bs c hc) (by decide)), decodeChars_hexLower]
  simp [h]

/-- hex with a wrong length is rejected -/
theorem json_bitsN_wrong_length (n : Nat) (bs : List UInt8) (h : bs.length ≠ n) :
    parseBitsN n (printBitsN bs) = .err "length" := by
  unfold parseBitsN printBitsN
  rw [trimQuote_quote _ (fun c hc => lowerHex_ne c '"' (hexLower_chars bs c hc) (by decide)), decodeChars_hexLower]
  simp [h]

/-- the byte-array generated types (Bits80 … Bits512): `"%x"` printed, hex.DecodeString(Trim) parsed, and the length
check is the one of the type's name — every value of that length round-trips -/
theorem generated_bits_types_roundtrip :
    ∀ e ∈ TongoGen.IntJson.table, e.family = .bits →
      e.fmtCode = 3 ∧ e.parseCode = 4 ∧ e.trimOK = true ∧ e.bitSize = e.nameWidth ∧ e.nameWidth = 8 * e.kindWidth ∧
      ∀ bs : List UInt8, bs.length = e.kindWidth → parseBitsN e.kindWidth (printBitsN bs) = .ok bs := by
  intro e he hf
  have hwf := List.all_eq_true.mp TongoGen.IntJson.table_wf e he
  simp only [GenType.wf, hf, Bool.and_eq_true, beq_iff_eq] at hwf
  obtain ⟨ht, ⟨⟨⟨h1, h2⟩, h3⟩, h4⟩⟩ := hwf
  exact ⟨h1, h2, ht, h3, h4, fun bs hb => json_roundtrip_bitsN _ bs hb⟩

/-- ton.Bits256 (`"%x"` / `fmt.Fscanf("\"%x\"")`): every 32-byte value parses back -/
theorem json_roundtrip_bits256 (bs : List UInt8) (h : bs.length = 32) :
    parseBits256Scan (printBitsN bs) = .ok bs :=
  parseBits256Scan_print bs h

/-- tl.Int256 (json string of hex): every 32-byte value parses back -/
theorem json_roundtrip_int256 (bs : List UInt8) (h : bs.length = 32) :
    parseInt256 (printInt256 bs) = .ok bs :=
  parseInt256_print bs h

/-! ## coins, magic, optionals -/

/-- Grams (uint64, always quoted) -/
theorem json_roundtrip_grams (v : Nat) (hv : v < 2 ^ 64) : parseGrams (printGrams v) = .ok v := by
  unfold parseGrams printGrams trimCoins
  rw [trimSet_quote _ (by decide) _ (coinChars_printNat v), decimal_roundtrip_unsigned 64 (by omega) (by omega) v]
  rw [if_pos hv]
  rfl

/-- SignedCoins after the repair (`strconv.ParseInt`): every int64 amount, negative ones included, parses back -/
theorem json_roundtrip_signedcoins (v : Int) (hlo : -(2 ^ 63 : Int) ≤ v) (hhi : v < (2 ^ 63 : Int)) :
    parseSignedCoins (printSignedCoins v) = .ok v := by
  unfold parseSignedCoins printSignedCoins trimCoins
  rw [trimSet_quote _ (by decide) _ (coinChars_printInt v)]
  exact decimal_roundtrip_signed 64 (by omega) (by omega) v (by simpa using hlo) (by simpa using hhi)

/-- Defect #14, as shipped (`strconv.ParseUint`): the property is FALSE — the printer's own output for −1 is
rejected. Replayed on the Go code by `go.json.rt scoins -1` (corpus/C20/defects.ops); repaired by the `fix:` commit. -/
theorem signedcoins_shipped_not_roundtrip :
    parseSignedCoinsShipped (printSignedCoins (-1)) ≠ .ok (-1) := by
  rw [signedCoinsShipped_neg (-1) (by decide)]
  intro h; cases h

/-- …and with `ParseUint` NO negative amount could parse back -/
theorem signedcoins_shipped_rejects_negatives (v : Int) (hv : v < 0) :
    parseSignedCoinsShipped (printSignedCoins v) = .err "parse" :=
  signedCoinsShipped_neg v hv

/-- Magic (uint32, `"0x…"`) -/
theorem json_roundtrip_magic (v : Nat) (hv : v < 2 ^ 32) : parseMagic (printMagic v) = .ok v :=
  parseMagic_print v hv

/-- Maybe[T]: `null` for the absent value; a present value round-trips whenever T's own form does, is valid JSON
and is not the literal `null` (true of every family above, see the instances below) -/
theorem json_roundtrip_maybe {α} (pr : α → Str) (pa : Str → Outcome α) (m : Option α)
    (hrt : ∀ v, pa (pr v) = .ok v) (hvalid : ∀ v, valid (pr v) = true) (hws : ∀ v, trimWs (pr v) = pr v)
    (hnull : ∀ v, pr v ≠ nullLit) :
    parseMaybe pa (printMaybe pr m) = .ok m := by
  cases m with
  | none => simp [printMaybe, parseMaybe]
  | some v => simp [printMaybe, parseMaybe, hnull v, hvalid v, hws v, hrt v]

/-- non-vacuity of `json_roundtrip_maybe`: Maybe[Grams] with a present value -/
example : parseMaybe parseGrams (printMaybe printGrams (some 1000000000)) = .ok (some 1000000000) := by
  simp only [printMaybe, parseMaybe, valid_printGrams, printGrams, trimWs_quote]
  have hq : quote (printNat 1000000000) ≠ nullLit := by simp [quote, nullLit]
  simp only [hq, if_false, Bool.not_true, Bool.false_eq_true]
  rw [show quote (printNat 1000000000) = printGrams 1000000000 from rfl, json_roundtrip_grams _ (by omega)]
  simp [valid_printGrams]

/-- Maybe of a COMPOSITE record (tlb.Maybe[tlb.Anycast]: no JSON methods of its own, encoding/json's struct codec
`{"Depth":d,"RewritePfx":p}`): absent and present values round-trip — an instance of `json_roundtrip_maybe` whose
four hypotheses are theorems here -/
theorem json_roundtrip_maybe_anycast (m : Option Anycast) (h : ∀ a, m = some a → a.depth < 2 ^ 32 ∧ a.pfx < 2 ^ 32) :
    parseMaybe parseAnycastJson (printMaybe printAnycastJson m) = .ok m := by
  cases m with
  | none => simp [printMaybe, parseMaybe]
  | some a =>
    obtain ⟨hd, hp⟩ := h a rfl
    simp [printMaybe, parseMaybe, printAnycastJson_ne_null a, valid_printAnycastJson a, trimWs_printAnycastJson a,
      parseAnycastJson_print a hd hp]

/-! ## bit strings and message addresses -/

/-- boc.BitString (Fift hex): every bit string of any length parses back -/
theorem json_roundtrip_bitstring (b : List Bool) : parseBitString (printBitString b) = .ok b :=
  parseBitString_print b

/-- MsgAddress: every address of the property's domain `AddrDomain` (TongoProofs/Lemmas/JsonAddr.lean: anycast fields
uint32, std workchain int8 with 32 address bytes, var workchain int32; excluded: the zero-length addr_extern — defect
#15 below — and the var address whose text is identical to a standard one, 256 bits in an 8-bit workchain)
— all four kinds, with and without anycast, any workchain, any address length — parses back -/
theorem msgaddress_json_roundtrip (a : MsgAddr) (h : AddrDomain a) : parseMsgAddr (printMsgAddr a) = .ok a :=
  parseMsgAddr_print a h

/-- the hypotheses are satisfiable by non-trivial values -/
example : AddrDomain (.var (some ⟨30, 5⟩) (-2147483648) [true, false, true]) := by
  refine ⟨?_, by decide, by decide, by decide⟩
  intro a h; cases h; decide

/-- Defect #15 (known finding): a zero-length addr_extern prints `""` and parses back as addr_none. Replayed on the Go
code by the corpus line `go.json.rt addr ext/‑` (zero bits). -/
theorem msgaddress_extern_empty_not_roundtrip :
    parseMsgAddr (printMsgAddr (.extern [])) = .ok .none ∧ (MsgAddr.none ≠ .extern []) := by decide

set_option maxRecDepth 8192 in
/-- the excluded look-alike really is ambiguous: a 256-bit addr_var in workchain 0 reads back as addr_std -/
theorem msgaddress_var_lookalike (b : List Bool) (hb : b = List.replicate 256 false) :
    ∃ addr, parseMsgAddr (printMsgAddr (.var none 0 b)) = .ok (.std none 0 addr) := by
  subst hb
  have e : toFift (List.replicate 256 false) = hexLower (List.replicate 32 0) := by decide
  refine ⟨List.replicate 32 0, ?_⟩
  unfold printMsgAddr
  rw [parseMsgAddr_parts 0 _ (toFift_no _ ':' (by decide) (by decide)) (toFift_no _ '"' (by decide) (by decide)) none
    (by intro a h; cases h), e]
  exact parseAddrBody_std none 0 _ (by decide) (by decide) rfl

/-- **The look-alike exclusion is exactly the ambiguous case.** EVERY variable address of exactly 256 bits in a
workchain that fits int8 (any anycast, any bits) — the complement of the last clause of `AddrDomain` within the other
clauses — is printed as a text that the parser reads back as a STANDARD address, so it does not round-trip; together
with `msgaddress_json_roundtrip` (every address of `AddrDomain` round-trips): a well-ranged variable address
round-trips if and only if it is not a look-alike. -/
theorem msgaddress_var_lookalike_all (any : Option Anycast) (wc : Int) (b : List Bool)
    (hany : ∀ a, any = some a → a.depth < 2 ^ 32 ∧ a.pfx < 2 ^ 32) (hlo : -128 ≤ wc) (hhi : wc ≤ 127)
    (hb : b.length = 256) :
    (∃ addr, parseMsgAddr (printMsgAddr (.var any wc b)) = .ok (.std any wc addr)) ∧
      parseMsgAddr (printMsgAddr (.var any wc b)) ≠ .ok (.var any wc b) := by
  have h : ∃ addr, parseMsgAddr (printMsgAddr (.var any wc b)) = .ok (.std any wc addr) := by
    unfold printMsgAddr
    rw [parseMsgAddr_parts wc _ (toFift_no _ ':' (by decide) (by decide)) (toFift_no _ '"' (by decide) (by decide)) any
      hany]
    exact parseAddrBody_lookalike any wc b hlo hhi hb
  refine ⟨h, ?_⟩
  obtain ⟨addr, e⟩ := h
  rw [e]
  intro hc
  injection hc with hc
  cases hc

/-! ## wrappers around codecs owned by other slices -/

/-- boc.Cell / tlb.Any (`"` + BOC hex + `"`, parsed after Trim): the JSON form round-trips whenever the inner text
codec does (C01 for BOC hex — hypothesis `hrt`, exercised on the Go side by `go.json.rt cell …`) and its text
contains no quote character -/
theorem json_roundtrip_wrapped {α} (toText : α → Str) (ofText : Str → Outcome α) (v : α)
    (hrt : ofText (toText v) = .ok v) (hq : ∀ c ∈ toText v, c ≠ '"') :
    parseTrimmed ofText (printWrapped toText v) = .ok v := by
  unfold parseTrimmed printWrapped
  rw [trimQuote_quote _ hq, hrt]

/-- ton.AccountID (json.Marshal of the raw form, json.Unmarshal into a string, then the address parser): round-trips
whenever the raw-form parser does (C17, hypothesis `hrt`) and the raw form is ASCII text that needs no JSON escapes -/
theorem json_roundtrip_via_string {α} (toText : α → Str) (ofText : Str → Outcome α) (v : α)
    (hrt : ofText (toText v) = .ok v) (hs : ∀ c ∈ toText v, isSafe c = true) (ha : ∀ c ∈ toText v, isAscii c = true) :
    parseViaString ofText (printWrapped toText v) = .ok v := by
  unfold parseViaString printWrapped
  rw [unmarshalString_quote _ hs ha]
  exact hrt

/-! ## cells and message-body envelopes -/

/-- boc.Cell / tlb.Any for an ALREADY ORDERED table (the header arithmetic only; the whole writer is `json_roundtrip_cell_go_writer` below): `"` + hex
of what serializeBoc's header arithmetic writes for `(t, [root])` parses back (Trim, hex.DecodeString, DeserializeBoc,
one root) to exactly that table and root. `hv`: the table is a valid layout; `hn`/`hlen`: size limits of the format. -/
theorem json_roundtrip_cell (t : Table) (root : Nat) (hv : Boc.ValidLayout t [root]) (hn : t.size < 16777216)
    (hlen : (Boc.Writer.serializeOrdered t [root] false false false []).length < Boc.two63) :
    parseCellJson (printCellJsonOrdered t root) = .ok (t, root) := by
  have hroot : root < t.size := hv.1.2.1 root (by simp)
  unfold parseCellJson printCellJsonOrdered
  rw [trimQuote_quote _ (fun c hc => lowerHex_ne c '"' (hexLower_chars _ c hc) (by decide)), decodeChars_hexLower]
  simp only []
  rw [C01.roundtrip t [root] false false false [] hv hn (by simp) (by simp; omega) hlen]

/-- Cell.MarshalJSON succeeds on every valid presentation `(t, root)` of a cell (C01 `order_valid`): the writer's
ordering returns some `o` and the printer some text — the `o` and `txt` of `json_roundtrip_cell_go_writer`. -/
theorem json_cell_go_writer_succeeds {K : Type} [BEq K] [Hashable K] [LawfulBEq K] (t : Table) (root : Nat)
    (key : Nat → Option K) (hv : Boc.ValidLayout t [root]) (hk : Boc.Order.KeyInjOn t key) :
    ∃ (o : Boc.Order.Ordered) (txt : Str), Boc.Order.orderWith t key Boc.Order.goSpecial [root] = .ok o ∧
      printCellJsonGo t key root = .ok txt := by
  obtain ⟨o, bs, ho, hser⟩ := SourceBoc.writer_total t root key false false false hv hk
  exact ⟨o, quote (hexLower bs), ho, by simp [printCellJsonGo, hser, Outcome.bind]⟩

/-- **boc.Cell / tlb.Any through the whole Go writer.** Stated for THE order `o` that the model of
importCell/reorderCells/revisit returns (`hord`) and THE text that Cell.MarshalJSON returns (`hprint`) — no existential
witness for the table, no guard inside the conclusion: Cell.UnmarshalJSON of that text returns exactly the writer's
table `o.table` and its one root `r`, and that root unfolds to the SAME tree `c` the input root unfolds to. Premises:
`hk` — the writer's de-duplication key (hex representation hash) identifies the sub-cells (no hash collision inside
this one cell); `hsize` — the size limit of the format as a condition on the INPUT cell: fewer than 2²⁴ structurally
distinct sub-cells (implied by `t.size < 2²⁴`, `SourceBoc.subCellsBelow_of_size`). That the text fits a Go slice is
derived. Built from C01's pieces in `Lemmas/SourceBocPinned.lean`. -/
theorem json_roundtrip_cell_go_writer {K : Type} [BEq K] [Hashable K] [LawfulBEq K] (t : Table) (root : Nat)
    (key : Nat → Option K) (hv : Boc.ValidLayout t [root]) (hk : Boc.Order.KeyInjOn t key)
    (c : Cell) (hc : Table.unfold t (t.size + 1) root = some c) (hsize : SourceBoc.SubCellsBelow c 16777216)
    (o : Boc.Order.Ordered) (txt : Str)
    (hord : Boc.Order.orderWith t key Boc.Order.goSpecial [root] = .ok o)
    (hprint : printCellJsonGo t key root = .ok txt) :
    ∃ r, o.roots = [r] ∧ parseCellJson txt = .ok (o.table, r) ∧
      Table.unfold o.table (o.table.size + 1) r = some c := by
  unfold printCellJsonGo at hprint
  cases hser : Boc.Order.serializeBocModel t key [root] false false false with
  | err e => rw [hser] at hprint; cases hprint
  | panic e => rw [hser] at hprint; cases hprint
  | ok bs =>
    rw [hser] at hprint
    simp only [Outcome.bind] at hprint
    injection hprint with htxt
    subst htxt
    obtain ⟨hparse, _, _, r, hr, _, hru⟩ :=
      SourceBoc.writer_pinned t root key false false false hv hk c hc hsize o bs hord hser
    refine ⟨r, hr, ?_, hru⟩
    unfold parseCellJson
    rw [trimQuote_quote _ (fun c hc => lowerHex_ne c '"' (hexLower_chars _ c hc) (by decide)), decodeChars_hexLower]
    simp only []
    rw [hparse, hr]

/-- Regression for AUDIT2 B2. The previous statement could be proved from "the printer returned some text" alone by
choosing a witness table padded to 2²⁴ rows (the parse clause and the unfold equality both sat under the guard
`o.table.size < 2²⁴`). Now nothing is chosen and nothing is guarded: under the same hypotheses the writer's table has
fewer than 2²⁴ rows, and whatever Cell.UnmarshalJSON is claimed to return for the text IS the writer's table and root —
so the claim is false for every padded table. -/
example {K : Type} [BEq K] [Hashable K] [LawfulBEq K] (t : Table) (root : Nat)
    (key : Nat → Option K) (hv : Boc.ValidLayout t [root]) (hk : Boc.Order.KeyInjOn t key)
    (c : Cell) (hc : Table.unfold t (t.size + 1) root = some c) (hsize : SourceBoc.SubCellsBelow c 16777216)
    (o : Boc.Order.Ordered) (txt : Str)
    (hord : Boc.Order.orderWith t key Boc.Order.goSpecial [root] = .ok o)
    (hprint : printCellJsonGo t key root = .ok txt) :
    (∀ (t' : Table) (r' : Nat), parseCellJson txt = .ok (t', r') → t' = o.table ∧ o.roots = [r']) ∧
    (∀ (F : Table) (r' : Nat), 16777216 ≤ F.size → parseCellJson txt ≠ .ok (F, r')) := by
  obtain ⟨r, hr, hp, hru⟩ := json_roundtrip_cell_go_writer t root key hv hk c hc hsize o txt hord hprint
  have hn : o.table.size < 16777216 := by
    obtain ⟨l, hl, hmem⟩ := hsize
    obtain ⟨o', ho', hval⟩ := Boc.Order.orderWith_valid t [root] key Boc.Order.goSpecial hv hk
    rw [hord] at ho'; injection ho' with e; subst e
    exact Nat.lt_of_le_of_lt (SourceBoc.ordered_size_le t root o hv hval c hc l hmem) hl
  refine ⟨?_, ?_⟩
  · intro t' r' h'
    rw [hp] at h'
    injection h' with e
    injection e with e1 e2
    exact ⟨e1.symm, by rw [hr, e2]⟩
  · intro F r' hF h'
    rw [hp] at h'
    injection h' with e
    injection e with e1 _
    rw [← e1] at hF
    omega

/-- ton.AccountID: its JSON form (json.Marshal of the raw form / json.Unmarshal into a string, then ParseAccountID) is
modelled byte-wise by the addr slice; the concrete round trip is C17 `json_roundtrip`, re-stated here so that the
type is covered by a theorem of this property (`json_roundtrip_via_string` is the generic wrapper form) -/
theorem json_roundtrip_accountid (a : Address.AccountID) (h : a.WF) : Address.fromJSON (Address.toJSON a) = .ok a :=
  C17.json_roundtrip a h

/-- abi.InMsgBody / abi.ExtOutMsgBody: the empty body -/
theorem json_roundtrip_envelope_empty {C V} (pc : C → Str) (pk : V → Str) (parseCell : Str → Outcome C)
    (parseKnown : Str → Option (Str → Outcome V)) :
    parseEnvelope parseCell parseKnown (printEnvelope pc pk (.empty none)) = .ok (.empty none) :=
  parseEnvelope_empty parseCell parseKnown

/-- …the "Unknown" body (a cell) with or without op code: round-trips whenever the cell's own JSON form does
(`hcell`, e.g. `json_roundtrip_cell`) and is a value text (a quoted string is: `valueText_quote`) -/
theorem json_roundtrip_envelope_unknown {C V} (pc : C → Str) (pk : V → Str) (parseCell : Str → Outcome C)
    (parseKnown : Str → Option (Str → Outcome V)) (op : Option Nat) (c : C)
    (hop : ∀ n, op = some n → n < 2 ^ 32) (hvt : ValueText (pc c)) (hcell : parseCell (pc c) = .ok c) :
    parseEnvelope parseCell parseKnown (printEnvelope pc pk (.unknown op c)) = .ok (.unknown op c) := by
  unfold parseEnvelope printEnvelope
  rw [unmarshalEnvelope_envText unknownName (by decide) (by decide) op hop (pc c) hvt]
  simp [Outcome.bind, unknownName, hcell]

/-- …a registered body type `name` (not empty, not "Unknown", plain ASCII): round-trips whenever the type's own
JSON does (`hk`) and is a value text (`hvt`: true of every valid JSON value, assumed here for the composite records,
whose struct-level JSON is not modelled) -/
theorem json_roundtrip_envelope_known {C V} (pc : C → Str) (pk : V → Str) (parseCell : Str → Outcome C)
    (parseKnown : Str → Option (Str → Outcome V)) (name : Str) (op : Option Nat) (v : V) (dec : Str → Outcome V)
    (hs : ∀ c ∈ name, isSafe c = true) (ha : ∀ c ∈ name, isAscii c = true) (hne : name ≠ []) (hnu : name ≠ unknownName)
    (hop : ∀ n, op = some n → n < 2 ^ 32) (hvt : ValueText (pk v)) (hreg : parseKnown name = some dec)
    (hk : dec (pk v) = .ok v) :
    parseEnvelope parseCell parseKnown (printEnvelope pc pk (.known name op v)) = .ok (.known name op v) := by
  unfold parseEnvelope printEnvelope
  rw [unmarshalEnvelope_envText name hs ha op hop (pk v) hvt]
  simp [Outcome.bind, hne, hnu, hreg, hk]

/-- `json_roundtrip_envelope_known` INSTANTIATED on a body type whose JSON is modelled — the composite record
tlb.Anycast through encoding/json's struct codec, standing for a registered body type `name` (the real registered
types are larger records of the same kind; their struct-level JSON is not modelled): all hypotheses of the wrapper
theorem are discharged. -/
theorem json_roundtrip_envelope_known_record {C} (pc : C → Str) (parseCell : Str → Outcome C)
    (parseKnown : Str → Option (Str → Outcome Anycast)) (name : Str) (op : Option Nat) (a : Anycast)
    (hs : ∀ c ∈ name, isSafe c = true) (has : ∀ c ∈ name, isAscii c = true) (hne : name ≠ []) (hnu : name ≠ unknownName)
    (hop : ∀ n, op = some n → n < 2 ^ 32) (hreg : parseKnown name = some parseAnycastJson)
    (hd : a.depth < 2 ^ 32) (hp : a.pfx < 2 ^ 32) :
    parseEnvelope parseCell parseKnown (printEnvelope pc printAnycastJson (.known name op a)) = .ok (.known name op a) :=
  json_roundtrip_envelope_known pc printAnycastJson parseCell parseKnown name op a parseAnycastJson hs has hne hnu hop
    (valueText_printAnycastJson a) hreg (parseAnycastJson_print a hd hp)

/-- the two models of Fift hex agree: the printer / parser used by the JSON forms of BitString and MsgAddress are the
specification functions against which C06 proves the byte-level `ToFiftHex` / `BitStringFromFiftHex`
(`C06.toFiftHex_spec`, `C06.fifthex_parse_spec`); in particular the `panic "index out of range"` branch of `fromFift`
is unreachable -/
theorem fift_models_agree (l : List Bool) (s : List Char) :
    toFift l = BitString.fiftSpec l ∧
    fromFift s = (match BitString.fiftParse s with | some l => .ok l | none => .err "invalid hex") :=
  ⟨toFift_eq_fiftSpec l, fromFift_eq_fiftParse s⟩

/-- the "Unknown" body with the cell codec of the BOC model, end to end -/
theorem json_roundtrip_unknown_body_cell {V} (pk : V → Str) (parseKnown : Str → Option (Str → Outcome V))
    (op : Option Nat) (hop : ∀ n, op = some n → n < 2 ^ 32)
    (t : Table) (root : Nat) (hv : Boc.ValidLayout t [root]) (hn : t.size < 16777216)
    (hlen : (Boc.Writer.serializeOrdered t [root] false false false []).length < Boc.two63) :
    parseEnvelope parseCellJson parseKnown
      (printEnvelope (fun (x : Table × Nat) => printCellJsonOrdered x.1 x.2) pk (.unknown op (t, root))) =
      .ok (.unknown op (t, root)) :=
  json_roundtrip_envelope_unknown _ pk parseCellJson parseKnown op (t, root) hop
    (valueText_quote _ (hexLower_safe _)) (json_roundtrip_cell t root hv hn hlen)

/-- the envelope printer emits valid JSON (given that the embedded value text is one) -/
theorem json_valid_envelope {C V} (pc : C → Str) (pk : V → Str) (b : Body C V)
    (hname : ∀ n op v, b = .known n op v → ∀ c ∈ n, isSafe c = true)
    (hc : ∀ op c, b = .unknown op c → ValueText (pc c)) (hk : ∀ n op v, b = .known n op v → ValueText (pk v)) :
    valid (printEnvelope pc pk b) = true := by
  cases b with
  | empty op => exact valid_empty_object
  | unknown op c => exact envText_valid unknownName (by decide) op _ (hc op c rfl)
  | known n op v => exact envText_valid n (hname n op v rfl) op _ (hk n op v rfl)

/-- Cell.UnmarshalJSON never panics on a document that is a Go slice (C07 `parse_total` for the BOC bytes) -/
theorem json_parse_total_cell (p : Str) (hp : p.length < Boc.two63) : (parseCellJson p).isPanic = false := by
  unfold parseCellJson
  split
  · rfl
  · rename_i bytes hb
    have h1 := decodeChars_length _ bytes hb
    have h2 := trimSet_length_le ['"'] p
    have hlen : bytes.length < Boc.two63 := by unfold trimQuote at h1; omega
    have := C07.parse_total bytes hlen
    split
    · rfl
    · rfl
    · rfl
    · rename_i e he; exact absurd he (this e)

/-- the envelope parser never panics when the codecs it dispatches to do not -/
theorem json_parse_total_envelope {C V} (parseCell : Str → Outcome C) (parseKnown : Str → Option (Str → Outcome V))
    (p : Str) (hc : ∀ q, (parseCell q).isPanic = false)
    (hk : ∀ n f, parseKnown n = some f → ∀ q, (f q).isPanic = false) :
    (parseEnvelope parseCell parseKnown p).isPanic = false :=
  parseEnvelope_total parseCell parseKnown p hc hk

/-! ## validity of the emitted JSON, totality of the parsers -/

/-- every printer's output passes encoding/json's syntax scan (`valid` = the transcribed scanner, compared with
json.Valid on every generated document): numbers without leading zeros, strings over alphabets that need no escape,
or `null` -/
theorem json_valid :
    (∀ bits v, valid (printUintN bits v) = true) ∧ (∀ bits v, valid (printIntN bits v) = true) ∧
    (∀ v, valid (printBig v) = true) ∧ (∀ bs, valid (printBitsN bs) = true) ∧ (∀ bs, valid (printInt256 bs) = true) ∧
    (∀ v, valid (printGrams v) = true) ∧ (∀ v, valid (printSignedCoins v) = true) ∧ (∀ v, valid (printMagic v) = true) ∧
    (∀ b, valid (printBitString b) = true) ∧ (∀ a, valid (printMsgAddr a) = true) ∧
    (∀ {α} (pr : α → Str) (m : Option α), (∀ v, valid (pr v) = true) → valid (printMaybe pr m) = true) :=
  ⟨valid_printUintN, valid_printIntN, valid_printBig, valid_printBitsN, valid_printBitsN, valid_printGrams,
   valid_printSignedCoins, valid_printMagic, valid_printBitString, valid_printMsgAddr, valid_printMaybe⟩

/-- no parser panics, whatever bytes it is given. MOSTLY BY CONSTRUCTION, faithfully to Go: the parsers of the integer
families, big integers, BitsN, ton.Bits256, tl.Int256, Grams, SignedCoins, Magic and Maybe have no panic point in
the Go code (strconv, hex, fmt scanning and encoding/json return errors) and none in the model — their conjuncts hold
because no path constructs `panic`. The conjuncts with content are `parseBitString` / `parseMsgAddr`: the index
`hexRepr[len-2:]` in the Fift suffix lookup and the slice `parts[2][8:len-1]` of the Anycast branch are explicit panic
points of the model, shown unreachable (`fromFift_total`, `goSlice_anycast`); Cell/Any: `json_parse_total_cell` (C07);
envelopes: `json_parse_total_envelope`; ton.AccountID malformed input: direct oracle only. -/
theorem json_parse_total (p : Str) :
    (∀ bits, (parseUintN bits p).isPanic = false) ∧ (∀ bits, (parseIntN bits p).isPanic = false) ∧
    (parseBigJson p).isPanic = false ∧ (∀ n, (parseBitsN n p).isPanic = false) ∧
    (parseBits256Scan p).isPanic = false ∧ (parseInt256 p).isPanic = false ∧ (parseGrams p).isPanic = false ∧
    (parseSignedCoins p).isPanic = false ∧ (parseMagic p).isPanic = false ∧ (parseBitString p).isPanic = false ∧
    (parseMsgAddr p).isPanic = false ∧
    (∀ {α} (pa : Str → Outcome α), (∀ q, (pa q).isPanic = false) → (parseMaybe pa p).isPanic = false) :=
  ⟨fun b => total_parseUintN b p, fun b => total_parseIntN b p, total_parseBigJson p, fun n => total_parseBitsN n p,
   total_parseBits256Scan p, total_parseInt256 p, total_parseGrams p, total_parseSignedCoins p, total_parseMagic p,
   total_parseBitString p, total_parseMsgAddr p, fun pa h => total_parseMaybe pa p h⟩

end Tongo.C20
