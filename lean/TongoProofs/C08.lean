import TongoProofs.Lemmas.TlDecode
import TongoProofs.Lemmas.Helpers08
import TongoProofs.Lemmas.TlbRead
import TongoProofs.Lemmas.TlbSnakeCost
import TongoProofs.Lemmas.TlbDecTotal
import TongoProofs.Lemmas.TlbAlloc
import TongoProofs.Lemmas.BitsBridgeRd
/-! Property C08 — TL-B and TL decoders are total on untrusted input: value or error, never a panic, no allocation or
time out of proportion to the input. Property theorems only; lemmas live in `TongoProofs/Lemmas`.

`TlD.Cfg.fixed` / `fixed = true` is the repaired code (what the current source is compared with on every run);
`TlD.Cfg.orig` / `fixed = false` is the code as found, kept so that each defect is a theorem with a witness. -/
namespace Tongo.C08
open Tongo.TlD Tongo.Helpers

/-! ## TL: generic decoder and generated UnmarshalTL -/

/-- For every type descriptor (generic kinds, generated structs with mode-conditional fields, sum types, pointer
fields, unsupported kinds) and every byte string, the repaired decoder returns a value or an error — never a panic. -/
theorem tl_decode_total (ty : Ty) (bs : List UInt8) : (run Cfg.fixed ty bs).1.isPanic = false :=
  decode_np ty ⟨bs, 0, 0⟩

/-- The partial operations of the TL model are live: `chunk[:k]` beyond the chunk (tl/decoder.go:153) and
`reflect.MakeSlice` with a negative capacity (:275) panic. `tl_decode_total` has to PROVE they are not reached: the
loop condition `len(data) < n` and the clamp keep `k = min(n - len(data), len(chunk))` within the chunk; the capacity
`min(count, 256)` of an unsigned count is not negative. (`binary.LittleEndian.Uint32` on the constant-length buffers of
the decoder cannot panic in Go and is total in the model.) -/
theorem tl_partial_ops_live :
    (sliceTo 4096 4097 ⟨[], 0, 0⟩).1.isPanic = true ∧ (sliceTo 4096 (-1) ⟨[], 0, 0⟩).1.isPanic = true ∧
    (makeSliceCap (-1) 8 ⟨[], 0, 0⟩).1.isPanic = true := by decide

/-- DEFECT (repaired by 730d89f, replayed with GOARCH=386): where `int` has 32 bits the vector count `ff ff ff ff` is
`-1` as an `int`, the capacity handed to `reflect.MakeSlice` is negative and the decoder panics; with 64-bit `int` the
same code does not (`tl_decode_int32_only`). The package `tl` builds for 32-bit targets (liteclient does not). -/
theorem tl_decode_int32_count_panics :
    (run Cfg.int32 (.vec 4 .int4) [0xff, 0xff, 0xff, 0xff]).1.isPanic = true := by decide

theorem tl_decode_int32_only :
    (run Cfg.fixed (.vec 4 .int4) [0xff, 0xff, 0xff, 0xff]).1.isPanic = false ∧
    (run Cfg.int32 (.vec 4 .int4) [0xff, 0xff, 0xff, 0x7f]).1.isPanic = false := by decide

/-- The repaired decoder requests at most `allocA ty` bytes per input byte plus `allocB ty` (constants computed from the
descriptor: element sizes and the two preallocation caps), whatever the outcome. `ty.wf`: every vector element type
consumes at least one byte when it decodes (true of every shipped type; checked per descriptor on every run). -/
theorem tl_decode_alloc (ty : Ty) (hwf : ty.wf = true) (bs : List UInt8) :
    (run Cfg.fixed ty bs).2.alloc ≤ ty.allocA * bs.length + ty.allocB := by
  have h := (decode_spec ty hwf ty.allocA ty.stepK (Nat.le_refl _) (Nat.le_refl _) ⟨bs, 0, 0⟩).2.2.2.1
  have : 0 ≤ ty.allocA * (run Cfg.fixed ty bs).2.rest.length := Nat.zero_le _
  simp only [run] at *
  omega

/-- … and it takes at most `stepK ty` steps per input byte plus `stepS ty` (steps: decoder calls, loop iterations,
read calls and bytes copied). -/
theorem tl_decode_steps (ty : Ty) (hwf : ty.wf = true) (bs : List UInt8) :
    (run Cfg.fixed ty bs).2.steps ≤ ty.stepK * bs.length + ty.stepS := by
  have h := (decode_spec ty hwf ty.allocA ty.stepK (Nat.le_refl _) (Nat.le_refl _) ⟨bs, 0, 0⟩).2.2.2.2
  simp only [run] at *
  omega

/-- A successful decode was paid for by input: no additive constant at all. -/
theorem tl_decode_alloc_ok (ty : Ty) (hwf : ty.wf = true) (bs : List UInt8)
    (hok : (run Cfg.fixed ty bs).1.isOk = true) : (run Cfg.fixed ty bs).2.alloc ≤ ty.allocA * bs.length := by
  have h := ((decode_spec ty hwf ty.allocA ty.stepK (Nat.le_refl _) (Nat.le_refl _) ⟨bs, 0, 0⟩).2.2.1 hok).2
  simp only [run] at *
  omega

/-- the budget the Go-side oracle enforces on measured `runtime.MemStats.TotalAlloc` -/
def budget (bs : List UInt8) : Nat := 64 * bs.length + 2 ^ 20

/-- DEFECT (code as found, design §9 #6): `readByteSlice` allocates what a 3-byte length prefix announces before any
data is read — four input bytes request 16 MiB. Replayed on Go by the `go.tl.alloc` oracle. -/
theorem tl_alloc_orig_bytes_violates :
    budget [0xfe, 0xff, 0xff, 0xff] < (run Cfg.orig .bytes [0xfe, 0xff, 0xff, 0xff]).2.alloc := by decide

/-- DEFECT (code as found, #6): `decodeVector` gives `reflect.MakeSlice` the 32-bit wire count — four input bytes
request 2³²−1 elements (a fatal out-of-memory for any element type wider than a few bytes). -/
theorem tl_alloc_orig_vector_violates :
    budget [0xff, 0xff, 0xff, 0xff] < (run Cfg.orig (.vec 32 .int256) [0xff, 0xff, 0xff, 0xff]).2.alloc := by decide

/-- the same two inputs on the repaired decoder stay within a few KiB -/
theorem tl_alloc_fixed_witnesses :
    (run Cfg.fixed .bytes [0xfe, 0xff, 0xff, 0xff]).2.alloc ≤ 4096 ∧
    (run Cfg.fixed (.vec 32 .int256) [0xff, 0xff, 0xff, 0xff]).2.alloc ≤ 257 * 32 := by decide

/-- DEFECT (code as found): the generic decoder panics on a struct with a pointer-typed field (`val.Elem()` of a nil
pointer is the zero Value). No shipped TL type reaches this (generated code assigns optional pointers itself); user
types decoded through `tl.Unmarshal` do. -/
theorem tl_decode_orig_panics_on_pointer_field :
    (run Cfg.orig (.struct (.cons none false (.ptr .int4) .nil)) [1, 0, 0, 0]).1.isPanic = true := by decide

/-- Why `wf` is needed for the step bound: a vector of zero-width elements spins for as many iterations as its 4-byte
count says without reading anything — up to 2³²−1 iterations for four bytes of input. No shipped TL type has
zero-width vector elements (checked per descriptor on every run); recorded as a limit, not repaired. -/
theorem tl_steps_zero_width_elements (b0 b1 b2 b3 : UInt8) :
    2 * TlD.le [b0, b1, b2, b3] ≤ (run Cfg.fixed (.vec 0 (.struct .nil)) [b0, b1, b2, b3]).2.steps :=
  zero_width_steps b0 b1 b2 b3

/-- non-vacuity: a shipped shape (liteServer.transactionId: mode, three optional fields) is well formed -/
example : (Ty.vec 72 (.struct (.cons none true .int4 (.cons (some 0) false .int256 (.cons (some 1) false .int8
    (.cons (some 2) false .int256 .nil)))))).wf = true := by decide

/-! ## helpers on network data -/

/-- `decodeLength`, `processQueryAnswer`, the tag/body split of every generated client method and
`LiteapiRequestDecoder` never panic, whatever bytes arrive (the explicit `panic` in decodeLength is unreachable). -/
theorem helpers_total (b : List UInt8) (known : Bool) (lookup : Nat → Option Ty) :
    (TlD.decodeLength b).isPanic = false ∧ (TlD.processQueryAnswer b known).isPanic = false ∧
    (TlD.respTag b).isPanic = false ∧ (TlD.liteapiRequestDecoder Cfg.fixed lookup b).isPanic = false :=
  ⟨decodeLength_np b, processQueryAnswer_np b known, respTag_np b, liteapiRequestDecoder_np lookup b⟩

/-- `processQueryAnswer` hands out exactly the announced number of bytes, all taken from the payload -/
theorem processQueryAnswer_length (p : List UInt8) (d : List UInt8)
    (h : TlD.processQueryAnswer p true = .ok d) : d.length + 37 ≤ p.length :=
  processQueryAnswer_len p d h

/-- On the guard abstraction of Helpers08.lean (lengths as `Nat`, the content is `i < n` before `a[i]`):
`VmStack.Unmarshal` (`s[i]` behind the `NumField() > len(s)` guard) and `decodeAccountDataFromProof` (`cells[1]`,
`values[i]` for `i` found in `keys`) never index out of range. HYPOTHESIS `hkv`: the dictionary decoder returned at least
as many values as keys — `Hashmap.mapInner` appends one value and then one key per leaf and fails as a whole on any
error (tlb/hashmap.go:341,353); that is read off the code and exercised by `go.proof`, it is not a theorem. Without it
the helper does panic (`accountFromProof_needs_parallel_slices`). -/
theorem index_helpers_total (numField len nRoots nKeys nValues hit : Nat) (hkv : nKeys ≤ nValues) :
    (vmStackUnmarshal numField len).isPanic = false ∧ (accountFromProof nRoots nKeys nValues hit).isPanic = false :=
  ⟨vmStackUnmarshal_np numField len, accountFromProof_np nRoots nKeys nValues hit hkv⟩

theorem accountFromProof_needs_parallel_slices : (accountFromProof 2 3 2 2).isPanic = true := by decide

/-- DEFECT (code as found, #16): `GetTransactions` indexes `r.Ids[i]` for every root cell of `r.Transactions`; a server
answering with more transactions than block ids makes the client panic. -/
theorem getTransactions_orig_panics : (getTransactions false 0 1 (fun _ => true)).isPanic = true := by decide

/-- repaired (on the guard abstraction of Helpers08.lean: lengths as `Nat`, the loop and its index expression; what the
lengths are lengths of is tied by the `h.*` / `go.net.gettx` lines): a length mismatch is an error; otherwise every
index is in range -/
theorem getTransactions_total (nIds nCells : Nat) (cellOk : Nat → Bool) :
    (getTransactions true nIds nCells cellOk).isPanic = false := getTransactions_np nIds nCells cellOk

/-- DEFECT (code as found, #16): a bag of cells with an empty root list parses without error, `cell[0]` then panics in
`code.ParseContractMethods` and `tlb.VmStack.UnmarshalTL`. Witness on Go: `b5ee9c7201020000000000`. -/
theorem firstRoot_orig_panics : (firstRoot false 0).isPanic = true := by decide

/-- repaired, on the guard abstraction: an empty root list is an error before `cell[0]` -/
theorem firstRoot_total (nRoots : Nat) : (firstRoot true nRoots).isPanic = false := by
  unfold firstRoot
  by_cases h : nRoots = 0
  · simp [h, Outcome.isPanic]
  · rw [if_neg (by simp [h]), index_ok (by omega)]; rfl

/-- `VmCellSlice.Cell()` is total on every value produced by `VmCellSlice.UnmarshalTLB` (its four checks are exactly
what the conversion needs) … -/
theorem vmCellSlice_decoded_total (s : VmCellSlice) (h : s.decoded = true) (h4 : ∀ b r, s.cell = some (b, r) → r ≤ 4) :
    s.toCell.isPanic = false := vmCellSlice_np s h h4

/-- … and panics on the zero value (explicit panics / nil dereference: documented, reachable only through the next
defect or from hand-built values). -/
theorem vmCellSlice_zero_panics : (VmCellSlice.toCell ⟨none, 0, 0, 0, 0⟩).isPanic = true := by decide

/-- DEFECT (code as found): `VmStkTuple.Unmarshal` into a struct calls a value-receiver method on the nil `Data` of an
empty tuple. -/
theorem tuple_orig_nil_panics : (tupleUnmarshalStruct false 0 .nil 0).isPanic = true := by decide

/-- repaired, on the guard abstraction (tuple shape and lengths; the values are opaque): tuple → struct conversion never
panics; `RecursiveToSlice(depth)` returns exactly `depth` values or an
error, so `values[i]` is in range -/
theorem tuple_total (len : Nat) (data : Tuple) (numField : Nat) :
    (tupleUnmarshalStruct true len data numField).isPanic = false := tupleUnmarshalStruct_np len data numField

/-! ## TL-B: cell-reading primitives and the hand-written decoders driven by untrusted data

Element decoders (values, keys, top-of-stack values) are parameters assumed not to panic: the reflection-driven
generic decoder over all shipped types has no theorem; it is covered by the fault-injection oracles of the harness. -/

/-! NOTE on `…_by_construction`: after the readers were repaired (negative widths are errors) the ideal-level models of
these decoders contain no operation that can panic except through their parameters; their no-panic clause is a fact
about the SHAPE of the model, not a discharged obligation. What has content: `hashmap_total` (the key read back must fit
a cell: `boc.NewCellWithBits` panics beyond 1023 bits), the data / copy-count clauses of `snake_steps`, the allocation
theorems `tlb_custom_alloc` and the witnesses of the quadratic decoders, and — at the level of real bit buffers — agent
bits' refinement theorems (C06). The fault-injection oracles carry the no-panic claim for these decoders. -/

open Tongo.Tlb in
/-- The reading primitives return a value or an error on every cell content as long as the requested width / count is
not negative; `ReadLimUint` and `ReadUnary`, `ReadBit`, `NextRef` on every argument at all. -/
theorem tlb_prims_total_by_construction (r : Rd) (n : Int) (hn : 0 ≤ n) (m : Int) :
    (readBit r).isPanic = false ∧ (nextRef r).isPanic = false ∧ (readUnary r).isPanic = false ∧
    (readUint n r).isPanic = false ∧ (readBits n r).isPanic = false ∧ (skip n r).isPanic = false ∧
    (readLimUint m r).isPanic = false :=
  ⟨readBit_np r, nextRef_np r, readUnary_np r, readUint_np n hn r, readBits_np n hn r, skip_np n hn r,
    readLimUint_np m r⟩

/-- a negative width is an ERROR of the repaired readers (repo fix 31abce9; it reached slicing before) -/
theorem tlb_prims_negative_width_is_error : (Tlb.readUint (-8) ⟨[], []⟩).isErr = true :=
  Tlb.readUint_negative_is_error

/-- The ideal-level reader `Tlb.Rd` of TlbRead.lean REFINES property C06's byte-level model of the repaired
`boc.BitString` for EVERY width, negative included (agent bits' bridge `BitsBridgeRd`; its hypothesis — a negative
count is `ErrNegativeBitLen`, checked first — is discharged here against the current TlbRead.lean): `readUint`,
`readBits`, `skip` return the same value, the same rest and the same error as `ZOp.spec`, which C06.zop_refines ties to
the byte buffer that is compared with Go on every run. -/
theorem tlb_prims_refine_bitstring :
    Tongo.Bridge.RdReadUintFull ∧ Tongo.Bridge.RdReadBitsFull ∧ Tongo.Bridge.RdSkipFull :=
  ⟨Tongo.Bridge.rd_readUint_full (by intro n r hn; simp [Tlb.readUint, hn]; rfl),
   Tongo.Bridge.rd_readBits_full (by intro n r hn; simp [Tlb.readBits, hn]; rfl),
   Tongo.Bridge.rd_skip_full (by intro n r hn; simp [Tlb.skip, hn]; rfl)⟩

/-- `loadLabel` / `loadLabelSize` never panic: for every claimed remaining key size (a Go int, negative included —
`ReadLimUint` then reads 64 bits and `int(ln)` may wrap), every cell content, key prefix and key capacity. The
`hml_same` loop is bounded by the key capacity, not by the 64-bit count read from the cell. -/
theorem label_total_by_construction (size : Int) (r : Tlb.Rd) (key : List Bool) (cap : Nat) :
    (Tlb.loadLabel size r key cap).isPanic = false ∧ (Tlb.loadLabelSize size r).isPanic = false :=
  ⟨Tlb.loadLabel_np size r key cap, Tlb.loadLabelSize_np size r⟩

/-- `Hashmap.mapInner` (also HashmapE / HashmapAug / ChunkedData through it): no panic on any cell tree — short
cells, missing references, pruned branches anywhere — and at most one visit per cell of the unfolded tree.
`keySize ≤ 1023`: the key type fits a cell (true of every `FixedSize()` in the library). -/
theorem hashmap_total (leaf : Tlb.Rd → Outcome Unit) (hleaf : ∀ r, (leaf r).isPanic = false) (keySize : Nat)
    (hk : keySize ≤ 1023) (c : Cell) (left : Int) (pfx : List Bool) :
    (Tlb.mapInner leaf keySize c left pfx).1.isPanic = false ∧
    (Tlb.mapInner leaf keySize c left pfx).2 ≤ Tlb.cellCount c :=
  ⟨Tlb.mapInner_np leaf hleaf keySize hk c left pfx, Tlb.mapInner_steps leaf keySize c left pfx⟩

/-- `countLeafs` (hashmapAugExtraCountLeafs): no panic for ANY key sizes — `leftKeySize - (1 + size)` may go negative
when a label is longer than the remaining key (nothing bounds the unary length here), and nothing breaks — and at
most one visit per cell. -/
theorem countLeafs_total_by_construction (keySize : Int) (c : Cell) (left : Int) :
    (Tlb.countLeafs keySize c left).1.isPanic = false ∧ (Tlb.countLeafs keySize c left).2 ≤ Tlb.cellCount c :=
  Tlb.countLeafs_spec keySize c left

/-- SnakeData (Bytes, Text, FixedLengthText's neighbours, ChunkedData chunks): both decoders are total, visit each cell
of the chain once and return the same data; the repaired decoder copies every bit below the root exactly once. -/
theorem snake_steps (c : Cell) : Tlb.SnakeSpec c := Tlb.snake_spec c

/-- DEFECT (code as found): on a chain of `d + 1` cells with `b` bits each the decoder copied `b · d(d+1)/2` bits —
quadratic in the input (measured on Go: 1000 full cells 4 s, 10000 cells 7 min). Replayed by the `chain` stream. -/
theorem snake_orig_quadratic (b d : Nat) :
    ∃ k, (Tlb.snake true (Tlb.chain b d)).1 = .ok (List.replicate ((d + 1) * b) true, k) ∧ 2 * k = b * d * (d + 1) :=
  Tlb.snakeOrig_chain b d

/-- `BinTree` (decodeRecursiveBinTree): total, one visit per cell. -/
theorem binTree_total_by_construction (c : Cell) : (Tlb.binTree c).1.isPanic = false ∧ (Tlb.binTree c).2 ≤ Tlb.cellCount c :=
  Tlb.binTree_spec c

/-- `VmStack` (getStackListItems): total whatever 24-bit depth the cell announces — the recursion is bounded by the
cells that exist, one visit per cell. -/
theorem vmStackList_total_by_construction (tos : Tlb.Rd → Outcome Unit) (htos : ∀ r, (tos r).isPanic = false) (c : Cell) (depth : Nat) :
    (Tlb.stackList tos c depth).1.isPanic = false ∧ (Tlb.stackList tos c depth).2 ≤ Tlb.cellCount c :=
  Tlb.stackList_spec tos htos c depth

/-- `Maybe`, `Either`, `Ref` on cells lacking bits or references, with a pruned branch or a library cell (no resolver)
where an ordinary cell is expected: value or error. -/
theorem maybe_either_ref_total_by_construction (inner other : Tlb.Rd → Outcome Tlb.Rd) (h1 : ∀ r, (inner r).isPanic = false)
    (h2 : ∀ r, (other r).isPanic = false) (r : Tlb.Rd) :
    (Tlb.maybe inner r).isPanic = false ∧ (Tlb.either inner other r).isPanic = false ∧
    (Tlb.ref inner r).isPanic = false :=
  ⟨Tlb.maybe_np inner h1 r, Tlb.either_np inner other h1 h2 r, Tlb.ref_np inner h1 r⟩

/-- non-vacuity of the parameter hypotheses: a value decoder that reads a 32-bit integer never panics -/
example : ∀ r : Tlb.Rd, ((Tlb.readUint 32 r).bind fun _ => Outcome.ok ()).isPanic = false := by
  intro r
  have := Tlb.readUint_np 32 (by decide) r
  cases h : Tlb.readUint 32 r <;> simp_all [Outcome.bind, Outcome.isPanic]

/-! ## TL-B: allocation of the modelled hand-written decoders -/

/-- Allocation in proportion to the cells of the unfolded tree, for the repaired decoders:
the VM stack list requests at most two slice elements per cell WHATEVER 24-bit depth the cell announces; BinTree
appends at most one pointer per cell; SnakeData copies every bit below the root exactly once (so at most the data it
returns); the hashmap walk visits every cell at most once (its allocation per visit is constant: two key-prefix copies
of `keySize` bits, one key cell, one append — read off the code, not modelled separately). -/
theorem tlb_custom_alloc (tos : Cell → Bool) (c : Cell) (depth : Nat) :
    (Tlb.stackFixed tos c depth).2 ≤ 2 * Tlb.cellCount c ∧
    (Tlb.binFixed c).2 ≤ Tlb.cellCount c ∧
    (∀ d k, (Tlb.snake false c).1 = .ok (d, k) → k ≤ d.length) := by
  refine ⟨Tlb.stackFixed_alloc tos c depth, Tlb.binFixed_alloc c, ?_⟩
  intro d k h
  -- the repaired decoder agrees with the original on the data and copies d.length - |root bits| bits
  have hs := Tlb.snake_spec c
  obtain ⟨h1, h2, _, _, _, h6, h7⟩ := hs
  cases ho : (Tlb.snake true c).1 with
  | ok v =>
    obtain ⟨d', k'⟩ := v
    obtain ⟨hf, _, _⟩ := h6 d' k' ho
    rw [hf] at h
    simp only [Outcome.ok.injEq, Prod.mk.injEq] at h
    obtain ⟨rfl, rfl⟩ := h
    omega
  | err e => rw [h7 e ho] at h; cases h
  | panic p => rw [ho] at h1; simp [Outcome.isPanic] at h1

/-- DEFECT (code as found, repo fix 7c8a920): `getStackListItems` copied the decoded rest of the list at every level —
`d(d+1)/2` element copies for a stack of depth `d` (measured on Go: depth 8000, about 100 KB of cells, 9.7 GB / 7 s).
Replayed by the `go.tlb.deep vmstack` oracle. -/
theorem vmstack_orig_quadratic (d : Nat) :
    ∃ a, Tlb.stackCopy (fun _ => true) (Tlb.stackChain d) d = (.ok d, a) ∧ 2 * a = d * (d + 1) :=
  Tlb.stackCopy_chain d

/-- The shape of seeded defect C08-3 (`make([]VmStackValue, 0, depth)` with the depth from the wire): ONE cell that
announces depth `D` requests `D` elements — no bound in the cells of the input. The repaired decoder sizes its slice by
the cells it has actually found (`tlb_custom_alloc`). -/
theorem vmstack_prealloc_violates (D : Nat) (hD : 0 < D) :
    (Tlb.stackPrealloc (fun _ => true) (.mk 0 0 [] []) D).2 = D ∧ Tlb.cellCount (.mk 0 0 [] []) = 1 :=
  Tlb.stackPrealloc_witness D hD

/-- DEFECT (code as found, repo fix f3accb8): `decodeRecursiveBinTree` returned a slice per subtree and appended it in
the parent — `(d² + 5d + 2)/2` pointer copies on a comb of depth `d` (measured: 32001 cells, 1 GB). Replayed by
`go.tlb.deep bintree`. -/
theorem bintree_orig_quadratic (d : Nat) :
    ∃ a, Tlb.binCopy (Tlb.comb d) = (.ok (d + 1), a) ∧ 2 * a = d * d + 5 * d + 2 :=
  Tlb.binCopy_comb d

/-! ## TL-B: the reflection-driven generic decoder (agent tlb's model `Tongo.Tlb.decode`, tied to tlb/decoder.go by C03)

In that model no path constructs a panic; what the model does NOT share with Go is its fuel: where the model answers
`.err "fuel"` for every fuel, the Go decoder recurses until the stack overflows. The theorems below are about THAT
partiality: for a productive type environment (decidable check `prodb`: every named type only re-enters, before
anything is consumed, named types of smaller rank) the decoder — on every descriptor, every cell tree, exotic cells,
pruned branches and short cells included — answers with a value or a genuine error within an explicit fuel that is
linear in the weight of the input, and an unproductive environment diverges. -/

open Tongo.Tlb Tongo.Tlb.Total in
/-- For every productive environment, EVERY descriptor `T` (in the environment or not) and EVERY slice: with
`need` fuel or more the decoder does not panic, does not run out of fuel (the Go recursion terminates), and what is
left to read weighs no more than before. -/
theorem tlb_decode_total (l : List Tlb.Ty) (rks : List Nat) (hp : prodb l rks = true) (T : Tlb.Ty) (s : Slice) (fuel : Nat)
    (hf : need (constsOf l rks) (rkOf rks) T s ≤ fuel) :
    (decode (envOfList l) fuel T s).isPanic = false ∧ fuelOut (decode (envOfList l) fuel T s) = false ∧
    ∀ v s', decode (envOfList l) fuel T s = .ok (v, s') → weight s' ≤ weight s :=
  decode_total_of_prod l rks hp T s fuel hf

open Tongo.Tlb Tongo.Tlb.Total in
/-- The recursion depth (= the fuel that suffices) is linear in the number of cells of the unfolded tree when cells
hold at most 1023 bits: `need ≤ 1024·C·cells + R·D + depth(T)` with `C = (R+2)·D+2`, `D` the deepest body of the
environment, `R` the number of ranks. This is a bound on the DEPTH of the decoder's recursion (every re-entry of a named
type has consumed a bit or a reference, descended into a referenced cell, or lowered the rank); a bound on its TOTAL
work needs an instrumented decoder and is not proved — the fault-injection oracles measure time against a deadline
proportional to the unfolded tree instead. -/
theorem tlb_decode_steps (l : List Tlb.Ty) (rks : List Nat) (T : Tlb.Ty) (c : Cell) (hb : boundedBits c = true) :
    need (constsOf l rks) (rkOf rks) T (Slice.ofCell c) ≤
      1024 * cells c * (constsOf l rks).C + (constsOf l rks).R * (constsOf l rks).D + tdepth T := by
  have h1 := cellWeight_le_cells c hb
  have h2 : rkOf rks 0 ≤ listMax rks := rkOf_le rks 0
  have h3 : rk0 (rkOf rks) T ≤ (constsOf l rks).R := by
    refine Nat.le_trans (rk0_le (rkOf rks) (listMax rks) (rkOf_le rks) T) ?_
    simp only [constsOf]; omega
  have h4 := Nat.mul_le_mul_right (constsOf l rks).D h3
  have h5 := Nat.mul_le_mul_right (constsOf l rks).C (show cellWeight c ≤ 1024 * cells c by omega)
  simp only [need, weight_ofCell]
  omega

open Tongo.Tlb Tongo.Tlb.Total in
/-- An unproductive type — `type T struct { X *T }`, the shape of the exported helper tlb.HashMapAugExtraList[T] — is
out of fuel for EVERY fuel on every (non-library) cell: the known fatal stack overflow of the Go decoder, as a
theorem; and the productivity check rejects it for every choice of ranks. -/
theorem tlb_decode_unproductive_diverges (s : Slice) (hl : s.isLibrary = false) (fuel : Nat) (rks : List Nat) :
    fuelOut (decode (envOfList [selfPtr]) fuel (.named 0) s) = true ∧ prodb [selfPtr] rks = false :=
  ⟨(selfPtr_diverges s hl fuel).1, selfPtr_unproductive rks⟩

open Tongo.Tlb Tongo.Tlb.Total in
/-- Every hand-written decoder agent tlb models as a `Prim` (Unary, Any, VarUInteger, big integers, Grams,
SignedCoins, SnakeData, Bytes, Text, FixedLengthText, Anycast, MsgAddress, AccountStatus, AccStatusChange,
ComputeSkipReason, VmCellSlice, wallet.PayloadV1toV4, wallet.W5Actions): value or genuine error on every slice, their
internal loops have enough fuel, and they only consume. -/
theorem tlb_prim_decoders_total (p : Prim) (s : Slice) :
    (Prim.dec p s).isPanic = false ∧ fuelOut (Prim.dec p s) = false ∧
    ∀ v s', Prim.dec p s = .ok (v, s') → weight s' ≤ weight s :=
  good_primDec p s (Nat.le_refl _)

end Tongo.C08
