import TongoModel.CellHashSpec
/-! Property C02 — known-answer vectors for the SPECIFICATION (`Spec.hashAt`/`depthAt`, TongoModel/CellHashSpec.lean)
with the real SHA-256 of TongoModel/Prim/Sha256.lean, evaluated by the Lean KERNEL (`decide +kernel`): these are tests
on literals, not proofs of anything general; they pin the byte-level formulas of the specification (descriptor bytes,
completion tag, depth byte order, stored hashes of pruned branches, level shift under Merkle cells) to values produced
by TON nodes:
* the empty cell (the well-known hash 96a296d2…cfc7);
* cells of the block in boc/testdata/deserialize-block-2.json, whose per-level hashes and depths in that file come from
  the reference implementation: an ordinary cell with bits and two refs, a level-1 cell over a pruned branch, a pruned
  branch at all four levels;
* a real Merkle proof (lite-server answer ton/testdata/get-last-config-all-2.bin): the level-0 hash and depth of the
  proof's child — a level-1 block cell containing pruned branches of masks 1 and 3 and a Merkle update of mask 1 — equal
  the hash (the block's root hash) and depth stored in the Merkle-proof cell by the node;
* the real state update of tlb/testdata/block-4/block.bin: the level-0 hashes/depths of both children of the Merkle
  update cell equal what the cell stores.
The cells are literals generated from the canonical tables of those files (harness dump). -/
open Tongo
namespace Tongo.C02Kat
/-- the first `n` bits of a byte string -/
def bitsOf (n : Nat) (bytes : List UInt8) : List Bool :=
  (bytes.flatMap fun b => (List.range 8).map fun i => b.toNat.testBit (7 - i)).take n
def katOrd2 : Cell := .mk 0 0 (bitsOf 83 [190, 0, 0, 3, 188, 179, 85, 171, 70, 106, 192]) []
def katOrd1 : Cell := .mk 0 0 (bitsOf 83 [191, 255, 255, 255, 188, 189, 14, 253, 165, 99, 192]) []
/-- a 2-bit cell with two 83-bit children, from the block of boc/testdata/deserialize-block-2.json -/
def katOrd0 : Cell := .mk 0 0 (bitsOf 2 [0]) [katOrd2, katOrd1]
def katLvl2 : Cell := .mk 1 1 (bitsOf 288 [1, 1, 75, 147, 82, 152, 141, 164, 22, 56, 166, 139, 197, 165, 156, 32, 150, 204, 186, 21, 16, 87, 231, 157, 198, 79, 255, 49, 137, 110, 71, 193, 103, 37, 0, 4]) []
def katLvl1 : Cell := .mk 0 0 (bitsOf 680 [208, 0, 0, 79, 10, 252, 150, 171, 136, 0, 0, 39, 133, 126, 75, 85, 196, 2, 21, 169, 144, 181, 46, 43, 12, 211, 91, 186, 60, 79, 171, 12, 123, 75, 89, 15, 236, 44, 86, 128, 108, 113, 26, 190, 203, 233, 111, 24, 68, 37, 212, 10, 226, 228, 160, 10, 226, 21, 19, 13, 64, 32, 131, 63, 67, 245, 253, 205, 45, 39, 37, 116, 159, 80, 124, 160, 112, 94, 174, 231, 157, 175, 174, 85, 44]) []
/-- a level-1 ordinary cell over a leaf and a pruned branch, same block -/
def katLvl0 : Cell := .mk 0 1 (bitsOf 71 [96, 0, 0, 79, 10, 252, 150, 171, 136]) [katLvl2, katLvl1]
/-- a real pruned branch, same block -/
def katPruned0 : Cell := .mk 1 1 (bitsOf 288 [1, 1, 47, 20, 106, 224, 20, 140, 92, 99, 227, 6, 30, 167, 216, 17, 199, 18, 89, 244, 219, 179, 181, 13, 14, 12, 129, 55, 158, 47, 46, 211, 251, 9, 0, 1]) []
def katProof8 : Cell := .mk 0 0 (bitsOf 608 [0, 0, 31, 27, 163, 57, 0, 201, 1, 145, 115, 58, 193, 7, 82, 253, 125, 194, 116, 202, 171, 255, 185, 113, 193, 12, 156, 115, 136, 144, 196, 19, 96, 118, 220, 26, 56, 117, 141, 164, 219, 198, 124, 20, 73, 150, 48, 192, 218, 87, 236, 249, 239, 249, 113, 161, 252, 231, 69, 229, 171, 188, 254, 161, 162, 4, 172, 3, 131, 183, 112, 51, 254, 86, 9, 90]) []
def katProof7 : Cell := .mk 0 0 (bitsOf 640 [155, 199, 169, 135, 0, 0, 0, 0, 4, 1, 1, 145, 115, 59, 0, 0, 0, 1, 0, 255, 255, 255, 255, 0, 0, 0, 0, 0, 0, 0, 0, 99, 181, 123, 50, 0, 0, 31, 27, 163, 72, 67, 0, 0, 0, 31, 27, 163, 72, 67, 7, 166, 120, 11, 155, 0, 5, 249, 7, 1, 145, 115, 54, 1, 145, 78, 89, 196, 0, 0, 0, 3, 0, 0, 0, 0, 0, 0, 0, 46]) [katProof8]
def katProof6 : Cell := .mk 1 1 (bitsOf 288 [1, 1, 183, 38, 7, 128, 187, 49, 105, 139, 8, 105, 62, 242, 211, 43, 136, 254, 2, 88, 172, 192, 41, 167, 85, 131, 173, 242, 66, 221, 184, 92, 90, 42, 0, 3]) []
def katProof5 : Cell := .mk 1 3 (bitsOf 560 [1, 3, 62, 200, 181, 205, 93, 61, 242, 172, 80, 251, 156, 97, 94, 46, 157, 171, 37, 240, 182, 30, 142, 9, 108, 31, 108, 212, 25, 91, 180, 41, 176, 147, 191, 105, 2, 255, 239, 68, 117, 88, 150, 114, 215, 96, 24, 12, 83, 118, 97, 62, 42, 67, 148, 99, 248, 111, 118, 134, 108, 19, 200, 133, 61, 64, 1, 111, 0, 23]) []
def katProof4 : Cell := .mk 1 3 (bitsOf 560 [1, 3, 75, 161, 66, 189, 15, 199, 153, 105, 106, 249, 200, 151, 169, 4, 231, 36, 184, 64, 207, 122, 136, 87, 117, 1, 68, 226, 233, 37, 88, 160, 86, 142, 144, 38, 80, 50, 67, 100, 243, 92, 134, 213, 223, 217, 37, 73, 41, 211, 21, 21, 232, 15, 28, 173, 39, 253, 28, 26, 104, 115, 136, 65, 78, 252, 1, 111, 0, 24]) []
def katProof3 : Cell := .mk 4 1 (bitsOf 552 [4, 62, 200, 181, 205, 93, 61, 242, 172, 80, 251, 156, 97, 94, 46, 157, 171, 37, 240, 182, 30, 142, 9, 108, 31, 108, 212, 25, 91, 180, 41, 176, 147, 75, 161, 66, 189, 15, 199, 153, 105, 106, 249, 200, 151, 169, 4, 231, 36, 184, 64, 207, 122, 136, 87, 117, 1, 68, 226, 233, 37, 88, 160, 86, 142, 1, 111, 1, 111]) [katProof5, katProof4]
def katProof2 : Cell := .mk 1 1 (bitsOf 288 [1, 1, 24, 78, 64, 30, 2, 239, 130, 223, 26, 60, 74, 157, 11, 230, 153, 58, 77, 91, 65, 209, 13, 85, 228, 14, 160, 199, 126, 21, 218, 12, 105, 234, 0, 12]) []
def katProof1 : Cell := .mk 0 1 (bitsOf 64 [17, 239, 85, 170, 255, 255, 255, 17]) [katProof7, katProof6, katProof3, katProof2]
/-- a real Merkle proof of a block header (lite-server answer ton/testdata/get-last-config-all-2.bin): Merkle proof over a level-1 block cell with pruned branches of masks 1 and 3 and a Merkle update of mask 1 -/
def katProof0 : Cell := .mk 3 0 (bitsOf 280 [3, 111, 178, 84, 54, 122, 125, 180, 250, 86, 188, 241, 199, 170, 12, 87, 131, 166, 72, 225, 241, 234, 159, 175, 215, 43, 214, 18, 215, 31, 181, 245, 205, 0, 26]) [katProof1]
def katUpd11 : Cell := .mk 1 1 (bitsOf 288 [1, 1, 76, 175, 248, 89, 114, 160, 16, 143, 68, 142, 133, 89, 154, 212, 89, 232, 221, 245, 40, 251, 87, 28, 78, 26, 7, 84, 112, 134, 66, 69, 244, 225, 0, 2]) []
def katUpd10 : Cell := .mk 1 1 (bitsOf 288 [1, 1, 183, 20, 54, 46, 127, 117, 12, 32, 144, 39, 49, 138, 173, 168, 92, 255, 119, 247, 3, 154, 62, 90, 20, 238, 73, 148, 165, 90, 201, 157, 28, 182, 0, 1]) []
def katUpd9 : Cell := .mk 1 1 (bitsOf 288 [1, 1, 89, 34, 65, 14, 184, 77, 202, 243, 162, 52, 108, 143, 169, 136, 213, 219, 196, 241, 27, 104, 113, 128, 197, 78, 217, 236, 45, 192, 15, 161, 9, 162, 0, 11]) []
def katUpd8 : Cell := .mk 0 1 (bitsOf 51 [129, 70, 189, 58, 63, 31, 192]) [katUpd9]
def katUpd7 : Cell := .mk 0 0 (bitsOf 828 [0, 0, 0, 0, 0, 0, 0, 0, 0, 0, 0, 0, 127, 255, 255, 255, 81, 175, 78, 143, 199, 242, 134, 52, 60, 86, 95, 16, 0, 0, 69, 206, 194, 238, 168, 64, 2, 241, 63, 106, 66, 164, 25, 13, 44, 72, 230, 118, 9, 101, 206, 71, 209, 70, 1, 11, 206, 19, 103, 53, 25, 122, 16, 182, 65, 94, 160, 39, 38, 190, 82, 212, 49, 216, 246, 52, 141, 120, 41, 58, 176, 105, 255, 183, 247, 195, 7, 59, 199, 133, 92, 48, 79, 55, 178, 44, 29, 111, 242, 73, 174, 80, 241, 48]) []
def katUpd6 : Cell := .mk 0 1 (bitsOf 362 [144, 35, 175, 226, 255, 255, 255, 17, 17, 0, 0, 0, 0, 13, 131, 128, 0, 0, 0, 0, 0, 0, 63, 155, 151, 0, 0, 0, 0, 94, 138, 219, 158, 0, 0, 4, 92, 236, 123, 53, 193, 0, 47, 19, 246, 0]) [katUpd10, katUpd8, katUpd7]
def katUpd5 : Cell := .mk 0 1 (bitsOf 32 [95, 50, 125, 165]) [katUpd11, katUpd6]
def katUpd4 : Cell := .mk 0 0 (bitsOf 425 [176, 6, 193, 192, 0, 0, 0, 0, 0, 0, 23, 138, 0, 0, 0, 2, 46, 119, 42, 29, 193, 255, 255, 255, 255, 255, 255, 255, 255, 255, 255, 255, 255, 255, 255, 255, 255, 255, 255, 255, 255, 255, 255, 255, 255, 255, 255, 255, 255, 255, 255, 255, 255, 128]) []
def katUpd3 : Cell := .mk 0 0 (bitsOf 67 [0, 0, 0, 0, 0, 0, 0, 0, 64]) [katUpd4]
def katUpd2 : Cell := .mk 0 0 (bitsOf 828 [0, 0, 0, 0, 0, 0, 0, 0, 0, 0, 0, 0, 0, 0, 0, 1, 81, 175, 78, 143, 199, 242, 140, 104, 120, 217, 113, 144, 0, 0, 69, 206, 229, 67, 184, 64, 2, 241, 64, 2, 24, 18, 166, 177, 226, 139, 29, 198, 225, 202, 171, 125, 186, 247, 33, 237, 169, 36, 100, 62, 70, 221, 168, 98, 2, 238, 158, 166, 20, 179, 41, 59, 122, 159, 207, 44, 99, 222, 17, 142, 10, 103, 159, 120, 134, 207, 21, 212, 181, 254, 104, 33, 30, 136, 9, 189, 245, 41, 189, 55, 155, 200, 79, 16]) []
def katUpd1 : Cell := .mk 0 1 (bitsOf 362 [144, 35, 175, 226, 255, 255, 255, 17, 16, 0, 0, 0, 0, 13, 131, 0, 0, 0, 0, 0, 0, 0, 63, 155, 153, 0, 0, 0, 0, 94, 138, 220, 32, 0, 0, 4, 92, 238, 99, 125, 193, 0, 47, 20, 0, 0]) [katUpd3, katUpd8, katUpd2]
/-- the real state update (Merkle update over two pruned shard states) of tlb/testdata/block-4/block.bin -/
def katUpd0 : Cell := .mk 4 0 (bitsOf 552 [4, 33, 177, 137, 81, 43, 32, 1, 44, 218, 181, 25, 178, 138, 70, 250, 111, 90, 223, 126, 89, 84, 157, 116, 224, 139, 102, 178, 124, 50, 67, 153, 172, 233, 178, 208, 141, 243, 42, 20, 96, 49, 140, 40, 174, 208, 15, 230, 153, 160, 58, 184, 202, 6, 149, 235, 186, 217, 243, 210, 41, 92, 131, 27, 127, 0, 14, 0, 13]) [katUpd5, katUpd1]
def hEmpty : List UInt8 := [150, 162, 150, 210, 36, 242, 133, 198, 123, 238, 147, 195, 15, 138, 48, 145, 87, 240, 218, 163, 93, 197, 184, 126, 65, 11, 120, 99, 10, 9, 207, 199]
def hOrd : List UInt8 := [165, 167, 210, 64, 87, 216, 100, 59, 37, 39, 112, 157, 152, 108, 218, 56, 70, 173, 203, 62, 221, 195, 45, 40, 236, 33, 246, 158, 23, 219, 170, 239]
def hLvl0 : List UInt8 := [178, 2, 247, 223, 14, 68, 236, 59, 155, 196, 172, 177, 206, 90, 124, 252, 126, 137, 30, 254, 120, 222, 79, 110, 12, 155, 29, 153, 16, 136, 181, 33]
def hLvl3 : List UInt8 := [12, 9, 90, 225, 224, 159, 17, 15, 39, 148, 40, 254, 14, 243, 209, 130, 165, 78, 46, 215, 3, 10, 116, 115, 46, 218, 204, 47, 235, 17, 7, 189]
def hPruned0 : List UInt8 := [47, 20, 106, 224, 20, 140, 92, 99, 227, 6, 30, 167, 216, 17, 199, 18, 89, 244, 219, 179, 181, 13, 14, 12, 129, 55, 158, 47, 46, 211, 251, 9]
def hPruned1 : List UInt8 := [79, 65, 136, 160, 161, 124, 211, 72, 92, 197, 240, 180, 104, 198, 115, 206, 177, 191, 110, 54, 141, 85, 190, 241, 125, 211, 34, 156, 179, 254, 219, 158]
def hProofStored : List UInt8 := [111, 178, 84, 54, 122, 125, 180, 250, 86, 188, 241, 199, 170, 12, 87, 131, 166, 72, 225, 241, 234, 159, 175, 215, 43, 214, 18, 215, 31, 181, 245, 205]
def hUpdOld : List UInt8 := [33, 177, 137, 81, 43, 32, 1, 44, 218, 181, 25, 178, 138, 70, 250, 111, 90, 223, 126, 89, 84, 157, 116, 224, 139, 102, 178, 124, 50, 67, 153, 172]
def hUpdNew : List UInt8 := [233, 178, 208, 141, 243, 42, 20, 96, 49, 140, 40, 174, 208, 15, 230, 153, 160, 58, 184, 202, 6, 149, 235, 186, 217, 243, 210, 41, 92, 131, 27, 127]

example : Spec.reprHash sha256 (Cell.ordinary [] []) = hEmpty := by decide +kernel
example : Spec.hashAt sha256 katOrd0 0 = hOrd ∧ Spec.depthAt katOrd0 0 = 1 ∧ Spec.reprHash sha256 katOrd0 = hOrd := by decide +kernel
example : Spec.hashAt sha256 katLvl0 0 = hLvl0 ∧ Spec.depthAt katLvl0 0 = 5 ∧ Spec.reprHash sha256 katLvl0 = hLvl3 := by decide +kernel
example : (List.range 4).map (Spec.hashAt sha256 katPruned0) = [hPruned0, hPruned1, hPruned1, hPruned1] ∧
    (List.range 4).map (Spec.depthAt katPruned0) = [1, 0, 0, 0] ∧ Spec.cellLevel katPruned0 = 1 := by decide +kernel
example : Spec.wfExotic katProof0 = true ∧ Spec.hashAt sha256 katProof1 0 = hProofStored ∧ Spec.depthAt katProof1 0 = 26 := by decide +kernel
example : Spec.wfExotic katUpd0 = true ∧ Spec.hashAt sha256 katUpd5 0 = hUpdOld ∧ Spec.hashAt sha256 katUpd1 0 = hUpdNew ∧
    Spec.depthAt katUpd5 0 = 14 ∧ Spec.depthAt katUpd1 0 = 13 := by decide +kernel
end Tongo.C02Kat
