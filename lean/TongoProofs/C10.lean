import TongoModel.Tl.LiteClient
/-! Property C10 (placeholder, theorems follow). -/
namespace Tongo.C10
end Tongo.C10
