import TongoProofs.C09
import TongoProofs.Lemmas.TlCompact
import TongoGen.LiteApi
import TongoGen.TlLength
import TongoProofs.Lemmas.GenTiesB
import TongoProofs.Lemmas.TlBindings
import TongoGen.TlBindingsAll
import TongoProofs.Lemmas.TlWait
/-! Property C10 — the lite-server bindings speak exactly the wire format of `lite_api.tl`.

`Gen.liteApi` is the schema of the CURRENT `liteclient/lite_api.tl` (translator X3, regenerated on every run, tied to
the raw file by `Gen.liteapi_render` and by the run-time op `tl.schema`). The theorems instantiate the schema-level
semantics (C09) at that schema and add the lite-client layer: request envelope, request decoder table, hand-written
codecs.

The Go bindings enter the theorems through translator X7 (`harness/cmd/extract/tlbindings.go`): every generated
`MarshalTL`/`UnmarshalTL`, every `(*Client).LiteServer*` method and the table `taggedRequestDecodeFunctions` of the CURRENT
liteclient/generated.go become the Lean value `Gen.tlBindings` (step sequences with their guards `(t.Flag>>bit)&1`, tag
literals, request-id literals); `Tl.Bind.marshalGo/unmarshalGo/runMarshal/runUnmarshal/clientRequest/clientAnswer/
decoderTable` give these steps a semantics; `steps_eq_schema` is proved once for every schema and every bindings value the
decidable matcher `agreeAll` accepts; the matcher is discharged by the kernel on every run, one obligation per type and per
function (`Gen.bind_type_i`, `Gen.bind_func_i`, collected in `Gen.bindings_agree`). What stays outside the theorems: the
translator itself (trusted; it refuses every statement outside the shapes it knows), the reflection-based helpers
`tl.Marshal/tl.Unmarshal` on builtin types, `liteServerRequest`, and the hand-written codecs — tied by the correspondence
ops `tl.*` (props/C10.py). -/
namespace Tongo.C10
open Tongo Tongo.Tl Tongo.Gen

/-- the schema of the current lite_api.tl is well-formed (ids distinct inside every type and among the functions,
every referenced name declared, every conditional field tests an earlier `#` field, bit < 32) -/
theorem liteapi_wf : WFSchema liteApi := wf_liteapi

/-- every value of every type of lite_api.tl is read back from its encoding, whatever follows it -/
theorem liteapi_decode_encode (t : Ty) (v : Val) (bs rest : Bytes) (fuel : Nat)
    (henc : encode liteApi t v = some bs) (hfuel : v.depth ≤ fuel) :
    decode liteApi fuel t (bs ++ rest) = .ok (v, rest) :=
  C09.tl_decode_encode liteApi wf_liteapi t v bs rest fuel henc hfuel

/-- encodings under lite_api.tl are self-delimiting -/
theorem liteapi_prefix_free (t : Ty) (v₁ v₂ : Val) (b₁ b₂ r₁ r₂ : Bytes)
    (h₁ : encode liteApi t v₁ = some b₁) (h₂ : encode liteApi t v₂ = some b₂) (h : b₁ ++ r₁ = b₂ ++ r₂) :
    v₁ = v₂ ∧ b₁ = b₂ ∧ r₁ = r₂ :=
  C09.tl_prefix_free liteApi wf_liteapi t v₁ v₂ b₁ b₂ r₁ r₂ h₁ h₂ h

/-- **request decoder table**: the bytes of any call of a lite_api.tl function select, by their id, the decoder of
that very function, which returns the parameters (`taggedRequestDecodeFunctions` / `LiteapiRequestDecoder`) -/
theorem request_table_sound (f : String) (ps : List Val) (bs rest : Bytes) (fuel : Nat)
    (henc : encodeRequest liteApi f ps = some bs) (hfuel : depthList ps ≤ fuel) :
    requestDecoder liteApi fuel (bs ++ rest) = .ok (unLe (bs.take 4), some (f, ps)) := by
  have hd := C09.tl_request_decode_encode liteApi wf_liteapi f ps bs rest fuel henc hfuel
  unfold encodeRequest at henc
  cases hf : liteApi.func? f with
  | none => simp [hf] at henc
  | some d =>
    simp only [hf] at henc
    obtain ⟨b, _, rfl⟩ := map_append_eq_some henc
    have h4 : readLE 4 (le 4 d.id ++ b ++ rest) = .ok (unLe (le 4 d.id), b ++ rest) := by
      simp [readLE, readN_append' 4 (le 4 d.id) (b ++ rest) (le_length 4 d.id)]
    have ht : (le 4 d.id ++ b).take 4 = le 4 d.id := by
      rw [List.take_append_of_le_length (by simp)]
      exact List.take_of_length_le (by simp)
    simp only [requestDecoder, h4, hd, ht]

/-! ### Request envelope -/

/-- the envelope written by `liteServerRequest` + `Request` IS the schema encoding of
`adnl.message.query(query_id, bytes(liteServer.query(bytes(request))))` -/
theorem envelope_is_schema_encoding (qid req : Bytes) (hq : qid.length = 32) (hr : req.length < 2 ^ 24)
    (hr2 : (le 4 liteServerQueryDecl.id ++ encBytes req).length < 2 ^ 24) :
    encode envelopeSchema (.boxed "Object") (.sum "liteServer.query" [.raw req])
      = some (le 4 liteServerQueryDecl.id ++ encBytes req) ∧
    encode envelopeSchema (.boxed "adnl.Message")
      (.sum "adnl.message.query" [.raw qid, .raw (le 4 liteServerQueryDecl.id ++ encBytes req)])
      = some (envelope qid req) := by
  constructor
  · simp [encode, encodeFields, envelopeSchema, Schema.ctorOf?, adnlQueryDecl, adnlAnswerDecl, liteServerQueryDecl,
      present?, hr]
  · simp [encode, encodeFields, envelopeSchema, Schema.ctorOf?, adnlQueryDecl, adnlAnswerDecl, liteServerQueryDecl,
      present?, hq, envelope] at hr2 ⊢
    simp [hr2]

theorem envelopeSchema_wf : WFSchema envelopeSchema := by decide

/-- **request_envelope**: what a `(*Client).LiteServer*` method hands to the connection decodes, layer by layer and under
the schemas, to `adnl.message.query` carrying the query id and a `liteServer.query` whose payload decodes to the
method's function and exactly its parameters. -/
theorem request_envelope (S : Schema) (hwf : WFSchema S) (f : String) (ps : List Val) (req qid rest : Bytes)
    (fuel : Nat) (henc : encodeRequest S f ps = some req) (hfuel : depthList ps ≤ fuel)
    (hq : qid.length = 32) (hr : req.length < 2 ^ 24)
    (hr2 : (le 4 liteServerQueryDecl.id ++ encBytes req).length < 2 ^ 24) :
    decode envelopeSchema 2 (.boxed "adnl.Message") (envelope qid req ++ rest)
      = .ok (.sum "adnl.message.query" [.raw qid, .raw (le 4 liteServerQueryDecl.id ++ encBytes req)], rest) ∧
    decode envelopeSchema 2 (.boxed "Object") (le 4 liteServerQueryDecl.id ++ encBytes req)
      = .ok (.sum "liteServer.query" [.raw req], []) ∧
    decodeRequest S fuel req = .ok (f, ps, []) := by
  obtain ⟨e1, e2⟩ := envelope_is_schema_encoding qid req hq hr hr2
  refine ⟨?_, ?_, ?_⟩
  · exact C09.tl_decode_encode envelopeSchema envelopeSchema_wf _ _ _ rest 2 e2 (by simp [Val.depth, depthList])
  · have := C09.tl_decode_encode envelopeSchema envelopeSchema_wf _ _ _ [] 2 e1 (by simp [Val.depth, depthList])
    simpa using this
  · have := C09.tl_request_decode_encode S hwf f ps req [] fuel henc hfuel
    simpa using this

/-- the two transport constructors of the envelope are the ones lite_api.tl declares -/
theorem envelope_decls_in_liteapi : adnlQueryDecl ∈ liteApi.types ∧ adnlAnswerDecl ∈ liteApi.types := by decide

/-! ### Answers -/

/-- **answers**: what a generated `(*Client).F` makes of the server's bytes. (1) The encoding of a value `v` of the
function's result type (boxed: constructor id + fields), followed by anything, is returned as `v` — provided no
constructor of the result type shares its id with `liteServer.error`, which is tested first. (2) The encoding of a
`liteServer.error` is returned as that error. -/
theorem answer_decodes (S : Schema) (hwf : WFSchema S) (f : String) (d e : Decl) (hf : S.func? f = some d)
    (he : S.ctor? errorCtor = some e) (fuel : Nat) (rest : Bytes) :
    (∀ c fs bs, encode S (.boxed d.result) (.sum c fs) = some bs → depthList fs ≤ fuel →
        (∀ cd, S.ctorOf? d.result c = some cd → cd.id ≠ e.id) →
        decodeAnswer S fuel f (bs ++ rest) = .ok (.result (.sum c fs))) ∧
    (∀ evs eb, encodeFields S e.fields [] evs = some eb → depthList evs ≤ fuel → e.id < 2 ^ 32 →
        decodeAnswer S fuel f (le 4 e.id ++ eb ++ rest) = .ok (.serverError evs)) := by
  constructor
  · intro c fs bs henc hfuel hne
    have hdec := C09.tl_decode_encode S hwf _ _ bs rest (fuel + 1) henc (by simp [Val.depth]; omega)
    simp only [encode] at henc
    cases hc : S.ctorOf? d.result c with
    | none => simp [hc] at henc
    | some cd =>
      simp only [hc] at henc
      obtain ⟨b, hb, rfl⟩ := map_append_eq_some henc
      have hid := id_lt_of_ctorOf S hwf _ _ cd hc
      have hmem : cd ∈ S.ctorsOf d.result := by
        have h1 := List.mem_of_find?_eq_some hc
        have h2 := List.find?_some hc
        simp only [Bool.and_eq_true, beq_iff_eq] at h2
        simp [Schema.ctorsOf, h1, h2.1]
      simp only [decodeAnswer, hf, he, List.append_assoc, readLE4 cd.id _ hid, hne cd hc, if_false]
      split
      · rename_i c' hcs
        rw [hcs] at hmem
        have : cd = c' := by simpa using hmem
        subst this
        simp only [if_true, C09.tl_fields_decode_encode S hwf cd.fields [] fs b rest fuel hb hfuel,
          ctorOf_ctor S _ c cd hc]
      · simp only [List.append_assoc] at hdec
        simp only [hdec]
  · intro evs eb henc hfuel hid
    simp only [decodeAnswer, hf, he, List.append_assoc, readLE4 e.id _ hid, if_true,
      C09.tl_fields_decode_encode S hwf e.fields [] evs eb rest fuel henc hfuel]

/-- a result type with a single constructor: any other leading id than that constructor's or `liteServer.error`'s is
refused ("invalid tag") -/
theorem answer_wrong_tag (S : Schema) (f : String) (d e c : Decl) (hf : S.func? f = some d)
    (he : S.ctor? errorCtor = some e) (hc : S.ctorsOf d.result = [c]) (fuel tag : Nat) (rest : Bytes)
    (ht : tag < 2 ^ 32) (h1 : tag ≠ e.id) (h2 : tag ≠ c.id) :
    decodeAnswer S fuel f (le 4 tag ++ rest) = .err "invalid tag" := by
  simp [decodeAnswer, hf, he, hc, readLE4 tag rest ht, h1, h2]

/-- `liteServer.error#bba9e148 code:int message:string = liteServer.Error` -/
def errorDecl : Decl :=
  { ctor := "liteServer.error", id := 0xbba9e148, result := "liteServer.Error",
    fields := [{ name := "code", cond := none, ty := .int }, { name := "message", cond := none, ty := .string }] }

/-- regenerated fact: lite_api.tl declares `liteServer.error` as above -/
theorem liteapi_error_decl : liteApi.ctor? errorCtor = some errorDecl := by decide +kernel

/-- regenerated fact (the function table of the current lite_api.tl): no constructor of any function's result type
carries the id of `liteServer.error`, so the error test of the generated methods never shadows a result -/
theorem liteapi_no_error_id_clash :
    liteApi.funcs.all (fun d => (liteApi.ctorsOf d.result).all (fun c => c.id != errorDecl.id)) = true := by
  decide +kernel

/-- **answer_decodes for every function of lite_api.tl** (instantiated over the regenerated function table): for each
of the declared functions, (1) the encoding of ANY value of its result type, followed by anything, is returned by the
generated method as that value; (2) the encoding of any `liteServer.error` is returned as that error. -/
theorem liteapi_answer_decodes (f : String) (d : Decl) (hf : liteApi.func? f = some d) (fuel : Nat) (rest : Bytes) :
    (∀ c fs bs, encode liteApi (.boxed d.result) (.sum c fs) = some bs → depthList fs ≤ fuel →
        decodeAnswer liteApi fuel f (bs ++ rest) = .ok (.result (.sum c fs))) ∧
    (∀ evs eb, encodeFields liteApi errorDecl.fields [] evs = some eb → depthList evs ≤ fuel →
        decodeAnswer liteApi fuel f (le 4 errorDecl.id ++ eb ++ rest) = .ok (.serverError evs)) := by
  have h := answer_decodes liteApi wf_liteapi f d errorDecl hf liteapi_error_decl fuel rest
  refine ⟨fun c fs bs henc hfuel => h.1 c fs bs henc hfuel ?_, fun evs eb henc hfuel => h.2 evs eb henc hfuel (by decide)⟩
  intro cd hcd
  have hmem : d ∈ liteApi.funcs := List.mem_of_find?_eq_some hf
  have hall := liteapi_no_error_id_clash
  simp only [List.all_eq_true, bne_iff_ne, ne_eq] at hall
  apply hall d hmem cd
  have h1 := List.mem_of_find?_eq_some hcd
  have h2 := List.find?_some hcd
  simp only [Bool.and_eq_true, beq_iff_eq] at h2
  simp [Schema.ctorsOf, h1, h2.1]

/-- every function of lite_api.tl has a client-side answer path: its result type is declared (so (1) above is not
vacuous), and the number of functions covered -/
theorem liteapi_functions_covered :
    liteApi.funcs.length = liteApiFuncsC.length ∧
    liteApi.funcs.all (fun d => !(liteApi.ctorsOf d.result).isEmpty) = true := by
  refine ⟨by simp [liteApi, liteApiFuncs], ?_⟩
  have h := wf_liteapi
  unfold wfSchemaB at h
  simp only [Bool.and_eq_true] at h
  exact h.2


/-! ### The generated Go bindings (translator X7, `Gen.tlBindings`) -/

/- `steps_eq_schema` and `method_steps_eq_schema` (generic in the schema and in the extracted bindings) are stated in
TongoProofs/C09.lean; here they are instantiated at the regenerated schema and the regenerated bindings. -/

/-- regenerated obligation (72 kernel-decided obligations: 43 types + 29 functions of lite_api.tl): the bindings
extracted from the current generated.go match the schema of the current lite_api.tl -/
theorem liteapi_bindings_agree : Bind.agreeAll liteApi tlBindings = true := bindings_agree

/-- `steps_eq_schema` for the CURRENT generated.go against the CURRENT lite_api.tl -/
theorem liteapi_steps_eq_schema (ty : Ty) (v : Val) (bs : Bytes) (fuel : Nat) (hty : ty ≠ .tru)
    (hrefs : Bind.tyRefsOk liteApi tlBindings ty = true) (henc : encode liteApi ty v = some bs)
    (hfuel : 3 * v.depth ≤ fuel) :
    Bind.marshalGo tlBindings fuel (Bind.goTyOf ty) (Bind.rep liteApi ty v) = some bs ∧
    (∀ rest, Bind.unmarshalGo tlBindings fuel (Bind.goTyOf ty) (bs ++ rest) = .ok (Bind.rep liteApi ty v, rest)) ∧
    (∀ rest, decode liteApi fuel ty (bs ++ rest) = .ok (v, rest)) :=
  C09.steps_eq_schema liteApi tlBindings wf_liteapi bindings_agree ty v bs fuel hty hrefs henc hfuel

/-- **request wrappers**: for every function `f` of lite_api.tl, the payload the generated method
`(*Client).<CamelCase f>` hands to `liteServerRequest` — its request-id literal, then `MarshalTL` of its request struct —
is `encodeRequest liteApi f ps`, the bytes `request_table_sound` and `request_envelope` speak about -/
theorem liteapi_client_request (f : String) (d : Decl) (hf : liteApi.func? f = some d) (ps : List Val) (bs : Bytes)
    (fuel : Nat) (henc : encodeRequest liteApi f ps = some bs) (hfuel : 3 * depthList ps + 2 ≤ fuel) :
    ∃ m, tlBindings.methods.find? (fun m => m.name == Bind.camelGo f) = some m ∧
      Bind.clientRequest tlBindings fuel m (.tuple (Bind.repFields liteApi d.fields ps)) = some bs :=
  Bind.client_request_eq bindings_agree f d hf ps bs fuel henc hfuel

theorem liteapi_error_single : Bind.tyRefsOk liteApi tlBindings (.bare errorCtor) = true := by decide +kernel

/-- **answers**: for every function `f` of lite_api.tl, the generated method returns (1) for the encoding of ANY value of
the result type, followed by anything, the Go value carrying that value (tag literal of a single-constructor result, or
the sum type's `switch tag`); (2) for the encoding of any `liteServer.error`, that error (error literal tested first) -/
theorem liteapi_client_answer (f : String) (d : Decl) (hf : liteApi.func? f = some d) (fuel : Nat) (rest : Bytes) :
    ∃ m, tlBindings.methods.find? (fun m => m.name == Bind.camelGo f) = some m ∧
      (∀ c fs bs, encode liteApi (.boxed d.result) (.sum c fs) = some bs → 3 * depthList fs + 5 ≤ fuel →
        Bind.clientAnswer tlBindings fuel m (bs ++ rest)
          = .ok (.result (Bind.rep liteApi (.boxed d.result) (.sum c fs)))) ∧
      (∀ evs eb, encodeFields liteApi errorDecl.fields [] evs = some eb → 3 * depthList evs + 5 ≤ fuel →
        Bind.clientAnswer tlBindings fuel m (le 4 errorDecl.id ++ eb ++ rest)
          = .ok (.serverError (.tuple (Bind.repFields liteApi errorDecl.fields evs)))) := by
  obtain ⟨m, hm, h1, h2⟩ := Bind.client_answer_eq wf_liteapi bindings_agree f d errorDecl hf liteapi_error_decl
    liteapi_error_single fuel rest
  refine ⟨m, hm, fun c fs bs henc hfuel => h1 c fs bs henc hfuel ?_, h2⟩
  intro cd hcd
  have hmem : d ∈ liteApi.funcs := List.mem_of_find?_eq_some hf
  have hall := liteapi_no_error_id_clash
  simp only [List.all_eq_true, bne_iff_ne, ne_eq] at hall
  exact hall d hmem cd (Bind.mem_ctorsOf_of_ctorOf hcd).2.2

/-- **decoder table**: `taggedRequestDecodeFunctions` of the current generated.go, applied to the bytes of any call of a
lite_api.tl function (followed by anything), selects the entry of that function, which reports the function's id and
name and returns the parameters through the request struct's `UnmarshalTL` -/
theorem liteapi_decoder_table (f : String) (d : Decl) (hf : liteApi.func? f = some d) (ps : List Val) (bs rest : Bytes)
    (fuel : Nat) (henc : encodeRequest liteApi f ps = some bs) (hfuel : 3 * depthList ps + 2 ≤ fuel) :
    Bind.decoderTable tlBindings fuel (bs ++ rest)
      = .ok (d.id, some (f, .tuple (Bind.repFields liteApi d.fields ps))) :=
  Bind.decoder_table_eq wf_liteapi bindings_agree f d hf ps bs rest fuel henc hfuel

/-! ### Hand-written request builders of liteclient/client.go (extracted by X7: `Gen.waitConsts`) -/

/-- `liteServer.lookupBlock` and `tonNode.blockId` as spelled in lite_api.tl -/
def lookupBlockDecl : Decl :=
  { ctor := "liteServer.lookupBlock", id := 0xfac8f71e, result := "liteServer.BlockHeader",
    fields := [{ name := "mode", cond := none, ty := .nat }, { name := "id", cond := none, ty := .bare "tonNode.blockId" },
               { name := "lt", cond := some ("mode", 1), ty := .long }, { name := "utime", cond := some ("mode", 2), ty := .int }] }

def blockIdDecl : Decl :=
  { ctor := "tonNode.blockId", id := 0xb7cdb167, result := "tonNode.BlockId",
    fields := [{ name := "workchain", cond := none, ty := .int }, { name := "shard", cond := none, ty := .long },
               { name := "seqno", cond := none, ty := .int }] }

theorem liteapi_lookup_decls : liteApi.func? "liteServer.lookupBlock" = some lookupBlockDecl ∧
    liteApi.ctor? "tonNode.blockId" = some blockIdDecl := by decide +kernel

/-- regenerated obligation: the literals of the hand-written `WaitMasterchainSeqno` / `WaitMasterchainBlock` of
liteclient/client.go (prefix id, wrapper id, both error tags, result tag, request and result types, the request struct
literal) are those of the schema -/
theorem liteapi_wait_agree : Bind.waitAgree liteApi waitConsts = true := by
  rw [liteapi_literal]; exact wait_consts_agree

set_option maxRecDepth 100000 in
/-- the prefix id spelled in client.go (and in the comment of lite_api.tl) is the CRC-32 of its declaration -/
theorem wait_prefix_id_is_crc32 : crcOf waitSeqnoDecl = waitSeqnoDecl.id := by decide +kernel

/-- **WaitMasterchainSeqno**: the request built by the Go code is the boxed schema encoding of
`liteServer.waitMasterchainSeqno(seqno, timeout)` -/
theorem liteapi_wait_seqno (seqno timeout : Nat) (hs : seqno < 2 ^ 32) (ht : timeout < 2 ^ 32) :
    waitSeqnoRequest seqno timeout = some (Bind.waitSeqnoGo waitConsts seqno timeout) :=
  Bind.wait_seqno_eq liteApi waitConsts liteapi_wait_agree seqno timeout hs ht

/-- **WaitMasterchainBlock**: prefix, wrapper id and `MarshalTL` of the request struct literal (through the extracted
bindings of `LiteServerLookupBlockRequest`) are the prefix followed by the schema encoding of the call
`liteServer.lookupBlock(mode = 1, id = (-1, 0x8000000000000000, seqno))` -/
theorem liteapi_wait_block (seqno timeout fuel : Nat) (bs : Bytes) (hs : seqno < 2 ^ 32) (ht : timeout < 2 ^ 32)
    (henc : waitBlockRequest liteApi seqno timeout = some bs) (hfuel : 11 ≤ fuel) :
    Bind.waitBlockGo tlBindings waitConsts fuel seqno timeout = some bs := by
  have hrep : Bind.repFields liteApi lookupBlockDecl.fields (waitBlockParams seqno) = waitBlockParams seqno := by
    simp [Bind.repFields, Bind.rep, lookupBlockDecl, waitBlockParams, liteapi_lookup_decls.2, blockIdDecl]
  exact Bind.wait_block_eq bindings_agree waitConsts liteapi_wait_agree lookupBlockDecl liteapi_lookup_decls.1 seqno
    timeout fuel bs hs ht hrep henc (by simp [waitBlockParams, depthList, Val.depth]; omega)

/-! ### The regenerated schema value and its constructor ids

Translator X3 emits the declarations in compact form (`DeclC`: names as character codes) so that the kernel can render
and hash them; `Lemmas/TlCompact.lean` + `Lemmas/Crc32.lean` transfer the kernel-evaluated facts to `Gen.liteApi`. -/

theorem liteapi_decls : liteApi.types ++ liteApi.funcs = (liteApiTypesC ++ liteApiFuncsC).map DeclC.toDecl := by
  simp [liteApi, liteApiTypes, liteApiFuncs]

/-- the Lean value `Gen.liteApi` is the schema its canonical text denotes (the text the model's own parser prints for
the raw file: op `tl.schema`) -/
theorem liteapi_render :
    (liteApi.types ++ liteApi.funcs).map (fun d => (renderDecl d).map Char.toNat) = liteApiCodes := by
  rw [liteapi_decls, List.map_map, ← liteapi_render_c]
  apply List.map_congr_left
  intro c hc
  have hok := liteapi_compact_ok
  simp only [List.all_eq_true] at hok
  exact renderDecl_codes c (hok c hc)

theorem strOf_codes_of_string (s : String) : strOf (s.toList.map Char.toNat) = s := by
  simp [strOf, List.map_map, Function.comp_def, Char.ofNat_toNat]

/-- **ctor_id_is_crc32**: every id spelled in lite_api.tl, except those of the explicit exception list
`crcExceptions`, is the CRC-32 (IEEE) of its declaration text without `#id`, `;` and parentheses. The regenerated
obligation `Gen.liteapi_ids_crc32` evaluates the table-driven CRC over character codes in the kernel; it is carried over
by `crc32T_eq_crc32N` (table = bitwise, all inputs) and `crcOf_toDecl`. -/
theorem ctor_id_is_crc32 (d : Decl) (hd : d ∈ liteApi.types ++ liteApi.funcs) (hx : d.ctor ∉ crcExceptions) :
    crcOf d = d.id := by
  rw [liteapi_decls] at hd
  obtain ⟨c, hc, rfl⟩ := List.mem_map.mp hd
  have hok := liteapi_compact_ok
  have hid := liteapi_ids_crc32
  simp only [List.all_eq_true] at hok hid
  rw [crcOf_toDecl c (hok c hc)]
  have := hid c hc
  simp only [Bool.or_eq_true, beq_iff_eq] at this
  rcases this with h | h
  · exfalso
    apply hx
    simp only [crcExceptionCodes, List.contains_eq_mem, List.mem_map, decide_eq_true_eq] at h
    obtain ⟨s, hs, hsc⟩ := h
    have : (DeclC.toDecl c).ctor = s := by
      simp only [DeclC.toDecl, ← hsc, strOf_codes_of_string]
    rw [this]; exact hs
  · exact h

/-- the exception list is not vacuous padding: each entry names a declaration of the current schema -/
theorem crc_exceptions_declared : crcExceptionCodes.all (fun n => (liteApiTypesC ++ liteApiFuncsC).any (·.ctor == n)) = true := by
  decide +kernel

set_option maxRecDepth 100000 in
/-- the magic numbers of liteclient/client.go are the CRC-32 of the declarations quoted next to them -/
theorem ctor_id_is_crc32_client_constants :
    crcOf adnlQueryDecl = adnlQueryDecl.id ∧ crcOf adnlAnswerDecl = adnlAnswerDecl.id ∧
    crcOf liteServerQueryDecl = liteServerQueryDecl.id ∧
    crcOf accountIdDecl = accountIdDecl.id ∧ crcOf blockIdExtDecl = blockIdExtDecl.id := by decide +kernel

/-- `liteServer.getLibrariesWithProof` as spelled in lite_api.tl -/
def getLibrariesWithProofDecl : Decl :=
  { ctor := "liteServer.getLibrariesWithProof", id := 0x8c026c31, result := "liteServer.LibraryResultWithProof",
    fields := [{ name := "id", cond := none, ty := .bare "tonNode.blockIdExt" }, { name := "mode", cond := none, ty := .nat },
               { name := "library_list", cond := none, ty := .vector .int256 }] }

set_option maxRecDepth 100000 in
/-- the id spelled for `liteServer.getLibrariesWithProof` is not the CRC-32 of the declaration (which is d97693bd) -/
theorem ctor_id_is_crc32_counterexample :
    crcOf getLibrariesWithProofDecl = 0xd97693bd ∧ crcOf getLibrariesWithProofDecl ≠ getLibrariesWithProofDecl.id := by
  decide +kernel

/-! ### Hand-written codecs -/

/-- (hand models `accountIdTL`, `blockIdExtTL`, one line each, tied to the Go code by the ops `tl.hw.*` only — these three
codecs are NOT extracted; `LiteServerSignatureSet` of liteclient/extensions.go IS extracted and covered by
`liteapi_steps_eq_schema`; `tlb.VmStack.MarshalTL` has no theorem, only the oracle `go.tl.hw.vmstack`.)
`ton.AccountID.MarshalTL`, `ton.BlockIDExt.MarshalTL` and `tl.Int256.MarshalTL` produce the schema encoding of
`liteServer.accountId`, `tonNode.blockIdExt` (both declared so in lite_api.tl) and `int256` -/
theorem handwritten_types_spec :
    (accountIdDecl ∈ liteApi.types ∧ blockIdExtDecl ∈ liteApi.types) ∧
    (∀ wc (addr : Bytes), wc < 2 ^ 32 → addr.length = 32 →
      encode liteApi (.bare "liteServer.accountId") (.tuple [.num wc, .raw addr]) = some (accountIdTL wc addr)) ∧
    (∀ wc shard seqno (root file : Bytes), wc < 2 ^ 32 → shard < 2 ^ 64 → seqno < 2 ^ 32 → root.length = 32 →
      file.length = 32 →
      encode liteApi (.bare "tonNode.blockIdExt") (.tuple [.num wc, .num shard, .num seqno, .raw root, .raw file])
        = some (blockIdExtTL wc shard seqno root file)) ∧
    (∀ (S : Schema) (bs : Bytes), bs.length = 32 → encode S .int256 (.raw bs) = some bs) := by
  have ha : liteApi.ctor? "liteServer.accountId" = some accountIdDecl := by decide +kernel
  have hb : liteApi.ctor? "tonNode.blockIdExt" = some blockIdExtDecl := by decide +kernel
  refine ⟨by decide +kernel, ?_, ?_, fun S bs h => by simp [encode, h]⟩
  · intro wc addr hw hl
    simp [encode, ha, accountIdDecl, encodeFields, present?, hw, hl, accountIdTL]
  · intro wc shard seqno root file hw hs hq hr hf
    simp [encode, hb, blockIdExtDecl, encodeFields, present?, hw, hs, hq, hr, hf, blockIdExtTL]

/-- decode sides of the hand-written codecs: `(*ton.AccountID).UnmarshalTL`, `(*ton.BlockIDExt).UnmarshalTL` and
`(*tl.Int256).UnmarshalTL` read back what the Marshal sides write (for `AccountID`/`Int256`: followed by anything, leaving
the rest; `BlockIDExt` takes a slice of exactly 80 bytes and refuses every other length) — and that is what the schema
decoder returns for the declarations `liteServer.accountId` / `tonNode.blockIdExt` of lite_api.tl -/
theorem handwritten_types_decode :
    (∀ wc (addr rest : Bytes), wc < 2 ^ 32 → addr.length = 32 →
      accountIdUnTL (accountIdTL wc addr ++ rest) = .ok ((wc, addr), rest) ∧
      ∀ fuel, 2 ≤ fuel → decode liteApi fuel (.bare "liteServer.accountId") (accountIdTL wc addr ++ rest)
        = .ok (.tuple [.num wc, .raw addr], rest)) ∧
    (∀ wc shard seqno (root file : Bytes), wc < 2 ^ 32 → shard < 2 ^ 64 → seqno < 2 ^ 32 → root.length = 32 →
      file.length = 32 →
      blockIdExtUnTL (blockIdExtTL wc shard seqno root file) = .ok (wc, shard, seqno, root, file) ∧
      ∀ fuel, 2 ≤ fuel → decode liteApi fuel (.bare "tonNode.blockIdExt") (blockIdExtTL wc shard seqno root file)
        = .ok (.tuple [.num wc, .num shard, .num seqno, .raw root, .raw file], [])) ∧
    (∀ data : Bytes, data.length ≠ 80 → blockIdExtUnTL data = .err "invalid data length") ∧
    (∀ bs rest : Bytes, bs.length = 32 → int256UnTL (bs ++ rest) = .ok (bs, rest)) := by
  obtain ⟨_, ha, hb, _⟩ := handwritten_types_spec
  refine ⟨?_, ?_, fun data h => by simp [blockIdExtUnTL, h], fun bs rest h => readN_append' 32 bs rest h⟩
  · intro wc addr rest hw hl
    refine ⟨?_, fun fuel hf => ?_⟩
    · simp [accountIdUnTL, accountIdTL, readLE4 wc _ hw, readN_append' 32 addr rest hl]
    · exact liteapi_decode_encode _ _ _ rest fuel (ha wc addr hw hl) (by simp [Val.depth, depthList]; omega)
  · intro wc shard seqno root file hw hs hq hr hf
    refine ⟨?_, fun fuel hfu => ?_⟩
    · have hlen : (blockIdExtTL wc shard seqno root file).length = 80 := by
        simp [blockIdExtTL, le_length, hr, hf]
      have e1 : (blockIdExtTL wc shard seqno root file).take 4 = le 4 wc := by
        simp only [blockIdExtTL, List.append_assoc]; exact bytes_take_app _ _ 4 (le_length 4 wc)
      have d1 : (blockIdExtTL wc shard seqno root file).drop 4 = le 8 shard ++ (le 4 seqno ++ (root ++ file)) := by
        simp only [blockIdExtTL, List.append_assoc]; exact bytes_drop_app _ _ 4 (le_length 4 wc)
      have d2 : (blockIdExtTL wc shard seqno root file).drop 12 = le 4 seqno ++ (root ++ file) := by
        have : (blockIdExtTL wc shard seqno root file).drop 12 = ((blockIdExtTL wc shard seqno root file).drop 4).drop 8 := by
          simp
        rw [this, d1]; exact bytes_drop_app _ _ 8 (le_length 8 shard)
      have d3 : (blockIdExtTL wc shard seqno root file).drop 16 = root ++ file := by
        have : (blockIdExtTL wc shard seqno root file).drop 16 = ((blockIdExtTL wc shard seqno root file).drop 12).drop 4 := by
          simp
        rw [this, d2]; exact bytes_drop_app _ _ 4 (le_length 4 seqno)
      have d4 : (blockIdExtTL wc shard seqno root file).drop 48 = file := by
        have : (blockIdExtTL wc shard seqno root file).drop 48 = ((blockIdExtTL wc shard seqno root file).drop 16).drop 32 := by
          simp
        rw [this, d3]; exact bytes_drop_app _ _ 32 hr
      simp only [blockIdExtUnTL, hlen, ne_eq, not_true_eq_false, if_false, e1, d1, d2, d3, d4,
        bytes_take_app _ _ 8 (le_length 8 shard), bytes_take_app _ _ 4 (le_length 4 seqno), bytes_take_app _ _ 32 hr,
        List.take_of_length_le (Nat.le_of_eq hf), unLe_le 4 wc (by simpa using hw), unLe_le 8 shard (by simpa using hs),
        unLe_le 4 seqno (by simpa using hq)]
    · have := liteapi_decode_encode _ _ _ [] fuel (hb wc shard seqno root file hw hs hq hr hf)
        (by simp [Val.depth, depthList]; omega)
      simpa using this

/-! ### the length prefix of `bytes`/`string`: regenerated Go code against the model -/

/-- tie (X4, regenerated from tl/encoder.go / liteclient/client.go): the Go function `tl.EncodeLength`, translated to
`BitVec 64` arithmetic on every run (`Gen.TlLength.EncodeLength`), yields on every non-negative `int` exactly the bytes
of the model's `Tl.encLen` (one byte below 254, otherwise `254` and the three low bytes little-endian), which is the
length prefix used by `encBytes` in every theorem above. -/
theorem gen_EncodeLength (n : Nat) (h : n < 2 ^ 63) :
    Gen.TlLength.EncodeLength (BitVec.ofNat 64 n) = (Tl.encLen n).map UInt8.toBitVec :=
  GenTies.gen_EncodeLength n h

/-- tie (X4, regenerated from tl/encoder.go / liteclient/client.go): liteclient's private copy `encodeLength` is the
same function as `tl.EncodeLength` on every `int` (hence also tied to `Tl.encLen` by `gen_EncodeLength`). -/
theorem gen_encodeLength_liteclient (i : BitVec 64) :
    Gen.TlLength.encodeLengthLiteclient i = Gen.TlLength.EncodeLength i :=
  GenTies.gen_encodeLength_liteclient i

/-! ### non-vacuity (tests on literals) -/

example : encodeRequest liteApi "liteServer.getTime" [] = some [0x34, 0x5a, 0xad, 0x16] := by decide +kernel

example : (encodeRequest liteApi "liteServer.lookupBlock"
    [.num 2, .tuple [.num 0xffffffff, .num 0x8000000000000000, .num 7], .num 9, .absent]).isSome = true := by
  decide +kernel

/-- non-vacuity of `liteapi_steps_eq_schema`: a value of `liteServer.transactionId` (three conditional fields, bits 0 and 2
set, bit 1 clear) satisfies its hypotheses, so the generated `LiteServerTransactionIdC.MarshalTL` steps write its schema
encoding and the `UnmarshalTL` steps read it back (a test on a literal value, not a proof about all inputs) -/
def exTxId : Val := .tuple [.num 5, .raw (List.replicate 32 7), .absent, .raw (List.replicate 32 9)]

example : (encode liteApi (.bare "liteServer.transactionId") exTxId).isSome = true ∧
    Bind.tyRefsOk liteApi tlBindings (.bare "liteServer.transactionId") = true := by decide +kernel

example (bs : Bytes) (h : encode liteApi (.bare "liteServer.transactionId") exTxId = some bs) :
    Bind.marshalGo tlBindings 9 (.named "LiteServerTransactionIdC") (Bind.rep liteApi (.bare "liteServer.transactionId") exTxId)
      = some bs ∧
    ∀ rest, Bind.unmarshalGo tlBindings 9 (.named "LiteServerTransactionIdC") (bs ++ rest)
      = .ok (Bind.rep liteApi (.bare "liteServer.transactionId") exTxId, rest) := by
  have := liteapi_steps_eq_schema (.bare "liteServer.transactionId") exTxId bs 9 (by decide) (by decide +kernel) h (by decide)
  exact ⟨this.1, this.2.1⟩

end Tongo.C10
