import TongoModel.PoolSelect
/-! Transition system of the wait list of `liteapi/pool` (conn_pool.go: Run, updateBest, notifySubscribers, subscribe,
unsubscribe, WaitMasterchainSeqno; connection.go: SetMasterHead, MasterHead). Core Lean only, executable.

Threads: the pool's `Run` loop (one), any number of `SetMasterHead` callers ("setters"), any number of
`WaitMasterchainSeqno` callers ("waiters"). Shared state: `bestConn`, the head of every connection, the connection
mutexes, `masterHeadUpdatedCh` (capacity 10), the pool's RWMutex, the wait list `id ↦ chan(1)`.

Granularity: every operation that can BLOCK (mutex acquisition, channel send/receive, select) is its own step; a
critical section that contains no blocking operation is one step together with its lock/unlock. The only reader of
the pool RWMutex that is modelled is `Run` (inside `notifySubscribers`), so "writer waits for readers / readers wait
for a pending writer" of Go's RWMutex reduces to: `Lock` needs no reader and no writer, `RLock` needs no writer.

Two code variants are modelled (`Variant`):
* `nbNotify = false`: `for _, ch := range p.waitList { ch <- update.Head }` — a blocking send under `RLock`
  (original code); `nbNotify = true`: the repaired loop — take an unread head out of the channel, keep the newer of
  the two, put it back with a non-blocking send.
* `pubUnlocked = false`: `SetMasterHead` sends to `masterHeadUpdatedCh` while holding the connection mutex (original);
  `pubUnlocked = true`: it releases the mutex first (repaired).
* `oneSnapshot = false`: `updateBest` reads every head twice (original); `true`: once (repaired).
* `notifySwitch = false`: a switch of the best connection notifies nobody (original); `true`: repaired.
* `timerOnce = false`: `WaitMasterchainSeqno` evaluates `time.After(timeout)` inside its loop, so every received head
  below the target starts the timeout again (original); `true`: one timer armed when the wait begins (repaired).

The timeout of a waiter is STATE (round 4): `timer = armed` from the moment the waiter enters its select; the
environment action `wDeadline` (the timeout has elapsed) makes it `due`; only then can the waiter's select take the
timer case (`wFire`). Context cancellation (`wCancel`) is an environment action enabled whenever the waiter is in its
select.

Actions (23): Run — tick, ubLock, ubRead, ubSel, ubSet, recv, nRLock, nCheck, nSend, nDrain, nPut, nDone; waiters —
wLock, wSub, wRecv, wDeadline, wFire, wCancel, wUnsub; SetMasterHead callers — sLock, sSend; environment — setAlive,
setRtt. Pool start-up (`addConnection`: order of the members, initial best connection) is `startPool` below.

`updateBest` is modelled read by read (round 2; no abstraction of the choice): under the write lock the first loop
reads `MasterHead()` of every member in order (each read needs that member's mutex) — `ubRead`; the selection loop
reads `IsOK()` of every member and, in the original code (`oneSnapshot = false`), `MasterHead()` and
`AverageRoundTrip()` AGAIN — `ubSel` (the repaired code reads the round-trip times in the first loop too); `ubSet` then stores exactly `PoolSelect.selectWith` applied to the maximum of the
first loop and to what the selection loop read. SetMasterHead callers may move heads between any two reads. With
`notifySwitch` a change of the choice offers the new member's (snapshot) head to every waiter, still under the write
lock. Liveness / round-trip time of a member are environment-controlled (`setAlive`, `setRtt`). The ticker of `Run`
(`tick`), a waiter's timeout elapsing (`wDeadline`) and its context being cancelled (`wCancel`) are environment
actions; `wFire` (the select taking the elapsed timer) is the waiter's own step. Ghost fields (`received`, `fired`, `offered`, `log`) record history for the theorems
and do not influence any step. -/
namespace Tongo.PoolSM
open Tongo.PoolSelect (Conn Strategy selectWith maxOfSeqs)

structure Variant where
  nbNotify : Bool
  pubUnlocked : Bool
  oneSnapshot : Bool := true
  notifySwitch : Bool := true
  timerOnce : Bool := true
  deriving DecidableEq, Repr

/-- the code as originally written -/
def orig : Variant := ⟨false, false, false, false, false⟩
/-- the repaired code -/
def fixed : Variant := ⟨true, true, true, true, true⟩

/-- capacity of `masterHeadUpdatedCh` -/
def updCap : Nat := 10

/-- the pool's RWMutex: free, read-held (by Run), write-held by Run (updateBest) or by waiter `i` -/
inductive RW where
  | free
  | rd
  | wrRun
  | wrW (i : Nat)
  deriving DecidableEq, Repr, Inhabited

/-- program counter of the `Run` loop -/
inductive RunPc where
  /-- parked in `select { ctx.Done, tick, update }` -/
  | idle
  /-- tick received: at `p.mu.Lock()` of updateBest -/
  | ubWant
  /-- first loop of updateBest: holding the write lock, about to call `conns[i].MasterHead()` (and, repaired code,
  `AverageRoundTrip()`); `seqs` / `rts` = heads / round-trip times read so far -/
  | ubRead (i : Nat) (seqs : List (BitVec 32)) (rts : List Int)
  /-- selection loop: about to look at member `i` (IsOK, AverageRoundTrip and — original code — MasterHead again);
  `acc` = what the loop has read so far; `i = number of members`: about to store -/
  | ubSel (i : Nat) (seqs : List (BitVec 32)) (rts : List Int) (acc : List Conn)
  /-- update `(c, h)` received: at `p.mu.RLock()` of notifySubscribers -/
  | nWant (c h : Nat)
  /-- holding the read lock, at the `bestConn == nil` / `update.Conn.ID() != p.bestConn.ID()` test -/
  | nCheck (c h : Nat)
  /-- iterating over the wait list with head `h`: channels (by waiter index) still to be served. `sw = false`: inside
  notifySubscribers (read lock held); `sw = true`: inside updateBest after a switch (write lock held) -/
  | nLoop (sw : Bool) (h : Nat) (todo : List Nat)
  /-- repaired code only: between the draining select and the sending select for the channel of waiter `w`;
  `h'` is the head to put -/
  | nPut (sw : Bool) (h h' : Nat) (w : Nat) (todo : List Nat)
  deriving DecidableEq, Repr, Inhabited

inductive WRes where
  | ok
  | err
  | panic
  deriving DecidableEq, Repr, Inhabited

/-- the timeout of a waiter: not started, running, elapsed (its channel is ready) -/
inductive Timer where
  | off
  | armed
  | due
  deriving DecidableEq, Repr, Inhabited

/-- program counter of a `WaitMasterchainSeqno` caller -/
inductive WPc where
  /-- at `p.mu.Lock()` of subscribe (not arrived yet, or blocked) -/
  | start
  /-- holding the write lock, at `p.bestConn.MasterHead()` -/
  | subRead
  /-- in `select { ctx.Done, time.After, ch }` -/
  | sel
  /-- result decided, at `p.mu.Lock()` of the deferred unsubscribe -/
  | leave (r : WRes)
  | done (r : WRes)
  deriving DecidableEq, Repr, Inhabited

structure Waiter where
  target : Nat
  pc : WPc := .start
  /-- its channel, capacity 1 -/
  buf : List Nat := []
  /-- its wait-list id; 0 = not registered -/
  wid : Nat := 0
  /-- ghost: every head received from the channel, newest first -/
  received : List Nat := []
  timer : Timer := .off
  /-- ghost: the select took the timer case or the context was cancelled -/
  fired : Bool := false
  /-- ghost: the largest head notifySubscribers has offered to this waiter's channel -/
  offered : Option Nat := none
  deriving DecidableEq, Repr, Inhabited

inductive SPc where
  /-- at `c.mu.Lock()` -/
  | start
  /-- original code: head stored, holding the connection mutex, at the channel send -/
  | sendLocked
  /-- repaired code: head stored, mutex released, at the channel send -/
  | sendUnlocked
  | done
  deriving DecidableEq, Repr, Inhabited

structure Setter where
  conn : Nat
  head : Nat
  pc : SPc := .start
  deriving DecidableEq, Repr, Inhabited

structure State where
  /-- `connection.masterHead.Seqno` per connection -/
  heads : List Nat
  /-- connection mutexes: the setter holding it -/
  connLock : List (Option Nat)
  best : Option Nat
  /-- `IsOK()` per member (environment) -/
  alive : List Bool := []
  /-- `AverageRoundTrip()` per member (environment) -/
  rtt : List Int := []
  strategy : Strategy := .bestPing
  /-- `masterHeadUpdatedCh` -/
  upd : List (Nat × Nat) := []
  rw : RW := .free
  /-- `waitList`: (id, waiter index whose channel it is) -/
  waitList : List (Nat × Nat) := []
  nextId : Nat := 0
  run : RunPc := .idle
  waiters : List Waiter
  setters : List Setter
  /-- ghost: every head offered to a waiter's channel (by subscribe's short circuit or by notifySubscribers):
  (waiter, connection that was best at that moment and reported it, head) -/
  log : List (Nat × Nat × Nat) := []
  deriving DecidableEq, Repr, Inhabited

inductive Action where
  | tick
  | ubLock
  | ubRead
  | ubSel
  | ubSet
  | recv
  | nRLock
  | nCheck
  | nSend (w : Nat)
  | nDrain (w : Nat)
  | nPut
  | nDone
  | wLock (i : Nat)
  | wSub (i : Nat)
  | wRecv (i : Nat)
  | wDeadline (i : Nat)
  | wFire (i : Nat)
  | wCancel (i : Nat)
  | wUnsub (i : Nat)
  | sLock (j : Nat)
  | sSend (j : Nat)
  | setAlive (c : Nat) (b : Bool)
  | setRtt (c : Nat) (r : Int)
  deriving DecidableEq, Repr, Inhabited

/-- environment actions: the ticker, a waiter's timeout elapsing / its context being cancelled, liveness and
round-trip time of a member. (`wFire`, the select taking the ready timer case, is the waiter's own step.) -/
def Action.isEnv : Action → Bool
  | .tick => true
  | .wDeadline _ => true
  | .wCancel _ => true
  | .setAlive _ _ => true
  | .setRtt _ _ => true
  | _ => false

def State.setW (s : State) (i : Nat) (w : Waiter) : State := { s with waiters := s.waiters.set i w }
def State.setS (s : State) (j : Nat) (x : Setter) : State := { s with setters := s.setters.set j x }

def connFree (s : State) (c : Nat) : Bool := (s.connLock.getD c none).isNone

def step (v : Variant) (s : State) : Action → Option State
  -- ---------------------------------------------------------------- Run: updateBest
  | .tick => if s.run = .idle then some { s with run := .ubWant } else none
  | .ubLock => if s.run = .ubWant ∧ s.rw = .free then some { s with run := .ubRead 0 [] [], rw := .wrRun } else none
  | .ubRead => match s.run with
    | .ubRead i seqs rts =>
      if i < s.heads.length then
        if connFree s i then
          some { s with run := .ubRead (i + 1) (seqs ++ [BitVec.ofNat 32 (s.heads.getD i 0)]) (rts ++ [s.rtt.getD i 0]) }
        else none
      else some { s with run := .ubSel 0 seqs rts [] }
    | _ => none
  | .ubSel => match s.run with
    | .ubSel i seqs rts acc =>
      if i < s.heads.length then
        if v.oneSnapshot then
          some { s with run := .ubSel (i + 1) seqs rts (acc ++ [Conn.mk i (s.alive.getD i false)
            (seqs.getD i 0) (rts.getD i 0)]) }
        else if connFree s i then
          some { s with run := .ubSel (i + 1) seqs rts (acc ++ [Conn.mk i (s.alive.getD i false)
            (BitVec.ofNat 32 (s.heads.getD i 0)) (s.rtt.getD i 0)]) }
        else none
      else none
    | _ => none
  | .ubSet => match s.run with
    | .ubSel i seqs _ acc =>
      if s.heads.length ≤ i then
        match selectWith false s.strategy (maxOfSeqs seqs) acc with
        | none => some { s with run := .idle, rw := .free }
        | some c =>
          if v.notifySwitch ∧ s.best ≠ some c.id ∧ 0 < c.seqno.toNat then
            some { s with best := some c.id, run := .nLoop true c.seqno.toNat (s.waitList.map (·.2)) }
          else some { s with best := some c.id, run := .idle, rw := .free }
      else none
    | _ => none
  -- ---------------------------------------------------------------- Run: notifySubscribers
  | .recv => match s.run, s.upd with
    | .idle, (c, h) :: rest => some { s with run := .nWant c h, upd := rest }
    | _, _ => none
  | .nRLock => match s.run with
    | .nWant c h => if s.rw = .free then some { s with rw := .rd, run := .nCheck c h } else none
    | _ => none
  | .nCheck => match s.run with
    | .nCheck c h =>
      if s.best = some c then some { s with run := .nLoop false h (s.waitList.map (·.2)) }
      else some { s with run := .idle, rw := .free }
    | _ => none
  | .nSend w => match s.run with
    | .nLoop sw h todo =>
      if !v.nbNotify ∧ w ∈ todo then
        match s.waiters[w]? with
        | some x =>
          if x.buf.length < 1 then
            some { (s.setW w { x with buf := x.buf ++ [h] }) with
              run := .nLoop sw h (todo.erase w), log := s.log ++ [(w, s.best.getD 0, h)] }
          else none
        | none => none
      else none
    | _ => none
  | .nDrain w => match s.run with
    | .nLoop sw h todo =>
      if v.nbNotify ∧ w ∈ todo then
        match s.waiters[w]? with
        | some x =>
          let off := match x.offered with | none => h | some m => max m h
          match x.buf with
          | u :: rest => some { (s.setW w { x with buf := rest, offered := some off }) with
              run := .nPut sw h (max u h) w (todo.erase w), log := s.log ++ [(w, s.best.getD 0, h)] }
          | [] => some { (s.setW w { x with offered := some off }) with
              run := .nPut sw h h w (todo.erase w), log := s.log ++ [(w, s.best.getD 0, h)] }
        | none => none
      else none
    | _ => none
  | .nPut => match s.run with
    | .nPut sw h h' w todo =>
      match s.waiters[w]? with
      | some x =>
        if x.buf.length < 1 then some { (s.setW w { x with buf := x.buf ++ [h'] }) with run := .nLoop sw h todo }
        else some { s with run := .nLoop sw h todo }
      | none => none
    | _ => none
  | .nDone => match s.run with
    | .nLoop _ _ [] => some { s with run := .idle, rw := .free }
    | _ => none
  -- ---------------------------------------------------------------- waiters
  | .wLock i => match s.waiters[i]? with
    | some x => if x.pc = .start ∧ s.rw = .free then some { (s.setW i { x with pc := .subRead }) with rw := .wrW i } else none
    | none => none
  | .wSub i => match s.waiters[i]? with
    | some x =>
      if x.pc = .subRead then
        match s.best with
        | none => some { (s.setW i { x with pc := .done .panic }) with rw := .free }
        | some c =>
          if connFree s c then
            let hd := s.heads.getD c 0
            if x.target ≤ hd then
              some { (s.setW i { x with pc := .sel, buf := [hd], wid := 0, timer := .armed }) with
                rw := .free, log := s.log ++ [(i, c, hd)] }
            else
              some { (s.setW i { x with pc := .sel, wid := s.nextId + 1, timer := .armed }) with
                rw := .free, nextId := s.nextId + 1, waitList := s.waitList ++ [(s.nextId + 1, i)] }
          else none
      else none
    | none => none
  | .wRecv i => match s.waiters[i]? with
    | some x =>
      if x.pc = .sel then
        match x.buf with
        | h :: rest =>
          some (s.setW i { x with buf := rest, received := h :: x.received,
                                  pc := if x.target ≤ h then .leave .ok else .sel,
                                  timer := if v.timerOnce then x.timer else .armed })
        | [] => none
      else none
    | none => none
  | .wDeadline i => match s.waiters[i]? with
    | some x => if x.pc = .sel ∧ x.timer = .armed then some (s.setW i { x with timer := .due }) else none
    | none => none
  | .wFire i => match s.waiters[i]? with
    | some x =>
      if x.pc = .sel ∧ x.timer = .due then some (s.setW i { x with pc := .leave .err, fired := true }) else none
    | none => none
  | .wCancel i => match s.waiters[i]? with
    | some x => if x.pc = .sel then some (s.setW i { x with pc := .leave .err, fired := true }) else none
    | none => none
  | .wUnsub i => match s.waiters[i]? with
    | some x => match x.pc with
      | .leave r =>
        if s.rw = .free then
          some { (s.setW i { x with pc := .done r }) with waitList := s.waitList.filter (fun e => e.1 != x.wid) }
        else none
      | _ => none
    | none => none
  -- ---------------------------------------------------------------- SetMasterHead callers
  | .sLock j => match s.setters[j]? with
    | some x =>
      if x.pc = .start ∧ connFree s x.conn then
        if s.heads.getD x.conn 0 < x.head then
          if v.pubUnlocked then
            some { (s.setS j { x with pc := .sendUnlocked }) with heads := s.heads.set x.conn x.head }
          else
            some { (s.setS j { x with pc := .sendLocked }) with
              heads := s.heads.set x.conn x.head, connLock := s.connLock.set x.conn (some j) }
        else some (s.setS j { x with pc := .done })
      else none
    | none => none
  | .sSend j => match s.setters[j]? with
    | some x =>
      if s.upd.length < updCap then
        match x.pc with
        | .sendLocked => some { (s.setS j { x with pc := .done }) with
            upd := s.upd ++ [(x.conn, x.head)], connLock := s.connLock.set x.conn none }
        | .sendUnlocked => some { (s.setS j { x with pc := .done }) with upd := s.upd ++ [(x.conn, x.head)] }
        | _ => none
      else none
    | none => none
  -- ---------------------------------------------------------------- environment: members die, revive, slow down
  | .setAlive c b => if c < s.alive.length then some { s with alive := s.alive.set c b } else none
  | .setRtt c r => if c < s.rtt.length then some { s with rtt := s.rtt.set c r } else none

/-! ### pool start-up: `addConnection` -/

/-- position of a new member: `sort.Slice(p.conns, func(i, j) { return p.conns[i].ID() < p.conns[j].ID() })` on
distinct ids -/
def insertId (id : Nat) : List Nat → List Nat
  | [] => [id]
  | x :: xs => if id < x then id :: x :: xs else x :: insertId id xs

/-- `addConnection`: the member list stays ordered by id (= position in the configuration), and
`if len(p.conns) == 1 { p.bestConn = c }`: the first connection that arrives becomes the initial best one -/
def addConn (st : List Nat × Option Nat) (id : Nat) : List Nat × Option Nat :=
  (insertId id st.1, if (insertId id st.1).length = 1 then some id else st.2)

/-- members (by id) and best connection after the connections have arrived in the given order -/
def startPool (arrival : List Nat) : List Nat × Option Nat := arrival.foldl addConn ([], none)

/-- run a list of actions; `none` if one of them is not enabled -/
def runTrace (v : Variant) (s : State) : List Action → Option State
  | [] => some s
  | a :: as => match step v s a with
    | some s' => runTrace v s' as
    | none => none

/-- initial states: nobody has started; any number of waiters (any targets) and setters (any connection / head) -/
def mkInit (heads : List Nat) (best : Option Nat) (targets : List Nat) (pubs : List (Nat × Nat))
    (strategy : Strategy := .bestPing) (rtts : List Int := []) : State :=
  { heads := heads, connLock := heads.map (fun _ => none), best := best,
    alive := heads.map (fun _ => true), rtt := heads.zipIdx.map (fun (_, i) => rtts.getD i 1), strategy := strategy,
    waiters := targets.map (fun t => { target := t }),
    setters := pubs.map (fun p => { conn := p.1, head := p.2 }) }

/-- candidate actions of a state (every action that can possibly be enabled is among them, `step_some_mem`) -/
def allActions (s : State) : List Action :=
  [.tick, .ubLock, .ubRead, .ubSel, .ubSet, .recv, .nRLock, .nCheck, .nPut, .nDone]
  ++ (List.range s.waiters.length).flatMap (fun i => [.nSend i, .nDrain i, .wLock i, .wSub i, .wRecv i, .wDeadline i, .wFire i, .wCancel i, .wUnsub i])
  ++ (List.range s.setters.length).flatMap (fun j => [.sLock j, .sSend j])

def enabledActions (v : Variant) (s : State) : List Action :=
  (allActions s).filter (fun a => (step v s a).isSome)

/-- every thread is finished or parked in its select on an empty channel with its timeout not yet elapsed: only the
environment can make anything happen (a ticker tick, a timeout elapsing, a cancellation, a new head) -/
def quiescent (s : State) : Bool :=
  s.run == .idle && s.upd.isEmpty &&
  s.waiters.all (fun w => (w.pc == .sel && w.buf.isEmpty && w.timer != .due) ||
    match w.pc with | .done _ => true | _ => false) &&
  s.setters.all (fun x => x.pc == .done)

/-- nothing at all can happen (not even an environment action) although some thread has not finished -/
def deadlocked (v : Variant) (s : State) : Bool :=
  (enabledActions v s).isEmpty && !quiescent s

end Tongo.PoolSM
