/-! Go fixed-width integer semantics used by the X4 translator output (`TongoGen/*.lean`) and by the hand models.

Every Go integer type of width `n` (`uint64`, `int64`, `int`, `uint32`, `levelMask`, ...) is a `BitVec n`; signedness is
not part of the Lean type, it selects the operation (`>>>` vs `sshiftRight`, `ult` vs `slt`, `/` vs `sdiv`,
`setWidth` vs `signExtend`). `+ - *` wrap around. A shift count is taken as a natural number (`c.toNat`); a count
≥ the width gives 0 (Lean's `BitVec.shiftLeft`/`ushiftRight` by a `Nat` already behave like that). A negative signed
count is a Go panic: the translator proves it impossible by interval analysis or emits an explicit guard.

`math/bits` functions return a Go `int` (64 bit): they are defined here on `Nat` by fuel recursion (structural, so that
`decide`, `simp` and induction work) and wrapped into `BitVec 64`. Core Lean only. -/
namespace Tongo.GoInt

/-- trailing zero count of `n` seen as a `fuel`-bit number (`fuel` if those bits are all 0) -/
def ctzNat : Nat → Nat → Nat
  | 0, _ => 0
  | f + 1, n => if n % 2 = 1 then 0 else ctzNat f (n / 2) + 1

/-- bit length of `n` (0 for 0) as long as `n < 2^fuel` -/
def lenNat : Nat → Nat → Nat
  | 0, _ => 0
  | f + 1, n => if n = 0 then 0 else lenNat f (n / 2) + 1

/-- number of one bits among the low `fuel` bits of `n` -/
def popNat : Nat → Nat → Nat
  | 0, _ => 0
  | f + 1, n => popNat f (n / 2) + n % 2

/-- trailing zeros of a `w`-bit value, `w` for 0 -/
def ctz {w : Nat} (x : BitVec w) : Nat := ctzNat w x.toNat
/-- bit length of a `w`-bit value -/
def len {w : Nat} (x : BitVec w) : Nat := lenNat w x.toNat
/-- population count of a `w`-bit value -/
def pop {w : Nat} (x : BitVec w) : Nat := popNat w x.toNat

/-- math/bits.TrailingZeros64 (result is a Go `int`) -/
def trailingZeros64 (x : BitVec 64) : BitVec 64 := BitVec.ofNat 64 (ctz x)
/-- math/bits.TrailingZeros32 -/
def trailingZeros32 (x : BitVec 32) : BitVec 64 := BitVec.ofNat 64 (ctz x)
/-- math/bits.LeadingZeros64 -/
def leadingZeros64 (x : BitVec 64) : BitVec 64 := BitVec.ofNat 64 (64 - len x)
/-- math/bits.LeadingZeros32 -/
def leadingZeros32 (x : BitVec 32) : BitVec 64 := BitVec.ofNat 64 (32 - len x)
/-- math/bits.OnesCount64 -/
def onesCount64 (x : BitVec 64) : BitVec 64 := BitVec.ofNat 64 (pop x)
/-- math/bits.OnesCount32 -/
def onesCount32 (x : BitVec 32) : BitVec 64 := BitVec.ofNat 64 (pop x)
/-- math/bits.Len64 and math/bits.Len (uint is 64 bit) -/
def len64 (x : BitVec 64) : BitVec 64 := BitVec.ofNat 64 (len x)
/-- math/bits.Len32 -/
def len32 (x : BitVec 32) : BitVec 64 := BitVec.ofNat 64 (len x)

end Tongo.GoInt
