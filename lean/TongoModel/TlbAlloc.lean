import TongoModel.TlbRead
/-! Allocation of the hand-written TL-B decoders that build slices while they recurse over untrusted cell trees
(property C08): the VM stack list (`getStackListItems`) and `BinTree` (`decodeRecursiveBinTree`). Unit: one element of
the slice being built (a `VmStackValue`, a `*boc.Cell`) requested from the allocator or copied by `append`.

Three versions of the stack list: `copying` — the code as found (`res = append(res, rest...)` at every level of the
recursion); `prealloc` — the shape of seeded defect C08-3 (`make([]VmStackValue, 0, depth)` with the 24-bit depth from
the wire); `fixed` — the repaired code (walk down, then decode bottom-up into one slice of the length that was
actually found). Two versions of BinTree: `copying` (a slice per subtree appended in the parent) and `fixed`. -/
namespace Tongo.Tlb
open Tongo

/-- outcome, and elements allocated or copied -/
abbrev Cost (α : Type) := Outcome α × Nat

/-! ### VM stack list -/

/-- one level of the stack list as found: `rec` = the call on the first reference; `tosOk` = the top-of-stack value of
this cell decodes. Copies the `k` values of the rest, then appends one. -/
def stackCopyNode (tosOk : Bool) (depth : Nat) (rec : Option (Nat → Cost Nat)) : Cost Nat :=
  if depth = 0 then (.ok 0, 0)
  else match rec with
    | none => (.err "not enough refs", 0)
    | some go =>
      match go (depth - 1) with
      | (.ok k, a) => if tosOk then (.ok (k + 1), a + k + 1) else (.err "tos", a + k)
      | (.err e, a) => (.err e, a)
      | (.panic p, a) => (.panic p, a)

/-- `tos c`: whether the value stored in cell `c` decodes (the generic decoder, a parameter) -/
def stackCopy (tos : Cell → Bool) : Cell → Nat → Cost Nat
  | .mk ty m bits refs, depth =>
    stackCopyNode (tos (.mk ty m bits refs)) depth (match refs with | c :: _ => some (stackCopy tos c) | [] => none)

/-- the seeded shape: `make([]VmStackValue, 0, depth)` at every level, before the reference is looked at -/
def stackPreallocNode (tosOk : Bool) (depth : Nat) (rec : Option (Nat → Cost Nat)) : Cost Nat :=
  if depth = 0 then (.ok 0, 0)
  else match rec with
    | none => (.err "not enough refs", depth)
    | some go =>
      match go (depth - 1) with
      | (.ok k, a) => if tosOk then (.ok (k + 1), depth + a + k + 1) else (.err "tos", depth + a + k)
      | (.err e, a) => (.err e, depth + a)
      | (.panic p, a) => (.panic p, depth + a)

def stackPrealloc (tos : Cell → Bool) : Cell → Nat → Cost Nat
  | .mk ty m bits refs, depth =>
    stackPreallocNode (tos (.mk ty m bits refs)) depth
      (match refs with | c :: _ => some (stackPrealloc tos c) | [] => none)

/-- repaired, phase 1: the cells of the list, at most `depth` of them (`none`: a reference is missing) -/
def stackWalkNode (self : Cell) (depth : Nat) (rec : Option (Nat → Option (List Cell))) : Option (List Cell) :=
  if depth = 0 then some []
  else match rec with
    | none => none
    | some go => (go (depth - 1)).map (self :: ·)

def stackWalk : Cell → Nat → Option (List Cell)
  | .mk ty m bits refs, depth =>
    stackWalkNode (.mk ty m bits refs) depth (match refs with | c :: _ => some (stackWalk c) | [] => none)

/-- number of cells the walk appended before it stopped (found the whole list or ran out of references) -/
def chainLenNode (depth : Nat) (rec : Option (Nat → Nat)) : Nat :=
  if depth = 0 then 0
  else match rec with
    | none => 0
    | some go => 1 + go (depth - 1)

def chainLen : Cell → Nat → Nat
  | .mk _ _ _ refs, depth => chainLenNode depth (match refs with | c :: _ => some (chainLen c) | [] => none)

/-- repaired, phase 2: decode bottom-up into one slice of `cells.length` elements -/
def decodeAll (tos : Cell → Bool) : List Cell → Bool
  | [] => true
  | c :: cs => decodeAll tos cs && tos c

def stackFixed (tos : Cell → Bool) (c : Cell) (depth : Nat) : Cost Nat :=
  match stackWalk c depth with
  | none => (.err "not enough refs", chainLen c depth)          -- the pointers appended so far
  | some cells =>
    if cells.isEmpty then (.ok 0, 0)
    else if decodeAll tos cells then (.ok cells.length, cells.length + cells.length)   -- pointers + make(len(cells))
    else (.err "tos", cells.length + cells.length)

/-- a stack of depth `d`: `d + 1` cells -/
def stackChain : Nat → Cell
  | 0 => .mk 0 0 [] []
  | d + 1 => .mk 0 0 [] [stackChain d]

/-! ### BinTree -/

/-- as found: every subtree returns its own slice, the parent appends both -/
def binCopyNode (bits : List Bool) (recL recR : Option (Cost Nat)) : Cost Nat :=
  match bits with
  | [] => (.err "not enough bits", 0)
  | false :: _ => (.ok 1, 1)
  | true :: _ =>
    match recL with
    | none => (.err "not enough refs", 0)
    | some (.err e, a1) => (.err e, a1)
    | some (.panic p, a1) => (.panic p, a1)
    | some (.ok k1, a1) =>
      match recR with
      | none => (.err "not enough refs", a1 + k1)
      | some (.err e, a2) => (.err e, a1 + k1 + a2)
      | some (.panic p, a2) => (.panic p, a1 + k1 + a2)
      | some (.ok k2, a2) => (.ok (k1 + k2), a1 + k1 + a2 + k2)

def binCopy : Cell → Cost Nat
  | .mk _ _ bits refs =>
    binCopyNode bits (match refs with | l :: _ => some (binCopy l) | [] => none)
      (match refs with | _ :: r :: _ => some (binCopy r) | _ => none)

/-- repaired: one slice, one append per leaf -/
def binFixedNode (bits : List Bool) (recL recR : Option (Cost Nat)) : Cost Nat :=
  match bits with
  | [] => (.err "not enough bits", 0)
  | false :: _ => (.ok 1, 1)
  | true :: _ =>
    match recL with
    | none => (.err "not enough refs", 0)
    | some (.err e, a1) => (.err e, a1)
    | some (.panic p, a1) => (.panic p, a1)
    | some (.ok k1, a1) =>
      match recR with
      | none => (.err "not enough refs", a1)
      | some (.err e, a2) => (.err e, a1 + a2)
      | some (.panic p, a2) => (.panic p, a1 + a2)
      | some (.ok k2, a2) => (.ok (k1 + k2), a1 + a2)

def binFixed : Cell → Cost Nat
  | .mk _ _ bits refs =>
    binFixedNode bits (match refs with | l :: _ => some (binFixed l) | [] => none)
      (match refs with | _ :: r :: _ => some (binFixed r) | _ => none)

/-- a comb of depth `d`: `2d + 1` cells, the left child of every fork is a leaf -/
def comb : Nat → Cell
  | 0 => .mk 0 0 [false] []
  | d + 1 => .mk 0 0 [true] [.mk 0 0 [false] [], comb d]

end Tongo.Tlb
