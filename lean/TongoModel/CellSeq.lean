import TongoModel.BitOps
/-! Cell-level operation sequences over a HEAP of mutable cells (`boc/cell.go`).

Go cells are pointers: `AddRef` stores a pointer, `NextRef` returns the stored pointer after resetting the counters OF
THE CHILD, `CopyRemaining` shares the children with its source. The model makes this aliasing explicit: a heap is a list
of cells, references are heap indices (so a cell may reference itself or be referenced twice), and every operation
names its target cell by index.

The operations are written ONCE, generically over the representation `β` of the cell's data bits (`BitsI β`): the
byte-level model of `boc.BitString` and the ideal bit list are two instances, `C06.cell_ops_sequence` says they produce
the same outputs. -/
namespace Tongo.CellSeq
open Tongo Tongo.BitString

structure GCell (β : Type) where
  bits : β
  /-- the non-nil prefix of the four reference slots, as heap indices -/
  refs : List Nat
  refCursor : Nat
  deriving Repr

abbrev Heap (β : Type) := List (GCell β)

/-- what the cell code needs from its bit string -/
structure BitsI (β : Type) where
  /-- a read/write method called through the `Cell` wrapper -/
  runOp : ZOp → β → Outcome Out × β
  /-- `ResetCounter` -/
  reset : β → β
  /-- `NewBitString(CellBits)` -/
  fresh : β
  /-- the bit string `ReadRemainingBits()` returns (the receiver's cursor is restored by `CopyRemaining`); a panic
  inside `ReadBits` propagates, an error is dropped by Go (`bs, _ := …`: the zero bit string) -/
  remaining : β → Outcome β
  /-- `len` (for the check of `NewCellWithBits`) -/
  len : β → Nat
  availRead : β → Int
  availWrite : β → Int

inductive CellOp where
  /-- a bit-string method through the `Cell` wrapper (`ReadRemainingBits` included) -/
  | bit (z : ZOp)
  /-- `NewCell()`: a new, unreferenced cell (target ignored) -/
  | newCell
  | addRef (child : Nat)
  | newRef
  | nextRef
  | resetCounters
  | copyRemaining
  | refsSize
  | refsAvailableForRead
  | bitsAvailableForRead
  | bitsAvailableForWrite
  deriving Repr, DecidableEq, Inhabited

def CellOp.WF : CellOp → Prop
  | .bit z => z.WF
  | _ => True

instance : (op : CellOp) → Decidable op.WF
  | .bit z => by unfold CellOp.WF; exact inferInstance
  | .newCell | .addRef _ | .newRef | .nextRef | .resetCounters | .copyRemaining | .refsSize
  | .refsAvailableForRead | .bitsAvailableForRead | .bitsAvailableForWrite => by unfold CellOp.WF; exact inferInstance

def errNoCell := "no such cell"
def errTooManyRefs := "too many refs"
def errNotEnoughRefs := "not enough refs"
def cellBits : Nat := 1023

section
variable {β : Type} (I : BitsI β)

def freshCell : GCell β := { bits := I.fresh, refs := [], refCursor := 0 }

/-- `AddRef`: first free slot of four -/
def addRefH (h : Heap β) (t child : Nat) : Outcome Unit × Heap β :=
  match h[t]? with
  | none => (.err errNoCell, h)
  | some c =>
    if child ≥ h.length then (.err errNoCell, h)
    else if c.refs.length < 4 then (.ok (), h.set t { c with refs := c.refs ++ [child] })
    else (.err errTooManyRefs, h)

/-- `NextRef`: `c.refCursor++; ref.ResetCounters(); return ref` — the child is reset IN THE HEAP (it may be the target
itself or be shared with other cells) -/
def nextRefH (h : Heap β) (t : Nat) : Outcome Nat × Heap β :=
  match h[t]? with
  | none => (.err errNoCell, h)
  | some c =>
    if c.refCursor > 3 then (.err errNotEnoughRefs, h)
    else match c.refs[c.refCursor]? with
      | none => (.err errNotEnoughRefs, h)
      | some id =>
        let h1 := h.set t { c with refCursor := c.refCursor + 1 }
        let h2 := match h1[id]? with
          | some ch => h1.set id { ch with bits := I.reset ch.bits, refCursor := 0 }
          | none => h1
        (.ok id, h2)

/-- the reference loop of `CopyRemaining`: `n` times `NextRef` on the source and `AddRef` on the copy (a failure of
either is an explicit `panic` in Go) -/
def copyLoop : Nat → Heap β → (t newId : Nat) → Outcome Unit × Heap β
  | 0, h, _, _ => (.ok (), h)
  | n + 1, h, t, newId =>
    match nextRefH I h t with
    | (.ok id, h1) =>
      match addRefH h1 newId id with
      | (.ok _, h2) => copyLoop n h2 t newId
      | (_, h2) => (.panic errTooManyRefs, h2)
    | (_, h1) => (.panic errNotEnoughRefs, h1)

/-- `CopyRemaining` -/
def copyRemainingH (h : Heap β) (t : Nat) : Outcome Nat × Heap β :=
  match h[t]? with
  | none => (.err errNoCell, h)
  | some c =>
    match I.remaining c.bits with
    | .panic p => (.panic p, h)
    | .err e => (.err e, h)
    | .ok b =>
      if I.len b > cellBits then (.panic "bit string not fit to Cell", h)
      else
        let newId := h.length
        let h0 := h ++ [{ bits := b, refs := [], refCursor := 0 }]
        match copyLoop I (c.refs.length - c.refCursor) h0 t newId with
        | (.ok _, h1) =>
          -- c.refCursor = refCursor (the saved value)
          match h1[t]? with
          | some c1 => (.ok newId, h1.set t { c1 with refCursor := c.refCursor })
          | none => (.ok newId, h1)
        | (.err e, h1) => (.err e, h1)
        | (.panic p, h1) => (.panic p, h1)

def onCell (h : Heap β) (t : Nat) (f : GCell β → Outcome Out × GCell β) : Outcome Out × Heap β :=
  match h[t]? with
  | none => (.err errNoCell, h)
  | some c => let (r, c') := f c; (r, h.set t c')

/-- one cell-level operation on cell `t` of the heap -/
def step (h : Heap β) (t : Nat) : CellOp → Outcome Out × Heap β
  | .bit z => onCell h t fun c => let (r, b) := I.runOp z c.bits; (r, { c with bits := b })
  | .newCell => (.ok (.nat h.length), h ++ [freshCell I])
  | .addRef child =>
    match addRefH h t child with
    | (.ok _, h') => (.ok .unit, h')
    | (.err e, h') => (.err e, h')
    | (.panic p, h') => (.panic p, h')
  | .newRef =>
    -- n := NewCell(); return n, c.AddRef(n)   (the new cell exists even when AddRef fails)
    match h[t]? with
    | none => (.err errNoCell, h)
    | some _ =>
      let h0 := h ++ [freshCell I]
      match addRefH h0 t h.length with
      | (.ok _, h') => (.ok (.nat h.length), h')
      | (.err e, h') => (.err e, h')
      | (.panic p, h') => (.panic p, h')
  | .nextRef =>
    match nextRefH I h t with
    | (.ok id, h') => (.ok (.nat id), h')
    | (.err e, h') => (.err e, h')
    | (.panic p, h') => (.panic p, h')
  | .resetCounters => onCell h t fun c => (.ok .unit, { c with bits := I.reset c.bits, refCursor := 0 })
  | .copyRemaining =>
    match copyRemainingH I h t with
    | (.ok id, h') => (.ok (.nat id), h')
    | (.err e, h') => (.err e, h')
    | (.panic p, h') => (.panic p, h')
  | .refsSize => onCell h t fun c => (.ok (.nat c.refs.length), c)
  | .refsAvailableForRead => onCell h t fun c => (.ok (.int ((c.refs.length : Int) - c.refCursor)), c)
  | .bitsAvailableForRead => onCell h t fun c => (.ok (.int (I.availRead c.bits)), c)
  | .bitsAvailableForWrite => onCell h t fun c => (.ok (.int (I.availWrite c.bits)), c)

/-- a sequence of (target, operation) pairs; stops after the first panic -/
def runAll : List (Nat × CellOp) → Heap β → List (Outcome Out) × Heap β
  | [], h => ([], h)
  | (t, op) :: rest, h =>
    match step I h t op with
    | (.panic p, h') => ([.panic p], h')
    | (r, h') => let (rs, h'') := runAll rest h'; (r :: rs, h'')

end

/-! ### the two instances -/

/-- the byte-level model of `boc.BitString` -/
def implI : BitsI BitString where
  runOp := ZOp.run
  reset := fun s => { s with rCursor := 0 }
  fresh := BitString.new cellBits
  remaining := fun s =>
    match BitString.readRemainingBits s with
    | (.ok r, _) => .ok r
    | (.err _, _) => .ok { buf := [], cap := 0, len := 0, rCursor := 0 }   -- `bs, _ := s.ReadBits(...)`: the zero value
    | (.panic p, _) => .panic p
  len := fun s => s.len
  availRead := BitString.bitsAvailableForRead
  availWrite := BitString.bitsAvailableForWrite

/-- the ideal bit list with capacity and position -/
def specI : BitsI Ideal where
  runOp := ZOp.spec
  reset := fun t => { t with pos := 0 }
  fresh := ⟨[], cellBits, 0⟩
  remaining := fun t => .ok ⟨t.bits.drop t.pos, t.bits.length - t.pos, 0⟩
  len := fun t => t.bits.length
  availRead := fun t => (t.bits.length : Int) - t.pos
  availWrite := fun t => (t.cap : Int) - t.bits.length

/-- `NewCell()` as the initial heap -/
def initImpl : Heap BitString := [freshCell implI]
def initSpec : Heap Ideal := [freshCell specI]

end Tongo.CellSeq
