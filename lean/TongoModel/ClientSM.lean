/-! Labelled transition system of the lite-client request path (`liteclient/client.go`: `Request`, `registerCallback`,
`unregisterCallback`, `reader`, `processQueryAnswer`; `liteclient/connection.go`: `Send`, `reconnect`,
`setupEncryptedConnection`, `reader`). Each action is one critical section (or one channel operation) of the Go code;
the environment (server, network, timers) chooses `deliver`, `connDrop`, `sockDead`, `timeout`, reconnect outcomes.

* `Request` of call `k` (any number of calls, indexed by `Nat`, each with the id `idOf k` it draws):
  `register` (queriesMutex: `queries[id] = make(chan, 1)`), `pickConn` (connMutex, round-robin), `send`
  (Connection.mu: fails unless `Connected`; a failing write spawns `go reconnect()`), then the `select`:
  `recv` (a value is in the channel) or `timeout` (ctx.Done; enabled at any time — the deadline is the environment's),
  finally the deferred `unregister` (queriesMutex: `delete(queries, id)`).
* `Client.reader` of connection `c`: `deliver c pkt` for ANY packet the environment puts on that connection: answers
  with any id in any order, duplicates, malformed bodies, packets that are not answers. `processQueryAnswer` is two
  steps: lookup + delete under the mutex (`deliver`), then the channel send (`chanSend`) — other actions may run in
  between. A send on a full channel would block the reader for ever: recorded as `readerBlocked`.
* `Connection.Send` writes to the socket WHILE HOLDING `Connection.mu`, the write has no deadline and is not
  context-aware: `sendBegin` takes the mutex (`writer`), `writeDone`/`writeFail` end the write and release it. While a
  peer does not read (`canWrite = false`: its TCP window is closed) the write BLOCKS, the mutex stays taken, and every
  other goroutine that needs it — other callers' `Send`, the ping goroutine, `reconnect()` — waits; the caller inside the
  write is not in its `select`, so its `timeout` is not enabled. The reader goroutine does not need the mutex.
* `Connection`: `status`, whether the socket accepts writes, whether a reader goroutine consumes packets, number of
  running reconnect loops, number of spawned-but-not-yet-run `go reconnect()` calls. -/
namespace Tongo.ClientSM

abbrev Id := Nat
abbrev Payload := Nat

inductive Res where
  | ok (b : Payload)
  | sendErr
  | timeout
  deriving DecidableEq, Repr, Inhabited

inductive Pc where
  | start
  | registered
  | picked (c : Nat)
  | sending (c : Nat)     -- inside Connection.Send: holds c.mu, the socket write is in progress
  | waiting
  | returning (r : Res)   -- result decided, deferred unregister not yet run
  | returned (r : Res)
  deriving DecidableEq, Repr, Inhabited

/-- the call holds (or may hold) an entry of `queries` -/
def Pc.active : Pc → Bool
  | .registered | .picked _ | .sending _ | .waiting | .returning _ => true
  | _ => false

inductive Status where
  | connecting
  | connected
  deriving DecidableEq, Repr, Inhabited

/-- who holds `Connection.mu` for the duration of a socket write -/
inductive Writer where
  | call (k : Nat)
  | ping
  deriving DecidableEq, Repr, Inhabited

structure Conn where
  status : Status := .connected
  sockOk : Bool := true
  /-- the peer reads what is written (its receive window is open); `false`: a write blocks -/
  canWrite : Bool := true
  /-- the goroutine that holds `Connection.mu` inside a socket write (`none`: the mutex is free) -/
  writer : Option Writer := none
  reader : Bool := true
  loops : Nat := 0
  spawned : Nat := 0
  /-- the value `processQueryAnswer` is about to send, and the call whose channel it holds -/
  pending : Option (Nat × Payload) := none
  deriving DecidableEq, Repr, Inhabited

inductive Body where
  | good (b : Payload)
  | malformed          -- decodeLength fails or the declared length exceeds the data
  deriving DecidableEq, Repr, Inhabited

inductive Packet where
  | answer (id : Id) (body : Body)   -- magic adnl.message.answer and at least 37 bytes
  | other                            -- anything else: pong, short payload, other magic — ignored by the client
  deriving DecidableEq, Repr, Inhabited

structure State where
  queries : Id → Option Nat
  chan : Nat → Option Payload
  pc : Nat → Pc
  conn : Nat → Conn
  nextConn : Nat
  /-- a reader executed `resp <- data` on a full channel (it would block for ever) -/
  readerBlocked : Bool
  /-- ghost: the registration of call k was consumed by a delivered answer -/
  consumed : Nat → Bool
  /-- ghost: queries written to the socket of a connection: (connection, call) -/
  wire : List (Nat × Nat)

inductive Action where
  | register (k : Nat)
  | pickConn (k : Nat)
  | sendBegin (k : Nat)       -- Connection.Send: lock c.mu, test the status, start the write
  | writeDone (k : Nat)       -- the write returned nil: unlock
  | writeFail (k : Nat)       -- the write returned an error: `go reconnect()`, unlock
  | recv (k : Nat)
  | timeout (k : Nat)
  | unregister (k : Nat)
  | deliver (c : Nat) (p : Packet)
  | chanSend (c : Nat)
  | connDrop (c : Nat)        -- the peer closed: the reader goroutine ends; writes may still "succeed"
  | sockDead (c : Nat)        -- writes fail from now on
  | peerStall (c : Nat)       -- the peer stops reading: writes block from now on
  | peerDrain (c : Nat)       -- the peer reads again
  | pingBegin (c : Nat)       -- the ping goroutine's Send takes c.mu and starts writing to a live socket
  | pingDone (c : Nat)        -- ... and its write returns (nil, or an error: `go reconnect()`)
  | pingFail (c : Nat)        -- a Send of the ping goroutine on a dead socket fails at once: `go reconnect()`
  | silence (c : Nat)         -- the reader's 10 s silence timer fires: it calls reconnect() and ends
  | reconnectStart (c : Nat)  -- first critical section of a spawned reconnect()
  | reconnectOk (c : Nat)     -- setupEncryptedConnection succeeded
  | reconnectFail (c : Nat)   -- it failed; sleep, retry
  deriving DecidableEq, Repr, Inhabited

def set {α} (f : Nat → α) (i : Nat) (v : α) : Nat → α := fun j => if j = i then v else f j

def init : State :=
  { queries := fun _ => none, chan := fun _ => none, pc := fun _ => .start, conn := fun _ => {},
    nextConn := 0, readerBlocked := false, consumed := fun _ => false, wire := [] }

/-- the guard and first critical section of `Connection.reconnect` -/
def reconnectBody (cn : Conn) : Conn :=
  if cn.status = .connecting then cn
  else { cn with status := .connecting, sockOk := false, reader := false, loops := cn.loops + 1 }

section
variable (idOf : Nat → Id) (nConn : Nat)

/-- one step; `none` = the action is not enabled in this state -/
def step (s : State) : Action → Option State
  | .register k =>
    if s.pc k = .start then
      some { s with queries := set s.queries (idOf k) (some k), pc := set s.pc k .registered }
    else none
  | .pickConn k =>
    if s.pc k = .registered ∧ 0 < nConn then   -- (with no connection Go panics on the index / modulo)
      some { s with pc := set s.pc k (.picked s.nextConn), nextConn := (s.nextConn + 1) % nConn }
    else none
  | .sendBegin k =>
    match s.pc k with
    | .picked c =>
      let cn := s.conn c
      if cn.writer ≠ none then none                      -- c.mu is taken: this goroutine waits
      else if cn.status ≠ .connected then some { s with pc := set s.pc k (.returning .sendErr) }
      else some { s with pc := set s.pc k (.sending c), conn := set s.conn c { cn with writer := some (.call k) } }
    | _ => none
  | .writeDone k =>
    match s.pc k with
    | .sending c =>
      let cn := s.conn c
      if cn.sockOk ∧ cn.canWrite then
        some { s with pc := set s.pc k .waiting, wire := s.wire ++ [(c, k)],
                      conn := set s.conn c { cn with writer := none } }
      else none                                           -- blocked in Write (or about to fail)
    | _ => none
  | .writeFail k =>
    match s.pc k with
    | .sending c =>
      let cn := s.conn c
      if cn.sockOk then none
      else some { s with pc := set s.pc k (.returning .sendErr),
                         conn := set s.conn c { cn with spawned := cn.spawned + 1, writer := none } }
    | _ => none
  | .recv k =>
    match s.pc k, s.chan k with
    | .waiting, some b => some { s with pc := set s.pc k (.returning (.ok b)), chan := set s.chan k none }
    | _, _ => none
  | .timeout k =>
    if s.pc k = .waiting then some { s with pc := set s.pc k (.returning .timeout) } else none
  | .unregister k =>
    match s.pc k with
    | .returning r => some { s with pc := set s.pc k (.returned r), queries := set s.queries (idOf k) none }
    | _ => none
  | .deliver c p =>
    let cn := s.conn c
    if cn.reader ∧ cn.pending = none then
      match p with
      | .other => some s
      | .answer id body =>
        match s.queries id with
        | none => some s                         -- unknown query: dropped
        | some k =>
          let s' := { s with queries := set s.queries id none, consumed := set s.consumed k true }
          match body with
          | .malformed => some s'                -- error after the delete: nothing is sent
          | .good b => some { s' with conn := set s.conn c { cn with pending := some (k, b) } }
    else none
  | .chanSend c =>
    let cn := s.conn c
    match cn.pending with
    | none => none
    | some (k, b) =>
      match s.chan k with
      | none => some { s with chan := set s.chan k (some b), conn := set s.conn c { cn with pending := none } }
      | some _ => some { s with readerBlocked := true }
  | .connDrop c => some { s with conn := set s.conn c { s.conn c with reader := false } }
  | .sockDead c => some { s with conn := set s.conn c { s.conn c with sockOk := false } }
  | .peerStall c => some { s with conn := set s.conn c { s.conn c with canWrite := false } }
  | .peerDrain c => some { s with conn := set s.conn c { s.conn c with canWrite := true } }
  | .pingBegin c =>
    let cn := s.conn c
    if cn.writer = none ∧ cn.status = .connected ∧ cn.sockOk then
      some { s with conn := set s.conn c { cn with writer := some .ping } }
    else none
  | .pingDone c =>
    let cn := s.conn c
    if cn.writer = some .ping then
      if cn.sockOk ∧ cn.canWrite then some { s with conn := set s.conn c { cn with writer := none } }
      else if cn.sockOk then none                          -- blocked in Write
      else some { s with conn := set s.conn c { cn with writer := none, spawned := cn.spawned + 1 } }
    else none
  | .pingFail c =>
    let cn := s.conn c
    if cn.writer = none ∧ cn.status = .connected ∧ cn.sockOk = false then
      some { s with conn := set s.conn c { cn with spawned := cn.spawned + 1 } }
    else none
  | .silence c =>
    let cn := s.conn c
    -- the reader calls reconnect(), which needs c.mu
    if cn.reader ∧ cn.writer = none then
      some { s with conn := set s.conn c { reconnectBody cn with reader := false } }
    else none
  | .reconnectStart c =>
    let cn := s.conn c
    if cn.spawned > 0 ∧ cn.writer = none then
      some { s with conn := set s.conn c (reconnectBody { cn with spawned := cn.spawned - 1 }) }
    else none
  | .reconnectOk c =>
    let cn := s.conn c
    if cn.loops > 0 ∧ cn.writer = none then
      some { s with conn := set s.conn c { cn with status := .connected, sockOk := true, canWrite := true,
                                                   reader := true, loops := cn.loops - 1 } }
    else none
  | .reconnectFail c => if (s.conn c).loops > 0 then some s else none

/-- run a list of actions; `none` as soon as one is not enabled -/
def run (s : State) : List Action → Option State
  | [] => some s
  | a :: as => match step idOf nConn s a with
    | some s' => run s' as
    | none => none

/-- reachable = result of some enabled action list from `init` -/
def Reachable (s : State) : Prop := ∃ as, run idOf nConn init as = some s

end

/-! ### deadline of a call

`Request` starts with `ctx, cancel := context.WithTimeout(ctx, c.timeout)`: the derived context expires at the EARLIER of
the caller's own deadline (if it has one) and `start + timeout`; a cancellation by the caller counts as a deadline at
the moment of cancelling. The untimed transition system lets `timeout k` fire at any moment; `effectiveDeadline` is the
moment it fires in the code. -/

def effectiveDeadline (start timeout : Nat) (caller : Option Nat) : Nat :=
  match caller with
  | none => start + timeout
  | some d => min (start + timeout) d

/-! ### history validation (executable)

The harness records the EXTERNAL history of a scenario in the order it observed the events; `checkHistory` replays it
on the transition system, inserting the hidden actions (register, pickConn, send, deliver, chanSend, recv, timeout,
unregister, socket death, reconnect steps) and accepts iff every inserted step is enabled and every observed call
result is the one the system produces at that point.

Placement of the hidden actions: answers are delivered when the server writes them (`deliver` is the environment's
action, enabled as soon as the packet exists; a later real delivery only makes `timeout` results possible, which are
enabled in any case); a call's register/pickConn/send are placed when its query is seen by the server, or — for a
call whose query never reaches a server — at the first moment between its begin and its return at which the system
can produce the observed outcome (a failing send needs an unhealthy connection, a lost query a writable one).
The order in which concurrent callers pass the connMutex is not observable from outside, so the round-robin counter
is not replayed: it is placed on the connection the query was observed on. The counter is covered by the theorem
`round_robin` and by the sequential scenario `go.client.roundrobin`. -/

inductive Event where
  | begin (k : Nat)                   -- call k is about to call Request
  | query (k c : Nat)                 -- the server received the query of call k on connection c
  | answer (c : Nat) (k : Nat) (body : Body)  -- the server wrote an answer carrying the id of call k on connection c
  | unknown (c : Nat)                 -- ... an answer with an id no call uses
  | other (c : Nat)                   -- ... a packet that is not an answer
  | drop (c : Nat)                    -- the server closed connection c
  | accepted (c : Nat)                -- the server completed a handshake for connection c again
  | ret (k : Nat) (r : Res)           -- call k returned r
  deriving Repr, Inhabited

inductive Want where
  | sendErr   -- the call will return a send error: its send must fail
  | lost      -- the call will time out and no server ever sees its query
  deriving DecidableEq, Repr, Inhabited

structure Check where
  st : State
  /-- calls whose register/pickConn/send the checker has placed -/
  sent : List Nat
  /-- begun calls whose send is still to be placed -/
  todo : List (Nat × Want)
  /-- connections for which the server completed a new handshake; the client becomes Connected a little later -/
  pendingOk : List Nat := []
  /-- packets the servers wrote that the checker has not delivered yet: (connection, packet), in the order written -/
  queue : List (Nat × Packet) := []
  /-- calls whose `begin` has been processed -/
  begun : List Nat := []
  /-- the events after the current one (the checker looks ahead for queries that a server reads late) -/
  rest : List Event := []
  err : Option String

def Check.fail (ck : Check) (msg : String) : Check := if ck.err.isSome then ck else { ck with err := some msg }

def applyAct (idOf : Nat → Id) (nConn : Nat) (ck : Check) (a : Action) (what : String) : Check :=
  if ck.err.isSome then ck else
  match step idOf nConn ck.st a with
  | some s => { ck with st := s }
  | none => ck.fail ("not enabled: " ++ what)

/-- `Connection.Send` of call k as the checker places it: take the mutex, then the write ends (the scripted servers
always read, so it never blocks in these histories) -/
def doSend (idOf : Nat → Id) (nConn : Nat) (ck : Check) (k : Nat) : Check :=
  let ck := applyAct idOf nConn ck (.sendBegin k) s!"sendBegin {k}"
  match ck.st.pc k with
  | .sending c =>
    if (ck.st.conn c).sockOk then applyAct idOf nConn ck (.writeDone k) s!"writeDone {k}"
    else applyAct idOf nConn ck (.writeFail k) s!"writeFail {k}"
  | _ => ck

/-- register, pickConn (counter placed on `c`), send -/
def advanceToSend (idOf : Nat → Id) (nConn : Nat) (ck : Check) (k c : Nat) : Check :=
  if ck.sent.contains k then ck else
  let ck := applyAct idOf nConn ck (.register k) s!"register {k}"
  let ck := { ck with st := { ck.st with nextConn := c % nConn } }
  let ck := applyAct idOf nConn ck (.pickConn k) s!"pickConn {k}"
  let ck := doSend idOf nConn ck k
  { ck with sent := k :: ck.sent }

/-- how far ahead the history shows a new handshake on connection c (`none` = never): the connection whose next
handshake comes first is the one the client gave up first — what a (stale or regular) reconnect looks like from outside -/
def nextAccept (rest : List Event) (c : Nat) : Option Nat :=
  let i := rest.findIdx fun e => match e with | .accepted c' => c' == c | _ => false
  if i < rest.length then some i else none

/-- among the connections satisfying `p`, the one whose next handshake in the history comes first (if any has one) -/
def chooseConn (nConn : Nat) (rest : List Event) (p : Nat → Bool) : Option Nat :=
  let cands := (List.range nConn).filter p
  let withAcc := cands.filterMap fun c => (nextAccept rest c).map fun i => (i, c)
  match withAcc.foldl (fun (best : Option (Nat × Nat)) ic =>
      match best with
      | none => some ic
      | some b => if ic.1 < b.1 then some ic else some b) none with
  | some (_, c) => some c
  | none => cands.head?

/-- some connection on which a send would fail now: preferably one that already refuses sends (not Connected or
dead socket) — using a connection the peer merely closed commits its socket to being dead from now on; as a last
resort a connection with a spawned `go reconnect()` that has not run yet (a stale one tears down a healthy
connection: the guard of `reconnect` only looks at the status). Within each class the history's future decides. -/
def failingConn (nConn : Nat) (rest : List Event) (s : State) : Option Nat :=
  match chooseConn nConn rest fun c => (s.conn c).status ≠ .connected || !(s.conn c).sockOk with
  | some c => some c
  | none =>
    match chooseConn nConn rest fun c => !(s.conn c).reader with
    | some c => some c
    | none => chooseConn nConn rest fun c => (s.conn c).spawned > 0

/-- some connection on which a send succeeds, preferring one whose peer is gone (the query is lost) -/
def sendableConn (nConn : Nat) (s : State) : Option Nat :=
  let ok := fun c => (s.conn c).status = .connected && (s.conn c).sockOk
  match (List.range nConn).find? fun c => ok c && !(s.conn c).reader with
  | some c => some c
  | none => (List.range nConn).find? ok

def deliverNow (idOf : Nat → Id) (nConn : Nat) (ck : Check) (c : Nat) (p : Packet) : Check :=
  if !(ck.st.conn c).reader then ck   -- written into a connection nobody reads any more: lost
  else
    let ck := applyAct idOf nConn ck (.deliver c p) s!"deliver {c}"
    if (ck.st.conn c).pending.isSome then applyAct idOf nConn ck (.chanSend c) s!"chanSend {c}" else ck

/-- deliver the queued packets of connection c in order: all of them, or up to and including the first answer
carrying `upto` -/
def flushQueue (idOf : Nat → Id) (nConn : Nat) (ck : Check) (c : Nat) (upto : Option Id) : Check :=
  let r := ck.queue.foldl (fun (acc : Check × List (Nat × Packet) × Bool) cp =>
    let (ck, keep, done) := acc
    if done ∨ cp.1 ≠ c then (ck, keep ++ [cp], done) else
    let ck := deliverNow idOf nConn ck c cp.2
    let hit := match cp.2, upto with
      | .answer id _, some u => id == u
      | _, _ => false
    (ck, keep, hit)) (ck, [], false)
  { r.1 with queue := r.2.1 }

/-- begun calls whose query a server will still read on connection c before that connection is accepted again: a
server may read (and log) a query long after the client wrote it, so their sends must be placed before anything that
makes the connection refuse sends -/
def futureQueries (rest : List Event) (c : Nat) : List Nat :=
  let upto := rest.takeWhile fun e => match e with | .accepted c' => c' != c | _ => true
  upto.filterMap fun e => match e with | .query k c' => if c' = c then some k else none | _ => none

def presend (idOf : Nat → Id) (nConn : Nat) (ck : Check) (c : Nat) : Check :=
  (futureQueries ck.rest c).foldl (fun ck k =>
    if ck.begun.contains k ∧ !ck.sent.contains k then advanceToSend idOf nConn ck k c else ck) ck

/-- try to place the send of one begun call; `none` = not possible in the current state -/
def placeOne (idOf : Nat → Id) (nConn : Nat) (ck : Check) (k : Nat) : Want → Option Check
  | .lost =>
    match sendableConn nConn ck.st with
    | none => none
    | some c => some (advanceToSend idOf nConn ck k c)
  | .sendErr =>
    match failingConn nConn ck.rest ck.st with
    | none => none
    | some c =>
      let ck := applyAct idOf nConn ck (.register k) s!"register {k}"
      let ck := { ck with st := { ck.st with nextConn := c % nConn } }
      let ck := applyAct idOf nConn ck (.pickConn k) s!"pickConn {k}"
      let cn := ck.st.conn c
      -- the connection is about to refuse sends: queries that a server still reads from it were written before
      -- ... and what the servers wrote on it so far was read before
      let ck := if cn.status = .connected ∧ cn.sockOk then flushQueue idOf nConn (presend idOf nConn ck c) c none else ck
      let ck :=
        if cn.status = .connected ∧ cn.sockOk ∧ !cn.reader then
          -- the socket of a connection the peer closed dies at a moment the environment chooses
          applyAct idOf nConn ck (.sockDead c) s!"sockDead {c}"
        else if cn.status = .connected ∧ cn.sockOk ∧ cn.spawned > 0 then
          -- a stale spawned reconnect() runs now
          applyAct idOf nConn ck (.reconnectStart c) s!"reconnectStart {c} (stale)"
        else ck
      -- a write failure spawns `go reconnect()`; when it runs is the scheduler's choice: the checker lets it run only
      -- when the history forces it (a new handshake on this connection)
      let ck := doSend idOf nConn ck k
      let ck := match ck.st.pc k with
        | .returning .sendErr => ck
        | _ => ck.fail s!"send of call {k} did not fail"
      some { ck with sent := k :: ck.sent }

/-- place the sends of begun calls where the current state allows it. A LOST query (timeout, never seen by a server)
is placed as early as possible: it must precede the first failing send on its connection. A FAILING send is placed as
late as possible (`errToo k`: just before a connection becomes Connected again, or when call k returns): the
failure was observed at the return, and it turns the connection to Connecting for everybody else. -/
def retryTodoCore (idOf : Nat → Id) (nConn : Nat) (errToo : Nat → Bool) (ck : Check) : Check :=
  ck.todo.foldl (fun ck (kw : Nat × Want) =>
    if ck.err.isSome ∨ (kw.2 = .sendErr ∧ !errToo kw.1) then ck else
    match placeOne idOf nConn ck kw.1 kw.2 with
    | some ck' => { ck' with todo := ck'.todo.filter (fun x => x.1 != kw.1) }
    | none => ck) ck

/-- the client side of a completed handshake (`reconnectOk`), preceded by the failing sends still to be placed -/
def becomeConnected (idOf : Nat → Id) (nConn : Nat) (ck : Check) (c : Nat) : Check :=
  if ck.pendingOk.contains c then
    let ck := retryTodoCore idOf nConn (fun _ => true) ck
    let ck := applyAct idOf nConn ck (.reconnectOk c) s!"reconnectOk {c}"
    { ck with pendingOk := ck.pendingOk.filter (· != c) }
  else ck

/-- `retryTodoCore`, and for a LOST query that still finds no writable connection: a connection whose new handshake the
server has completed may have become Connected on the client by now (the query is then written to it and, as far as
this history tells, never read) -/
def retryTodo (idOf : Nat → Id) (nConn : Nat) (errToo : Nat → Bool) (ck : Check) : Check :=
  let ck := retryTodoCore idOf nConn errToo ck
  if ck.err.isNone ∧ ck.todo.any (fun kw => kw.2 = .lost) then
    match ck.pendingOk with
    | c :: _ => retryTodoCore idOf nConn errToo (becomeConnected idOf nConn ck c)
    | [] => ck
  else ck

/-- deliver the queued packets of connection c — all of them, or up to and including the first answer carrying
`upto` — after the client side of a pending handshake -/
def flushConn (idOf : Nat → Id) (nConn : Nat) (ck : Check) (c : Nat) (upto : Option Id) : Check :=
  flushQueue idOf nConn (becomeConnected idOf nConn ck c) c upto

/-- what the rest of the history says about call k: the connection its query is seen on, and its result -/
def lookQuery (evs : List Event) (k : Nat) : Option Nat :=
  evs.findSome? fun | .query k' c => if k' = k then some c else none | _ => none

def lookRet (evs : List Event) (k : Nat) : Option Res :=
  evs.findSome? fun | .ret k' r => if k' = k then some r else none | _ => none

def checkEvent (idOf : Nat → Id) (nConn : Nat) (freshId : Id) (all : List Event) (ck0 : Check) (ev : Event) : Check :=
  let ck := retryTodo idOf nConn (fun _ => false) ck0
  match ev with
  | .begin k =>
    let ck := { ck with begun := k :: ck.begun }
    match lookQuery all k, lookRet all k with
    | some _, _ => ck                       -- placed when the query is seen
    | none, some .sendErr => { ck with todo := ck.todo ++ [(k, .sendErr)] }
    | none, some .timeout => retryTodo idOf nConn (fun _ => false) { ck with todo := ck.todo ++ [(k, .lost)] }
    | none, some (.ok _) => ck.fail s!"call {k} returned ok but no server saw its query"
    | none, none => ck                      -- still running when the history was cut
  | .query k c =>
    if ck.sent.contains k then ck else   -- read by the server only after the call gave up: placed at its return
    -- a query on a re-accepted connection shows that the client has become Connected
    let ck := becomeConnected idOf nConn ck c
    let ck := advanceToSend idOf nConn ck k c
    if ck.st.pc k = .waiting ∨ ck.err.isSome then ck else ck.fail s!"query of call {k} seen but its send cannot succeed"
  -- written packets are queued; they are delivered (in order, per connection) when the history needs them
  | .answer c k body => { ck with queue := ck.queue ++ [(c, .answer (idOf k) body)] }
  | .unknown c => { ck with queue := ck.queue ++ [(c, .answer freshId (.good 0))] }
  | .other c => { ck with queue := ck.queue ++ [(c, .other)] }
  -- the confirmation was written before the close: the client still becomes Connected, then sees the end of stream
  -- ... and what was written before the close is still read
  | .drop c => applyAct idOf nConn (flushConn idOf nConn ck c none) (.connDrop c) s!"connDrop {c}"
  | .accepted c =>
    -- a second handshake without a drop in between: the client had become Connected and a stale reconnect() ran
    let ck := if ck.pendingOk.contains c then flushConn idOf nConn ck c none else ck
    -- a new handshake means a reconnect loop ran: if the model has none yet, a failed ping send started it
    let cn := ck.st.conn c
    let ck := if cn.loops > 0 then ck else
      let ck := if cn.status = .connected ∧ cn.sockOk then flushQueue idOf nConn (presend idOf nConn ck c) c none else ck
      let ck := if cn.sockOk then applyAct idOf nConn ck (.sockDead c) s!"sockDead {c}" else ck
      let ck := if (ck.st.conn c).spawned > 0 then ck else applyAct idOf nConn ck (.pingFail c) s!"pingFail {c}"
      applyAct idOf nConn ck (.reconnectStart c) s!"reconnectStart {c}"
    if ck.pendingOk.contains c then ck else { ck with pendingOk := c :: ck.pendingOk }
  | .ret k r =>
    let ck := retryTodo idOf nConn (· == k) ck
    let ck := if ck.todo.any (fun x => x.1 == k) then
        ck.fail s!"call {k}: no moment between its begin and its return at which the system produces this outcome"
      else ck
    match r with
    | .ok b =>
      -- deliver, in order, what was written on the connection that carries the first answer for this call's id
      let ck := match ck.queue.find? (fun cp => match cp.2 with | .answer id _ => id == idOf k | _ => false) with
        | some (c, _) => flushConn idOf nConn ck c (some (idOf k))
        | none => ck
      let ck := applyAct idOf nConn ck (.recv k) s!"recv {k}"
      let ck := match ck.st.pc k with
        | .returning (.ok b') => if b' = b then ck else ck.fail s!"call {k} returned payload {b}, the system delivers {b'}"
        | _ => ck.fail s!"call {k} returned ok but no answer for its id is deliverable"
      applyAct idOf nConn ck (.unregister k) s!"unregister {k}"
    | .timeout =>
      -- the server may read the query only after the call has given up: the send still precedes the return
      let ck := if ck.sent.contains k then ck else
        match lookQuery all k with
        | some c => advanceToSend idOf nConn (becomeConnected idOf nConn ck c) k c
        | none => ck
      let ck := if ck.st.pc k = .waiting ∨ ck.err.isSome then ck else
        ck.fail s!"call {k} returned timeout but is not waiting"
      let ck := applyAct idOf nConn ck (.timeout k) s!"timeout {k}"
      applyAct idOf nConn ck (.unregister k) s!"unregister {k}"
    | .sendErr =>
      let ck := match ck.st.pc k with
        | .returning .sendErr => ck
        | _ => ck.fail s!"call {k} returned a send error the system does not produce"
      applyAct idOf nConn ck (.unregister k) s!"unregister {k}"

/-- `none` = the history is a trace of the system; `some why` otherwise -/
def checkAll (idOf : Nat → Id) (nConn : Nat) (freshId : Id) (all : List Event) : Check → List Event → Check
  | ck, [] => ck
  | ck, e :: rest => checkAll idOf nConn freshId all (checkEvent idOf nConn freshId all { ck with rest := rest } e) rest

def checkHistory (idOf : Nat → Id) (nConn : Nat) (freshId : Id) (evs : List Event) : Option String :=
  let ck := checkAll idOf nConn freshId evs { st := init, sent := [], todo := [], err := none } evs
  if ck.st.readerBlocked then some "a reader blocked on a full channel" else ck.err

end Tongo.ClientSM
