/-! Labelled transition system of the lite-client request path (`liteclient/client.go`: `Request`, `registerCallback`,
`unregisterCallback`, `reader`, `processQueryAnswer`; `liteclient/connection.go`: `Send`, `reconnect`,
`setupEncryptedConnection`, `reader`). Each action is one critical section (or one channel operation) of the Go code;
the environment (server, network, timers) chooses `deliver`, `connDrop`, `sockDead`, `timeout`, reconnect outcomes.

* `Request` of call `k` (any number of calls, indexed by `Nat`, each with the id `idOf k` it draws):
  `register` (queriesMutex: `queries[id] = make(chan, 1)`), `pickConn` (connMutex, round-robin), `send`
  (Connection.mu: fails unless `Connected`; a failing write spawns `go reconnect()`), then the `select`:
  `recv` (a value is in the channel) or `timeout` (ctx.Done; enabled at any time — the deadline is the environment's),
  finally the deferred `unregister` (queriesMutex: `delete(queries, id)`).
* `Client.reader` of connection `c`: `deliver c pkt` for ANY packet the environment puts on that connection: answers
  with any id in any order, duplicates, malformed bodies, packets that are not answers. `processQueryAnswer` is two
  steps: lookup + delete under the mutex (`deliver`), then the channel send (`chanSend`) — other actions may run in
  between. A send on a full channel would block the reader for ever: recorded as `readerBlocked`.
* `Connection`: `status`, whether the socket accepts writes, whether a reader goroutine consumes packets, number of
  running reconnect loops, number of spawned-but-not-yet-run `go reconnect()` calls. -/
namespace Tongo.ClientSM

abbrev Id := Nat
abbrev Payload := Nat

inductive Res where
  | ok (b : Payload)
  | sendErr
  | timeout
  deriving DecidableEq, Repr, Inhabited

inductive Pc where
  | start
  | registered
  | picked (c : Nat)
  | waiting
  | returning (r : Res)   -- result decided, deferred unregister not yet run
  | returned (r : Res)
  deriving DecidableEq, Repr, Inhabited

/-- the call holds (or may hold) an entry of `queries` -/
def Pc.active : Pc → Bool
  | .registered | .picked _ | .waiting | .returning _ => true
  | _ => false

inductive Status where
  | connecting
  | connected
  deriving DecidableEq, Repr, Inhabited

structure Conn where
  status : Status := .connected
  sockOk : Bool := true
  reader : Bool := true
  loops : Nat := 0
  spawned : Nat := 0
  /-- the value `processQueryAnswer` is about to send, and the call whose channel it holds -/
  pending : Option (Nat × Payload) := none
  deriving DecidableEq, Repr, Inhabited

inductive Body where
  | good (b : Payload)
  | malformed          -- decodeLength fails or the declared length exceeds the data
  deriving DecidableEq, Repr, Inhabited

inductive Packet where
  | answer (id : Id) (body : Body)   -- magic adnl.message.answer and at least 37 bytes
  | other                            -- anything else: pong, short payload, other magic — ignored by the client
  deriving DecidableEq, Repr, Inhabited

structure State where
  queries : Id → Option Nat
  chan : Nat → Option Payload
  pc : Nat → Pc
  conn : Nat → Conn
  nextConn : Nat
  /-- a reader executed `resp <- data` on a full channel (it would block for ever) -/
  readerBlocked : Bool
  /-- ghost: the registration of call k was consumed by a delivered answer -/
  consumed : Nat → Bool
  /-- ghost: queries written to the socket of a connection: (connection, call) -/
  wire : List (Nat × Nat)

inductive Action where
  | register (k : Nat)
  | pickConn (k : Nat)
  | send (k : Nat)
  | recv (k : Nat)
  | timeout (k : Nat)
  | unregister (k : Nat)
  | deliver (c : Nat) (p : Packet)
  | chanSend (c : Nat)
  | connDrop (c : Nat)        -- the peer closed: the reader goroutine ends; writes may still "succeed"
  | sockDead (c : Nat)        -- writes fail from now on
  | pingFail (c : Nat)        -- a Send of the ping goroutine fails: `go reconnect()`
  | silence (c : Nat)         -- the reader's 10 s silence timer fires: it calls reconnect() and ends
  | reconnectStart (c : Nat)  -- first critical section of a spawned reconnect()
  | reconnectOk (c : Nat)     -- setupEncryptedConnection succeeded
  | reconnectFail (c : Nat)   -- it failed; sleep, retry
  deriving DecidableEq, Repr, Inhabited

def set {α} (f : Nat → α) (i : Nat) (v : α) : Nat → α := fun j => if j = i then v else f j

def init : State :=
  { queries := fun _ => none, chan := fun _ => none, pc := fun _ => .start, conn := fun _ => {},
    nextConn := 0, readerBlocked := false, consumed := fun _ => false, wire := [] }

/-- the guard and first critical section of `Connection.reconnect` -/
def reconnectBody (cn : Conn) : Conn :=
  if cn.status = .connecting then cn
  else { cn with status := .connecting, sockOk := false, reader := false, loops := cn.loops + 1 }

section
variable (idOf : Nat → Id) (nConn : Nat)

/-- one step; `none` = the action is not enabled in this state -/
def step (s : State) : Action → Option State
  | .register k =>
    if s.pc k = .start then
      some { s with queries := set s.queries (idOf k) (some k), pc := set s.pc k .registered }
    else none
  | .pickConn k =>
    if s.pc k = .registered then
      some { s with pc := set s.pc k (.picked s.nextConn), nextConn := (s.nextConn + 1) % nConn }
    else none
  | .send k =>
    match s.pc k with
    | .picked c =>
      let cn := s.conn c
      if cn.status ≠ .connected then some { s with pc := set s.pc k (.returning .sendErr) }
      else if cn.sockOk then some { s with pc := set s.pc k .waiting, wire := s.wire ++ [(c, k)] }
      else some { s with pc := set s.pc k (.returning .sendErr),
                         conn := set s.conn c { cn with spawned := cn.spawned + 1 } }
    | _ => none
  | .recv k =>
    match s.pc k, s.chan k with
    | .waiting, some b => some { s with pc := set s.pc k (.returning (.ok b)), chan := set s.chan k none }
    | _, _ => none
  | .timeout k =>
    if s.pc k = .waiting then some { s with pc := set s.pc k (.returning .timeout) } else none
  | .unregister k =>
    match s.pc k with
    | .returning r => some { s with pc := set s.pc k (.returned r), queries := set s.queries (idOf k) none }
    | _ => none
  | .deliver c p =>
    let cn := s.conn c
    if cn.reader ∧ cn.pending = none then
      match p with
      | .other => some s
      | .answer id body =>
        match s.queries id with
        | none => some s                         -- unknown query: dropped
        | some k =>
          let s' := { s with queries := set s.queries id none, consumed := set s.consumed k true }
          match body with
          | .malformed => some s'                -- error after the delete: nothing is sent
          | .good b => some { s' with conn := set s.conn c { cn with pending := some (k, b) } }
    else none
  | .chanSend c =>
    let cn := s.conn c
    match cn.pending with
    | none => none
    | some (k, b) =>
      match s.chan k with
      | none => some { s with chan := set s.chan k (some b), conn := set s.conn c { cn with pending := none } }
      | some _ => some { s with readerBlocked := true }
  | .connDrop c => some { s with conn := set s.conn c { s.conn c with reader := false } }
  | .sockDead c => some { s with conn := set s.conn c { s.conn c with sockOk := false } }
  | .pingFail c =>
    let cn := s.conn c
    if cn.status = .connected ∧ cn.sockOk = false then
      some { s with conn := set s.conn c { cn with spawned := cn.spawned + 1 } }
    else none
  | .silence c =>
    let cn := s.conn c
    if cn.reader then some { s with conn := set s.conn c { reconnectBody cn with reader := false } } else none
  | .reconnectStart c =>
    let cn := s.conn c
    if cn.spawned > 0 then
      some { s with conn := set s.conn c (reconnectBody { cn with spawned := cn.spawned - 1 }) }
    else none
  | .reconnectOk c =>
    let cn := s.conn c
    if cn.loops > 0 then
      some { s with conn := set s.conn c { cn with status := .connected, sockOk := true, reader := true,
                                                   loops := cn.loops - 1 } }
    else none
  | .reconnectFail c => if (s.conn c).loops > 0 then some s else none

/-- run a list of actions; `none` as soon as one is not enabled -/
def run (s : State) : List Action → Option State
  | [] => some s
  | a :: as => match step idOf nConn s a with
    | some s' => run s' as
    | none => none

/-- reachable = result of some enabled action list from `init` -/
def Reachable (s : State) : Prop := ∃ as, run idOf nConn init as = some s

end

/-! ### history validation (executable)

The harness records the EXTERNAL history of a scenario in the order it observed the events; `checkHistory` replays it
on the transition system, inserting the hidden actions at canonical places, and accepts iff every step is enabled and
every observed call result is the one the system produces. -/

inductive Event where
  | query (k c : Nat)                 -- the server received the query of call k on connection c
  | answer (c : Nat) (k : Nat) (body : Body)  -- the server wrote an answer carrying the id of call k on connection c
  | unknown (c : Nat)                 -- ... an answer with an id no call uses
  | other (c : Nat)                   -- ... a packet that is not an answer
  | drop (c : Nat)                    -- the server closed connection c
  | accepted (c : Nat)                -- the server completed a handshake for connection c again
  | ret (k : Nat) (r : Res) (c : Option Nat)  -- call k returned r (c: the connection its query was seen on, if any)
  deriving Repr, Inhabited

structure Check where
  st : State
  /-- calls already advanced to `picked/waiting` by the checker -/
  sent : List Nat
  err : Option String

def Check.fail (ck : Check) (msg : String) : Check := if ck.err.isSome then ck else { ck with err := some msg }

def applyAct (idOf : Nat → Id) (nConn : Nat) (ck : Check) (a : Action) (what : String) : Check :=
  if ck.err.isSome then ck else
  match step idOf nConn ck.st a with
  | some s => { ck with st := s }
  | none => ck.fail ("not enabled: " ++ what)

/-- bring call k from `start` to after its `send` on connection `c`. The order in which concurrent callers pass the
connMutex is not observable from outside, so the checker does not replay the round-robin counter: it places it on the
connection the query was observed on (`c`). The counter itself is checked by the sequential scenario
`go.client.roundrobin` and by the theorem `round_robin`. -/
def advanceToSend (idOf : Nat → Id) (nConn : Nat) (ck : Check) (k c : Nat) : Check :=
  if ck.sent.contains k then ck else
  let ck := applyAct idOf nConn ck (.register k) s!"register {k}"
  let ck := { ck with st := { ck.st with nextConn := c % nConn } }
  let ck := applyAct idOf nConn ck (.pickConn k) s!"pickConn {k}"
  let ck := applyAct idOf nConn ck (.send k) s!"send {k}"
  { ck with sent := k :: ck.sent }

/-- some connection on which a send would fail now (not Connected, dead socket, or closed by the peer) -/
def failingConn (nConn : Nat) (s : State) : Option Nat :=
  (List.range nConn).find? fun c => (s.conn c).status ≠ .connected || !(s.conn c).sockOk || !(s.conn c).reader

/-- some connection on which a send succeeds, preferring one whose peer is gone (the query is lost) -/
def sendableConn (nConn : Nat) (s : State) : Option Nat :=
  let ok := fun c => (s.conn c).status = .connected && (s.conn c).sockOk
  match (List.range nConn).find? fun c => ok c && !(s.conn c).reader with
  | some c => some c
  | none => (List.range nConn).find? ok

def deliverNow (idOf : Nat → Id) (nConn : Nat) (ck : Check) (c : Nat) (p : Packet) : Check :=
  if !(ck.st.conn c).reader then ck   -- written into a connection nobody reads any more: lost
  else
    let ck := applyAct idOf nConn ck (.deliver c p) s!"deliver {c}"
    if (ck.st.conn c).pending.isSome then applyAct idOf nConn ck (.chanSend c) s!"chanSend {c}" else ck

def checkEvent (idOf : Nat → Id) (nConn : Nat) (freshId : Id) (ck : Check) : Event → Check
  | .query k c =>
    let ck := advanceToSend idOf nConn ck k c
    if ck.st.pc k = .waiting ∨ ck.err.isSome then ck else ck.fail s!"query of call {k} seen but send did not succeed"
  | .answer c k body => deliverNow idOf nConn ck c (.answer (idOf k) body)
  | .unknown c => deliverNow idOf nConn ck c (.answer freshId (.good 0))
  | .other c => deliverNow idOf nConn ck c .other
  | .drop c => applyAct idOf nConn ck (.connDrop c) s!"connDrop {c}"
  | .accepted c =>
    -- a new handshake means a reconnect loop ran: if the model has none yet, a failed ping send started it
    let cn := ck.st.conn c
    let ck := if cn.loops > 0 then ck else
      let ck := if cn.sockOk then applyAct idOf nConn ck (.sockDead c) s!"sockDead {c}" else ck
      let ck := if (ck.st.conn c).spawned > 0 then ck else applyAct idOf nConn ck (.pingFail c) s!"pingFail {c}"
      applyAct idOf nConn ck (.reconnectStart c) s!"reconnectStart {c}"
    applyAct idOf nConn ck (.reconnectOk c) s!"reconnectOk {c}"
  | .ret k r oc =>
    match r with
    | .ok b =>
      let ck := applyAct idOf nConn ck (.recv k) s!"recv {k}"
      let ck := match ck.st.pc k with
        | .returning (.ok b') => if b' = b then ck else ck.fail s!"call {k} returned payload {b}, the system delivers {b'}"
        | _ => ck.fail s!"call {k} returned ok but no answer for its id is deliverable"
      applyAct idOf nConn ck (.unregister k) s!"unregister {k}"
    | .timeout =>
      -- the query may never have reached the server (written into a dead connection): any connection will do
      let ck := if ck.sent.contains k then ck else
        match (match oc with | some c => some c | none => sendableConn nConn ck.st) with
        | some c => advanceToSend idOf nConn ck k c
        | none => ck.fail s!"call {k} returned timeout but no connection accepts a send"
      let ck := if ck.st.pc k = .waiting ∨ ck.err.isSome then ck else
        ck.fail s!"call {k} returned timeout but its send cannot have succeeded"
      let ck := applyAct idOf nConn ck (.timeout k) s!"timeout {k}"
      applyAct idOf nConn ck (.unregister k) s!"unregister {k}"
    | .sendErr =>
      if ck.sent.contains k then ck.fail s!"call {k} returned a send error after its query reached the server" else
      match (match oc with | some c => some c | none => failingConn nConn ck.st) with
      | none => ck.fail s!"call {k} returned a send error but every connection is healthy"
      | some c =>
      let ck := applyAct idOf nConn ck (.register k) s!"register {k}"
      let ck := { ck with st := { ck.st with nextConn := c % nConn } }
      let ck := applyAct idOf nConn ck (.pickConn k) s!"pickConn {k}"
      -- a send error needs a connection that is not Connected or whose socket is dead; a dropped connection's
      -- socket dies at a moment the environment chooses
      let cn := ck.st.conn (c % nConn)
      let ck := if cn.status = .connected ∧ cn.sockOk ∧ !cn.reader then
          applyAct idOf nConn ck (.sockDead (c % nConn)) s!"sockDead {c}" else ck
      let ck := applyAct idOf nConn ck (.send k) s!"send {k}"
      let ck := match ck.st.pc k with
        | .returning .sendErr => ck
        | _ => ck.fail s!"call {k} returned a send error on a healthy connection"
      let ck := if (ck.st.conn (c % nConn)).spawned > 0 then
          applyAct idOf nConn ck (.reconnectStart (c % nConn)) s!"reconnectStart {c}" else ck
      applyAct idOf nConn ck (.unregister k) s!"unregister {k}"

/-- `none` = the history is a trace of the system; `some why` otherwise -/
def checkHistory (idOf : Nat → Id) (nConn : Nat) (freshId : Id) (evs : List Event) : Option String :=
  let ck := evs.foldl (checkEvent idOf nConn freshId) { st := init, sent := [], err := none }
  if ck.st.readerBlocked then some "a reader blocked on a full channel" else ck.err

end Tongo.ClientSM
