/-! Predicates over the operation-order facts extracted from liteclient/client.go and connection.go
(`TongoGen/ClientOrder.lean`, regenerated on every run). Tokens are numbered by the translator; the generated file
lists the numbering. -/
namespace Tongo.ClientOrderSpec

/-- `chain pat l`: the tokens of `pat` occur in `l` in this order (as a subsequence) -/
def chain : List Nat → List Nat → Bool
  | [], _ => true
  | _ :: _, [] => false
  | p :: ps, t :: ts => if p = t then chain ps ts else chain (p :: ps) ts

/-- number of occurrences -/
def count (t : Nat) (l : List Nat) : Nat := (l.filter (· = t)).length

end Tongo.ClientOrderSpec
