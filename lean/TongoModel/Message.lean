import TongoModel.Outcome
import TongoModel.Bits
import TongoModel.Cell
import TongoModel.Json
/-! Messages and transactions (property C16): the identity hash captured by `Message.UnmarshalTLB` /
`Transaction.UnmarshalTLB` (tlb/messages.go, tlb/transactions.go), the normalised hash of external-in messages
(`Message.Hash(true)`, the hand-written canonical builder) and the lazy source BOC.

The message layout is written directly as bit lists:

  message$_ info:CommonMsgInfo init:(Maybe (Either StateInit ^StateInit)) body:(Either X ^X)
  int_msg_info$0 ihr_disabled bounce bounced src dest value:(Grams, HashmapE 32 …) ihr_fee fwd_fee created_lt:64 created_at:32
  ext_in_msg_info$10 src dest import_fee:(VarUInteger 16)        ext_out_msg_info$11 src dest created_lt:64 created_at:32

The decoder is generic in the type `α` of cell references (`Cell` for the tree-level statements, a row index for the
table-level evaluation in the driver); everything that depends on hashes goes through `computeInfo` of
TongoModel/Cell.lean. Addresses are the `MsgAddr` values of TongoModel/Json.lean. -/
namespace Tongo.Message
open Tongo Tongo.Bits Tongo.Json

/-- what is left to read of a cell: the unread bits and the unread references -/
structure Slice (α : Type) where
  bits : List Bool
  refs : List α

variable {α : Type}

def readBits (n : Nat) (s : Slice α) : Outcome (List Bool × Slice α) :=
  if s.bits.length < n then .err "not enough bits" else .ok (s.bits.take n, { s with bits := s.bits.drop n })

def readUint (n : Nat) (s : Slice α) : Outcome (Nat × Slice α) :=
  (readBits n s).bind fun (b, s) => .ok (bitsToNat b, s)

def readInt (n : Nat) (s : Slice α) : Outcome (Int × Slice α) :=
  (readBits n s).bind fun (b, s) => .ok (bitsToInt b, s)

def readBit (s : Slice α) : Outcome (Bool × Slice α) :=
  match s.bits with
  | [] => .err "not enough bits"
  | b :: r => .ok (b, { s with bits := r })

def nextRef (s : Slice α) : Outcome (α × Slice α) :=
  match s.refs with
  | [] => .err "not enough refs"
  | r :: rs => .ok (r, { s with refs := rs })

/-! ## addresses -/

def encodeAnycast : Option Anycast → List Bool
  | none => [false]
  | some a => true :: natToBits 5 a.depth ++ natToBits a.depth a.pfx

/-- MsgAddress.MarshalTLB -/
def encodeAddr : MsgAddr → List Bool
  | .none => [false, false]
  | .extern b => [false, true] ++ natToBits 9 b.length ++ b
  | .std any wc addr => [true, false] ++ encodeAnycast any ++ intToBits 8 wc ++ bytesToBits addr
  | .var any wc b => [true, true] ++ encodeAnycast any ++ natToBits 9 b.length ++ intToBits 32 wc ++ b

/-- Maybe Anycast: `depth:(#<= 30) {depth >= 1} rewrite_pfx:(bits depth)` -/
def decodeAnycast (s : Slice α) : Outcome (Option Anycast × Slice α) :=
  (readBit s).bind fun (ex, s) =>
    if !ex then .ok (none, s)
    else (readUint 5 s).bind fun (depth, s) =>
      if depth < 1 then .err "invalid anycast depth"
      else (readUint depth s).bind fun (pfx, s) => .ok (some ⟨depth, pfx⟩, s)

/-- MsgAddress.UnmarshalTLB -/
def decodeAddr (s : Slice α) : Outcome (MsgAddr × Slice α) :=
  (readUint 2 s).bind fun (t, s) =>
    if t = 0 then .ok (.none, s)
    else if t = 1 then
      (readUint 9 s).bind fun (ln, s) => (readBits ln s).bind fun (b, s) => .ok (.extern b, s)
    else if t = 2 then
      (decodeAnycast s).bind fun (any, s) => (readInt 8 s).bind fun (wc, s) =>
        (readBits 256 s).bind fun (b, s) => .ok (.std any wc (bitsToBytes b), s)
    else
      (decodeAnycast s).bind fun (any, s) => (readUint 9 s).bind fun (ln, s) => (readInt 32 s).bind fun (wc, s) =>
        (readBits ln s).bind fun (b, s) => .ok (.var any wc b, s)

/-! ## VarUInteger / Grams -/

/-- VarUInteger 16 / Grams: 4-bit byte length, then the bytes (big endian, minimal) -/
def natBytes (v : Nat) : Nat := if v = 0 then 0 else Nat.log2 v / 8 + 1

def encodeVarUInt16 (v : Nat) : List Bool := natToBits 4 (natBytes v) ++ natToBits (8 * natBytes v) v

def decodeVarUInt16 (s : Slice α) : Outcome (Nat × Slice α) :=
  (readUint 4 s).bind fun (ln, s) => readUint (8 * ln) s

/-- Grams.UnmarshalTLB: more than 8 length bytes is ErrGramsOverflow -/
def decodeGrams (s : Slice α) : Outcome (Nat × Slice α) :=
  (readUint 4 s).bind fun (ln, s) => if ln > 8 then .err "grams overflow" else readUint (8 * ln) s

/-! ## StateInit (shallow: the library dictionary is only its root reference) -/

structure StateInit (α : Type) where
  splitDepth : Option Nat        -- ## 5
  special : Option (Bool × Bool) -- tick, tock
  code : Option α
  data : Option α
  lib : Option α

def decodeStateInit (s : Slice α) : Outcome (StateInit α × Slice α) :=
  (readBit s).bind fun (hasSd, s) =>
  (if hasSd then (readUint 5 s).bind fun (d, s) => .ok (some d, s) else .ok (none, s)).bind fun (sd, s) =>
  (readBit s).bind fun (hasSp, s) =>
  (if hasSp then (readBits 2 s).bind fun (b, s) => .ok (some (b.getD 0 false, b.getD 1 false), s)
   else .ok (none, s)).bind fun (sp, s) =>
  (readBit s).bind fun (hasCode, s) =>
  (if hasCode then (nextRef s).bind fun (r, s) => .ok (some r, s) else .ok (none, s)).bind fun (code, s) =>
  (readBit s).bind fun (hasData, s) =>
  (if hasData then (nextRef s).bind fun (r, s) => .ok (some r, s) else .ok (none, s)).bind fun (data, s) =>
  (readBit s).bind fun (hasLib, s) =>
  (if hasLib then (nextRef s).bind fun (r, s) => .ok (some r, s) else .ok (none, s)).bind fun (lib, s) =>
  .ok (⟨sd, sp, code, data, lib⟩, s)

def encodeStateInit (si : StateInit α) : List Bool × List α :=
  ((match si.splitDepth with | none => [false] | some d => true :: natToBits 5 d) ++
   (match si.special with | none => [false] | some (a, b) => [true, a, b]) ++
   [si.code.isSome, si.data.isSome, si.lib.isSome],
   si.code.toList ++ si.data.toList ++ si.lib.toList)

/-! ## CommonMsgInfo and the message -/

inductive Info where
  | int (ihrDisabled bounce bounced : Bool) (src dest : MsgAddr) (grams : Nat) (hasExtra : Bool)
      (ihrFee fwdFee createdLt createdAt : Nat)
  | extIn (src dest : MsgAddr) (importFee : Nat)
  | extOut (src dest : MsgAddr) (createdLt createdAt : Nat)
  deriving Repr, DecidableEq

def Info.isExtIn : Info → Bool
  | .extIn .. => true
  | _ => false

/-- where the state-init is stored -/
inductive InitForm (α : Type) where
  | absent
  | inline (si : StateInit α)
  | ref (r : α)

/-- a decoded message: `body` is `Body.Value` — the bits and references of the body, wherever it was stored
(`Any.UnmarshalTLB` = CopyRemaining of the message cell when inline, of the referenced cell otherwise) -/
structure Msg (α : Type) where
  info : Info
  init : InitForm α
  bodyIsRef : Bool
  body : Slice α

/-- access to referenced cells (tree: the fields of the `Cell`; table: the row) -/
structure Store (α : Type) where
  sliceOf : α → Option (Slice α)

def decodeInfo (s : Slice α) : Outcome (Info × Slice α) :=
  (readBit s).bind fun (t0, s) =>
  if !t0 then
    (readBits 3 s).bind fun (fl, s) =>
    (decodeAddr s).bind fun (src, s) => (decodeAddr s).bind fun (dest, s) =>
    (decodeGrams s).bind fun (grams, s) =>
    (readBit s).bind fun (hasExtra, s) =>
    (if hasExtra then (nextRef s).bind fun (_, s) => .ok s else .ok s).bind fun s =>
    (decodeGrams s).bind fun (ihrFee, s) => (decodeGrams s).bind fun (fwdFee, s) =>
    (readUint 64 s).bind fun (lt, s) => (readUint 32 s).bind fun (at_, s) =>
    .ok (.int (fl.getD 0 false) (fl.getD 1 false) (fl.getD 2 false) src dest grams hasExtra ihrFee fwdFee lt at_, s)
  else
    (readBit s).bind fun (t1, s) =>
    if !t1 then
      (decodeAddr s).bind fun (src, s) => (decodeAddr s).bind fun (dest, s) =>
      (decodeVarUInt16 s).bind fun (fee, s) => .ok (.extIn src dest fee, s)
    else
      (decodeAddr s).bind fun (src, s) => (decodeAddr s).bind fun (dest, s) =>
      (readUint 64 s).bind fun (lt, s) => (readUint 32 s).bind fun (at_, s) => .ok (.extOut src dest lt at_, s)

/-- the fields of Message.UnmarshalTLB after the hash capture (info, init, body), together with the read position it leaves in the message cell: after the body bit when the body is in
a reference; BEFORE the body when it is inline (`Any.UnmarshalTLB` = CopyRemaining, which restores the cursors) -/
def decodeMsgS (st : Store α) (s : Slice α) : Outcome (Msg α × Slice α) :=
  (decodeInfo s).bind fun (info, s) =>
  (readBit s).bind fun (hasInit, s) =>
  (if !hasInit then .ok (InitForm.absent, s)
   else (readBit s).bind fun (isRef, s) =>
     if isRef then (nextRef s).bind fun (r, s) => .ok (InitForm.ref r, s)
     else (decodeStateInit s).bind fun (si, s) => .ok (InitForm.inline si, s)).bind fun (init, s) =>
  (readBit s).bind fun (bodyRef, s) =>
  if bodyRef then
    (nextRef s).bind fun (r, s') =>
      match st.sliceOf r with
      | some b => .ok (⟨info, init, true, b⟩, s')
      | none => .err "bad reference"
  else .ok (⟨info, init, false, s⟩, s)

/-- the fields alone -/
def decodeMsg (st : Store α) (s : Slice α) : Outcome (Msg α) :=
  (decodeMsgS st s).bind fun (m, _) => .ok m

/-! ## the normalised hash -/

/-- `dest := m.Info.ExtInMsgInfo.Dest; dest.AddrStd.Anycast.Exists = false` (a copy since the `fix:` commit; the
shipped code cleared the flag in the message itself): only a STANDARD destination loses its anycast -/
def normDest : MsgAddr → MsgAddr
  | .std _ wc addr => .std none wc addr
  | d => d

/-- data bits of the hand-written canonical external-in message: `10` ext_in_msg_info, `00` src addr_none, the
destination, `0000` import fee 0, `0` no init, `1` body in a reference -/
def normBits (dest : MsgAddr) : List Bool :=
  [true, false] ++ [false, false] ++ encodeAddr (normDest dest) ++ [false, false, false, false] ++ [false] ++ [true]

/-- hash info of a fresh ordinary cell with the given data and children -/
def ordinaryInfo (H : List UInt8 → List UInt8) (bits : List Bool) (kids : List HashInfo) : Outcome HashInfo :=
  computeInfo H tyOrdinary 0 bits (parsedBuf bits) kids

/-- `Message.Hash(true)` on an external-in message, from the hash infos of the body's references:
the body is copied (`CopyRemaining`) into a fresh ordinary cell referenced by the canonical cell -/
def normHashFrom (H : List UInt8 → List UInt8) (dest : MsgAddr) (bodyBits : List Bool) (bodyKids : List HashInfo) :
    Outcome (List UInt8) :=
  (ordinaryInfo H bodyBits bodyKids).bind fun b =>
    (ordinaryInfo H (normBits dest) [b]).bind fun c => c.hashAt 3

/-! ### tree level (α = Cell): the statements of the property are about these -/

def treeStore : Store Cell := ⟨fun c => some ⟨c.bits, c.refs⟩⟩

def sliceOfCell (c : Cell) : Slice Cell := ⟨c.bits, c.refs⟩

/-- a decoded message together with the hash captured before decoding -/
structure Message where
  hash : List UInt8
  msg : Msg Cell

/-- Message.UnmarshalTLB: the hash of the WHOLE source cell is taken first (through the hasher when the decoder
carries one — same value, C02), the read cursors are reset, then the fields are decoded from the start -/
def unmarshalMessage (H : List UInt8 → List UInt8) (c : Cell) : Outcome Message :=
  (c.reprHash H).bind fun h => (decodeMsg treeStore (sliceOfCell c)).bind fun m => .ok ⟨h, m⟩

/-- the body as a cell: `boc.Cell(m.Body.Value).CopyRemaining()` -/
def bodyCell (m : Msg Cell) : Cell := Cell.ordinary m.body.bits m.body.refs

/-- the canonical cell built by Hash(true) -/
def normCell (dest : MsgAddr) (body : Cell) : Cell := Cell.ordinary (normBits dest) [body]

/-- Message.Hash(normalizeExternal) -/
def Message.hashOf (H : List UInt8 → List UInt8) (m : Message) (normalize : Bool) : Outcome (List UInt8) :=
  match normalize, m.msg.info with
  | true, .extIn _ dest _ => (normCell dest (bodyCell m.msg)).reprHash H
  | _, _ => .ok m.hash

/-! ### the external-in encoder (schema level), used to state what the normalised hash ignores -/

/-- where the body is stored -/
inductive BodyForm where
  | inline | ref
  deriving Repr, DecidableEq

/-- all the parts of an external-in message -/
structure ExtInParts where
  src : MsgAddr
  dest : MsgAddr
  importFee : Nat
  init : InitForm Cell
  bodyForm : BodyForm
  body : Cell          -- an ordinary cell: its bits and references are the body

/-- the body as the decoder will report it (`Body.Value`): an ordinary cell with the body's bits and references -/
def ExtInParts.bodyValue (p : ExtInParts) : Cell := Cell.ordinary p.body.bits p.body.refs

def encodeInit : InitForm Cell → List Bool × List Cell
  | .absent => ([false], [])
  | .inline si => let (b, r) := encodeStateInit si; (true :: false :: b, r)
  | .ref r => ([true, true], [r])

/-- tlb.Marshal of the message (info, init, body), without the capacity check -/
def encodeExtInRaw (p : ExtInParts) : List Bool × List Cell :=
  let head := [true, false] ++ encodeAddr p.src ++ encodeAddr p.dest ++ encodeVarUInt16 p.importFee
  let (ib, ir) := encodeInit p.init
  match p.bodyForm with
  | .inline => (head ++ ib ++ [false] ++ p.body.bits, ir ++ p.body.refs)
  | .ref => (head ++ ib ++ [true], ir ++ [p.body])

/-- the encoded message cell; an error when it does not fit into one cell (1023 bits, 4 references) -/
def encodeExtIn (p : ExtInParts) : Outcome Cell :=
  let (b, r) := encodeExtInRaw p
  if b.length > 1023 then .err "bits overflow"
  else if r.length > 4 then .err "refs overflow"
  else .ok (Cell.ordinary b r)

/-! ### all three kinds -/

/-- CommonMsgInfo as the schema writes it (an internal message with extra currencies would carry the dictionary
in a reference: not encoded here, `InfoWF` requires `hasExtra = false`) -/
def encodeInfo : Info → List Bool
  | .int ihrDisabled bounce bounced src dest grams _ ihrFee fwdFee lt at_ =>
    [false, ihrDisabled, bounce, bounced] ++ encodeAddr src ++ encodeAddr dest ++ encodeVarUInt16 grams ++ [false] ++
      encodeVarUInt16 ihrFee ++ encodeVarUInt16 fwdFee ++ natToBits 64 lt ++ natToBits 32 at_
  | .extIn src dest fee => [true, false] ++ encodeAddr src ++ encodeAddr dest ++ encodeVarUInt16 fee
  | .extOut src dest lt at_ => [true, true] ++ encodeAddr src ++ encodeAddr dest ++ natToBits 64 lt ++ natToBits 32 at_

/-- all the parts of a message of any kind -/
structure MsgParts where
  info : Info
  init : InitForm Cell
  bodyForm : BodyForm
  body : Cell

def MsgParts.bodyValue (p : MsgParts) : Cell := Cell.ordinary p.body.bits p.body.refs

/-- tlb.Marshal of the message (info, init, body), without the capacity check -/
def encodeMsgRaw (p : MsgParts) : List Bool × List Cell :=
  let (ib, ir) := encodeInit p.init
  match p.bodyForm with
  | .inline => (encodeInfo p.info ++ ib ++ [false] ++ p.body.bits, ir ++ p.body.refs)
  | .ref => (encodeInfo p.info ++ ib ++ [true], ir ++ [p.body])

def encodeMsg (p : MsgParts) : Outcome Cell :=
  let (b, r) := encodeMsgRaw p
  if b.length > 1023 then .err "bits overflow"
  else if r.length > 4 then .err "refs overflow"
  else .ok (Cell.ordinary b r)

def ExtInParts.toMsgParts (p : ExtInParts) : MsgParts := ⟨.extIn p.src p.dest p.importFee, p.init, p.bodyForm, p.body⟩

/-- the canonical form of an external-in message: no source, standard destination without anycast, no import fee,
no init, body in a reference -/
def canonicalParts (dest : MsgAddr) (body : Cell) : ExtInParts :=
  ⟨.none, normDest dest, 0, .absent, .ref, body⟩

/-! ## transactions -/

/-- what Transaction.UnmarshalTLB captures: the hash of the whole source cell and the cell itself for the lazy
source BOC (`serialize` stands for boc.SerializeBoc / ToBocCustomWithHasher, owned by the BOC slice) -/
structure TxCapture where
  hash : List UInt8
  source : Cell

def captureTx (H : List UInt8 → List UInt8) (c : Cell) : Outcome TxCapture :=
  (c.reprHash H).bind fun h => .ok ⟨h, c⟩

def TxCapture.sourceBoc {β} (serialize : Cell → Outcome β) (t : TxCapture) : Outcome β := serialize t.source

/-! ### one Transaction variable reused: the state machine over decode / SourceBoc / Hash

`Transaction.UnmarshalTLB` overwrites the hash and the closure that produces the source BOC on every decode;
`SourceBoc()` and `Hash()` do not change the variable. So at any moment both are functions of the LAST successfully
captured source cell. (A decode whose field decoding fails after the capture still has replaced hash and closure;
the model's `decode` is the capture, the only part of UnmarshalTLB relevant to the identity hash.) -/

inductive TxOp where
  | decode (c : Cell)
  | sourceBoc
  | hash

/-- the variable: nothing decoded yet, or the last capture -/
abbrev TxVar := Option TxCapture

/-- one operation on the variable; a failing capture (the cell cannot be hashed) leaves the variable as it was -/
def TxVar.step (H : List UInt8 → List UInt8) (v : TxVar) : TxOp → TxVar
  | .decode c =>
    match captureTx H c with
    | .ok t => some t
    | _ => v
  | .sourceBoc => v
  | .hash => v

def TxVar.run (H : List UInt8 → List UInt8) (v : TxVar) (ops : List TxOp) : TxVar := ops.foldl (TxVar.step H) v

/-- the cell of the last decode operation of a script whose capture succeeds -/
def lastDecoded (H : List UInt8 → List UInt8) : List TxOp → Option Cell
  | [] => none
  | op :: rest =>
    match lastDecoded H rest with
    | some c => some c
    | none =>
      match op with
      | .decode c => if (captureTx H c).isOk then some c else none
      | _ => none

/-- what `SourceBoc()` returns for the variable -/
def TxVar.sourceBoc {β} (serialize : Cell → Outcome β) (v : TxVar) : Outcome β :=
  match v with
  | some t => t.sourceBoc serialize
  | none => .err "transaction was not unmarshalled from cell"

end Tongo.Message
