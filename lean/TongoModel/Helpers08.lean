import TongoModel.Outcome
/-! Small functions over already-decoded values that index or slice on the strength of data received from a lite
server or read from chain state (property C08, part iii). Each is modelled twice where the code was repaired:
`fixed = false` is the code as found, `fixed = true` the repaired code the driver is compared with. -/
namespace Tongo.Helpers

/-- Go `xs[i]` on a slice of length `n` -/
def index (n i : Nat) : Outcome Unit := if i < n then .ok () else .panic "index out of range"

/-- liteapi.Client.GetTransactions: `for i, cell := range cells { … r.Ids[i] … }` with `len(r.Ids) = nIds` block ids
and `nCells` root cells in `r.Transactions` (two independent fields of the server's answer). `cellOk i` says whether
root `i` decodes as a transaction (an error ends the loop). Result: number of transactions returned. -/
def getTransactions (fixed : Bool) (nIds nCells : Nat) (cellOk : Nat → Bool) : Outcome Nat :=
  if fixed ∧ nIds ≠ nCells then .err "mismatched number of transactions and block ids"
  else
    let rec loop : Nat → Nat → Outcome Nat
      | 0, i => .ok i
      | k + 1, i =>
        if !cellOk i then .err "tlb"
        else match index nIds i with
          | .ok _ => loop k (i + 1)
          | .err e => .err e
          | .panic p => .panic p
    loop nCells 0

/-- `cell[0]` after `boc.DeserializeBoc` returned `nRoots` cells without an error (code.ParseContractMethods,
tlb.VmStack.UnmarshalTL). A bag of cells with an empty root list parses without error. -/
def firstRoot (fixed : Bool) (nRoots : Nat) : Outcome Unit :=
  if fixed ∧ nRoots = 0 then .err "bag of cells has no root" else index nRoots 0

/-- tlb.VmStack.Unmarshal(dest): `NumField() > len(s)` guard, then `s[i]` for every field -/
def vmStackUnmarshal (numField len : Nat) : Outcome Unit :=
  if numField > len then .err "not enough values in stack"
  else (List.range numField).foldlM (fun _ i => index len i) ()

/-- which stack position every struct field is filled from: field `i` takes `s[i]` (tlb/stack.go:625-637; the decoded
stack lists the results of a get-method in the order the method returns them) -/
def vmStackFieldSources (numField len : Nat) : Outcome (List Nat) :=
  match vmStackUnmarshal numField len with
  | .ok _ => .ok (List.range numField)
  | .err e => .err e
  | .panic p => .panic p

/-- liteapi decodeAccountDataFromProof: `cells[1]` behind `len(cells) < 2`, then `values[i]` for `i` ranging over
`keys` (Hashmap.Keys/Values are appended pairwise by mapInner: `nValues = nKeys` for every decoded map) -/
def accountFromProof (nRoots nKeys nValues hit : Nat) : Outcome Unit :=
  if nRoots < 2 then .err "must be at least two root cells"
  else match index nRoots 1 with
    | .ok _ => if hit < nKeys then index nValues hit else .err "account not found in ShardAccounts"
    | .err e => .err e
    | .panic p => .panic p

/-- a decoded VmCellSlice: the referenced cell (none = the zero value, `cell == nil`) and the four bounds -/
structure VmCellSlice where
  cell : Option (Nat × Nat)   -- (bit length, number of refs) of the referenced cell
  stBits : Nat
  endBits : Nat
  stRef : Nat
  endRef : Nat
  deriving Repr, DecidableEq

/-- what VmCellSlice.UnmarshalTLB establishes before storing the value -/
def VmCellSlice.decoded (s : VmCellSlice) : Bool :=
  match s.cell with
  | none => false
  | some (bits, refs) => decide (s.stBits ≤ s.endBits) && decide (s.endBits ≤ bits) &&
      decide (s.stRef ≤ s.endRef) && decide (s.endRef ≤ refs)

/-- tlb.VmCellSlice.Cell(): nil dereference on the zero value, explicit panics when the bit bounds do not fit the cell
(`Skip(stBits)`, `ReadBits(endBits - stBits)` — a negative count reaches `make`), `refs[stRef:endRef]` on a slice of
capacity 4. Result: (bits, refs) of the new cell. -/
def VmCellSlice.toCell (s : VmCellSlice) : Outcome (Nat × Nat) :=
  match s.cell with
  | none => .panic "nil pointer dereference"
  | some (bits, refs) =>
    if bits < s.stBits then .panic "not enough cell bits"
    else if s.endBits < s.stBits then .panic "makeslice: len out of range"
    else if bits - s.stBits < s.endBits - s.stBits then .panic "not enough cell bits"
    else if s.stRef ≤ s.endRef ∧ s.endRef ≤ 4 then .ok (s.endBits - s.stBits, min s.endRef refs - min s.stRef refs)
    else .panic "slice bounds out of range"

/-! #### VM tuples (tlb/stack.go vmTupleInner / vmTupleRefInner, tlb/tuple.go RecursiveToSlice) -/

/-- a decoded VmStackValue as far as tuple conversion looks at it. `brokenSlice`: SumType "VmStkSlice" with the zero
VmCellSlice (what decodeSumType leaves behind when the payload fails AFTER the SumType field was set). -/
inductive Entry where
  | other
  | brokenSlice
  deriving Repr, DecidableEq

mutual
/-- *VmTuple (none = nil) -/
inductive Tuple where
  | nil
  | node (head : TupleRef) (tail : Entry)
/-- VmTupleRef: at most one of Entry / Ref is set -/
inductive TupleRef where
  | empty
  | entry (e : Entry)
  | ref (t : Tuple)
end

/-- VmTuple.RecursiveToSlice(depth) on a non-nil tuple; `none` = returned error -/
def Tuple.toSlice : Tuple → Int → Option (List Entry)
  | .nil, _ => none   -- not reached: callers dereference first (see `tupleUnmarshalStruct`)
  | .node head tail, depth =>
    if depth = 2 then
      match head with
      | .entry e => some [e, tail]
      | _ => none
    else match head with
      | .ref t => (Tuple.toSlice t (depth - 1)).map (· ++ [tail])   -- a nil Ref is the error branch
      | _ => none

/-- VmStkTuple.Unmarshal into a struct with `numField` fields: `Len ≠ NumField` guard, `t.Data.RecursiveToSlice` (a value
receiver: dereferences `t.Data`), then `values[i]` for every field. -/
def tupleUnmarshalStruct (fixed : Bool) (len : Nat) (data : Tuple) (numField : Nat) : Outcome Unit :=
  if len ≠ numField then .err "mismatched fields count in tuple and struct"
  else match data with
    | .nil => if fixed then (if len = 0 then .ok () else .err "tuple has no data") else .panic "nil pointer dereference"
    | d => match d.toSlice len with
      | none => .err "tuple"
      | some vs => (List.range numField).foldlM (fun _ i => index vs.length i) ()

end Tongo.Helpers
