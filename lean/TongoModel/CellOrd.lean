import TongoModel.Cell
/-! Representation hash of level-0 cells written as the TON definition reads (no level machinery):

    repr(c) = d1 d2 data-with-completion-tag ++ be16(depth(ref_i))… ++ hash(ref_i)…      hash(c) = H(repr(c))

This is what `Cell.reprHash` (the line-by-line model of boc/immutable_cell.go) computes for cells whose level mask is 0
(ordinary and library cells); the wallet, the message builders and TON Connect only ever build such cells. Go refuses
to hash a cell with references whose children reach depth 1024 (`depth is too big`); `hashO?` keeps that error.
Also: a small cell-builder monad mirroring `boc.Cell`'s write side (1023 bits, 4 refs, errors on overflow), and
flattening of a tree into a table for the canonical dump. -/
namespace Tongo

mutual
/-- depth of a cell: 0 without refs, else 1 + max depth of the refs -/
def Cell.depthO : Cell → Nat
  | .mk _ _ _ refs => if refs.isEmpty then 0 else Cell.maxDepthO refs + 1
def Cell.maxDepthO : List Cell → Nat
  | [] => 0
  | c :: cs => max (Cell.depthO c) (Cell.maxDepthO cs)
end

/-- the two-byte big-endian depths of the refs, concatenated -/
def Cell.depthsO : List Cell → List UInt8
  | [] => []
  | c :: cs => be16 (Cell.depthO c) ++ Cell.depthsO cs

mutual
/-- representation hash of a level-0 cell -/
def Cell.hashO (H : List UInt8 → List UInt8) : Cell → List UInt8
  | .mk ty mask bits refs => H (reprNoRefs ty bits refs.length mask ++ Cell.depthsO refs ++ Cell.hashesO H refs)
def Cell.hashesO (H : List UInt8 → List UInt8) : List Cell → List UInt8
  | [] => []
  | c :: cs => Cell.hashO H c ++ Cell.hashesO H cs
end

/-- the byte string whose hash is the representation hash -/
def Cell.reprO (H : List UInt8 → List UInt8) : Cell → List UInt8
  | .mk ty mask bits refs => reprNoRefs ty bits refs.length mask ++ Cell.depthsO refs ++ Cell.hashesO H refs

/-- `Cell.Hash()` on a level-0 cell: Go fails when a cell with refs has a child of depth ≥ 1024, i.e. when the
root's depth exceeds 1024 -/
def Cell.hashO? (H : List UInt8 → List UInt8) (c : Cell) : Outcome (List UInt8) :=
  if c.depthO ≤ maxDepth then .ok (c.hashO H) else .err "depth is too big"

mutual
/-- every cell of the tree has level mask 0 and is not a pruned branch (the domain on which `hashO` is the hash) -/
def Cell.lvl0 : Cell → Bool
  | .mk ty mask _ refs => mask == 0 && ty != tyPruned && Cell.lvl0List refs
def Cell.lvl0List : List Cell → Bool
  | [] => true
  | c :: cs => Cell.lvl0 c && Cell.lvl0List cs
end

/-- `H` is injective on the finite set `S` of representations (the named idealisation; always a local hypothesis) -/
def CollisionFree (H : List UInt8 → List UInt8) (S : List (List UInt8)) : Prop :=
  ∀ x ∈ S, ∀ y ∈ S, H x = H y → x = y

/-! ### builder: the write side of boc.Cell -/

/-- a cell under construction -/
structure CellB where
  bits : List Bool := []
  refs : List Cell := []
  deriving Inhabited

namespace CellB
def empty : CellB := {}
/-- WriteBit/WriteUint/WriteBytes/WriteBitString: `ErrBitStingOverflow` past 1023 bits -/
def write (b : CellB) (l : List Bool) : Outcome CellB :=
  if b.bits.length + l.length ≤ 1023 then .ok { b with bits := b.bits ++ l } else .err "bit string overflow"
/-- AddRef: `ErrCellRefsOverflow` past 4 refs -/
def addRef (b : CellB) (c : Cell) : Outcome CellB :=
  if b.refs.length < 4 then .ok { b with refs := b.refs ++ [c] } else .err "refs overflow"
def writeUint (b : CellB) (v n : Nat) : Outcome CellB := b.write (Bits.natToBits n v)
def writeBytes (b : CellB) (bs : List UInt8) : Outcome CellB := b.write (Bits.bytesToBits bs)
/-- tlb.Any: all bits of the cell, then its refs in order -/
def writeAny (b : CellB) (c : Cell) : Outcome CellB := do
  let b ← b.write c.bits
  c.refs.foldlM (fun acc r => acc.addRef r) b
def toCell (b : CellB) : Cell := .ordinary b.bits b.refs
end CellB

/-! ### flattening a tree into a table (pre-order: refs point to later rows) -/

mutual
def Cell.flatten : Cell → Array CellRow → Array CellRow × Nat
  | .mk ty mask bits refs, acc =>
    let idx := acc.size
    let acc := acc.push { ty := ty, mask := mask, bits := bits, refs := [] }
    let (acc, ids) := Cell.flattenList refs acc
    (acc.modify idx (fun r => { r with refs := ids }), idx)
def Cell.flattenList : List Cell → Array CellRow → Array CellRow × List Nat
  | [], acc => (acc, [])
  | c :: cs, acc =>
    let (acc, i) := Cell.flatten c acc
    let (acc, is) := Cell.flattenList cs acc
    (acc, i :: is)
end

def Cell.toTable (c : Cell) : Table := (Cell.flatten c #[]).1

end Tongo
