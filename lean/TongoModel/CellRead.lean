import TongoModel.CellOrd
/-! The read side of boc.Cell (cursor over bits and refs, errors when exhausted) and the dictionary codec of
tlb/hashmap.go's decoding side as the wallet data decoders use it: `loadLabel`/`mapInner` (all three label forms are
read). The encoder (and the decoder used for the highload payload) is the shared model `TongoModel/Hashmap.lean` (C05). -/
namespace Tongo
open Tongo.Bits

/-- a cell being read: what is left of its bits and refs -/
structure CellR where
  bits : List Bool
  refs : List Cell
  deriving Inhabited

namespace CellR
def ofCell (c : Cell) : CellR := { bits := c.bits, refs := c.refs }
/-- ReadBits / ReadUint / ReadBytes: `ErrNotEnoughBits` -/
def readBits (r : CellR) (n : Nat) : Outcome (List Bool × CellR) :=
  if n ≤ r.bits.length then .ok (r.bits.take n, { r with bits := r.bits.drop n }) else .err "not enough bits"
def readUint (r : CellR) (n : Nat) : Outcome (Nat × CellR) := do
  let (b, r) ← r.readBits n
  pure (bitsToNat b, r)
def readBit (r : CellR) : Outcome (Bool × CellR) :=
  match r.bits with
  | b :: rest => .ok (b, { r with bits := rest })
  | [] => .err "not enough bits"
/-- NextRef: `ErrNotEnoughRefs` -/
def nextRef (r : CellR) : Outcome (Cell × CellR) :=
  match r.refs with
  | c :: rest => .ok (c, { r with refs := rest })
  | [] => .err "not enough refs"
/-- ReadUnary: count ones up to the first zero -/
def readUnary : (fuel : Nat) → CellR → Outcome (Nat × CellR)
  | 0, _ => .err "not enough bits"
  | fuel + 1, r =>
    match r.bits with
    | [] => .err "not enough bits"
    | false :: rest => .ok (0, { r with bits := rest })
    | true :: rest => do
      let (n, r') ← readUnary fuel { r with bits := rest }
      pure (n + 1, r')
/-- skip `n` bits when `flag` is set (a `Maybe` field that is not looked at) -/
def skipIf (r : CellR) (flag : Bool) (n : Nat) : Outcome CellR :=
  if flag then (r.readBits n).bind (fun x => .ok x.2) else .ok r
/-- skip one ref when `flag` is set -/
def skipRefIf (r : CellR) (flag : Bool) : Outcome CellR :=
  if flag then (r.nextRef).bind (fun x => .ok x.2) else .ok r
/-- CopyRemaining (tlb.Any): an ordinary cell with the remaining bits and refs; the cursor is left where it was -/
def remaining (r : CellR) : Cell := .ordinary r.bits r.refs
end CellR

/-- boc.minBitsRequired: bit length of the value -/
def minBitsRequired (n : Nat) : Nat := if n = 0 then 0 else Nat.log2 n + 1

/-- width read by `ReadLimUint(n)` for a Go `int` n: `minBitsRequired(uint64(n))` (a negative n wraps to ≥ 2⁶³ ⇒ 64) -/
def limUintWidth (n : Int) : Nat := if n < 0 then 64 else minBitsRequired n.toNat

/-! ### reading a dictionary (Hashmap.mapInner) -/

/-- append to a key prefix whose capacity is `cap` bits (`BitString.WriteBit` on a `NewBitString(keySize)`) -/
def prefixPush (cap : Nat) (pfx add : List Bool) : Outcome (List Bool) :=
  if pfx.length + add.length ≤ cap then .ok (pfx ++ add) else .err "bit string overflow"

/-- `loadLabel(size, c, key)`: returns the label length and the extended key prefix -/
def loadLabel (cap : Nat) (size : Int) (r : CellR) (pfx : List Bool) : Outcome (Nat × List Bool × CellR) := do
  let (first, r) ← r.readBit
  if !first then
    let (ln, r) ← r.readUnary (r.bits.length + 1)
    -- bits are read and appended one at a time: whichever fails first decides (both are `err`)
    let (s, r) ← r.readBits (min ln (r.bits.length + 1))
    let p ← prefixPush cap pfx s
    pure (ln, p, r)
  else
    let (second, r) ← r.readBit
    if !second then
      let (ln, r) ← r.readUint (limUintWidth size)
      let (s, r) ← r.readBits (min ln (r.bits.length + 1))
      let p ← prefixPush cap pfx s
      pure (ln, p, r)
    else
      let (bit, r) ← r.readBit
      let (ln, r) ← r.readUint (limUintWidth size)
      let p ← prefixPush cap pfx (List.replicate (min ln (cap + 1)) bit)
      pure (ln, p, r)

/-- `mapInner(keySize, leftKeySize, c, keyPrefix)`: leaves in left-to-right order as (key bits, value) -/
def mapInner (readVal : CellR → Outcome α) (keySize : Nat) : (fuel : Nat) → (leftKeySize : Int) → Cell → List Bool →
    Outcome (List (List Bool × α))
  | 0, _, _, _ => .err "fuel"
  | fuel + 1, left, c, pfx =>
    if c.ty = tyPruned then .ok []
    else do
      let (size, pfx, r) ← loadLabel keySize left (CellR.ofCell c) pfx
      if pfx.length < keySize then
        let (l, r) ← r.nextRef
        let lp ← prefixPush keySize pfx [false]
        let ls ← mapInner readVal keySize fuel (left - (1 + (size : Int))) l lp
        let (rt, _) ← r.nextRef
        let rp ← prefixPush keySize pfx [true]
        let rs ← mapInner readVal keySize fuel (left - (1 + (size : Int))) rt rp
        pure (ls ++ rs)
      else
        let v ← readVal r
        pure [(pfx, v)]

/-- `HashmapE.UnmarshalTLB` = `Maybe ^Hashmap`: one bit; if set, the next ref holds the dictionary. A library cell in
that position is refused, a pruned branch is skipped (empty result). -/
def readHashmapE (readVal : CellR → Outcome α) (keySize : Nat) (r : CellR) : Outcome (List (List Bool × α) × CellR) := do
  let (ex, r) ← r.readBit
  if !ex then pure ([], r)
  else
    let (d, r) ← r.nextRef
    if d.ty = tyLibrary then .err "library cell decoding is not configured properly"
    else
      let kvs ← mapInner readVal keySize (keySize + 2) keySize d []
      pure (kvs, r)

end Tongo
