import TongoModel.Outcome
/-! Model of the generic TL decoder (`tl/decoder.go`) and of the generated `UnmarshalTL` methods
(`liteclient/generated.go`) on ARBITRARY bytes, with Go partiality and allocation explicit.

A decoder is a state transformer over `St` (the unread input of a `bytes.Reader`, the bytes/elements requested through
`make` / `reflect.MakeSlice` / `append` from sizes that come from the wire, and a step counter) returning an `Outcome`.
The state is kept on `err` and `panic` too: the property is about what was allocated and spent on inputs that FAIL.

Two versions of the code are modelled, selected by `Cfg`:
* `Cfg.orig`   — the code as found: `make([]byte, n)` for a 3-byte length prefix before the data is read,
                 `reflect.MakeSlice(t, 0, ln)` with the 32-bit wire count, `val.Elem().Type()` on a nil pointer field;
* `Cfg.fixed`  — the repaired code (the `fix:` commits): chunked `readN`, capacity `min(ln, maxPrealloc)`, nil pointer
                 fields are allocated. The driver runs `Cfg.fixed`; it must agree with the current source.

Partial operations of the Go code (line numbers: tl/decoder.go at 730d89f) and where they are in the model. A site is
modelled as partial only if the Go expression can panic once the code that guards it is changed:
* `chunk[:k]` in `readN` (:153, :157)          — `sliceTo maxPrealloc k` with `k : Int`, panic for `k < 0` or `k > 4096`;
  guard: the loop condition `len(data) < n` (:148) and the clamp `if k > len(chunk)` (:150);
* `reflect.MakeSlice(val.Type(), 0, capacity)` (:275) — `makeSliceCap cap` with `cap : Int`, panic for `cap < 0`
  ("reflect.MakeSlice: negative cap"); guard: the count is kept unsigned (:269-273). LIVE in the code before 730d89f
  where `int` has 32 bits (`Cfg.int32`, theorem `tl_decode_int32_count_panics`, replayed with GOARCH=386);
* `val.Elem()` then `val.Type()` on a nil pointer field (:30-32) — `crash` under `Cfg.nilPtrPanics` (code as found);
NOT partial in Go, hence total in the model:
* `binary.LittleEndian.Uint32(b)` / `Uint64(b)` (:52, :65, :76, :181, :269 and every tag read of generated.go): `b` is
  `make([]byte, 4)`, `make([]byte, 8)`, a `[4]byte` — a buffer of constant length whatever `io.ReadFull` returned; with
  the error check removed the value is garbage, not a panic. (Round 4 modelled these as partial; that was artificial
  and is withdrawn.)
* `sizeBuf[:3]` (:177), `b[0]` of a `[1]byte` (:124), `t[3]..t[0]` after `len(t) != 4` (:253-256): constant bounds;
* `make([]byte, n)` (:139): `n` is a byte or a 3-byte value, at most 2^24-1 in any `int`; COUNTED;
* `reflect.New(..).Interface().(UnmarshalerTL)` (:34): comma-ok assertion;
OUTSIDE the model:
* reflect panics that depend on the Go TYPE only and not on the input (`FieldByName("SumType").SetString` (:228) on a
  field that is not a string; `Set` on an unexported field is guarded by `CanSet`): `Ty` is the shape the decoder sees,
  not the Go type. Every alternative of every shipped sum type is decoded at least once on the Go side from an accepted
  encoding (the `valid` lines of `tld.dec`; conditional fields with random mode bits).
`decodeLength` / `processQueryAnswer` (liteclient/client.go): slice expressions with explicit bounds panics (below). -/
namespace Tongo.TlD

structure Cfg where
  /-- readByteSlice: `make([]byte, n)` BEFORE reading the data (n from a 3-byte prefix) -/
  allocBeforeRead : Bool
  /-- decodeVector: `MakeSlice(t, 0, ln)` with the wire count -/
  trustCount : Bool
  /-- decode of a nil pointer field: `val.Elem()` is the zero Value, `val.Type()` panics -/
  nilPtrPanics : Bool
  /-- decodeVector: `ln := int(binary.LittleEndian.Uint32(b))` where `int` has 32 bits (GOARCH=386/arm): a count of
  2^31 or more is negative. The repaired code keeps the count unsigned. -/
  countInt32 : Bool
  deriving Repr, DecidableEq

def Cfg.orig : Cfg := ⟨true, true, true, false⟩
def Cfg.fixed : Cfg := ⟨false, false, false, false⟩
/-- the code after the round-1 repairs and before 730d89f, where `int` has 32 bits -/
def Cfg.int32 : Cfg := ⟨false, false, false, true⟩

/-- `maxPrealloc` of tl/decoder.go (repaired code): the most that is allocated on the strength of a length prefix alone -/
def maxPrealloc : Nat := 4096
/-- `maxPreallocItems` of tl/decoder.go (repaired code): initial capacity bound of a decoded vector -/
def maxPreallocItems : Nat := 256

structure St where
  rest : List UInt8
  alloc : Nat
  steps : Nat
  deriving Repr

abbrev M (α : Type) := St → Outcome α × St

@[inline] def ret {α} (a : α) : M α := fun s => (.ok a, s)
@[inline] def fail {α} (e : String) : M α := fun s => (.err e, s)
@[inline] def crash {α} (p : String) : M α := fun s => (.panic p, s)

@[inline] def bind {α β} (m : M α) (f : α → M β) : M β := fun s =>
  match m s with
  | (.ok a, s') => f a s'
  | (.err e, s') => (.err e, s')
  | (.panic p, s') => (.panic p, s')

instance : Monad M where
  pure := ret
  bind := bind

/-- one unit of work -/
def tick : M Unit := fun s => (.ok (), { s with steps := s.steps + 1 })
/-- `n` bytes/elements requested from the allocator on the strength of wire data -/
def allocN (n : Nat) : M Unit := fun s => (.ok (), { s with alloc := s.alloc + n })

/-- `io.ReadFull(r, buf)` with `len(buf) = n` on a `bytes.Reader`: all or (consuming what is left) an error.
Costs one step plus one per byte copied. -/
def readFull (n : Nat) : M (List UInt8) := fun s =>
  if n ≤ s.rest.length then (.ok (s.rest.take n), { s with rest := s.rest.drop n, steps := s.steps + 1 + n })
  else (.err "EOF", { s with rest := [], steps := s.steps + 1 + s.rest.length })

/-- little-endian value -/
def le : List UInt8 → Nat
  | [] => 0
  | b :: bs => b.toNat + 256 * le bs

/-- `b := make([]byte, 4); io.ReadFull(buf, b); binary.LittleEndian.Uint32(b)` and the same on a `[4]byte`: the buffer
has constant length, `Uint32` is total -/
def read32 {β} (f : Nat → M β) : M β := bind (readFull 4) fun b => f (le b)
/-- the same with 8 bytes -/
def read64 {β} (f : Nat → M β) : M β := bind (readFull 8) fun b => f (le b)
/-- `sizeBuf := make([]byte, 4); io.ReadFull(r, sizeBuf[:3]); binary.LittleEndian.Uint32(sizeBuf)` -/
def read24 {β} (f : Nat → M β) : M β := bind (readFull 3) fun b => f (le b)

/-- `buf[:k]` for a Go int `k` on a buffer of length `len` (tl/decoder.go:153 `chunk[:k]`): out of range panics -/
def sliceTo (len : Nat) (k : Int) : M Unit := fun s =>
  if k < 0 ∨ (len : Int) < k then (.panic "slice bounds out of range", s) else (.ok (), s)

/-- `reflect.MakeSlice(typ, 0, cap)` (tl/decoder.go:275) for elements of `sz` bytes: a negative capacity panics -/
def makeSliceCap (cap : Int) (sz : Nat) : M Unit := fun s =>
  if cap < 0 then (.panic "reflect.MakeSlice: negative cap", s)
  else (.ok (), { s with alloc := s.alloc + cap.toNat * sz })

/-- the count of decodeVector as the loop and `MakeSlice` see it: `int(uint32)` wraps where `int` has 32 bits -/
def Cfg.count (cfg : Cfg) (v : Nat) : Int :=
  if cfg.countInt32 ∧ 2 ^ 31 ≤ v then (v : Int) - 2 ^ 32 else (v : Int)

/-- the padding loop of readByteSlice: `k` single-byte reads -/
def padLoop : Nat → M Unit
  | 0 => ret ()
  | k + 1 => bind (readFull 1) fun _ => padLoop k

/-- repaired `readN`, the loop over chunks for n > maxPrealloc: fuel = chunks left, `n` = wanted, `got` = len(data). Each chunk is
read into a fixed buffer and appended (the append is what is counted). -/
def readChunks : Nat → Nat → Nat → M Unit
  | 0, _, _ => ret ()
  | fuel + 1, n, got =>
    if n ≤ got then ret ()   -- `for len(data) < n`
    else
      -- k := n - len(data); if k > len(chunk) { k = len(chunk) }; io.ReadFull(r, chunk[:k]); data = append(data, chunk[:k]...)
      let k : Int := min ((n : Int) - (got : Int)) (maxPrealloc : Int)
      bind (sliceTo maxPrealloc k) fun _ => bind (readFull k.toNat) fun _ => bind (allocN k.toNat) fun _ =>
      readChunks fuel n (got + k.toNat)

/-- `data := make([]byte, n); io.ReadFull(r, data)` -/
def allocRead (n : Nat) : M Unit := bind (allocN n) fun _ => bind (readFull n) fun _ => ret ()

/-- repaired `readN(r, n)` -/
def readN (n : Nat) : M Unit :=
  if n ≤ maxPrealloc then allocRead n
  else bind (allocN maxPrealloc) fun _ => readChunks ((n + maxPrealloc - 1) / maxPrealloc) n 0

/-- `readByteSlice`: returns the length of the data -/
def readByteSlice (cfg : Cfg) : M Nat :=
  bind (readFull 1) fun fb =>
  let first := le fb
  if first < 254 then
    bind (allocRead first) fun _ =>
    bind (padLoop ((4 - (1 + first) % 4) % 4)) fun _ => ret first
  else if first = 254 then
    -- sizeBuf := make([]byte, 4); io.ReadFull(r, sizeBuf[:3]); binary.LittleEndian.Uint32(sizeBuf)
    read24 fun n =>
    bind (if cfg.allocBeforeRead then allocRead n else readN n) fun _ =>
    bind (padLoop ((4 - (4 + n) % 4) % 4)) fun _ => ret n
  else fail "invalid bytes prefix"

/-- the loop of decodeVector: `decode` the item, `reflect.Append` it (counted as `sz` bytes), THEN look at the error -/
def vecLoop (dec : M Nat) (sz : Nat) : Nat → M Nat
  | 0 => ret 0
  | n + 1 => fun s =>
    match dec { s with steps := s.steps + 1 } with
    | (.ok _, s') => vecLoop dec sz n { s' with alloc := s'.alloc + sz }
    | (.err e, s') => (.err e, { s' with alloc := s'.alloc + sz })
    | (.panic p, s') => (.panic p, s')

mutual
/-- shape of a Go type as the TL decoder sees it -/
inductive Ty where
  /-- uint32 / int32 -/
  | int4
  /-- uint64 / int64 -/
  | int8
  | bool
  /-- []byte and string -/
  | bytes
  /-- [n]byte -/
  | arr (n : Nat)
  /-- tl.Int256 (its own UnmarshalTL: 32 raw bytes) -/
  | int256
  /-- a slice of anything but bytes; `sz` = size in bytes of one element in memory (reflect.Type.Size) -/
  | vec (sz : Nat) (e : Ty)
  /-- decodeBasicStruct, and the straight-line body of a generated UnmarshalTL (fields conditional on mode bits) -/
  | struct (fs : Fields)
  /-- decodeSumType / the tag switch of a generated UnmarshalTL -/
  | sum (alts : Alts)
  /-- a pointer-typed struct field, nil when the decoder reaches it -/
  | ptr (e : Ty)
  /-- any other kind: `type … not implemented` -/
  | bad
inductive Fields where
  | nil
  /-- `cond = some k`: decoded only if bit `k` of the mode is set; `isMode`: this field's value becomes the mode -/
  | cons (cond : Option Nat) (isMode : Bool) (t : Ty) (rest : Fields)
inductive Alts where
  | nil
  /-- `tag = none`: the `tlSumType` tag string is not 8 hex digits (an error when the loop reaches it) -/
  | cons (tag : Option Nat) (t : Ty) (rest : Alts)
end

mutual
/-- `tl.decode` / generated `UnmarshalTL`; the result is the numeric value of an integer (0 otherwise), used for modes -/
def decode (cfg : Cfg) : Ty → M Nat
  | .int4 => bind tick fun _ => read32 fun v => ret v
  | .int8 => bind tick fun _ => read64 fun v => ret v
  | .bool => bind tick fun _ => read32 fun v =>
      if v = 0x997275b5 then ret 1 else if v = 0xbc799737 then ret 0 else fail "invalid Bool tag"
  | .bytes => bind tick fun _ => bind (readByteSlice cfg) fun _ => ret 0
  | .arr n => bind tick fun _ => bind (readByteSlice cfg) fun l =>
      if l = n then ret 0 else fail "mismatched length of decoded byte slice and array"
  | .int256 => bind tick fun _ => bind (readFull 32) fun _ => ret 0
  | .vec sz e => bind tick fun _ => read32 fun v =>
      -- `for i := 0; i < ln; i++` does not run for a negative `ln`
      bind (makeSliceCap (if cfg.trustCount then cfg.count v else min (cfg.count v) (maxPreallocItems : Int)) sz) fun _ =>
      vecLoop (decode cfg e) sz (cfg.count v).toNat
  | .struct fs => bind tick fun _ => decodeFields cfg fs 0
  | .sum alts => bind tick fun _ => read32 fun tag => decodeAlts cfg alts tag
  | .ptr e => if cfg.nilPtrPanics then crash "reflect: call of reflect.Value.Type on zero Value"
      else bind tick fun _ => decode cfg e
  | .bad => bind tick fun _ => fail "type not implemented"
def decodeFields (cfg : Cfg) : Fields → Nat → M Nat
  | .nil, _ => ret 0
  | .cons cond isMode t rest, mode =>
    match cond with
    | some k =>
      if mode.testBit k then bind (decode cfg t) fun v => decodeFields cfg rest (if isMode then v else mode)
      else decodeFields cfg rest mode
    | none => bind (decode cfg t) fun v => decodeFields cfg rest (if isMode then v else mode)
def decodeAlts (cfg : Cfg) : Alts → Nat → M Nat
  | .nil, _ => fail "can not decode sumtype"
  | .cons none _ _, _ => fail "invalid tag"
  | .cons (some tg) t rest, tag =>
    if tg = tag then decode cfg t else bind tick fun _ => decodeAlts cfg rest tag
end

/-- `tl.Unmarshal(bytes.NewReader(bs), &x)` for `x` of shape `ty` -/
def run (cfg : Cfg) (ty : Ty) (bs : List UInt8) : Outcome Nat × St := decode cfg ty ⟨bs, 0, 0⟩

/-! ### constants of the bounds, by recursion on the type -/

mutual
/-- least number of bytes a successful decode consumes -/
def Ty.width : Ty → Nat
  | .int4 => 4 | .int8 => 8 | .bool => 4 | .bytes => 1 | .arr _ => 1 | .int256 => 32
  | .vec _ _ => 4
  | .struct fs => fs.width
  | .sum alts => 4 + alts.width
  | .ptr e => e.width
  | .bad => 0
def Fields.width : Fields → Nat
  | .nil => 0
  | .cons none _ t rest => t.width + rest.width
  | .cons (some _) _ _ rest => rest.width
def Alts.width : Alts → Nat
  | .nil => 0
  | .cons _ _ _ => 0
end

mutual
/-- every vector element consumes at least one byte when it decodes (otherwise a 4-byte count drives 2³² iterations) -/
def Ty.wf : Ty → Bool
  | .vec _ e => e.wf && decide (1 ≤ e.width)
  | .struct fs => fs.wf
  | .sum alts => alts.wf
  | .ptr e => e.wf
  | _ => true
def Fields.wf : Fields → Bool
  | .nil => true
  | .cons _ _ t rest => t.wf && rest.wf
def Alts.wf : Alts → Bool
  | .nil => true
  | .cons _ t rest => t.wf && rest.wf
end

mutual
/-- allocation per consumed byte -/
def Ty.allocA : Ty → Nat
  | .vec sz e => e.allocA + 2 * sz
  | .struct fs => fs.allocA
  | .sum alts => alts.allocA
  | .ptr e => e.allocA
  | _ => 2
def Fields.allocA : Fields → Nat
  | .nil => 2
  | .cons _ _ t rest => max t.allocA rest.allocA
def Alts.allocA : Alts → Nat
  | .nil => 2
  | .cons _ t rest => max t.allocA rest.allocA
end

mutual
/-- allocation not covered by consumed bytes (what a decode that fails may have requested in vain) -/
def Ty.allocB : Ty → Nat
  | .bytes => 2 * maxPrealloc
  | .arr _ => 2 * maxPrealloc
  | .vec sz e => e.allocB + (maxPreallocItems + 1) * sz
  | .struct fs => fs.allocB
  | .sum alts => alts.allocB
  | .ptr e => e.allocB
  | _ => 0
def Fields.allocB : Fields → Nat
  | .nil => 0
  | .cons _ _ t rest => max t.allocB rest.allocB
def Alts.allocB : Alts → Nat
  | .nil => 0
  | .cons _ t rest => max t.allocB rest.allocB
end

mutual
/-- steps per consumed byte -/
def Ty.stepK : Ty → Nat
  | .vec _ e => e.stepK + e.stepS + 1
  | .struct fs => fs.stepK
  | .sum alts => alts.stepK
  | .ptr e => e.stepK
  | _ => 3
def Fields.stepK : Fields → Nat
  | .nil => 3
  | .cons _ _ t rest => max t.stepK rest.stepK
def Alts.stepK : Alts → Nat
  | .nil => 3
  | .cons _ t rest => max t.stepK rest.stepK
/-- steps not covered by consumed bytes -/
def Ty.stepS : Ty → Nat
  | .bytes => 16
  | .arr _ => 16
  | .vec _ e => e.stepS + 3
  | .struct fs => 1 + fs.stepS
  | .sum alts => 2 + alts.stepS
  | .ptr e => 1 + e.stepS
  | _ => 2
def Fields.stepS : Fields → Nat
  | .nil => 0
  | .cons _ _ t rest => t.stepS + rest.stepS
def Alts.stepS : Alts → Nat
  | .nil => 0
  | .cons _ t rest => 1 + max t.stepS rest.stepS
end

/-! ### text form of descriptors (written by the Go harness from reflection + go/ast, parsed by the driver)

  ty     := 'i' | 'l' | 'b' | 'B' | 'A' nat | 'H' | 'V' nat '(' ty ')' | 'T(' fields ')' | 'U(' alts ')' | 'P(' ty ')' | 'X'
  fields := ε | field (',' field)*        field := ['m'] ['?' nat ':'] ty
  alts   := ε | alt (',' alt)*            alt   := (nat | '!') '=' ty          ('!' = malformed tag string) -/

abbrev P (α : Type) := List Char → Option (α × List Char)

def pNat : P Nat := fun cs =>
  let ds := cs.takeWhile Char.isDigit
  if ds.isEmpty then none else some (ds.foldl (fun a c => 10 * a + (c.toNat - '0'.toNat)) 0, cs.drop ds.length)

def expect (c : Char) : P Unit := fun cs => match cs with
  | d :: rest => if c = d then some ((), rest) else none
  | [] => none

mutual
partial def pTy : P Ty := fun cs => match cs with
  | 'i' :: r => some (.int4, r)
  | 'l' :: r => some (.int8, r)
  | 'b' :: r => some (.bool, r)
  | 'B' :: r => some (.bytes, r)
  | 'H' :: r => some (.int256, r)
  | 'X' :: r => some (.bad, r)
  | 'A' :: r => (pNat r).map fun (n, r) => (.arr n, r)
  | 'V' :: r => do
    let (sz, r) ← pNat r
    let (_, r) ← expect '(' r
    let (e, r) ← pTy r
    let (_, r) ← expect ')' r
    pure (.vec sz e, r)
  | 'P' :: '(' :: r => do
    let (e, r) ← pTy r
    let (_, r) ← expect ')' r
    pure (.ptr e, r)
  | 'T' :: '(' :: r => do
    let (fs, r) ← pFields r
    let (_, r) ← expect ')' r
    pure (.struct fs, r)
  | 'U' :: '(' :: r => do
    let (as, r) ← pAlts r
    let (_, r) ← expect ')' r
    pure (.sum as, r)
  | _ => none
partial def pFields : P Fields := fun cs => match cs with
  | ')' :: _ => some (.nil, cs)
  | _ => do
    let (isMode, r) := match cs with | 'm' :: r => (true, r) | _ => (false, cs)
    let (cond, r) ← match r with
      | '?' :: r => do
        let (k, r) ← pNat r
        let (_, r) ← expect ':' r
        pure (some k, r)
      | _ => pure (none, r)
    let (t, r) ← pTy r
    match r with
    | ',' :: r => do
      let (rest, r) ← pFields r
      pure (.cons cond isMode t rest, r)
    | _ => pure (.cons cond isMode t .nil, r)
partial def pAlts : P Alts := fun cs => match cs with
  | ')' :: _ => some (.nil, cs)
  | _ => do
    let (tag, r) ← match cs with
      | '!' :: r => pure (none, r)
      | _ => do
        let (n, r) ← pNat cs
        pure (some n, r)
    let (_, r) ← expect '=' r
    let (t, r) ← pTy r
    match r with
    | ',' :: r => do
      let (rest, r) ← pAlts r
      pure (.cons tag t rest, r)
    | _ => pure (.cons tag t .nil, r)
end

def parseTy (s : String) : Option Ty :=
  match pTy s.toList with
  | some (t, []) => some t
  | _ => none

/-! the printer of the text form (inverse of `parseTy`): the generated descriptor terms (`TongoGen.TldTypes`) are tied to
the text the harness sends by `desc_X.show = "<text>"`, and `tld.consts` answers `show (parseTy text)` -/
mutual
def Ty.show : Ty → String
  | .int4 => "i"
  | .int8 => "l"
  | .bool => "b"
  | .bytes => "B"
  | .int256 => "H"
  | .bad => "X"
  | .arr n => "A" ++ toString n
  | .vec sz e => "V" ++ toString sz ++ "(" ++ e.show ++ ")"
  | .ptr e => "P(" ++ e.show ++ ")"
  | .struct fs => "T(" ++ fs.show ++ ")"
  | .sum as => "U(" ++ as.show ++ ")"
def Fields.show : Fields → String
  | .nil => ""
  | .cons cond isMode t rest =>
    (if isMode then "m" else "") ++ (match cond with | some k => "?" ++ toString k ++ ":" | none => "") ++ t.show ++
      (match rest with | .nil => "" | _ => "," ++ rest.show)
def Alts.show : Alts → String
  | .nil => ""
  | .cons tag t rest =>
    (match tag with | some n => toString n | none => "!") ++ "=" ++ t.show ++
      (match rest with | .nil => "" | _ => "," ++ rest.show)
end

/-! ### the helpers that sit directly on network data (liteclient/client.go, liteclient/decoder.go) -/

/-- `decodeLength(b)`: (length, offset of the data in `b`). The explicit `panic` of the Go code is kept. -/
def decodeLength (b : List UInt8) : Outcome (Nat × Nat) :=
  match b with
  | [] => .err "size should contains at least one byte"
  | b0 :: _ =>
    if b0.toNat = 255 then .err "invalid first byte value"
    else if b0.toNat < 254 then .ok (b0.toNat, 1)
    else if b0.toNat ≠ 254 then .panic "how it cat be possible?"
    else if b.length < 4 then .err "not enough bytes for decoding size"
    else .ok (le ((b.take 4).drop 1), 4)   -- b[0]=0; LE32(b[:4]) >> 8

/-- Go slicing `b[lo:hi]` -/
def slice (b : List UInt8) (lo hi : Nat) : Outcome (List UInt8) :=
  if lo ≤ hi ∧ hi ≤ b.length then .ok ((b.take hi).drop lo) else .panic "slice bounds out of range"

/-- `processQueryAnswer` after the query-id lookup succeeded (`known`): the bytes sent on the answer channel -/
def processQueryAnswer (payload : List UInt8) (known : Bool) : Outcome (List UInt8) :=
  if payload.length < 37 then .err "too short payload"
  else do
    let _id ← slice payload 4 36
    if !known then .err "unknown query"
    else do
      let tail ← slice payload 36 payload.length
      let (length, off) ← decodeLength tail
      let data ← slice tail off tail.length
      if data.length < length then .err "payload is smaller than should be according to length"
      else slice data 0 length

/-- the head of every generated client method: `len(resp) < 4` guard, `resp[:4]`, `resp[4:]` -/
def respTag (resp : List UInt8) : Outcome (Nat × List UInt8) :=
  if resp.length < 4 then .err "not enough bytes for tag"
  else do
    let t ← slice resp 0 4
    let body ← slice resp 4 resp.length
    pure (le t, body)

/-- `LiteapiRequestDecoder`: the tag, and whether a registered decoder accepted the body (`Unknown` otherwise).
`lookup` = the tag table of generated.go. It never returns an error. -/
def liteapiRequestDecoder (cfg : Cfg) (lookup : Nat → Option Ty) (b : List UInt8) : Outcome (Nat × Bool) :=
  if b.length < 4 then .err "message too short"
  else do
    let t ← slice b 0 4
    let tag := le t
    match lookup tag with
    | none => pure (tag, false)
    | some ty => do
      -- decodeRequest re-checks length and tag, then tl.Unmarshal(bytes.NewReader(b[4:]), body)
      let body ← slice b 4 b.length
      match (run cfg ty body).1 with
      | .ok _ => pure (tag, true)
      | .err _ => pure (tag, false)
      | .panic p => .panic p

end Tongo.TlD
