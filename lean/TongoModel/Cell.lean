import TongoModel.Bits
import TongoModel.Outcome
import TongoModel.Prim.Sha256
import TongoModel.Prim.Hex
/-! Cells: the inductive tree (specification view), the table (executable view: a topologically ordered array whose
refs are indices, exactly what a bag-of-cells is), level masks, descriptor bytes, and a line-by-line model of
`newImmutableCell` / `immutableCell.Hash` / `immutableCell.Depth` (boc/immutable_cell.go). The hash function is a
parameter `H`; the driver instantiates it with SHA-256. -/
namespace Tongo

/-- Go's CellType values -/
def tyOrdinary := 0
def tyPruned := 1
def tyLibrary := 2
def tyMerkleProof := 3
def tyMerkleUpdate := 4

inductive Cell where
  | mk (ty : Nat) (mask : Nat) (bits : List Bool) (refs : List Cell)
  deriving Inhabited

namespace Cell
def ty : Cell → Nat | mk t _ _ _ => t
def mask : Cell → Nat | mk _ m _ _ => m
def bits : Cell → List Bool | mk _ _ b _ => b
def refs : Cell → List Cell | mk _ _ _ r => r
def ordinary (bits : List Bool) (refs : List Cell) : Cell := mk 0 0 bits refs
end Cell

/-- one row of a cell table; `refs` are indices of rows, each strictly greater than the row's own index -/
structure CellRow where
  ty : Nat
  mask : Nat
  bits : List Bool
  refs : List Nat
  deriving Repr, DecidableEq, Inhabited

abbrev Table := Array CellRow

namespace LevelMask
/-- boc/level_mask.go on masks 0..7 (`Level` = bit length, `HashIndex` = popcount) -/
def level (m : Nat) : Nat := if m = 0 then 0 else Nat.log2 m + 1
def hashIndex (m : Nat) : Nat := (List.range 32).foldl (fun acc i => acc + (if m.testBit i then 1 else 0)) 0
def hashesCount (m : Nat) : Nat := hashIndex m + 1
def apply (m : Nat) (lvl : Nat) : Nat := m &&& (2 ^ lvl - 1)
def isSignificant (m : Nat) (lvl : Nat) : Bool := lvl == 0 || (m >>> (lvl - 1)) % 2 != 0
end LevelMask

/-- descriptor byte d1 (boc/cell.go d1): refs + 8·exotic + 32·mask, truncated to a byte -/
def d1 (nrefs : Nat) (exotic : Bool) (mask : Nat) : UInt8 := UInt8.ofNat (nrefs + (if exotic then 8 else 0) + 32 * mask)
/-- descriptor byte d2: ⌈n/8⌉ + ⌊n/8⌋ -/
def d2 (bitLen : Nat) : UInt8 := UInt8.ofNat ((bitLen + 7) / 8 + bitLen / 8)

/-- bocReprWithoutRefs: d1 d2 ++ data with completion tag -/
def reprNoRefs (ty : Nat) (bits : List Bool) (nrefs : Nat) (maskForD1 : Nat) : List UInt8 :=
  d1 nrefs (ty != 0) maskForD1 :: d2 bits.length :: Bits.toppedUp bits

/-- what `newImmutableCell` keeps per cell -/
structure HashInfo where
  ty : Nat
  mask : Nat
  /-- the cell's data buffer (`bitsBuf`): data bytes without completion tag, as long as the Go buffer -/
  buf : List UInt8
  hashes : List (List UInt8)
  depths : List Nat
  deriving Repr, DecidableEq, Inhabited

def be16 (n : Nat) : List UInt8 := [UInt8.ofNat (n / 256 % 256), UInt8.ofNat (n % 256)]

namespace HashInfo

/-- immutableCell.Hash(level) -/
def hashAt (h : HashInfo) (lvl : Nat) : Outcome (List UInt8) :=
  let index := LevelMask.hashIndex (LevelMask.apply h.mask lvl)
  if h.ty = tyPruned then
    let offset := LevelMask.hashIndex h.mask
    if index ≠ offset then
      -- ic.bitsBuf[2+index*32 : 2+(index+1)*32]
      if 2 + (index + 1) * 32 ≤ h.buf.length then .ok ((h.buf.drop (2 + index * 32)).take 32)
      else .panic "slice bounds out of range (pruned hash)"
    else match h.hashes[0]? with
      | some x => .ok x
      | none => .panic "index out of range (hashes)"
  else match h.hashes[index]? with
    | some x => .ok x
    | none => .panic "index out of range (hashes)"

/-- immutableCell.Depth(level) -/
def depthAt (h : HashInfo) (lvl : Nat) : Outcome Nat :=
  let index := LevelMask.hashIndex (LevelMask.apply h.mask lvl)
  if h.ty = tyPruned then
    let offset := LevelMask.hashIndex h.mask
    if index ≠ offset then
      -- readNBytesUIntFromArray(2, ic.bitsBuf[2+32*offset+index*2:])
      let start := 2 + 32 * offset + index * 2
      if start + 2 ≤ h.buf.length then
        match h.buf[start]?, h.buf[start + 1]? with
        | some a, some b => .ok (a.toNat * 256 + b.toNat)
        | _, _ => .panic "index out of range (pruned depth)"
      else .panic "index out of range (pruned depth)"
    else match h.depths[0]? with
      | some x => .ok x
      | none => .panic "index out of range (depths)"
  else match h.depths[index]? with
    | some x => .ok x
    | none => .panic "index out of range (depths)"

end HashInfo

def maxDepth : Nat := 1024

/-- Go buffer of a cell (`bits.buf`): a parsed cell, a cell made by `NewCell`/`NewCellExotic` and the hook
`VerifNewCell` all carry a buffer for the full capacity of 1023 bits = 128 bytes: the data bytes (completion tag
cleared) followed by zero bytes. -/
def bufBytes : Nat := 128
def parsedBuf (bits : List Bool) : List UInt8 :=
  let b := Bits.bitsToBytes bits
  b ++ List.replicate (bufBytes - b.length) 0

/-- one iteration of the per-level loop of newImmutableCell for level `i`; `acc` = (hashIndex so far as count of
significant levels seen, hashes, depths) -/
def levelStep (H : List UInt8 → List UInt8) (ty mask : Nat) (bits : List Bool) (children : List HashInfo)
    (offset : Nat) (acc : Nat × List (List UInt8) × List Nat) (i : Nat) :
    Outcome (Nat × List (List UInt8) × List Nat) :=
  let (seen, hashes, depths) := acc
  if !LevelMask.isSignificant mask i then .ok acc
  else
    let hashIndex := seen  -- value of hashIndex after the increment = number of significant levels seen before
    if hashIndex < offset then .ok (seen + 1, hashes, depths)
    else do
      let nrefs := children.length
      let head : List UInt8 ←
        if hashIndex = offset then
          pure (reprNoRefs ty bits nrefs (LevelMask.apply mask i))
        else
          match hashes[hashIndex - offset - 1]? with
          | some prev => pure ([d1 nrefs (ty != 0) (LevelMask.apply mask i), d2 bits.length] ++ prev)
          | none => Outcome.panic "index out of range (previous hash)"
      let childLevel := if ty = tyMerkleProof ∨ ty = tyMerkleUpdate then i + 1 else i
      let childDepths ← children.mapM (fun c => c.depthAt childLevel)
      let depth0 := childDepths.foldl max 0
      let depthBytes := childDepths.flatMap (fun d => be16 d)
      if nrefs > 0 ∧ depth0 ≥ maxDepth then Outcome.err "depth is too big"
      else do
        let depth := if nrefs > 0 then depth0 + 1 else depth0
        let childHashes ← children.mapM (fun c => c.hashAt childLevel)
        let h := H (head ++ depthBytes ++ childHashes.flatten)
        pure (seen + 1, hashes ++ [h], depths ++ [depth])

/-- newImmutableCell for one cell given its children's results -/
def computeInfo (H : List UInt8 → List UInt8) (ty mask : Nat) (bits : List Bool) (buf : List UInt8)
    (children : List HashInfo) : Outcome HashInfo := do
  let lvl := LevelMask.level mask
  let offset := if ty = tyPruned then LevelMask.hashIndex mask else 0
  let (_, hashes, depths) ← (List.range (lvl + 1)).foldlM (levelStep H ty mask bits children offset) (0, [], [])
  pure { ty := ty, mask := mask, buf := buf, hashes := hashes, depths := depths }

/- tree-level hashing (specification of the recursion; exponential on DAGs, used in proofs and on small inputs) -/
mutual
def Cell.info (H : List UInt8 → List UInt8) : Cell → Outcome HashInfo
  | .mk ty mask bits refs => do
    let cs ← Cell.infoList H refs
    computeInfo H ty mask bits (parsedBuf bits) cs
def Cell.infoList (H : List UInt8 → List UInt8) : List Cell → Outcome (List HashInfo)
  | [] => .ok []
  | c :: cs => do
    let i ← Cell.info H c
    let is ← Cell.infoList H cs
    pure (i :: is)
end

/-- Cell.Hash(): representation hash at the maximal level (3) -/
def Cell.reprHash (H : List UInt8 → List UInt8) (c : Cell) : Outcome (List UInt8) := do
  let i ← c.info H
  i.hashAt 3

/-- Cell.Hash256(): the hash copied into a [32]byte (`copy(h[:], b)`) -/
def Cell.hash256 (H : List UInt8 → List UInt8) (c : Cell) : Outcome (List UInt8) := do
  let b ← c.reprHash H
  pure ((b ++ List.replicate (32 - b.length) 0).take 32)

/-- Cell.HashString(): lower-case hex of the hash -/
def Cell.hashString (H : List UInt8 → List UInt8) (c : Cell) : Outcome String := do
  let b ← c.reprHash H
  pure (Hex.encode b)

/-- Cell.Level() -/
def Cell.level (c : Cell) : Nat := LevelMask.level c.mask

namespace Table

/-- the result for row `i` of a table with `n` rows, given the results of the rows after it: `done[k]` is the result of
row `n-1-k`. A ref that does not point to a later row yields `err` (the table is not topologically ordered). -/
def infoRow (H : List UInt8 → List UInt8) (n i : Nat) (row : CellRow) (done : Array (Outcome HashInfo)) :
    Outcome HashInfo :=
  let kids : Outcome (List HashInfo) := row.refs.mapM (fun r =>
    if r > i ∧ r < n then done[n - 1 - r]! else .err "bad ref index")
  kids.bind fun cs => computeInfo H row.ty row.mask row.bits (parsedBuf row.bits) cs

/-- results of the rows of a table from the last one backwards (`result[k]` = row `n-1-k`) -/
def infosRev (H : List UInt8 → List UInt8) (t : Table) : Array (Outcome HashInfo) :=
  t.foldr (fun row done => done.push (infoRow H t.size (t.size - 1 - done.size) row done)) #[]

/-- hashing over a table, last row first; each row is computed once (linear on DAGs). -/
def infos (H : List UInt8 → List UInt8) (t : Table) : Array (Outcome HashInfo) := (infosRev H t).reverse

/-- unfold row `i` into a tree; `fuel` bounds the depth (rows only refer to later rows, so `t.size` suffices) -/
def unfold (t : Table) : Nat → Nat → Option Cell
  | 0, _ => none
  | fuel + 1, i =>
    match t[i]? with
    | none => none
    | some row =>
      match row.refs.mapM (fun r => if r > i then unfold t fuel r else none) with
      | some cs => some (.mk row.ty row.mask row.bits cs)
      | none => none

def root (t : Table) : Option Cell := unfold t (t.size + 1) 0

end Table

def sha256 : List UInt8 → List UInt8 := Sha256.hash

end Tongo
