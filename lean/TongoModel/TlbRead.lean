import TongoModel.Cell
/-! Error behaviour of the cell-reading primitives at the ideal level (a reader over the bit list and the reference
list of ONE cell of the tree) and of the hand-written TL-B decoders whose loops, recursion or index arithmetic are
driven by untrusted data: hashmap labels and the hashmap walk, `countLeafs`, SnakeData chains, BinTree, the VM stack
list. Go partiality is explicit: a negative width or count is the error `ErrNegativeBitLen` (the repaired readers, repo
commit 31abce9), conversions `uint → int` wrap, `int` subtraction may go negative, `boc.NewCellWithBits` panics beyond
1023 bits.

The decoders of element types (values, keys, extras) are parameters: the reflection-driven generic decoder over all
shipped types is covered by the fault-injection oracles of the harness, not by theorems. -/
namespace Tongo.Tlb
open Tongo

/-- remaining bits and remaining references of the cell being read -/
structure Rd where
  bits : List Bool
  refs : List Cell

def Rd.ofCell (c : Cell) : Rd := ⟨c.bits, c.refs⟩

/-- `ReadBit` -/
def readBit (r : Rd) : Outcome (Bool × Rd) :=
  match r.bits with
  | [] => .err "not enough bits"
  | b :: rest => .ok (b, { r with bits := rest })

/-- `ReadUint(n)` for a Go `int` n (after repo fix 31abce9, "negative bit counts are rejected"): a negative width is
`ErrNegativeBitLen`, `> 64` is an error, not enough bits is an error -/
def readUint (n : Int) (r : Rd) : Outcome (Nat × Rd) :=
  if n < 0 then .err "negative bit length"
  else if n > 64 then .err "too much bits for uint64"
  else if (r.bits.length : Int) < n then .err "not enough bits"
  else .ok (Bits.bitsToNat (r.bits.take n.toNat), { r with bits := r.bits.drop n.toNat })

/-- `ReadBits(n)`: a negative count is `ErrNegativeBitLen` (31abce9) -/
def readBits (n : Int) (r : Rd) : Outcome (List Bool × Rd) :=
  if n < 0 then .err "negative bit length"
  else if (r.bits.length : Int) < n then .err "not enough bits"
  else .ok (r.bits.take n.toNat, { r with bits := r.bits.drop n.toNat })

/-- `Skip(n)`: a negative count is `ErrNegativeBitLen` (31abce9) -/
def skip (n : Int) (r : Rd) : Outcome Rd :=
  if n < 0 then .err "negative bit length"
  else if (r.bits.length : Int) < n then .err "not enough bits"
  else .ok { r with bits := r.bits.drop n.toNat }

/-- `NextRef` -/
def nextRef (r : Rd) : Outcome (Cell × Rd) :=
  match r.refs with
  | [] => .err "not enough refs"
  | c :: rest => .ok (c, { r with refs := rest })

/-- `ReadUnary`: count ones up to the first zero -/
def readUnaryAux : List Bool → Nat → Option (Nat × List Bool)
  | [], _ => none
  | false :: rest, n => some (n, rest)
  | true :: rest, n => readUnaryAux rest (n + 1)

def readUnary (r : Rd) : Outcome (Nat × Rd) :=
  match readUnaryAux r.bits 0 with
  | none => .err "not enough bits"
  | some (n, rest) => .ok (n, { r with bits := rest })

/-- `minBitsRequired(uint64(n))` for a Go `int` n: a negative n converts to a value ≥ 2⁶³ -/
def minBits (n : Int) : Nat :=
  if n < 0 then 64 else if n = 0 then 0 else Nat.log2 n.toNat + 1

/-- Go `int(u)` for a `uint` u < 2⁶⁴ -/
def toInt64 (u : Nat) : Int := if u < 2 ^ 63 then u else (u : Int) - 2 ^ 64

/-- `ReadLimUint(n)` followed by the `int(ln)` every caller applies -/
def readLimUint (n : Int) (r : Rd) : Outcome (Int × Rd) :=
  match readUint (minBits n) r with
  | .ok (v, r') => .ok (toInt64 v, r')
  | .err e => .err e
  | .panic p => .panic p

/-- key prefix: a bit string of capacity `cap`; `WriteBit` is an error when it is full -/
def writeBit (key : List Bool) (cap : Nat) (b : Bool) : Outcome (List Bool) :=
  if key.length ≥ cap then .err "BitString overflow" else .ok (key ++ [b])

/-- `for i := 0; i < n; i++ { bit := ReadBit(); key.WriteBit(bit) }` -/
def copyBits : Nat → Rd → List Bool → Nat → Outcome (List Bool × Rd)
  | 0, r, key, _ => .ok (key, r)
  | n + 1, r, key, cap =>
    match readBit r with
    | .ok (b, r') => (match writeBit key cap b with
      | .ok key' => copyBits n r' key' cap
      | .err e => .err e
      | .panic p => .panic p)
    | .err e => .err e
    | .panic p => .panic p

/-- `for i := 0; i < n; i++ { key.WriteBit(bit) }`: at most `cap + 1` iterations whatever `n` is -/
def fillBits (n : Nat) (key : List Bool) (cap : Nat) (b : Bool) : Outcome (List Bool) :=
  if key.length + n ≤ cap then .ok (key ++ List.replicate n b) else .err "BitString overflow"

/-- `loadLabel(size, c, key)`: the label length (a Go int) and the extended key -/
def loadLabel (size : Int) (r : Rd) (key : List Bool) (cap : Nat) : Outcome (Int × List Bool × Rd) :=
  match readBit r with
  | .err e => .err e
  | .panic p => .panic p
  | .ok (first, r) =>
    if !first then
      -- hml_short$0: unary length, then the bits
      match readUnary r with
      | .err e => .err e
      | .panic p => .panic p
      | .ok (ln, r) => (match copyBits ln r key cap with
        | .ok (key', r') => .ok ((ln : Int), key', r')
        | .err e => .err e
        | .panic p => .panic p)
    else match readBit r with
      | .err e => .err e
      | .panic p => .panic p
      | .ok (second, r) =>
        if !second then
          -- hml_long$10
          match readLimUint size r with
          | .err e => .err e
          | .panic p => .panic p
          | .ok (ln, r) => (match copyBits ln.toNat r key cap with   -- a negative int(ln) runs the loop zero times
            | .ok (key', r') => .ok (ln, key', r')
            | .err e => .err e
            | .panic p => .panic p)
        else
          -- hml_same$11
          match readBit r with
          | .err e => .err e
          | .panic p => .panic p
          | .ok (bitType, r) => (match readLimUint size r with
            | .err e => .err e
            | .panic p => .panic p
            | .ok (ln, r) => (match fillBits ln.toNat key cap bitType with
              | .ok key' => .ok (ln, key', r)
              | .err e => .err e
              | .panic p => .panic p))

/-- `loadLabelSize(size, c)` (countLeafs): the same grammar without collecting the bits; NOTHING bounds the unary
length by the key here -/
def loadLabelSize (size : Int) (r : Rd) : Outcome (Int × Rd) :=
  match readBit r with
  | .err e => .err e
  | .panic p => .panic p
  | .ok (first, r) =>
    if !first then
      match readUnary r with
      | .err e => .err e
      | .panic p => .panic p
      | .ok (ln, r) => .ok ((ln : Int), r)
    else match readBit r with
      | .err e => .err e
      | .panic p => .panic p
      | .ok (second, r) =>
        if !second then readLimUint size r
        else match readBit r with
          | .err e => .err e
          | .panic p => .panic p
          | .ok (_, r) => readLimUint size r

/-- result of a walk: outcome and number of cells visited -/
abbrev Walk (α : Type) := Outcome α × Nat

/-- the recursive calls on the first and second referenced cell, when they exist -/
abbrev Child (α : Type) := Option (Int → List Bool → Walk α)

/-- one level of `Hashmap.mapInner`; `recL` / `recR` are the recursive calls on the first / second reference.
`leaf` decodes the value from the rest of the leaf cell (the generic decoder, a parameter). Returns the keys in
order. `left` is the Go int `leftKeySize`. -/
def mapNode (leaf : Rd → Outcome Unit) (keySize : Nat) (ty : Nat) (bits : List Bool) (refs : List Cell)
    (left : Int) (pfx : List Bool) (recL recR : Child (List (List Bool))) : Walk (List (List Bool)) :=
  if ty = tyPruned then (.ok [], 1)
  else match loadLabel left ⟨bits, refs⟩ pfx keySize with
    | .err e => (.err e, 1)
    | .panic p => (.panic p, 1)
    | .ok (size, pfx', r') =>
      if pfx'.length < keySize then
        match recL with
        | none => (.err "not enough refs", 1)
        | some goL =>
          match writeBit pfx' keySize false with
          | .err e => (.err e, 1)
          | .panic p => (.panic p, 1)
          | .ok lp =>
            match goL (left - (1 + size)) lp with
            | (.err e, n1) => (.err e, 1 + n1)
            | (.panic p, n1) => (.panic p, 1 + n1)
            | (.ok ks1, n1) =>
              match recR with
              | none => (.err "not enough refs", 1 + n1)
              | some goR =>
                match writeBit pfx' keySize true with
                | .err e => (.err e, 1 + n1)
                | .panic p => (.panic p, 1 + n1)
                | .ok rp =>
                  match goR (left - (1 + size)) rp with
                  | (.err e, n2) => (.err e, 1 + n1 + n2)
                  | (.panic p, n2) => (.panic p, 1 + n1 + n2)
                  | (.ok ks2, n2) => (.ok (ks1 ++ ks2), 1 + n1 + n2)
      else if ty = tyLibrary then
        -- the value is decoded by the generic decoder, whose entry check rejects a library cell without a resolver
        (.err "library cell decoding is not configured properly", 1)
      else
        match leaf r' with
        | .err e => (.err e, 1)
        | .panic p => (.panic p, 1)
        | .ok _ =>
          -- keyPrefix.ReadBits(keySize); boc.NewCellWithBits(key) panics beyond 1023 bits
          match readBits keySize ⟨pfx', []⟩ with
          | .err e => (.err e, 1)
          | .panic p => (.panic p, 1)
          | .ok (key, _) => if key.length > 1023 then (.panic "bit string not fit to Cell", 1) else (.ok [key], 1)

/-- `Hashmap.mapInner` -/
def mapInner (leaf : Rd → Outcome Unit) (keySize : Nat) : Cell → Int → List Bool → Walk (List (List Bool))
  | .mk ty _ bits refs, left, pfx =>
    mapNode leaf keySize ty bits refs left pfx
      (match refs with | l :: _ => some (mapInner leaf keySize l) | [] => none)
      (match refs with | _ :: r :: _ => some (mapInner leaf keySize r) | _ => none)

/-- one level of `countLeafs(keySize, leftKeySize, c)` -/
def countNode (keySize : Int) (ty : Nat) (bits : List Bool) (refs : List Cell) (left : Int)
    (recL recR : Option (Int → Walk Nat)) : Walk Nat :=
  if ty = tyPruned then (.err "can't count leafs for hashmap with pruned branch cell", 1)
  else match loadLabelSize left ⟨bits, refs⟩ with
    | .err e => (.err e, 1)
    | .panic p => (.panic p, 1)
    | .ok (size, _) =>
      if keySize - left + size < keySize then
        match recL with
        | none => (.err "not enough refs", 1)
        | some goL =>
          match goL (left - (1 + size)) with
          | (.err e, n1) => (.err e, 1 + n1)
          | (.panic p, n1) => (.panic p, 1 + n1)
          | (.ok c1, n1) =>
            match recR with
            | none => (.err "not enough refs", 1 + n1)
            | some goR =>
              match goR (left - (1 + size)) with
              | (.err e, n2) => (.err e, 1 + n1 + n2)
              | (.panic p, n2) => (.panic p, 1 + n1 + n2)
              | (.ok c2, n2) => (.ok (c1 + c2), 1 + n1 + n2)
      else (.ok 1, 1)

def countLeafs (keySize : Int) : Cell → Int → Walk Nat
  | .mk ty _ bits refs, left =>
    countNode keySize ty bits refs left
      (match refs with | l :: _ => some (countLeafs keySize l) | [] => none)
      (match refs with | _ :: r :: _ => some (countLeafs keySize r) | _ => none)

/-- number of cells of the unfolded tree -/
def cellCount : Cell → Nat
  | .mk _ _ _ refs => 1 + cellCountList refs
where cellCountList : List Cell → Nat
  | [] => 0
  | c :: cs => cellCount c + cellCountList cs

/-! ### SnakeData -/

/-- one level of SnakeData.UnmarshalTLB as found: decode the tail recursively (`tail`: the call on the first
reference and that cell's type and bits), then append it to this cell's bits. Result: the data and the number of bits
COPIED by the appends (`b.Append(tail)` copies the whole tail, bit by bit). A library cell in the chain goes through
the decoder; without a resolver that is an error. -/
def snakeNode (orig : Bool) (bits : List Bool) (child : Option (Nat × List Bool × Walk (List Bool × Nat))) :
    Walk (List Bool × Nat) :=
  match child with
  | none => (.ok (bits, 0), 1)
  | some (cty, cbits, rec) =>
    if cty = tyLibrary then (.err "library cell decoding is not configured properly", 1)
    else match rec with
      | (.ok (tail, copied), n) => (.ok (bits ++ tail, copied + (if orig then tail.length else cbits.length)), 1 + n)
      | (.err e, n) => (.err e, 1 + n)
      | (.panic p, n) => (.panic p, 1 + n)

/-- `orig = true`: the code as found; `orig = false`: repaired (the chain is walked in a loop, every cell's bits are
appended once) -/
def snake (orig : Bool) : Cell → Walk (List Bool × Nat)
  | .mk _ _ bits refs =>
    snakeNode orig bits (match refs with | c :: _ => some (c.ty, c.bits, snake orig c) | [] => none)

def snakeOrig := snake true
def snakeFixed := snake false

/-- a chain of `d + 1` ordinary cells with `b` data bits each -/
def chain (b : Nat) : Nat → Cell
  | 0 => .mk 0 0 (List.replicate b true) []
  | d + 1 => .mk 0 0 (List.replicate b true) [chain b d]

/-! ### BinTree and the VM stack list -/

/-- one level of `decodeRecursiveBinTree`: number of leaves. Every leaf is then handed to the generic decoder, whose
entry check rejects a library cell when no resolver is configured. -/
def binNode (ty : Nat) (bits : List Bool) (recL recR : Option (Walk Nat)) : Walk Nat :=
  match bits with
  | [] => (.err "not enough bits", 1)
  | false :: _ => if ty = tyLibrary then (.err "library cell decoding is not configured properly", 1) else (.ok 1, 1)
  | true :: _ =>
    match recL with
    | none => (.err "not enough refs", 1)
    | some (.err e, n1) => (.err e, 1 + n1)
    | some (.panic p, n1) => (.panic p, 1 + n1)
    | some (.ok c1, n1) =>
      match recR with
      | none => (.err "not enough refs", 1 + n1)
      | some (.err e, n2) => (.err e, 1 + n1 + n2)
      | some (.panic p, n2) => (.panic p, 1 + n1 + n2)
      | some (.ok c2, n2) => (.ok (c1 + c2), 1 + n1 + n2)

def binTree : Cell → Walk Nat
  | .mk ty _ bits refs =>
    binNode ty bits (match refs with | l :: _ => some (binTree l) | [] => none)
      (match refs with | _ :: r :: _ => some (binTree r) | _ => none)

/-- one level of `getStackListItems(c, depth)`: follows the first reference `depth` times (depth: 24 bits from the
wire), then decodes the top-of-stack value of every level with the generic decoder (`tos`, a parameter).
Number of values. -/
def stackNode (tos : Rd → Outcome Unit) (bits : List Bool) (refs : List Cell) (depth : Nat)
    (rec : Option (Nat → Walk Nat)) : Walk Nat :=
  if depth = 0 then (.ok 0, 1)
  else match rec with
    | none => (.err "not enough refs", 1)
    | some go =>
      match go (depth - 1) with
      | (.err e, n) => (.err e, 1 + n)
      | (.panic p, n) => (.panic p, 1 + n)
      | (.ok k, n) =>
        match tos ⟨bits, refs.drop 1⟩ with
        | .ok _ => (.ok (k + 1), 1 + n)
        | .err e => (.err e, 1 + n)
        | .panic p => (.panic p, 1 + n)

def stackList (tos : Rd → Outcome Unit) : Cell → Nat → Walk Nat
  | .mk _ _ bits refs, depth =>
    stackNode tos bits refs depth (match refs with | c :: _ => some (stackList tos c) | [] => none)

/-! ### Maybe / Either / Ref on cells that lack bits or references -/

/-- `Maybe[T].UnmarshalTLB` -/
def maybe (inner : Rd → Outcome Rd) (r : Rd) : Outcome Rd :=
  match readBit r with
  | .ok (true, r') => inner r'
  | .ok (false, r') => .ok r'
  | .err e => .err e
  | .panic p => .panic p

/-- `Either[M,N].UnmarshalTLB` -/
def either (left right : Rd → Outcome Rd) (r : Rd) : Outcome Rd :=
  match readBit r with
  | .ok (true, r') => right r'
  | .ok (false, r') => left r'
  | .err e => .err e
  | .panic p => .panic p

/-- `Ref[T].UnmarshalTLB`: a pruned branch in place of the referenced cell leaves the zero value; a library cell is
an error of the generic decoder when no resolver is configured -/
def ref (inner : Rd → Outcome Rd) (r : Rd) : Outcome Rd :=
  match nextRef r with
  | .ok (c, r') =>
    if c.ty = tyPruned then .ok r'
    else if c.ty = tyLibrary then .err "library cell decoding is not configured properly"
    else (match inner (Rd.ofCell c) with
      | .ok _ => .ok r'
      | .err e => .err e
      | .panic p => .panic p)
  | .err e => .err e
  | .panic p => .panic p

end Tongo.Tlb
