import TongoModel.Json
import TongoModel.BocWriter
/-! JSON form of boc.Cell / tlb.Any (boc/cell.go): `"` + BOC hex + `"`. The parser side is modelled through the BOC
reader of TongoModel/Boc.lean (property C01/C07): `strings.Trim`, `hex.DecodeString`, `DeserializeBoc`, exactly one
root. The printer side needs the cell ORDER chosen by the Go writer, which is not modelled (C01 `order_valid`); the
round trip is therefore stated relative to that order (TongoProofs/C20.lean `json_roundtrip_cell`). -/
namespace Tongo.Json
open Tongo Tongo.Dec

/-- Cell.UnmarshalJSON: the parsed table and the index of the single root -/
def parseCellJson (p : Str) : Outcome (Table × Nat) :=
  match Hex.decodeChars (trimQuote p) with
  | none => .err "hex"
  | some bytes =>
    match Boc.parseBoc bytes with
    | .ok (t, [r]) => .ok (t, r)
    | .ok _ => .err "multiple cells not supported"
    | .err e => .err e
    | .panic e => .panic e

/-- Cell.MarshalJSON once the writer's order `(t, [root])` of the cell is fixed: ToBocString = hex of serializeBoc
with idx = crc = cacheBits = false -/
def printCellJsonOrdered (t : Table) (root : Nat) : Str :=
  quote (hexLower (Boc.Writer.serializeOrdered t [root] false false false []))

end Tongo.Json
