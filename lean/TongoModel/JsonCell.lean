import TongoModel.Json
import TongoModel.BocWriter
import TongoModel.BocOrder
/-! JSON form of boc.Cell / tlb.Any (boc/cell.go): `"` + BOC hex + `"`. The parser side is modelled through the BOC
reader of TongoModel/Boc.lean (property C01/C07): `strings.Trim`, `hex.DecodeString`, `DeserializeBoc`, exactly one
root. The printer side is the whole Go writer of C01 (`Boc.Order.serializeBocModel`: the order computed by
importCell/reorderCells/revisit, then the header arithmetic of serializeBoc). -/
namespace Tongo.Json
open Tongo Tongo.Dec

/-- Cell.UnmarshalJSON: the parsed table and the index of the single root -/
def parseCellJson (p : Str) : Outcome (Table × Nat) :=
  match Hex.decodeChars (trimQuote p) with
  | none => .err "hex"
  | some bytes =>
    match Boc.parseBoc bytes with
    | .ok (t, [r]) => .ok (t, r)
    | .ok _ => .err "multiple cells not supported"
    | .err e => .err e
    | .panic e => .panic e

/-- Cell.MarshalJSON for an already ordered table `(t, [root])`: hex of serializeBoc's header arithmetic with
idx = crc = cacheBits = false (see `printCellJsonGo` for the whole writer) -/
def printCellJsonOrdered (t : Table) (root : Nat) : Str :=
  quote (hexLower (Boc.Writer.serializeOrdered t [root] false false false []))

/-- Cell.MarshalJSON: `"` + hex of `serializeBoc` (order chosen by the Go writer; idx = crc = cacheBits = false) of the
cell given as root `root` of the table `t`; `key` is the writer's de-duplication key (the hex representation hash) -/
def printCellJsonGo {K : Type} [BEq K] [Hashable K] (t : Table) (key : Nat → Option K) (root : Nat) : Outcome Str :=
  (Boc.Order.serializeBocModel t key [root] false false false).bind fun bs => .ok (quote (hexLower bs))

end Tongo.Json
