import TongoModel.Cell
import TongoModel.Prim.Crc
/-! Bag-of-cells (boc/boc.go): a line-by-line model of the READER (`parseBocHeader`, `deserializeCellData`,
`DeserializeBoc`, `BitString.SetTopUppedArray`) with Go's partiality explicit, and a general reference WRITER
(`emitBoc`) covering every header variant a conforming implementation may choose.

Conventions of the reader model
* a Go `[]byte` is a `List UInt8`; `b[n:]`, `b[0:n]`, `b[i]` are the partial operations `sliceFrom`, `sliceTo`, `idx`
  (out of range ⇒ `panic`), never totalised;
* Go `uint` values are `Nat`s kept below 2⁶⁴ by explicit wrap-around (`readN`), `int(x)` is `toInt` (two's complement
  reinterpretation), `int * int` wraps (`mulI`);
* every `make` / `New…` adds the number of bytes requested to the allocation counter carried by the monad `M`; the
  counter survives errors (an input that makes the parser allocate and then fail is still charged).
Core Lean only. -/
namespace Tongo.Boc
open Tongo

abbrev Bytes := List UInt8

/-! ### Go integers -/

def two64 : Nat := 18446744073709551616
def two63 : Nat := 9223372036854775808

/-- `int(x)` for a `uint` x -/
def toInt (x : Nat) : Int :=
  let y := x % two64
  if y < two63 then Int.ofNat y else Int.ofNat y - Int.ofNat two64

/-- wrap an integer to Go's 64-bit `int` -/
def wrapI (x : Int) : Int := toInt (x % (Int.ofNat two64)).toNat

/-- `a * b` on Go `int`s -/
def mulI (a b : Int) : Int := wrapI (a * b)
/-- `a + b` on Go `int`s -/
def addI (a b : Int) : Int := wrapI (a + b)

/-! ### the allocation-counting monad -/

/-- computations that may fail or panic and that count the bytes they ask the allocator for -/
def M (α : Type) : Type := Nat → Outcome α × Nat

namespace M
@[inline] def pure' {α} (a : α) : M α := fun s => (.ok a, s)
@[inline] def bind' {α β} (x : M α) (f : α → M β) : M β := fun s =>
  match x s with
  | (.ok a, s') => f a s'
  | (.err e, s') => (.err e, s')
  | (.panic p, s') => (.panic p, s')
instance : Monad M where
  pure := pure'
  bind := bind'
/-- `return nil, errors.New(e)` -/
@[inline] def fail {α} (e : String) : M α := fun s => (.err e, s)
/-- a Go run-time panic -/
@[inline] def crash {α} (p : String) : M α := fun s => (.panic p, s)
/-- `make(_, _, n)` with `n` bytes requested -/
@[inline] def alloc (n : Nat) : M Unit := fun s => (.ok (), s + n)
/-- `make([]T, 0, n)` with elements of `elem` bytes: Go panics when the request exceeds the address space (2⁴⁸) -/
@[inline] def makeSlice (elem n : Nat) : M Unit := fun s =>
  if elem * n > 281474976710656 then (.panic "makeslice: cap out of range", s) else (.ok (), s + elem * n)
/-- embed a partial operation that does not allocate -/
@[inline] def lift {α} (o : Outcome α) : M α := fun s => (o, s)
/-- run with an allocation counter starting at 0 -/
@[inline] def run {α} (x : M α) : Outcome α × Nat := x 0
end M

/-! ### slices -/

/-- `n ≤ len(b)` without walking the whole list -/
def hasAtLeast : Bytes → Nat → Bool
  | _, 0 => true
  | [], _ + 1 => false
  | _ :: t, n + 1 => hasAtLeast t n

/-- `len(b) < e` for a Go `int` e -/
def lenLt (b : Bytes) (e : Int) : Bool := if e ≤ 0 then false else !(hasAtLeast b e.toNat)

/-- `b[n:]` -/
def sliceFrom (b : Bytes) (n : Nat) : Outcome Bytes :=
  if hasAtLeast b n then .ok (b.drop n) else .panic "slice bounds out of range"
/-- `b[0:n]` -/
def sliceTo (b : Bytes) (n : Nat) : Outcome Bytes :=
  if hasAtLeast b n then .ok (b.take n) else .panic "slice bounds out of range"
/-- `b[0]` -/
def head (b : Bytes) : Outcome UInt8 :=
  match b with
  | x :: _ => .ok x
  | [] => .panic "index out of range"

/-- `readNBytesUIntFromArray(n, arr)`: `res = res*256 + arr[i]` on `uint` (wraps), `arr[i]` partial -/
def readN : Nat → Bytes → Nat → Outcome Nat
  | 0, _, res => .ok res
  | _ + 1, [], _ => .panic "index out of range"
  | n + 1, b :: rest, res => readN n rest ((res * 256 + b.toNat) % two64)

/-! ### header -/

def magicGeneric : Bytes := [0xb5, 0xee, 0x9c, 0x72]
def magicIdx : Bytes := [0x68, 0xff, 0x65, 0xf3]
def magicIdxCrc : Bytes := [0xac, 0xc3, 0xa7, 0x28]

structure Header where
  hasIdx : Bool
  hasCrc : Bool
  hasCache : Bool
  flags : Nat
  sizeBytes : Nat
  cellCount : Nat
  rootCount : Nat
  absentCount : Nat
  totCellsSize : Nat
  rootList : List Nat
  index : List Nat
  cellsData : Bytes
  deriving Repr, DecidableEq, Inhabited

/-- `for i := 0; i < k; i++ { l = append(l, readN(w, boc)); boc = boc[w:] }` (with `val /= 2` when `halve`) -/
def readList : Nat → Nat → Bool → Bytes → Outcome (List Nat × Bytes)
  | 0, _, _, b => .ok ([], b)
  | k + 1, w, halve, b => do
    let v ← readN w b 0
    let b' ← sliceFrom b w
    let (vs, r) ← readList k w halve b'
    pure ((if halve then v / 2 else v) :: vs, r)

/-- `binary.LittleEndian.Uint32(b[0:4])` -/
def le32 (b : Bytes) : Outcome Nat :=
  match b with
  | b0 :: b1 :: b2 :: b3 :: _ => .ok (b0.toNat + 256 * b1.toNat + 65536 * b2.toNat + 16777216 * b3.toNat)
  | _ => .panic "slice bounds out of range"

/-- allocation sizes (bytes per element) of the Go slices -/
def szUint : Nat := 8
def szPtr : Nat := 8
def szSliceHdr : Nat := 24
/-- `NewCell()`: the Cell struct and the 128-byte buffer of `NewBitString(1023)` -/
def szCell : Nat := 112 + 128

/-- the six facts the magic and the flag byte determine -/
structure Kind where
  hasIdx : Bool
  hasCrc : Bool
  hasCache : Bool
  flags : Nat
  sizeBytes : Nat
  hasRootList : Bool
  deriving Repr, DecidableEq, Inhabited

/-- the magic / flag byte dispatch of parseBocHeader -/
def headerKind (pre : Bytes) (fb : UInt8) : Option Kind :=
  let f := fb.toNat
  if pre = magicGeneric then
    some ⟨(f &&& 128) > 0, (f &&& 64) > 0, (f &&& 32) > 0, ((f &&& 16) * 2 + (f &&& 8)) % 256, f % 8, true⟩
  else if pre = magicIdx then some ⟨true, false, false, 0, f, false⟩
  else if pre = magicIdxCrc then some ⟨true, true, false, 0, f, false⟩
  else none

open M in
/-- parseBocHeader, part 1: length test, checksum range, magic and flag byte.
Returns the kind, the bytes covered by the checksum and the rest after the flag byte. -/
def parsePrefix (boc0 : Bytes) : M (Kind × Bytes × Bytes) := do
  if lenLt boc0 5 then fail "not enough bytes for magic prefix" else
  -- checkSum := crc32.Checksum(boc[0:len(boc)-4], crcTable)
  let body ← lift (sliceTo boc0 (boc0.length - 4))
  let pre ← lift (sliceTo boc0 4)
  let boc ← lift (sliceFrom boc0 4)
  let fb ← lift (head boc)
  match headerKind pre fb with
  | none => fail "unknown magic prefix"
  | some k =>
    let boc ← lift (sliceFrom boc 1)
    pure (k, body, boc)

/-- the counters of the header -/
structure Counters where
  offsetBytes : Nat
  cellsCount : Nat
  rootsCount : Nat
  absentNum : Nat
  totCellsSize : Nat
  deriving Repr, DecidableEq, Inhabited

open M in
/-- parseBocHeader, part 2: size and off_bytes tests, the four counters, the two plausibility tests on them -/
def parseCounters (sizeBytes : Nat) (boc : Bytes) : M (Counters × Bytes) := do
  if sizeBytes < 1 ∨ sizeBytes > 4 then fail "invalid size of cell references" else
  if lenLt boc 1 then fail "not enough bytes for encoding cells counters" else
  let ob ← lift (head boc)
  let offsetBytes := ob.toNat
  if offsetBytes < 1 ∨ offsetBytes > 8 then fail "invalid size of offsets" else
  if lenLt boc (1 + 3 * sizeBytes + offsetBytes : Nat) then fail "not enough bytes for encoding cells counters" else
  let boc ← lift (sliceFrom boc 1)
  let cellsCount ← lift (readN sizeBytes boc 0)
  let boc ← lift (sliceFrom boc sizeBytes)
  let rootsCount ← lift (readN sizeBytes boc 0)
  let boc ← lift (sliceFrom boc sizeBytes)
  let absentNum ← lift (readN sizeBytes boc 0)
  let boc ← lift (sliceFrom boc sizeBytes)
  let totCellsSize ← lift (readN offsetBytes boc 0)
  let boc ← lift (sliceFrom boc offsetBytes)
  -- uint(len(boc)) < totCellsSize
  if !(hasAtLeast boc totCellsSize) then fail "not enough bytes for cells data" else
  if cellsCount > totCellsSize / 2 then fail "too many cells for this amount of cells data" else
  if rootsCount < 1 then fail "boc must have at least one root" else
  pure (⟨offsetBytes, cellsCount, rootsCount, absentNum, totCellsSize⟩, boc)

open M in
/-- parseBocHeader, part 3: the root list (generic magic) or the implicit root 0 (idx magics) -/
def parseRoots (hasRootList : Bool) (sizeBytes rootsCount : Nat) (boc : Bytes) : M (List Nat × Bytes) := do
  if hasRootList then
    if lenLt boc (mulI (toInt rootsCount) sizeBytes) then fail "not enough bytes for encoding root cells hashes" else
    makeSlice szUint rootsCount
    lift (readList (toInt rootsCount).toNat sizeBytes false boc)
  else
    if rootsCount ≠ 1 then fail "indexed boc must have exactly one root" else
    makeSlice szUint 1
    pure ([0], boc)

open M in
/-- parseBocHeader, part 4: the index -/
def parseIndex (hasIdx hasCache : Bool) (offsetBytes cellsCount : Nat) (boc : Bytes) : M (List Nat × Bytes) := do
  makeSlice szUint cellsCount
  if hasIdx then
    if lenLt boc (mulI offsetBytes (toInt cellsCount)) then fail "not enough bytes for index encoding" else
    lift (readList (toInt cellsCount).toNat offsetBytes hasCache boc)
  else pure ([], boc)

open M in
/-- parseBocHeader, part 5: the cell data, the checksum, nothing may follow -/
def parseTail (hasCrc : Bool) (totCellsSize : Nat) (body boc : Bytes) : M Bytes := do
  if lenLt boc (toInt totCellsSize) then fail "not enough bytes for cells data" else
  let cellsData ← lift (sliceTo boc totCellsSize)
  let boc ← lift (sliceFrom boc totCellsSize)
  let boc ← (do
    if hasCrc then
      if lenLt boc 4 then fail "not enough bytes for crc32c hashsum" else
      let stored ← lift (le32 boc)
      if stored ≠ (Crc.crc32c body).toNat then fail "crc32c hashsum mismatch" else
      lift (sliceFrom boc 4)
    else pure boc : M Bytes)
  if hasAtLeast boc 1 then fail "too much bytes in provided boc" else
  pure cellsData

/-- boc/boc.go parseBocHeader (repaired version) -/
def parseHeader (boc0 : Bytes) : M Header := do
  let (k, body, boc) ← parsePrefix boc0
  let (c, boc) ← parseCounters k.sizeBytes boc
  let (rootList, boc) ← parseRoots k.hasRootList k.sizeBytes c.rootsCount boc
  let (index, boc) ← parseIndex k.hasIdx k.hasCache c.offsetBytes c.cellsCount boc
  let cellsData ← parseTail k.hasCrc c.totCellsSize body boc
  pure { hasIdx := k.hasIdx, hasCrc := k.hasCrc, hasCache := k.hasCache, flags := k.flags, sizeBytes := k.sizeBytes,
         cellCount := c.cellsCount, rootCount := c.rootsCount, absentCount := c.absentNum,
         totCellsSize := c.totCellsSize, rootList := rootList, index := index, cellsData := cellsData }

/-! ### cells -/

/-- the search for the completion tag in `BitString.SetTopUppedArray`: at most 7 steps from the end; `rev` is the
reversed bit list -/
def stripLoop : Nat → List Bool → Outcome (List Bool)
  | 0, _ => .err "incorrect topUppedArray"
  | _ + 1, [] => .panic "index out of range"
  | _ + 1, true :: rest => .ok rest.reverse
  | n + 1, false :: rest => stripLoop n rest

/-- `Cell.setTopUppedArray(arr, fulfilledBytes)`: the data bits of the cell -/
def setTopUpped (arr : Bytes) (fulfilled : Bool) : Outcome (List Bool) :=
  let bits := Bits.bytesToBits arr
  if fulfilled || arr.isEmpty then .ok bits else stripLoop 7 bits.reverse

/-- a parsed cell before back-patching: the row with its raw reference indices (`int`s) -/
structure RawCell where
  ty : Nat
  mask : Nat
  bits : List Bool
  refs : List Int
  deriving Repr, DecidableEq, Inhabited

/-- `for i := 0; i < refNum; i++ { refs = append(refs, int(readN(w, cd))); cd = cd[w:] }` -/
def readRefs : Nat → Nat → Bytes → Outcome (List Int × Bytes)
  | 0, _, b => .ok ([], b)
  | k + 1, w, b => do
    let v ← readN w b 0
    let b' ← sliceFrom b w
    let (vs, r) ← readRefs k w b'
    pure (toInt v :: vs, r)

def hashSize : Nat := 32
def depthSize : Nat := 2

/-- what the two descriptor bytes say -/
structure Descr where
  isExotic : Bool
  refNum : Nat
  dataBytesSize : Nat
  fulfilled : Bool
  withHashes : Bool
  mask : Nat
  deriving Repr, DecidableEq, Inhabited

/-- the descriptor arithmetic of deserializeCellData -/
def descr (d1 d2 : Nat) : Descr :=
  { isExotic := (d1 &&& 8) > 0
    refNum := d1 % 8
    dataBytesSize := d2 / 2 + d2 % 2
    fulfilled := !(d2 % 2 > 0)
    withHashes := (d1 &&& 16) ≠ 0
    mask := d1 / 32 }

/-- `Cell.setTopUppedArray` grows a buffer of `n` < 128 bytes to the 128 bytes of a full cell: `make(128-n)` and the
re-allocation by `append` -/
def growBytes (n : Nat) : Nat := if n < 128 then 256 - n else 0

open M in
/-- deserializeCellData after the descriptor bytes -/
def parseCellBody (D : Descr) (cd : Bytes) (refSize : Nat) : M (RawCell × Bytes) := do
  let cd ← (do
    if D.withHashes then
      let offset := LevelMask.hashesCount D.mask * (hashSize + depthSize)
      if lenLt cd offset then fail "not enough bytes to encode cell hashes" else
      lift (sliceFrom cd offset)
    else pure cd : M Bytes)
  if lenLt cd (addI D.dataBytesSize (mulI refSize D.refNum)) then fail "not enough bytes to encode cell data" else
  let ty ← (do
    if D.isExotic then
      if D.dataBytesSize < 1 then fail "not enough bytes to encode exotic cell type" else
      let t ← lift (readN 1 cd 0)
      pure (t % 256)
    else pure 0 : M Nat)
  alloc szCell
  let arr ← lift (sliceTo cd D.dataBytesSize)
  makeSlice 1 D.dataBytesSize
  -- Cell.setTopUppedArray grows the buffer to the 128 bytes of a full cell: make(128-len) and the append
  alloc (growBytes D.dataBytesSize)
  let bits ← lift (setTopUpped arr D.fulfilled)
  if ty = tyPruned ∧ D.dataBytesSize < 2 + LevelMask.hashIndex D.mask * (hashSize + depthSize) then
    fail "not enough data for a pruned branch cell" else
  let cd ← lift (sliceFrom cd D.dataBytesSize)
  makeSlice szUint D.refNum
  let (refs, cd) ← lift (readRefs D.refNum refSize cd)
  pure ({ ty := ty, mask := D.mask, bits := bits, refs := refs }, cd)

open M in
/-- boc/boc.go deserializeCellData (repaired version) -/
def parseCell (cd0 : Bytes) (refSize : Nat) : M (RawCell × Bytes) := do
  if lenLt cd0 2 then fail "not enough bytes to encode cell descriptors" else
  let d1b ← lift (head cd0)
  let cd1 ← lift (sliceFrom cd0 1)
  let d2b ← lift (head cd1)
  let cd ← lift (sliceFrom cd0 2)
  parseCellBody (descr d1b.toNat d2b.toNat) cd refSize

/-- the cell loop of DeserializeBoc: `k` cells from `cd` -/
def parseCells : Nat → Bytes → Nat → M (List RawCell)
  | 0, _, _ => pure []
  | k + 1, cd, refSize => do
    let (c, rest) ← parseCell cd refSize
    let cs ← parseCells k rest refSize
    pure (c :: cs)

/-- the inner loop of the back-patching loop for cell `i` out of `n`: the two tests on every reference and the depth
of the cell (`if depths[r]+1 > depths[i] { depths[i] = depths[r]+1 }`); `d` is the running value of `depths[i]` -/
def checkRefs (depths : Array Nat) (i : Int) (n : Nat) : List Int → Nat → Outcome Nat
  | [], d => .ok d
  | r :: rs, d =>
    if r ≤ i then .err "topological order is broken"
    else if r ≥ n then .err "index out of range for boc deserialization"
    else match depths[r.toNat]? with
      | none => .panic "index out of range"
      | some dr => checkRefs depths i n rs (if dr + 1 > d then dr + 1 else d)

/-- `for i := int(cellCount-1); i >= 0; i-- { c := refsArray[i]; … }`; `k` = i + 1. Returns the depths. -/
def backPatch (cells : Array RawCell) : Nat → Array Nat → Outcome (Array Nat)
  | 0, depths => .ok depths
  | k + 1, depths =>
    match cells[k]? with
    | none => .panic "index out of range"
    | some c =>
      if c.refs.length > 4 then .err "too long refs array"
      else do
        let d ← checkRefs depths k cells.size c.refs 0
        if k < depths.size then
          if d > maxDepth then .err "depth is too big"
          else backPatch cells k (depths.set! k d)
        else .panic "index out of range"

def checkRoots (n : Nat) : List Nat → Outcome Unit
  | [] => .ok ()
  | r :: rs => if r ≥ n then .err "root index out of range for boc deserialization" else checkRoots n rs

def RawCell.toRow (c : RawCell) : CellRow := { ty := c.ty, mask := c.mask, bits := c.bits, refs := c.refs.map Int.toNat }

open M in
/-- boc/boc.go DeserializeBoc (repaired version): the table of all cells in file order and the root indices -/
def parseBocM (boc : Bytes) : M (Table × List Nat) := do
  let h ← parseHeader boc
  makeSlice szPtr h.cellCount
  makeSlice szSliceHdr h.cellCount
  let cells ← parseCells (toInt h.cellCount).toNat h.cellsData h.sizeBytes
  let arr := cells.toArray
  -- i := int(header.cellCount - 1) on uint
  let start := toInt ((h.cellCount + two64 - 1) % two64)
  -- depths := make([]int, len(cellsArray))
  makeSlice szUint arr.size
  let _ ← lift (backPatch arr (start + 1).toNat (Array.replicate arr.size 0))
  makeSlice szPtr h.rootList.length
  lift (checkRoots arr.size h.rootList)
  pure (arr.map RawCell.toRow, h.rootList)

/-- result of the parser -/
def parseBoc (boc : Bytes) : Outcome (Table × List Nat) := (parseBocM boc).run.1
/-- bytes requested from the allocator while parsing -/
def parseAlloc (boc : Bytes) : Nat := (parseBocM boc).run.2

/-! ### reference writer -/

/-- big-endian encoding of `n` on `w` bytes (most significant first; value taken mod 256^w) -/
def toBytesBE : Nat → Nat → Bytes
  | 0, _ => []
  | w + 1, n => UInt8.ofNat (n / 256 ^ w % 256) :: toBytesBE w n

/-- value of a big-endian byte string -/
def ofBytesBE (b : Bytes) : Nat := b.foldl (fun acc x => acc * 256 + x.toNat) 0

def toBytesLE32 (n : Nat) : Bytes :=
  [UInt8.ofNat (n % 256), UInt8.ofNat (n / 256 % 256), UInt8.ofNat (n / 65536 % 256), UInt8.ofNat (n / 16777216 % 256)]

/-- everything a conforming writer may choose -/
structure EmitParams where
  /-- 0: `serialized_boc#b5ee9c72`, 1: `serialized_boc_idx#68ff65f3`, 2: `serialized_boc_idx_crc32c#acc3a728` -/
  magic : Nat
  hasIdx : Bool
  hasCrc : Bool
  hasCache : Bool
  /-- width of cell references and counters, 1..4 -/
  size : Nat
  /-- width of offsets, 1..8 -/
  offBytes : Nat
  /-- value of the `absent` field -/
  absent : Nat
  /-- low bit of the doubled index entries when `hasCache` (default false) -/
  cacheBits : List Bool
  /-- per cell: is it stored "with hashes" (d1 & 16), and the stored hash/depth bytes -/
  stored : List (Option Bytes)
  deriving Repr, DecidableEq, Inhabited

def EmitParams.idx (p : EmitParams) : Bool := p.magic ≠ 0 || p.hasIdx
def EmitParams.crc (p : EmitParams) : Bool := if p.magic = 0 then p.hasCrc else p.magic = 2
def EmitParams.cache (p : EmitParams) : Bool := p.magic = 0 && p.hasCache

/-- one cell: d1 d2 [stored hashes and depths] data-with-completion-tag refs -/
def emitCell (size : Nat) (r : CellRow) (stored : Option Bytes) : Bytes :=
  let d1 := r.refs.length + (if r.ty ≠ 0 then 8 else 0) + (if stored.isSome then 16 else 0) + 32 * r.mask
  UInt8.ofNat d1 :: d2 r.bits.length :: (stored.getD [] ++ Bits.toppedUp r.bits ++ r.refs.flatMap (toBytesBE size))

def emitCells (size : Nat) : List CellRow → List (Option Bytes) → List Bytes
  | [], _ => []
  | r :: rs, st => emitCell size r (st.headD none) :: emitCells size rs st.tail

/-- index entries: end offset of every cell, doubled with a cache bit when `cache` -/
def emitIndex (off : Nat) (cache : Bool) : Nat → List Bytes → List Bool → Bytes
  | _, [], _ => []
  | acc, c :: cs, cb =>
    let e := acc + c.length
    toBytesBE off (if cache then 2 * e + (if cb.headD false then 1 else 0) else e) ++ emitIndex off cache e cs cb.tail

def magicBytes (m : Nat) : Bytes := if m = 0 then magicGeneric else if m = 1 then magicIdx else magicIdxCrc

def flagByte (p : EmitParams) : UInt8 :=
  if p.magic = 0 then
    UInt8.ofNat ((if p.hasIdx then 128 else 0) + (if p.hasCrc then 64 else 0) + (if p.hasCache then 32 else 0) + p.size)
  else UInt8.ofNat p.size

/-- the reference serialiser -/
def emitBoc (p : EmitParams) (t : Table) (roots : List Nat) : Bytes :=
  let cells := emitCells p.size t.toList p.stored
  let data := cells.flatten
  let body := magicBytes p.magic ++ [flagByte p, UInt8.ofNat p.offBytes]
    ++ toBytesBE p.size t.size ++ toBytesBE p.size roots.length ++ toBytesBE p.size p.absent
    ++ toBytesBE p.offBytes data.length
    ++ (if p.magic = 0 then roots.flatMap (toBytesBE p.size) else [])
    ++ (if p.idx then emitIndex p.offBytes p.cache 0 cells p.cacheBits else [])
    ++ data
  if p.crc then body ++ toBytesLE32 (Crc.crc32c body).toNat else body

end Tongo.Boc
