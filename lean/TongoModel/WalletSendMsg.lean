import TongoModel.WalletMsg
/-! The send path at the level of the MESSAGE (wallet/wallet.go `RawSendV2`, `SendV2`): the external message cell that
reaches `SendMessage` is built with the builders of `WalletMsg.lean` (`createSignedBody`, `extMessage`) and the wallet's
own address / state init of `Wallet.lean`; `WalletSend.lean` is its projection to (destination, init flag, seqno).

Also the three public address APIs as the three Go code paths they are: each builds its own option LIST
(`[]Option`, applied in order by `applyOptions`, later settings overriding earlier ones) before reaching `newWallet`. -/
namespace Tongo.Wallet
open Tongo Tongo.Bits

/-! ### options as Go applies them -/

/-- `wallet.Option`: `WithWorkchain`, `WithSubWalletID`, `WithNetworkGlobalID` (the options that matter for the address;
`WithMessageLifetime` does not) -/
inductive OptSetter where
  | workchain (wc : Int)
  | subWallet (s : Nat)
  | net (n : Int)
  deriving Repr, DecidableEq

/-- `o(&options)`: each option overwrites its own pointer field -/
def OptSetter.apply (o : Opts) : OptSetter → Opts
  | .workchain wc => { o with workchain := some wc }
  | .subWallet s => { o with subWallet := some s }
  | .net n => { o with net := some n }

/-- `applyOptions(opts...)`: start from the zero `Options` (all pointers nil) and apply in order -/
def applyOptions (l : List OptSetter) : Opts := l.foldl OptSetter.apply {}

/-- path 1 — `wallet.New(key, ver, blockchain, opts...)` then `.GetAddress()`: the CALLER's option list, whatever its
order and repetitions; the address is computed once in `New` (`generateAddress`) and stored -/
def apiNewGetAddress (H : List UInt8 → List UInt8) (code : Cell) (ver : Nat) (pk : List UInt8) (opts : List OptSetter) : Outcome Address :=
  newGetAddress H code ver pk (applyOptions opts)

/-- the option list `GenerateWalletAddress` and `GenerateStateInit` build: `WithWorkchain(workchain)` always, then
`WithNetworkGlobalID` if non-nil, then `WithSubWalletID` if non-nil -/
def generatedOptions (net : Option Int) (wc : Int) (sub : Option Nat) : List OptSetter :=
  [.workchain wc] ++ (net.map OptSetter.net).toList ++ (sub.map OptSetter.subWallet).toList

/-- path 2 — `wallet.GenerateWalletAddress(key, ver, networkGlobalID, workchain, subWalletId)` -/
def apiGenerateWalletAddress (H : List UInt8 → List UInt8) (code : Cell) (ver : Nat) (pk : List UInt8)
    (net : Option Int) (wc : Int) (sub : Option Nat) : Outcome Address :=
  match Version.ofGoIndex? ver with
  | none => .err "unsupported wallet version"
  | some v => address H code v pk (applyOptions (generatedOptions net wc sub))

/-- path 3 — `wallet.GenerateStateInit(…)` marshalled and hashed BY THE CALLER, paired with the caller's workchain as
`ton.AccountID{int32(workchain), hash}`. An unsupported version is an error (after the repair; see `apiGenerateStateInitV0`). -/
def apiGenerateStateInit (code : Cell) (ver : Nat) (pk : List UInt8) (net : Option Int) (wc : Int) (sub : Option Nat) : Outcome Cell :=
  match Version.ofGoIndex? ver with
  | none => .err "unsupported wallet version"
  | some v => .ok (walletStateInit code v pk (applyOptions (generatedOptions net wc sub)))

/-- `GenerateStateInit` as it was: the error of `newWallet` swallowed — the zero `tlb.StateInit{}` (five zero bits when
marshalled) and a NIL error for an unsupported version -/
def apiGenerateStateInitV0 (code : Cell) (ver : Nat) (pk : List UInt8) (net : Option Int) (wc : Int) (sub : Option Nat) : Outcome Cell :=
  match Version.ofGoIndex? ver with
  | none => .ok (.ordinary [false, false, false, false, false] [])
  | some v => .ok (walletStateInit code v pk (applyOptions (generatedOptions net wc sub)))

def apiStateInitAddress (H : List UInt8 → List UInt8) (code : Cell) (ver : Nat) (pk : List UInt8)
    (net : Option Int) (wc : Int) (sub : Option Nat) : Outcome Address := do
  let si ← apiGenerateStateInit code ver pk net wc sub
  let h ← si.hashO? H
  pure { workchain := toI32 wc, hash := h }

/-! ### the message that is sent -/

/-- what a wallet object is for the send path -/
structure SendCfg where
  H : List UInt8 → List UInt8
  sign : List UInt8 → List UInt8 → List UInt8
  sk : List UInt8
  pk : List UInt8
  code : Cell
  v : Version
  o : Opts

/-- the external message `RawSendV2` hands to `SendMessage`: the signed body for (seqno, validUntil, messages) in an
envelope addressed to the wallet's own address, with the wallet's own state init when `init` -/
def buildExternal (c : SendCfg) (seqno vu rnd : Nat) (msgs : List RawMsg) (init : Bool) : Outcome Cell := do
  let self ← address c.H c.code c.v c.pk c.o
  let body ← createSignedBody c.H c.sign c.sk c.v (bodyIds c.v c.o) opSignedExternal seqno vu rnd msgs
  extMessage self body (if init then some (walletStateInit c.code c.v c.pk c.o) else none)

structure SendResultMsg where
  outcome : Outcome Unit
  sent : Option Cell          -- the payload of `SendMessage`, as a cell
  deriving Inhabited

/-- `RawSendV2`: message-count guard, build, `SendMessage`, confirmation -/
def rawSendV2Msg (c : SendCfg) (loop : Nat → Nat → List Poll → Bool) (seqno vu rnd : Nat) (msgs : List RawMsg) (init : Bool)
    (sc : Script) (wait : Nat) : SendResultMsg :=
  if msgs.length > maxMessages c.v then { outcome := .err "too many messages", sent := none }
  else
    match buildExternal c seqno vu rnd msgs init with
    | .err e => { outcome := .err e, sent := none }
    | .panic p => { outcome := .panic p, sent := none }
    | .ok m =>
      if sc.sendErr then { outcome := .err "send", sent := some m }
      else if wait = 0 then { outcome := .ok (), sent := some m }
      else if c.v = .highloadV2R2 then { outcome := .err "highload wallet doesn't support waiting confirmation", sent := some m }
      else if loop wait seqno sc.polls then { outcome := .ok (), sent := some m }
      else { outcome := .err "waiting confirmation timeout", sent := some m }

/-- the expiry `SendV2` (and `CreateMessageBody` without an explicit one) gives a message: the wall clock (seconds) plus
the wallet's message lifetime — `DefaultMessageLifetime` = 180 s, or the value of `WithMessageLifetime` —, as the
`uint32(validUntil.Unix())` the body builders write -/
def defaultMessageLifetime : Nat := 180
def sendExpiry (nowSec : Nat) (lifetime : Option Nat) : Nat := (nowSec + lifetime.getD defaultMessageLifetime) % 4294967296

/-- `Send` = `SendV2` with the expiry derived from the clock -/
def sendNow (c : SendCfg) (loop : Nat → Nat → List Poll → Bool) (nowSec : Nat) (lifetime : Option Nat) (rnd : Nat)
    (msgs : List RawMsg) (sc : Script) (wait : Nat) : SendResultMsg :=
  match sc.acct with
  | .err e => { outcome := .err e, sent := none }
  | .panic p => { outcome := .panic p, sent := none }
  | .ok st =>
    match nextMessageParams c.v st with
    | .err e => { outcome := .err e, sent := none }
    | .panic p => { outcome := .panic p, sent := none }
    | .ok np => rawSendV2Msg c loop np.seqno (sendExpiry nowSec lifetime) rnd msgs np.init sc wait

/-- `SendV2`: GetAccountState, NextMessageParams, then RawSendV2 -/
def sendV2Msg (c : SendCfg) (loop : Nat → Nat → List Poll → Bool) (vu rnd : Nat) (msgs : List RawMsg) (sc : Script) (wait : Nat) : SendResultMsg :=
  match sc.acct with
  | .err e => { outcome := .err e, sent := none }
  | .panic p => { outcome := .panic p, sent := none }
  | .ok st =>
    match nextMessageParams c.v st with
    | .err e => { outcome := .err e, sent := none }
    | .panic p => { outcome := .panic p, sent := none }
    | .ok np => rawSendV2Msg c loop np.seqno vu rnd msgs np.init sc wait

end Tongo.Wallet
