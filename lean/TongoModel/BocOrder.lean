import TongoModel.BocWriter
import Std.Data.HashMap
/-! The cell ORDER of `bagOfCells.serializeBoc` (boc/boc.go): an exact executable model of
`importRoots`/`importCell` (post-order import with de-duplication keyed by the cell hash, weights capped at 255),
`reorderCells` (the two weight passes; `isSpecial` = weight 0) and `revisit` (previsit / visit / allocate with the
-1 / -2 / -3 markers), and of the way `serializeBoc` consumes the result (reversal, reference rewriting, cache bits).

The input is a *presentation* of the cell graph the Go code walks: a table whose rows are the `*Cell` objects (two rows
may be structurally equal — that is what de-duplication is about) and `key i`, the de-duplication key of row `i`
(Go: the hex representation hash; `none` = `HashString` returned an error).

The Go `cellInfo` structs are kept as a structure of arrays indexed by the import index (`rows`, `refs`, `cache`,
`wt`, `newIndex`), so that the weight passes visibly touch nothing but the weights. Recursion is by fuel: `importCell`
nests at most once per level of the graph, `revisit` at most twice per import index (sufficiency of the fuel is part of `importCell_spec` / `revisit_spec`).
Core Lean only. -/
namespace Tongo.Boc.Order
open Tongo Tongo.Boc

variable {K : Type} [BEq K] [Hashable K]

/-- `orderState` during the import: the `cellInfo`s in import order and the map hash → import index -/
structure ImpState (K : Type) [BEq K] [Hashable K] where
  /-- `cellInfo.cell`: the row of the input table -/
  rows : Array Nat := #[]
  /-- `cellInfo.refsIndex[0:refsNumber]`: import indices of the children -/
  refs : Array (List Nat) := #[]
  /-- `cellInfo.shouldCache` -/
  cache : Array Bool := #[]
  /-- `cellInfo.wt` -/
  wt : Array Int := #[]
  /-- `orderState.cells` -/
  cells : Std.HashMap K Nat := {}

/-- the loop over the references in importCell: `refs[i] = refPos; sumChildWt += cellList[refPos].wt`;
returns the state, the import indices of the children and the running sum -/
def importRefs (rec : ImpState K → Nat → Nat → Outcome (ImpState K × Nat)) (depth : Nat) :
    List Nat → ImpState K → Int → Outcome (ImpState K × List Nat × Int)
  | [], st, sum => .ok (st, [], sum)
  | r :: rs, st, sum =>
    match rec st r (depth + 1) with
    | .ok (st', refPos) =>
      match importRefs rec depth rs st' (sum + st'.wt[refPos]!) with
      | .ok (st'', ps, sum') => .ok (st'', refPos :: ps, sum')
      | .err e => .err e
      | .panic p => .panic p
    | .err e => .err e
    | .panic p => .panic p

/-- the body of importCell, with the recursive call abstracted -/
def importStep (t : Table) (key : Nat → Option K) (rec : ImpState K → Nat → Nat → Outcome (ImpState K × Nat))
    (st : ImpState K) (i depth : Nat) : Outcome (ImpState K × Nat) :=
  if depth > maxDepth then .err "depth is too big" else
  match t[i]? with
  | none => .err "failed to import nil cell"
  | some row =>
    match key i with
    | none => .err "hash"
    | some h =>
      match st.cells[h]? with
      | some pos => .ok ({ st with cache := st.cache.set! pos true }, pos)
      | none =>
        match importRefs rec depth row.refs st 1 with
        | .ok (st', refs, sum) =>
          .ok ({ rows := st'.rows.push i, refs := st'.refs.push refs, cache := st'.cache.push false,
                 wt := st'.wt.push (if sum > 255 then 255 else sum), cells := st'.cells.insert h st'.rows.size },
               st'.rows.size)
        | .err e => .err e
        | .panic p => .panic p

/-- boc/boc.go importCell -/
def importCell (t : Table) (key : Nat → Option K) : Nat → ImpState K → Nat → Nat → Outcome (ImpState K × Nat)
  | 0 => fun _ _ _ => .err "out of fuel"
  | fuel + 1 => importStep t key (importCell t key fuel)

/-- the loop of importRoots: the import indices of the roots -/
def importRootsLoop (t : Table) (key : Nat → Option K) (fuel : Nat) :
    List Nat → ImpState K → Outcome (ImpState K × List Nat)
  | [], st => .ok (st, [])
  | r :: rs, st =>
    match importCell t key fuel st r 0 with
    | .ok (st', pos) =>
      match importRootsLoop t key fuel rs st' with
      | .ok (st'', ps) => .ok (st'', pos :: ps)
      | .err e => .err e
      | .panic p => .panic p
    | .err e => .err e
    | .panic p => .panic p

/-! ### reorderCells: the weight passes -/

def maxCellWhs : Int := 64

/-- first inner loop of the first pass: children light enough are accounted; returns (c, sum, mask) -/
def pass1Count (wt : Array Int) (nrefs : Int) : List Nat → Nat → Int → Int → Nat → Int × Int × Nat
  | [], _, c, sum, mask => (c, sum, mask)
  | r :: rs, j, c, sum, mask =>
    let w := wt[r]!
    let limit := Int.tdiv (maxCellWhs - 1 + j) nrefs
    if w ≤ limit then pass1Count wt nrefs rs (j + 1) (c - 1) (sum - w) (mask ||| (1 <<< j))
    else pass1Count wt nrefs rs (j + 1) c sum mask

/-- second inner loop of the first pass: the weights of the heavy children are capped -/
def pass1Cap (c : Int) (mask : Nat) : List Nat → Nat → Int → Array Int → Array Int
  | [], _, _, wt => wt
  | r :: rs, j, sum, wt =>
    if mask.testBit j then pass1Cap c mask rs (j + 1) sum wt
    else
      let sum := sum + 1
      let limit := Int.tdiv sum c
      pass1Cap c mask rs (j + 1) sum (if wt[r]! > limit then wt.set! r limit else wt)

/-- `for i := len-1; i >= 0; i--` of the first pass; `k` = i + 1 -/
def pass1 (refs : Array (List Nat)) : Nat → Array Int → Array Int
  | 0, wt => wt
  | k + 1, wt =>
    let rs := refs[k]!
    let (c, sum, mask) := pass1Count wt rs.length rs 0 rs.length (maxCellWhs - 1) 0
    pass1 refs k (if c > 0 then pass1Cap c mask rs 0 sum wt else wt)

/-- second pass (ascending): a cell keeps the sum of its children's weights + 1 if that fits, else becomes special -/
def pass2 (refs : Array (List Nat)) (n : Nat) : Nat → Array Int → Array Int
  | 0, wt => wt
  | k + 1, wt =>
    let i := n - (k + 1)
    let sum := (refs[i]!).foldl (fun s r => s + wt[r]!) (1 : Int)
    pass2 refs n k (wt.set! i (if sum ≤ wt[i]! then sum else 0))

/-- the weights after both passes -/
def reweigh (refs : Array (List Nat)) (wt : Array Int) : Array Int :=
  pass2 refs refs.size refs.size (pass1 refs refs.size wt)

/-! ### revisit -/

inductive Mode where
  | previsit | visit | allocate
  deriving DecidableEq, Repr

/-- the mutable part of the two `orderState`s during `revisit` -/
structure RState where
  /-- `cellInfo.newIndex`: -1 untouched, -2 previsited, -3 visited, ≥ 0 allocated -/
  newIndex : Array Int
  /-- `cellInfo.refsIndex`: import indices, overwritten with new indices when the cell is visited -/
  refs : Array (List Nat)
  /-- `newState.cellList`: import indices in allocation order -/
  out : Array Nat

/-- `for j := refsNumber-1; j >= 0; j-- { revisit(refsIndex[j], mode(child)) }` over the reversed list -/
def revisitEach (rec : RState → Nat → Mode → Option (RState × Int)) (mode : Nat → Mode) :
    List Nat → RState → Option RState
  | [], st => some st
  | c :: cs, st =>
    match rec st c (mode c) with
    | some (st', _) => revisitEach rec mode cs st'
    | none => none

/-- `for j := refsNumber-1; j >= 0; j-- { refsIndex[j] = revisit(refsIndex[j], allocate) }` over the reversed list;
returns the new indices in the order of the (reversed) list -/
def allocEach (rec : RState → Nat → Mode → Option (RState × Int)) : List Nat → RState → Option (RState × List Nat)
  | [], st => some (st, [])
  | c :: cs, st =>
    match rec st c .allocate with
    | some (st', k) =>
      match allocEach rec cs st' with
      | some (st'', ks) => some (st'', k.toNat :: ks)
      | none => none
    | none => none

/-- the body of revisit, with the recursive call abstracted -/
def revisitStep (special : Nat → Bool) (rec : RState → Nat → Mode → Option (RState × Int))
    (st : RState) (ci : Nat) (force : Mode) : Option (RState × Int) :=
  let ni := st.newIndex[ci]!
  if ni ≥ 0 then some (st, ni) else
  match force with
  | .previsit =>
    if ni ≠ -1 then some (st, ni)
    else
      match revisitEach rec (fun c => if special c then .visit else .previsit) (st.refs[ci]!).reverse st with
      | some st' => some ({ st' with newIndex := st'.newIndex.set! ci (-2) }, -2)
      | none => none
  | .allocate =>
    some ({ st with newIndex := st.newIndex.set! ci st.out.size, out := st.out.push ci }, st.out.size)
  | .visit =>
    if ni = -3 then some (st, ni)
    else
      match (if special ci then (rec st ci .previsit).map (·.1) else some st) with
      | none => none
      | some st1 =>
        let rs := (st1.refs[ci]!).reverse
        match revisitEach rec (fun _ => .visit) rs st1 with
        | none => none
        | some st2 =>
          match allocEach rec rs st2 with
          | none => none
          | some (st3, ks) =>
            some ({ st3 with refs := st3.refs.set! ci ks.reverse, newIndex := st3.newIndex.set! ci (-3) }, -3)

/-- boc/boc.go revisit; `none` = out of fuel -/
def revisit (special : Nat → Bool) : Nat → RState → Nat → Mode → Option (RState × Int)
  | 0 => fun _ _ _ => none
  | fuel + 1 => revisitStep special (revisit special fuel)

/-- `for root: revisit(previsit); revisit(visit)` -/
def visitRoots (special : Nat → Bool) (fuel : Nat) : List Nat → RState → Option RState
  | [], st => some st
  | r :: rs, st =>
    match revisit special fuel st r .previsit with
    | none => none
    | some (st1, _) =>
      match revisit special fuel st1 r .visit with
      | none => none
      | some (st2, _) => visitRoots special fuel rs st2

/-- `for root: revisit(allocate)` -/
def allocRoots (special : Nat → Bool) (fuel : Nat) : List Nat → RState → Option RState
  | [], st => some st
  | r :: rs, st =>
    match revisit special fuel st r .allocate with
    | none => none
    | some (st1, _) => allocRoots special fuel rs st1

/-- the revisit part of reorderCells for an arbitrary `special` -/
def reorder (special : Nat → Bool) (refs : Array (List Nat)) (roots : List Nat) : Option RState :=
  let st0 : RState := { newIndex := Array.replicate refs.size (-1), refs := refs, out := #[] }
  if refs.size = 0 then some st0
  else
    let fuel := 2 * refs.size + 3
    match visitRoots special fuel roots st0 with
    | none => none
    | some st1 => allocRoots special fuel roots st1

/-! ### what serializeBoc makes of it -/

/-- the result of the ordering as serializeBoc consumes it: the table in FILE order (position k holds
`cellInfos[cellCount-1-k]`, references rewritten to positions), the root positions, and the cache bits in file order -/
structure Ordered where
  table : Table
  roots : List Nat
  cacheBits : List Bool
  /-- the input row stored at each file position -/
  rowAt : List Nat

/-- assemble the file-order table for a finished `RState` -/
def assemble (t : Table) (rows : Array Nat) (cache : Array Bool) (st : RState) (rootIdx : List Nat) : Ordered :=
  let n := st.out.size
  let pos := fun (k : Nat) => n - 1 - k
  let fileOrder := st.out.toList.reverse
  { table := (fileOrder.map fun ci =>
      let row := t[rows[ci]!]!
      ({ row with refs := (st.refs[ci]!).map pos } : CellRow)).toArray
    roots := rootIdx.map fun ri => pos (st.newIndex[ri]!).toNat
    cacheBits := fileOrder.map fun ci => cache[ci]!
    rowAt := fileOrder.map fun ci => rows[ci]! }

/-- importRoots + reorderCells with an arbitrary `special` predicate on import indices (given the weights) -/
def orderWith (t : Table) (key : Nat → Option K) (special : Array Int → Nat → Bool) (roots : List Nat) :
    Outcome Ordered :=
  match importRootsLoop t key (t.size + 1) roots ({} : ImpState K) with
  | .err e => .err e
  | .panic p => .panic p
  | .ok (st, rootIdx) =>
    let wt := reweigh st.refs st.wt
    match reorder (special wt) st.refs rootIdx with
    | none => .panic "out of fuel"
    | some rst => .ok (assemble t st.rows st.cache rst rootIdx)

/-- `isSpecial`: weight 0 after the two passes -/
def goSpecial (wt : Array Int) (i : Nat) : Bool := wt[i]! == 0

/-- the order Go computes -/
def order (t : Table) (key : Nat → Option K) (roots : List Nat) : Outcome Ordered :=
  orderWith t key goSpecial roots

/-- `bagOfCells.serializeBoc`: order, then the header and size arithmetic of `Writer.serializeOrdered` -/
def serializeBocModel (t : Table) (key : Nat → Option K) (roots : List Nat) (idx crc cache : Bool) : Outcome Bytes :=
  match order t key roots with
  | .ok o => .ok (Writer.serializeOrdered o.table o.roots idx crc cache o.cacheBits)
  | .err e => .err e
  | .panic p => .panic p

end Tongo.Boc.Order
