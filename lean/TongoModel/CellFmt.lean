import TongoModel.Cell
import TongoModel.Prim.Hex
import Std.Data.HashMap
/-! Canonical text form of cell tables, shared with the Go harness (harness/h/cells.go).

  table := row (';' row)*            row 0 is the root unless stated otherwise; refs point to later rows
  row   := ty ',' mask ',' bitlen ',' hex|'-' ',' refs|'-'      hex = data bytes zero-padded; refs = idx ('.' idx)*

`canon` renumbers a table reachable from given roots: structurally equal cells are merged, ids are assigned in DFS
post-order (refs in order) and reversed, so the result depends only on the unfolded trees. -/
namespace Tongo.CellFmt
open Tongo

def rowToString (r : CellRow) : String :=
  let hex := if r.bits.isEmpty then "-" else Hex.encode (Bits.bitsToBytes r.bits)
  let refs := if r.refs.isEmpty then "-" else ".".intercalate (r.refs.map toString)
  s!"{r.ty},{r.mask},{r.bits.length},{hex},{refs}"

def tableToString (t : Table) : String :=
  if t.isEmpty then "-" else ";".intercalate (t.toList.map rowToString)

def parseRow (s : String) : Option CellRow :=
  match s.splitOn "," with
  | [ty, mask, len, hex, refs] => do
    let ty ← ty.toNat?
    let mask ← mask.toNat?
    let len ← len.toNat?
    let bytes ← if hex == "-" then some [] else Hex.decode hex
    if bytes.length * 8 < len then none
    let refs ← if refs == "-" then some [] else (refs.splitOn ".").mapM (·.toNat?)
    pure { ty := ty, mask := mask, bits := (Bits.bytesToBits bytes).take len, refs := refs }
  | _ => none

def parseTable (s : String) : Option Table :=
  if s == "-" then some #[] else (s.splitOn ";").mapM parseRow |>.map List.toArray

structure CanonState where
  memo : Std.HashMap Nat Nat := {}        -- table index → canonical id
  intern : Std.HashMap String Nat := {}   -- structural key → canonical id
  rows : Array CellRow := #[]             -- by canonical id (refs are canonical ids)

/-- visit row `i` (fuel bounds the recursion depth) -/
def canonVisit (t : Table) : Nat → Nat → CanonState → Option (Nat × CanonState)
  | 0, _, _ => none
  | fuel + 1, i, st =>
    match st.memo.get? i with
    | some id => some (id, st)
    | none =>
      match t[i]? with
      | none => none
      | some row => do
        let (ids, st) ← row.refs.foldlM (fun (acc : List Nat × CanonState) r => do
          let (id, st') ← canonVisit t fuel r acc.2
          pure (acc.1 ++ [id], st')) ([], st)
        let crow : CellRow := { row with refs := ids }
        let key := rowToString crow
        match st.intern.get? key with
        | some id => pure (id, { st with memo := st.memo.insert i id })
        | none =>
          let id := st.rows.size
          pure (id, { memo := st.memo.insert i id, intern := st.intern.insert key id, rows := st.rows.push crow })

/-- canonical table of the cells reachable from `roots`, plus the canonical indices of the roots -/
def canon (t : Table) (roots : List Nat) : Option (Table × List Nat) := do
  let (ids, st) ← roots.foldlM (fun (acc : List Nat × CanonState) r => do
    let (id, st') ← canonVisit t (t.size + 1) r acc.2
    pure (acc.1 ++ [id], st')) ([], {})
  let n := st.rows.size
  let flip := fun (id : Nat) => n - 1 - id
  let rows := st.rows.reverse.map fun r => { r with refs := r.refs.map flip }
  pure (rows, ids.map flip)

def canonString (t : Table) (roots : List Nat) : String :=
  match canon t roots with
  | some (t', rs) => tableToString t' ++ " " ++ (if rs.isEmpty then "-" else ".".intercalate (rs.map toString))
  | none => "bad-table"

end Tongo.CellFmt
