import TongoModel.Cell
/-! `Cell.ToString` / `toStringImpl` (boc/cell.go) over a cell table: what is printed is bounded by the visit budget
(`BOCSizeLimit` = 65536 cells are expanded; a cell reached with an exhausted budget is printed without its children).
The model counts the lines and the bytes emitted and threads the budget exactly like the `*int` of the Go code. -/
namespace Tongo.Boc.Str
open Tongo

/-- `BOCSizeLimit` -/
def bocSizeLimit : Nat := 65536

/-- length of `BitString.ToFiftHex` for `n` bits -/
def fiftHexLen (n : Nat) : Nat := if n % 4 = 0 then n / 4 else n / 4 + 2

/-- length of the line printed for a row at nesting level `ident` -/
def lineLen (row : CellRow) (ident : Nat) : Nat :=
  ident + (if row.ty ≠ 0 then 3 else 2) + fiftHexLen row.bits.length + 2

/-- result of printing: lines and bytes emitted, budget left -/
structure Out where
  lines : Nat
  bytes : Nat
  limit : Nat
  deriving Repr, DecidableEq

/-- `for _, ref := range c.Refs() { s += ref.toStringImpl(ident+" ", iterationsLimit) }` -/
def strRefs (rec : Nat → Nat → Nat → Out) (ident : Nat) : List Nat → Nat → Out
  | [], l => ⟨0, 0, l⟩
  | r :: rs, l =>
    let a := rec r ident l
    let b := strRefs rec ident rs a.limit
    ⟨a.lines + b.lines, a.bytes + b.bytes, b.limit⟩

/-- toStringImpl for row `i` at nesting level `ident` with budget `l`; the recursion nests once per level of
references (`fuel`: the depth of the table + 1 suffices; at 0 nothing is printed) -/
def strCell (t : Table) : Nat → Nat → Nat → Nat → Out
  | 0 => fun _ _ l => ⟨0, 0, l⟩
  | fuel + 1 => fun i ident l =>
    let row := t[i]!
    if l = 0 then ⟨1, lineLen row ident, 0⟩
    else
      let o := strRefs (strCell t fuel) (ident + 1) row.refs (l - 1)
      ⟨o.lines + 1, o.bytes + lineLen row ident, o.limit⟩

/-- `Cell.ToString()` of row `i` -/
def toStringOut (t : Table) (fuel i : Nat) : Out := strCell t fuel i 0 bocSizeLimit

end Tongo.Boc.Str
