import TongoModel.Tlb.Wf
/-! # Canonical types (C03, `ReencodeHash`)

`canonb env k T`: the type has exactly ONE serialisation per value and its decoder accepts nothing else — so that
decoding ANY cell and encoding the result writes the bits that were read. The syntactic class: fixed-width integers,
booleans, byte arrays, tagged constructors with distinct names, `Maybe`, `Either`, pointers, optional fields held
through pointers, named types built from these. What is NOT canonical, each with a witness in TongoProofs/C03.lean:
`VarUInteger` / `Grams` (a non-minimal length prefix decodes to the same number), references (`^T`: what the decoder
leaves unread in the child cell is lost; a pruned child decodes to the zero value), dictionaries (the label forms
`hml_short` / `hml_long` / `hml_same` overlap), `Maybe` on a non-pointer field (absent = zero value), greedy codecs
that drop the type of the cell they copy (`Any`). -/
namespace Tongo.Tlb

/-- no two constructors carry the same Go name (the encoder finds the constructor by name) -/
def Ctors.namesDistinct : Ctors → Bool
  | .nil => true
  | .cons n _ _ rest => (rest.find n).isNone && rest.namesDistinct

/-- the tags are present and sized for `ReadUint` -/
def Ctors.tagsOk : Ctors → Bool
  | .nil => true
  | .cons _ tg _ rest => (match tg with
    | some t => t.ok
    | none => false) && rest.tagsOk

/-- a Magic field: the tag fits `ReadUint` -/
def Tag.canon (t : Tag) : Bool := t.ok

mutual
def canonb (env : Env) : Nat → Ty → Bool
  | 0, _ => false
  | k + 1, T =>
    match T with
    | .uint n => n ≤ 64
    | .int n => 1 ≤ n && n ≤ 64
    | .bool => true
    | .bytes _ => true
    | .ptr _ t => canonb env k t
    | .struct fs => canonFields env k fs
    | .sum cs => cs.namesDistinct && cs.tagsOk && canonCtors env k cs
    | .named id => (match env id with
      | some t => canonb env k t
      | none => false)
    | .maybe t => canonb env k t
    | .either l r => canonb env k l && canonb env k r
    | _ => false
def canonField (env : Env) : Nat → FieldTag → Ty → Bool
  | 0, _, _ => false
  | k + 1, ft, T =>
    match ft with
    | .plain => (match T with
      | .magic (some tg) => tg.canon
      | .magic none => false
      | _ => canonb env k T)
    | .maybe => (match T with
      | .ptr _ t => canonb env k t
      | _ => false)
    | _ => false
def canonFields (env : Env) : Nat → Fields → Bool
  | 0, _ => false
  | _ + 1, .nil => true
  | k + 1, .cons _ ft t rest => canonField env k ft t && canonFields env k rest
def canonCtors (env : Env) : Nat → Ctors → Bool
  | 0, _ => false
  | _ + 1, .nil => true
  | k + 1, .cons _ _ t rest => canonb env k t && canonCtors env k rest
end

def canonFuel : Nat := 64

/-- **Canonical T** -/
def Canonical (env : Env) (T : Ty) : Prop := canonb env canonFuel T = true

end Tongo.Tlb
