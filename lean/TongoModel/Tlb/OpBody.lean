import TongoModel.Tlb.Wf
/-! # Opcode-tagged bodies: abi.InMsgBody / ExtInMessageDecoder / abi.ExtOutMsgBody and the payload unions
abi.JettonPayload / abi.NFTPayload (abi/messages.go, abi/jetton.go, abi/nfts.go)

The dispatch tables are data: `Ctors` whose entries are (op name, 32-bit opcode as the tag, descriptor of the Go body
type), in the order the Go tables list the layouts of one opcode. The regenerated tables are in
`TongoGen/AbiOpcodes.lean` (translator AbiOpcodes, go/ast over abi/messages_generated.go, jetton_msg_types.go,
nfts_msg_types.go). A value is the dump of the Go struct { SumType string; OpCode *uint32; Value any }:
`(name bytes | ~ or (opcode) | value)`; the value of an unrecognised body is the body cell `(c)`. -/
namespace Tongo.Tlb
open Tongo Tongo.Bits

/-- the layouts registered for an opcode, in table order -/
def Ctors.byOp : Ctors → Nat → List (String × Ty)
  | .nil, _ => []
  | .cons n tg t rest, op =>
    match tg with
    | some g => if g.val = op then (n, t) :: rest.byOp op else rest.byOp op
    | none => rest.byOp op

def strBytes (s : String) : List UInt8 := s.toUTF8.toList

/-- "Unknown" (messages) -/
def unknownMsgOp : List UInt8 := [85, 110, 107, 110, 111, 119, 110]
/-- "Cell" (payload unions) -/
def unknownPayloadOp : List UInt8 := [67, 101, 108, 108]

def opVal (name : List UInt8) (op : Option Nat) (v : Val) : Val :=
  Val.list [.bytes name, (match op with
    | some o => Val.some (.int o)
    | none => .none), v]

/-- decodeMultipleMsgs: the first layout that decodes AND consumes the whole cell -/
def firstComplete (dec : Ty → Slice → Outcome (Val × Slice)) : List (String × Ty) → Slice → Outcome (Option (String × Val))
  | [], _ => .ok none
  | (n, t) :: rest, s =>
    match dec t s with
    | .ok (v, s') => if s'.bits.isEmpty && s'.refs.isEmpty then .ok (some (n, v)) else firstComplete dec rest s
    | .err _ => firstComplete dec rest s
    | .panic p => .panic p

/-- the layout chosen for an opcode and the value it decodes to (none: fall back to the raw cell) -/
def dispatch (dec : Ty → Slice → Outcome (Val × Slice)) (alts : List (String × Ty)) (body : Slice) :
    Outcome (Option (String × Val)) :=
  match alts with
  | [] => .ok none
  | [(n, t)] =>
    -- decodeMsg: no check that the cell was consumed
    (match dec t body with
    | .ok (v, _) => .ok (some (n, v))
    | .err _ => .ok none
    | .panic p => .panic p)
  | _ => firstComplete dec alts body

/-- InMsgBody.UnmarshalTLB / ExtInMessageDecoder / ExtOutMsgBody.UnmarshalTLB (after the `fix:` that keeps the WHOLE
body as the unknown value). `extOut`: ExtOutMsgBody keeps the body cell also for a body shorter than an opcode. -/
def decodeOpBody (env : Env) (fuel : Nat) (extOut : Bool) (cs : Ctors) (s : Slice) : Outcome (Val × Slice) :=
  if s.isLibrary then .err "library cell decoding is not configured properly"
  else if s.bits.length < 32 then
    .ok (opVal [] none (if extOut then Val.some (.cell s.toCell) else .none), s)
  else
    let op := bitsToNat (s.bits.take 32)
    match dispatch (fun t b => decode env fuel t b) (cs.byOp op) { s with bits := s.bits.drop 32 } with
    | .ok (some (n, v)) => .ok (opVal (strBytes n) (some op) v, s)
    | .ok none => .ok (opVal unknownMsgOp (some op) (Val.some (.cell s.toCell)), s)
    | .err e => .err e
    | .panic p => .panic p

def findByName (nm : List UInt8) : List (String × Ty) → Option Ty
  | [] => none
  | (n, t) :: rest => if strBytes n = nm then some t else findByName nm rest

def Ctors.entries : Ctors → List (String × Ty)
  | .nil => []
  | .cons n _ t rest => (n, t) :: rest.entries

/-- the body type of a value: among the layouts of its opcode when it carries one, else by name alone -/
def bodyType (cs : Ctors) (nm : List UInt8) (oc : Val) : Option Ty :=
  match oc with
  | .cons (.int op) .nil => findByName nm (cs.byOp op.toNat)
  | _ => findByName nm cs.entries

/-- InMsgBody.MarshalTLB: nothing for the empty body; the opcode when there is one; then `tlb.Marshal(c, Value)` — for an
unrecognised body the value is a *boc.Cell, which REPLACES the cell under construction (the opcode is inside it). -/
def encodeOpBody (env : Env) (fuel : Nat) (cs : Ctors) (v : Val) (b : Builder) : Outcome Builder :=
  match v with
  | .cons (.bytes nm) (.cons oc (.cons x .nil)) =>
    if nm = [] then .ok b
    else do
      let b ← match oc with
        | .none => Outcome.ok b
        | .cons (.int op) .nil => b.writeUint op.toNat 32
        | _ => .err "bad value"
      if nm = unknownMsgOp then
        match x with
        | .cons (.cell c) .nil => .ok (Builder.ofCell c)
        | _ => .err "bad value"
      else match bodyType cs nm oc with
        | some t => encode env fuel t x b
        | none => .err "bad value"
  | _ => .err "bad value"

/-! ### payload unions (abi.JettonPayload, abi.NFTPayload) -/

/-- the layout registered for an opcode in a payload union; a tag length of 33 marks a layout that must consume the
whole cell (`fixed_length` in the schema) -/
def Ctors.firstOp : Ctors → Nat → Option (String × Ty × Bool)
  | .nil, _ => none
  | .cons n tg t rest, op =>
    match tg with
    | some g => if g.val = op then some (n, t, g.len == 33) else rest.firstOp op
    | none => rest.firstOp op

/-- JettonPayload.UnmarshalTLB: nothing left → the zero value; fewer than 32 bits → the raw cell without an opcode; a
registered layout that decodes (and, for a fixed-length layout, consumes the whole cell: after the `fix:`) → that
layout; otherwise the raw cell, the opcode kept. Everything is consumed. -/
def decodePayload (env : Env) (fuel : Nat) (cs : Ctors) (s : Slice) : Outcome (Val × Slice) :=
  if s.isLibrary then .err "library cell decoding is not configured properly"
  else if s.bits.isEmpty && s.refs.isEmpty then .ok (opVal [] none .none, s)
  else
    let raw := Val.some (.cell (.mk 0 0 s.bits s.refs))
    let done : Slice := { s with bits := [] }
    if s.bits.length < 32 then .ok (opVal unknownPayloadOp none raw, done)
    else
      let op := bitsToNat (s.bits.take 32)
      match cs.firstOp op with
      | some (n, t, complete) =>
        (match decode env fuel t { ty := 0, mask := 0, bits := s.bits.drop 32, refs := s.refs } with
        | .ok (v, s') =>
          if complete && !(s'.bits.isEmpty && s'.refs.isEmpty) then .ok (opVal unknownPayloadOp (some op) raw, done)
          else .ok (opVal (strBytes n) (some op) v, done)
        | .err _ => .ok (opVal unknownPayloadOp (some op) raw, done)
        | .panic p => .panic p)
      | none => .ok (opVal unknownPayloadOp (some op) raw, done)

def Ctors.opOfName : Ctors → List UInt8 → Option Nat
  | .nil, _ => none
  | .cons n tg _ rest, nm =>
    if strBytes n = nm then tg.map (·.val) else Ctors.opOfName rest nm

/-- JettonPayload.MarshalTLB: the opcode of the value, else the one registered for the name (`JettonOpCodes`) -/
def encodePayload (env : Env) (fuel : Nat) (cs : Ctors) (v : Val) (b : Builder) : Outcome Builder :=
  match v with
  | .cons (.bytes nm) (.cons oc (.cons x .nil)) =>
    if nm = [] then .ok b
    else do
      let b ← match oc with
        | .cons (.int op) .nil => b.writeUint op.toNat 32
        | .none => (match cs.opOfName nm with
          | some op => b.writeUint op 32
          | none => Outcome.ok b)
        | _ => .err "bad value"
      if nm = unknownPayloadOp then
        match x with
        | .cons (.cell c) .nil => .ok (Builder.ofCell c)
        | _ => .err "bad value"
      else match findByName nm cs.entries with
        | some t => encode env fuel t x b
        | none => .err "bad value"
  | _ => .err "bad value"

/-! ### the decidable side conditions of the round-trip theorem -/

/-- the opcode has exactly one layout, a well-formed one, under a usable name; it fits 32 bits -/
def opEntryOk (env : Env) (cs : Ctors) (op : Nat) : Bool :=
  match cs.byOp op with
  | [(n, t)] => decide (op < 2 ^ 32) && wfb env t && !(strBytes n).isEmpty && strBytes n != unknownMsgOp
  | _ => false

/-- payload unions: the first layout of the opcode is well formed, reachable by its name (the first layout of that name
carries this opcode), and — when it is a fixed-length layout that must consume the whole cell — not greedy -/
def payloadEntryOk (env : Env) (cs : Ctors) (op : Nat) : Bool :=
  match cs.firstOp op with
  | some (n, t, complete) =>
    decide (op < 2 ^ 32) && wfb env t && !(strBytes n).isEmpty && strBytes n != unknownPayloadOp
      && cs.opOfName (strBytes n) == some op && (!complete || !greedyb env greedyFuel t)
  | none => false

end Tongo.Tlb
