import TongoModel.Tlb.Basic
/-! Deep embedding of what the reflection codec of tlb/encoder.go + tlb/decoder.go interprets: type descriptors `Ty`
(regenerated from the Go source by translator X1), field tags as produced by `parseTag`, constructor tags as produced
by `ParseTag`, and values `Val` (typed-atom S-expressions shared with the Go harness). -/
namespace Tongo.Tlb
open Tongo

/-- result of `ParseTag` ("name$0101", "name#0f", "#_", "$_"): bit length and value -/
structure Tag where
  len : Nat
  val : Nat
  deriving Repr, DecidableEq, Inhabited

/-- result of `parseTag` on a struct field's `tlb:"…"` tag -/
inductive FieldTag where
  | plain      -- "" or a tag only Magic looks at
  | ref        -- "^"
  | maybe      -- "maybe"
  | maybeRef   -- "maybe^"
  | bad        -- parseTag returns an error (deprecated "…bits"/"…bytes" form)
  deriving Repr, DecidableEq, Inhabited

/-- hand-written codecs without type parameters (one model each in `Tlb/Prims.lean`) -/
inductive Prim where
  | unary                 -- tlb.Unary
  | any                   -- tlb.Any (copy of the remaining bits and refs)
  | varUint (n : Nat)     -- tlb.VarUIntegerN : len:(#< n) value:(uint (len*8))
  | bigUint (n : Nat)     -- tlb.Uint128/256/257
  | bigInt (n : Nat)      -- tlb.Int128/256/257
  | grams                 -- tlb.Grams (uint64 through VarUInteger16)
  | signedCoins           -- tlb.SignedCoins
  | snake                 -- tlb.SnakeData
  | bytesSnake            -- tlb.Bytes
  | text                  -- tlb.Text
  | fixedText             -- tlb.FixedLengthText
  | anycast               -- tlb.Anycast
  | msgAddress            -- tlb.MsgAddress
  | accountStatus         -- tlb.AccountStatus
  | accStatusChange       -- tlb.AccStatusChange
  | computeSkipReason     -- tlb.ComputeSkipReason
  | vmCellSlice           -- tlb.VmCellSlice
  | payloadV1toV4         -- wallet.PayloadV1toV4
  | w5Actions             -- wallet.W5Actions
  | addrWc                -- tlb.AddressWithWorkchain (dictionary key: workchain as int32, address bits256)
  deriving Repr, DecidableEq, Inhabited

mutual
inductive Ty where
  | uint (n : Nat)                   -- WriteUint/ReadUint of n bits (Go kinds uint8..uint64 and tlb.UintN)
  | int (n : Nat)                    -- WriteInt/ReadInt of n bits (Go kinds int8..int64 and tlb.IntN)
  | bool
  | bytes (n : Nat)                  -- [n]byte (tlb.BitsN)
  | cell                             -- boc.Cell: encodeCell replaces the cell under construction, decodeCell captures it
  | ptr (marshaler : Bool) (t : Ty)  -- Go pointer; `marshaler`: the pointee has a value-receiver MarshalTLB
  | struct (fs : Fields)
  | sum (cs : Ctors)
  | named (id : Nat)                 -- reference into the type environment (index; Go named struct types; recursion)
  | magic (t : Option Tag)           -- tlb.Magic field with its (parsed) tag; `none`: ParseTag fails
  | maybe (t : Ty)                   -- tlb.Maybe[T]
  | either (l r : Ty)                -- tlb.Either[L,R]
  | eitherRef (t : Ty)               -- tlb.EitherRef[T]
  | refT (t : Ty)                    -- tlb.Ref[T]
  | prim (p : Prim)
  | vmStack (elem : Ty)              -- tlb.VmStack over its element type (tlb.VmStackValue)
  | dictE (k t : Ty)                 -- tlb.HashmapE[K,V]: Maybe ^(Hashmap n V); the dictionary itself is C05's model
  | dict (k t : Ty)                  -- tlb.Hashmap[K,V] written into the current cell (hm_edge; never empty); greedy
  | chain (elem : Ty)                -- wallet.W5ExtendedActions: first element inline, every further one behind a ref
  | highload                         -- wallet.PayloadHighload: HashmapE 16 of (mode:uint8 message:^…), keys 0..n-1
  | dictAugE (k t x : Ty)            -- tlb.HashmapAugE[K,V,X]: decoded by C05's model; only the empty one can be written
  | dictAug (k t x : Ty)             -- tlb.HashmapAug[K,V,X] read from the current cell; MarshalTLB: "not implemented"
  | binTree (t : Ty)                 -- tlb.BinTree[T]: bt_leaf$0 leaf:X | bt_fork$1 left:^ right:^; decode only
  | custom (id : String) (body aux : Ty)
      -- a hand-written decoder with flag-dependent layout (`decodeCustom`); `body`: what the reflection codec sees
      -- (used by the encoder unless the type has its own MarshalTLB); `aux`: a struct listing the component types
  | encErr (id : String)             -- Go MarshalTLB returns "not implemented"; decode side not modelled
  | opaque (id : String)             -- custom codec without a model
inductive Fields where
  | nil
  | cons (name : String) (tag : FieldTag) (t : Ty) (rest : Fields)
inductive Ctors where
  | nil
  | cons (name : String) (tag : Option Tag) (t : Ty) (rest : Ctors)   -- `none`: ParseTag fails on the tlbSumType tag
end

instance : Inhabited Ty := ⟨.bool⟩

/-- values: typed atoms + lists. Shapes by type:
uint/int ↦ `int`; bool ↦ `bool`; bytes ↦ `bytes`; cell/any ↦ `cell`; bit strings ↦ `bits`; ptr ↦ `none` | `list [v]`;
struct ↦ `list [v₁,…]`; sum ↦ `list [sym name, v]`; maybe ↦ `none` | `list [v]`; either ↦ `list [sym L|R, v]`;
eitherRef ↦ `list [sym L|R, v]`; refT ↦ v; magic ↦ `magic`. -/
inductive Val where
  | int (i : Int)
  | bool (b : Bool)
  | bytes (bs : List UInt8)
  | bits (bs : List Bool)
  | cell (c : Cell)
  | sym (s : String)
  | none
  | magic                 -- a tlb.Magic field: the number it stores is not part of the value
  | nil
  | cons (hd tl : Val)
  deriving Inhabited

namespace Val
def list : List Val → Val
  | [] => .nil
  | v :: vs => .cons v (list vs)
def ctor (name : String) (v : Val) : Val := .cons (.sym name) (.cons v .nil)
def some (v : Val) : Val := .cons v .nil
/-- the elements of a list-shaped value -/
def toList : Val → List Val
  | .cons h t => h :: toList t
  | _ => []
end Val

/-- type environment: Go named types (by index) → descriptors. Indices instead of names keep the regenerated `wf_<T>`
obligations cheap for the kernel. -/
abbrev Env := Nat → Option Ty

end Tongo.Tlb
