/-! Facts about the generated integer / bit-array types of tlb/integers.go, as extracted by translator X2 (go/ast):
for every generated type its family and the width literal found in each of MarshalTLB, UnmarshalTLB, FixedSize and
the JSON bit size. `IntTypeFacts.ok` is the obligation "they all agree with the width in the type's name and fit the
underlying Go kind"; it is decided over the whole regenerated table. X1 derives the width of `tlb.UintN` / `tlb.IntN`
/ `tlb.VarUIntegerN` descriptors from the type NAME; this obligation is what makes that sound. -/
namespace Tongo.Tlb

inductive IntFamily where
  | uint | int | varUint | bits
  deriving Repr, DecidableEq, Inhabited

/-- the bit-string primitive a generated method calls -/
inductive IntFn where
  | writeUint | writeInt | writeBigUint | writeBigInt | writeLimUint
  | readUint | readInt | readBigUint | readBigInt | readLimUint
  | reflection      -- no method: the reflection codec handles the array kind
  deriving Repr, DecidableEq, Inhabited

structure IntTypeFacts where
  name : String
  family : IntFamily
  nameWidth : Nat          -- the number in the type's name
  kindBits : Nat           -- bits of the underlying Go kind (8/16/32/64), 0 for big.Int; for Bits: array length in bytes
  writeFn : IntFn
  writeWidth : Nat
  readFn : IntFn
  readWidth : Nat
  fixedSize : Option Nat
  jsonBits : Option Nat    -- bitSize argument of strconv.ParseUint / ParseInt (small kinds), byte length (Bits)
  deriving Repr, Inhabited

def IntTypeFacts.ok (f : IntTypeFacts) : Bool :=
  match f.family with
  | .uint =>
    if f.kindBits = 0 then
      f.writeFn == .writeBigUint && f.readFn == .readBigUint && f.writeWidth == f.nameWidth && f.readWidth == f.nameWidth
        && f.fixedSize == some f.nameWidth
    else
      f.writeFn == .writeUint && f.readFn == .readUint && f.writeWidth == f.nameWidth && f.readWidth == f.nameWidth
        && f.fixedSize == some f.nameWidth && f.jsonBits == some f.nameWidth
        && 1 ≤ f.nameWidth && f.nameWidth ≤ f.kindBits && f.kindBits ≤ 64
  | .int =>
    if f.kindBits = 0 then
      f.writeFn == .writeBigInt && f.readFn == .readBigInt && f.writeWidth == f.nameWidth && f.readWidth == f.nameWidth
        && f.fixedSize == some f.nameWidth
    else
      f.writeFn == .writeInt && f.readFn == .readInt && f.writeWidth == f.nameWidth && f.readWidth == f.nameWidth
        && f.fixedSize == some f.nameWidth && f.jsonBits == some f.nameWidth
        && 1 ≤ f.nameWidth && f.nameWidth ≤ f.kindBits && f.kindBits ≤ 64
  | .varUint =>
    -- var_uint$_ {n:#} len:(#< n) value:(uint (len * 8)): the length field is `#<= n-1`
    f.kindBits == 0 && f.writeFn == .writeLimUint && f.readFn == .readLimUint && 1 ≤ f.nameWidth
      && f.writeWidth + 1 == f.nameWidth && f.readWidth + 1 == f.nameWidth
  | .bits =>
    f.writeFn == .reflection && f.readFn == .reflection && f.kindBits * 8 == f.nameWidth
      && f.fixedSize == some f.nameWidth && f.jsonBits == some f.kindBits

end Tongo.Tlb
