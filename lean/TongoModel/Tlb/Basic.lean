import TongoModel.Bits
import TongoModel.Cell
import TongoModel.Outcome
/-! Ideal-level cell builders and slices, and the bit-level writers/readers of boc/bitString.go + boc/cell.go that the
TL-B codec uses. A `Builder` is the cell under construction (Go: `*boc.Cell` written through `WriteBit`, capacity
1023 bits / 4 refs); a `Slice` is a cell being read (Go: the same `*boc.Cell` with its read cursors). Agent `bits`
proves that the Go `BitString` refines these list-level operations (C06); here they are the specification level.

Idealisations (stated in props/C03.py): the bit capacity is always 1023 (Go: a cell obtained from `NewCellWithBits`
may have a smaller `cap`; such cells are only ever read, never appended to, by the codec); bits written before an
overflow error are not observable because every codec path propagates the error. -/
namespace Tongo.Tlb
open Tongo Tongo.Bits

def cellBits : Nat := 1023
def cellRefs : Nat := 4

mutual
/-- an upper bound of the depth of a cell tree (fuel for recursions over cells) -/
def cellDepth : Cell → Nat
  | .mk _ _ _ refs => 1 + cellDepthList refs
def cellDepthList : List Cell → Nat
  | [] => 0
  | c :: cs => Nat.max (cellDepth c) (cellDepthList cs)
end

/-- `n` bytes out of `8·n` bits -/
def bytesOfBits : Nat → List Bool → List UInt8
  | 0, _ => []
  | k + 1, bs => UInt8.ofNat (bitsToNat (bs.take 8)) :: bytesOfBits k (bs.drop 8)

structure Builder where
  ty : Nat := 0
  mask : Nat := 0
  bits : List Bool := []
  refs : List Cell := []
  deriving Inhabited

structure Slice where
  ty : Nat := 0
  mask : Nat := 0
  bits : List Bool := []
  refs : List Cell := []
  deriving Inhabited

namespace Builder
def empty : Builder := {}
/-- the builder after `xs` more bits and `rs` more references -/
def app (b : Builder) (xs : List Bool) (rs : List Cell) : Builder := { b with bits := b.bits ++ xs, refs := b.refs ++ rs }
def toCell (b : Builder) : Cell := .mk b.ty b.mask b.bits b.refs
def ofCell : Cell → Builder | .mk t m bs rs => { ty := t, mask := m, bits := bs, refs := rs }

/-- WriteBit repeated: fails (ErrBitStingOverflow) as soon as the cursor reaches the capacity -/
def writeBits (b : Builder) (xs : List Bool) : Outcome Builder :=
  if b.bits.length + xs.length ≤ cellBits then .ok { b with bits := b.bits ++ xs } else .err "BitString overflow"

def writeBit (b : Builder) (x : Bool) : Outcome Builder := b.writeBits [x]

/-- Cell.AddRef -/
def addRef (b : Builder) (c : Cell) : Outcome Builder :=
  if b.refs.length < cellRefs then .ok { b with refs := b.refs ++ [c] } else .err "too many refs"

/-- BitString.WriteUint(val uint64, bitLen): bit i is `(val >> i) & 1` (0 for i ≥ 64) -/
def writeUint (b : Builder) (v n : Nat) : Outcome Builder := b.writeBits (natToBits n (v % 2 ^ 64))

/-- the bits BitString.WriteInt(val int64, bitLen) emits -/
def intBitsGo (v : Int) (n : Nat) : List Bool :=
  if n = 1 then (if v = -1 then [true] else if v = 0 then [false] else [])
  else decide (v < 0) :: natToBits (n - 1) (v % (2 ^ 64 : Int)).toNat

/-- BitString.WriteInt(val int64, bitLen) (after the repair, boc/bitString.go): width 0 is an error, width 1 holds
-1 and 0 only; wider fields write the sign bit and the low bits of the value -/
def writeInt (b : Builder) (v : Int) (n : Nat) : Outcome Builder :=
  if n = 0 then .err "integer can't be zero size"
  else if n = 1 ∧ v ≠ -1 ∧ v ≠ 0 then .err "bit length is too small"
  else b.writeBits (intBitsGo v n)

theorem writeInt_wide (b : Builder) (v : Int) (n : Nat) (h : 2 ≤ n) : b.writeInt v n = b.writeBits (intBitsGo v n) := by
  unfold writeInt
  rw [if_neg (by omega), if_neg (by omega)]

/-- within the representable range (any width ≥ 1) WriteInt is the plain write of `intBitsGo` -/
theorem writeInt_repr (b : Builder) (v : Int) (n : Nat) (h1 : 1 ≤ n) (lo : -(2 ^ (n - 1) : Int) ≤ v)
    (hi : v < (2 ^ (n - 1) : Int)) : b.writeInt v n = b.writeBits (intBitsGo v n) := by
  unfold writeInt
  rw [if_neg (by omega)]
  by_cases hn : n = 1
  · subst hn
    simp only [Nat.sub_self, Int.pow_zero] at lo hi
    rw [if_neg (by omega)]
  · rw [if_neg (by omega)]

def writeBytes (b : Builder) (bs : List UInt8) : Outcome Builder := b.writeBits (bytesToBits bs)

/-- number of bits of `|v|` (big.Int.BitLen) -/
def bitLen (v : Nat) : Nat := if v = 0 then 0 else Nat.log2 v + 1

/-- BitString.WriteBigUint(val, bitLen): `val.Bit(i)` is the two's complement bit for negative values -/
def writeBigUint (b : Builder) (v : Int) (n : Nat) : Outcome Builder :=
  if n = 0 ∨ bitLen v.natAbs > n then .err "bit length is too small"
  else b.writeBits (intToBits n v)

/-- BitString.WriteBigInt(val, bitLen) -/
def writeBigInt (b : Builder) (v : Int) (n : Nat) : Outcome Builder :=
  if n = 1 then
    -- val.Int64(): the low 64 bits of the magnitude with the sign applied
    let lo : Int := (if v < 0 then -1 else 1) * ((v.natAbs % 2 ^ 64 : Nat) : Int)
    let lo64 := if lo % 2 ^ 64 ≥ 2 ^ 63 then lo % 2 ^ 64 - 2 ^ 64 else lo % 2 ^ 64
    if lo64 = -1 then b.writeBit true
    else if lo64 = 0 then b.writeBit false
    else .err "bit length is too small"
  else if v < 0 then do
    let b ← b.writeBit true
    b.writeBigUint ((2 : Int) ^ (n - 1) + v) (n - 1)
  else do
    let b ← b.writeBit false
    b.writeBigUint v (n - 1)

/-- minBitsRequired -/
def limBits (n : Nat) : Nat := bitLen n

/-- WriteLimUint(val, n): `#<= n` -/
def writeLimUint (b : Builder) (v n : Nat) : Outcome Builder := b.writeUint v (limBits n)

/-- WriteUnary(n): n ones and a zero -/
def writeUnary (b : Builder) (n : Nat) : Outcome Builder :=
  if b.bits.length + (n + 1) ≤ cellBits then .ok { b with bits := b.bits ++ (List.replicate n true ++ [false]) }
  else .err "BitString overflow"

end Builder

namespace Slice
def ofCell : Cell → Slice | .mk t m bs rs => { ty := t, mask := m, bits := bs, refs := rs }
def toCell (s : Slice) : Cell := .mk s.ty s.mask s.bits s.refs
/-- a slice that starts with the bits `xs` and the references `rs` and continues as `s` -/
def prepend (xs : List Bool) (rs : List Cell) (s : Slice) : Slice := { s with bits := xs ++ s.bits, refs := rs ++ s.refs }
def ofBuilder (b : Builder) : Slice := { ty := b.ty, mask := b.mask, bits := b.bits, refs := b.refs }

def isLibrary (s : Slice) : Bool := s.ty == tyLibrary
def isPruned (s : Slice) : Bool := s.ty == tyPruned

def readBits (s : Slice) (n : Nat) : Outcome (List Bool × Slice) :=
  if s.bits.length < n then .err "not enough bits" else .ok (s.bits.take n, { s with bits := s.bits.drop n })

def readBit (s : Slice) : Outcome (Bool × Slice) :=
  match s.bits with
  | [] => .err "not enough bits"
  | x :: rest => .ok (x, { s with bits := rest })

/-- Cell.NextRef: the next reference as a fresh slice (read cursors reset) -/
def nextRef (s : Slice) : Outcome (Cell × Slice) :=
  match s.refs with
  | [] => .err "not enough refs"
  | c :: rest => .ok (c, { s with refs := rest })

def readUint (s : Slice) (n : Nat) : Outcome (Nat × Slice) :=
  if n > 64 then .err "too much bits for uint64"
  else do
    let (bs, s) ← s.readBits n
    pure (bitsToNat bs, s)

def readInt (s : Slice) (n : Nat) : Outcome (Int × Slice) :=
  if n > 64 then .err "too much bits for int64"
  else if n = 0 then .err "integer can't be zero size"
  else do
    let (bs, s) ← s.readBits n
    pure (bitsToInt bs, s)

def readBytes (s : Slice) (n : Nat) : Outcome (List UInt8 × Slice) := do
  let (bs, s) ← s.readBits (n * 8)
  pure (bytesOfBits n bs, s)

/-- ReadBigUint after the repair of defect #1 (the leading partial byte is kept): the value of the next `n` bits -/
def readBigUint (s : Slice) (n : Nat) : Outcome (Int × Slice) := do
  let (bs, s) ← s.readBits n
  pure ((bitsToNat bs : Int), s)

/-- ReadBigUint as shipped (unrepaired): for `n % 8 ≠ 0` the leading `n % 8` bits are read and then discarded -/
def readBigUintOrig (s : Slice) (n : Nat) : Outcome (Int × Slice) := do
  let (bs, s) ← s.readBits n
  pure ((bitsToNat (bs.drop (n % 8)) : Int), s)

/-- ReadBigInt (on the repaired ReadBigUint) -/
def readBigInt (s : Slice) (n : Nat) : Outcome (Int × Slice) := do
  let (bs, s) ← s.readBits n
  pure (bitsToInt bs, s)

/-- ReadBigInt on the unrepaired ReadBigUint -/
def readBigIntOrig (s : Slice) (n : Nat) : Outcome (Int × Slice) := do
  let (bs, s') ← s.readBits n
  match bs with
  | [] => pure (0, s')
  | [x] => pure ((if x then -1 else 0), s')
  | sign :: rest =>
    let base : Int := bitsToNat (rest.drop ((n - 1) % 8))
    pure ((if sign then base - 2 ^ (n - 1) else base), s')

def readLimUint (s : Slice) (n : Nat) : Outcome (Nat × Slice) := s.readUint (Builder.limBits n)

/-- ReadUnary: count ones up to the first zero; running out of bits is an error -/
def readUnaryAux : List Bool → Nat → Option (Nat × List Bool)
  | [], _ => none
  | false :: rest, k => some (k, rest)
  | true :: rest, k => readUnaryAux rest (k + 1)

def readUnary (s : Slice) : Outcome (Nat × Slice) :=
  match readUnaryAux s.bits 0 with
  | some (k, rest) => .ok (k, { s with bits := rest })
  | none => .err "not enough bits"

end Slice

end Tongo.Tlb
