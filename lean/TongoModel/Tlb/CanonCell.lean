import TongoModel.Tlb.Canon
import TongoModel.Tlb.Chain
/-! # Canonical cells (C03 / C04: "decoded from chain data and encoded again reproduces the cell")

`Canon.lean` has the TYPE-level class `canonb`: types every accepted serialisation of which is the encoder's. The types
the property names (Message, StateInit, Transaction, CurrencyCollection, Account) are outside it: they hold
`VarUInteger` / `Grams` (a non-minimal length prefix decodes to the same number), references (what the decoder leaves
unread in a child, a pruned child), dictionaries (three overlapping label forms, unread leaf data), `Any`.

`canonAt env fuel T s` is the CELL-level check: it walks the type and the slice like the decoder and returns the slice
that is left after a CANONICAL serialisation of a `T` value (or `none`):

* `VarUInteger n` / `Grams`: the length prefix is minimal (the first of the `len` bytes is not zero);
* a reference: the child is an ordinary cell of level 0, itself canonical, and the decoder consumes it entirely
  (`^Cell`: any child that is not pruned);
* `HashmapE`: the root is an ordinary cell; every edge label is written in the form the encoder picks
  (`Hashmap.encLabelBits`, TON's shortest form), a fork has no further bits and exactly two references, a leaf's value
  is canonical and fills the leaf;
* `Any`: everything that is left (identity);
* `Maybe`, `EitherRef`: the placement is part of the value (the encoder writes it back as read);
* a type of the class `canonb`: whatever the decoder accepts.

`canonicalCell env fuel T c`: `c` is an ordinary level-0 cell and a canonical serialisation of a `T` that fills it. The
theorem is `C03.reencode_canonical_cell`; `C03.noncanonical_cell_witnesses` shows that each condition is needed. -/
namespace Tongo.Tlb
open Tongo Tongo.Bits

/-- the slice a successful decoder leaves -/
def restOf {α : Type} (o : Outcome (α × Slice)) : Option Slice :=
  match o with
  | .ok (_, s') => some s'
  | _ => none

/-- `len` canonical for the `len * 8` bits that follow: zero, or the first byte is not zero -/
def minimalLen (ln : Nat) (bits : List Bool) : Bool := ln == 0 || bitsToNat (bits.take 8) != 0

/-- hand-written codecs: the remaining slice after a canonical serialisation -/
def canonPrim (p : Prim) (s : Slice) : Option Slice :=
  match p with
  | .any => some { s with bits := [], refs := [] }
  | .grams =>
    (match s.readLimUint 15 with
    | .ok (ln, s1) => if ln ≤ 8 && minimalLen ln s1.bits then restOf (s1.readBits (ln * 8)) else none
    | _ => none)
  | .varUint n =>
    if 1 ≤ n && n ≤ 32 then
      (match s.readLimUint (n - 1) with
      | .ok (ln, s1) => if minimalLen ln s1.bits then restOf (s1.readBits (ln * 8)) else none
      | _ => none)
    else none
  | .msgAddress | .accountStatus | .accStatusChange | .computeSkipReason => restOf (Prim.dec p s)
  | _ => none

/-- key descriptors of canonical dictionaries: fixed-width integers and byte arrays -/
def canonKey (k : Ty) : Option Nat :=
  match k with
  | .uint n => if n ≤ 64 then some n else none
  | .int n => if 1 ≤ n && n ≤ 64 then some n else none
  | .bytes m => some (m * 8)
  | _ => none

/-- the tree of a dictionary in the encoder's form. `canV bits refs`: the value of a leaf is canonical and fills it.
Mirrors `Hashmap.mapInner` (`left` = key bits still to come, `pfx` = key prefix so far). -/
def dictCanonAt (canV : List Bool → List Cell → Bool) (n : Nat) : Nat → Nat → Cell → Hashmap.Key → Bool
  | 0, _, _, _ => false
  | fuel + 1, left, .mk ty mask bits refs, pfx =>
    ty == 0 && mask == 0 &&
    (match Hashmap.loadLabel (left : Int) n pfx bits with
    | .ok (size, pfx', rest) =>
      (bits == Hashmap.encLabelBits (pfx'.drop pfx.length) (left : Int) ++ rest) &&
      (if pfx'.length < n then
        rest.isEmpty && (match refs with
          | [l, r] => dictCanonAt canV n fuel (left - (1 + size)) l (pfx' ++ [false]) &&
              dictCanonAt canV n fuel (left - (1 + size)) r (pfx' ++ [true])
          | _ => false)
      else canV rest refs)
    | _ => false)

def sliceEmpty (s : Slice) : Bool := s.bits.isEmpty && s.refs.isEmpty

mutual
def canonAt (env : Env) : Nat → Ty → Slice → Option Slice
  | 0, _, _ => none
  | fuel + 1, T, s =>
    if s.isLibrary then none
    else if canonb env canonFuel T then restOf (decode env (fuel + 1) T s)
    else
    match T with
    | .ptr _ t => canonAt env fuel t s
    | .struct fs => canonFieldsAt env fuel fs s
    | .sum cs =>
      if cs.namesDistinct && cs.tagsOk then
        (match selectCtor cs s.bits with
        | .ok (_, t, len) => canonAt env fuel t { s with bits := s.bits.drop len }
        | _ => none)
      else none
    | .named id =>
      (match env id with
      | some t => canonAt env fuel t s
      | none => none)
    | .maybe t =>
      (match s.readBit with
      | .ok (ex, s1) => if ex then canonAt env fuel t s1 else some s1
      | _ => none)
    | .eitherRef t =>
      (match s.readBit with
      | .ok (right, s1) =>
        if right then
          (match s1.nextRef with
          | .ok (c, s2) =>
            if c.ty == 0 && c.mask == 0 && (match canonAt env fuel t (Slice.ofCell c) with
              | some r => sliceEmpty r
              | none => false) then some s2 else none
          | _ => none)
        else canonAt env fuel t s1
      | _ => none)
    | .refT t =>
      (match s.nextRef with
      | .ok (c, s1) =>
        (match t with
        | .cell => if c.ty != tyPruned then some s1 else none
        | _ =>
          if c.ty == 0 && c.mask == 0 && (match canonAt env fuel t (Slice.ofCell c) with
            | some r => sliceEmpty r
            | none => false) then some s1 else none)
      | _ => none)
    | .prim p => canonPrim p s
    | .dictE k t =>
      (match s.readBit, canonKey k with
      | .ok (ne, s1), some n =>
        if ne then
          (match s1.nextRef with
          | .ok (root, s2) =>
            if dictCanonAt (fun bits refs => match canonAt env fuel t { bits := bits, refs := refs } with
                | some r => sliceEmpty r
                | none => false) n (n + 1) n root [] then some s2 else none
          | _ => none)
        else some s1
      | _, _ => none)
    | _ => none

def canonFieldAt (env : Env) : Nat → FieldTag → Ty → Slice → Option Slice
  | 0, _, _, _ => none
  | fuel + 1, ft, T, s =>
    if s.isLibrary then none
    else
    match ft with
    | .plain =>
      (match T with
      | .magic (some tg) => if tg.canon then restOf (decodeMagic (some tg) s) else none
      | .magic none => none
      | _ => canonAt env fuel T s)
    | .ref =>
      (match s.nextRef with
      | .ok (c, s1) =>
        (match T with
        | .magic _ => none
        | .cell => if c.ty != tyPruned then some s1 else none
        | _ =>
          if c.ty == 0 && c.mask == 0 && (match canonAt env fuel T (Slice.ofCell c) with
            | some r => sliceEmpty r
            | none => false) then some s1 else none)
      | _ => none)
    | _ => none

def canonFieldsAt (env : Env) : Nat → Fields → Slice → Option Slice
  | 0, _, _ => none
  | _ + 1, .nil, s => some s
  | fuel + 1, .cons _ ft t rest, s =>
    (match canonFieldAt env fuel ft t s with
    | some r =>
      if rest.isNil then some r
      else if ngFieldb env ft t then canonFieldsAt env fuel rest r else none
    | none => none)
end

/-- **canonicalCell**: an ordinary level-0 cell that is a canonical serialisation of a `T` and nothing else -/
def canonicalCell (env : Env) (fuel : Nat) (T : Ty) (c : Cell) : Bool :=
  c.ty == 0 && c.mask == 0 &&
  (match canonAt env fuel T (Slice.ofCell c) with
  | some r => sliceEmpty r
  | none => false)

end Tongo.Tlb
