import TongoModel.Tlb.Wf
/-! # Dictionaries whose entries are not listed in ascending key order

`inDom` asks a dictionary value to list its keys in strictly ascending order of their encoded bits — the order in which
the decoder returns them — so that `decode (encode v) = v` can hold literally. A Go `Hashmap` filled by `Put` lists the
keys in the order of its key type's `Compare` (numeric: for signed keys NOT the bit order) or in any order when built
from slices. `dictDomU` is the domain without the ordering requirement (pairwise distinct keys instead) and
`sortDictVal` the value the decoder returns for it: the same entries in ascending key-bit order (C05's `sortKV`). -/
namespace Tongo.Tlb
open Tongo

/-- (key bits, (key, value)) triples of a dictionary value -/
def zip3 : List Hashmap.Key → List Val → List Val → List (Hashmap.Key × (Val × Val))
  | kb :: kbs, k :: ks, v :: vs => (kb, (k, v)) :: zip3 kbs ks vs
  | _, _, _ => []

/-- the entries in ascending order of the encoded key bits (C05's stable `sortKV` on the key bits) -/
def sortDictVal (kenc : Val → Outcome Builder) (v : Val) : Option Val :=
  match dictParts v with
  | some (ks, vs) =>
    (match mapMOutcome (fun kv => (kenc kv).bind fun kb => .ok kb.bits) ks with
    | .ok kbits =>
      let l := Hashmap.sortKV (zip3 kbits ks vs)
      some (dictVal (l.map (·.2.1)) (l.map (·.2.2)))
    | _ => none)
  | none => none

/-- `dictDom` without the ordering requirement: the encoded keys are pairwise distinct -/
def dictDomU (kw : Option Nat) (kin vin : Val → Bool) (kenc venc : Val → Outcome Builder) (v : Val) : Bool :=
  match dictParts v, kw with
  | some (ks, vs), some n =>
    ks.length == vs.length && dictShapeOk v &&
    ks.all kin && vs.all vin &&
    ks.all (fun kv => match kenc kv with
      | .ok kb => kb.refs.isEmpty
      | _ => false) &&
    (match mapMOutcome (fun kv => (kenc kv).bind fun kb => .ok kb.bits) ks with
      | .ok kbits => kbits.all (·.length == n) && decide kbits.Nodup
      | _ => false) &&
    vs.all (fun x => match venc x with
      | .ok vb => vb.bits.length + n + 2 + Hashmap.minBitsRequired n ≤ 1023 && vb.refs.length ≤ 4
      | _ => false)
  | _, _ => false

/-- the domain of a `HashmapE k t` value at one fuel level, any listing order -/
def inDomDictU (env : Env) (fuel : Nat) (k t : Ty) (v : Val) : Bool :=
  dictDomU (keyWidth k) (fun x => inDom env fuel k x) (fun x => inDom env fuel t x)
    (fun x => encode env fuel k x Builder.empty) (fun x => encode env fuel t x Builder.empty) v

end Tongo.Tlb
