import TongoModel.Tlb.Ty
/-! Model of tlb/tags.go: `ParseTag` (constructor tags `name$0101`, `name#0f`, `#_`, `$_`) and `parseTag` (struct
field tags `^`, `maybe`, `maybe^`, deprecated `…bits` / `…bytes`), on the tag STRING. Translator X1 applies the real
functions to every tag of the code base; these models are compared with the real functions on all those strings (and
damaged variants) on every run, so that the `Tag` / `FieldTag` values inside the regenerated descriptors are what
the Go code computes. -/
namespace Tongo.Tlb.Tags
open Tongo.Tlb

def digitVal (base : Nat) (c : Char) : Option Nat :=
  let d : Option Nat :=
    if '0' ≤ c ∧ c ≤ '9' then some (c.toNat - '0'.toNat)
    else if 'a' ≤ c ∧ c ≤ 'z' then some (c.toNat - 'a'.toNat + 10)
    else if 'A' ≤ c ∧ c ≤ 'Z' then some (c.toNat - 'A'.toNat + 10)
    else none
  d.bind fun x => if x < base then some x else none

/-- strconv.ParseUint(s, base, 32) for base 2 / 16 (no prefixes, no underscores): `none` on syntax or range error -/
def parseUint32 (base : Nat) (cs : List Char) : Option Nat :=
  if cs.isEmpty then none
  else
    let r := cs.foldl (fun acc c => acc.bind fun a => (digitVal base c).bind fun d =>
      let v := a * base + d
      if v < 2 ^ 64 then some v else none) (some 0)
    r.bind fun v => if v < 2 ^ 32 then some v else none

/-- ParseTag: the first `$` or `#` separates the name from the value -/
def parseTag (s : String) : Option Tag :=
  let cs := s.toList
  match cs.dropWhile (fun c => c != '$' && c != '#') with
  | [] => none
  | sep :: rest =>
    if rest.isEmpty then none
    else if rest == ['_'] then some ⟨0, 0⟩
    else
      let base := if sep == '$' then 2 else 16
      let len := if sep == '$' then rest.length else rest.length * 4
      (parseUint32 base rest).map fun v => ⟨len, v⟩

def startsWith (cs pre : List Char) : Bool := cs.take pre.length == pre

def containsSub (cs sub : List Char) : Bool :=
  (List.range (cs.length + 1)).any fun i => (cs.drop i).take sub.length == sub

def trimSpace (cs : List Char) : List Char :=
  let isSp := fun (c : Char) => c == ' ' || c == '\t' || c == '\n' || c == '\r'
  ((cs.dropWhile isSp).reverse.dropWhile isSp).reverse

/-- parseTag (unexported): class of a struct field tag, in the order the codec tests the flags -/
def fieldTag (s : String) : FieldTag :=
  let cs := s.toList
  if cs.isEmpty then .plain
  else
    let (mr, cs) := if startsWith cs "maybe^".toList then (true, cs.drop 6) else (false, cs)
    let (m, cs) := if startsWith cs "maybe".toList then (true, cs.drop 5) else (false, cs)
    let cls (r : Bool) : FieldTag := if mr then .maybeRef else if m then .maybe else if r then .ref else .plain
    match cs with
    | [] => cls false
    | c :: rest =>
      let (r, cs) := if c == '^' then (true, trimSpace rest) else (false, c :: rest)
      if cs.isEmpty then cls r
      else if cs.contains '#' || cs.contains '$' then cls r
      else if containsSub cs "bits".toList || containsSub cs "bytes".toList then .bad
      else cls r

end Tongo.Tlb.Tags
