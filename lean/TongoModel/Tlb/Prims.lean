import TongoModel.Tlb.Ty
import TongoModel.Hashmap
/-! One hand model per hand-written codec without type parameters (`Prim`). Each mirrors the Go MarshalTLB /
UnmarshalTLB pair statement by statement (same order of checks and error points). Value shapes follow the generic
structural dump of the Go value (harness/h/tlbval.go). -/
namespace Tongo.Tlb
open Tongo Tongo.Bits

/-- big.Int.Bytes(): big-endian magnitude without leading zero bytes -/
def natBytesLen (v : Nat) : Nat := (Builder.bitLen v + 7) / 8

/-! ### dictionaries: the glue between values and C05's model (`Tongo.Hashmap`) -/

/-- FixedSize() of a dictionary key type -/
def keyWidth : Ty → Option Nat
  | .uint n => some n
  | .int n => some n
  | .bytes m => some (m * 8)
  | .prim (.bigUint n) => some n
  | .prim (.bigInt n) => some n
  | .prim .addrWc => some 288
  | _ => none

/-- the dump of a dictionary: `()` when empty, otherwise `(keys|values)` (two parallel lists, as in Go) -/
def dictParts (v : Val) : Option (List Val × List Val) :=
  match v with
  | .nil => some ([], [])
  | .cons ks (.cons vs .nil) => some (ks.toList, vs.toList)
  | _ => none

def dictVal (ks vs : List Val) : Val :=
  if ks.isEmpty then .nil else Val.list [Val.list ks, Val.list vs]

/-- pair keys and values; Go refuses fewer values than keys (sortByKeyBits) and ignores surplus values -/
def zipKV : List Hashmap.Key → List Val → Option (List (Hashmap.Key × Val))
  | [], _ => some []
  | _ :: _, [] => none
  | k :: ks, v :: vs => (zipKV ks vs).map fun r => (k, v) :: r

def mapMOutcome {α β} (f : α → Outcome β) : List α → Outcome (List β)
  | [] => .ok []
  | a :: as => do
    let b ← f a
    let bs ← mapMOutcome f as
    pure (b :: bs)

/-! ### wallet.PayloadHighload as a dictionary: message i ↦ key i (uint16), value `mode:uint8 message:^MessageRelaxed` -/
def hlItems : Nat → Val → Option (List Val × List Val)
  | _, .nil => some ([], [])
  | i, .cons (.cons (.cons (.cell c) .nil) (.cons (.int mode) .nil)) rest =>
    if 0 ≤ mode ∧ mode < 256 then
      (hlItems (i + 1) rest).map fun r => (.int i :: r.1, .cell (.mk 0 0 (Bits.natToBits 8 mode.toNat) [c]) :: r.2)
    else none
  | _, _ => none

/-- the dictionary value (`dictVal`) PayloadHighload.MarshalTLB hands to HashmapE[Uint16, Any] -/
def hlToDict (v : Val) : Option Val :=
  (hlItems 0 v).map fun r => dictVal r.1 r.2

/-- PayloadHighload.UnmarshalTLB: every value of the dictionary read back as (mode, ^message), in key order -/
def hlFromValues : List Val → Option Val
  | [] => some .nil
  | .cell (.mk _ _ bits refs) :: rest =>
    if bits.length < 8 then none
    else match refs with
      | [] => none
      | c :: _ =>
        (hlFromValues rest).map fun r =>
          .cons (.cons (.cons (.cell c) .nil) (.cons (.int (Bits.bitsToNat (bits.take 8))) .nil)) r
  | _ => none

namespace Prim

/-! ### VarUInteger n -/
def encVarUint (n : Nat) (v : Int) (b : Builder) : Outcome Builder := do
  let len := natBytesLen v.natAbs
  let b ← b.writeLimUint len (n - 1)
  b.writeBits (natToBits (len * 8) v.natAbs)

def decVarUint (n : Nat) (s : Slice) : Outcome (Int × Slice) := do
  let (ln, s) ← s.readLimUint (n - 1)
  s.readBigUint (ln * 8)

/-! ### Grams / SignedCoins (after the repair of the uint64→int64 conversion in Grams.MarshalTLB) -/
def encGrams (v : Int) (b : Builder) : Outcome Builder := encVarUint 16 (v % 2 ^ 64) b

/-- Grams.MarshalTLB as shipped: `big.NewInt(int64(g))` — values ≥ 2^63 become negative and are written by magnitude -/
def encGramsOrig (v : Int) (b : Builder) : Outcome Builder :=
  let u := v % 2 ^ 64
  encVarUint 16 (if u ≥ 2 ^ 63 then u - 2 ^ 64 else u) b

def readBytesBE : Nat → Nat → Slice → Outcome (Nat × Slice)
  | 0, acc, s => .ok (acc, s)
  | k + 1, acc, s => do
    let (x, s) ← s.readUint 8
    readBytesBE k ((x + acc * 256) % 2 ^ 64) s

def decGrams (s : Slice) : Outcome (Int × Slice) := do
  let (ln, s) ← s.readLimUint 15
  if ln > 8 then .err "grams overflow"
  else do
    let (a, s) ← readBytesBE ln 0 s
    pure ((a : Int), s)

def encSignedCoins (v : Int) (b : Builder) : Outcome Builder := do
  let b ← b.writeBit (decide (v < 0))
  -- `g = -g` in int64 (−2^63 stays), then big.NewInt(int64(g)) written by magnitude
  encVarUint 16 v.natAbs b

def decSignedCoins (s : Slice) : Outcome (Int × Slice) := do
  let (neg, s) ← s.readBit
  let (ln, s) ← s.readLimUint 15
  if ln > 8 then .err "grams overflow"
  else do
    let (a, s) ← readBytesBE ln 0 s
    if a > 2 ^ 63 then .err "grams overflow"
    else
      let u : Nat := if neg then (2 ^ 64 - a) % 2 ^ 64 else a
      let i : Int := if u ≥ 2 ^ 63 then (u : Int) - 2 ^ 64 else u
      pure (i, s)

/-! ### SnakeData: what does not fit goes into a chain of first references -/
def encSnakeAux : Nat → List Bool → Builder → Outcome Builder
  | 0, _, _ => .err "fuel"
  | fuel + 1, bs, b =>
    let avail := cellBits - b.bits.length
    if avail < bs.length then do
      let b ← b.writeBits (bs.take avail)
      let child ← encSnakeAux fuel (bs.drop avail) Builder.empty
      b.addRef child.toCell
    else b.writeBits bs

def encSnake (bs : List Bool) (b : Builder) : Outcome Builder := encSnakeAux (bs.length + 2) bs b

/-- the bits of a snake stored in cell `c`: remaining bits, then (if there is a ref) the snake in the first ref.
Recursion is on the tree; `fuel` only guards the model. -/
def decSnakeCell : Nat → Cell → Outcome (List Bool)
  | 0, _ => .err "fuel"
  | fuel + 1, .mk ty _ bits refs =>
    if ty == tyLibrary then .err "library cell decoding is not configured properly"
    else match refs with
      | [] => .ok bits
      | r :: _ => do
        let rest ← decSnakeCell fuel r
        pure (bits ++ rest)

def decSnake (s : Slice) : Outcome (List Bool × Slice) :=
  match s.refs with
  | [] => .ok (s.bits, { s with bits := [] })
  | r :: rest => do
    let tail ← decSnakeCell (cellDepth r + 1) r
    pure (s.bits ++ tail, { s with bits := [], refs := rest })

/-! ### UTF-8 validity (utf8.Valid) for tlb.Text -/
def utf8Valid : List UInt8 → Bool
  | [] => true
  | b0 :: rest =>
    let x := b0.toNat
    if x < 0x80 then utf8Valid rest
    else if x < 0xC2 then false
    else if x < 0xE0 then
      match rest with
      | b1 :: r => 0x80 ≤ b1.toNat && b1.toNat ≤ 0xBF && utf8Valid r
      | _ => false
    else if x < 0xF0 then
      match rest with
      | b1 :: b2 :: r =>
        let lo := if x == 0xE0 then 0xA0 else 0x80
        let hi := if x == 0xED then 0x9F else 0xBF
        lo ≤ b1.toNat && b1.toNat ≤ hi && 0x80 ≤ b2.toNat && b2.toNat ≤ 0xBF && utf8Valid r
      | _ => false
    else if x < 0xF5 then
      match rest with
      | b1 :: b2 :: b3 :: r =>
        let lo := if x == 0xF0 then 0x90 else 0x80
        let hi := if x == 0xF4 then 0x8F else 0xBF
        lo ≤ b1.toNat && b1.toNat ≤ hi && 0x80 ≤ b2.toNat && b2.toNat ≤ 0xBF && 0x80 ≤ b3.toNat && b3.toNat ≤ 0xBF
          && utf8Valid r
      | _ => false
    else false

/-! ### Anycast / MsgAddress -/
def encAnycast (v : Val) (b : Builder) : Outcome Builder :=
  match v with
  | .cons (.int depth) (.cons (.int pfx) .nil) => do
    let b ← b.writeLimUint depth.toNat 30
    b.writeUint pfx.toNat depth.toNat
  | _ => .err "bad value"

def decAnycast (s : Slice) : Outcome (Val × Slice) := do
  let (depth, s) ← s.readLimUint 30
  if depth < 1 then .err "invalid anycast depth"
  else do
    let (pfx, s) ← s.readUint depth
    pure (Val.list [.int depth, .int (pfx % 2 ^ 32)], s)

def encMaybeAnycast (v : Val) (b : Builder) : Outcome Builder :=
  match v with
  | .none => b.writeBit false
  | .cons x .nil => do
    let b ← b.writeBit true
    encAnycast x b
  | _ => .err "bad value"

def decMaybeAnycast (s : Slice) : Outcome (Val × Slice) := do
  let (ex, s) ← s.readBit
  if ex then do
    let (a, s) ← decAnycast s
    pure (Val.some a, s)
  else pure (Val.none, s)

def encMsgAddress (v : Val) (b : Builder) : Outcome Builder :=
  match v with
  | .cons (.sym "AddrNone") (.cons _ .nil) => b.writeUint 0 2
  | .cons (.sym "AddrExtern") (.cons p .nil) =>
    match p with
    | .cons (.bits bs) .nil => do
      let b ← b.writeUint 1 2
      if bs.length > 511 then .err "external address is too long"
      else do
        let b ← b.writeUint bs.length 9
        b.writeBits bs
    | .none => do
      -- a nil AddrExtern: an error after the tag has been written (after the `fix:`; before it a panic)
      let _ ← b.writeUint 1 2
      .err "external address is not set"
    | _ => .err "bad value"
  | .cons (.sym "AddrStd") (.cons (.cons ac (.cons (.int wc) (.cons (.bytes addr) .nil))) .nil) => do
    let b ← b.writeUint 2 2
    let b ← encMaybeAnycast ac b
    let b ← b.writeInt wc 8
    b.writeBytes addr
  | .cons (.sym "AddrVar") (.cons p .nil) =>
    match p with
    | .cons (.cons ac (.cons (.int len) (.cons (.int wc) (.cons (.bits bs) .nil)))) .nil => do
      let b ← b.writeUint 3 2
      let b ← encMaybeAnycast ac b
      let b ← b.writeUint len.toNat 9
      let b ← b.writeInt wc 32
      b.writeBits bs
    | .none => do
      let _ ← b.writeUint 3 2
      .err "variable-length address is not set"
    | _ => .err "bad value"
  | .cons (.sym _) (.cons _ .nil) => .err "invalid tag"
  | _ => .err "bad value"

def decMsgAddress (s : Slice) : Outcome (Val × Slice) := do
  let (t, s) ← s.readUint 2
  if t = 0 then pure (Val.ctor "AddrNone" .nil, s)
  else if t = 1 then do
    let (ln, s) ← s.readUint 9
    let (bs, s) ← s.readBits ln
    pure (Val.ctor "AddrExtern" (Val.some (.bits bs)), s)
  else if t = 2 then do
    let (ac, s) ← decMaybeAnycast s
    let (wc, s) ← s.readInt 8
    let (addr, s) ← s.readBytes 32
    pure (Val.ctor "AddrStd" (Val.list [ac, .int wc, .bytes addr]), s)
  else do
    let (ac, s) ← decMaybeAnycast s
    let (ln, s) ← s.readUint 9
    let (wc, s) ← s.readInt 32
    let (bs, s) ← s.readBits ln
    pure (Val.ctor "AddrVar" (Val.some (Val.list [ac, .int ln, .int wc, .bits bs])), s)

/-! ### small enumerations stored as Go strings (dumped as their bytes) -/
/-- the bytes of "uninit" -/
def s_uninit : List UInt8 := [117, 110, 105, 110, 105, 116]
/-- the bytes of "frozen" -/
def s_frozen : List UInt8 := [102, 114, 111, 122, 101, 110]
/-- the bytes of "active" -/
def s_active : List UInt8 := [97, 99, 116, 105, 118, 101]
/-- the bytes of "nonexist" -/
def s_nonexist : List UInt8 := [110, 111, 110, 101, 120, 105, 115, 116]
/-- the bytes of "acst_unchanged" -/
def s_acst_unchanged : List UInt8 := [97, 99, 115, 116, 95, 117, 110, 99, 104, 97, 110, 103, 101, 100]
/-- the bytes of "acst_frozen" -/
def s_acst_frozen : List UInt8 := [97, 99, 115, 116, 95, 102, 114, 111, 122, 101, 110]
/-- the bytes of "acst_deleted" -/
def s_acst_deleted : List UInt8 := [97, 99, 115, 116, 95, 100, 101, 108, 101, 116, 101, 100]
/-- the bytes of "cskip_no_state" -/
def s_cskip_no_state : List UInt8 := [99, 115, 107, 105, 112, 95, 110, 111, 95, 115, 116, 97, 116, 101]
/-- the bytes of "cskip_bad_state" -/
def s_cskip_bad_state : List UInt8 := [99, 115, 107, 105, 112, 95, 98, 97, 100, 95, 115, 116, 97, 116, 101]
/-- the bytes of "cskip_no_gas" -/
def s_cskip_no_gas : List UInt8 := [99, 115, 107, 105, 112, 95, 110, 111, 95, 103, 97, 115]
/-- the bytes of "cskip_suspended" -/
def s_cskip_suspended : List UInt8 := [99, 115, 107, 105, 112, 95, 115, 117, 115, 112, 101, 110, 100, 101, 100]

def encAccountStatus (bs : List UInt8) (b : Builder) : Outcome Builder :=
  if bs = s_uninit then b.writeUint 0 2
  else if bs = s_frozen then b.writeUint 1 2
  else if bs = s_active then b.writeUint 2 2
  else if bs = s_nonexist then b.writeUint 3 2
  else .ok b

def decAccountStatus (s : Slice) : Outcome (Val × Slice) := do
  let (t, s) ← s.readUint 2
  let name := if t = 0 then s_uninit else if t = 1 then s_frozen else if t = 2 then s_active else s_nonexist
  pure (.bytes name, s)

def encAccStatusChange (bs : List UInt8) (b : Builder) : Outcome Builder :=
  if bs = s_acst_unchanged then b.writeBit false
  else do
    let b ← b.writeBit true
    if bs = s_acst_deleted then b.writeBit true else b.writeBit false

def decAccStatusChange (s : Slice) : Outcome (Val × Slice) := do
  let (f, s) ← s.readBit
  if f then do
    let (d, s) ← s.readBit
    pure (.bytes (if d then s_acst_deleted else s_acst_frozen), s)
  else pure (.bytes (s_acst_unchanged), s)

def encComputeSkipReason (bs : List UInt8) (b : Builder) : Outcome Builder :=
  if bs = s_cskip_no_state then b.writeUint 0 2
  else if bs = s_cskip_bad_state then b.writeUint 1 2
  else if bs = s_cskip_no_gas then b.writeUint 2 2
  else if bs = s_cskip_suspended then do
    let b ← b.writeUint 3 2
    b.writeUint 0 1
  else .ok b

def decComputeSkipReason (s : Slice) : Outcome (Val × Slice) := do
  let (t, s) ← s.readUint 2
  if t = 0 then pure (.bytes (s_cskip_no_state), s)
  else if t = 1 then pure (.bytes (s_cskip_bad_state), s)
  else if t = 2 then pure (.bytes (s_cskip_no_gas), s)
  else do
    let (nb, s) ← s.readUint 1
    if nb = 0 then pure (.bytes (s_cskip_suspended), s) else .err "unknown ComputeSkipReason"

/-! ### VmCellSlice -/
def cellBitSize : Cell → Nat | .mk _ _ bs _ => bs.length
def cellRefsSize : Cell → Nat | .mk _ _ _ rs => rs.length

def encVmCellSlice (v : Val) (b : Builder) : Outcome Builder :=
  match v with
  | .cons cp (.cons (.int stB) (.cons (.int endB) (.cons (.int stR) (.cons (.int endR) .nil)))) =>
    if stB > endB then .err "invalid StBits and EndBits for CellSlice"
    else if stR > endR then .err "invalid StRef and EndRef for CellSlice"
    else match cp with
      | .cons (.cell c) .nil =>
        if endB > cellBitSize c then .err "EndBits > Cell bit len"
        else if endR > cellRefsSize c then .err "EndRef > Cell ref qty"
        else do
          let b ← b.addRef c
          let b ← b.writeUint stB.toNat 10
          let b ← b.writeUint endB.toNat 10
          let b ← b.writeLimUint stR.toNat 4
          b.writeLimUint endR.toNat 4
      | .none => .err "cell slice without a cell"
      | _ => .err "bad value"
  | _ => .err "bad value"

def decVmCellSlice (s : Slice) : Outcome (Val × Slice) := do
  let (c, s) ← s.nextRef
  let (stB, s) ← s.readUint 10
  let (endB, s) ← s.readUint 10
  if stB > endB then .err "invalid StBits and EndBits for CellSlice"
  else do
    let (stR, s) ← s.readLimUint 4
    let (endR, s) ← s.readLimUint 4
    if stR > endR then .err "invalid StRef and EndRef for CellSlice"
    else if endB > cellBitSize c then .err "EndBits > Cell bit len"
    else if endR > cellRefsSize c then .err "EndRef > Cell ref qty"
    else pure (Val.list [Val.some (.cell c), .int stB, .int endB, .int stR, .int endR], s)

/-! ### wallet.PayloadV1toV4: up to four (mode, ^msg) pairs -/
def encPayloadItems : Val → Builder → Outcome Builder
  | .nil, b => .ok b
  | .cons (.cons mp (.cons (.int mode) .nil)) rest, b =>
    match mp with
    | .cons (.cell c) .nil => do
      let b ← b.writeUint mode.toNat 8
      let b ← b.addRef c
      encPayloadItems rest b
    | .none => do
      -- AddRef(nil): the nil pointer is stored in the first free slot; a later AddRef reuses the slot. Modelled as
      -- an error of the model's domain (never generated).
      .err "bad value"
    | _ => .err "bad value"
  | _, _ => .err "bad value"

def valLen : Val → Nat
  | .cons _ t => valLen t + 1
  | _ => 0

def encPayloadV1toV4 (v : Val) (b : Builder) : Outcome Builder :=
  if valLen v > 4 then .err "WalletPayloadV1toV4 supports only up to 4 messages" else encPayloadItems v b

def decPayloadAux : Nat → Slice → List Val → Outcome (Val × Slice)
  | 0, _, _ => .err "fuel"
  | fuel + 1, s, acc =>
    match s.refs with
    | [] => .ok (Val.list acc.reverse, s)
    | c :: rest => do
      let (mode, s') ← ({ s with refs := rest } : Slice).readUint 8
      decPayloadAux fuel s' (Val.list [Val.some (.cell c), .int mode] :: acc)

def decPayloadV1toV4 (s : Slice) : Outcome (Val × Slice) := decPayloadAux (s.refs.length + 1) s []

/-! ### wallet.W5Actions: out_list of send-message actions, newest first in the Go slice -/
def w5Magic : Nat := 0x0ec3c86d

def encW5Actions : Val → Builder → Outcome Builder
  | .nil, b => .ok b
  | .cons (.cons _ (.cons (.int mode) (.cons mp .nil))) rest, b => do
    let b ← b.writeUint w5Magic 32
    let b ← b.writeUint mode.toNat 8
    let child ← encW5Actions rest Builder.empty
    let b ← b.addRef child.toCell
    match mp with
    | .cons (.cell c) .nil => b.addRef c
    | _ => .err "bad value"
  | _, _ => .err "bad value"

/-- one W5SendMessageAction decoded from the current cell by the reflection decoder: Magic #0ec3c86d, Mode uint8,
Msg *boc.Cell `^` -/
def decW5Action (s : Slice) : Outcome (Val × Slice) := do
  -- Magic.ValidateTag: a failed ReadUint yields 0, which differs from the magic
  let (y, s1) ← match s.readUint 32 with
    | .ok r => Outcome.ok r
    | _ => Outcome.ok (0, s)
  if y ≠ w5Magic then .err "magic prefix not found"
  else do
    let (mode, s2) ← s1.readUint 8
    let (c, s3) ← s2.nextRef
    match c with
    | .mk ty _ _ _ =>
      if ty == tyLibrary then .err "library cell as a ref is not implemented"
      else if ty == tyPruned then pure (Val.list [.magic, .int mode, .none], s3)
      else pure (Val.list [.magic, .int mode, Val.some (.cell c)], s3)

def decW5Aux : Nat → Slice → List Val → Outcome (Val × Slice)
  | 0, _, _ => .err "fuel"
  | fuel + 1, s, acc =>
    if s.bits.length = 0 then .ok (Val.list acc.reverse, s)
    else if s.bits.length = 40 then do
      let (next, s1) ← s.nextRef
      if s1.isLibrary then .err "library cell decoding is not configured properly"
      else do
        let (a, _) ← decW5Action s1
        decW5Aux fuel (Slice.ofCell next) (a :: acc)
    else .err "unexpected bits available"

def decW5Actions (s : Slice) : Outcome (Val × Slice) :=
  decW5Aux (cellDepth s.toCell + 2) s []

/-! ### dispatch -/
def enc (p : Prim) (v : Val) (b : Builder) : Outcome Builder :=
  match p, v with
  | .unary, .int n => b.writeUnary n.toNat
  | .any, .cell (.mk _ _ bits refs) => do
    -- WriteBitString(RawBitString) then every remaining ref
    let b ← b.writeBits bits
    refs.foldlM (fun b r => b.addRef r) b
  | .varUint n, .int i => encVarUint n i b
  | .bigUint n, .int i => b.writeBigUint i n
  | .bigInt n, .int i => b.writeBigInt i n
  | .grams, .int i => encGrams i b
  | .signedCoins, .int i => encSignedCoins i b
  | .snake, .bits bs => encSnake bs b
  | .bytesSnake, .bytes bs => encSnake (bytesToBits bs) b
  | .text, .bytes bs => encSnake (bytesToBits bs) b
  | .fixedText, .bytes bs => do
    let b ← b.writeUint bs.length 8
    b.writeBytes bs
  | .anycast, v => encAnycast v b
  | .msgAddress, v => encMsgAddress v b
  | .accountStatus, .bytes bs => encAccountStatus bs b
  | .accStatusChange, .bytes bs => encAccStatusChange bs b
  | .computeSkipReason, .bytes bs => encComputeSkipReason bs b
  | .vmCellSlice, v => encVmCellSlice v b
  | .payloadV1toV4, v => encPayloadV1toV4 v b
  | .w5Actions, v => encW5Actions v b
  | .addrWc, .cons (.int wc) (.cons (.bytes addr) .nil) => do
    let b ← b.writeInt wc 32
    b.writeBytes addr
  | _, _ => .err "bad value"

def dec (p : Prim) (s : Slice) : Outcome (Val × Slice) :=
  match p with
  | .unary => do
    let (n, s) ← s.readUnary
    pure (.int n, s)
  | .any => .ok (.cell (.mk 0 0 s.bits s.refs), s)     -- CopyRemaining: cursors are restored
  | .varUint n => do
    let (v, s) ← decVarUint n s
    pure (.int v, s)
  | .bigUint n => do
    let (v, s) ← s.readBigUint n
    pure (.int v, s)
  | .bigInt n => do
    let (v, s) ← s.readBigInt n
    pure (.int v, s)
  | .grams => do
    let (v, s) ← decGrams s
    pure (.int v, s)
  | .signedCoins => do
    let (v, s) ← decSignedCoins s
    pure (.int v, s)
  | .snake => do
    let (bs, s) ← decSnake s
    pure (.bits bs, s)
  | .bytesSnake => do
    let (bs, s) ← decSnake s
    if bs.length % 8 ≠ 0 then .err "text data must be a multiple of 8 bits"
    else pure (.bytes (bytesOfBits (bs.length / 8) bs), s)
  | .text => do
    let (bs, s) ← decSnake s
    if bs.length % 8 ≠ 0 then .err "text data must be a multiple of 8 bits"
    else
      let bytes := bytesOfBits (bs.length / 8) bs
      if utf8Valid bytes then pure (.bytes bytes, s) else .err "invalid unicode characters in text"
  | .fixedText => do
    let (l, s) ← s.readUint 8
    let (bs, s) ← s.readBytes l
    pure (.bytes bs, s)
  | .anycast => decAnycast s
  | .msgAddress => decMsgAddress s
  | .accountStatus => decAccountStatus s
  | .accStatusChange => decAccStatusChange s
  | .computeSkipReason => decComputeSkipReason s
  | .vmCellSlice => decVmCellSlice s
  | .payloadV1toV4 => decPayloadV1toV4 s
  | .w5Actions => decW5Actions s
  | .addrWc => do
    let (wc, s) ← s.readInt 32
    let (addr, s) ← s.readBytes 32
    -- `addr.Workchain = int8(wc)`
    let w8 := (wc % 256 + 256) % 256
    pure (Val.list [.int (if w8 ≥ 128 then w8 - 256 else w8), .bytes addr], s)

/-- zero value of the Go type -/
def zero (p : Prim) : Val :=
  match p with
  | .unary | .varUint _ | .bigUint _ | .bigInt _ | .grams | .signedCoins => .int 0
  | .any => .cell (.mk 0 0 [] [])
  | .snake => .bits []
  | .bytesSnake | .text | .fixedText | .accountStatus | .accStatusChange | .computeSkipReason => .bytes []
  | .anycast => Val.list [.int 0, .int 0]
  | .msgAddress => Val.ctor "" .nil
  | .vmCellSlice => Val.list [.none, .int 0, .int 0, .int 0, .int 0]
  | .payloadV1toV4 | .w5Actions => .nil
  | .addrWc => Val.list [.int 0, .bytes (List.replicate 32 0)]

end Prim
end Tongo.Tlb
