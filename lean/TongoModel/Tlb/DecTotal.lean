import TongoModel.Tlb.Dec
/-! Termination data for the reflection-driven TL-B decoder model `Tongo.Tlb.decode` (agent tlb's `Tlb/Dec.lean`, not
modified): the Go decoder has no fuel — where the model answers `.err "fuel"` for EVERY fuel the Go code recurses
until the stack overflows (a fatal error, e.g. `tlb.HashMapAugExtraList[T]`). This module defines, additively,

* `Slice.weight`: everything a slice can still read (its bits, its references and the whole trees below them);
* `tdepth`: the nesting depth of a descriptor (how much fuel one pass over it takes, `named` not unfolded);
* `rk0`: the largest rank of a `named` type the decoder can enter from a descriptor WITHOUT having consumed a bit or a
  reference first (through pointers, plainly tagged struct fields, constructors with an empty tag);
* `prodb`: the decidable productivity check — every `named` body only re-enters, unguarded, types of smaller rank;
* `need`: the fuel that provably suffices, linear in the weight of the input.

The theorems are in TongoProofs/Lemmas/TlbDecTotal.lean and TongoProofs/C08.lean. -/
namespace Tongo.Tlb.Total
open Tongo Tongo.Tlb

mutual
def cellWeight : Cell → Nat
  | .mk _ _ bits refs => bits.length + refsWeight refs
def refsWeight : List Cell → Nat
  | [] => 0
  | c :: cs => 1 + cellWeight c + refsWeight cs
end

/-- bits left + one per reference left + everything below those references -/
def weight (s : Slice) : Nat := s.bits.length + refsWeight s.refs

mutual
def tdepth : Ty → Nat
  | .ptr _ t => 1 + tdepth t
  | .struct fs => 1 + fdepth fs
  | .sum cs => 1 + cdepth cs
  | .maybe t => 1 + tdepth t
  | .either l r => 1 + Nat.max (tdepth l) (tdepth r)
  | .eitherRef t => 1 + tdepth t
  | .refT t => 1 + tdepth t
  | .vmStack e => 2 + tdepth e
  -- the second-round constructors (agent tlb): dictionaries decode keys and values one level down, a reference chain
  -- re-enters itself only inside a referenced cell, the hand decoders call the component decoders listed in `aux`
  | .dictE k t => 2 + Nat.max (tdepth k) (tdepth t)
  | .dict k t => 2 + Nat.max (tdepth k) (tdepth t)
  | .dictAugE k t x => 2 + Nat.max (tdepth k) (Nat.max (tdepth t) (tdepth x))
  | .dictAug k t x => 2 + Nat.max (tdepth k) (Nat.max (tdepth t) (tdepth x))
  | .chain e => 2 + tdepth e
  | .binTree t => 2 + tdepth t
  | .highload => 6
  | .custom _ _ aux => 2 + tdepth aux
  | _ => 1
/-- decodeFields → decodeField → decode -/
def fdepth : Fields → Nat
  | .nil => 1
  | .cons _ _ t rest => 1 + Nat.max (1 + tdepth t) (fdepth rest)
def cdepth : Ctors → Nat
  | .nil => 0
  | .cons _ _ t rest => Nat.max (tdepth t) (cdepth rest)
end

mutual
def rk0 (rk : Nat → Nat) : Ty → Nat
  | .named id => rk id
  | .ptr _ t => rk0 rk t
  | .struct fs => rk0F rk fs
  | .sum cs => rk0C rk cs
  -- entered without anything consumed: the first element of a chain, the root extra of an empty HashmapAugE (after one
  -- bit: guarded), the components a hand decoder reads first
  | .chain e => rk0 rk e
  | .custom _ _ aux => rk0 rk aux
  | _ => 0
def rk0F (rk : Nat → Nat) : Fields → Nat
  | .nil => 0
  | .cons _ ft t rest =>
    Nat.max (match ft with
      | .plain => rk0 rk t
      | _ => 0) (rk0F rk rest)
def rk0C (rk : Nat → Nat) : Ctors → Nat
  | .nil => 0
  | .cons _ tg t rest =>
    Nat.max (match tg with
      | some tag => if tag.len = 0 then rk0 rk t else 0
      | none => 0) (rk0C rk rest)
end

def rkOf (rks : List Nat) (id : Nat) : Nat := rks.getD id 0

/-- productivity of a type environment given as a list, for the ranks `rks` -/
def prodFrom (rks : List Nat) : Nat → List Ty → Bool
  | _, [] => true
  | id, body :: rest => decide (rk0 (rkOf rks) body < rkOf rks id) && prodFrom rks (id + 1) rest

def prodb (l : List Ty) (rks : List Nat) : Bool := prodFrom rks 0 l

/-- ranks by iteration from all-zero: rank = 1 + the largest rank entered unguarded -/
def stepRanks (l : List Ty) (rks : List Nat) : List Nat := l.map fun body => rk0 (rkOf rks) body + 1

def computeRanks (l : List Ty) : Nat → List Nat
  | 0 => l.map fun _ => 0
  | k + 1 => stepRanks l (computeRanks l k)

def listMax : List Nat → Nat
  | [] => 0
  | x :: xs => Nat.max x (listMax xs)

/-- depth bound of the bodies of the environment -/
def envDepth (l : List Ty) : Nat := listMax (l.map tdepth)

structure Consts where
  /-- ≥ tdepth of every body -/
  D : Nat
  /-- > every rank -/
  R : Nat

def Consts.C (k : Consts) : Nat := (k.R + 2) * k.D + 2

def constsOf (l : List Ty) (rks : List Nat) : Consts := ⟨envDepth l, listMax rks + 1⟩

/-- fuel that suffices for `decode env · T s` -/
def need (k : Consts) (rk : Nat → Nat) (T : Ty) (s : Slice) : Nat := weight s * k.C + rk0 rk T * k.D + tdepth T
def needF (k : Consts) (rk : Nat → Nat) (fs : Fields) (s : Slice) : Nat := weight s * k.C + rk0F rk fs * k.D + fdepth fs
def needS (k : Consts) (e : Ty) (s : Slice) : Nat := weight s * k.C + tdepth e + 1

/-- the answer the model gives when its fuel runs out: in Go, unbounded recursion -/
def fuelOut {α} (o : Outcome α) : Bool :=
  match o with
  | .err e => e == "fuel"
  | _ => false

end Tongo.Tlb.Total
