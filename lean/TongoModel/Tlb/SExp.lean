import TongoModel.Tlb.Ty
import TongoModel.CellFmt
/-! Text form of `Val`, shared with the Go harness (harness/h/tlbval.go). No spaces (one protocol argument).

  val  := atom | '(' [val ('|' val)*] ')'
  atom := ['-']digits            integer
        | 'T' | 'F'              bool
        | 'x' hex*               bytes
        | 'b' [01]*              bit string
        | 'c' table              cell (canonical table, root = row 0; see CellFmt)
        | ':' name               symbol (constructor name, L/R)
        | '~'                    nil pointer / absent optional
        | '#'                    a tlb.Magic field (its stored number is not part of the value)
-/
namespace Tongo.Tlb.SExp
open Tongo Tongo.Tlb

/-- rows of the unfolded tree rooted at index `start` (pre-order: every ref index is larger than the row's own) -/
def flatten : Nat → Cell → Nat → List CellRow
  | 0, _, _ => []
  | fuel + 1, .mk ty mask bits refs, start =>
    let (rows, idxs, _) := refs.foldl (fun (acc : List CellRow × List Nat × Nat) r =>
      let (rows, idxs, next) := acc
      let sub := flatten fuel r next
      (rows ++ sub, idxs ++ [next], next + sub.length)) ([], [], start + 1)
    { ty := ty, mask := mask, bits := bits, refs := idxs } :: rows

def cellToString (c : Cell) : String :=
  let t := (flatten (cellDepth c + 1) c 0).toArray
  match CellFmt.canon t [0] with
  | some (t', _) => CellFmt.tableToString t'
  | none => "bad-table"

def cellOfString (s : String) : Option Cell := do
  let t ← CellFmt.parseTable s
  Table.root t

partial def toString : Val → String
  | .int i => if i < 0 then "-" ++ ToString.toString i.natAbs else ToString.toString i.natAbs
  | .bool b => if b then "T" else "F"
  | .bytes bs => "x" ++ Hex.encode bs
  | .bits bs => "b" ++ Bits.toBinString bs
  | .cell c => "c" ++ cellToString c
  | .sym s => ":" ++ s
  | .none => "~"
  | .magic => "#"
  | .nil => "()"
  | .cons h t => "(" ++ toString h ++ tail t
where tail : Val → String
  | .nil => ")"
  | .cons h t => "|" ++ toString h ++ tail t
  | v => "|." ++ toString v ++ ")"

def parseAtom (cs : List Char) : Option Val :=
  match cs with
  | [] => none
  | ['T'] => some (.bool true)
  | ['F'] => some (.bool false)
  | ['~'] => some .none
  | ['#'] => some .magic
  | 'x' :: rest => if rest.isEmpty then some (.bytes []) else (Hex.decode (String.ofList rest)).map .bytes
  | 'b' :: rest => (Bits.ofBinString? (String.ofList rest)).map .bits
  | 'c' :: rest => (cellOfString (String.ofList rest)).map .cell
  | ':' :: rest => some (.sym (String.ofList rest))
  | '-' :: rest => (String.ofList rest).toNat?.map fun n => .int (-(n : Int))
  | _ => (String.ofList cs).toNat?.map fun n => .int n

/-- recursive descent; returns the value and the unread rest -/
def parseVal : Nat → List Char → Option (Val × List Char)
  | 0, _ => none
  | fuel + 1, cs =>
    match cs with
    | '(' :: ')' :: rest => some (.nil, rest)
    | '(' :: rest => parseItems fuel rest
    | _ =>
      let atom := cs.takeWhile (fun c => c != '|' && c != ')' && c != '(')
      (parseAtom atom).map fun v => (v, cs.drop atom.length)
where parseItems : Nat → List Char → Option (Val × List Char)
  | 0, _ => none
  | fuel + 1, cs => do
    let (v, rest) ← parseVal fuel cs
    match rest with
    | ')' :: rest' => some (.cons v .nil, rest')
    | '|' :: rest' => do
      let (tl, rest'') ← parseItems fuel rest'
      some (.cons v tl, rest'')
    | _ => none

def parse (s : String) : Option Val :=
  let cs := s.toList
  match parseVal (cs.length + 1) cs with
  | some (v, []) => some v
  | _ => none

end Tongo.Tlb.SExp
