import TongoModel.Tlb.Wf
/-! # SPEC: the TL-B schema fragments of block.tlb (and of the wallet contracts) that tongo serialises, and what
they prescribe.

`block.tlb` is not part of the repository; the declarations below are a literal transcription of the official schema
(they are also quoted in the comments of tlb/messages.go, tlb/models.go, tlb/account.go). This transcription is part
of the trusted base and is kept short: every declaration carries the schema text it transcribes.

`SType` is a small TL-B schema language; `specChunk` is what a value serialises to according to the schema — the bits
and the references it appends to the current cell, with no notion of the Go code: big-endian `natToBits`, two's
complement `intToBits`, minimal-length `VarUInteger`, `#<= n` on `bitWidth n` bits, tags as written after `$` / `#`,
`Maybe` / `Either` flag bits, `^` = a new cell. Where the schema leaves a choice (Either left/right) the value carries
it. Values are the same dumps as everywhere else (`Val`), which is why two nodes (`goPtr`, Go constructor names)
only adapt the SHAPE of the Go value and emit nothing. -/
namespace Tongo.Tlb.Spec
open Tongo Tongo.Tlb Tongo.Bits

abbrev Chunk := List Bool × List Cell

def Chunk.app (a b : Chunk) : Chunk := (a.1 ++ b.1, a.2 ++ b.2)

/-- number of bits of `#<= n`: the bit length of `n` -/
def bitWidth (n : Nat) : Nat := if n = 0 then 0 else Nat.log2 n + 1

/-- minimal number of bytes that hold `v` -/
def minBytes (v : Nat) : Nat := (bitWidth v + 7) / 8

/-- a constructor tag as written in the schema: `$0101` (binary) or `#0ec3c86d` (hexadecimal, 4 bits per digit) -/
def hexDigit (c : Char) : Nat :=
  if c.isDigit then c.toNat - 48 else if 'a' ≤ c ∧ c ≤ 'f' then c.toNat - 87 else 0
def tagBits (s : String) : List Bool :=
  match s.toList with
  | '$' :: rest => rest.map (· == '1')
  | '#' :: rest => rest.flatMap fun c => natToBits 4 (hexDigit c)
  | _ => []

mutual
inductive SType where
  | nat (n : Nat)                 -- `(## n)`, `uintN`
  | int (n : Nat)                 -- `intN`
  | bool                          -- `Bool`: bool_false$0 | bool_true$1
  | bits (n : Nat)                -- `bitsN`, the value given as n/8 bytes
  | natLeq (n : Nat)              -- `#<= n`
  | unary                         -- unary_zero$0 | unary_succ$1 x:(Unary ~n)
  | varUint (n : Nat)             -- var_uint$_ {n:#} len:(#< n) value:(uint (len * 8)) = VarUInteger n
  | maybe (t : SType)             -- nothing$0 | just$1 value:X
  | either (l r : SType)          -- left$0 value:X | right$1 value:Y
  | ref (t : SType)               -- ^T
  | cellRef                       -- ^Cell
  | any                           -- a type variable instantiated with `Any`: the rest of the cell, given as a cell
  | seq (fs : SFields)            -- the fields of one constructor, in schema order
  | sum (cs : SCtors)             -- the constructors of a type with their tags
  | tag (bits : List Bool)        -- the tag of a single-constructor type, where Go stores it as a Magic field
  | hashmapE (n : Nat) (k t : SType)
      -- hme_empty$0 {n:#} {X:Type} = HashmapE n X;  hme_root$1 {n:#} {X:Type} root:^(Hashmap n X) = HashmapE n X;
      -- `k`: the schema type of the n-bit key; the tree `Hashmap n X` is the dictionary model of C05
  | anycast                       -- anycast_info$_ depth:(#<= 30) { depth >= 1 } rewrite_pfx:(bits depth)
  | msgAddress                    -- MsgAddressInt / MsgAddressExt, four constructors (see `specMsgAddress`)
  | payloadList                   -- wallet v1..v4: up to four (mode:uint8, ^msg)
  | enum (cs : List (List UInt8 × List Bool))
      -- a type all of whose constructors are bare tags; Go holds the value as a string constant: (its bytes, tag)
  | outList                       -- OutList n of send-message actions (see `specOutList`)
  | highloadDict                  -- HashmapE 16 SendMessageAction over the message list (see `hlToDict`)
  | chainOf (t : SType)
      -- action_list_extended$_ action:X prev:^(…) : a non-empty list, every element but the first behind one more
      -- reference; the list ends where there is no further element
  | named (n : String)
  | goPtr (t : SType)             -- Go holds the value through a pointer: dump `(x)`; no TL-B meaning
inductive SFields where
  | nil
  | cons (name : String) (t : SType) (rest : SFields)
inductive SCtors where
  | nil
  | cons (tlbName : String) (tag : List Bool) (goName : String) (t : SType) (rest : SCtors)
end

abbrev SEnv := String → Option SType

/-- a field name reduced to lower-case letters and digits: `ValidUntil`, `valid_until` ↦ `validuntil` -/
def normName (s : String) : List Char := (s.toList.filter (· != '_')).map Char.toLower

/-- Go field names that legitimately differ from the name the schema gives to the field (normalised, Go ↦ schema) -/
def nameAliases : List (List Char × List Char) := [
  ("seqno".toList, "msgseqno".toList),          -- wallet.MessageV3/V4.Seqno      : msg_seqno
  ("rawmessages".toList, "messages".toList),    -- wallet.MessageV3/V4.RawMessages: the (mode, ^msg) list
  ("sign".toList, "signature".toList),          -- wallet.SignedMsgBody.Sign      : signature
  ("message".toList, "body".toList),            -- wallet.SignedMsgBody.Message   : the signed body
  ("stateinit".toList, []),                     -- tlb.AccountState.AccountActive.StateInit : `_:StateInit`
  ("vm".toList, []),                            -- tlb.TrComputePhase.TrPhaseComputeVm.Vm   : the anonymous `^[ … ]`
  ("msgs".toList, []),
  ("extendedactions".toList, "extended".toList),
  ("rawmessages".toList, "payload".toList),     -- wallet.HighloadV2Message.RawMessages  : payload
  ("boundedqueryid".toList, "queryid".toList),
  ("feeburnnom".toList, "feeburnnum".toList)]   -- tlb.BurningConfig.FeeBurnNom           : fee_burn_num  -- wallet.HighloadV2Message.BoundedQueryID: query_id -- wallet.MessageV5.*.ExtendedActions               : extended                          -- tlb.Transaction.Msgs                     : the anonymous `^[ … ]`

/-- the Go field at a position carries the name the schema gives to the field at that position -/
def nameAgrees (goName schemaName : String) : Bool :=
  let g := normName goName
  let n := normName schemaName
  g == n || nameAliases.any fun p => p.1 == g && p.2 == n


def SCtors.find : SCtors → String → Option (List Bool × SType)
  | .nil, _ => none
  | .cons _ tg g t rest, name => if g = name then some (tg, t) else rest.find name

/-! ### what the special nodes prescribe -/
def specAnycast (v : Val) : Option Chunk :=
  match v with
  | .cons (.int d) (.cons (.int p) .nil) =>
    if 1 ≤ d ∧ d ≤ 30 ∧ 0 ≤ p ∧ p < 2 ^ d.toNat then
      some (natToBits (bitWidth 30) d.toNat ++ natToBits d.toNat p.toNat, [])
    else none
  | _ => none

def specMaybeAnycast (v : Val) : Option Chunk :=
  match v with
  | .none => some ([false], [])
  | .cons a .nil => (specAnycast a).map fun c => (true :: c.1, c.2)
  | _ => none

/-- addr_none$00 = MsgAddressExt;
    addr_extern$01 len:(## 9) external_address:(bits len) = MsgAddressExt;
    addr_std$10 anycast:(Maybe Anycast) workchain_id:int8 address:bits256 = MsgAddressInt;
    addr_var$11 anycast:(Maybe Anycast) addr_len:(## 9) workchain_id:int32 address:(bits addr_len) = MsgAddressInt;
    _ _:MsgAddressInt = MsgAddress;  _ _:MsgAddressExt = MsgAddress;
The Go value names the constructor (AddrNone, AddrExtern, AddrStd, AddrVar); `len` of addr_extern is the length of
the bit string; `addr_len` of addr_var must equal the length of `address`. -/
def specMsgAddress (v : Val) : Option Chunk :=
  match v with
  | .cons (.sym "AddrNone") (.cons .nil .nil) => some (tagBits "$00", [])
  | .cons (.sym "AddrExtern") (.cons (.cons (.bits bs) .nil) .nil) =>
    if bs.length < 2 ^ 9 then some (tagBits "$01" ++ (natToBits 9 bs.length ++ bs), []) else none
  | .cons (.sym "AddrStd") (.cons (.cons a (.cons (.int wc) (.cons (.bytes addr) .nil))) .nil) =>
    if -(2 ^ 7) ≤ wc ∧ wc < 2 ^ 7 ∧ addr.length * 8 = 256 then
      (specMaybeAnycast a).map fun c => (tagBits "$10" ++ (c.1 ++ (intToBits 8 wc ++ bytesToBits addr)), c.2)
    else none
  | .cons (.sym "AddrVar")
      (.cons (.cons (.cons a (.cons (.int len) (.cons (.int wc) (.cons (.bits bs) .nil)))) .nil) .nil) =>
    if len = bs.length ∧ bs.length < 2 ^ 9 ∧ -(2 ^ 31) ≤ wc ∧ wc < 2 ^ 31 then
      (specMaybeAnycast a).map fun c =>
        (tagBits "$11" ++ (c.1 ++ (natToBits 9 bs.length ++ (intToBits 32 wc ++ bs))), c.2)
    else none
  | _ => none

def mapMOpt {α β} (f : α → Option β) : List α → Option (List β)
  | [] => some []
  | a :: as =>
    match f a, mapMOpt f as with
    | some b, some bs => some (b :: bs)
    | _, _ => none

/-- the value codec of a dictionary whose values serialise as the schema says -/
def specCodec (f : Val → Option Chunk) : Hashmap.Codec Val where
  enc v := match f v with
    | some c => .ok c
    | none => .err "no schema serialisation"
  dec _ _ := .err "encoder only"

/-- an n-bit dictionary key: the bits of its schema serialisation -/
def keyBits (n : Nat) (c : Option Chunk) : Option Hashmap.Key :=
  match c with
  | some c => if c.1.length = n ∧ c.2.isEmpty then some c.1 else none
  | none => none

/-- `HashmapE n X`, given how keys (`kf`) and values (`vf`) serialise -/
def specDict (n : Nat) (kf vf : Val → Option Chunk) (v : Val) : Option Chunk :=
  match dictParts v with
  | some (ks, vs) =>
    if ks.isEmpty then some ([false], [])                         -- hme_empty$0
    else (match mapMOpt (fun kv => keyBits n (kf kv)) ks with
      | some kbits => (match zipKV kbits vs with
        | some kvs =>
          -- hme_root$1 root:^(Hashmap n X): the tree of C05 (`Hashmap.marshal`: hm_edge / hmn_leaf / hmn_fork with the
          -- shortest labels) over the values as the schema serialises them
          (match Hashmap.marshal (specCodec vf) n kvs with
          | .ok root => some ([true], [root])
          | _ => none)
        | none => none)
      | none => none)
  | none => none

/-- out_list_empty$_ = OutList 0;
    out_list$_ {n:#} prev:^(OutList n) action:OutAction = OutList (n + 1);
    action_send_msg#0ec3c86d mode:(## 8) out_msg:^(MessageRelaxed Any) = OutAction;
The Go slice lists the newest action first: (Magic, Mode, Msg) with the message as a cell. -/
def specOutList : Val → Option Chunk
  | .nil => some ([], [])
  | .cons (.cons _ (.cons (.int mode) (.cons (.cons (.cell c) .nil) .nil))) rest =>
    if 0 ≤ mode ∧ mode < 256 then
      (specOutList rest).map fun prev =>
        (tagBits "#0ec3c86d" ++ natToBits 8 mode.toNat, [Cell.mk 0 0 prev.1 prev.2, c])
    else none
  | _ => none

/-- one step of a reference chain: the element `c`, then (unless it is the last) one more reference to the cell with
the serialisation `r` of the remaining elements -/
def chainStep (c : Option Chunk) (rest : Val) (r : Option Chunk) : Option Chunk :=
  match c with
  | some c => if rest.isNil then some c else r.map fun r => (c.1, c.2 ++ [Cell.mk 0 0 r.1 r.2])
  | none => none

def specPayloadItems : Val → Option Chunk
  | .nil => some ([], [])
  | .cons (.cons (.cons (.cell c) .nil) (.cons (.int mode) .nil)) rest =>
    if 0 ≤ mode ∧ mode < 256 then
      (specPayloadItems rest).map fun r => (natToBits 8 mode.toNat ++ r.1, c :: r.2)
    else none
  | _ => none

mutual
/-- the bits and references a value of schema type `S` appends to the current cell -/
def specChunk (senv : SEnv) : Nat → SType → Val → Option Chunk
  | 0, _, _ => none
  | fuel + 1, S, v =>
    match S with
    | .nat n => (match v with
      | .int i => if 0 ≤ i ∧ i < 2 ^ n then some (natToBits n i.toNat, []) else none
      | _ => none)
    | .int n => (match v with
      | .int i => if 1 ≤ n ∧ -(2 ^ (n - 1)) ≤ i ∧ i < 2 ^ (n - 1) then some (intToBits n i, []) else none
      | _ => none)
    | .bool => (match v with
      | .bool x => some ([x], [])
      | _ => none)
    | .bits n => (match v with
      | .bytes bs => if bs.length * 8 = n then some (bytesToBits bs, []) else none
      | _ => none)
    | .natLeq n => (match v with
      | .int i => if 0 ≤ i ∧ i ≤ n then some (natToBits (bitWidth n) i.toNat, []) else none
      | _ => none)
    | .unary => (match v with
      -- `n` ones and a zero; a chunk that cannot fit ANY cell (1023 bits) is not a serialisation at all — decided
      -- arithmetically, so that no list of 2^63 ones is ever built
      | .int i => if 0 ≤ i ∧ i.toNat + 1 ≤ 1023 then some (List.replicate i.toNat true ++ [false], []) else none
      | _ => none)
    | .varUint n => (match v with
      | .int i =>
        -- the MINIMAL byte length, which must be representable in `#< n`
        if 0 ≤ i ∧ minBytes i.toNat < n then
          some (natToBits (bitWidth (n - 1)) (minBytes i.toNat) ++ natToBits (minBytes i.toNat * 8) i.toNat, [])
        else none
      | _ => none)
    | .maybe t => (match v with
      | .none => some ([false], [])
      | .cons x .nil => (specChunk senv fuel t x).map fun c => (true :: c.1, c.2)
      | _ => none)
    | .either l r => (match v with
      | .cons (.sym side) (.cons x .nil) =>
        if side = "R" then (specChunk senv fuel r x).map fun c => (true :: c.1, c.2)
        else if side = "L" then (specChunk senv fuel l x).map fun c => (false :: c.1, c.2)
        else none
      | _ => none)
    | .ref t => (specChunk senv fuel t v).map fun c => ([], [Cell.mk 0 0 c.1 c.2])
    | .cellRef => (match v with
      | .cell c => some ([], [c])
      | _ => none)
    | .any => (match v with
      | .cell (.mk _ _ bits refs) => some (bits, refs)
      | _ => none)
    | .seq fs => specFields senv fuel fs v
    | .sum cs => (match v with
      | .cons (.sym name) (.cons x .nil) =>
        (match cs.find name with
        | some (tg, t) => (specChunk senv fuel t x).map fun c => (tg ++ c.1, c.2)
        | none => none)
      | _ => none)
    | .tag bits => some (bits, [])
    | .hashmapE n sk st => specDict n (fun x => specChunk senv fuel sk x) (fun x => specChunk senv fuel st x) v
    | .anycast => specAnycast v
    | .msgAddress => specMsgAddress v
    | .payloadList => if Prim.valLen v ≤ 4 then specPayloadItems v else none
    | .enum cs => (match v with
      | .bytes bs => (cs.find? fun c => c.1 == bs).map fun c => (c.2, [])
      | _ => none)
    | .outList => specOutList v
    | .highloadDict =>
      -- message i ↦ key i; the value `send_msg#_ mode:uint8 message:^MessageRelaxed` is the cell content `hlToDict`
      -- builds (8 bits, one reference)
      (match hlToDict v with
      | some d => specChunk senv fuel (.hashmapE 16 (.nat 16) .any) d
      | none => none)
    | .chainOf t => (match v with
      | .cons x rest => chainStep (specChunk senv fuel t x) rest (specChunk senv fuel (.chainOf t) rest)
      | _ => none)
    | .named n => (match senv n with
      | some t => specChunk senv fuel t v
      | none => none)
    | .goPtr t => (match v with
      | .cons x .nil => specChunk senv fuel t x
      | _ => none)
def specFields (senv : SEnv) : Nat → SFields → Val → Option Chunk
  | 0, _, _ => none
  | _ + 1, .nil, .nil => some ([], [])
  | fuel + 1, .cons _ t rest, .cons v vs =>
    match specChunk senv fuel t v, specFields senv fuel rest vs with
    | some a, some b => some (a.app b)
    | _, _ => none
  | _ + 1, _, _ => none
end

/-! ### struct values given by field name

The harness hands struct values to the spec BY FIELD NAME (`((:@GoField|v)|…)`); `byName` arranges them in the
schema's field order, looking each schema field up by its name (normalised, alias table above). A Go struct whose
same-typed fields are exchanged therefore serialises differently from what the schema prescribes for the same named
values. Values already given positionally are left as they are. -/
def lookupField (schemaName : String) : Val → Option Val
  | .cons (.cons (.sym g) (.cons v .nil)) rest =>
    if g.startsWith "@" && nameAgrees (g.drop 1).toString schemaName then some v else lookupField schemaName rest
  | _ => none

def isNamedStruct : Val → Bool
  | .cons (.cons (.sym g) (.cons _ .nil)) _ => g.startsWith "@"
  | _ => false

mutual
def byName (senv : SEnv) : Nat → SType → Val → Val
  | 0, _, v => v
  | fuel + 1, S, v =>
    match S with
    | .maybe t => (match v with
      | .cons x .nil => .cons (byName senv fuel t x) .nil
      | _ => v)
    | .either l r => (match v with
      | .cons (.sym side) (.cons x .nil) =>
        .cons (.sym side) (.cons (byName senv fuel (if side = "R" then r else l) x) .nil)
      | _ => v)
    | .ref t => byName senv fuel t v
    | .seq fs => if isNamedStruct v then byNameFields senv fuel fs v else v
    | .sum cs => (match v with
      | .cons (.sym name) (.cons x .nil) =>
        (match cs.find name with
        | some (_, t) => .cons (.sym name) (.cons (byName senv fuel t x) .nil)
        | none => v)
      | _ => v)
    | .named n => (match senv n with
      | some t => byName senv fuel t v
      | none => v)
    | .goPtr t => (match v with
      | .cons x .nil => .cons (byName senv fuel t x) .nil
      | _ => v)
    | .chainOf t => Val.list (v.toList.map fun x => byName senv fuel t x)
    | .hashmapE _ _ st => (match v with
      | .cons ks (.cons vs .nil) => .cons ks (.cons (Val.list (vs.toList.map fun x => byName senv fuel st x)) .nil)
      | _ => v)
    | _ => v
def byNameFields (senv : SEnv) : Nat → SFields → Val → Val
  | 0, _, v => v
  | _ + 1, .nil, _ => .nil
  | fuel + 1, .cons name t rest, v =>
    .cons (match lookupField name v with
      | some x => byName senv fuel t x
      | none => .sym ("missing:" ++ name)) (byNameFields senv fuel rest v)
end

/-- the cell a top-level value serialises to -/
def specCell (senv : SEnv) (fuel : Nat) (S : SType) (v : Val) : Option Cell :=
  match S, v with
  | .cellRef, .cell c => some c
  | _, _ => (specChunk senv fuel S v).map fun c => Cell.mk 0 0 c.1 c.2

/-! ## The transcription -/

/-- nanograms$_ amount:(VarUInteger 16) = Grams; -/
def Grams : SType := .varUint 16

/-- extra_currencies$_ dict:(HashmapE 32 (VarUInteger 32)) = ExtraCurrencyCollection; -/
def ExtraCurrencyCollection : SType := .seq (.cons "dict" (.hashmapE 32 (.nat 32) (.varUint 32)) .nil)

/-- currencies$_ grams:Grams other:ExtraCurrencyCollection = CurrencyCollection; -/
def CurrencyCollection : SType := .seq (.cons "grams" Grams (.cons "other" (.named "ExtraCurrencyCollection") .nil))

/-- MsgAddressInt / MsgAddressExt: see `specMsgAddress` -/
def MsgAddress : SType := .msgAddress

/-- int_msg_info$0 ihr_disabled:Bool bounce:Bool bounced:Bool src:MsgAddressInt dest:MsgAddressInt
      value:CurrencyCollection ihr_fee:Grams fwd_fee:Grams created_lt:uint64 created_at:uint32 = CommonMsgInfo;
    ext_in_msg_info$10 src:MsgAddressExt dest:MsgAddressInt import_fee:Grams = CommonMsgInfo;
    ext_out_msg_info$11 src:MsgAddressInt dest:MsgAddressExt created_lt:uint64 created_at:uint32 = CommonMsgInfo; -/
def CommonMsgInfo : SType := .sum
  (.cons "int_msg_info" (tagBits "$0") "IntMsgInfo" (.goPtr (.seq
    (.cons "ihr_disabled" .bool (.cons "bounce" .bool (.cons "bounced" .bool
    (.cons "src" .msgAddress (.cons "dest" .msgAddress
    (.cons "value" (.named "CurrencyCollection") (.cons "ihr_fee" Grams (.cons "fwd_fee" Grams
    (.cons "created_lt" (.nat 64) (.cons "created_at" (.nat 32) .nil))))))))))))
  (.cons "ext_in_msg_info" (tagBits "$10") "ExtInMsgInfo" (.goPtr (.seq
    (.cons "src" .msgAddress (.cons "dest" .msgAddress (.cons "import_fee" Grams .nil)))))
  (.cons "ext_out_msg_info" (tagBits "$11") "ExtOutMsgInfo" (.goPtr (.seq
    (.cons "src" .msgAddress (.cons "dest" .msgAddress
    (.cons "created_lt" (.nat 64) (.cons "created_at" (.nat 32) .nil))))))
  .nil)))

/-- tick_tock$_ tick:Bool tock:Bool = TickTock; -/
def TickTock : SType := .seq (.cons "tick" .bool (.cons "tock" .bool .nil))

/-- simple_lib$_ public:Bool root:^Cell = SimpleLib; -/
def SimpleLib : SType := .seq (.cons "public" .bool (.cons "root" .cellRef .nil))

/-- _ split_depth:(Maybe (## 5)) special:(Maybe TickTock) code:(Maybe ^Cell) data:(Maybe ^Cell)
      library:(HashmapE 256 SimpleLib) = StateInit; -/
def StateInit : SType := .seq
  (.cons "split_depth" (.maybe (.nat 5)) (.cons "special" (.maybe (.named "TickTock"))
  (.cons "code" (.maybe .cellRef) (.cons "data" (.maybe .cellRef) (.cons "library" (.hashmapE 256 (.bits 256) (.named "SimpleLib")) .nil)))))

/-- message$_ {X:Type} info:CommonMsgInfo init:(Maybe (Either StateInit ^StateInit)) body:(Either X ^X)
      = Message X;   (X := Any) -/
def Message : SType := .seq
  (.cons "info" (.named "CommonMsgInfo")
  (.cons "init" (.maybe (.either (.named "StateInit") (.ref (.named "StateInit"))))
  (.cons "body" (.either .any (.ref .any)) .nil)))

/-- wallet v3 (wallet-v3-code.fc, recv_external): after the 512-bit signature,
    subwallet_id:uint32 valid_until:uint32 msg_seqno:uint32, then up to four (mode:uint8 ^msg) -/
def WalletV3Body : SType := .seq
  (.cons "subwallet_id" (.nat 32) (.cons "valid_until" (.nat 32) (.cons "msg_seqno" (.nat 32)
  (.cons "messages" .payloadList .nil))))

/-- wallet v4 (wallet-v4-code.fc, recv_external): subwallet_id:uint32 valid_until:uint32 msg_seqno:uint32 op:int8,
    then (op = 0) up to four (mode:uint8 ^msg) -/
def WalletV4Body : SType := .seq
  (.cons "subwallet_id" (.nat 32) (.cons "valid_until" (.nat 32) (.cons "msg_seqno" (.nat 32) (.cons "op" (.int 8)
  (.cons "messages" .payloadList .nil)))))

/-- the signed envelope of wallets v1..v4: signature:bits512 followed by the signed body (the rest of the cell) -/
def SignedMsgBody : SType := .seq (.cons "signature" (.bits 512) (.cons "body" .any .nil))

/-! ### accounts -/

/-- storage_used$_ cells:(VarUInteger 7) bits:(VarUInteger 7) = StorageUsed; -/
def StorageUsed : SType := .seq (.cons "cells" (.varUint 7) (.cons "bits" (.varUint 7) .nil))

/-- storage_extra_none$000 = StorageExtraInfo;
    storage_extra_info$001 dict_hash:uint256 = StorageExtraInfo;   (Go holds the uint256 as 32 bytes: bits256) -/
def StorageExtraInfo : SType := .sum
  (.cons "storage_extra_none" (tagBits "$000") "StorageExtraNone" (.seq .nil)
  (.cons "storage_extra_info" (tagBits "$001") "StorageExtraInfo" (.seq (.cons "dict_hash" (.bits 256) .nil))
  .nil))

/-- storage_info$_ used:StorageUsed storage_extra:StorageExtraInfo last_paid:uint32
      due_payment:(Maybe Grams) = StorageInfo; -/
def StorageInfo : SType := .seq
  (.cons "used" (.named "StorageUsed") (.cons "storage_extra" (.named "StorageExtraInfo")
  (.cons "last_paid" (.nat 32) (.cons "due_payment" (.maybe Grams) .nil))))

/-- account_uninit$00 = AccountState;
    account_active$1 _:StateInit = AccountState;
    account_frozen$01 state_hash:bits256 = AccountState; -/
def AccountState : SType := .sum
  (.cons "account_uninit" (tagBits "$00") "AccountUninit" (.seq .nil)
  (.cons "account_active" (tagBits "$1") "AccountActive" (.seq (.cons "_" (.named "StateInit") .nil))
  (.cons "account_frozen" (tagBits "$01") "AccountFrozen" (.seq (.cons "state_hash" (.bits 256) .nil))
  .nil)))

/-- account_storage$_ last_trans_lt:uint64 balance:CurrencyCollection state:AccountState = AccountStorage; -/
def AccountStorage : SType := .seq
  (.cons "last_trans_lt" (.nat 64) (.cons "balance" (.named "CurrencyCollection")
  (.cons "state" (.named "AccountState") .nil)))

/-- the fields of `account$1`: addr:MsgAddressInt storage_stat:StorageInfo storage:AccountStorage
    (Go: tlb.ExistedAccount) -/
def ExistedAccount : SType := .seq
  (.cons "addr" .msgAddress (.cons "storage_stat" (.named "StorageInfo")
  (.cons "storage" (.named "AccountStorage") .nil)))

/-- account_none$0 = Account;
    account$1 addr:MsgAddressInt storage_stat:StorageInfo storage:AccountStorage = Account; -/
def Account : SType := .sum
  (.cons "account_none" (tagBits "$0") "AccountNone" (.seq .nil)
  (.cons "account" (tagBits "$1") "Account" (.named "ExistedAccount")
  .nil))

/-- account_descr$_ account:^Account last_trans_hash:bits256 last_trans_lt:uint64 = ShardAccount; -/
def ShardAccount : SType := .seq
  (.cons "account" (.ref (.named "Account")) (.cons "last_trans_hash" (.bits 256)
  (.cons "last_trans_lt" (.nat 64) .nil)))

/-- acc_state_uninit$00 = AccountStatus;  acc_state_frozen$01 = AccountStatus;
    acc_state_active$10 = AccountStatus;  acc_state_nonexist$11 = AccountStatus;
    (Go: the string constants "uninit", "frozen", "active", "nonexist") -/
def AccountStatus : SType := .enum
  [(Prim.s_uninit, tagBits "$00"), (Prim.s_frozen, tagBits "$01"), (Prim.s_active, tagBits "$10"),
   (Prim.s_nonexist, tagBits "$11")]

/-! ### transactions -/

/-- acst_unchanged$0 = AccStatusChange;  acst_frozen$10 = AccStatusChange;  acst_deleted$11 = AccStatusChange; -/
def AccStatusChange : SType := .enum
  [(Prim.s_acst_unchanged, tagBits "$0"), (Prim.s_acst_frozen, tagBits "$10"), (Prim.s_acst_deleted, tagBits "$11")]

/-- cskip_no_state$00 = ComputeSkipReason;  cskip_bad_state$01 = ComputeSkipReason;
    cskip_no_gas$10 = ComputeSkipReason;    cskip_suspended$110 = ComputeSkipReason; -/
def ComputeSkipReason : SType := .enum
  [(Prim.s_cskip_no_state, tagBits "$00"), (Prim.s_cskip_bad_state, tagBits "$01"),
   (Prim.s_cskip_no_gas, tagBits "$10"), (Prim.s_cskip_suspended, tagBits "$110")]

/-- tr_phase_storage$_ storage_fees_collected:Grams storage_fees_due:(Maybe Grams)
      status_change:AccStatusChange = TrStoragePhase; -/
def TrStoragePhase : SType := .seq
  (.cons "storage_fees_collected" Grams (.cons "storage_fees_due" (.maybe Grams)
  (.cons "status_change" AccStatusChange .nil)))

/-- tr_phase_credit$_ due_fees_collected:(Maybe Grams) credit:CurrencyCollection = TrCreditPhase; -/
def TrCreditPhase : SType := .seq
  (.cons "due_fees_collected" (.maybe Grams) (.cons "credit" (.named "CurrencyCollection") .nil))

/-- tr_phase_compute_skipped$0 reason:ComputeSkipReason = TrComputePhase;
    tr_phase_compute_vm$1 success:Bool msg_state_used:Bool account_activated:Bool gas_fees:Grams
      ^[ gas_used:(VarUInteger 7) gas_limit:(VarUInteger 7) gas_credit:(Maybe (VarUInteger 3))
      mode:int8 exit_code:int32 exit_arg:(Maybe int32) vm_steps:uint32
      vm_init_state_hash:bits256 vm_final_state_hash:bits256 ] = TrComputePhase; -/
def TrComputePhase : SType := .sum
  (.cons "tr_phase_compute_skipped" (tagBits "$0") "TrPhaseComputeSkipped"
    (.seq (.cons "reason" ComputeSkipReason .nil))
  (.cons "tr_phase_compute_vm" (tagBits "$1") "TrPhaseComputeVm" (.seq
    (.cons "success" .bool (.cons "msg_state_used" .bool (.cons "account_activated" .bool
    (.cons "gas_fees" Grams (.cons "_" (.ref (.seq
      (.cons "gas_used" (.varUint 7) (.cons "gas_limit" (.varUint 7) (.cons "gas_credit" (.maybe (.varUint 3))
      (.cons "mode" (.int 8) (.cons "exit_code" (.int 32) (.cons "exit_arg" (.maybe (.int 32))
      (.cons "vm_steps" (.nat 32) (.cons "vm_init_state_hash" (.bits 256)
      (.cons "vm_final_state_hash" (.bits 256) .nil))))))))))) .nil))))))
  .nil))

/-- tr_phase_action$_ success:Bool valid:Bool no_funds:Bool status_change:AccStatusChange
      total_fwd_fees:(Maybe Grams) total_action_fees:(Maybe Grams) result_code:int32 result_arg:(Maybe int32)
      tot_actions:uint16 spec_actions:uint16 skipped_actions:uint16 msgs_created:uint16
      action_list_hash:bits256 tot_msg_size:StorageUsed = TrActionPhase; -/
def TrActionPhase : SType := .seq
  (.cons "success" .bool (.cons "valid" .bool (.cons "no_funds" .bool (.cons "status_change" AccStatusChange
  (.cons "total_fwd_fees" (.maybe Grams) (.cons "total_action_fees" (.maybe Grams)
  (.cons "result_code" (.int 32) (.cons "result_arg" (.maybe (.int 32))
  (.cons "tot_actions" (.nat 16) (.cons "spec_actions" (.nat 16) (.cons "skipped_actions" (.nat 16)
  (.cons "msgs_created" (.nat 16) (.cons "action_list_hash" (.bits 256)
  (.cons "tot_msg_size" (.named "StorageUsed") .nil))))))))))))))

/-- tr_phase_bounce_negfunds$00 = TrBouncePhase;
    tr_phase_bounce_nofunds$01 msg_size:StorageUsed req_fwd_fees:Grams = TrBouncePhase;
    tr_phase_bounce_ok$1 msg_size:StorageUsed msg_fees:Grams fwd_fees:Grams = TrBouncePhase; -/
def TrBouncePhase : SType := .sum
  (.cons "tr_phase_bounce_negfunds" (tagBits "$00") "TrPhaseBounceNegfunds" (.seq .nil)
  (.cons "tr_phase_bounce_nofunds" (tagBits "$01") "TrPhaseBounceNofunds" (.seq
    (.cons "msg_size" (.named "StorageUsed") (.cons "req_fwd_fees" Grams .nil)))
  (.cons "tr_phase_bounce_ok" (tagBits "$1") "TrPhaseBounceOk" (.seq
    (.cons "msg_size" (.named "StorageUsed") (.cons "msg_fees" Grams (.cons "fwd_fees" Grams .nil))))
  .nil)))

/-- split_merge_info$_ cur_shard_pfx_len:(## 6) acc_split_depth:(## 6) this_addr:bits256 sibling_addr:bits256
      = SplitMergeInfo; -/
def SplitMergeInfo : SType := .seq
  (.cons "cur_shard_pfx_len" (.nat 6) (.cons "acc_split_depth" (.nat 6) (.cons "this_addr" (.bits 256)
  (.cons "sibling_addr" (.bits 256) .nil))))

/-- trans_ord$0000 credit_first:Bool storage_ph:(Maybe TrStoragePhase) credit_ph:(Maybe TrCreditPhase)
      compute_ph:TrComputePhase action:(Maybe ^TrActionPhase) aborted:Bool bounce:(Maybe TrBouncePhase)
      destroyed:Bool = TransactionDescr;
    trans_storage$0001 storage_ph:TrStoragePhase = TransactionDescr;
    trans_tick_tock$001 is_tock:Bool storage_ph:TrStoragePhase compute_ph:TrComputePhase
      action:(Maybe ^TrActionPhase) aborted:Bool destroyed:Bool = TransactionDescr;
    trans_split_prepare$0100 split_info:SplitMergeInfo storage_ph:(Maybe TrStoragePhase)
      compute_ph:TrComputePhase action:(Maybe ^TrActionPhase) aborted:Bool destroyed:Bool = TransactionDescr;
    trans_split_install$0101 split_info:SplitMergeInfo prepare_transaction:^Transaction installed:Bool
      = TransactionDescr;
    trans_merge_prepare$0110 split_info:SplitMergeInfo storage_ph:TrStoragePhase aborted:Bool = TransactionDescr;
    trans_merge_install$0111 split_info:SplitMergeInfo prepare_transaction:^Transaction
      storage_ph:(Maybe TrStoragePhase) credit_ph:(Maybe TrCreditPhase) compute_ph:TrComputePhase
      action:(Maybe ^TrActionPhase) aborted:Bool destroyed:Bool = TransactionDescr;
(`prepare_transaction`: Go keeps the referenced transaction as a raw cell, `^Any`.) -/
def TransactionDescr : SType := .sum
  (.cons "trans_ord" (tagBits "$0000") "TransOrd" (.seq
    (.cons "credit_first" .bool (.cons "storage_ph" (.maybe (.named "TrStoragePhase"))
    (.cons "credit_ph" (.maybe (.named "TrCreditPhase")) (.cons "compute_ph" (.named "TrComputePhase")
    (.cons "action" (.maybe (.ref (.named "TrActionPhase"))) (.cons "aborted" .bool
    (.cons "bounce" (.maybe (.named "TrBouncePhase")) (.cons "destroyed" .bool .nil)))))))))
  (.cons "trans_storage" (tagBits "$0001") "TransStorage" (.seq
    (.cons "storage_ph" (.named "TrStoragePhase") .nil))
  (.cons "trans_tick_tock" (tagBits "$001") "TransTickTock" (.seq
    (.cons "is_tock" .bool (.cons "storage_ph" (.named "TrStoragePhase")
    (.cons "compute_ph" (.named "TrComputePhase") (.cons "action" (.maybe (.ref (.named "TrActionPhase")))
    (.cons "aborted" .bool (.cons "destroyed" .bool .nil)))))))
  (.cons "trans_split_prepare" (tagBits "$0100") "TransSplitPrepare" (.goPtr (.seq
    (.cons "split_info" (.named "SplitMergeInfo") (.cons "storage_ph" (.maybe (.named "TrStoragePhase"))
    (.cons "compute_ph" (.named "TrComputePhase") (.cons "action" (.maybe (.ref (.named "TrActionPhase")))
    (.cons "aborted" .bool (.cons "destroyed" .bool .nil))))))))
  (.cons "trans_split_install" (tagBits "$0101") "TransSplitInstall" (.goPtr (.seq
    (.cons "split_info" (.named "SplitMergeInfo") (.cons "prepare_transaction" (.ref .any)
    (.cons "installed" .bool .nil)))))
  (.cons "trans_merge_prepare" (tagBits "$0110") "TransMergePrepare" (.goPtr (.seq
    (.cons "split_info" (.named "SplitMergeInfo") (.cons "storage_ph" (.named "TrStoragePhase")
    (.cons "aborted" .bool .nil)))))
  (.cons "trans_merge_install" (tagBits "$0111") "TransMergeInstall" (.goPtr (.seq
    (.cons "split_info" (.named "SplitMergeInfo") (.cons "prepare_transaction" (.ref .any)
    (.cons "storage_ph" (.maybe (.named "TrStoragePhase")) (.cons "credit_ph" (.maybe (.named "TrCreditPhase"))
    (.cons "compute_ph" (.named "TrComputePhase") (.cons "action" (.maybe (.ref (.named "TrActionPhase")))
    (.cons "aborted" .bool (.cons "destroyed" .bool .nil))))))))))
  .nil)))))))

/-- update_hashes#72 {X:Type} old_hash:bits256 new_hash:bits256 = HASH_UPDATE X; -/
def HashUpdate : SType := .seq
  (.cons "magic" (.tag (tagBits "#72")) (.cons "old_hash" (.bits 256) (.cons "new_hash" (.bits 256) .nil)))

/-- transaction$0111 account_addr:bits256 lt:uint64 prev_trans_hash:bits256 prev_trans_lt:uint64 now:uint32
      outmsg_cnt:uint15 orig_status:AccountStatus end_status:AccountStatus
      ^[ in_msg:(Maybe ^(Message Any)) out_msgs:(HashmapE 15 ^(Message Any)) ]
      total_fees:CurrencyCollection state_update:^(HASH_UPDATE Account)
      description:^TransactionDescr = Transaction; -/
def Transaction : SType := .seq
  (.cons "magic" (.tag (tagBits "$0111")) (.cons "account_addr" (.bits 256) (.cons "lt" (.nat 64)
  (.cons "prev_trans_hash" (.bits 256) (.cons "prev_trans_lt" (.nat 64) (.cons "now" (.nat 32)
  (.cons "outmsg_cnt" (.nat 15) (.cons "orig_status" AccountStatus (.cons "end_status" AccountStatus
  (.cons "_" (.ref (.seq
    (.cons "in_msg" (.maybe (.ref (.named "Message")))
    (.cons "out_msgs" (.hashmapE 15 (.nat 15) (.ref (.named "Message"))) .nil))))
  (.cons "total_fees" (.named "CurrencyCollection") (.cons "state_update" (.ref (.named "HashUpdate"))
  (.cons "description" (.ref (.named "TransactionDescr")) .nil)))))))))))))

/-- burning_config#01 blackhole_addr:(Maybe bits256) fee_burn_num:# fee_burn_denom:#
      { fee_burn_num <= fee_burn_denom } { fee_burn_denom >= 1 } = BurningConfig;   (config parameter 5) -/
def BurningConfig : SType := .seq
  (.cons "magic" (.tag (tagBits "#01")) (.cons "blackhole_addr" (.maybe (.bits 256))
  (.cons "fee_burn_num" (.nat 32) (.cons "fee_burn_denom" (.nat 32) .nil))))

/-- msg_metadata#0 depth:uint32 initiator_addr:MsgAddressInt initiator_lt:uint64 = MsgMetadata; -/
def MsgMetadata : SType := .seq
  (.cons "magic" (.tag (tagBits "#0")) (.cons "depth" (.nat 32) (.cons "initiator_addr" .msgAddress
  (.cons "initiator_lt" (.nat 64) .nil))))

/-! ### wallet v5: the list of out-actions -/

/-- OutList n of `action_send_msg` (see `specOutList`) -/
def OutList : SType := .outList

/-- wallet v5 (abi/schemas/wallets.xml names them by their tags; wallet-contract-v5 types.tlb):
    action_add_ext#02 addr:MsgAddressInt = ExtendedAction;
    action_delete_ext#03 addr:MsgAddressInt = ExtendedAction;
    action_set_signature_auth_allowed#04 allowed:(## 1) = ExtendedAction; -/
def W5ExtendedAction : SType := .sum
  (.cons "action_add_ext" (tagBits "#02") "AddExtension" (.goPtr (.seq (.cons "addr" .msgAddress .nil)))
  (.cons "action_delete_ext" (tagBits "#03") "RemoveExtension" (.goPtr (.seq (.cons "addr" .msgAddress .nil)))
  (.cons "action_set_signature_auth_allowed" (tagBits "#04") "SetSignatureAllowed"
    (.goPtr (.seq (.cons "allowed" .bool .nil)))
  .nil)))

/-- action_list_extended$_ {m:#} {n:#} action:ExtendedAction prev:^(ActionList n m) = ActionList n (m+1);
the contract (and tongo) end the list at the cell that has no further reference -/
def W5ExtendedActions : SType := .chainOf (.named "W5ExtendedAction")

/-- abi/schemas/wallets.xml:
    signed_internal#73696e74 wallet_id:uint32 valid_until:uint32 seqno:uint32
      actions:(Maybe ^W5Actions) extended:(Maybe W5ExtendedActions) signature:bits512 = InternalMsgBody;
    signed_external#7369676e wallet_id:uint32 valid_until:uint32 seqno:uint32
      actions:(Maybe ^W5Actions) extended:(Maybe W5ExtendedActions) signature:bits512 = ExternalMsgBody;
    extension_action#6578746e query_id:uint64 actions:(Maybe ^W5Actions) extended:(Maybe W5ExtendedActions)
      = InternalMsgBody;
(W5Actions = OutList of action_send_msg.) -/
def WalletV5R1Body : SType := .sum
  (.cons "signed_internal" (tagBits "#73696e74") "SignedInternal" (.goPtr (.seq
    (.cons "wallet_id" (.nat 32) (.cons "valid_until" (.nat 32) (.cons "seqno" (.nat 32)
    (.cons "actions" (.maybe (.ref .outList)) (.cons "extended" (.maybe W5ExtendedActions)
    (.cons "signature" (.bits 512) .nil))))))))
  (.cons "signed_external" (tagBits "#7369676e") "SignedExternal" (.goPtr (.seq
    (.cons "wallet_id" (.nat 32) (.cons "valid_until" (.nat 32) (.cons "seqno" (.nat 32)
    (.cons "actions" (.maybe (.ref .outList)) (.cons "extended" (.maybe W5ExtendedActions)
    (.cons "signature" (.bits 512) .nil))))))))
  (.cons "extension_action" (tagBits "#6578746e") "ExtensionAction" (.goPtr (.seq
    (.cons "query_id" (.nat 64) (.cons "actions" (.maybe (.ref .outList))
    (.cons "extended" (.maybe W5ExtendedActions) .nil)))))
  .nil)))

/-- wallet v5 BETA. SOURCE OF THE TRANSCRIPTION: the repository itself — no schema text of the beta contract is
shipped; the layout is the one wallet/wallet_v5_beta.go writes (`createSignedMsgBodyCell`: the 32-bit message type,
`extV5BetaSignedMessage`, then the signature) and wallet/messages.go reads (`MessageV5Beta`):
    wallet_id$_ network_global_id:uint32 workchain:uint8 wallet_version:uint8 subwallet_id:uint32 = WalletV5ID;  (80 bits)
    signed_internal#73696e74 wallet_id:bits80 valid_until:uint32 msg_seqno:uint32 op:Bool signature:bits512
      actions:^(OutList n) = InternalMsgBody;
    signed_external#7369676e (the same fields) = ExternalMsgBody;
(`op` = 0: the body carries out-actions; the signature covers everything before it.) -/
def WalletV5ID : SType := .seq
  (.cons "network_global_id" (.nat 32) (.cons "workchain" (.nat 8) (.cons "wallet_version" (.nat 8)
  (.cons "subwallet_id" (.nat 32) .nil))))

def WalletV5BetaBody : SType := .sum
  (.cons "signed_internal" (tagBits "#73696e74") "SignedInternal" (.seq
    (.cons "wallet_id" (.bits 80) (.cons "valid_until" (.nat 32) (.cons "msg_seqno" (.nat 32) (.cons "op" .bool
    (.cons "signature" (.bits 512) (.cons "actions" (.ref .outList) .nil)))))))
  (.cons "signed_external" (tagBits "#7369676e") "SignedExternal" (.seq
    (.cons "wallet_id" (.bits 80) (.cons "valid_until" (.nat 32) (.cons "msg_seqno" (.nat 32) (.cons "op" .bool
    (.cons "signature" (.bits 512) (.cons "actions" (.ref .outList) .nil)))))))
  .nil))

/-- abi/schemas/wallets.xml:
    send_msg#_ mode:uint8 message:^MessageRelaxed = SendMessageAction;
    (highload_wallet_signed_v2) signed#_ signature:bits512 subwallet_id:uint32 query_id:uint64
      payload:(HashmapE 16 SendMessageAction) = ExternalMsgBody;
the part after the signature (the signature is `SignedMsgBody`) -/
def HighloadV2Body : SType := .seq
  (.cons "subwallet_id" (.nat 32) (.cons "query_id" (.nat 64) (.cons "payload" .highloadDict .nil)))

def senvList : List (String × SType) := [
  ("ExtraCurrencyCollection", ExtraCurrencyCollection), ("CurrencyCollection", CurrencyCollection),
  ("MsgAddress", MsgAddress), ("CommonMsgInfo", CommonMsgInfo), ("TickTock", TickTock), ("SimpleLib", SimpleLib), ("StateInit", StateInit),
  ("Message", Message), ("Grams", Grams), ("WalletV3Body", WalletV3Body), ("WalletV4Body", WalletV4Body),
  ("SignedMsgBody", SignedMsgBody),
  ("StorageUsed", StorageUsed), ("StorageExtraInfo", StorageExtraInfo), ("StorageInfo", StorageInfo),
  ("AccountState", AccountState), ("AccountStorage", AccountStorage), ("ExistedAccount", ExistedAccount),
  ("Account", Account), ("ShardAccount", ShardAccount), ("AccountStatus", AccountStatus),
  ("AccStatusChange", AccStatusChange), ("ComputeSkipReason", ComputeSkipReason),
  ("TrStoragePhase", TrStoragePhase), ("TrCreditPhase", TrCreditPhase), ("TrComputePhase", TrComputePhase),
  ("TrActionPhase", TrActionPhase), ("TrBouncePhase", TrBouncePhase), ("SplitMergeInfo", SplitMergeInfo),
  ("TransactionDescr", TransactionDescr), ("HashUpdate", HashUpdate), ("Transaction", Transaction),
  ("OutList", OutList), ("W5ExtendedAction", W5ExtendedAction), ("W5ExtendedActions", W5ExtendedActions),
  ("WalletV5R1Body", WalletV5R1Body), ("HighloadV2Body", HighloadV2Body), ("BurningConfig", BurningConfig),
  ("MsgMetadata", MsgMetadata), ("WalletV5ID", WalletV5ID), ("WalletV5BetaBody", WalletV5BetaBody)]

def senv : SEnv := fun n => (senvList.find? (·.1 == n)).map (·.2)

end Tongo.Tlb.Spec
