import TongoModel.Tlb.Wf
/-! # Structures with a reference chain (wallet.MessageV5: `extended:(Maybe W5ExtendedActions)`)

`chain e` (wallet.W5ExtendedActions) decodes an element and then FOLLOWS THE NEXT REFERENCE OF THE CELL WHENEVER THERE IS
ONE. It is neither greedy (bits may follow it: the signature) nor non-greedy (a reference that follows would be taken
for the next element). The well-formedness condition for that third mode: in the struct that holds the chain, the
fields after it write bits only; the struct is the payload of a constructor of the top-level sum type (nothing follows
it in the cell). `chainTopb` decides the shape; TongoProofs/Lemmas/TlbChain.lean proves the round trip for it. -/
namespace Tongo.Tlb

/-- types that write bits and never a reference -/
def bitsOnlyb : Ty → Bool
  | .uint n => n ≤ 64
  | .int n => 1 ≤ n && n ≤ 64
  | .bool => true
  | .bytes _ => true
  | _ => false

def bitsOnlyFields : Fields → Bool
  | .nil => true
  | .cons _ ft t rest =>
    (match ft with
      | .plain => bitsOnlyb t
      | _ => false) && bitsOnlyFields rest

/-- decidable form of "the field is not greedy" -/
def ngFieldb (env : Env) (ft : FieldTag) (t : Ty) : Bool :=
  match ft with
  | .plain | .maybe => !greedyb env greedyFuel t
  | _ => true

/-- the fields of a struct holding (at most) one optional reference chain, everything after it bits only -/
def chainFieldsb (env : Env) : Fields → Bool
  | .nil => true
  | .cons n ft t rest =>
    match ft, t with
    | .maybe, .ptr _ (.chain e) =>
      wfb env e && !greedyb env greedyFuel e && bitsOnlyFields rest && wfFields env rest &&
        !greedyFields env greedyFuel rest
    | _, _ => wfFields env (.cons n ft t .nil) && ngFieldb env ft t && chainFieldsb env rest

def chainCtorsb (env : Env) : Ctors → Bool
  | .nil => true
  | .cons _ _ t rest =>
    (match t with
      | .ptr _ (.struct fs) => chainFieldsb env fs
      | _ => false) && chainCtorsb env rest

/-- a top-level sum type whose constructors are (pointers to) structs with a reference chain -/
def chainTopb (env : Env) (T : Ty) : Bool :=
  match T with
  | .sum cs =>
    let tags := cs.tags
    tags.all (·.isSome) && (tags.filterMap id).all Tag.ok && prefixFree (tags.filterMap id) && chainCtorsb env cs
  | _ => false

/-- a reference chain as the whole content of a cell: a well-formed, non-greedy element type -/
def chainOkb (env : Env) (T : Ty) : Bool :=
  match T with
  | .chain e => wfb env e && !greedyb env greedyFuel e
  | _ => false

end Tongo.Tlb
