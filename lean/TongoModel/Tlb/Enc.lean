import TongoModel.Tlb.Prims
/-! Model of tlb/encoder.go: `encode` (tagEncoder first, then parseTag handling, then MarshalerTLB, then kinds),
`encodeBasicStruct`, `encodeSumType` and the generic custom codecs of tlb/primitives.go (Maybe, Either, EitherRef,
Ref) and tlb/stack.go (VmStack). `fuel` bounds the recursion through `named` references; every call consumes one
unit so that the definition is structurally recursive (and evaluable by `decide`). -/
namespace Tongo.Tlb
open Tongo

def Ctors.find : Ctors → String → Option (Option Tag × Ty)
  | .nil, _ => none
  | .cons n tg t rest, name => if n = name then some (tg, t) else rest.find name

/-- encodeSumTag -/
def encodeTag (tg : Option Tag) (b : Builder) : Outcome Builder :=
  match tg with
  | some t => b.writeUint t.val t.len
  | none => .err "invalid tag"

/-- the value side of C05's codec parameter on the encoder side: what `Marshal(leaf, v)` appends -/
def valueCodecEnc (enc : Val → Outcome Builder) : Hashmap.Codec Val where
  enc v := (enc v).bind fun b => .ok (b.bits, b.refs)
  dec _ _ := .err "encoder only"

mutual

/-- `encode(c, tag, o, encoder)` for a struct field carrying field tag `ft` -/
def encodeField (env : Env) : Nat → FieldTag → Ty → Val → Builder → Outcome Builder
  | 0, _, _, _, _ => .err "fuel"
  | fuel + 1, ft, T, v, b =>
    match T with
    | .magic tg => encodeTag tg b               -- tagEncoder: before the tag is even parsed
    | _ =>
      match ft with
      | .bad => .err "tag format is deprecated"
      | .plain => encode env fuel T v b
      | .ref =>
        -- c.NewRef(): the reference is added before the child is written
        if b.refs.length < cellRefs then do
          let child ← encode env fuel T v Builder.empty
          pure { b with refs := b.refs ++ [child.toCell] }
        else .err "too many refs"
      | .maybe =>
        match v with
        | .none => b.writeBit false
        | _ => do
          let b ← b.writeBit true
          encode env fuel T v b
      | .maybeRef =>
        match v with
        | .none => b.writeBit false
        | _ => do
          let b ← b.writeBit true
          if b.refs.length < cellRefs then do
            let child ← encode env fuel T v Builder.empty
            pure { b with refs := b.refs ++ [child.toCell] }
          else .err "too many refs"

/-- `encode(c, "", o, encoder)` -/
def encode (env : Env) : Nat → Ty → Val → Builder → Outcome Builder
  | 0, _, _, _ => .err "fuel"
  | fuel + 1, T, v, b =>
    match T with
    | .uint n => (match v with
      | .int i => b.writeUint i.toNat n
      | _ => .err "bad value")
    | .int n => (match v with
      | .int i => b.writeInt i n
      | _ => .err "bad value")
    | .bool => (match v with
      | .bool x => b.writeBit x
      | _ => .err "bad value")
    | .bytes n => (match v with
      | .bytes bs => if bs.length = n then b.writeBytes bs else .err "bad value"
      | _ => .err "bad value")
    | .cell => (match v with
      | .cell c => .ok (Builder.ofCell c)      -- encodeCell: `*c = o.(boc.Cell)`
      | _ => .err "bad value")
    | .ptr m t => (match v with
      -- a nil pointer: an error, also for a pointer to a MarshalerTLB type (after the `fix:`; before it the value
      -- method was called through the nil pointer: a panic)
      | .none => .err "can't encode empty pointer"
      | .cons x .nil => encode env fuel t x b
      | _ => .err "bad value")
    | .struct fs => encodeFields env fuel fs v b
    | .sum cs => (match v with
      | .cons (.sym name) (.cons x .nil) =>
        if name = "" then .err "empty SumType value"
        else match cs.find name with
          | none => .err "invalid SumType value"
          | some (tg, t) => do
            let b ← encodeTag tg b
            encode env fuel t x b
      | _ => .err "bad value")
    | .named id =>
      (match env id with
      | some t => encode env fuel t v b
      | none => .err "unknown type")
    | .magic _ => .err "invalid tag"            -- Magic reached with the empty tag
    | .maybe t => (match v with
      | .none => b.writeBit false
      | .cons x .nil => do
        let b ← b.writeBit true
        encode env fuel t x b
      | _ => .err "bad value")
    | .either l r => (match v with
      | .cons (.sym side) (.cons x .nil) =>
        if side = "R" then do
          let b ← b.writeBit true
          encode env fuel r x b
        else do
          let b ← b.writeBit false
          encode env fuel l x b
      | _ => .err "bad value")
    | .eitherRef t => (match v with
      | .cons (.sym side) (.cons x .nil) =>
        if side = "R" then do
          let b ← b.writeBit true
          if b.refs.length < cellRefs then do
            let child ← encode env fuel t x Builder.empty
            pure { b with refs := b.refs ++ [child.toCell] }
          else .err "too many refs"
        else do
          let b ← b.writeBit false
          encode env fuel t x b
      | _ => .err "bad value")
    | .refT t => do
      let child ← encode env fuel t v Builder.empty
      b.addRef child.toCell
    | .prim p => Prim.enc p v b
    | .vmStack e => do
      let b ← b.writeUint (Prim.valLen v) 24
      encodeStack env fuel e v b
    | .dictE k t =>
      -- HashmapE.MarshalTLB: Maybe ^(Hashmap n X); the tree itself is C05's `Hashmap.marshal`
      (match dictParts v, keyWidth k with
      | some (ks, vs), some n =>
        if ks.isEmpty then b.writeBit false           -- hme_empty$0
        else do
          let b ← b.writeBit true
          let kbits ← mapMOutcome (fun kv => (encode env fuel k kv Builder.empty).bind fun kb => .ok kb.bits) ks
          match zipKV kbits vs with
          | none => .err "hashmap has more keys than values"
          | some kvs => do
            let root ← Hashmap.marshal (valueCodecEnc (fun x => encode env fuel t x Builder.empty)) n kvs
            b.addRef root
      | _, _ => .err "bad value")
    | .dict k t =>
      -- Hashmap.MarshalTLB: the root edge goes into the CURRENT cell; an empty map writes nothing
      (match dictParts v, keyWidth k with
      | some (ks, vs), some n =>
        if vs.isEmpty then .ok b
        else do
          let kbits ← mapMOutcome (fun kv => (encode env fuel k kv Builder.empty).bind fun kb => .ok kb.bits) ks
          match zipKV kbits vs with
          | none => .err "hashmap has more keys than values"
          | some kvs => do
            let root ← Hashmap.marshal (valueCodecEnc (fun x => encode env fuel t x Builder.empty)) n kvs
            let b ← b.writeBits root.bits
            root.refs.foldlM (fun b r => b.addRef r) b
      | _, _ => .err "bad value")
    | .chain e =>
      -- W5ExtendedActions.MarshalTLB: an element, then (unless it was the last) a fresh cell behind one reference
      (match v with
      | .nil => .ok b
      | .cons x rest => do
        let b ← encode env fuel e x b
        match rest with
        | .nil => .ok b
        | _ => do
          let child ← encode env fuel (.chain e) rest Builder.empty
          b.addRef child.toCell
      | _ => .err "bad value")
    | .highload =>
      if Prim.valLen v > 254 then .err "PayloadHighload supports only up to 254 messages"
      else (match hlToDict v with
        | some d => encode env fuel (.dictE (.uint 16) (.prim .any)) d b
        | none => .err "bad value")
    | .dictAugE _ _ x =>
      -- HashmapAugE.MarshalTLB: Maybe ^(HashmapAug) + extra; HashmapAug.MarshalTLB is "not implemented", so only the
      -- empty dictionary can be written
      (match v with
      | .cons ks (.cons _ (.cons xv .nil)) =>
        (match ks with
        | .nil => do
          let b ← b.writeBit false
          encode env fuel x xv b
        | _ => .err "not implemented")
      | _ => .err "bad value")
    | .dictAug _ _ _ => .err "not implemented"
    | .binTree _ => .err "BinTree marshaling not implemented"
    | .custom id body aux =>
      if id = "tlb.McStateExtraOther" then
        -- McStateExtraOther.MarshalTLB mirrors the decoder: block_create_stats only when flags == 1
        (match v, aux with
        | .cons (.int flags) (.cons a (.cons p (.cons c (.cons d (.cons e .nil))))),
          .struct (.cons _ _ _ (.cons _ _ vi (.cons _ _ pb (.cons _ _ akb (.cons _ _ lkb (.cons _ _ bcs .nil)))))) => do
          let b ← b.writeUint flags.toNat 16
          let b ← encode env fuel vi a b
          let b ← encode env fuel pb p b
          let b ← encode env fuel akb c b
          let b ← encode env fuel lkb d b
          if flags = 1 then encode env fuel bcs e b else .ok b
        | _, _ => .err "bad value")
      else if id = "tlb.McBlockExtra" then
        -- McBlockExtra.MarshalTLB (after the `fix:`) mirrors the decoder: config only in a key block
        (match v, aux with
        | .cons _ (.cons k (.cons a (.cons f (.cons o (.cons c .nil))))),
          .struct (.cons _ _ _ (.cons _ _ kb (.cons _ _ sh (.cons _ _ sf (.cons _ _ oth (.cons _ _ cfg .nil)))))) => do
          let b ← b.writeUint 0xcca5 16
          let b ← encode env fuel kb k b
          let b ← encode env fuel sh a b
          let b ← encode env fuel sf f b
          if b.refs.length < cellRefs then do
            let child ← encode env fuel oth o Builder.empty
            let b : Builder := { b with refs := b.refs ++ [child.toCell] }
            match k with
            | .bool true => encode env fuel cfg c b
            | _ => .ok b
          else .err "too many refs"
        | _, _ => .err "bad value")
      else encode env fuel body v b
    | .encErr _ => .err "marshaling not implemented"
    | .opaque _ => .err "unmodelled"

/-- encodeBasicStruct -/
def encodeFields (env : Env) : Nat → Fields → Val → Builder → Outcome Builder
  | 0, _, _, _ => .err "fuel"
  | _ + 1, .nil, .nil, b => .ok b
  | fuel + 1, .cons _ ft t rest, .cons v vs, b => do
    let b ← encodeField env fuel ft t v b
    encodeFields env fuel rest vs b
  | _ + 1, _, _, _ => .err "bad value"

/-- putStackListItems -/
def encodeStack (env : Env) : Nat → Ty → Val → Builder → Outcome Builder
  | 0, _, _, _ => .err "fuel"
  | _ + 1, _, .nil, b => .ok b
  | fuel + 1, e, .cons x rest, b => do
    let child ← encodeStack env fuel e rest Builder.empty
    let b ← b.addRef child.toCell
    encode env fuel e x b
  | _ + 1, _, _, _ => .err "bad value"

end

end Tongo.Tlb
