import TongoModel.Tlb.SExp
/-! Text form of type descriptors on protocol lines (the harness prints what its reflection walk — the same walk that
generates `TongoGen/TlbTypes.lean` — finds for the type at run time). Read through the `Val` parser:

  ty := (:u|n) (:i|n) :b (:y|n) :c (:p|T/F|ty) (:s|(ft|ty)…) (:+|(:Name|tag|ty)…) (:n|idx) (:g|tag) (:?|ty)
        (:e|ty|ty) (:er|ty) (:^|ty) (:P|:prim[|n]) (:vs|ty) (:ee|:id) (:o|:id)
  ft := :p | :r | :m | :mr | :bad            tag := (len|val) | ~
  env := () | (ty|…)            `(:n|i)` refers to the i-th entry -/
namespace Tongo.Tlb.TyText
open Tongo Tongo.Tlb

def tagOf : Val → Option (Option Tag)
  | .none => some none
  | .cons (.int l) (.cons (.int v) .nil) => some (some ⟨l.toNat, v.toNat⟩)
  | _ => none

def ftOf : Val → Option FieldTag
  | .sym "p" => some .plain
  | .sym "r" => some .ref
  | .sym "m" => some .maybe
  | .sym "mr" => some .maybeRef
  | .sym "bad" => some .bad
  | _ => none

def primOf (name : String) (arg : Option Nat) : Option Prim :=
  match name, arg with
  | "unary", none => some .unary
  | "any", none => some .any
  | "varUint", some n => some (.varUint n)
  | "bigUint", some n => some (.bigUint n)
  | "bigInt", some n => some (.bigInt n)
  | "grams", none => some .grams
  | "signedCoins", none => some .signedCoins
  | "snake", none => some .snake
  | "bytesSnake", none => some .bytesSnake
  | "text", none => some .text
  | "fixedText", none => some .fixedText
  | "anycast", none => some .anycast
  | "msgAddress", none => some .msgAddress
  | "accountStatus", none => some .accountStatus
  | "accStatusChange", none => some .accStatusChange
  | "computeSkipReason", none => some .computeSkipReason
  | "vmCellSlice", none => some .vmCellSlice
  | "payloadV1toV4", none => some .payloadV1toV4
  | "w5Actions", none => some .w5Actions
  | "addrWc", none => some .addrWc
  | _, _ => none

mutual
def tyOf : Nat → Val → Option Ty
  | 0, _ => none
  | fuel + 1, v =>
    match v with
    | .sym "b" => some .bool
    | .sym "c" => some .cell
    | .cons (.sym "u") (.cons (.int n) .nil) => some (.uint n.toNat)
    | .cons (.sym "i") (.cons (.int n) .nil) => some (.int n.toNat)
    | .cons (.sym "y") (.cons (.int n) .nil) => some (.bytes n.toNat)
    | .cons (.sym "p") (.cons (.bool m) (.cons t .nil)) => (tyOf fuel t).map (.ptr m)
    | .cons (.sym "s") fs => (fieldsOf fuel fs).map .struct
    | .cons (.sym "+") cs => (ctorsOf fuel cs).map .sum
    | .cons (.sym "n") (.cons (.int id) .nil) => some (.named id.toNat)
    | .cons (.sym "g") (.cons tg .nil) => (tagOf tg).map .magic
    | .cons (.sym "?") (.cons t .nil) => (tyOf fuel t).map .maybe
    | .cons (.sym "e") (.cons l (.cons r .nil)) => do
      let l ← tyOf fuel l
      let r ← tyOf fuel r
      pure (.either l r)
    | .cons (.sym "er") (.cons t .nil) => (tyOf fuel t).map .eitherRef
    | .cons (.sym "^") (.cons t .nil) => (tyOf fuel t).map .refT
    | .cons (.sym "P") (.cons (.sym name) .nil) => (primOf name none).map .prim
    | .cons (.sym "P") (.cons (.sym name) (.cons (.int n) .nil)) => (primOf name (some n.toNat)).map .prim
    | .cons (.sym "vs") (.cons t .nil) => (tyOf fuel t).map .vmStack
    | .cons (.sym "de") (.cons k (.cons t .nil)) => do
      let k ← tyOf fuel k
      let t ← tyOf fuel t
      pure (.dictE k t)
    | .cons (.sym "di") (.cons k (.cons t .nil)) => do
      let k ← tyOf fuel k
      let t ← tyOf fuel t
      pure (.dict k t)
    | .cons (.sym "ch") (.cons t .nil) => (tyOf fuel t).map .chain
    | .sym "hl" => some .highload
    | .cons (.sym "bt") (.cons t .nil) => (tyOf fuel t).map .binTree
    | .cons (.sym "dae") (.cons k (.cons t (.cons x .nil))) => do
      let k ← tyOf fuel k
      let t ← tyOf fuel t
      let x ← tyOf fuel x
      pure (.dictAugE k t x)
    | .cons (.sym "da") (.cons k (.cons t (.cons x .nil))) => do
      let k ← tyOf fuel k
      let t ← tyOf fuel t
      let x ← tyOf fuel x
      pure (.dictAug k t x)
    | .cons (.sym "cu") (.cons (.sym id) (.cons body (.cons aux .nil))) => do
      let body ← tyOf fuel body
      let aux ← tyOf fuel aux
      pure (.custom id body aux)
    | .cons (.sym "ee") (.cons (.sym id) .nil) => some (.encErr id)
    | .cons (.sym "o") (.cons (.sym id) .nil) => some (.opaque id)
    | _ => none
def fieldsOf : Nat → Val → Option Fields
  | 0, _ => none
  | _ + 1, .nil => some .nil
  | fuel + 1, .cons (.cons ft (.cons t .nil)) rest => do
    let ft ← ftOf ft
    let t ← tyOf fuel t
    let rest ← fieldsOf fuel rest
    pure (.cons "" ft t rest)
  | _ + 1, _ => none
def ctorsOf : Nat → Val → Option Ctors
  | 0, _ => none
  | _ + 1, .nil => some .nil
  | fuel + 1, .cons (.cons (.sym name) (.cons tg (.cons t .nil))) rest => do
    let tg ← tagOf tg
    let t ← tyOf fuel t
    let rest ← ctorsOf fuel rest
    pure (.cons name tg t rest)
  | _ + 1, _ => none
end

def valSize : Val → Nat
  | .cons h t => valSize h + valSize t + 1
  | _ => 1

def parseTy (s : String) : Option Ty := do
  let v ← SExp.parse s
  tyOf (valSize v + 1) v

def envOf : Val → Option (List Ty)
  | .nil => some []
  | .cons t rest => do
    let t ← tyOf (valSize t + 1) t
    let rest ← envOf rest
    pure (t :: rest)
  | _ => none

def parseEnv (s : String) : Option Env := do
  let v ← SExp.parse s
  let l ← envOf v
  let a := l.toArray
  pure fun id => a[id]?

end Tongo.Tlb.TyText
